(* Proofs/ValueDeAgreeMisc.v — C16, second clause, completed: byte buffers (serde_bytes::ByteBuf) and the 128-bit integers, and the
   final statement over the whole universe of owned type programs without f32 ([agree_ty_full]):
     bool, unit, unit struct, String, char, i8..i128 / u8..u128, f64, serde_json::Value, IgnoredAny, ByteBuf,
     Option, newtype struct, Vec, tuple, tuple struct, maps (every key type but f32), structs, externally tagged enums.
   * ByteBuf: a string (the Value route hands over the String's bytes, the text route runs parse_str_raw: the same bytes for a
     literal that is text) or an array of u8 (ByteBuf's visit_seq: the one place where the Value route uses its spare fuel level).
   * i128 / u128: do_deserialize_i128 / u128 scan the integer part of the literal only (scan_integer128), whatever follows.  On the
     literal of a float (`1.5`, `1e20`) the Value route answers invalid_type, while the text route returns the integer part and stops
     in front of the fraction / exponent — from_str then fails with trailing characters, a surrounding container with "expected `,`".
     This is what the "stuck" clause of [okrel2] (Proofs/ValueDeAgreeMap.v) is for.  It needs to know that the float literal the
     serializer prints HAS a fraction or an exponent (ryu always prints one: `1.0`, `1e20`): hypothesis [ryu_float_form] — without
     it the claim is false in the model (a formatter printing 1e20 as `100000000000000000000` satisfies ryu_json and
     ryu_reads_back_value, from_str::<i128> reads that text as an integer, from_value::<i128> rejects the float). *)
From SJ Require Import Base.Bytes Base.Utf8 Base.FloatB Gen.Tables
  Model.Read Model.Str Model.Num Model.NumF32 Model.Value Model.De Model.Ignore Model.Ty Model.NumberM Model.DeTyped Model.ValueDe
  Spec.Syntax Spec.Denote Proofs.GrammarIgnore Proofs.GrammarValueComplete Proofs.SerValue Proofs.GrammarValueBase Proofs.GrammarStr Proofs.GrammarNum
  Proofs.ValueDeRef Proofs.ValueDeAgree.
From SJ Require Import Proofs.SerRender Proofs.SerWf Proofs.SerDenote Proofs.ValueDeAgreeKey Proofs.ValueDeAgreeMap Proofs.ValueDeAgreeStruct
  Proofs.ValueDeAgreeEnum.
From SJ Require Proofs.NumInt Proofs.TypedInt Proofs.StrEscapeBytes.
From Flocq Require Import Core BinarySingleNaN.
Require Import Lia ZifyBool ZifyNat ZifyN.
Open Scope N_scope.

(* ---- the 128-bit requests on the reader (no hypothesis on the configuration) ------------------------------------------------------------- *)
Section Int128.
  Variable cf : cfg.
  Local Notation E := (mkEnv RSlice TEof cf).

  Lemma ws_byte_is_ws b : ws_byte b = false -> is_ws b = false.
  Proof. intros H. rewrite is_ws_eq. exact H. Qed.

  (* leading whitespace is skipped *)
  Lemma int128_skip_ws it f w b r o p d : is_128 it = true -> ws_ok w = true -> ws_byte b = false ->
    de_typed (S f) E (TInt it) (mkSt (w ++ b :: r) o p d) = de_typed (S f) E (TInt it) (mkSt (b :: r) (o + length w) p d).
  Proof.
    intros H128 Hw Hb. apply ws_byte_is_ws in Hb.
    destruct it; try discriminate H128; cbn [de_typed]; unfold deserialize_int, deserialize_i128, deserialize_u128;
      rewrite (pw_complete cf w b r o p d Hw Hb), (TypedInt.parse_whitespace_hd E b r (o + length w) p d Hb); reflexivity.
  Qed.

  (* a first byte that is neither a digit nor `-` *)
  Lemma int128_reject it f w b r o p d : is_128 it = true -> ws_ok w = true -> ws_byte b = false -> is_digit b = false -> b <> 45 ->
    not_ok (de_typed (S f) E (TInt it) (mkSt (w ++ b :: r) o p d)).
  Proof.
    intros H128 Hw Hb Hd H45 a. rewrite (int128_skip_ws it f w b r o p d H128 Hw Hb). apply ws_byte_is_ws in Hb. apply N.eqb_neq in H45.
    assert (Hscan : forall o' p', forall x, scan_integer128 E (mkSt (b :: r) o' p' d) <> Ok x).
    { intros o' p' [buf s2] Hsc. destruct (ValueDeAgreeKey.scan128_inv E _ _ _ _ _ _ eq_refl Hsc) as (Hl & Hok & _).
      destruct (int_ok_inv buf Hok) as [->|(c & r' & -> & Hc & _)]; cbn [app] in Hl; injection Hl as -> _.
      - discriminate Hd.
      - unfold is_digit19 in Hc. unfold is_digit in Hd. lia. }
    destruct it; try discriminate H128; cbn [de_typed]; unfold deserialize_int, deserialize_i128, deserialize_u128;
      rewrite (TypedInt.parse_whitespace_hd E b r (o + length w) p d Hb); cbn [lift tbind]; rewrite H45; cbv zeta iota.
    - destruct (scan_integer128 E (mkSt (b :: r) (o + length w) true d)) as [x| | |] eqn:Hsc; cbn [lift tbind]; try discriminate.
      exfalso. exact (Hscan _ _ x Hsc).
    - destruct (scan_integer128 E (mkSt (b :: r) (o + length w) true d)) as [x| | |] eqn:Hsc; cbn [lift tbind]; try discriminate.
      exfalso. exact (Hscan _ _ x Hsc).
  Qed.

  (* an integer literal *)
  Lemma render_int n : nfrac n = None -> nexp n = None -> render_num n = TypedInt.int_lit (nneg n) (nint n).
  Proof. intros Hf He. unfold render_num, TypedInt.int_lit. rewrite Hf, He, !app_nil_r. reflexivity. Qed.

  (* a literal with a fraction or an exponent: what follows the integer part *)
  Lemma render_float n : num_ok n = true -> nfrac n <> None \/ nexp n <> None ->
    exists c0 tl0, render_num n = TypedInt.int_lit (nneg n) (nint n) ++ c0 :: tl0 /\ (c0 = 46 \/ c0 = 69 \/ c0 = 101).
  Proof.
    intros Hok H. unfold render_num, TypedInt.int_lit. destruct (nfrac n) as [fr|] eqn:Hfr.
    - eexists 46, _. split; [rewrite <- app_assoc; cbn [app]; reflexivity|]. auto.
    - destruct (nexp n) as [[[e sg] ds]|] eqn:Hex; [|destruct H as [H|H]; congruence].
      unfold num_ok in Hok. rewrite Hex in Hok. apply andb_prop in Hok as [_ Hok]. apply andb_prop in Hok as [Hok _]. apply andb_prop in Hok as [He _].
      eexists e, _. split; [cbn [app]; rewrite <- app_assoc; reflexivity|]. lia.
  Qed.

  Lemma nfollow_not_digit rst : follow_ok rst -> TypedInt.not_digit_next rst.
  Proof. intros H. apply follow_nfollow in H. destruct rst as [|c r]; [exact I|]. cbn [nfollow TypedInt.not_digit_next] in *. tauto. Qed.
End Int128.

Section Misc2.
  Variable NR : numlit -> num -> Prop.
  Variable cf : cfg.
  Variable fx : fenv.
  Hypothesis Hap : arbitrary_precision cf = false.
  Local Notation E := (mkEnv RSlice TEof cf).
  Local Notation shp2 := (shape2 NR).
  Local Notation agree_at2 := (agree_at2 NR cf fx).

  Lemma okrel2_fix r (tr : tres (dval * st)) s rst : okrel2 unborrow r tr s rst -> okrel2 unborrow r (fix_position E tr) s rst.
  Proof.
    unfold okrel2. destruct r; try tauto; destruct tr; cbn [fix_position]; try tauto.
    - intros (d' & s' & Heq & _). discriminate Heq.
    - intros _ d' s' Heq. discriminate Heq.
  Qed.

  Lemma claimb_int fv it x : claimb fv (TInt it) x = true.
  Proof. destruct fv; reflexivity. Qed.

  (* ---- ByteBuf ------------------------------------------------------------------------------------------------------------------------ *)
  Lemma agree_bytes2 : agree_at2 TBytes.
  Proof.
    intros c v fuel fv s w rst Hwf Hden Hsh Hcl Hwv Hw Hfol Hdb Hr Hfuel Hfv. cbn [ty_depth] in Hfuel, Hfv.
    destruct fuel as [|f]; [lia|]. destruct fv as [|fv]; [lia|].
    destruct (render_first c Hwf) as (b & r & Hren & Hbws & Hkind).
    pose proof Hr as Hr0. rewrite Hren in Hr. revert Hr. lnorm. intros Hr.
    destruct (first_not c b r Hwf Hren) as (_ & Hn91 & _ & Hn34 & _).
    destruct (pws_head cf s w b (r ++ rst) Hw Hbws Hr) as (s1 & Hpw & Hr1 & Hd1).
    cbn [de_typed]. rewrite Hpw. cbn [lift tbind].
    destruct c as [| | |n|ps|w0 es|w0 ms]; destruct v as [|[|]| |sv|l|m]; cbn [shape2 shape] in Hsh; try discriminate Hsh; try contradiction;
      cbn [de_value_owned]; unfold verr.
    all: try (apply okrel2_not_ok; intros a0; apply fix_position_not_ok;
              assert (H34 : b <> 34) by (apply Hn34; intros; discriminate);
              assert (H91 : b <> 91) by (apply Hn91; intros; discriminate);
              apply N.eqb_neq in H34, H91; rewrite H34, H91; apply pit_not_ok).
    - (* a string *)
      destruct Hkind as [-> ->]. change (34 =? 34) with true. cbv iota.
      cbn [wfb denote] in Hwf, Hden. unfold str_text in Hden. destruct (str_decode ps) as [b0|] eqn:Hdec; [|discriminate Hden].
      destruct (utf8_valid b0); [|discriminate Hden]. cbn [option_map] in Hden. injection Hden as <-.
      unfold discard. rewrite Hr1. cbn [tl]. rewrite <- app_assoc. cbn [app].
      rewrite (StrEscapeBytes.parse_str_raw_complete cf ps rst (S (off s1)) false (depth s1) (StrEscapeBytes.str_ok_raw_of_ok ps Hwf)).
      cbn [lift tbind fix_position okrel2]. eexists. eexists. split; [reflexivity|].
      split; [cbn [unborrow]; f_equal; exact (StrEscapeBytes.str_decode_wtf8_text (length ps) ps (le_n _) b0 Hdec)|].
      split; [reflexivity|exact Hd1].
    - (* an array of u8 *)
      destruct Hkind as [-> ->]. change (91 =? 34) with false. change (91 =? 91) with true. cbv iota.
      apply okrel2_fix. apply (okrel2_depth unborrow _ _ s1 s rst Hd1).
      cbn [wfb denote] in Hwf, Hden. apply andb_prop in Hwf as [Hw0 Hwfe].
      destruct (denote_elems cf es) as [l'|] eqn:Hde; [|discriminate Hden]. injection Hden as <-.
      assert (Hr1' : rest s1 = [] ++ 91 :: seq_text true w0 es ++ 93 :: rst) by (rewrite Hr1; lnorm; reflexivity).
      assert (Hdb1 : dbudget cf (S (cdepth_elems es)) (depth s1)) by (rewrite Hd1; exact Hdb).
      destruct (open_frame cf 91 _ (cdepth_elems es) s1 [] eq_refl eq_refl Hr1' Hdb1) as (s1' & s2 & Hpw' & Hen & Hrb & Hd1' & Hd2 & Hdb2).
      unfold deserialize_seq. rewrite Hpw'. cbn [lift tbind]. change (91 =? 91) with true. cbv iota.
      cbn [vfuel] in Hfuel. cbn [wf_value] in Hwv.
      apply (elems_array NR cf fx Hap 0 (fun ds => DBytes (u8s_of ds)) (TInt U8) w0 es l' f fv s1 s1' s2 rst); try assumption.
      + intros a b' Hab. cbn [unborrow]. f_equal. rewrite <- (u8s_of_ub a), <- (u8s_of_ub b'), Hab. reflexivity.
      + apply agree_at_2k. exact (agree_all cf fx Hap 1 (TInt U8) (le_n _) eq_refl).
      + apply forallb_forall. intros x _. apply claimb_int.
      + cbn [ty_depth]. clear - Hfuel. lia.
      + cbn [ty_depth]. clear - Hfv. lia.
  Qed.

  (* ---- i128 / u128 --------------------------------------------------------------------------------------------------------------------- *)
  (* what [shape2]'s number relation must say: integers are printed as integers, floats with a fraction or an exponent *)
  Definition NR_int128 : Prop :=
    (forall n u, NR n (NPos u) -> u <= u64_max ->
        nneg n = false /\ nfrac n = None /\ nexp n = None /\ digits_val (nint n) 0 = Z.of_N u)
    /\ (forall n i, NR n (NNeg i) -> (- Z.of_N i64_min_abs <= i < 0)%Z ->
        nneg n = true /\ nfrac n = None /\ nexp n = None /\ digits_val (nint n) 0 = (- i)%Z)
    /\ (forall n f, NR n (NFloat f) -> is_finite f = true -> nfrac n <> None \/ nexp n <> None).

  Lemma value_int128 it fv num : de_value_owned (S fv) cf fx (TInt it) (VNum num) =
    match num with
    | NPos u => of_visit (visit_int it (PU64 u) st0)
    | NNeg i => of_visit (visit_int it (PI64 i) st0)
    | NFloat f => of_visit (visit_int it (PF64 f) st0)
    | NLit _ => VPanic
    end.
  Proof. cbn [de_value_owned value_number_owned]. unfold number_de_int. rewrite Hap. unfold number_any. rewrite Hap. destruct num; reflexivity. Qed.

  Lemma agree_int128 it : is_128 it = true -> NR_int128 -> agree_at2 (TInt it).
  Proof.
    intros H128 (NRp & NRn & NRf) c v fuel fv s w rst Hwf Hden Hsh Hcl Hwv Hw Hfol Hdb Hr Hfuel Hfv. cbn [ty_depth] in Hfuel, Hfv.
    destruct fuel as [|f]; [lia|]. destruct fv as [|fv]; [lia|].
    destruct (render_first c Hwf) as (b & r & Hren & Hbws & Hkind).
    destruct s as [r0 o p d]. cbn [rest depth] in *. subst r0.
    assert (Hvnn : forall x, (forall num, x <> VNum num) -> exists k0, de_value_owned (S fv) cf fx (TInt it) x = VErr (Message k0) 0 0).
    { intros x Hx. cbn [de_value_owned]. unfold value_number_owned. rewrite Hap. destruct x as [|b0|n0|s0|l0|m0]; try (eexists; reflexivity). exfalso. exact (Hx n0 eq_refl). }
    assert (Hrej : is_digit b = false -> b <> 45 -> not_ok (de_typed (S f) E (TInt it) (mkSt (w ++ render c ++ rst) o p d))).
    { intros Hd H45. rewrite Hren. cbn [app]. apply int128_reject; assumption. }
    destruct c as [| | |n|ps|w0 es|w0 ms]; destruct v as [|[|]|num|sv|l|m]; cbn [shape2 shape] in Hsh; try discriminate Hsh; try contradiction.
    all: try (match goal with |- okrel2 _ (de_value_owned _ _ _ _ ?x) _ _ _ =>
                destruct (Hvnn x) as [k0 ->]; [intros; discriminate|] end;
              apply okrel2_not_ok; apply Hrej; [|]; first [subst b|destruct Hkind as [-> _]]; first [reflexivity|discriminate]).
    (* a number *)
    clear Hvnn Hrej. cbn [wfb denote wf_value render] in Hwf, Hden, Hwv, Hren |- *.
    rewrite value_int128.
    assert (Hint : int_ok (nint n) = true).
    { unfold num_ok in Hwf. apply andb_prop in Hwf as [Hwf _]. apply andb_prop in Hwf as [Hwf _]. exact Hwf. }
    assert (Hskip : de_typed (S f) E (TInt it) (mkSt (w ++ render_num n ++ rst) o p d)
                    = de_typed (S f) E (TInt it) (mkSt (render_num n ++ rst) (o + length w) p d)).
    { rewrite Hren. cbn [app]. apply int128_skip_ws; assumption. }
    rewrite Hskip. clear Hskip.
    destruct num as [u|i|fl|lit]; cbn [wf_num] in Hwv; rewrite Hap in Hwv; cbn [negb andb] in Hwv; try discriminate Hwv.
    - (* a non-negative integer *)
      apply N.leb_le in Hwv. destruct (NRp n u Hsh Hwv) as (Hneg & Hfr & Hex & Hdv).
      rewrite (render_int n Hfr Hex), Hneg.
      assert (Hin : in_range it (Z.of_N u) = true).
      { clear - Hwv H128. unfold u64_max in Hwv. destruct it; try discriminate H128; unfold in_range; cbn [int_min int_max]; lia. }
      unfold visit_int. rewrite Hin. cbn [of_visit okrel2].
      destruct it; try discriminate H128.
      + rewrite (TypedInt.C06_text_i128 f E false (nint n) rst (o + length w) p d eq_refl Hint (nfollow_not_digit rst Hfol)).
        unfold TypedInt.int_lit_val. rewrite Hdv, Hin. eexists. eexists. split; [reflexivity|]. split; [reflexivity|]. split; reflexivity.
      + rewrite (TypedInt.C06_text_u128 f E false (nint n) rst (o + length w) p d eq_refl Hint (nfollow_not_digit rst Hfol)).
        unfold TypedInt.int_lit_val. rewrite Hdv, Hin. eexists. eexists. split; [reflexivity|]. split; [reflexivity|]. split; reflexivity.
    - (* a negative integer *)
      apply andb_prop in Hwv as [Hlo Hlt]. assert (Hi : (i < 0)%Z) by (clear - Hlt; lia).
      assert (Hi2 : (- Z.of_N i64_min_abs <= i < 0)%Z) by (clear - Hlo Hi; lia).
      destruct (NRn n i Hsh Hi2) as (Hneg & Hfr & Hex & Hdv).
      rewrite (render_int n Hfr Hex), Hneg. unfold visit_int.
      destruct it; try discriminate H128.
      + assert (Hin : in_range I128 i = true) by (clear - Hlo Hi; unfold i64_min_abs in Hlo; unfold in_range; cbn [int_min int_max]; lia).
        rewrite Hin. cbn [of_visit okrel2].
        rewrite (TypedInt.C06_text_i128 f E true (nint n) rst (o + length w) p d eq_refl Hint (nfollow_not_digit rst Hfol)).
        unfold TypedInt.int_lit_val. rewrite Hdv. rewrite Z.opp_involutive. rewrite Hin.
        eexists. eexists. split; [reflexivity|]. split; [reflexivity|]. split; reflexivity.
      + assert (Hin : in_range U128 i = false) by (clear - Hi; unfold in_range; cbn [int_min int_max]; lia).
        rewrite Hin. cbn [of_visit]. unfold verr. apply okrel2_not_ok.
        rewrite (TypedInt.C06_text_u128 f E true (nint n) rst (o + length w) p d eq_refl Hint (nfollow_not_digit rst Hfol)). intros a. discriminate.
    - (* a float: the text route stops in front of the fraction / exponent *)
      destruct (render_float n Hwf (NRf n fl Hsh Hwv)) as (c0 & tl0 & Hrn & Hc0).
      rewrite Hrn, <- app_assoc. cbn [app].
      assert (Hnd : TypedInt.not_digit_next (c0 :: tl0 ++ rst)) by (cbn [TypedInt.not_digit_next]; destruct Hc0 as [->|[->| ->]]; reflexivity).
      assert (Hst : forall x, stuck (rest (NumInt.st_after x (c0 :: tl0 ++ rst) (o + length w) d))).
      { intros x. cbn [NumInt.st_after rest]. exists c0, (tl0 ++ rst). auto. }
      cbn [visit_int of_visit]. unfold verr. cbn [okrel2].
      destruct it; try discriminate H128.
      + rewrite (TypedInt.C06_text_i128 f E (nneg n) (nint n) (c0 :: tl0 ++ rst) (o + length w) p d eq_refl Hint Hnd). cbv zeta.
        destruct (in_range I128 _); intros d' s' Heq; [|discriminate Heq]. injection Heq as _ <-. apply Hst.
      + rewrite (TypedInt.C06_text_u128 f E (nneg n) (nint n) (c0 :: tl0 ++ rst) (o + length w) p d eq_refl Hint Hnd). cbv zeta.
        destruct (nneg n); [intros d' s' Heq; discriminate Heq|].
        destruct (in_range U128 _); intros d' s' Heq; [|discriminate Heq]. injection Heq as _ <-. apply Hst.
  Qed.

  (* ---- every owned type program without f32 ---------------------------------------------------------------------------------------- *)
  Variable w128 : bool.
  Hypothesis HNR128 : w128 = true -> NR_int128.

  Fixpoint agree_ty_full (t : ty) : bool :=
    match t with
    | TBool | TUnit | TUnitStruct | TStr | TChar | TF64 | TIgnored | TValue | TBytes => true
    | TInt it => negb (is_128 it) || w128
    | TOption t1 | TNewtype t1 | TSeq t1 => agree_ty_full t1
    | TTuple ts | TTupleStruct ts => forallb agree_ty_full ts
    | TMap k t1 => agree_kty k && agree_ty_full t1
    | TStruct fs => forallb (fun p => agree_ty_full (snd p)) fs
    | TEnum vs => forallb (fun p => match snd p with
                                    | VUnit => true
                                    | VNewtype t1 => agree_ty_full t1
                                    | VTuple ts => forallb agree_ty_full ts
                                    | VStruct fs => forallb (fun q => agree_ty_full (snd q)) fs
                                    end) vs
    | _ => false
    end.

  Theorem agree_all_full : forall n t, (ty_depth t <= n)%nat -> agree_ty_full t = true -> agree_at2 t.
  Proof.
    induction n as [|n IH]; intros t Hn Ht; [pose proof (ty_depth_pos' t); lia|].
    destruct t; cbn [agree_ty_full] in Ht; try discriminate Ht; try (apply (agree_leaf2 NR cf fx Hap); reflexivity).
    - (* integers *)
      destruct (is_128 t) eqn:H128.
      + cbn [negb orb] in Ht. apply agree_int128; [exact H128|exact (HNR128 Ht)].
      + apply (agree_leaf2 NR cf fx Hap). cbn [leaf_ty]. rewrite H128. reflexivity.
    - apply agree_bytes2.
    - apply (agree_option2 NR cf fx Hap), IH; [cbn [ty_depth] in Hn; lia|exact Ht].
    - apply (agree_newtype2 NR cf fx Hap), IH; [cbn [ty_depth] in Hn; lia|exact Ht].
    - apply (agree_seq2 NR cf fx Hap), IH; [cbn [ty_depth] in Hn; lia|exact Ht].
    - apply (agree_tuple_gen2 NR cf fx Hap _ ts (or_introl eq_refl)). intros t' Hin. apply IH.
      + pose proof (lmax_depth_in' ts t' Hin). rewrite (proj1 (ty_depth_tuple ts)) in Hn. lia.
      + rewrite forallb_forall in Ht. apply Ht, Hin.
    - apply (agree_tuple_gen2 NR cf fx Hap _ ts (or_intror eq_refl)). intros t' Hin. apply IH.
      + pose proof (lmax_depth_in' ts t' Hin). rewrite (proj2 (ty_depth_tuple ts)) in Hn. lia.
      + rewrite forallb_forall in Ht. apply Ht, Hin.
    - apply andb_prop in Ht as [Hk Ht]. apply (agree_map2 NR cf fx Hap); [exact Hk|]. apply IH; [cbn [ty_depth] in Hn; lia|exact Ht].
    - apply (agree_struct2 NR cf fx Hap). intros p Hp. apply IH.
      + pose proof (fmax_depth_in fields p Hp). rewrite ty_depth_struct in Hn. lia.
      + rewrite forallb_forall in Ht. apply Ht, Hp.
    - apply (agree_enum2 NR cf fx Hap). intros p Hp. rewrite forallb_forall in Ht. specialize (Ht p Hp).
      pose proof (vmax_depth_in variants p Hp) as Hd. rewrite ty_depth_enum in Hn.
      destruct (snd p) as [|t1|ts|fs]; cbn [variant_ok vdepth] in *.
      + exact I.
      + apply IH; [lia|exact Ht].
      + intros t' Hin. apply IH; [pose proof (lmax_depth_in' ts t' Hin); lia|]. rewrite forallb_forall in Ht. apply Ht, Hin.
      + intros q Hq. apply IH; [pose proof (fmax_depth_in fs q Hq); lia|]. rewrite forallb_forall in Ht. apply Ht, Hq.
  Qed.
End Misc2.

(* ---- the serializer's number literals ------------------------------------------------------------------------------------------------------- *)
From SJ Require Import Model.Sval Model.Ser Model.ValueSer Spec.Layout Proofs.SerBase Proofs.SerMain Proofs.SerFinal Proofs.ValueDeText.

(* ryu prints a finite f64 with a fraction or an exponent ("1.0", "1e20", "1.5e-7"): never as a bare integer *)
Definition ryu_float_form (fmt64 : N -> bytes) : Prop :=
  forall b, finite64 b = true -> exists n, numlit_of_text (fmt64 b) = Some n /\ (nfrac n <> None \/ nexp n <> None).

Lemma NRser_int128 cf fmt32 fmt64 : ryu_float_form fmt64 -> NR_int128 (NRser cf fmt32 fmt64).
Proof.
  intros HF. unfold NR_int128, NRser.
  assert (Hb : u64_max < 10 ^ 40) by (vm_compute; reflexivity).
  assert (Hb2 : i64_min_abs < 10 ^ 40) by (vm_compute; reflexivity).
  split; [|split].
  - intros n u H Hu. cbn [sval_of_num cst_of] in H. unfold cint in H. injection H as <-. cbn [nneg nfrac nexp nint].
    assert (Hz : (Z.of_N u <? 0)%Z = false) by lia. rewrite Hz, N2Z.id. repeat split. apply itoa_val. lia.
  - intros n i H Hi. cbn [sval_of_num cst_of] in H. unfold cint in H. injection H as <-. cbn [nneg nfrac nexp nint].
    assert (Hz : (i <? 0)%Z = true) by lia. rewrite Hz. repeat split. rewrite itoa_val by lia. lia.
  - intros n f H Hfin. cbn [sval_of_num cst_of] in H. destruct (f64_finite_bits (bits_of_b64 f)) eqn:Hfb; [|discriminate H].
    assert (Hn : n = match numlit_of_text (fmt64 (bits_of_b64 f)) with Some n0 => n0 | None => mkNum false (fmt64 (bits_of_b64 f)) None None end)
      by (unfold cnum_text in H; congruence).
    subst n. destruct (HF _ Hfb) as (n0 & -> & Hn0). exact Hn0.
Qed.

(* ---- C16, all owned type programs without f32 ------------------------------------------------------------------------------------------------ *)
(* from_value::<T>(v) against from_str::<T>(to_string(&v)) for every T of [agree_ty_full false]: everything but f32 and the 128-bit
   integers — on the (T, v) pairs of the claim ([claimb]: no zero-length tuple variant on `[]`, no struct variant written as an array). *)
Theorem C16_agree_full : forall cf fx fmt32 fmt64 t v,
  arbitrary_precision cf = false -> ryu_json fmt32 fmt64 -> ryu_reads_back_value cf fmt64 ->
  agree_ty_full false t = true -> wf_value cf v = true -> claimb (value_de_fuel t) t v = true ->
  exists bufs c, serialize cf fmt32 fmt64 Compact (sval_of_value v) = Ok bufs /\ concat bufs = render c /\
    ((limit_disabled cf = false -> (cdepth c <= 127)%nat) ->
     agree (from_value_owned cf fx t v) (from_input_typed (mkEnv RSlice TEof cf) t (concat bufs))).
Proof.
  intros cf fx fmt32 fmt64 t v Hap HR H4 Ht W Hcl.
  apply (agree_text_gen cf fx fmt32 fmt64 t v Hap HR H4); [|exact W|exact Hcl].
  refine (agree_all_full (NRser cf fmt32 fmt64) cf fx Hap false _ (ty_depth t) t (le_n _) Ht). intros H. discriminate H.
Qed.

(* ... and with i128 / u128, given that the float formatter prints a fraction or an exponent *)
Theorem C16_agree_full128 : forall cf fx fmt32 fmt64 t v,
  arbitrary_precision cf = false -> ryu_json fmt32 fmt64 -> ryu_reads_back_value cf fmt64 -> ryu_float_form fmt64 ->
  agree_ty_full true t = true -> wf_value cf v = true -> claimb (value_de_fuel t) t v = true ->
  exists bufs c, serialize cf fmt32 fmt64 Compact (sval_of_value v) = Ok bufs /\ concat bufs = render c /\
    ((limit_disabled cf = false -> (cdepth c <= 127)%nat) ->
     agree (from_value_owned cf fx t v) (from_input_typed (mkEnv RSlice TEof cf) t (concat bufs))).
Proof.
  intros cf fx fmt32 fmt64 t v Hap HR H4 HF Ht W Hcl.
  apply (agree_text_gen cf fx fmt32 fmt64 t v Hap HR H4); [|exact W|exact Hcl].
  exact (agree_all_full (NRser cf fmt32 fmt64) cf fx Hap true (fun _ => NRser_int128 cf fmt32 fmt64 HF) (ty_depth t) t (le_n _) Ht).
Qed.


(* ---- the three routes of property C16 together --------------------------------------------------------------------------------------------- *)
Lemma agree_ty_full_owned w : forall n t, (ty_depth t <= n)%nat -> agree_ty_full w t = true -> owned_ty t = true.
Proof.
  induction n as [|n IH]; intros t Hn Ht; [pose proof (ty_depth_pos' t); lia|].
  destruct t; cbn [agree_ty_full] in Ht; try discriminate Ht; cbn [owned_ty]; try reflexivity.
  - apply IH; [cbn [ty_depth] in Hn; lia|exact Ht].
  - apply IH; [cbn [ty_depth] in Hn; lia|exact Ht].
  - apply IH; [cbn [ty_depth] in Hn; lia|exact Ht].
  - apply forallb_forall. intros t' Hin. apply IH.
    + pose proof (lmax_depth_in' ts t' Hin). rewrite (proj1 (ty_depth_tuple ts)) in Hn. lia.
    + rewrite forallb_forall in Ht. apply Ht, Hin.
  - apply forallb_forall. intros t' Hin. apply IH.
    + pose proof (lmax_depth_in' ts t' Hin). rewrite (proj2 (ty_depth_tuple ts)) in Hn. lia.
    + rewrite forallb_forall in Ht. apply Ht, Hin.
  - apply andb_prop in Ht as [_ Ht]. apply IH; [cbn [ty_depth] in Hn; lia|exact Ht].
  - apply forallb_forall. intros p Hp. apply IH.
    + pose proof (fmax_depth_in fields p Hp). rewrite ty_depth_struct in Hn. lia.
    + rewrite forallb_forall in Ht. apply Ht, Hp.
  - apply forallb_forall. intros p Hp. rewrite forallb_forall in Ht. specialize (Ht p Hp).
    pose proof (vmax_depth_in variants p Hp) as Hd. rewrite ty_depth_enum in Hn.
    destruct (snd p) as [|t1|ts|fs]; cbn [vdepth] in *.
    + reflexivity.
    + apply IH; [lia|exact Ht].
    + apply forallb_forall. intros t' Hin. apply IH; [pose proof (lmax_depth_in' ts t' Hin); lia|]. rewrite forallb_forall in Ht. apply Ht, Hin.
    + apply forallb_forall. intros q Hq. apply IH; [pose proof (fmax_depth_in fs q Hq); lia|]. rewrite forallb_forall in Ht. apply Ht, Hq.
Qed.

Lemma agree_transfer r1 r2 tr : same_mod_borrow r1 r2 -> agree r1 tr -> agree r2 tr.
Proof.
  unfold same_mod_borrow, agree. destruct r1, r2; try tauto.
  intros H (b & Hb & Hu). exists b. split; [exact Hb|]. congruence.
Qed.

(* from_value::<T>(v), T::deserialize(&v) and from_str::<T>(&to_string(&v)) all succeed with equal results (up to which strings were
   handed over borrowed) or all fail — for every type program of [agree_ty_full w128] (w128: with the 128-bit integers, which needs
   [ryu_float_form]), on the (T, v) pairs of the claim *)
Theorem C16_three_way : forall cf fx fmt32 fmt64 w128 t v,
  arbitrary_precision cf = false -> ryu_json fmt32 fmt64 -> ryu_reads_back_value cf fmt64 -> (w128 = true -> ryu_float_form fmt64) ->
  agree_ty_full w128 t = true -> wf_value cf v = true -> claimb (value_de_fuel t) t v = true ->
  exists bufs c, serialize cf fmt32 fmt64 Compact (sval_of_value v) = Ok bufs /\ concat bufs = render c /\
    ((limit_disabled cf = false -> (cdepth c <= 127)%nat) ->
     agree (from_value_owned cf fx t v) (from_input_typed (mkEnv RSlice TEof cf) t (concat bufs))
     /\ agree (from_value_ref cf fx t v) (from_input_typed (mkEnv RSlice TEof cf) t (concat bufs))
     /\ same_mod_borrow (from_value_owned cf fx t v) (from_value_ref cf fx t v)).
Proof.
  intros cf fx fmt32 fmt64 w128 t v Hap HR H4 HF Ht W Hcl.
  destruct (agree_text_gen cf fx fmt32 fmt64 t v Hap HR H4) as (bufs & c & Hs & Hc & Hag); [|exact W|exact Hcl|].
  - exact (agree_all_full (NRser cf fmt32 fmt64) cf fx Hap w128 (fun H => NRser_int128 cf fmt32 fmt64 (HF H)) (ty_depth t) t (le_n _) Ht).
  - exists bufs, c. split; [exact Hs|]. split; [exact Hc|]. intros Hd. specialize (Hag Hd).
    pose proof (owned_ref_agree cf fx t v (agree_ty_full_owned w128 (ty_depth t) t (le_n _) Ht)) as Hsame.
    split; [exact Hag|]. split; [exact (agree_transfer _ _ _ Hsame Hag)|exact Hsame].
Qed.

(* ---- the hypotheses are satisfiable, the statements say what they should ------------------------------------------------------------------- *)
(* the formatter instance of Proofs/SerMain.v (ryu_json_instance) prints an exponent *)
Example ryu_float_form_instance : ryu_float_form (fun _ => [49; 101; 49; 54]).
Proof. intros b _. eexists. split; [vm_compute; reflexivity|]. right. discriminate. Qed.

Definition ex_ty : ty :=
  TMap (KInt Ty.I128)
    (TStruct [([97], TOption TStr);
              ([98], TEnum [([65], VUnit); ([66], VTuple [TBytes; TInt Ty.U128]); ([67], VStruct [([120], TInt Ty.U128)]); ([68], VNewtype (TSeq TValue))])]).
(* {"-5": {"b": {"B": [[1,255], 7]}, "zz": null}} *)
Definition ex_v : value :=
  VObj [([45; 53], VObj [([98], VObj [([66], VArr [VArr [VNum (NPos 1); VNum (NPos 255)]; VNum (NPos 7)])]); ([122; 122], VNull)])].

Example C16_ex_full_claim : agree_ty_full true ex_ty = true /\ owned_ty ex_ty = true /\ claimb (value_de_fuel ex_ty) ex_ty ex_v = true.
Proof. repeat split; vm_compute; reflexivity. Qed.

(* a map with an i128 key, a struct with a missing Option field and an unknown member, a tuple variant holding a byte buffer and a u128:
   the two routes of the model, run *)
Example C16_ex_full_run :
  from_value_owned ex_cfd ex_fx0 ex_ty ex_v = VOk (DMap [(DInt (-5), DStruct [DNone; DVariant [66] (DSeq [DBytes [1; 255]; DInt 7])])])
  /\ from_input_typed (mkEnv RSlice TEof ex_cfd) ex_ty
       [123; 34; 45; 53; 34; 58; 123; 34; 98; 34; 58; 123; 34; 66; 34; 58; 91; 91; 49; 44; 50; 53; 53; 93; 44; 55; 93; 125; 44; 34; 122; 122;
        34; 58; 110; 117; 108; 108; 125; 125]
     = TOk (DMap [(DInt (-5), DStruct [DNone; DVariant [66] (DSeq [DBytes [1; 255]; DInt 7])])]).
Proof. split; vm_compute; reflexivity. Qed.

(* i128 on the literal of a float: the seed's request returns the integer part and stops in front of the fraction (the "stuck" clause
   of [okrel2]); from_str then reports trailing characters, from_value an invalid type *)
Example C16_ex_i128_stuck :
  de_typed 10 (mkEnv RSlice TEof ex_cfd) (TInt Ty.I128) (init_st [49; 46; 53]) = TOk (DInt 1, mkSt [46; 53] 1 true 128)
  /\ from_input_typed (mkEnv RSlice TEof ex_cfd) (TInt Ty.I128) [49; 46; 53] = TErr TrailingCharacters 2
  /\ (forall f, from_value_owned ex_cfd ex_fx0 (TInt Ty.I128) (VNum (NFloat f)) = VErr (Message MInvalidType) 0 0).
Proof. repeat split; vm_compute; reflexivity. Qed.

(* why [ryu_float_form] is needed for the 128-bit targets: a float printed without fraction and exponent is an integer for from_str::<i128>
   (1e20 printed as 100000000000000000000 reads back as the same f64, so ryu_json / ryu_reads_back_value do not exclude it) *)
Example C16_ex_i128_bare_float_text :
  from_input_typed (mkEnv RSlice TEof ex_cfd) (TInt Ty.I128) [49; 48; 48; 48; 48; 48; 48; 48; 48; 48; 48; 48; 48; 48; 48; 48; 48; 48; 48; 48; 48]
  = TOk (DInt 100000000000000000000).
Proof. vm_compute. reflexivity. Qed.

Print Assumptions C16_agree_full.
Print Assumptions C16_agree_full128.
Print Assumptions C16_three_way.
