(* Proofs/SerMain.v — the statements pinned in Properties/C03.v, C15.v, C13w.v, assembled from the Ser* files,
   with every hypothesis explicit. *)
From SJ Require Import Base.Bytes Base.Utf8 Base.FloatB Gen.Tables Model.Read Model.Num Model.Value Model.De Model.Sval Model.Ser Model.ValueSer
  Spec.Syntax Spec.Denote Spec.Layout
  Proofs.SerUtf8 Proofs.SerBase Proofs.SerHint Proofs.SerRender Proofs.SerWf Proofs.SerDenote Proofs.SerValue Proofs.SerToValue
  Proofs.SerLayout Proofs.SerWriter.
From Flocq Require Import Core BinarySingleNaN.
From Coq Require Import Lia.
Open Scope N_scope.

(* ---- serialisable <-> a syntax tree exists ------------------------------------------------------------------------ *)
Lemma sequence_some_iff {A B} (f : A -> option B) (p : A -> bool) (l : list A) :
  Forall (fun a => (exists b, f a = Some b) <-> p a = true) l ->
  ((exists r, sequence (map f l) = Some r) <-> forallb p l = true).
Proof.
  induction 1 as [|a l Ha _ IH]; cbn [map sequence forallb]; [split; eauto|].
  split.
  - intros [r Hr]. destruct (f a) as [b|] eqn:Eb; [|discriminate]. destruct (sequence (map f l)) as [r'|]; [|discriminate].
    apply andb_true_iff. split; [apply Ha; eauto | apply IH; eauto].
  - intros H. apply andb_true_iff in H as [H1 H2]. apply Ha in H1 as [b Hb]. apply IH in H2 as [r Hr]. rewrite Hb, Hr. cbn. eauto.
Qed.

Section Serialisable.
  Variable cf : cfg.
  Variable fmt32 fmt64 : N -> bytes.
  Notation cst_of := (cst_of cf fmt32 fmt64).
  Notation key_pieces := (key_pieces fmt32 fmt64).

  Lemma key_ok_iff : forall k, (exists p, key_pieces k = Some p) <-> key_ok k = true.
  Proof.
    induction k using sval_ind'; cbn [key_pieces key_ok];
      try solve [split; [intros [p Hp]; discriminate Hp | intros Hf; discriminate Hf]];
      try solve [split; [reflexivity | intros _; eexists; reflexivity]]; try exact IHk.
    - change (finite32 b) with (f32_finite_bits b). destruct (f32_finite_bits b); (split; [intros [p Hp]; first [reflexivity | discriminate Hp] | intros Hf; first [eexists; reflexivity | discriminate Hf]]).
    - change (finite64 b) with (f64_finite_bits b). destruct (f64_finite_bits b); (split; [intros [p Hp]; first [reflexivity | discriminate Hp] | intros Hf; first [eexists; reflexivity | discriminate Hf]]).
  Qed.

  Lemma option_map_ex {A B} (g : A -> B) (o : option A) : (exists b, option_map g o = Some b) <-> (exists a, o = Some a).
  Proof. destruct o; cbn; split; intros [x Hx]; eauto; discriminate. Qed.

  Theorem serialisable_iff : forall v, (exists c, cst_of v = Some c) <-> serialisable v = true.
  Proof.
    induction v using sval_ind'; cbn [cst_of serialisable];
      try solve [split; [reflexivity | intros _; eexists; reflexivity]]; try exact IHv.
    - rewrite option_map_ex. exact IHv.
    - rewrite option_map_ex. apply sequence_some_iff. exact H.
    - rewrite option_map_ex. apply sequence_some_iff. exact H.
    - rewrite option_map_ex. apply sequence_some_iff. exact H.
    - rewrite option_map_ex. apply sequence_some_iff. exact H.
    - rewrite option_map_ex. apply sequence_some_iff. eapply Forall_impl; [|exact H]. intros [k x] [Hk Hx]. cbn [fst snd] in *.
      pose proof (key_ok_iff k) as Hko. split.
      + intros [b Hb]. destruct (key_pieces k) as [p|] eqn:Ek; [|discriminate]. destruct (cst_of x) as [c|] eqn:Ec; [|discriminate].
        apply andb_true_iff. split; [apply Hko; eauto | apply Hx; eauto].
      + intros Hb. apply andb_true_iff in Hb as [H1 H2]. apply Hko in H1 as [p Hp]. apply Hx in H2 as [c Hc]. rewrite Hp, Hc. cbn. eauto.
    - rewrite option_map_ex. apply sequence_some_iff. eapply Forall_impl; [|exact H]. intros [k x] Hx. cbn [fst snd] in *. split.
      + intros [b Hb]. destruct (cst_of x) as [c|] eqn:Ec; [|discriminate]. apply Hx. eauto.
      + intros Hb. apply Hx in Hb as [c Hc]. rewrite Hc. cbn. eauto.
    - rewrite option_map_ex. apply sequence_some_iff. eapply Forall_impl; [|exact H]. intros [k x] Hx. cbn [fst snd] in *. split.
      + intros [b Hb]. destruct (cst_of x) as [c|] eqn:Ec; [|discriminate]. apply Hx. eauto.
      + intros Hb. apply Hx in Hb as [c Hc]. rewrite Hc. cbn. eauto.
    - destruct (arbitrary_precision cf); split; eauto.
  Qed.
End Serialisable.

Lemma ryu_json_utf8 fmt32 fmt64 : ryu_json fmt32 fmt64 ->
  (forall b, f32_finite_bits b = true -> utf8_valid (fmt32 b) = true) /\ (forall b, f64_finite_bits b = true -> utf8_valid (fmt64 b) = true).
Proof.
  intros [H1 H2]. split; intros b Hb; apply forallb_ascii_utf8, number_text_ascii; [apply H1 | apply H2]; exact Hb.
Qed.

(* ======================================================== C03 ======================================================== *)
Theorem C03_sval_render_main : forall cf fmt32 fmt64 v bufs, ryu_json fmt32 fmt64 -> wfs v = true ->
  serialize cf fmt32 fmt64 Compact v = Ok bufs ->
  exists c, concat bufs = render c /\ wfb c = true /\ nows c = true /\ denote cf c = image cf fmt32 fmt64 v.
Proof.
  intros cf f32 f64 v bufs [H1 H2] W H. destruct (serialize_ok_inv cf f32 f64 Compact v bufs W H) as [c [Ec C]].
  exists c. split; [exact C|]. destruct (C03_wf_nows cf f32 f64 H1 H2 v c W Ec) as [G1 G2]. split; [exact G1|]. split; [exact G2|].
  apply (C03_denotes_image cf f32 f64 H1 H2 v c W Ec).
Qed.

Theorem C03_errors_main : forall cf fmt32 fmt64 F v, wfs v = true ->
  (serialisable v = true -> exists bufs, serialize cf fmt32 fmt64 F v = Ok bufs)
  /\ (serialisable v = false -> exists e, serialize cf fmt32 fmt64 F v = Err e O /\ (e = KeyMustBeAString \/ e = FloatKeyMustBeFinite)).
Proof.
  intros cf f32 f64 F v W. split; intros S.
  - apply (serialisable_iff cf f32 f64) in S as [c Ec]. destruct (serialize_ok cf f32 f64 F v c W Ec) as [b [E _]]. eauto.
  - destruct (cst_of cf f32 f64 v) as [c|] eqn:Ec.
    + assert (S' : serialisable v = true) by (apply (serialisable_iff cf f32 f64); eauto). rewrite S in S'. discriminate.
    + apply (serialize_err cf f32 f64 F v W Ec).
Qed.

Theorem C03_pretty_layout_main : forall cf fmt32 fmt64 v bufs ind, wfs v = true ->
  serialize cf fmt32 fmt64 Compact v = Ok bufs ->
  exists c bufsp, concat bufs = render c /\ serialize cf fmt32 fmt64 (Pretty ind) v = Ok bufsp /\ concat bufsp = layout ind 0 c.
Proof. intros cf f32 f64 v bufs ind W H. exact (C03_pretty_same_tokens cf f32 f64 v bufs ind W H). Qed.

(* with a whitespace indent the pretty output is itself one well-formed JSON text with the same denotation *)
Theorem C03_pretty_valid_main : forall cf fmt32 fmt64 v bufsp ind, ryu_json fmt32 fmt64 -> wfs v = true -> ws_ok ind = true ->
  serialize cf fmt32 fmt64 (Pretty ind) v = Ok bufsp ->
  exists c, concat bufsp = render c /\ wfb c = true /\ denote cf c = image cf fmt32 fmt64 v.
Proof.
  intros cf f32 f64 v bufsp ind [H1 H2] W Hws H. destruct (serialize_ok_inv cf f32 f64 (Pretty ind) v bufsp W H) as [c [Ec C]].
  exists (relayout ind 0 c). split; [rewrite C; apply layout_is_render|].
  destruct (C03_wf_nows cf f32 f64 H1 H2 v c W Ec) as [G1 _].
  split; [apply (proj1 (wfb_relayout_ok ind Hws)), G1|].
  rewrite (proj1 (denote_relayout ind cf)). apply (C03_denotes_image cf f32 f64 H1 H2 v c W Ec).
Qed.

Theorem C03_utf8_main' : forall cf fmt32 fmt64 F v bufs, ryu_json fmt32 fmt64 ->
  (forall ind, F = Pretty ind -> utf8_valid ind = true) -> wfs v = true ->
  serialize cf fmt32 fmt64 F v = Ok bufs -> utf8_valid (concat bufs) = true.
Proof.
  intros cf f32 f64 F v bufs HR Hind W H. destruct (ryu_json_utf8 f32 f64 HR) as [U1 U2].
  exact (C03_utf8_main cf f32 f64 F Hind U1 U2 v bufs W H).
Qed.

(* ======================================================== C13 (writer half) ======================================================== *)
Theorem C13_buf_utf8_main' : forall cf fmt32 fmt64 F v, ryu_json fmt32 fmt64 ->
  (forall ind, F = Pretty ind -> utf8_valid ind = true) -> wfs v = true ->
  Forall (fun b => utf8_valid b = true) (fst (serialize_trace cf fmt32 fmt64 F v)).
Proof.
  intros cf f32 f64 F v HR Hind W. destruct (ryu_json_utf8 f32 f64 HR) as [U1 U2].
  exact (trace_bufs_utf8 cf f32 f64 F Hind U1 U2 v W).
Qed.

(* ======================================================== hypotheses about other components, named ======================================================== *)
(* H4: without arbitrary_precision, ryu's text of a finite f64 reads back (through this crate's parser) as the same float.
   Holds with float_roundtrip (correct rounding, C07) and for short literals in the default build (C08). *)
Definition ryu_reads_back (cf : cfg) (fmt64 : N -> bytes) : Prop :=
  arbitrary_precision cf = false -> forall b, finite64 b = true -> num_image cf (fmt64 b) = Some (VNum (NFloat (f64_of_bits b))).
Definition ryu_reads_back_value (cf : cfg) (fmt64 : N -> bytes) : Prop :=
  arbitrary_precision cf = false -> forall f, is_finite f = true -> num_image cf (fmt64 (bits_of_b64 f)) = Some (VNum (NFloat f)).
(* with arbitrary_precision the parser keeps number literals verbatim (C20) *)
Definition literal_kept (cf : cfg) : Prop :=
  arbitrary_precision cf = true -> forall s, number_text_ok s = true -> num_image cf s = Some (VNum (NLit s)).
(* completeness of the Value parser (Proofs/GrammarValue.v, value_complete) *)
Definition parser_complete (cf : cfg) : Prop :=
  forall bs v, Denotes cf bs v -> from_input (mkEnv RSlice TEof cf) bs = Ok v.

Theorem C03_value_render_main' : forall cf fmt32 fmt64 v, ryu_json fmt32 fmt64 -> ryu_reads_back_value cf fmt64 -> literal_kept cf ->
  wf_value cf v = true ->
  exists bufs c,
    serialize cf fmt32 fmt64 Compact (sval_of_value v) = Ok bufs
    /\ concat bufs = render c /\ wfb c = true /\ nows c = true /\ denote cf c = Some v
    /\ (forall ind, exists bufsp, serialize cf fmt32 fmt64 (Pretty ind) (sval_of_value v) = Ok bufsp /\ concat bufsp = layout ind 0 c).
Proof. intros cf f32 f64 v [H1 H2] H4 HL W. exact (C03_value_render_main cf f32 f64 H4 HL H1 H2 v W). Qed.

Theorem C03_value_roundtrip_main' : forall cf fmt32 fmt64 v, ryu_json fmt32 fmt64 -> ryu_reads_back_value cf fmt64 -> literal_kept cf ->
  parser_complete cf -> wf_value cf v = true ->
  exists bufs c, serialize cf fmt32 fmt64 Compact (sval_of_value v) = Ok bufs /\ concat bufs = render c /\
    ((limit_disabled cf = false -> (cdepth c <= 127)%nat) -> from_input (mkEnv RSlice TEof cf) (concat bufs) = Ok v).
Proof. intros cf f32 f64 v [H1 H2] H4 HL HC W. exact (C03_value_roundtrip_main cf f32 f64 H4 HL H1 H2 HC v W). Qed.

(* Display / {:#}: the same serialiser run into a writer adapter that never fails; whatever its chunking it receives to_string's bytes *)
Theorem C03_display_main : forall cf fmt32 fmt64 F v sched,
  let t := serialize_trace cf fmt32 fmt64 F v in
  snd (run_writer (mkW [] sched None) t) = snd t /\ accepted (fst (run_writer (mkW [] sched None) t)) = concat (fst t).
Proof. intros. apply C13_no_fault_main; reflexivity. Qed.

(* ======================================================== C15 ======================================================== *)
Theorem C15_same_success_main : forall cf fmt32 fmt64 v, ryu_json fmt32 fmt64 -> ryu_reads_back cf fmt64 -> literal_kept cf ->
  wfs v = true -> c15_side (arbitrary_precision cf) v = true ->
  ((exists j, to_value cf fmt32 fmt64 v = Ok j) <-> (exists bufs, serialize cf fmt32 fmt64 Compact v = Ok bufs)).
Proof. intros cf f32 f64 v [H1 H2] H4 HL. exact (C15_same_success cf f32 f64 H1 H2 H4 HL v). Qed.

Theorem C15_same_rejection_main : forall cf fmt32 fmt64 v, ryu_json fmt32 fmt64 -> ryu_reads_back cf fmt64 -> literal_kept cf ->
  wfs v = true -> c15_side (arbitrary_precision cf) v = true ->
  ((exists e, to_value cf fmt32 fmt64 v = Err e O /\ (e = KeyMustBeAString \/ e = FloatKeyMustBeFinite))
   <-> (exists e, serialize cf fmt32 fmt64 Compact v = Err e O /\ (e = KeyMustBeAString \/ e = FloatKeyMustBeFinite))).
Proof. intros cf f32 f64 v [H1 H2] H4 HL. exact (C15_same_rejection cf f32 f64 H1 H2 H4 HL v). Qed.

Theorem C15_same_value_main : forall cf fmt32 fmt64 v j bufs, ryu_json fmt32 fmt64 -> ryu_reads_back cf fmt64 -> literal_kept cf ->
  wfs v = true -> c15_side (arbitrary_precision cf) v = true ->
  to_value cf fmt32 fmt64 v = Ok j -> serialize cf fmt32 fmt64 Compact v = Ok bufs ->
  exists c, concat bufs = render c /\ wfb c = true /\ denote cf c = Some j.
Proof. intros cf f32 f64 v j bufs [H1 H2] H4 HL. exact (C15_same_value cf f32 f64 H1 H2 H4 HL v j bufs). Qed.

Theorem C15_parse_back_main : forall cf fmt32 fmt64 v j bufs, ryu_json fmt32 fmt64 -> ryu_reads_back cf fmt64 -> literal_kept cf ->
  parser_complete cf -> wfs v = true -> c15_side (arbitrary_precision cf) v = true ->
  to_value cf fmt32 fmt64 v = Ok j -> serialize cf fmt32 fmt64 Compact v = Ok bufs ->
  (forall c, concat bufs = render c -> limit_disabled cf = false -> (cdepth c <= 127)%nat) ->
  from_input (mkEnv RSlice TEof cf) (concat bufs) = Ok j.
Proof. intros cf f32 f64 v j bufs [H1 H2] H4 HL HC. exact (C15_parse_back cf f32 f64 H1 H2 H4 HL HC v j bufs). Qed.

(* the hypotheses are satisfiable on instances: evaluation of the number parser model on two ryu texts *)
Definition float_bits_of (o : option value) : option N :=
  match o with Some (VNum (NFloat f)) => Some (bits_of_b64 f) | _ => None end.
Example ryu_reads_back_instance :
  float_bits_of (num_image (mkCfg false true false false) [49; 46; 53]) = Some 4609434218613702656
  /\ float_bits_of (Some (VNum (NFloat (f64_of_bits 4609434218613702656)))) = Some 4609434218613702656
  /\ float_bits_of (num_image (mkCfg false false false false) [49; 101; 49; 54]) = Some 4846369599423283200.
Proof. repeat split; vm_compute; reflexivity. Qed.
Example literal_kept_instance :
  num_image (mkCfg false false true false) [45; 48; 46; 53; 48] = Some (VNum (NLit [45; 48; 46; 53; 48])).
Proof. vm_compute. reflexivity. Qed.
Example ryu_json_instance : ryu_json (fun _ => [48; 46; 49]) (fun _ => [49; 101; 49; 54]).
Proof. split; intros; reflexivity. Qed.

Print Assumptions C03_sval_render_main.
Print Assumptions C03_errors_main.
Print Assumptions C03_pretty_valid_main.
Print Assumptions C15_parse_back_main.
