(* Proofs/StrScanSrc2.v — part 2 of Proofs/StrScanSrc.v: the loops around the escape decoding, as translated from src/read.rs on this run
   (Gen/StrScanTables.v), calling the TRANSLATED parse_escape / ignore_escape of Gen/StrTables.v (Proofs/StrSrc2.v):
       SliceRead::parse_str_bytes = Str.slice_str_loop   (borrowed iff no escape was decoded AND the scratch buffer was empty on entry)
       SliceRead::ignore_str      = Str.slice_ignore_loop
       IoRead::parse_str_bytes    = Str.io_str_loop        IoRead::ignore_str = Str.io_ignore_loop
       {SliceRead, IoRead, StrRead}::{parse_str, parse_str_raw, ignore_str} = Str.parse_str / parse_str_raw / ignore_str at rk E = RSlice / RIo / RStr
   and the exported conjunction [string_scanning_is_translated_source]. *)
From Coq Require Import String.
From SJ Require Import Base.Bytes Base.Utf8 Gen.Tables Model.Read Model.Str Model.StrScanAst Gen.StrScanTables Gen.StrTables Proofs.StrScanSrc.
From SJ Require Model.ScanAst Model.StrAst Proofs.StrSrc Proofs.StrSrc2.
Require Import Lia ZifyBool ZifyNat ZifyN.
Local Open Scope string_scope.
Local Open Scope list_scope.
Local Open Scope N_scope.

#[local] Arguments in_range : simpl never.
#[local] Arguments sub_bytes : simpl never.
#[local] Arguments set_index : simpl never.
#[local] Arguments is_escape_call : simpl never.
#[local] Arguments nth_error : simpl never.
#[local] Arguments skipn : simpl never.
#[local] Arguments firstn : simpl never.
#[local] Arguments N.of_nat : simpl never.
#[local] Arguments N.to_nat : simpl never.
#[local] Arguments Nat.add : simpl nomatch.
#[local] Arguments Nat.sub : simpl nomatch.
#[local] Arguments Nat.leb : simpl nomatch.
#[local] Arguments Nat.eqb : simpl nomatch.
#[local] Arguments N.eqb : simpl nomatch.
#[local] Arguments N.leb : simpl nomatch.
#[local] Arguments N.ltb : simpl nomatch.
#[local] Arguments N.add : simpl nomatch.
#[local] Arguments exec : simpl never.
#[local] Arguments call_fn : simpl never.
#[local] Arguments exec_block : simpl never.
#[local] Arguments Str.next_or_eof : simpl never.
#[local] Arguments Str.parse_escape : simpl never.
#[local] Arguments Str.ignore_escape : simpl never.
#[local] Arguments StrAst.run_str : simpl never.
#[local] Arguments error : simpl never.
#[local] Arguments utf8_valid : simpl never.
#[local] Arguments is_escape : simpl never.
#[local] Arguments esc_span : simpl never.
#[local] Arguments slice_str_loop : simpl never.
#[local] Arguments slice_ignore_loop : simpl never.
#[local] Arguments io_str_loop : simpl never.
#[local] Arguments io_ignore_loop : simpl never.
#[local] Arguments clo_model : simpl never.
#[local] Arguments app : simpl never.

Notation T := SCAN_PROG (only parsing).
Notation SP := STR_PROG (only parsing).

(* ---- how far the escape decoders move the cursor (any reader kind) --------------------------------------------------------- *)
Lemma bind_ok {A B} (r : res A) (f : A -> res B) b : bind r f = Ok b -> exists a, r = Ok a /\ f a = Ok b.
Proof. destruct r as [a| | |]; cbn; try discriminate. intros H. exists a. auto. Qed.

(* s' is s with k more bytes consumed *)
Definition adv (s s' : st) : Prop :=
  exists k, (k <= length (rest s))%nat /\ rest s' = skipn k (rest s) /\ off s' = (off s + k)%nat /\ depth s' = depth s.
Lemma adv_refl s : adv s s.
Proof. exists 0%nat. repeat split; [lia|lia]. Qed.
Lemma adv_trans a b c : adv a b -> adv b c -> adv a c.
Proof.
  intros (k1 & L1 & R1 & O1 & D1) (k2 & L2 & R2 & O2 & D2). exists (k1 + k2)%nat.
  rewrite R1, skipn_length in L2. rewrite R2, R1, skipn_skipn, O2, O1, D2, D1. repeat split; lia.
Qed.
Lemma adv_len a b : adv a b -> (length (rest b) <= length (rest a))%nat.
Proof. intros (k & L & R & _). rewrite R, skipn_length. lia. Qed.
Lemma adv_pk s s' p : adv s s' -> adv s (mkSt (rest s') (off s') p (depth s')).
Proof. intros H. exact H. Qed.
Lemma adv_view sl s s' : view_ok sl s -> adv s s' -> view_ok sl s'.
Proof.
  intros [Hr Hl] (k & L & R & O & D). rewrite Hr, skipn_length in L. split; [|lia].
  rewrite R, Hr, skipn_skipn, O. reflexivity.
Qed.

Section Adv.
Variable E : env.
Lemma noe_adv s b s1 : Str.next_or_eof E s = Ok (b, s1) -> adv s s1 /\ (length (rest s1) < length (rest s))%nat.
Proof.
  intros H. apply StrSrc2.noe_ok in H. destruct H as [r [Hr ->]]. split.
  - exists 1%nat. rewrite Hr. cbn [rest off depth length]. repeat split; lia.
  - rewrite Hr. cbn [rest length]. lia.
Qed.
Lemma poe_adv s b s1 : Str.peek_or_eof E s = Ok (b, s1) -> adv s s1 /\ rest s1 <> [] /\ rest s1 = rest s.
Proof.
  intros H. apply StrSrc2.poe_ok in H. destruct H as [r [Hr ->]]. split; [exists 0%nat; cbn [rest off depth]; repeat split; lia|]. cbn [rest]. rewrite Hr. split; [discriminate|reflexivity].
Qed.
Lemma discard_adv s : rest s <> [] -> adv s (discard s) /\ (length (rest (discard s)) < length (rest s))%nat.
Proof.
  intros H. destruct (rest s) as [|b r] eqn:Hr; [contradiction|]. split.
  - exists 1%nat. unfold discard. cbn [rest off depth]. rewrite Hr. cbn [length tl]. repeat split; lia.
  - unfold discard. cbn [rest]. rewrite Hr. cbn [tl length]. lia.
Qed.
Lemma dhe_adv s n s1 : Str.decode_hex_escape E s = Ok (n, s1) -> adv s s1.
Proof.
  unfold Str.decode_hex_escape. destruct (is_io E).
  - intros H.
    apply bind_ok in H. destruct H as [[a s2] [H1 H]]. apply bind_ok in H. destruct H as [[b s3] [H2 H]].
    apply bind_ok in H. destruct H as [[c s4] [H3 H]]. apply bind_ok in H. destruct H as [[d s5] [H4 H]].
    destruct (decode_four_hex a b c d); [|discriminate]. inversion H. subst.
    apply noe_adv in H1, H2, H3, H4. eapply adv_trans; [apply H1|]. eapply adv_trans; [apply H2|]. eapply adv_trans; [apply H3|apply H4].
  - destruct (rest s) as [|a [|b [|c [|d r]]]] eqn:Hr; try discriminate.
    destruct (decode_four_hex a b c d); [|discriminate]. intros H. inversion H. subst.
    exists 4%nat. unfold advance. cbn [rest off depth]. rewrite Hr. cbn [length]. repeat split; lia.
Qed.
Lemma push_wtf8_nonempty n w : push_wtf8 n = Ok w -> w <> [].
Proof.
  unfold push_wtf8. destruct (n <? 128); [intros H; inversion H; discriminate|].
  destruct (n <=? 2047); [intros H; inversion H; discriminate|]. destruct (n <=? 65535); [intros H; inversion H; discriminate|].
  destruct (n <=? 1114111); [intros H; inversion H; discriminate|discriminate].
Qed.
Lemma app_nonempty_l (a b : bytes) : a <> [] -> a ++ b <> [].
Proof. destruct a; [contradiction|discriminate]. Qed.
Lemma penu_adv s w s1 : parse_escape_nonu E s = Ok (w, s1) -> adv s s1.
Proof.
  unfold parse_escape_nonu. intros H. apply bind_ok in H. destruct H as [[ch s2] [H1 H]].
  destruct (escape_simple ch); [|discriminate]. inversion H. subst. apply noe_adv in H1. apply H1.
Qed.
Lemma uloop_adv v : forall f n s w s1, unicode_loop f E v n s = Ok (w, s1) -> adv s s1 /\ w <> [].
Proof.
  induction f as [|f IH]; intros n s w s1 H; [discriminate|]. cbn [unicode_loop] in H.
  destruct ((n <? 55296) || (56319 <? n)).
  { apply bind_ok in H. destruct H as [w0 [Hw H]]. inversion H. subst. split; [apply adv_refl|eapply push_wtf8_nonempty; eauto]. }
  apply bind_ok in H. destruct H as [[b s2] [Hp1 H]]. apply poe_adv in Hp1. destruct Hp1 as (A1 & Hne1 & Hre1).
  destruct (b =? 92).
  2:{ destruct v; [discriminate|]. apply bind_ok in H. destruct H as [w0 [Hw H]]. inversion H. subst. split; [exact A1|eapply push_wtf8_nonempty; eauto]. }
  apply bind_ok in H. destruct H as [[b2 s3] [Hp2 H]]. apply poe_adv in Hp2. destruct Hp2 as (A2 & Hne2 & Hre2).
  destruct (discard_adv s2 Hne1) as [A12 _].
  assert (A3 : adv s s3) by (eapply adv_trans; [exact A1|]; eapply adv_trans; [exact A12|exact A2]).
  destruct (b2 =? 117).
  2:{ destruct v; [discriminate|]. apply bind_ok in H. destruct H as [w0 [Hw H]]. apply bind_ok in H. destruct H as [[w' s4] [Hn H]].
      inversion H. subst. apply penu_adv in Hn. split; [eapply adv_trans; eauto|apply app_nonempty_l; eapply push_wtf8_nonempty; eauto]. }
  apply bind_ok in H. destruct H as [[n2 s5] [Hd H]]. apply dhe_adv in Hd.
  destruct (discard_adv s3 Hne2) as [A34 _].
  assert (A5 : adv s s5) by (eapply adv_trans; [exact A3|]; eapply adv_trans; [exact A34|exact Hd]).
  destruct ((n2 <? 56320) || (57343 <? n2)).
  - destruct v; [discriminate|]. apply bind_ok in H. destruct H as [w0 [Hw H]]. apply bind_ok in H. destruct H as [[w' s6] [Hl H]].
    inversion H. subst. apply IH in Hl. destruct Hl as [A6 _]. split; [eapply adv_trans; eauto|apply app_nonempty_l; eapply push_wtf8_nonempty; eauto].
  - apply bind_ok in H. destruct H as [w0 [Hw H]]. inversion H. subst. split; [exact A5|eapply push_wtf8_nonempty; eauto].
Qed.
(* parse_escape consumes at least one byte and pushes at least one *)
Lemma pe_adv v f s w s1 : Str.parse_escape f E v s = Ok (w, s1) -> adv s s1 /\ (length (rest s1) < length (rest s))%nat /\ w <> [].
Proof.
  unfold Str.parse_escape. intros H. apply bind_ok in H. destruct H as [[ch s2] [H1 H]]. apply noe_adv in H1. destruct H1 as [A1 L1].
  destruct (ch =? 117).
  - unfold parse_unicode_escape in H. apply bind_ok in H. destruct H as [[n s3] [Hd H]]. apply dhe_adv in Hd.
    destruct (v && (56320 <=? n) && (n <=? 57343)); [discriminate|]. apply uloop_adv in H. destruct H as [A3 Hw].
    assert (A : adv s2 s1) by (eapply adv_trans; eauto). pose proof (adv_len _ _ A). split; [eapply adv_trans; eauto|]. split; [lia|exact Hw].
  - destruct (escape_simple ch); [|discriminate]. inversion H. subst. split; [exact A1|]. split; [exact L1|discriminate].
Qed.
Lemma ie_adv s s1 : Str.ignore_escape E s = Ok s1 -> adv s s1 /\ (length (rest s1) < length (rest s))%nat.
Proof.
  unfold Str.ignore_escape. intros H. apply bind_ok in H. destruct H as [[ch s2] [H1 H]]. apply noe_adv in H1. destruct H1 as [A1 L1].
  destruct (ch =? 117).
  - apply bind_ok in H. destruct H as [[n s3] [Hd H]]. inversion H. subst. apply dhe_adv in Hd. pose proof (adv_len _ _ Hd).
    split; [eapply adv_trans; eauto|lia].
  - destruct (escape_simple ch); [|discriminate]. inversion H. subst. split; assumption.
Qed.
End Adv.
