(* Proofs/StrScanSrc2.v — part 2 of Proofs/StrScanSrc.v: the loops around the escape decoding, as translated from src/read.rs on this run
   (Gen/StrScanTables.v), calling the TRANSLATED parse_escape / ignore_escape of Gen/StrTables.v (Proofs/StrSrc2.v):
       SliceRead::parse_str_bytes = Str.slice_str_loop   (borrowed iff no escape was decoded AND the scratch buffer was empty on entry)
       SliceRead::ignore_str      = Str.slice_ignore_loop
       IoRead::parse_str_bytes    = Str.io_str_loop        IoRead::ignore_str = Str.io_ignore_loop
       {SliceRead, IoRead, StrRead}::{parse_str, parse_str_raw, ignore_str} = Str.parse_str / parse_str_raw / ignore_str at rk E = RSlice / RIo / RStr
   and the exported conjunction [string_scanning_is_translated_source]. *)
From Coq Require Import String.
From SJ Require Import Base.Bytes Base.Utf8 Gen.Tables Model.Read Model.Str Model.StrScanAst Gen.StrScanTables Gen.StrTables Proofs.StrScanSrc.
From SJ Require Model.ScanAst Model.StrAst Proofs.StrSrc Proofs.StrSrc2.
Require Import Lia ZifyBool ZifyNat ZifyN.
Local Open Scope string_scope.
Local Open Scope list_scope.
Local Open Scope N_scope.

#[local] Arguments in_range : simpl never.
#[local] Arguments sub_bytes : simpl never.
#[local] Arguments set_index : simpl never.
#[local] Arguments is_escape_call : simpl never.
#[local] Arguments nth_error : simpl never.
#[local] Arguments skipn : simpl never.
#[local] Arguments firstn : simpl never.
#[local] Arguments N.of_nat : simpl never.
#[local] Arguments N.to_nat : simpl never.
#[local] Arguments Nat.add : simpl nomatch.
#[local] Arguments Nat.sub : simpl nomatch.
#[local] Arguments Nat.leb : simpl nomatch.
#[local] Arguments Nat.eqb : simpl nomatch.
#[local] Arguments N.eqb : simpl nomatch.
#[local] Arguments N.leb : simpl nomatch.
#[local] Arguments N.ltb : simpl nomatch.
#[local] Arguments N.add : simpl nomatch.
#[local] Arguments exec : simpl never.
#[local] Arguments call_fn : simpl never.
#[local] Arguments exec_block : simpl never.
#[local] Arguments Str.next_or_eof : simpl never.
#[local] Arguments Str.parse_escape : simpl never.
#[local] Arguments Str.ignore_escape : simpl never.
#[local] Arguments StrAst.run_str : simpl never.
#[local] Arguments error : simpl never.
#[local] Arguments utf8_valid : simpl never.
#[local] Arguments is_escape : simpl never.
#[local] Arguments esc_span : simpl never.
#[local] Arguments slice_str_loop : simpl never.
#[local] Arguments slice_ignore_loop : simpl never.
#[local] Arguments io_str_loop : simpl never.
#[local] Arguments io_ignore_loop : simpl never.
#[local] Arguments clo_model : simpl never.
#[local] Arguments app : simpl never.

Notation T := SCAN_PROG (only parsing).
Notation SP := STR_PROG (only parsing).

(* ---- how far the escape decoders move the cursor (any reader kind) --------------------------------------------------------- *)
Lemma bind_ok {A B} (r : res A) (f : A -> res B) b : bind r f = Ok b -> exists a, r = Ok a /\ f a = Ok b.
Proof. destruct r as [a| | |]; cbn; try discriminate. intros H. exists a. auto. Qed.

(* s' is s with k more bytes consumed *)
Definition adv (s s' : st) : Prop :=
  exists k, (k <= length (rest s))%nat /\ rest s' = skipn k (rest s) /\ off s' = (off s + k)%nat /\ depth s' = depth s.
Lemma adv_refl s : adv s s.
Proof. exists 0%nat. repeat split; [lia|lia]. Qed.
Lemma adv_trans a b c : adv a b -> adv b c -> adv a c.
Proof.
  intros (k1 & L1 & R1 & O1 & D1) (k2 & L2 & R2 & O2 & D2). exists (k1 + k2)%nat.
  rewrite R1, skipn_length in L2. rewrite R2, R1, skipn_skipn, O2, O1, D2, D1. repeat split; lia.
Qed.
Lemma adv_len a b : adv a b -> (length (rest b) <= length (rest a))%nat.
Proof. intros (k & L & R & _). rewrite R, skipn_length. lia. Qed.
Lemma adv_pk s s' p : adv s s' -> adv s (mkSt (rest s') (off s') p (depth s')).
Proof. intros H. exact H. Qed.
Lemma adv_view sl s s' : view_ok sl s -> adv s s' -> view_ok sl s'.
Proof.
  intros [Hr Hl] (k & L & R & O & D). rewrite Hr, skipn_length in L. split; [|lia].
  rewrite R, Hr, skipn_skipn, O. reflexivity.
Qed.

Section Adv.
Variable E : env.
Lemma noe_adv s b s1 : Str.next_or_eof E s = Ok (b, s1) -> adv s s1 /\ (length (rest s1) < length (rest s))%nat.
Proof.
  intros H. apply StrSrc2.noe_ok in H. destruct H as [r [Hr ->]]. split.
  - exists 1%nat. rewrite Hr. cbn [rest off depth length]. repeat split; lia.
  - rewrite Hr. cbn [rest length]. lia.
Qed.
Lemma poe_adv s b s1 : Str.peek_or_eof E s = Ok (b, s1) -> adv s s1 /\ rest s1 <> [] /\ rest s1 = rest s.
Proof.
  intros H. apply StrSrc2.poe_ok in H. destruct H as [r [Hr ->]]. split; [exists 0%nat; cbn [rest off depth]; repeat split; lia|]. cbn [rest]. rewrite Hr. split; [discriminate|reflexivity].
Qed.
Lemma discard_adv s : rest s <> [] -> adv s (discard s) /\ (length (rest (discard s)) < length (rest s))%nat.
Proof.
  intros H. destruct (rest s) as [|b r] eqn:Hr; [contradiction|]. split.
  - exists 1%nat. unfold discard. cbn [rest off depth]. rewrite Hr. cbn [length tl]. repeat split; lia.
  - unfold discard. cbn [rest]. rewrite Hr. cbn [tl length]. lia.
Qed.
Lemma dhe_adv s n s1 : Str.decode_hex_escape E s = Ok (n, s1) -> adv s s1.
Proof.
  unfold Str.decode_hex_escape. destruct (is_io E).
  - intros H.
    apply bind_ok in H. destruct H as [[a s2] [H1 H]]. apply bind_ok in H. destruct H as [[b s3] [H2 H]].
    apply bind_ok in H. destruct H as [[c s4] [H3 H]]. apply bind_ok in H. destruct H as [[d s5] [H4 H]].
    destruct (decode_four_hex a b c d); [|discriminate]. inversion H. subst.
    apply noe_adv in H1, H2, H3, H4. eapply adv_trans; [apply H1|]. eapply adv_trans; [apply H2|]. eapply adv_trans; [apply H3|apply H4].
  - destruct (rest s) as [|a [|b [|c [|d r]]]] eqn:Hr; try discriminate.
    destruct (decode_four_hex a b c d); [|discriminate]. intros H. inversion H. subst.
    exists 4%nat. unfold advance. cbn [rest off depth]. rewrite Hr. cbn [length]. repeat split; lia.
Qed.
Lemma cons_ne (x : N) l : x :: l <> [].
Proof. discriminate. Qed.
Lemma ok_cons_ne (x : N) l w : Ok (x :: l) = Ok w -> w <> [].
Proof. intros H. injection H as <-. apply cons_ne. Qed.
Lemma push_wtf8_nonempty n w : push_wtf8 n = Ok w -> w <> [].
Proof.
  unfold push_wtf8. destruct (n <? 128); [apply ok_cons_ne|].
  destruct (n <=? 2047); [apply ok_cons_ne|]. destruct (n <=? 65535); [apply ok_cons_ne|].
  destruct (n <=? 1114111); [apply ok_cons_ne|discriminate].
Qed.
Lemma app_nonempty_l (a b : bytes) : a <> [] -> a ++ b <> [].
Proof. destruct a; [contradiction|discriminate]. Qed.
Lemma penu_adv s w s1 : parse_escape_nonu E s = Ok (w, s1) -> adv s s1.
Proof.
  unfold parse_escape_nonu. intros H. apply bind_ok in H. destruct H as [[ch s2] [H1 H]].
  destruct (escape_simple ch); [|discriminate]. inversion H. subst. apply noe_adv in H1. apply H1.
Qed.
Lemma uloop_adv v : forall f n s w s1, unicode_loop f E v n s = Ok (w, s1) -> adv s s1 /\ w <> [].
Proof.
  induction f as [|f IH]; intros n s w s1 H; [discriminate|]. cbn [unicode_loop] in H.
  destruct ((n <? 55296) || (56319 <? n)).
  { apply bind_ok in H. destruct H as [w0 [Hw H]]. inversion H. subst. split; [apply adv_refl|eapply push_wtf8_nonempty; eauto]. }
  apply bind_ok in H. destruct H as [[b s2] [Hp1 H]]. apply poe_adv in Hp1. destruct Hp1 as (A1 & Hne1 & Hre1).
  destruct (b =? 92).
  2:{ destruct v; [discriminate|]. apply bind_ok in H. destruct H as [w0 [Hw H]]. inversion H. subst. split; [exact A1|eapply push_wtf8_nonempty; eauto]. }
  apply bind_ok in H. destruct H as [[b2 s3] [Hp2 H]]. apply poe_adv in Hp2. destruct Hp2 as (A2 & Hne2 & Hre2).
  destruct (discard_adv s2 Hne1) as [A12 _].
  assert (A3 : adv s s3) by (eapply adv_trans; [exact A1|]; eapply adv_trans; [exact A12|exact A2]).
  destruct (b2 =? 117).
  2:{ destruct v; [discriminate|]. apply bind_ok in H. destruct H as [w0 [Hw H]]. apply bind_ok in H. destruct H as [[w' s4] [Hn H]].
      inversion H. subst. apply penu_adv in Hn. split; [eapply adv_trans; eauto|apply app_nonempty_l; eapply push_wtf8_nonempty; eauto]. }
  apply bind_ok in H. destruct H as [[n2 s5] [Hd H]]. apply dhe_adv in Hd.
  destruct (discard_adv s3 Hne2) as [A34 _].
  assert (A5 : adv s s5) by (eapply adv_trans; [exact A3|]; eapply adv_trans; [exact A34|exact Hd]).
  destruct ((n2 <? 56320) || (57343 <? n2)).
  - destruct v; [discriminate|]. apply bind_ok in H. destruct H as [w0 [Hw H]]. apply bind_ok in H. destruct H as [[w' s6] [Hl H]].
    inversion H. subst. apply IH in Hl. destruct Hl as [A6 _]. split; [eapply adv_trans; eauto|apply app_nonempty_l; eapply push_wtf8_nonempty; eauto].
  - apply bind_ok in H. destruct H as [w0 [Hw H]]. inversion H. subst. split; [exact A5|eapply push_wtf8_nonempty; eauto].
Qed.
(* parse_escape consumes at least one byte and pushes at least one *)
Lemma pe_adv v f s w s1 : Str.parse_escape f E v s = Ok (w, s1) -> adv s s1 /\ (length (rest s1) < length (rest s))%nat /\ w <> [].
Proof.
  unfold Str.parse_escape. intros H. apply bind_ok in H. destruct H as [[ch s2] [H1 H]]. apply noe_adv in H1. destruct H1 as [A1 L1].
  destruct (ch =? 117).
  - unfold parse_unicode_escape in H. apply bind_ok in H. destruct H as [[n s3] [Hd H]]. apply dhe_adv in Hd.
    destruct (v && (56320 <=? n) && (n <=? 57343)); [discriminate|]. apply uloop_adv in H. destruct H as [A3 Hw].
    assert (A : adv s2 s1) by (eapply adv_trans; eauto). pose proof (adv_len _ _ A). split; [eapply adv_trans; eauto|]. split; [lia|exact Hw].
  - destruct (escape_simple ch); [|discriminate]. inversion H. subst. split; [exact A1|]. split; [exact L1|discriminate].
Qed.
Lemma ie_adv s s1 : Str.ignore_escape E s = Ok s1 -> adv s s1 /\ (length (rest s1) < length (rest s))%nat.
Proof.
  unfold Str.ignore_escape. intros H. apply bind_ok in H. destruct H as [[ch s2] [H1 H]]. apply noe_adv in H1. destruct H1 as [A1 L1].
  destruct (ch =? 117).
  - apply bind_ok in H. destruct H as [[n s3] [Hd H]]. inversion H. subst. apply dhe_adv in Hd. pose proof (adv_len _ _ Hd).
    split; [eapply adv_trans; eauto|lia].
  - destruct (escape_simple ch); [|discriminate]. inversion H. subst. split; assumption.
Qed.
End Adv.

(* ---- SliceRead::parse_str_bytes ------------------------------------------------------------------------------------------------ *)
Definition PSB_LOOP : stmt := Eval cbv in nth 1 (fbody SCAN_SliceRead_parse_str_bytes) SContinue.
Definition is_nil (l : bytes) : bool := match l with [] => true | _ => false end.

(* what parse_str_bytes returns — (Reference, scratch afterwards, reader afterwards) — from the result (contents, copied?, reader) of the model's loop,
   for the scratch content [buf] on entry and the closure [c]: Borrowed iff no escape was decoded and the scratch buffer was empty *)
Definition psb_post (E : env) (c : clo) (buf : bytes) (r : res (bytes * bool * st)) : res (retv * bytes * st) :=
  let* (out, copied, s') := r in
  if copied || negb (is_nil buf)
  then let* t := clo_model E c s' (buf ++ out) in Ok (RvRef false t, buf ++ out, s')
  else let* t := clo_model E c s' out in Ok (RvRef true t, buf, s').

Lemma slice_str_loop_S f E v s : slice_str_loop (S f) E v s =
    let n := esc_span v (rest s) in
    let chunk := firstn n (rest s) in
    let s1 := advance n s in
    match rest s1 with
    | [] => error E s1 EofWhileParsingString
    | b :: _ =>
      if b =? 34 then Ok (chunk, false, advance 1 s1)
      else if b =? 92 then
        let* (w, s2) := Str.parse_escape f E v (advance 1 s1) in
        let* (out, _, s3) := slice_str_loop f E v s2 in
        Ok (chunk ++ w ++ out, true, s3)
      else error E (advance 1 s1) ControlCharacterWhileParsingString
    end.
Proof. reflexivity. Qed.
Lemma set_index_moved sl i n s : set_index sl i (moved sl n s) = set_index sl i s.
Proof. destruct n; reflexivity. Qed.
Lemma advance_set_index sl s n : view_ok sl s -> advance n s = set_index sl (off s + n) s.
Proof. intros H. symmetry. apply set_index_advance. exact H. Qed.
Lemma advance_1_set sl i s : advance 1 (set_index sl i s) = set_index sl (S i) s.
Proof.
  unfold advance, set_index. cbn [rest off depth]. rewrite skipn_skipn. replace (i + 1)%nat with (S i) by lia. reflexivity.
Qed.
Lemma error_slice {A} E s c : is_io E = false -> @error A E s c = Err c (off s).
Proof. intros H. unfold error, err_idx. rewrite H. reflexivity. Qed.

Section SliceLoops.
Variable E : env.
Variable sl : bytes.
Hypothesis Hio : is_io E = false.
Hypothesis Hw : word_ok sl.
Hypothesis Hb : bytes_ok sl.

Lemma psb_loop v c : forall k s, (length (rest s) <= k)%nat -> view_ok sl s -> forall fuel mfuel buf,
  (2 * k + 40 <= fuel)%nat -> (k + 2 <= mfuel)%nat ->
  exec fuel E SP T sl PSB_LOOP [[("start", VInt TUsize (N.of_nat (off s))); ("validate", VBool v); ("result", VClo c)]] buf s =
  let* (r, buf', s') := psb_post E c buf (slice_str_loop mfuel E v s) in Ok (ORet r buf' s').
Proof.
  induction k as [k IH] using lt_wf_ind. intros s Hk Hv fuel mfuel buf Hf Hm.
  do 24 (destruct fuel as [|fuel]; [exfalso; lia|]). destruct mfuel as [|mf]; [exfalso; lia|].
  unfold word_ok in Hw. unfold PSB_LOOP. rewrite ex_loop. step.
  rewrite call_skip by (auto; lia). cbn.
  rewrite slice_str_loop_S. cbv zeta.
  set (n := esc_span v (rest s)).
  pose proof (esc_span_le v (rest s)) as Hn. fold n in Hn.
  destruct (moved_facts sl n s Hv) as (Mo & Mr & Md).
  pose proof (moved_view sl n s Hv Hn) as Mv.
  rewrite (advance_set_index sl s n Hv).
  step. rewrite Mo. rewrite rest_set_index. destruct Hv as [Hvr Hvl]. rewrite <- (skipn_skipn n (off s) sl), <- Hvr, <- Mr.
  assert (Hv : view_ok sl s) by (split; assumption).
  destruct (rest (moved sl n s)) as [|b r1] eqn:Hr1.
  - (* end of input *)
    pose proof (view_nil _ _ Mv Hr1) as Hnil. rewrite Mo in Hnil. conds. step. rewrite !error_slice by exact Hio. rewrite Mo. reflexivity.
  - destruct (view_cons _ _ _ _ Mv Hr1) as (Hlt & Hnth & Hsk). rewrite Mo in Hlt, Hnth, Hsk. conds.
    step. step. rewrite Mo. norm. rewrite Hnth. cbn.
    assert (Hchunk : sub_bytes sl (off s) (off s + n - off s) = firstn n (rest s)).
    { unfold sub_bytes. rewrite <- Hvr. f_equal. lia. }
    assert (Hlr1 : (length r1 + 1 + n = length (rest s))%nat).
    { apply (f_equal (@length N)) in Mr. rewrite skipn_length in Mr. cbn [length] in Mr. lia. }
    destruct (b =? 34) eqn:Hq; cbn.
    + (* closing quote *)
      unfold psb_post. cbn [bind].
      step. destruct buf as [|b0 buf]; cbn.
      * step. norm. rewrite Mo. conds. step. rewrite Mo. rewrite in_range_usize by lia. cbn.
        step. rewrite Hchunk. rewrite apply_clo_src by lia. rewrite set_index_moved.
        replace (off s + n + 1)%nat with (S (off s + n)) by lia. rewrite advance_1_set.
        destruct (clo_model E c (set_index sl (S (off s + n)) s) (firstn n (rest s))) as [t| | |]; cbn; reflexivity.
      * step. norm. rewrite Mo. conds. rewrite Hchunk. step. rewrite Mo. rewrite in_range_usize by lia. cbn.
        step. rewrite apply_clo_src by lia. rewrite set_index_moved.
        replace (off s + n + 1)%nat with (S (off s + n)) by lia. rewrite advance_1_set.
        destruct (clo_model E c (set_index sl (S (off s + n)) s) ((b0 :: buf) ++ firstn n (rest s))) as [t| | |]; cbn; reflexivity.
    + destruct (b =? 92) eqn:Hbs; cbn.
      * (* backslash *)
        step. norm. rewrite Mo. conds. rewrite Hchunk. step. rewrite Mo. rewrite in_range_usize by lia. cbn.
        rewrite set_index_moved. replace (off s + n + 1)%nat with (S (off s + n)) by lia. rewrite advance_1_set.
        set (s2 := set_index sl (S (off s + n)) s).
        assert (Hrs2 : rest s2 = r1) by (unfold s2; rewrite rest_set_index; exact Hsk).
        assert (Hv2 : view_ok sl s2) by (apply view_set_index; lia).
        step. rewrite (StrSrc2.parse_escape_src E v s2 _ _ mf) by (rewrite Hrs2; lia).
        unfold StrSrc2.lift_app.
        destruct (Str.parse_escape mf E v s2) as [[w s3]| | |] eqn:Hpe; cbn; try reflexivity.
        destruct (pe_adv E v mf s2 w s3 Hpe) as (A3 & L3 & Hw3).
        pose proof (adv_view _ _ _ Hv2 A3) as Hv3. destruct A3 as (k3 & _ & _ & _ & D3).
        step. step. step. fold PSB_LOOP.
        rewrite (IH (length (rest s3))) with (mfuel := mf); [|rewrite Hrs2 in L3; lia|lia|exact Hv3|rewrite Hrs2 in L3; lia|rewrite Hrs2 in L3; lia].
        unfold psb_post.
        destruct (slice_str_loop mf E v s3) as [[[out cp] s4]| | |]; cbn; try reflexivity.
        replace (is_nil ((buf ++ firstn n (rest s)) ++ w)) with false by (destruct ((buf ++ firstn n (rest s)) ++ w) eqn:Ha; [apply app_eq_nil in Ha; destruct Ha; contradiction|reflexivity]).
        rewrite orb_true_r. cbn. rewrite <- !app_assoc.
        destruct (clo_model E c s4 (buf ++ firstn n (rest s) ++ w ++ out)) as [t| | |]; cbn; reflexivity.
      * (* control character *)
        step. rewrite Mo. rewrite in_range_usize by lia. cbn. step.
        rewrite !error_slice by exact Hio. rewrite set_index_moved. rewrite advance_1_set. rewrite !off_set_index. cbn.
        replace (off s + n + 1)%nat with (S (off s + n)) by lia. reflexivity.
Qed.

Theorem slice_parse_str_bytes_src : forall v c s buf fuel mfuel, view_ok sl s ->
  (2 * length (rest s) + 42 <= fuel)%nat -> (length (rest s) + 2 <= mfuel)%nat ->
  run_scan fuel E SP T sl "SliceRead::parse_str_bytes" [VBool v; VClo c] s buf = psb_post E c buf (slice_str_loop mfuel E v s).
Proof.
  intros v c s buf fuel mfuel Hv Hf Hm. do 2 (destruct fuel as [|fuel]; [exfalso; lia|]).
  enter "SliceRead::parse_str_bytes" SCAN_SliceRead_parse_str_bytes. step.
  rewrite blk_cons. fold PSB_LOOP. rewrite (psb_loop v c (length (rest s))) with (mfuel := mfuel) by (auto; lia).
  destruct (psb_post E c buf (slice_str_loop mfuel E v s)) as [[[r b'] s']| | |]; reflexivity.
Qed.

(* ---- SliceRead::ignore_str ------------------------------------------------------------------------------------------------------ *)
Definition SIGN_LOOP : stmt := Eval cbv in nth 0 (fbody SCAN_SliceRead_ignore_str) SContinue.
Lemma slice_ignore_loop_S f s : slice_ignore_loop (S f) E s =
    let s1 := advance (esc_span true (rest s)) s in
    match rest s1 with
    | [] => error E s1 EofWhileParsingString
    | b :: _ =>
      if b =? 34 then Ok (advance 1 s1)
      else if b =? 92 then let* s2 := Str.ignore_escape E (advance 1 s1) in slice_ignore_loop f E s2
      else error E (advance 1 s1) ControlCharacterWhileParsingString
    end.
Proof. reflexivity. Qed.

Lemma sign_loop : forall k s, (length (rest s) <= k)%nat -> view_ok sl s -> forall fuel mfuel buf l,
  (k + 40 <= fuel)%nat -> (k + 1 <= mfuel)%nat ->
  exec fuel E SP T sl SIGN_LOOP l buf s = let* s' := slice_ignore_loop mfuel E s in Ok (ORet RvUnit buf s').
Proof.
  induction k as [k IH] using lt_wf_ind. intros s Hk Hv fuel mfuel buf l Hf Hm.
  do 24 (destruct fuel as [|fuel]; [exfalso; lia|]). destruct mfuel as [|mf]; [exfalso; lia|].
  unfold word_ok in Hw. unfold SIGN_LOOP. rewrite ex_loop. step.
  rewrite call_skip by (auto; lia). cbn.
  rewrite slice_ignore_loop_S. cbv zeta.
  set (n := esc_span true (rest s)).
  pose proof (esc_span_le true (rest s)) as Hn. fold n in Hn.
  destruct (moved_facts sl n s Hv) as (Mo & Mr & Md).
  pose proof (moved_view sl n s Hv Hn) as Mv.
  rewrite (advance_set_index sl s n Hv).
  step. rewrite Mo. rewrite rest_set_index. destruct Hv as [Hvr Hvl]. rewrite <- (skipn_skipn n (off s) sl), <- Hvr, <- Mr.
  assert (Hv : view_ok sl s) by (split; assumption).
  destruct (rest (moved sl n s)) as [|b r1] eqn:Hr1.
  - pose proof (view_nil _ _ Mv Hr1) as Hnil. rewrite Mo in Hnil. conds. step. rewrite !error_slice by exact Hio. rewrite Mo. reflexivity.
  - destruct (view_cons _ _ _ _ Mv Hr1) as (Hlt & Hnth & Hsk). rewrite Mo in Hlt, Hnth, Hsk. conds.
    step. step. rewrite Mo. norm. rewrite Hnth. cbn.
    assert (Hlr1 : (length r1 + 1 + n = length (rest s))%nat).
    { apply (f_equal (@length N)) in Mr. rewrite skipn_length in Mr. cbn [length] in Mr. lia. }
    destruct (b =? 34) eqn:Hq; cbn.
    + step. rewrite Mo. rewrite in_range_usize by lia. cbn. step.
      rewrite set_index_moved. replace (off s + n + 1)%nat with (S (off s + n)) by lia. rewrite advance_1_set. reflexivity.
    + destruct (b =? 92) eqn:Hbs; cbn.
      * step. rewrite Mo. rewrite in_range_usize by lia. cbn.
        rewrite set_index_moved. replace (off s + n + 1)%nat with (S (off s + n)) by lia. rewrite advance_1_set.
        set (s2 := set_index sl (S (off s + n)) s).
        assert (Hrs2 : rest s2 = r1) by (unfold s2; rewrite rest_set_index; exact Hsk).
        assert (Hv2 : view_ok sl s2) by (apply view_set_index; lia).
        step. rewrite (StrSrc2.ignore_escape_src E true s2) by lia.
        destruct (Str.ignore_escape E s2) as [s3| | |] eqn:Hie; cbn; try reflexivity.
        destruct (ie_adv E s2 s3 Hie) as (A3 & L3).
        pose proof (adv_view _ _ _ Hv2 A3) as Hv3.
        step. step. fold SIGN_LOOP.
        rewrite (IH (length (rest s3))) with (mfuel := mf); [reflexivity|rewrite Hrs2 in L3; lia|lia|exact Hv3|rewrite Hrs2 in L3; lia|rewrite Hrs2 in L3; lia].
      * step. rewrite Mo. rewrite in_range_usize by lia. cbn. step.
        rewrite !error_slice by exact Hio. rewrite set_index_moved. rewrite advance_1_set. rewrite !off_set_index. cbn.
        replace (off s + n + 1)%nat with (S (off s + n)) by lia. reflexivity.
Qed.

Theorem slice_ignore_str_src : forall s buf fuel mfuel, view_ok sl s ->
  (length (rest s) + 41 <= fuel)%nat -> (length (rest s) + 1 <= mfuel)%nat ->
  run_scan fuel E SP T sl "SliceRead::ignore_str" [] s buf = let* s' := slice_ignore_loop mfuel E s in Ok (RvUnit, buf, s').
Proof.
  intros s buf fuel mfuel Hv Hf Hm. destruct fuel as [|fuel]; [exfalso; lia|].
  enter "SliceRead::ignore_str" SCAN_SliceRead_ignore_str.
  rewrite blk_cons. fold SIGN_LOOP. rewrite (sign_loop (length (rest s))) with (mfuel := mfuel) by (auto; lia).
  destruct (slice_ignore_loop mfuel E s) as [s'| | |]; reflexivity.
Qed.
End SliceLoops.

(* ---- IoRead::parse_str_bytes / IoRead::ignore_str (generic calls only: any reader kind, [sl] unused) ------------------------------- *)
Definition IOPSB_LOOP : stmt := Eval cbv in nth 0 (fbody SCAN_IoRead_parse_str_bytes) SContinue.
Definition IOIGN_LOOP : stmt := Eval cbv in nth 0 (fbody SCAN_IoRead_ignore_str) SContinue.
(* what IoRead::parse_str_bytes returns: `result(self, scratch)` on everything pushed *)
Definition io_post (E : env) (c : clo) (buf : bytes) (r : res (bytes * st)) : res (retv * bytes * st) :=
  let* (out, s') := r in let* t := clo_model E c s' (buf ++ out) in Ok (RvStr t, buf ++ out, s').

Section IoLoops.
Variable E : env.
Variable sl : bytes.

Lemma io_str_loop_S f v s : io_str_loop (S f) E v s =
    let* (ch, s1) := Str.next_or_eof E s in
    if negb (is_escape ch true) then
      let* (out, s2) := io_str_loop f E v s1 in Ok (ch :: out, s2)
    else if ch =? 34 then Ok ([], s1)
    else if ch =? 92 then
      let* (w, s2) := Str.parse_escape f E v s1 in
      let* (out, s3) := io_str_loop f E v s2 in Ok (w ++ out, s3)
    else if v then error E s1 ControlCharacterWhileParsingString
    else let* (out, s2) := io_str_loop f E v s1 in Ok (ch :: out, s2).
Proof. reflexivity. Qed.
Lemma io_ignore_loop_S f s : io_ignore_loop (S f) E s =
    let* (ch, s1) := Str.next_or_eof E s in
    if negb (is_escape ch true) then io_ignore_loop f E s1
    else if ch =? 34 then Ok s1
    else if ch =? 92 then let* s2 := Str.ignore_escape E s1 in io_ignore_loop f E s2
    else error E s1 ControlCharacterWhileParsingString.
Proof. reflexivity. Qed.

Lemma app_cons_assoc (a : bytes) x b : (a ++ [x]) ++ b = a ++ x :: b.
Proof. rewrite <- app_assoc. reflexivity. Qed.

Lemma iopsb_loop v c : forall k s, (length (rest s) <= k)%nat -> forall fuel mfuel buf,
  (2 * k + 30 <= fuel)%nat -> (k + 2 <= mfuel)%nat ->
  exec fuel E SP T sl IOPSB_LOOP [[("validate", VBool v); ("result", VClo c)]] buf s =
  let* (r, buf', s') := io_post E c buf (io_str_loop mfuel E v s) in Ok (ORet r buf' s').
Proof.
  induction k as [k IH] using lt_wf_ind. intros s Hk fuel mfuel buf Hf Hm.
  do 10 (destruct fuel as [|fuel]; [exfalso; lia|]). destruct mfuel as [|mf]; [exfalso; lia|].
  unfold IOPSB_LOOP. rewrite ex_loop. step. rewrite io_str_loop_S. unfold io_post.
  destruct (Str.next_or_eof E s) as [[ch s1]| | |] eqn:Hn; cbn; try reflexivity.
  destruct (noe_adv E s ch s1 Hn) as [_ L1].
  step. rewrite is_escape_call_src. cbn.
  destruct (negb (is_escape ch true)) eqn:Hesc; cbn.
  - (* ordinary byte: push, continue *)
    step. step. fold IOPSB_LOOP.
    rewrite (IH (length (rest s1))) with (mfuel := mf) by lia. unfold io_post.
    destruct (io_str_loop mf E v s1) as [[out s2]| | |]; cbn; try reflexivity. rewrite app_cons_assoc. reflexivity.
  - step. step.
    destruct (ch =? 34) eqn:Hq; cbn.
    + step. rewrite apply_clo_src by lia. rewrite app_nil_r.
      destruct (clo_model E c s1 buf) as [t| | |]; cbn; reflexivity.
    + destruct (ch =? 92) eqn:Hbs; cbn.
      * step. rewrite (StrSrc2.parse_escape_src E v s1 _ _ mf) by lia. unfold StrSrc2.lift_app.
        destruct (Str.parse_escape mf E v s1) as [[w s2]| | |] eqn:Hpe; cbn; try reflexivity.
        destruct (pe_adv E v mf s1 w s2 Hpe) as (_ & L2 & _).
        step. step. fold IOPSB_LOOP.
        rewrite (IH (length (rest s2))) with (mfuel := mf) by lia. unfold io_post.
        destruct (io_str_loop mf E v s2) as [[out s3]| | |]; cbn; try reflexivity. rewrite <- app_assoc. reflexivity.
      * step. destruct v; cbn.
        -- step. reflexivity.
        -- repeat step. fold IOPSB_LOOP.
           rewrite (IH (length (rest s1))) with (mfuel := mf) by lia. unfold io_post.
           destruct (io_str_loop mf E false s1) as [[out s2]| | |]; cbn; try reflexivity. rewrite app_cons_assoc. reflexivity.
Qed.

Theorem io_parse_str_bytes_src : forall v c s buf fuel mfuel,
  (2 * length (rest s) + 31 <= fuel)%nat -> (length (rest s) + 2 <= mfuel)%nat ->
  run_scan fuel E SP T sl "IoRead::parse_str_bytes" [VBool v; VClo c] s buf = io_post E c buf (io_str_loop mfuel E v s).
Proof.
  intros v c s buf fuel mfuel Hf Hm. destruct fuel as [|fuel]; [exfalso; lia|].
  enter "IoRead::parse_str_bytes" SCAN_IoRead_parse_str_bytes.
  rewrite blk_cons. fold IOPSB_LOOP. rewrite (iopsb_loop v c (length (rest s))) with (mfuel := mfuel) by lia.
  destruct (io_post E c buf (io_str_loop mfuel E v s)) as [[[r b'] s']| | |]; reflexivity.
Qed.

Lemma ioign_loop : forall k s, (length (rest s) <= k)%nat -> forall fuel mfuel buf l,
  (k + 30 <= fuel)%nat -> (k + 1 <= mfuel)%nat ->
  exec fuel E SP T sl IOIGN_LOOP l buf s = let* s' := io_ignore_loop mfuel E s in Ok (ORet RvUnit buf s').
Proof.
  induction k as [k IH] using lt_wf_ind. intros s Hk fuel mfuel buf l Hf Hm.
  do 10 (destruct fuel as [|fuel]; [exfalso; lia|]). destruct mfuel as [|mf]; [exfalso; lia|].
  unfold IOIGN_LOOP. rewrite ex_loop. step. rewrite io_ignore_loop_S.
  destruct (Str.next_or_eof E s) as [[ch s1]| | |] eqn:Hn; cbn; try reflexivity.
  destruct (noe_adv E s ch s1 Hn) as [_ L1].
  step. rewrite is_escape_call_src. cbn.
  destruct (negb (is_escape ch true)) eqn:Hesc; cbn.
  - step. fold IOIGN_LOOP. rewrite (IH (length (rest s1))) with (mfuel := mf) by lia. reflexivity.
  - step. step.
    destruct (ch =? 34) eqn:Hq; cbn.
    + step. reflexivity.
    + destruct (ch =? 92) eqn:Hbs; cbn.
      * step. rewrite (StrSrc2.ignore_escape_src E true s1) by lia.
        destruct (Str.ignore_escape E s1) as [s2| | |] eqn:Hie; cbn; try reflexivity.
        destruct (ie_adv E s1 s2 Hie) as (_ & L2).
        step. step. fold IOIGN_LOOP. rewrite (IH (length (rest s2))) with (mfuel := mf) by lia. reflexivity.
      * step. reflexivity.
Qed.

Theorem io_ignore_str_src : forall s buf fuel mfuel,
  (length (rest s) + 31 <= fuel)%nat -> (length (rest s) + 1 <= mfuel)%nat ->
  run_scan fuel E SP T sl "IoRead::ignore_str" [] s buf = let* s' := io_ignore_loop mfuel E s in Ok (RvUnit, buf, s').
Proof.
  intros s buf fuel mfuel Hf Hm. destruct fuel as [|fuel]; [exfalso; lia|].
  enter "IoRead::ignore_str" SCAN_IoRead_ignore_str.
  rewrite blk_cons. fold IOIGN_LOOP. rewrite (ioign_loop (length (rest s))) with (mfuel := mfuel) by lia.
  destruct (io_ignore_loop mfuel E s) as [s'| | |]; reflexivity.
Qed.
End IoLoops.

(* ---- the Read trait methods -------------------------------------------------------------------------------------------------- *)
(* IoRead::parse_str / parse_str_raw: `.map(Reference::Copied)` of parse_str_bytes *)
Definition io_ref_post (E : env) (c : clo) (buf : bytes) (r : res (bytes * st)) : res (retv * bytes * st) :=
  let* (out, s') := r in let* t := clo_model E c s' (buf ++ out) in Ok (RvRef false t, buf ++ out, s').

Section Glue.
Variable E : env.
Variable sl : bytes.

Section SliceGlue.
Hypothesis Hio : is_io E = false.
Hypothesis Hw : word_ok sl.
Hypothesis Hb : bytes_ok sl.

Lemma call_psb v c s buf f mfuel : view_ok sl s -> (2 * length (rest s) + 42 <= f)%nat -> (length (rest s) + 2 <= mfuel)%nat ->
  call_fn (exec f E SP T sl) T "SliceRead::parse_str_bytes" [VBool v; VClo c] s buf = psb_post E c buf (slice_str_loop mfuel E v s).
Proof. apply slice_parse_str_bytes_src; assumption. Qed.
Lemma call_sign s buf f mfuel : view_ok sl s -> (length (rest s) + 41 <= f)%nat -> (length (rest s) + 1 <= mfuel)%nat ->
  call_fn (exec f E SP T sl) T "SliceRead::ignore_str" [] s buf = let* s' := slice_ignore_loop mfuel E s in Ok (RvUnit, buf, s').
Proof. apply slice_ignore_str_src; assumption. Qed.

Theorem slice_parse_str_src : forall s buf fuel mfuel, view_ok sl s ->
  (2 * length (rest s) + 44 <= fuel)%nat -> (length (rest s) + 2 <= mfuel)%nat ->
  run_scan fuel E SP T sl "SliceRead::parse_str" [] s buf = psb_post E CloAsStr buf (slice_str_loop mfuel E true s).
Proof.
  intros s buf fuel mfuel Hv Hf Hm. do 2 (destruct fuel as [|fuel]; [exfalso; lia|]).
  enter "SliceRead::parse_str" SCAN_SliceRead_parse_str. step. rewrite (call_psb true CloAsStr s buf _ mfuel) by (auto; lia).
  destruct (psb_post E CloAsStr buf (slice_str_loop mfuel E true s)) as [[[r b'] s']| | |]; reflexivity.
Qed.
Theorem slice_parse_str_raw_src : forall s buf fuel mfuel, view_ok sl s ->
  (2 * length (rest s) + 44 <= fuel)%nat -> (length (rest s) + 2 <= mfuel)%nat ->
  run_scan fuel E SP T sl "SliceRead::parse_str_raw" [] s buf = psb_post E CloBytes buf (slice_str_loop mfuel E false s).
Proof.
  intros s buf fuel mfuel Hv Hf Hm. do 2 (destruct fuel as [|fuel]; [exfalso; lia|]).
  enter "SliceRead::parse_str_raw" SCAN_SliceRead_parse_str_raw. step. rewrite (call_psb false CloBytes s buf _ mfuel) by (auto; lia).
  destruct (psb_post E CloBytes buf (slice_str_loop mfuel E false s)) as [[[r b'] s']| | |]; reflexivity.
Qed.
Lemma call_psr s buf f mfuel : view_ok sl s -> (2 * length (rest s) + 44 <= f)%nat -> (length (rest s) + 2 <= mfuel)%nat ->
  call_fn (exec f E SP T sl) T "SliceRead::parse_str_raw" [] s buf = psb_post E CloBytes buf (slice_str_loop mfuel E false s).
Proof. apply slice_parse_str_raw_src; assumption. Qed.

(* StrRead: the delegate is a SliceRead over the bytes of the &str; parse_str skips the UTF-8 check (from_utf8_unchecked) *)
Theorem str_parse_str_src : forall s buf fuel mfuel, view_ok sl s ->
  (2 * length (rest s) + 44 <= fuel)%nat -> (length (rest s) + 2 <= mfuel)%nat ->
  run_scan fuel E SP T sl "StrRead::parse_str" [] s buf = psb_post E CloUnchecked buf (slice_str_loop mfuel E true s).
Proof.
  intros s buf fuel mfuel Hv Hf Hm. do 2 (destruct fuel as [|fuel]; [exfalso; lia|]).
  enter "StrRead::parse_str" SCAN_StrRead_parse_str. step. rewrite (call_psb true CloUnchecked s buf _ mfuel) by (auto; lia).
  destruct (psb_post E CloUnchecked buf (slice_str_loop mfuel E true s)) as [[[r b'] s']| | |]; reflexivity.
Qed.
Theorem str_parse_str_raw_src : forall s buf fuel mfuel, view_ok sl s ->
  (2 * length (rest s) + 46 <= fuel)%nat -> (length (rest s) + 2 <= mfuel)%nat ->
  run_scan fuel E SP T sl "StrRead::parse_str_raw" [] s buf = psb_post E CloBytes buf (slice_str_loop mfuel E false s).
Proof.
  intros s buf fuel mfuel Hv Hf Hm. do 2 (destruct fuel as [|fuel]; [exfalso; lia|]).
  enter "StrRead::parse_str_raw" SCAN_StrRead_parse_str_raw. step. rewrite (call_psr s buf _ mfuel) by (auto; lia).
  destruct (psb_post E CloBytes buf (slice_str_loop mfuel E false s)) as [[[r b'] s']| | |]; reflexivity.
Qed.
Theorem str_ignore_str_src : forall s buf fuel mfuel, view_ok sl s ->
  (length (rest s) + 43 <= fuel)%nat -> (length (rest s) + 1 <= mfuel)%nat ->
  run_scan fuel E SP T sl "StrRead::ignore_str" [] s buf = let* s' := slice_ignore_loop mfuel E s in Ok (RvUnit, buf, s').
Proof.
  intros s buf fuel mfuel Hv Hf Hm. do 2 (destruct fuel as [|fuel]; [exfalso; lia|]).
  enter "StrRead::ignore_str" SCAN_StrRead_ignore_str. step. rewrite (call_sign s buf _ mfuel) by (auto; lia).
  destruct (slice_ignore_loop mfuel E s) as [s'| | |]; reflexivity.
Qed.
End SliceGlue.

Lemma call_iopsb v c s buf f mfuel : (2 * length (rest s) + 31 <= f)%nat -> (length (rest s) + 2 <= mfuel)%nat ->
  call_fn (exec f E SP T sl) T "IoRead::parse_str_bytes" [VBool v; VClo c] s buf = io_post E c buf (io_str_loop mfuel E v s).
Proof. apply io_parse_str_bytes_src. Qed.
Theorem io_parse_str_src : forall s buf fuel mfuel,
  (2 * length (rest s) + 33 <= fuel)%nat -> (length (rest s) + 2 <= mfuel)%nat ->
  run_scan fuel E SP T sl "IoRead::parse_str" [] s buf = io_ref_post E CloAsStr buf (io_str_loop mfuel E true s).
Proof.
  intros s buf fuel mfuel Hf Hm. do 2 (destruct fuel as [|fuel]; [exfalso; lia|]).
  enter "IoRead::parse_str" SCAN_IoRead_parse_str. step. rewrite (call_iopsb true CloAsStr s buf _ mfuel) by lia.
  unfold io_post, io_ref_post. destruct (io_str_loop mfuel E true s) as [[out s']| | |]; cbn; try reflexivity.
  destruct (clo_model E CloAsStr s' (buf ++ out)) as [t| | |]; reflexivity.
Qed.
Theorem io_parse_str_raw_src : forall s buf fuel mfuel,
  (2 * length (rest s) + 33 <= fuel)%nat -> (length (rest s) + 2 <= mfuel)%nat ->
  run_scan fuel E SP T sl "IoRead::parse_str_raw" [] s buf = io_ref_post E CloBytes buf (io_str_loop mfuel E false s).
Proof.
  intros s buf fuel mfuel Hf Hm. do 2 (destruct fuel as [|fuel]; [exfalso; lia|]).
  enter "IoRead::parse_str_raw" SCAN_IoRead_parse_str_raw. step. rewrite (call_iopsb false CloBytes s buf _ mfuel) by lia.
  unfold io_post, io_ref_post. destruct (io_str_loop mfuel E false s) as [[out s']| | |]; cbn; try reflexivity.
Qed.
End Glue.

(* ---- the trait methods against Model/Str.v parse_str / parse_str_raw / ignore_str (scratch cleared by the caller, as de.rs does) ---------- *)
(* (contents, borrowed?, reader) of the model as (Reference, scratch afterwards, reader) *)
Definition ref_of (r : res (bytes * bool * st)) : res (retv * bytes * st) :=
  let* (out, borrowed, s') := r in Ok (RvRef borrowed out, (if borrowed then [] else out), s').
Definition reader_name (E : env) : string := match rk E with RSlice => "SliceRead" | RStr => "StrRead" | RIo => "IoRead" end.
Definition slice_hyps (E : env) (sl : bytes) (s : st) : Prop := is_io E = false -> view_ok sl s /\ word_ok sl /\ bytes_ok sl.

Lemma psb_post_nil E c r : psb_post E c [] r =
  let* (out, copied, s') := r in let* t := clo_model E c s' out in Ok (RvRef (negb copied) t, (if copied then out else []), s').
Proof.
  unfold psb_post. destruct r as [[[out cp] s']| | |]; cbn [bind]; try reflexivity.
  unfold is_nil. cbn [negb]. rewrite orb_false_r. destruct cp; cbn [negb]; rewrite ?app_nil_l; reflexivity.
Qed.
Lemma io_ref_post_nil E c r : io_ref_post E c [] r = let* (out, s') := r in let* t := clo_model E c s' out in Ok (RvRef false t, out, s').
Proof. unfold io_ref_post. destruct r as [[out s']| | |]; cbn [bind]; reflexivity. Qed.

Theorem read_parse_str_src : forall E sl s fuel, slice_hyps E sl s -> (2 * length (rest s) + 44 <= fuel)%nat ->
  run_scan fuel E SP T sl (reader_name E ++ "::parse_str") [] s [] = ref_of (Str.parse_str E s).
Proof.
  intros [k tm cf] sl s fuel Hs Hf. unfold reader_name, Str.parse_str, slice_hyps, is_io in *. cbn [rk] in *. destruct k; cbn [String.append].
  - destruct (Hs eq_refl) as (Hv & Hw & Hb).
    rewrite (slice_parse_str_src (mkEnv RSlice tm cf) sl eq_refl Hw Hb s [] fuel (str_fuel s) Hv) by (unfold str_fuel; lia). rewrite psb_post_nil. unfold ref_of.
    destruct (slice_str_loop _ _ _ _) as [[[out cp] s1]| | |]; cbn [bind]; try reflexivity.
    unfold clo_model, as_str_model. destruct (utf8_valid out); cbn [bind]; [destruct cp; reflexivity|reflexivity].
  - destruct (Hs eq_refl) as (Hv & Hw & Hb).
    rewrite (str_parse_str_src (mkEnv RStr tm cf) sl eq_refl Hw Hb s [] fuel (str_fuel s) Hv) by (unfold str_fuel; lia). rewrite psb_post_nil. unfold ref_of.
    destruct (slice_str_loop _ _ _ _) as [[[out cp] s1]| | |]; cbn [bind]; try reflexivity.
    unfold clo_model. cbn [bind]. destruct cp; reflexivity.
  - rewrite (io_parse_str_src _ sl s [] fuel (str_fuel s)) by (unfold str_fuel; lia). rewrite io_ref_post_nil. unfold ref_of.
    destruct (io_str_loop _ _ _ _) as [[out s1]| | |]; cbn [bind]; try reflexivity.
    unfold clo_model, as_str_model. destruct (utf8_valid out); cbn [bind]; reflexivity.
Qed.

Theorem read_parse_str_raw_src : forall E sl s fuel, slice_hyps E sl s -> (2 * length (rest s) + 46 <= fuel)%nat ->
  run_scan fuel E SP T sl (reader_name E ++ "::parse_str_raw") [] s [] = ref_of (Str.parse_str_raw E s).
Proof.
  intros [k tm cf] sl s fuel Hs Hf. unfold reader_name, Str.parse_str_raw, slice_hyps, is_io in *. cbn [rk] in *. destruct k; cbn [String.append].
  - destruct (Hs eq_refl) as (Hv & Hw & Hb).
    rewrite (slice_parse_str_raw_src (mkEnv RSlice tm cf) sl eq_refl Hw Hb s [] fuel (str_fuel s) Hv) by (unfold str_fuel; lia). rewrite psb_post_nil. unfold ref_of.
    destruct (slice_str_loop _ _ _ _) as [[[out cp] s1]| | |]; cbn [bind]; try reflexivity.
    unfold clo_model. cbn [bind]. destruct cp; reflexivity.
  - destruct (Hs eq_refl) as (Hv & Hw & Hb).
    rewrite (str_parse_str_raw_src (mkEnv RStr tm cf) sl eq_refl Hw Hb s [] fuel (str_fuel s) Hv) by (unfold str_fuel; lia). rewrite psb_post_nil. unfold ref_of.
    destruct (slice_str_loop _ _ _ _) as [[[out cp] s1]| | |]; cbn [bind]; try reflexivity.
    unfold clo_model. cbn [bind]. destruct cp; reflexivity.
  - rewrite (io_parse_str_raw_src _ sl s [] fuel (str_fuel s)) by (unfold str_fuel; lia). rewrite io_ref_post_nil. unfold ref_of.
    destruct (io_str_loop _ _ _ _) as [[out s1]| | |]; cbn [bind]; reflexivity.
Qed.

Theorem read_ignore_str_src : forall E sl s buf fuel, slice_hyps E sl s -> (length (rest s) + 43 <= fuel)%nat ->
  run_scan fuel E SP T sl (reader_name E ++ "::ignore_str") [] s buf = let* s' := Str.ignore_str E s in Ok (RvUnit, buf, s').
Proof.
  intros [k tm cf] sl s buf fuel Hs Hf. unfold reader_name, Str.ignore_str, slice_hyps, is_io in *. cbn [rk] in *. destruct k; cbn [String.append].
  - destruct (Hs eq_refl) as (Hv & Hw & Hb). apply slice_ignore_str_src; auto; unfold str_fuel; lia.
  - destruct (Hs eq_refl) as (Hv & Hw & Hb). apply str_ignore_str_src; auto; unfold str_fuel; lia.
  - apply io_ignore_str_src; unfold str_fuel; lia.
Qed.

(* every cursor is the view of some slice: bytes before the index are never read *)
Definition slice_of (s : st) : bytes := repeat 0 (off s) ++ rest s.
Lemma view_ok_slice_of s : view_ok (slice_of s) s.
Proof.
  unfold view_ok, slice_of. split.
  - rewrite skipn_app, repeat_length, Nat.sub_diag. rewrite skipn_all2 by (rewrite repeat_length; lia). reflexivity.
  - rewrite app_length, repeat_length. lia.
Qed.

(* ---- the exported statement ------------------------------------------------------------------------------------------------ *)
Theorem string_scanning_is_translated_source : forall (E : env) (sl : bytes) (s : st) (buf : bytes) (fuel mfuel : nat),
  let len := length (rest s) in
  let run := fun fn args => run_scan fuel E STR_PROG SCAN_PROG sl fn args s buf in
  (* is_escape(ch, including_control_characters) *)
  (forall b ctrl, (1 <= fuel)%nat -> run "is_escape" [VInt TU8 b; VBool ctrl] = Ok (RvBool (is_escape b ctrl), buf, s)) /\
  (* as_str(read, slice) *)
  (forall w, (1 <= fuel)%nat -> run "as_str" [VBytes w] = let* t := as_str_model E s w in Ok (RvStr t, buf, s)) /\
  (* SliceRead (and StrRead, whose delegate is one): the cursor is the view of the slice; usize and u8 are what they are *)
  (is_io E = false -> view_ok sl s -> word_ok sl -> bytes_ok sl ->
     ((esc_span true (rest s) + 4 <= fuel)%nat ->
        run "SliceRead::skip_to_escape_slow" [] = Ok (RvUnit, buf, moved sl (esc_span true (rest s)) s)) /\
     (forall ctrl, (16 <= fuel)%nat ->
        run "SliceRead::skip_to_escape" [VBool ctrl] = Ok (RvUnit, buf, moved sl (esc_span ctrl (rest s)) s)) /\
     (forall v c, (2 * len + 42 <= fuel)%nat -> (len + 2 <= mfuel)%nat ->
        run "SliceRead::parse_str_bytes" [VBool v; VClo c] = psb_post E c buf (slice_str_loop mfuel E v s)) /\
     ((len + 41 <= fuel)%nat -> (len + 1 <= mfuel)%nat ->
        run "SliceRead::ignore_str" [] = let* s' := slice_ignore_loop mfuel E s in Ok (RvUnit, buf, s')) /\
     ((2 * len + 44 <= fuel)%nat -> (len + 2 <= mfuel)%nat ->
        run "SliceRead::parse_str" [] = psb_post E CloAsStr buf (slice_str_loop mfuel E true s)) /\
     ((2 * len + 44 <= fuel)%nat -> (len + 2 <= mfuel)%nat ->
        run "SliceRead::parse_str_raw" [] = psb_post E CloBytes buf (slice_str_loop mfuel E false s)) /\
     ((2 * len + 44 <= fuel)%nat -> (len + 2 <= mfuel)%nat ->
        run "StrRead::parse_str" [] = psb_post E CloUnchecked buf (slice_str_loop mfuel E true s)) /\
     ((2 * len + 46 <= fuel)%nat -> (len + 2 <= mfuel)%nat ->
        run "StrRead::parse_str_raw" [] = psb_post E CloBytes buf (slice_str_loop mfuel E false s)) /\
     ((len + 43 <= fuel)%nat -> (len + 1 <= mfuel)%nat ->
        run "StrRead::ignore_str" [] = let* s' := slice_ignore_loop mfuel E s in Ok (RvUnit, buf, s'))) /\
  (* IoRead: generic calls only, so for every reader kind *)
  (forall v c, (2 * len + 31 <= fuel)%nat -> (len + 2 <= mfuel)%nat ->
     run "IoRead::parse_str_bytes" [VBool v; VClo c] = io_post E c buf (io_str_loop mfuel E v s)) /\
  ((len + 31 <= fuel)%nat -> (len + 1 <= mfuel)%nat ->
     run "IoRead::ignore_str" [] = let* s' := io_ignore_loop mfuel E s in Ok (RvUnit, buf, s')) /\
  ((2 * len + 33 <= fuel)%nat -> (len + 2 <= mfuel)%nat ->
     run "IoRead::parse_str" [] = io_ref_post E CloAsStr buf (io_str_loop mfuel E true s)) /\
  ((2 * len + 33 <= fuel)%nat -> (len + 2 <= mfuel)%nat ->
     run "IoRead::parse_str_raw" [] = io_ref_post E CloBytes buf (io_str_loop mfuel E false s)) /\
  (* Read::{parse_str, parse_str_raw, ignore_str} of the reader kind of E, scratch cleared: Model/Str.v parse_str / parse_str_raw / ignore_str *)
  (slice_hyps E sl s -> (2 * len + 46 <= fuel)%nat ->
     run_scan fuel E STR_PROG SCAN_PROG sl (reader_name E ++ "::parse_str")%string [] s [] = ref_of (Str.parse_str E s) /\
     run_scan fuel E STR_PROG SCAN_PROG sl (reader_name E ++ "::parse_str_raw")%string [] s [] = ref_of (Str.parse_str_raw E s) /\
     run (reader_name E ++ "::ignore_str")%string [] = let* s' := Str.ignore_str E s in Ok (RvUnit, buf, s')).
Proof.
  intros E sl s buf fuel mfuel len run. unfold run, len.
  split; [intros; apply is_escape_src; assumption|].
  split; [intros; apply as_str_src; assumption|].
  split.
  { intros Hio Hv Hw Hb.
    split; [intros; apply skip_to_escape_slow_src; assumption|].
    split; [intros; apply skip_to_escape_src; auto|].
    split; [intros; apply slice_parse_str_bytes_src; assumption|].
    split; [intros; apply slice_ignore_str_src; assumption|].
    split; [intros; apply slice_parse_str_src; assumption|].
    split; [intros; apply slice_parse_str_raw_src; assumption|].
    split; [intros; apply str_parse_str_src; assumption|].
    split; [intros; apply str_parse_str_raw_src; assumption|].
    intros; apply str_ignore_str_src; assumption. }
  split; [intros; apply io_parse_str_bytes_src; assumption|].
  split; [intros; apply io_ignore_str_src; assumption|].
  split; [intros; apply io_parse_str_src; assumption|].
  split; [intros; apply io_parse_str_raw_src; assumption|].
  intros Hs Hf.
  split; [apply read_parse_str_src; [exact Hs|lia]|].
  split; [apply read_parse_str_raw_src; [exact Hs|lia]|].
  apply read_ignore_str_src; [exact Hs|lia].
Qed.

(* not vacuous: the interpreted source on  abcdefghijk\nx  + closing quote + comma, after the opening quote (SWAR chunk, escape, copy), on a borrowed string,
   with a non-empty scratch buffer, on an io reader, a control character in both modes, and with too little fuel *)
Definition E_slice := mkEnv RSlice TEof (mkCfg false false false false).
Definition E_io := mkEnv RIo TEof (mkCfg false false false false).
Definition ex_in : bytes := [34; 97; 98; 99; 100; 101; 102; 103; 104; 105; 106; 107; 92; 110; 120; 34; 44].
Example parse_str_runs :
  run_scan 80 E_slice STR_PROG SCAN_PROG ex_in "SliceRead::parse_str" [] (set_index ex_in 1 (init_st [])) []
  = Ok (RvRef false [97; 98; 99; 100; 101; 102; 103; 104; 105; 106; 107; 10; 120],
        [97; 98; 99; 100; 101; 102; 103; 104; 105; 106; 107; 10; 120], mkSt [44] 16 false DEPTH0)
  /\ run_scan 80 E_slice STR_PROG SCAN_PROG [34; 97; 98; 34] "SliceRead::parse_str_raw" [] (set_index [34; 97; 98; 34] 1 (init_st [])) []
  = Ok (RvRef true [97; 98], [], mkSt [] 4 false DEPTH0)
  /\ run_scan 80 E_slice STR_PROG SCAN_PROG [34; 97; 98; 34] "StrRead::parse_str" [] (set_index [34; 97; 98; 34] 1 (init_st [])) [7]
  = Ok (RvRef false [7; 97; 98], [7; 97; 98], mkSt [] 4 false DEPTH0)
  /\ run_scan 80 E_io STR_PROG SCAN_PROG [] "IoRead::parse_str" [] (init_st [97; 92; 110; 98; 34; 1]) []
  = Ok (RvRef false [97; 10; 98], [97; 10; 98], mkSt [1] 5 false DEPTH0)
  /\ run_scan 80 E_slice STR_PROG SCAN_PROG [97; 98; 10; 34] "SliceRead::parse_str" [] (init_st [97; 98; 10; 34]) []
  = Err ControlCharacterWhileParsingString 3
  /\ run_scan 80 E_slice STR_PROG SCAN_PROG [97; 98; 10; 34] "SliceRead::parse_str_raw" [] (init_st [97; 98; 10; 34]) []
  = Ok (RvRef true [97; 98; 10], [], mkSt [] 4 false DEPTH0)
  /\ run_scan 80 E_slice STR_PROG SCAN_PROG ex_in "SliceRead::ignore_str" [] (set_index ex_in 1 (init_st [])) []
  = Ok (RvUnit, [], mkSt [44] 16 false DEPTH0)
  /\ run_scan 6 E_slice STR_PROG SCAN_PROG ex_in "SliceRead::parse_str" [] (set_index ex_in 1 (init_st [])) [] = OutOfFuel.
Proof. repeat split; vm_compute; reflexivity. Qed.

(* the SliceRead theorems are about SliceRead / StrRead environments ([is_io E = false]): error positions of an IoRead count the peeked byte
   (Model/Read.v err_idx), a SliceRead's do not — run under an IoRead environment with a byte "peeked", the two sides place the error differently *)
Example slice_theorems_need_slice_env :
  run_scan 60 E_io STR_PROG SCAN_PROG [] "SliceRead::parse_str_bytes" [VBool true; VClo CloBytes] (mkSt [] 0 true DEPTH0) []
  = Err EofWhileParsingString 1
  /\ psb_post E_io CloBytes [] (slice_str_loop 2 E_io true (mkSt [] 0 true DEPTH0)) = Err EofWhileParsingString 0.
Proof. split; vm_compute; reflexivity. Qed.

Print Assumptions string_scanning_is_translated_source.
Print Assumptions read_parse_str_src.
Print Assumptions read_parse_str_raw_src.
Print Assumptions read_ignore_str_src.
