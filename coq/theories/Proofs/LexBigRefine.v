(* Proofs/LexBigRefine.v — the limb-level big integers of Model/LexBig.v REFINE the Z abstraction of Model/Lex.v.

   Part 1 (LexBigBase.v): val, limbs_ok, normalized; scalar carries; small add / multiply; shifts; normalize;
                          compare_refines, bit_length_refines, hi64_refines, from_u64_refines.
   Part 2 (LexBigMul.v):  large::iadd_impl, isub, long_mul_refines, karatsuba_mul_partial, large::imul.
   Part 3 (LexBigPow.v):  imul_small_refines, iadd_small_refines, imul_pow2_refines, imul_pow5_partial / _total,
                          imul_pow10_partial / _refines_1024.
   This file:             the operations as bhcomp.rs strings them together (parse_mantissa, large_atof, small_atof,
                          bhcomp) computed on limbs give the results of Model/Lex.v's Z versions; the failure witnesses
                          of Karatsuba outside the parser's operand range; the counterexamples to the unconditional
                          closure statements; Print Assumptions. *)
From Coq Require Import NArith ZArith List Bool Arith Lia ZifyBool ZifyNat ZifyN.
From SJ Require Import Base.Bytes Gen.LexTables Model.Num Model.Lex Model.LexBig.
From SJ Require Import Proofs.LexBigBase Proofs.LexBigMul Proofs.LexBigPow.
Import ListNotations.
Open Scope Z_scope.

Arguments N.mul : simpl never.
Arguments N.add : simpl never.
Arguments N.sub : simpl never.
Arguments Z.mul : simpl never.
Arguments Z.add : simpl never.
Arguments Z.sub : simpl never.
Arguments Z.pow : simpl never.
Arguments Z.of_N : simpl never.

Notation len x := (Z.of_nat (length x)).

(* ------------------------------------------------------------------------------------------------ *)
(** * digit strings *)
Lemma digits_val_bound : forall (l : list N) (acc : Z), forallb is_digit l = true -> 0 <= acc ->
  0 <= digits_val l acc < (acc + 1) * 10 ^ len l.
Proof.
  induction l as [|c r IH]; intros acc Hd Ha; cbn [digits_val length].
  - rewrite Z.pow_0_r. lia.
  - cbn [forallb] in Hd. apply andb_prop in Hd. destruct Hd as (Hc & Hr).
    unfold is_digit in Hc. apply andb_prop in Hc. destruct Hc as (H1 & H2). apply N.leb_le in H1, H2.
    assert (Hdv : 0 <= Z.of_N (digit_val c) <= 9) by (unfold digit_val; lia).
    specialize (IH (acc * 10 + Z.of_N (digit_val c)) Hr ltac:(lia)).
    rewrite Nat2Z.inj_succ, Z.pow_succ_r by lia.
    assert (0 < 10 ^ len r) by (apply Z.pow_pos_nonneg; lia). nia.
Qed.

Lemma forallb_firstn {A : Type} (f : A -> bool) (n : nat) : forall l, forallb f l = true -> forallb f (firstn n l) = true.
Proof.
  induction n as [|n IH]; intros l H; [reflexivity|]. destruct l as [|a r]; [reflexivity|].
  cbn [forallb firstn] in *. apply andb_prop in H. destruct H as (H1 & H2). rewrite H1, (IH r H2). reflexivity.
Qed.
Lemma forallb_skipn {A : Type} (f : A -> bool) (n : nat) : forall l, forallb f l = true -> forallb f (skipn n l) = true.
Proof.
  induction n as [|n IH]; intros l H; [exact H|]. destruct l as [|a r]; [reflexivity|].
  cbn [forallb skipn] in *. apply andb_prop in H. destruct H as (_ & H2). exact (IH r H2).
Qed.

(* ------------------------------------------------------------------------------------------------ *)
(** * the vectors parse_mantissa goes through: empty, [0] (a chunk of zeros added to the empty vector), or normalized *)
Definition J (r : list N) : Prop := r = [] \/ r = [0%N] \/ (normalized r /\ r <> []).

Lemma J_single (v : N) : J [v].
Proof.
  destruct (N.eq_dec v 0) as [->|H]; [right; left; reflexivity|right; right; split; [apply normalized_single; exact H|discriminate]].
Qed.

Lemma imul_small_J (r : list N) (p : N) : limbs_ok r -> (p < LB)%N -> p <> 0%N -> J r -> J (imul_small r p).
Proof.
  intros Hr Hp Hp0 [->|[->|(Hn & Hne)]].
  - left. reflexivity.
  - right; left. reflexivity.
  - right; right. destruct (imul_small_refines r p Hr Hp) as (_ & _ & Hnn & Hl).
    split; [apply Hnn; assumption|]. destruct r as [|r0 rt]; [congruence|]. destruct (imul_small (r0 :: rt) p); [cbn [length] in Hl; lia|discriminate].
Qed.

Lemma iadd_small_J (r : list N) (v : N) : limbs_ok r -> (v < LB)%N -> J r ->
  exists z, iadd_small r v = Some z /\ val z = val r + Z.of_N v /\ limbs_ok z /\ J z.
Proof.
  intros Hr Hv HJ.
  destruct (iadd_small_refines r v Hr Hv) as (z & E & Hval & Hok & Hn & Hl).
  exists z. split; [exact E|]. split; [exact Hval|]. split; [exact Hok|].
  destruct HJ as [->|[->|(Hnr & Hne)]].
  - cbn in E. injection E as <-. apply J_single.
  - (* [0] + v = [v] *)
    assert (E' : iadd_small [0%N] v = Some [v]).
    { unfold iadd_small, small_iadd, small_iadd_impl. cbn [length Nat.leb nth_error obind].
      unfold scalar_iadd, scalar_add. cbn [fst snd]. rewrite N.add_0_l, wrap64_small by exact Hv.
      replace (LB <=? v)%N with false by (symmetry; apply N.leb_gt; exact Hv).
      cbn [set_nth obind iadd_ripple andb]. reflexivity. }
    rewrite E in E'. injection E' as ->. apply J_single.
  - right; right. split; [apply Hn; [exact Hnr|left; exact Hne]|].
    destruct r as [|r0 rt]; [congruence|]. destruct z; [cbn [length] in Hl; lia|discriminate].
Qed.

Lemma J_pos_normalized (r : list N) : J r -> 0 < val r -> normalized r.
Proof.
  intros [->|[->|(Hn & _)]] Hp; [exact normalized_nil| |exact Hn]. cbn [val] in Hp. change (Z.of_N 0) with 0 in Hp. lia.
Qed.

(* ------------------------------------------------------------------------------------------------ *)
(** * parse_mantissa *)
Definition pmA (s : pm_state) : Z := val (pm_result s) * 10 ^ Z.of_nat (pm_counter s) + Z.of_N (pm_value s).
Definition pm_inv (s : pm_state) : Prop :=
  (pm_counter s <= 18)%nat /\ Z.of_N (pm_value s) < 10 ^ Z.of_nat (pm_counter s) /\ limbs_ok (pm_result s) /\ J (pm_result s).

Lemma pow10_lt_W (c : nat) : (c <= 18)%nat -> 10 ^ Z.of_nat c < W.
Proof.
  intros H. assert (10 ^ Z.of_nat c <= 10 ^ 18) by (apply Z.pow_le_mono_r; lia). assert (10 ^ 18 < W) by reflexivity. lia.
Qed.

(* result.imul_small(small_powers[counter]); result.iadd_small(value) *)
Lemma flush_spec (s : pm_state) : pm_inv s ->
  exists r1, (let? p := nth_error POW10_LIMB (pm_counter s) in iadd_small (imul_small (pm_result s) p) (pm_value s)) = Some r1
    /\ val r1 = pmA s /\ limbs_ok r1 /\ J r1.
Proof.
  intros (Hc & Hv & Hok & HJ).
  destruct (pow10_limb_nth (pm_counter s) ltac:(lia)) as (p & Ep & Hpv & Hpb & Hp0). rewrite Ep. cbn [obind].
  destruct (imul_small_refines (pm_result s) p Hok Hpb) as (Hmv & Hmok & _ & _).
  pose proof (imul_small_J _ p Hok Hpb Hp0 HJ) as HJm.
  assert (Hvb : (pm_value s < LB)%N) by (pose proof (pow10_lt_W _ Hc); rewrite <- LB_W in *; lia).
  destruct (iadd_small_J _ (pm_value s) Hmok Hvb HJm) as (z & E & Hval & Hokz & HJz).
  exists z. split; [exact E|]. split; [|tauto]. unfold pmA. rewrite Hval, Hmv, Hpv. reflexivity.
Qed.

Lemma to_digit_is_digit (c : N) : is_digit c = true -> to_digit c = Some (digit_val c).
Proof. unfold is_digit, to_digit, digit_val. intros ->. reflexivity. Qed.

Lemma pm_loop_spec : forall (ds : list N) (max_digits : nat) (s : pm_state),
  forallb is_digit ds = true -> pm_inv s -> (pm_i s < max_digits)%nat ->
  exists s', pm_loop ds 18 max_digits s = Some s' /\ pm_inv s'
    /\ pmA s' = digits_val (firstn (max_digits - pm_i s) ds) (pmA s)
    /\ pm_i s' = (pm_i s + Nat.min (length ds) (max_digits - pm_i s))%nat.
Proof.
  induction ds as [|d r IH]; intros max_digits s Hd Hinv Hi.
  - exists s. split; [reflexivity|]. split; [exact Hinv|]. rewrite firstn_nil. cbn [digits_val length]. split; [reflexivity|lia].
  - cbn [forallb] in Hd. apply andb_prop in Hd. destruct Hd as (Hdd & Hdr).
    cbn [pm_loop].
    (* the flush *)
    assert (Hs1 : exists s1,
      (if (pm_counter s =? 18)%nat
       then let? p := nth_error POW10_LIMB (pm_counter s) in
            let? r1 := iadd_small (imul_small (pm_result s) p) (pm_value s) in Some (mkPM 0 0 (pm_i s) r1)
       else Some s) = Some s1
      /\ pm_inv s1 /\ pmA s1 = pmA s /\ pm_i s1 = pm_i s /\ (pm_counter s1 <= 17)%nat).
    { destruct (Nat.eqb_spec (pm_counter s) 18) as [E18|E18].
      - destruct (flush_spec s Hinv) as (r1 & E & Hv & Hok & HJ).
        destruct (nth_error POW10_LIMB (pm_counter s)) as [p|]; cbn [obind] in E |- *; [|discriminate].
        rewrite E. cbn [obind]. eexists. split; [reflexivity|].
        unfold pm_inv, pmA. cbn [pm_counter pm_value pm_i pm_result]. change (Z.of_nat 0) with 0. rewrite Z.pow_0_r. change (Z.of_N 0) with 0.
        repeat split; try assumption; try lia. fold (pmA s) in Hv. unfold pmA in Hv |- *. lia.
      - exists s. split; [reflexivity|]. destruct Hinv as (Hc & Hrest). repeat split; try tauto; lia. }
    destruct Hs1 as (s1 & -> & Hinv1 & HA1 & Hi1 & Hc1). cbn [obind].
    rewrite (to_digit_is_digit d Hdd). cbn [obind].
    destruct Hinv1 as (_ & Hv1 & Hok1 & HJ1).
    assert (Hdv : 0 <= Z.of_N (digit_val d) <= 9).
    { unfold is_digit in Hdd. apply andb_prop in Hdd. destruct Hdd as (H1 & H2). apply N.leb_le in H1, H2. unfold digit_val. lia. }
    assert (Hp17 : 10 ^ Z.of_nat (pm_counter s1) <= 10 ^ 17) by (apply Z.pow_le_mono_r; lia).
    assert (Hwrap : wrap64 (wrap64 (pm_value s1 * 10) + digit_val d) = (pm_value s1 * 10 + digit_val d)%N).
    { assert (10 ^ 17 * 10 + 9 < Z.of_N LB) by reflexivity.
      rewrite (wrap64_small (pm_value s1 * 10)) by lia. apply wrap64_small. lia. }
    rewrite Hwrap.
    set (s2 := mkPM (S (pm_counter s1)) (pm_value s1 * 10 + digit_val d) (S (pm_i s1)) (pm_result s1)).
    assert (Hinv2 : pm_inv s2).
    { unfold pm_inv, s2. cbn [pm_counter pm_value pm_i pm_result]. split; [lia|]. split; [|tauto].
      rewrite Nat2Z.inj_succ, Z.pow_succ_r by lia. lia. }
    assert (HA2 : pmA s2 = pmA s * 10 + Z.of_N (digit_val d)).
    { rewrite <- HA1. unfold pmA, s2. cbn [pm_counter pm_value pm_i pm_result].
      rewrite Nat2Z.inj_succ, Z.pow_succ_r by lia. rewrite N2Z.inj_add, N2Z.inj_mul. change (Z.of_N 10) with 10. ring. }
    fold s2. assert (Hi2 : pm_i s2 = S (pm_i s1)) by reflexivity.
    destruct (Nat.eqb_spec (pm_i s2) max_digits) as [Em|Em]; rewrite Hi2 in Em.
    + exists s2. split; [reflexivity|]. split; [exact Hinv2|].
      replace (max_digits - pm_i s)%nat with 1%nat by lia. cbn [firstn digits_val length]. split; [exact HA2|].
      unfold s2. cbn [pm_i]. lia.
    + destruct (IH max_digits s2 Hdr Hinv2 ltac:(unfold s2; cbn [pm_i]; lia)) as (s' & E & Hinv' & HA' & Hi').
      exists s'. split; [exact E|]. split; [exact Hinv'|].
      unfold s2 in Hi', HA'. cbn [pm_i] in Hi', HA'. fold s2 in HA'.
      replace (max_digits - pm_i s)%nat with (S (max_digits - S (pm_i s1)))%nat by lia.
      cbn [firstn digits_val length]. rewrite <- HA2. split; [exact HA'|]. lia.
Qed.

Lemma MAX_DIGITS_bounds (k : fkind) : (2 <= MAX_DIGITS k <= 769)%nat.
Proof. destruct k; vm_compute; lia. Qed.

Theorem parse_mantissa_refines (k : fkind) (integer fraction : list N) :
  forallb is_digit integer = true -> forallb is_digit fraction = true ->
  exists m, parse_mantissa_l k integer fraction = Some m
    /\ val m = parse_mantissa k integer fraction /\ limbs_ok m
    /\ (0 < parse_mantissa k integer fraction -> normalized m)
    /\ 0 <= parse_mantissa k integer fraction < 10 ^ 769.
Proof.
  intros Hdi Hdf. unfold parse_mantissa_l, parse_mantissa.
  change (length POW10_LIMB - 2)%nat with 18%nat.
  pose proof (MAX_DIGITS_bounds k) as HMX. set (mx := (MAX_DIGITS k - 1)%nat) in *.
  set (ds := integer ++ fraction) in *.
  assert (Hds : forallb is_digit ds = true) by (subst ds; rewrite forallb_app, Hdi, Hdf; reflexivity).
  assert (Hinit : pm_inv (mkPM 0 0 0 [])).
  { unfold pm_inv. cbn [pm_counter pm_value pm_result]. change (Z.of_nat 0) with 0. rewrite Z.pow_0_r. change (Z.of_N 0) with 0.
    split; [lia|]. split; [lia|]. split; [constructor|left; reflexivity]. }
  destruct (pm_loop_spec ds mx (mkPM 0 0 0 []) Hds Hinit ltac:(cbn [pm_i]; lia)) as (s & E & Hinv & HA & Hi).
  rewrite E. cbn [obind]. cbn [pm_i] in HA, Hi. rewrite Nat.sub_0_r in HA, Hi. cbn [Nat.add] in Hi.
  assert (HA0 : pmA (mkPM 0 0 0 []) = 0) by reflexivity. rewrite HA0 in HA.
  set (v := digits_val (firstn mx ds) 0) in *.
  (* the remainder chunk *)
  assert (Hr1 : exists r1,
    (if negb (pm_counter s =? 0)%nat
     then let? p := nth_error POW10_LIMB (pm_counter s) in iadd_small (imul_small (pm_result s) p) (pm_value s)
     else Some (pm_result s)) = Some r1 /\ val r1 = v /\ limbs_ok r1 /\ J r1).
  { destruct (Nat.eqb_spec (pm_counter s) 0) as [E0|E0]; cbn [negb].
    - exists (pm_result s). split; [reflexivity|]. destruct Hinv as (_ & Hv & Hok & HJ).
      split; [|tauto]. rewrite <- HA. unfold pmA. rewrite E0 in *. change (Z.of_nat 0) with 0 in *. rewrite Z.pow_0_r in *. lia.
    - destruct (flush_spec s Hinv) as (r1 & E1 & Hv1 & Hok1 & HJ1). exists r1. split; [exact E1|]. rewrite Hv1, HA. tauto. }
  destruct Hr1 as (r1 & -> & Hv1 & Hok1 & HJ1). cbn [obind].
  assert (Hvb : 0 <= v < 10 ^ 768).
  { subst v. pose proof (digits_val_bound (firstn mx ds) 0 (forallb_firstn _ _ _ Hds) ltac:(lia)) as Hb.
    assert (len (firstn mx ds) <= 768) by (rewrite firstn_length; lia).
    assert (10 ^ len (firstn mx ds) <= 10 ^ 768) by (apply Z.pow_le_mono_r; lia). lia. }
  assert (Hlen : (length integer + length fraction)%nat = length ds) by (subst ds; rewrite app_length; reflexivity).
  rewrite Hlen, Hi.
  destruct (Nat.ltb_spec mx (length ds)) as [Hlong|Hshort].
  - replace (Nat.min (length ds) mx <? length ds)%nat with true by (symmetry; apply Nat.ltb_lt; lia).
    rewrite Nat.min_r by lia.
    destruct (imul_small_refines r1 10 Hok1 ltac:(reflexivity)) as (Hmv & Hmok & _ & _).
    pose proof (imul_small_J r1 10 Hok1 ltac:(reflexivity) ltac:(discriminate) HJ1) as HJm.
    change (Z.of_N 10) with 10 in Hmv.
    destruct (existsb (fun d : N => negb (d =? 48)%N) (skipn mx ds)).
    + destruct (iadd_small_J _ 1 Hmok ltac:(reflexivity) HJm) as (z & Ez & Hvz & Hokz & HJz).
      exists z. split; [exact Ez|]. change (Z.of_N 1) with 1 in Hvz.
      split; [lia|]. split; [exact Hokz|]. split; [intros Hp; apply J_pos_normalized; [exact HJz|lia]|]. lia.
    + exists (imul_small r1 10). split; [reflexivity|].
      split; [lia|]. split; [exact Hmok|]. split; [intros Hp; apply J_pos_normalized; [exact HJm|lia]|]. lia.
  - replace (Nat.min (length ds) mx <? length ds)%nat with false by (symmetry; apply Nat.ltb_ge; lia).
    exists r1. split; [reflexivity|]. split; [exact Hv1|]. split; [exact Hok1|].
    split; [intros Hp; apply J_pos_normalized; [exact HJ1|lia]|]. lia.
Qed.

(* ------------------------------------------------------------------------------------------------ *)
(** * large_atof, small_atof, bhcomp *)
Lemma pow10_1024_lt : 10 ^ 769 * 10 ^ 1024 < W ^ 94.
Proof. vm_compute. reflexivity. Qed.
Lemma pow10_769_lt : 10 ^ 769 < W ^ 40.
Proof. vm_compute. reflexivity. Qed.

Theorem large_atof_refines (k : fkind) (m : list N) (exponent : Z) :
  limbs_ok m -> normalized m -> val m < 10 ^ 769 -> 0 <= exponent < 1024 ->
  large_atof_l k m exponent = Some (large_atof k (val m) exponent).
Proof.
  intros Hok Hn Hb He. unfold large_atof_l, large_atof.
  assert (Hlen : (length m <= 40)%nat).
  { apply normalized_length_le; [exact Hn|]. pose proof pow10_769_lt. change (Z.of_nat 40) with 40. lia. }
  destruct (imul_pow10_refines_1024 m (Z.to_N exponent) Hok ltac:(lia) ltac:(lia)) as (z & E & Hv & Hokz & Hnz).
  rewrite E. cbn [obind]. specialize (Hnz Hn). rewrite Z2N.id in Hv by lia.
  rewrite (hi64_refines z Hokz Hnz), Hv. cbn [obind].
  assert (Hzl : (length z <= 94)%nat).
  { apply normalized_length_le; [exact Hnz|]. rewrite Hv. pose proof pow10_1024_lt.
    assert (10 ^ exponent <= 10 ^ 1024) by (apply Z.pow_le_mono_r; lia).
    assert (0 < 10 ^ exponent) by (apply Z.pow_pos_nonneg; lia). pose proof (val_nonneg m).
    change (Z.of_nat 94) with 94. nia. }
  rewrite (bit_length_refines z Hokz Hnz) by (unfold LB; lia). rewrite Hv.
  destruct (big_hi64 (val m * 10 ^ exponent)) as (mm, tr). reflexivity.
Qed.

Lemma f_mantissa_lt (k : fkind) (bits : N) : (f_mantissa k bits < 2 ^ 53)%N.
Proof.
  unfold f_mantissa. destruct k; unfold MANTISSA_MASK, HIDDEN_BIT_MASK.
  - change F64_MANTISSA_MASK with (N.ones 52). rewrite N.land_ones.
    pose proof (N.mod_lt bits (2 ^ 52) ltac:(discriminate)) as H. change F64_HIDDEN_BIT_MASK with (2 ^ 52)%N.
    change (2 ^ 53)%N with (2 ^ 52 + 2 ^ 52)%N. destruct (negb (f_is_denormal F64 bits)); lia.
  - change F32_MANTISSA_MASK with (N.ones 23). rewrite N.land_ones.
    pose proof (N.mod_lt bits (2 ^ 23) ltac:(discriminate)) as H. change F32_HIDDEN_BIT_MASK with (2 ^ 23)%N.
    assert (2 ^ 23 + 2 ^ 23 < 2 ^ 53)%N by reflexivity. destruct (negb (f_is_denormal F32 bits)); lia.
Qed.

Theorem small_atof_refines (k : fkind) (m : list N) (exponent : Z) (f : N) :
  limbs_ok m -> normalized m -> -2048 < exponent < 0 ->
  small_atof_l k m exponent f = Some (small_atof k (val m) exponent f).
Proof.
  intros Hok Hn He. unfold small_atof_l, small_atof.
  set (theor := bh_extended k f).
  assert (Hmant : (mant theor < LB)%N).
  { subst theor. unfold bh_extended, b_extended, ef_from_float. cbn [mant]. pose proof (f_mantissa_lt k f) as H.
    assert (2 ^ 53 * 2 + 1 < LB)%N by reflexivity. lia. }
  destruct (from_u64_refines (mant theor) Hmant) as (Hv0 & Hok0 & Hn0 & Hl0).
  replace (negb (- exponent =? 0)) with true by (symmetry; apply negb_true_iff, Z.eqb_neq; lia).
  destruct (imul_pow5_refines_2048 (from_u64 (mant theor)) (Z.to_N (- exponent)) Hok0 ltac:(lia) ltac:(lia))
    as (t1 & E1 & Hv1 & Hok1 & Hn1).
  rewrite E1. cbn [obind]. specialize (Hn1 Hn0). rewrite Z2N.id in Hv1 by lia. rewrite Hv0 in Hv1.
  set (binary_exp := exp theor - exponent) in *.
  destruct (Z.ltb_spec 0 binary_exp) as [Hpos|Hnpos].
  - destruct (imul_pow2_refines t1 (Z.to_N binary_exp) Hok1) as (t2 & E2 & Hv2 & Hok2 & Hn2).
    rewrite E2. cbn [obind]. rewrite Z2N.id in Hv2 by lia.
    replace (binary_exp <? 0) with false by (symmetry; apply Z.ltb_ge; lia).
    rewrite (compare_refines m t2 Hok Hok2 Hn (Hn2 Hn1)), Hv2, Hv1. reflexivity.
  - destruct (Z.ltb_spec binary_exp 0) as [Hneg|Hzero].
    + destruct (imul_pow2_refines m (Z.to_N (- binary_exp)) Hok) as (r2 & E2 & Hv2 & Hok2 & Hn2).
      rewrite E2. cbn [obind]. rewrite Z2N.id in Hv2 by lia.
      rewrite (compare_refines r2 t1 Hok2 Hok1 (Hn2 Hn) Hn1), Hv2, Hv1. reflexivity.
    + cbn [obind]. rewrite (compare_refines m t1 Hok Hok1 Hn Hn1), Hv1. reflexivity.
Qed.

(* the scaled exponent and the mantissa bhcomp computes (the `let`s of Model/Lex.bhcomp) *)
Definition bh_digits_start (integer fraction : list N) : nat :=
  match length integer with O => count_leading_zeros fraction | S _ => O end.
Definition bh_scaled_exponent (k : fkind) (integer fraction : list N) (exponent : Z) : Z :=
  let digits_start := bh_digits_start integer fraction in
  let sci_exp := scientific_exponent exponent (length integer) digits_start in
  let count := Nat.min (MAX_DIGITS k) (length integer + length fraction - digits_start) in
  sci_exp + 1 - Z.of_nat count.
Definition bh_mantissa (k : fkind) (integer fraction : list N) : Z :=
  parse_mantissa k integer (skipn (bh_digits_start integer fraction) fraction).

Lemma bhcomp_unfold (k : fkind) (b : N) (integer fraction : list N) (exponent : Z) :
  bhcomp k b integer fraction exponent =
  if 0 <=? bh_scaled_exponent k integer fraction exponent
  then large_atof k (bh_mantissa k integer fraction) (bh_scaled_exponent k integer fraction exponent)
  else small_atof k (bh_mantissa k integer fraction) (bh_scaled_exponent k integer fraction exponent) b.
Proof. reflexivity. Qed.

(* THE CONNECTION: on the operand range of the parser (|scaled exponent| small enough for the path by small powers,
   a non-zero mantissa), bhcomp run on limb vectors does not fail and returns what Model/Lex.bhcomp returns on Z. *)
Theorem bhcomp_refines (k : fkind) (b : N) (integer fraction : list N) (exponent : Z) :
  forallb is_digit integer = true -> forallb is_digit fraction = true ->
  0 < bh_mantissa k integer fraction ->
  -2048 < bh_scaled_exponent k integer fraction exponent < 1024 ->
  bhcomp_l k b integer fraction exponent = Some (bhcomp k b integer fraction exponent).
Proof.
  intros Hdi Hdf Hpos Hexp. rewrite bhcomp_unfold. unfold bhcomp_l.
  fold (bh_digits_start integer fraction). fold (bh_scaled_exponent k integer fraction exponent).
  set (fraction1 := skipn (bh_digits_start integer fraction) fraction).
  destruct (parse_mantissa_refines k integer fraction1 Hdi (forallb_skipn _ _ _ Hdf)) as (m & E & Hv & Hok & Hn & Hb).
  rewrite E. cbn [obind]. unfold bh_mantissa in *. fold fraction1 in Hpos |- *. specialize (Hn Hpos). rewrite <- Hv.
  destruct (Z.leb_spec 0 (bh_scaled_exponent k integer fraction exponent)) as [Hge|Hlt].
  - apply large_atof_refines; try assumption; lia.
  - apply small_atof_refines; try assumption; lia.
Qed.

(* ------------------------------------------------------------------------------------------------ *)
(** * soundness for every exponent: whatever the limb-level bhcomp returns is what Model/Lex.bhcomp returns *)
Lemma pow10_le_W (e : Z) : 0 <= e -> 10 ^ e <= W ^ e.
Proof. intros H. apply Z.pow_le_mono_l. unfold W. lia. Qed.

Theorem large_atof_sound (k : fkind) (m : list N) (exponent : Z) (r : N) :
  limbs_ok m -> normalized m -> val m < 10 ^ 769 -> 0 <= exponent < 2 ^ 31 ->
  large_atof_l k m exponent = Some r -> r = large_atof k (val m) exponent.
Proof.
  intros Hok Hn Hb He E. unfold large_atof_l in E. unfold large_atof.
  apply obind_some in E. destruct E as (z & Ez & E).
  destruct (imul_pow10_partial m (Z.to_N exponent) z Hok Hn ltac:(change (2 ^ 32)%N with 4294967296%N; lia) Ez) as (Hv & Hokz & Hnz).
  rewrite Z2N.id in Hv by lia.
  rewrite (hi64_refines z Hokz Hnz), Hv in E. cbn [obind] in E.
  assert (Hzl : (length z <= 40 + Z.to_nat exponent)%nat).
  { apply normalized_length_le; [exact Hnz|]. rewrite Hv, Nat2Z.inj_add, Z2Nat.id, Z.pow_add_r by lia.
    pose proof pow10_769_lt. pose proof (pow10_le_W exponent ltac:(lia)).
    assert (0 < 10 ^ exponent) by (apply Z.pow_pos_nonneg; lia). pose proof (val_nonneg m).
    change (Z.of_nat 40) with 40. nia. }
  rewrite (bit_length_refines z Hokz Hnz) in E by (unfold LB; lia). rewrite Hv in E.
  destruct (big_hi64 (val m * 10 ^ exponent)) as (mm, tr). injection E as <-. reflexivity.
Qed.

Theorem small_atof_sound (k : fkind) (m : list N) (exponent : Z) (f r : N) :
  limbs_ok m -> normalized m -> - 2 ^ 31 <= exponent < 0 ->
  small_atof_l k m exponent f = Some r -> r = small_atof k (val m) exponent f.
Proof.
  intros Hok Hn He E. unfold small_atof_l in E. unfold small_atof.
  set (theor := bh_extended k f) in *.
  assert (Hmant : (mant theor < LB)%N).
  { subst theor. unfold bh_extended, b_extended, ef_from_float. cbn [mant]. pose proof (f_mantissa_lt k f) as H.
    assert (2 ^ 53 * 2 + 1 < LB)%N by reflexivity. lia. }
  destruct (from_u64_refines (mant theor) Hmant) as (Hv0 & Hok0 & Hn0 & Hl0).
  replace (negb (- exponent =? 0)) with true in E by (symmetry; apply negb_true_iff, Z.eqb_neq; lia).
  apply obind_some in E. destruct E as (t1 & E1 & E).
  destruct (imul_pow5_partial (from_u64 (mant theor)) (Z.to_N (- exponent)) t1 Hok0 Hn0 ltac:(change (2 ^ 32)%N with 4294967296%N; lia) E1)
    as (Hv1 & Hok1 & Hn1).
  rewrite Z2N.id in Hv1 by lia. rewrite Hv0 in Hv1.
  set (binary_exp := exp theor - exponent) in *.
  destruct (Z.ltb_spec 0 binary_exp) as [Hpos|Hnpos].
  - destruct (imul_pow2_refines t1 (Z.to_N binary_exp) Hok1) as (t2 & E2 & Hv2 & Hok2 & Hn2).
    rewrite E2 in E. cbn [obind] in E. rewrite Z2N.id in Hv2 by lia.
    replace (binary_exp <? 0) with false by (symmetry; apply Z.ltb_ge; lia).
    rewrite (compare_refines m t2 Hok Hok2 Hn (Hn2 Hn1)), Hv2, Hv1 in E. injection E as <-. reflexivity.
  - destruct (Z.ltb_spec binary_exp 0) as [Hneg|Hzero].
    + destruct (imul_pow2_refines m (Z.to_N (- binary_exp)) Hok) as (r2 & E2 & Hv2 & Hok2 & Hn2).
      rewrite E2 in E. cbn [obind] in E. rewrite Z2N.id in Hv2 by lia.
      rewrite (compare_refines r2 t1 Hok2 Hok1 (Hn2 Hn) Hn1), Hv2, Hv1 in E. injection E as <-. reflexivity.
    + cbn [obind] in E. rewrite (compare_refines m t1 Hok Hok1 Hn Hn1), Hv1 in E. injection E as <-. reflexivity.
Qed.

Theorem bhcomp_sound (k : fkind) (b : N) (integer fraction : list N) (exponent : Z) (r : N) :
  forallb is_digit integer = true -> forallb is_digit fraction = true ->
  0 < bh_mantissa k integer fraction ->
  - 2 ^ 31 <= bh_scaled_exponent k integer fraction exponent < 2 ^ 31 ->
  bhcomp_l k b integer fraction exponent = Some r -> r = bhcomp k b integer fraction exponent.
Proof.
  intros Hdi Hdf Hpos Hexp E. rewrite bhcomp_unfold. unfold bhcomp_l in E.
  fold (bh_digits_start integer fraction) in E. fold (bh_scaled_exponent k integer fraction exponent) in E.
  set (fraction1 := skipn (bh_digits_start integer fraction) fraction) in *.
  destruct (parse_mantissa_refines k integer fraction1 Hdi (forallb_skipn _ _ _ Hdf)) as (m & Em & Hv & Hok & Hn & Hb).
  rewrite Em in E. cbn [obind] in E. unfold bh_mantissa in *. fold fraction1 in Hpos |- *. specialize (Hn Hpos). rewrite <- Hv.
  destruct (Z.leb_spec 0 (bh_scaled_exponent k integer fraction exponent)) as [Hge|Hlt].
  - apply (large_atof_sound k m _ r); try assumption; lia.
  - apply (small_atof_sound k m _ b r); try assumption; lia.
Qed.

(* ------------------------------------------------------------------------------------------------ *)
(** * the operand sizes *)
(* the mantissa parse_mantissa produces has at most 40 limbs (768 digits and the sticky digit: < 10^769 < 2^2560) *)
Corollary parse_mantissa_length (k : fkind) (integer fraction m : list N) :
  forallb is_digit integer = true -> forallb is_digit fraction = true ->
  parse_mantissa_l k integer fraction = Some m -> 0 < parse_mantissa k integer fraction -> (length m <= 40)%nat.
Proof.
  intros Hdi Hdf E Hpos. destruct (parse_mantissa_refines k integer fraction Hdi Hdf) as (m' & E' & Hv & Hok & Hn & Hb).
  rewrite E in E'. injection E' as <-. apply normalized_length_le; [exact (Hn Hpos)|].
  pose proof pow10_769_lt. change (Z.of_nat 40) with 40. lia.
Qed.
(* the large powers 5^(2^i), i = 0..13, have 1 1 1 1 1 2 3 5 10 19 38 75 149 298 limbs: LexBigPow.large_pow5_lengths.
   imul_pow5 takes the path by small powers iff  x.len() + len(5^(2^(bit_length(n)-1))) < 64; with x.len() <= 40 this
   holds for every n < 1024 (19 limbs), with x.len() <= 1 (from_u64) for every n < 2048 (38 limbs). *)

(* ------------------------------------------------------------------------------------------------ *)
(** * witnesses *)
(* 1. Karatsuba (large::imul, reached from imul_pow5's path by large powers) fails outside that range.
      (a) an empty factor: karatsuba_mul([], y) with y.len() > 32 -> karatsuba_uneven_mul -> m = 0 -> long_mul(x, []) -> y[0]
          (math.rs:675, index out of bounds) *)
Example karatsuba_fails_on_zero : imul_pow5 [] 2048 = None.
Proof. vm_compute. reflexivity. Qed.
(*    (b) x.len() == y.len() / 2: the high half of x is empty, same panic (37 limbs times the 75 limbs of 5^2048) *)
Example karatsuba_fails_on_half_length : imul_pow5 (repeat 7%N 37) 2048 = None.
Proof. vm_compute. reflexivity. Qed.
(*    (c) the product of the low halves has fewer than m limbs: iadd_impl(&mut result, &z1, m) computes
          `x.len() - xstart` with x.len() < xstart (math.rs:589, attempt to subtract with overflow; without overflow
          checks the slice `x[xstart..]` of line 595 panics instead) *)
Example karatsuba_fails_on_low_zero_limbs : imul_pow5 (repeat 0%N 39 ++ [1%N]) 2048 = None.
Proof. vm_compute. reflexivity. Qed.
Example karatsuba_fails_on_low_zero_limbs_1024 : imul_pow5 (repeat 0%N 30 ++ repeat 7%N 10) 1024 = None.
Proof. vm_compute. reflexivity. Qed.
(*    while neighbouring operands succeed (and are then correct by imul_pow5_partial) *)
Example karatsuba_succeeds_nearby :
  option_map val (imul_pow5 (repeat 7%N 38) 2048) = Some (val (repeat 7%N 38) * 5 ^ 2048)
  /\ option_map val (imul_pow5 (repeat 7%N 40) 2048) = Some (val (repeat 7%N 40) * 5 ^ 2048).
Proof. split; vm_compute; reflexivity. Qed.
(*    and the exponent itself is limited by the table: bit_length(n) <= 14 (math.rs:405 debug_assert, :406 index) *)
Example imul_pow5_fails_beyond_table : imul_pow5 [1%N] 16384 = None.
Proof. vm_compute. reflexivity. Qed.

(* 2. "every operation returns a normalized vector" is false as an unconditional statement *)
Example imul_small_zero_not_normalized : imul_small [1%N] 0 = [0%N] /\ ~ normalized [0%N].
Proof. split; [reflexivity|]. intros H. apply H. reflexivity. Qed.
Example iadd_small_zero_not_normalized : iadd_small [] 0 = Some [0%N].
Proof. reflexivity. Qed.
(*    and hi64 of such a vector is a debug_assert failure (math.rs:110) *)
Example hi64_unnormalized_fails : hi64 [0%N] = None /\ hi64 [5%N; 0%N] = None.
Proof. split; reflexivity. Qed.

(* ------------------------------------------------------------------------------------------------ *)
(** * the statements of the task, under their names *)
(* imul_pow5 / imul_pow10 cannot be total (witnesses above): [_partial] carries the explicit extra hypothesis (the path by
   small powers is selected), [_sound] says that a returned vector is always right. *)
Definition imul_pow5_refines_partial := imul_pow5_total.
Definition imul_pow5_sound := imul_pow5_partial.
Definition imul_pow10_refines_partial := imul_pow10_refines_1024.
Definition imul_pow10_sound := imul_pow10_partial.
Definition karatsuba_sound := karatsuba_mul_partial.

Print Assumptions iadd_small_refines.
Print Assumptions imul_small_refines.
Print Assumptions imul_pow2_refines.
Print Assumptions imul_pow5_total.
Print Assumptions imul_pow5_partial.
Print Assumptions imul_pow10_partial.
Print Assumptions imul_pow10_refines_1024.
Print Assumptions long_mul_refines.
Print Assumptions karatsuba_mul_partial.
Print Assumptions large_imul_total.
Print Assumptions compare_refines.
Print Assumptions bit_length_refines.
Print Assumptions hi64_refines.
Print Assumptions from_u64_refines.
Print Assumptions parse_mantissa_refines.
Print Assumptions large_atof_refines.
Print Assumptions small_atof_refines.
Print Assumptions bhcomp_refines.
Print Assumptions bhcomp_sound.
