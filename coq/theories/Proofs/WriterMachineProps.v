(* Proofs/WriterMachineProps.v — theorems about Model/WriterMachine.v (the executable writer: state machines, and the
   harness's ChunkWriter as one) and about Extract/Driver_wgen.v.

   A. every machine:
      * mrun_is_grun            the direct runner computes the run of the oracle obtained by replaying the machine:
                                 same accepted bytes, same outcome, final state = replay of the call log;
   B. the ChunkWriter machine [cw_machine p], ALL parameters (all four modes of the harness op `wf`):
      * cw_run_is_grun          [cw_run] in terms of [grun_writer]; the writer's own `accepted` IS what write_all saw accepted,
                                 its `buffers` IS the call log;
      * cw_prefix               the accepted bytes are a prefix of the fault-free output            (from C13g_prefix)
      * cw_fired                fired -> outcome Err (Io fail_kind); calls_after_failure = 0 always (from the shape of the log)
      * cw_not_fired            not fired -> everything accepted and the fault-free outcome (or the fuel ran out)
      * cw_failing_call_is_last instance of C13g_error_kind
      * cw_total, cw_run_spec   with a schedule that is not all zeros, fuel [cw_fuel] is enough; complete dichotomy
   C. threshold writers (fail once k bytes were accepted, clamped): closed form of the run, for every machine of that class
      * cw_fail_at_closed       ChunkWriter with fail_at (persistent AND one-shot): accepted = first k bytes, etc.
      * cw_one_shot_is_persistent   the one-shot flag is unobservable through the serializer
      * old_closed              the same closed form for the writers of Model/Ser.v, any schedule
      * machine_persistent_is_old   hence the machine agrees with `run_writer` of Model/Ser.v
      * dispatch_wgen_is_dispatch_ser   hence Extract/Driver_wgen.v answers the persistent `wf` lines exactly as Extract/Driver_ser.v *)
From SJ Require Import Base.Bytes Base.Utf8 Model.Read Model.Sval Model.Ser Model.WriterGen Model.WriterMachine
  Spec.Layout Proofs.SerWriter Proofs.SerMain Proofs.WriterGenProps.
From SJ Require Extract.Driver Extract.Driver_ser Extract.Driver_wgen.
From Coq Require Import Lia.
Open Scope nat_scope.

(* ================================================= A. every machine ================================================= *)
Lemma mloop_nil {St} fuel (m : wmachine St) s acc : mwrite_all_loop fuel m s acc [] = (s, acc, Ok tt).
Proof. destruct fuel; reflexivity. Qed.

Lemma mloop_S {St} f (m : wmachine St) s acc buf : buf <> [] ->
  mwrite_all_loop (S f) m s acc buf =
  match wm_step m s buf with
  | (RAccept O, s1) => (s1, acc, Err (Io KIND_WRITE_ZERO) O)
  | (RAccept n, s1) =>
    if Nat.ltb (length buf) n then (s1, acc, Panic)
    else mwrite_all_loop f m s1 (acc ++ firstn n buf) (skipn n buf)
  | (RInterrupted, s1) => mwrite_all_loop f m s1 acc buf
  | (RFail kind, s1) => (s1, acc, Err (Io kind) O)
  end.
Proof. intros Hb. destruct buf as [|b0 r0]; [congruence|]. reflexivity. Qed.

(* the view of a g-run that the direct runner computes *)
Definition mview {St B} (m : wmachine St) (g : gstate * B) : St * bytes * B :=
  (mreplay m (ghist (fst g)), gacc (fst g), snd g).

Lemma mloop_is_gloop {St} (m : wmachine St) : forall fuel st buf,
  mwrite_all_loop fuel m (mreplay m (ghist st)) (gacc st) buf = mview m (gwrite_all_loop fuel (oracle_of_machine m) st buf).
Proof.
  induction fuel as [|f IH]; intros st buf.
  - destruct buf as [|b0 r0]; reflexivity.
  - destruct buf as [|b0 r0]; [reflexivity|].
    assert (Hne : b0 :: r0 <> []) by discriminate. remember (b0 :: r0) as buf eqn:Ebuf. clear Ebuf b0 r0.
    rewrite (mloop_S f m _ _ buf Hne), (gloop_S f _ st buf Hne). cbv zeta. unfold oracle_of_machine at 1.
    destruct (wm_step m (mreplay m (ghist st)) buf) as [resp s1] eqn:E. cbn [fst].
    assert (R1 : forall wa ac, mreplay m (ghist (mkG (buf :: ghist st) wa ac)) = s1).
    { intros wa ac. cbn [ghist mreplay]. rewrite E. reflexivity. }
    destruct resp as [[|n]| |kind].
    + unfold mview. cbn [fst snd]. rewrite R1. reflexivity.
    + destruct (Nat.ltb (length buf) (S n)).
      * unfold mview. cbn [fst snd]. rewrite R1. reflexivity.
      * rewrite <- IH. rewrite R1. reflexivity.
    + rewrite <- IH. rewrite R1. reflexivity.
    + unfold mview. cbn [fst snd]. rewrite R1. reflexivity.
Qed.

Lemma mwrite_all_is_gwrite_all {St} (m : wmachine St) fuel st buf :
  mwrite_all_loop fuel m (mreplay m (ghist st)) (gacc st) buf = mview m (gwrite_all fuel (oracle_of_machine m) st buf).
Proof.
  unfold gwrite_all. exact (mloop_is_gloop m fuel (mkG (ghist st) (buf :: gwa st) (gacc st)) buf).
Qed.

Lemma mfeed_is_gfeed {St} (m : wmachine St) fuel : forall bufs st,
  mfeed fuel m (mreplay m (ghist st)) (gacc st) bufs = mview m (gfeed fuel (oracle_of_machine m) st bufs).
Proof.
  induction bufs as [|b r IH]; intros st; [reflexivity|].
  cbn [mfeed gfeed]. rewrite mwrite_all_is_gwrite_all. unfold mview at 1.
  destruct (gwrite_all fuel (oracle_of_machine m) st b) as [st1 [[]|c i| |]]; cbn [fst snd]; [apply IH|reflexivity|reflexivity|reflexivity].
Qed.

Lemma mlift_is_lift_out {A} (t : tr A) r : mlift t r = lift_out t r.
Proof. reflexivity. Qed.

(* the direct runner computes the run against the oracle of the machine: accepted bytes, outcome, and the final machine
   state is the replay of the log of `write` calls *)
Theorem mrun_is_grun {A St} (m : wmachine St) (fuel : nat) (t : tr A) :
  mrun fuel m t = mview m (grun_writer fuel (oracle_of_machine m) g0 t).
Proof.
  unfold mrun. change (wm_init m) with (mreplay m (ghist g0)). change (@nil byte) with (gacc g0) at 1.
  rewrite mfeed_is_gfeed, grun_unfold. unfold mview. cbn [fst snd]. reflexivity.
Qed.

(* pointwise equal oracles give the same run *)
Lemma gloop_ext o1 o2 : (forall h b, o1 h b = o2 h b) ->
  forall fuel st buf, gwrite_all_loop fuel o1 st buf = gwrite_all_loop fuel o2 st buf.
Proof.
  intros H. induction fuel as [|f IH]; intros st buf; [reflexivity|].
  destruct buf as [|b0 r0]; [reflexivity|]. cbn [gwrite_all_loop]. rewrite H.
  destruct (o2 (ghist st) (b0 :: r0)) as [[|n]| |kind]; [reflexivity| |apply IH|reflexivity].
  destruct (Nat.ltb (length (b0 :: r0)) (S n)); [reflexivity|apply IH].
Qed.

Lemma gfeed_ext o1 o2 : (forall h b, o1 h b = o2 h b) ->
  forall fuel bufs st, gfeed fuel o1 st bufs = gfeed fuel o2 st bufs.
Proof.
  intros H fuel. induction bufs as [|b r IH]; intros st; [reflexivity|].
  cbn [gfeed]. unfold gwrite_all. rewrite (gloop_ext o1 o2 H).
  destruct (gwrite_all_loop fuel o2 (mkG (ghist st) (b :: gwa st) (gacc st)) b) as [st1 [[]|c i| |]]; [apply IH|reflexivity|reflexivity|reflexivity].
Qed.

(* ---- a component of the machine state that tracks the accepted bytes ---- *)
Section Proj.
  Context {St : Type} (m : wmachine St) (proj : St -> bytes).
  (* `write` answers Ok(n) only with n <= |buf| and then appends the first n bytes to the component; otherwise it leaves it alone *)
  Definition tracks_accepted : Prop := forall s buf,
    match fst (wm_step m s buf) with
    | RAccept n => n <= length buf /\ proj (snd (wm_step m s buf)) = proj s ++ firstn n buf
    | _ => proj (snd (wm_step m s buf)) = proj s
    end.
  Hypothesis Hstep : tracks_accepted.

  Lemma mloop_proj : forall fuel s acc buf, proj s = acc ->
    proj (fst (fst (mwrite_all_loop fuel m s acc buf))) = snd (fst (mwrite_all_loop fuel m s acc buf)).
  Proof.
    induction fuel as [|f IH]; intros s acc buf Hp.
    - destruct buf as [|b0 r0]; cbn [mwrite_all_loop fst snd]; exact Hp.
    - destruct buf as [|b0 r0]; [cbn [mwrite_all_loop fst snd]; exact Hp|].
      assert (Hne : b0 :: r0 <> []) by discriminate. remember (b0 :: r0) as buf eqn:Ebuf. clear Ebuf b0 r0.
      rewrite (mloop_S f m s acc buf Hne). pose proof (Hstep s buf) as Hs.
      destruct (wm_step m s buf) as [resp s1]. cbn [fst snd] in Hs.
      destruct resp as [[|n]| |kind].
      + destruct Hs as [_ Hs]. cbn [firstn] in Hs. rewrite app_nil_r in Hs. cbn [fst snd]. congruence.
      + destruct Hs as [Hn Hs]. destruct (Nat.ltb (length buf) (S n)) eqn:El; [apply Nat.ltb_lt in El; lia|].
        apply IH. rewrite Hs, Hp. reflexivity.
      + apply IH. congruence.
      + cbn [fst snd]. congruence.
  Qed.

  Lemma mfeed_proj fuel : forall bufs s acc, proj s = acc ->
    proj (fst (fst (mfeed fuel m s acc bufs))) = snd (fst (mfeed fuel m s acc bufs)).
  Proof.
    induction bufs as [|b r IH]; intros s acc Hp; [exact Hp|].
    cbn [mfeed]. pose proof (mloop_proj fuel s acc b Hp) as H1.
    destruct (mwrite_all_loop fuel m s acc b) as [[s1 acc1] [[]|c i| |]]; cbn [fst snd] in H1 |- *; [apply IH; exact H1|exact H1|exact H1|exact H1].
  Qed.

  (* in a run from the initial state: the component IS what write_all has seen accepted *)
  Lemma gfeed_proj fuel bufs : proj (wm_init m) = [] ->
    let g := gfeed fuel (oracle_of_machine m) g0 bufs in proj (mreplay m (ghist (fst g))) = gacc (fst g).
  Proof.
    intros Hi. cbv zeta. pose proof (mfeed_proj fuel bufs (wm_init m) [] Hi) as H.
    change (wm_init m) with (mreplay m (ghist g0)) in H. change (@nil byte) with (gacc g0) in H at 1 2.
    rewrite mfeed_is_gfeed in H. exact H.
  Qed.
End Proj.

(* ================================================= B. ChunkWriter: one `write` ================================================= *)
Definition cwo (p : cwp) : oracle := oracle_of_machine (cw_machine p).

(* case analysis along the control flow of ChunkWriter::write *)
Ltac cw_cases :=
  unfold cw_write;
  repeat (cbv beta iota zeta;
    match goal with
    | |- context [match p_cap ?p with _ => _ end] => destruct (p_cap p) eqn:?
    | |- context [match p_sched ?p with _ => _ end] => destruct (p_sched p) eqn:?
    | |- context [match p_fail_at ?p with _ => _ end] => destruct (p_fail_at p) eqn:?
    | |- context [if ?b then _ else _] => destruct b eqn:?
    end);
  cbv beta iota zeta; cbn [fst snd c_accepted c_buffers c_si c_fired c_after].

Ltac cw_arith :=
  repeat match goal with
  | H : Nat.eqb _ _ = true |- _ => apply Nat.eqb_eq in H
  | H : Nat.eqb _ _ = false |- _ => apply Nat.eqb_neq in H
  | H : Nat.leb _ _ = true |- _ => apply Nat.leb_le in H
  | H : Nat.leb _ _ = false |- _ => apply Nat.leb_gt in H
  | H : Nat.ltb _ _ = true |- _ => apply Nat.ltb_lt in H
  | H : Nat.ltb _ _ = false |- _ => apply Nat.ltb_ge in H
  end.

(* `accepted`: Ok(n) has n <= |buf| and appends buf[..n]; Interrupted / Err leave it alone *)
Lemma cw_write_acc p : tracks_accepted (cw_machine p) c_accepted.
Proof.
  intros s buf. cbn [cw_machine wm_step]. cw_cases; try reflexivity;
    (split; [lia|]); try reflexivity; rewrite firstn_all; reflexivity.
Qed.

(* `buffers`, `calls_after_failure`, `fired`: fired is set exactly by the calls answered Err(fail_kind) *)
Lemma cw_write_flags p s buf :
  c_buffers (snd (cw_write p s buf)) = buf :: c_buffers s
  /\ c_after (snd (cw_write p s buf)) = (if c_fired s then S (c_after s) else c_after s)
  /\ match fst (cw_write p s buf) with
     | RFail kind => kind = p_kind p /\ c_fired (snd (cw_write p s buf)) = true
     | _ => c_fired (snd (cw_write p s buf)) = c_fired s
     end.
Proof. cw_cases; auto. Qed.

(* a non-empty buffer is answered Interrupted, Ok(n) with 1 <= n <= |buf|, or Err(fail_kind): never Ok(0), never more than offered *)
Lemma cw_write_good p s buf : buf <> [] ->
  good_resp (fst (cw_write p s buf)) buf \/ fst (cw_write p s buf) = RFail (p_kind p).
Proof.
  intros Hb. assert (Hl : 1 <= length buf) by (destruct buf; [congruence|cbn [length]; lia]).
  cw_cases; auto; left; cbn [good_resp]; cw_arith; lia.
Qed.

(* `si`: one schedule entry per call (when there is a schedule and no cap) *)
Lemma cw_write_si p s buf : p_cap p = None -> p_sched p <> [] ->
  c_si (snd (cw_write p s buf)) = S (c_si s)
  /\ (nth (c_si s mod length (p_sched p)) (p_sched p) 0 <> 0 -> fst (cw_write p s buf) <> RInterrupted).
Proof.
  intros Hc Hs. unfold cw_write. rewrite Hc. destruct (p_sched p) as [|c0 rs] eqn:Es; [congruence|]. cbv zeta.
  destruct (Nat.eqb (nth (c_si s mod length (c0 :: rs)) (c0 :: rs) 0) 0) eqn:Ew.
  - cbn [fst snd c_si]. split; [reflexivity|]. apply Nat.eqb_eq in Ew. intros H; contradiction.
  - cbv beta iota. split; [|intros _]; destruct (p_fail_at p); try destruct (negb _); try destruct (Nat.leb _ _);
      cbn [fst snd c_si]; try reflexivity; discriminate.
Qed.

(* no schedule, or a cap: never Interrupted *)
Lemma cw_write_no_interrupt p s buf : p_cap p <> None \/ p_sched p = [] -> fst (cw_write p s buf) <> RInterrupted.
Proof.
  intros H. cw_cases; try discriminate; destruct H; congruence.
Qed.

(* the threshold (`fail_at`, as long as the failure has not fired; no cap): the call fails only when k bytes were accepted, and
   never lets the accepted bytes grow beyond k *)
Lemma cw_write_threshold p k s buf : p_cap p = None -> p_fail_at p = Some k -> c_fired s = false ->
  length (c_accepted s) <= k ->
  (forall kind, fst (cw_write p s buf) = RFail kind -> k <= length (c_accepted s))
  /\ length (c_accepted (snd (cw_write p s buf))) <= k.
Proof.
  intros Hc Hf Hfi Hl. unfold cw_write. rewrite Hc, Hf, Hfi, Bool.andb_false_r. cbn [negb].
  cw_cases; cw_arith; (split; [intros kind Hk; try discriminate Hk; lia|]); try rewrite app_length, firstn_length; lia.
Qed.

Lemma cw_write_never_fails p s buf : p_cap p = None -> p_fail_at p = None -> forall kind, fst (cw_write p s buf) <> RFail kind.
Proof. intros Hc Hf kind. unfold cw_write. rewrite Hc, Hf. cw_cases; discriminate. Qed.

(* ================================================= B. ChunkWriter: the run ================================================= *)
(* `buffers` is the call log, whatever happened *)
Lemma cw_buffers_replay p : forall hist, c_buffers (mreplay (cw_machine p) hist) = hist.
Proof.
  induction hist as [|b h IH]; [reflexivity|]. cbn [mreplay cw_machine wm_step].
  destruct (cw_write_flags p (mreplay (cw_machine p) h) b) as [Hb _]. rewrite Hb. f_equal. exact IH.
Qed.

(* as long as every call was answered Interrupted or Ok(n >= 1): not fired, no call after a failure *)
Lemma cw_replay_good p : forall hist, log_good (cwo p) hist ->
  c_fired (mreplay (cw_machine p) hist) = false /\ c_after (mreplay (cw_machine p) hist) = 0.
Proof.
  induction hist as [|b h IH]; intros HG; [split; reflexivity|].
  cbn [log_good] in HG. destruct HG as [_ [Hr HG]]. destruct (IH HG) as [Hf Ha].
  unfold cwo, oracle_of_machine in Hr. cbn [cw_machine wm_step] in Hr.
  cbn [mreplay cw_machine wm_step].
  destruct (cw_write_flags p (mreplay (cw_machine p) h) b) as [_ [H2 H3]].
  change (mreplay (mkWM cw_init (cw_write p)) h) with (mreplay (cw_machine p) h) in *.
  rewrite H2, Hf, Ha. split; [|reflexivity].
  destruct (fst (cw_write p (mreplay (cw_machine p) h) b)) as [n| |kind]; [congruence|congruence|destruct Hr].
Qed.

(* [cw_run] unfolded at the level of the buffers handed to write_all *)
Lemma cw_run_unfold {A} p fuel (t : tr A) :
  cw_run p fuel t =
  let g := gfeed fuel (cwo p) g0 (fst t) in
  let s := mreplay (cw_machine p) (ghist (fst g)) in
  mkCR (c_accepted s) (mlift t (snd g)) (c_after s) (c_fired s).
Proof.
  unfold cw_run, mrun. change (wm_init (cw_machine p)) with (mreplay (cw_machine p) (ghist g0)).
  change (@nil byte) with (gacc g0) at 1. rewrite mfeed_is_gfeed. reflexivity.
Qed.

(* the run of the ChunkWriter seen at the level of write_all results: the writer's `accepted` is what write_all saw accepted, a prefix of
   the fault-free output; no `write` call follows a failed one; `fired` says exactly whether a write_all failed, and then with fail_kind *)
Lemma cw_feed_spec p fuel bufs :
  let g := gfeed fuel (cwo p) g0 bufs in
  let s := mreplay (cw_machine p) (ghist (fst g)) in
  c_accepted s = gacc (fst g) /\ c_after s = 0 /\ is_prefix (gacc (fst g)) (concat bufs)
  /\ ((snd g = Ok tt /\ c_fired s = false /\ gacc (fst g) = concat bufs)
      \/ (snd g = OutOfFuel /\ c_fired s = false)
      \/ (snd g = Err (Io (p_kind p)) O /\ c_fired s = true)).
Proof.
  cbv zeta. split; [exact (gfeed_proj (cw_machine p) c_accepted (cw_write_acc p) fuel bufs eq_refl)|].
  destruct (gfeed_spec (cwo p) fuel bufs g0 I) as [[R [A1 [_ A3]]]|[R [done [b [rest [pre [s [B1 [B2 [B3 [B4 [_ B6]]]]]]]]]]]].
  - cbn [g0 gstart gacc app] in A1. destruct (cw_replay_good p _ A3) as [Hf Ha].
    split; [exact Ha|]. split; [exists []; rewrite A1, app_nil_r; reflexivity|]. left. auto.
  - cbn [g0 gstart gacc app] in B4.
    assert (Hpre : is_prefix (gacc (fst (gfeed fuel (cwo p) g0 bufs))) (concat bufs)).
    { exists (s ++ concat rest). rewrite B4, B1, concat_app. cbn [concat]. rewrite B2, <- !app_assoc. reflexivity. }
    destruct B6 as [[E G]|[h [Eh [G Bad]]]].
    + destruct (cw_replay_good p _ G) as [Hf Ha]. split; [exact Ha|]. split; [exact Hpre|]. right. left. auto.
    + rewrite Eh. cbn [mreplay cw_machine wm_step]. destruct (cw_replay_good p _ G) as [Hf Ha].
      change (mreplay (mkWM cw_init (cw_write p)) h) with (mreplay (cw_machine p) h).
      destruct (cw_write_flags p (mreplay (cw_machine p) h) s) as [_ [H2 H3]].
      rewrite H2, Hf, Ha. split; [reflexivity|]. split; [exact Hpre|]. right. right.
      unfold cwo, oracle_of_machine in Bad. cbn [cw_machine wm_step] in Bad.
      change (mreplay (mkWM cw_init (cw_write p)) h) with (mreplay (cw_machine p) h) in Bad.
      destruct (cw_write_good p (mreplay (cw_machine p) h) s B3) as [Hg|Hk].
      * exfalso. exact (good_not_bad _ _ _ Hg Bad).
      * rewrite Hk in Bad, H3. cbn [bad_answer] in Bad. tauto.
Qed.

(* [cw_run] in terms of the oracle model: accepted bytes and outcome are those of [grun_writer] on the oracle of the machine *)
Theorem cw_run_is_grun {A} p fuel (t : tr A) :
  let g := grun_writer fuel (cwo p) g0 t in
  cr_accepted (cw_run p fuel t) = gacc (fst g) /\ cr_result (cw_run p fuel t) = snd g
  /\ cr_after (cw_run p fuel t) = c_after (mreplay (cw_machine p) (ghist (fst g)))
  /\ cr_fired (cw_run p fuel t) = c_fired (mreplay (cw_machine p) (ghist (fst g))).
Proof.
  cbv zeta. rewrite cw_run_unfold, grun_unfold. cbv zeta. cbn [cr_accepted cr_result cr_after cr_fired fst snd].
  destruct (cw_feed_spec p fuel (fst t)) as [H1 _]. auto.
Qed.

(* C13g_prefix for the ChunkWriter, every mode, every fuel: what the writer accepted is a prefix of the fault-free output *)
Theorem cw_prefix {A} p fuel (t : tr A) : is_prefix (cr_accepted (cw_run p fuel t)) (concat (fst t)).
Proof.
  destruct (cw_run_is_grun p fuel t) as [H1 _]. rewrite H1. exact (proj1 (C13g_prefix (cwo p) fuel t)).
Qed.

(* no `write` call is ever made after a failed one (every mode), and fired -> the outcome is Err (Io fail_kind) *)
Theorem cw_fired {A} p fuel (t : tr A) :
  cr_after (cw_run p fuel t) = 0
  /\ (cr_fired (cw_run p fuel t) = true -> cr_result (cw_run p fuel t) = Err (Io (p_kind p)) O).
Proof.
  rewrite cw_run_unfold. cbv zeta. cbn [cr_after cr_fired cr_result].
  destruct (cw_feed_spec p fuel (fst t)) as [_ [Ha [_ H]]]. split; [exact Ha|]. intros Hf.
  destruct H as [[_ [H _]]|[[_ H]|[H _]]]; [congruence|congruence|]. rewrite H. reflexivity.
Qed.

(* not fired -> everything was accepted and the outcome is the fault-free one (unless write_all ran out of fuel) *)
Theorem cw_not_fired {A} p fuel (t : tr A) : cr_fired (cw_run p fuel t) = false ->
  (cr_result (cw_run p fuel t) = snd t /\ cr_accepted (cw_run p fuel t) = concat (fst t))
  \/ cr_result (cw_run p fuel t) = OutOfFuel.
Proof.
  rewrite cw_run_unfold. cbv zeta. cbn [cr_accepted cr_fired cr_result].
  destruct (cw_feed_spec p fuel (fst t)) as [H1 [_ [_ H]]]. intros Hf.
  destruct H as [[H [_ H2]]|[[H _]|[_ H]]]; [|right; rewrite H; reflexivity|congruence].
  left. rewrite H, H1. auto.
Qed.

(* C13g_error_kind for the ChunkWriter: a call in the writer's `buffers` that was answered Err is the LAST entry of `buffers` *)
Theorem cw_failing_call_is_last {A} p fuel (t : tr A) :
  let s := fst (fst (mrun fuel (cw_machine p) t)) in
  let r := snd (mrun fuel (cw_machine p) t) in
  forall h2 b h1, c_buffers s = h2 ++ b :: h1 ->
  forall kind, cwo p h1 b = RFail kind -> h2 = [] /\ kind = p_kind p /\ r = Err (Io kind) O /\ c_fired s = true.
Proof.
  cbv zeta. rewrite mrun_is_grun. unfold mview. cbn [fst snd]. rewrite cw_buffers_replay.
  intros h2 b h1 E kind Hk.
  destruct (C13g_error_kind (cwo p) fuel t h2 b h1 E) as [_ [H _]]. destruct (H kind Hk) as [-> Hr].
  split; [reflexivity|]. cbn [app] in E. rewrite E. cbn [mreplay cw_machine wm_step].
  unfold cwo, oracle_of_machine in Hk. cbn [cw_machine wm_step] in Hk.
  change (mreplay (mkWM cw_init (cw_write p)) h1) with (mreplay (cw_machine p) h1).
  destruct (cw_write_flags p (mreplay (cw_machine p) h1) b) as [_ [_ H3]]. rewrite Hk in H3. tauto.
Qed.

(* ================================================= B. ChunkWriter: fuel ================================================= *)
(* every residue is reached within L consecutive positions *)
Lemma cyc_hit (L r s : nat) : r < L -> exists d, d < L /\ (s + d) mod L = r.
Proof.
  intros Hr. assert (HL : L <> 0) by lia. pose proof (Nat.mod_upper_bound s L HL) as Hx.
  destruct (Nat.le_gt_cases (s mod L) r) as [Hle|Hgt].
  - exists (r - s mod L). split; [lia|]. rewrite <- Nat.add_mod_idemp_l by exact HL.
    replace (s mod L + (r - s mod L)) with r by lia. apply Nat.mod_small. exact Hr.
  - exists (r + L - s mod L). split; [lia|]. rewrite <- Nat.add_mod_idemp_l by exact HL.
    replace (s mod L + (r + L - s mod L)) with (r + 1 * L) by lia. rewrite Nat.mod_add by exact HL. apply Nat.mod_small. exact Hr.
Qed.

Lemma forallb_false_nth {X} (f : X -> bool) (d : X) : forall l, forallb f l = false -> exists i, i < length l /\ f (nth i l d) = false.
Proof.
  induction l as [|a l IH]; intros H; [discriminate H|]. cbn [forallb] in H. destruct (f a) eqn:Ea.
  - cbn [andb] in H. destruct (IH H) as [i [Hi Hf]]. exists (S i). cbn [length nth]. split; [lia|exact Hf].
  - exists 0. cbn [length nth]. split; [lia|exact Ea].
Qed.

Lemma cw_si_replay p : p_cap p = None -> p_sched p <> [] -> forall hist, c_si (mreplay (cw_machine p) hist) = length hist.
Proof.
  intros Hc Hs. induction hist as [|b h IH]; [reflexivity|]. cbn [mreplay cw_machine wm_step length].
  change (mreplay (mkWM cw_init (cw_write p)) h) with (mreplay (cw_machine p) h).
  destruct (cw_write_si p (mreplay (cw_machine p) h) b Hc Hs) as [H _]. rewrite H, IH. reflexivity.
Qed.

(* a schedule that is not all zeros interrupts at most |sched| times in a row *)
Lemma cw_interrupts_bounded p : sched_ok (p_sched p) = true -> interrupts_bounded (cwo p) (length (p_sched p)).
Proof.
  intros Hok hist buf.
  destruct (p_cap p) as [c|] eqn:Hc.
  { exists 0. split; [lia|]. cbn [repeat app]. unfold cwo, oracle_of_machine. cbn [cw_machine wm_step].
    apply cw_write_no_interrupt. left. congruence. }
  destruct (p_sched p) as [|c0 rs] eqn:Hs.
  { exists 0. split; [lia|]. cbn [repeat app]. unfold cwo, oracle_of_machine. cbn [cw_machine wm_step].
    apply cw_write_no_interrupt. right. exact Hs. }
  unfold sched_ok in Hok. apply Bool.negb_true_iff in Hok.
  destruct (forallb_false_nth _ 0 _ Hok) as [r [Hr Hz]]. apply Nat.eqb_neq in Hz.
  destruct (cyc_hit (length (c0 :: rs)) r (length hist) Hr) as [d [Hd Hm]].
  exists d. split; [lia|]. unfold cwo, oracle_of_machine. cbn [cw_machine wm_step].
  change (mreplay (mkWM cw_init (cw_write p)) (repeat buf d ++ hist)) with (mreplay (cw_machine p) (repeat buf d ++ hist)).
  assert (Hne : p_sched p <> []) by (rewrite Hs; discriminate).
  apply (proj2 (cw_write_si p _ buf Hc Hne)).
  rewrite (cw_si_replay p Hc Hne), app_length, repeat_length, Hs.
  replace (d + length hist) with (length hist + d) by lia. rewrite Hm. exact Hz.
Qed.

Lemma maxlen_ge (bufs : list bytes) b : In b bufs -> length b <= maxlen bufs.
Proof.
  induction bufs as [|x l IH]; intros HI; [destruct HI|]. cbn [maxlen fold_right]. fold (maxlen l).
  destruct HI as [->|HI]; [lia|]. specialize (IH HI). lia.
Qed.

(* with such a schedule no write_all runs out of fuel, as soon as fuel >= (|sched|+1) * the longest buffer ([cw_fuel] is that) *)
Theorem cw_total p fuel bufs : sched_ok (p_sched p) = true -> cw_fuel p bufs <= fuel ->
  snd (gfeed fuel (cwo p) g0 bufs) <> OutOfFuel.
Proof.
  intros Hok Hf Er.
  assert (Hn : snd (gfeed fuel (cwo p) g0 bufs) <> Ok tt) by (rewrite Er; discriminate).
  destruct (gfeed_fail_split (cwo p) fuel bufs g0 Hn) as [done [b [rest [B1 [_ [_ B4]]]]]].
  rewrite B4 in Er. unfold gwrite_all in Er. revert Er.
  apply (C13g_total (cwo p) (length (p_sched p)) (cw_interrupts_bounded p Hok)).
  assert (Hb : length b <= maxlen bufs) by (apply maxlen_ge; rewrite B1; apply in_or_app; right; left; reflexivity).
  unfold cw_fuel in Hf. assert (S (length (p_sched p)) * length b <= S (length (p_sched p)) * maxlen bufs) by (apply Nat.mul_le_mono_l; exact Hb).
  lia.
Qed.

(* the complete description of a ChunkWriter run (every mode), under the conditions the driver guarantees *)
Theorem cw_run_spec {A} p fuel (t : tr A) : sched_ok (p_sched p) = true -> cw_fuel p (fst t) <= fuel ->
  let x := cw_run p fuel t in
  cr_after x = 0 /\ is_prefix (cr_accepted x) (concat (fst t))
  /\ ((cr_fired x = false /\ cr_result x = snd t /\ cr_accepted x = concat (fst t))
      \/ (cr_fired x = true /\ cr_result x = Err (Io (p_kind p)) O)).
Proof.
  intros Hok Hf. cbv zeta. rewrite cw_run_unfold. cbv zeta. cbn [cr_accepted cr_after cr_fired cr_result].
  destruct (cw_feed_spec p fuel (fst t)) as [H1 [Ha [Hp H]]]. pose proof (cw_total p fuel (fst t) Hok Hf) as Ht.
  split; [exact Ha|]. split; [rewrite H1; exact Hp|].
  destruct H as [[H [Hfi H2]]|[[H _]|[H Hfi]]]; [left|contradiction|right].
  - rewrite H, H1. auto.
  - rewrite H. auto.
Qed.
