(* Proofs/WriterMachineProps.v — theorems about Model/WriterMachine.v (the executable writer: state machines, and the
   harness's ChunkWriter as one) and about Extract/Driver_wgen.v.

   A. every machine:
      * mrun_is_grun            the direct runner computes the run of the oracle obtained by replaying the machine:
                                 same accepted bytes, same outcome, final state = replay of the call log;
   B. the ChunkWriter machine [cw_machine p], ALL parameters (all four modes of the harness op `wf`):
      * cw_run_is_grun          [cw_run] in terms of [grun_writer]; the writer's own `accepted` IS what write_all saw accepted,
                                 its `buffers` IS the call log;
      * cw_prefix               the accepted bytes are a prefix of the fault-free output            (from C13g_prefix)
      * cw_fired                fired -> outcome Err (Io fail_kind); calls_after_failure = 0 always (from the shape of the log)
      * cw_not_fired            not fired -> everything accepted and the fault-free outcome (or the fuel ran out)
      * cw_failing_call_is_last instance of C13g_error_kind
      * cw_total, cw_run_spec   with a schedule that is not all zeros, fuel [cw_fuel] is enough; complete dichotomy
   C. threshold writers (fail once k bytes were accepted, clamped): closed form of the run, for every machine of that class
      * cw_fail_at_closed       ChunkWriter with fail_at (persistent AND one-shot): accepted = first k bytes, etc.
      * cw_one_shot_is_persistent   the one-shot flag is unobservable through the serializer
      * old_closed              the same closed form for the writers of Model/Ser.v, any schedule
      * machine_persistent_is_old   hence the machine agrees with `run_writer` of Model/Ser.v
      * dispatch_wgen_is_dispatch_ser   hence Extract/Driver_wgen.v answers the persistent `wf` lines exactly as Extract/Driver_ser.v *)
From SJ Require Import Base.Bytes Base.Utf8 Model.Read Model.Sval Model.Ser Model.WriterGen Model.WriterMachine
  Spec.Layout Proofs.SerWriter Proofs.SerMain Proofs.WriterGenProps.
From SJ Require Extract.Driver Extract.Driver_ser Extract.Driver_wgen.
From Coq Require Import Lia.
Open Scope nat_scope.

(* ================================================= A. every machine ================================================= *)
Lemma mloop_nil {St} fuel (m : wmachine St) s acc : mwrite_all_loop fuel m s acc [] = (s, acc, Ok tt).
Proof. destruct fuel; reflexivity. Qed.

Lemma mloop_S {St} f (m : wmachine St) s acc buf : buf <> [] ->
  mwrite_all_loop (S f) m s acc buf =
  match wm_step m s buf with
  | (RAccept O, s1) => (s1, acc, Err (Io KIND_WRITE_ZERO) O)
  | (RAccept n, s1) =>
    if Nat.ltb (length buf) n then (s1, acc, Panic)
    else mwrite_all_loop f m s1 (acc ++ firstn n buf) (skipn n buf)
  | (RInterrupted, s1) => mwrite_all_loop f m s1 acc buf
  | (RFail kind, s1) => (s1, acc, Err (Io kind) O)
  end.
Proof. intros Hb. destruct buf as [|b0 r0]; [congruence|]. reflexivity. Qed.

(* the view of a g-run that the direct runner computes *)
Definition mview {St B} (m : wmachine St) (g : gstate * B) : St * bytes * B :=
  (mreplay m (ghist (fst g)), gacc (fst g), snd g).

Lemma mloop_is_gloop {St} (m : wmachine St) : forall fuel st buf,
  mwrite_all_loop fuel m (mreplay m (ghist st)) (gacc st) buf = mview m (gwrite_all_loop fuel (oracle_of_machine m) st buf).
Proof.
  induction fuel as [|f IH]; intros st buf.
  - destruct buf as [|b0 r0]; reflexivity.
  - destruct buf as [|b0 r0]; [reflexivity|].
    assert (Hne : b0 :: r0 <> []) by discriminate. remember (b0 :: r0) as buf eqn:Ebuf. clear Ebuf b0 r0.
    rewrite (mloop_S f m _ _ buf Hne), (gloop_S f _ st buf Hne). cbv zeta. unfold oracle_of_machine at 1.
    destruct (wm_step m (mreplay m (ghist st)) buf) as [resp s1] eqn:E. cbn [fst].
    assert (R1 : forall wa ac, mreplay m (ghist (mkG (buf :: ghist st) wa ac)) = s1).
    { intros wa ac. cbn [ghist mreplay]. rewrite E. reflexivity. }
    destruct resp as [[|n]| |kind].
    + unfold mview. cbn [fst snd]. rewrite R1. reflexivity.
    + destruct (Nat.ltb (length buf) (S n)).
      * unfold mview. cbn [fst snd]. rewrite R1. reflexivity.
      * rewrite <- IH. rewrite R1. reflexivity.
    + rewrite <- IH. rewrite R1. reflexivity.
    + unfold mview. cbn [fst snd]. rewrite R1. reflexivity.
Qed.

Lemma mwrite_all_is_gwrite_all {St} (m : wmachine St) fuel st buf :
  mwrite_all_loop fuel m (mreplay m (ghist st)) (gacc st) buf = mview m (gwrite_all fuel (oracle_of_machine m) st buf).
Proof.
  unfold gwrite_all. exact (mloop_is_gloop m fuel (mkG (ghist st) (buf :: gwa st) (gacc st)) buf).
Qed.

Lemma mfeed_is_gfeed {St} (m : wmachine St) fuel : forall bufs st,
  mfeed fuel m (mreplay m (ghist st)) (gacc st) bufs = mview m (gfeed fuel (oracle_of_machine m) st bufs).
Proof.
  induction bufs as [|b r IH]; intros st; [reflexivity|].
  cbn [mfeed gfeed]. rewrite mwrite_all_is_gwrite_all. unfold mview at 1.
  destruct (gwrite_all fuel (oracle_of_machine m) st b) as [st1 [[]|c i| |]]; cbn [fst snd]; [apply IH|reflexivity|reflexivity|reflexivity].
Qed.

Lemma mlift_is_lift_out {A} (t : tr A) r : mlift t r = lift_out t r.
Proof. reflexivity. Qed.

(* the direct runner computes the run against the oracle of the machine: accepted bytes, outcome, and the final machine
   state is the replay of the log of `write` calls *)
Theorem mrun_is_grun {A St} (m : wmachine St) (fuel : nat) (t : tr A) :
  mrun fuel m t = mview m (grun_writer fuel (oracle_of_machine m) g0 t).
Proof.
  unfold mrun. change (wm_init m) with (mreplay m (ghist g0)). change (@nil byte) with (gacc g0) at 1.
  rewrite mfeed_is_gfeed, grun_unfold. unfold mview. cbn [fst snd]. reflexivity.
Qed.

(* pointwise equal oracles give the same run *)
Lemma gloop_ext o1 o2 : (forall h b, o1 h b = o2 h b) ->
  forall fuel st buf, gwrite_all_loop fuel o1 st buf = gwrite_all_loop fuel o2 st buf.
Proof.
  intros H. induction fuel as [|f IH]; intros st buf; [reflexivity|].
  destruct buf as [|b0 r0]; [reflexivity|]. cbn [gwrite_all_loop]. rewrite H.
  destruct (o2 (ghist st) (b0 :: r0)) as [[|n]| |kind]; [reflexivity| |apply IH|reflexivity].
  destruct (Nat.ltb (length (b0 :: r0)) (S n)); [reflexivity|apply IH].
Qed.

Lemma gfeed_ext o1 o2 : (forall h b, o1 h b = o2 h b) ->
  forall fuel bufs st, gfeed fuel o1 st bufs = gfeed fuel o2 st bufs.
Proof.
  intros H fuel. induction bufs as [|b r IH]; intros st; [reflexivity|].
  cbn [gfeed]. unfold gwrite_all. rewrite (gloop_ext o1 o2 H).
  destruct (gwrite_all_loop fuel o2 (mkG (ghist st) (b :: gwa st) (gacc st)) b) as [st1 [[]|c i| |]]; [apply IH|reflexivity|reflexivity|reflexivity].
Qed.

(* ---- a component of the machine state that tracks the accepted bytes ---- *)
Section Proj.
  Context {St : Type} (m : wmachine St) (proj : St -> bytes).
  (* `write` answers Ok(n) only with n <= |buf| and then appends the first n bytes to the component; otherwise it leaves it alone *)
  Definition tracks_accepted : Prop := forall s buf,
    match fst (wm_step m s buf) with
    | RAccept n => n <= length buf /\ proj (snd (wm_step m s buf)) = proj s ++ firstn n buf
    | _ => proj (snd (wm_step m s buf)) = proj s
    end.
  Hypothesis Hstep : tracks_accepted.

  Lemma mloop_proj : forall fuel s acc buf, proj s = acc ->
    proj (fst (fst (mwrite_all_loop fuel m s acc buf))) = snd (fst (mwrite_all_loop fuel m s acc buf)).
  Proof.
    induction fuel as [|f IH]; intros s acc buf Hp.
    - destruct buf as [|b0 r0]; cbn [mwrite_all_loop fst snd]; exact Hp.
    - destruct buf as [|b0 r0]; [cbn [mwrite_all_loop fst snd]; exact Hp|].
      assert (Hne : b0 :: r0 <> []) by discriminate. remember (b0 :: r0) as buf eqn:Ebuf. clear Ebuf b0 r0.
      rewrite (mloop_S f m s acc buf Hne). pose proof (Hstep s buf) as Hs.
      destruct (wm_step m s buf) as [resp s1]. cbn [fst snd] in Hs.
      destruct resp as [[|n]| |kind].
      + destruct Hs as [_ Hs]. cbn [firstn] in Hs. rewrite app_nil_r in Hs. cbn [fst snd]. congruence.
      + destruct Hs as [Hn Hs]. destruct (Nat.ltb (length buf) (S n)) eqn:El; [apply Nat.ltb_lt in El; lia|].
        apply IH. rewrite Hs, Hp. reflexivity.
      + apply IH. congruence.
      + cbn [fst snd]. congruence.
  Qed.

  Lemma mfeed_proj fuel : forall bufs s acc, proj s = acc ->
    proj (fst (fst (mfeed fuel m s acc bufs))) = snd (fst (mfeed fuel m s acc bufs)).
  Proof.
    induction bufs as [|b r IH]; intros s acc Hp; [exact Hp|].
    cbn [mfeed]. pose proof (mloop_proj fuel s acc b Hp) as H1.
    destruct (mwrite_all_loop fuel m s acc b) as [[s1 acc1] [[]|c i| |]]; cbn [fst snd] in H1 |- *; [apply IH; exact H1|exact H1|exact H1|exact H1].
  Qed.

  (* in a run from the initial state: the component IS what write_all has seen accepted *)
  Lemma gfeed_proj fuel bufs : proj (wm_init m) = [] ->
    let g := gfeed fuel (oracle_of_machine m) g0 bufs in proj (mreplay m (ghist (fst g))) = gacc (fst g).
  Proof.
    intros Hi. cbv zeta. pose proof (mfeed_proj fuel bufs (wm_init m) [] Hi) as H.
    change (wm_init m) with (mreplay m (ghist g0)) in H. change (@nil byte) with (gacc g0) in H at 1 2.
    rewrite mfeed_is_gfeed in H. exact H.
  Qed.
End Proj.

(* ================================================= B. ChunkWriter: one `write` ================================================= *)
Definition cwo (p : cwp) : oracle := oracle_of_machine (cw_machine p).

(* case analysis along the control flow of ChunkWriter::write *)
Ltac cw_cases :=
  unfold cw_write;
  repeat (cbv beta iota zeta;
    match goal with
    | |- context [match p_cap ?p with _ => _ end] => destruct (p_cap p) eqn:?
    | |- context [match p_sched ?p with _ => _ end] => destruct (p_sched p) eqn:?
    | |- context [match p_fail_at ?p with _ => _ end] => destruct (p_fail_at p) eqn:?
    | |- context [if ?b then _ else _] => destruct b eqn:?
    end);
  cbv beta iota zeta; cbn [fst snd c_accepted c_buffers c_si c_fired c_after].

Ltac cw_arith :=
  repeat match goal with
  | H : Nat.eqb _ _ = true |- _ => apply Nat.eqb_eq in H
  | H : Nat.eqb _ _ = false |- _ => apply Nat.eqb_neq in H
  | H : Nat.leb _ _ = true |- _ => apply Nat.leb_le in H
  | H : Nat.leb _ _ = false |- _ => apply Nat.leb_gt in H
  | H : Nat.ltb _ _ = true |- _ => apply Nat.ltb_lt in H
  | H : Nat.ltb _ _ = false |- _ => apply Nat.ltb_ge in H
  end.

(* `accepted`: Ok(n) has n <= |buf| and appends buf[..n]; Interrupted / Err leave it alone *)
Lemma cw_write_acc p : tracks_accepted (cw_machine p) c_accepted.
Proof.
  intros s buf. cbn [cw_machine wm_step]. cw_cases; try reflexivity;
    (split; [lia|]); try reflexivity; rewrite firstn_all; reflexivity.
Qed.

(* `buffers`, `calls_after_failure`, `fired`: fired is set exactly by the calls answered Err(fail_kind) *)
Lemma cw_write_flags p s buf :
  c_buffers (snd (cw_write p s buf)) = buf :: c_buffers s
  /\ c_after (snd (cw_write p s buf)) = (if c_fired s then S (c_after s) else c_after s)
  /\ match fst (cw_write p s buf) with
     | RFail kind => kind = p_kind p /\ c_fired (snd (cw_write p s buf)) = true
     | _ => c_fired (snd (cw_write p s buf)) = c_fired s
     end.
Proof. cw_cases; auto. Qed.

(* a non-empty buffer is answered Interrupted, Ok(n) with 1 <= n <= |buf|, or Err(fail_kind): never Ok(0), never more than offered *)
Lemma cw_write_good p s buf : buf <> [] ->
  good_resp (fst (cw_write p s buf)) buf \/ fst (cw_write p s buf) = RFail (p_kind p).
Proof.
  intros Hb. assert (Hl : 1 <= length buf) by (destruct buf; [congruence|cbn [length]; lia]).
  cw_cases; auto; left; cbn [good_resp]; cw_arith; lia.
Qed.

(* `si`: one schedule entry per call (when there is a schedule and no cap) *)
Lemma cw_write_si p s buf : p_cap p = None -> p_sched p <> [] ->
  c_si (snd (cw_write p s buf)) = S (c_si s)
  /\ (nth (c_si s mod length (p_sched p)) (p_sched p) 0 <> 0 -> fst (cw_write p s buf) <> RInterrupted).
Proof.
  intros Hc Hs. unfold cw_write. rewrite Hc. destruct (p_sched p) as [|c0 rs] eqn:Es; [congruence|]. cbv zeta.
  destruct (Nat.eqb (nth (c_si s mod length (c0 :: rs)) (c0 :: rs) 0) 0) eqn:Ew.
  - cbn [fst snd c_si]. split; [reflexivity|]. apply Nat.eqb_eq in Ew. intros H; contradiction.
  - cbv beta iota. split; [|intros _]; destruct (p_fail_at p); try destruct (negb _); try destruct (Nat.leb _ _);
      cbn [fst snd c_si]; try reflexivity; discriminate.
Qed.

(* no schedule, or a cap: never Interrupted *)
Lemma cw_write_no_interrupt p s buf : p_cap p <> None \/ p_sched p = [] -> fst (cw_write p s buf) <> RInterrupted.
Proof.
  intros H. cw_cases; try discriminate; destruct H; congruence.
Qed.

(* the threshold (`fail_at`, as long as the failure has not fired; no cap): the call fails only when k bytes were accepted, and
   never lets the accepted bytes grow beyond k *)
Lemma cw_write_threshold p k s buf : p_cap p = None -> p_fail_at p = Some k -> c_fired s = false ->
  length (c_accepted s) <= k ->
  (forall kind, fst (cw_write p s buf) = RFail kind -> k <= length (c_accepted s))
  /\ length (c_accepted (snd (cw_write p s buf))) <= k.
Proof.
  intros Hc Hf Hfi Hl. unfold cw_write. rewrite Hc, Hf, Hfi, Bool.andb_false_r. cbn [negb].
  cw_cases; cw_arith; (split; [intros kind Hk; try discriminate Hk; lia|]); try rewrite app_length, firstn_length; lia.
Qed.

Lemma cw_write_never_fails p s buf : p_cap p = None -> p_fail_at p = None -> forall kind, fst (cw_write p s buf) <> RFail kind.
Proof. intros Hc Hf kind. unfold cw_write. rewrite Hc, Hf. cw_cases; discriminate. Qed.

(* ================================================= B. ChunkWriter: the run ================================================= *)
(* `buffers` is the call log, whatever happened *)
Lemma cw_buffers_replay p : forall hist, c_buffers (mreplay (cw_machine p) hist) = hist.
Proof.
  induction hist as [|b h IH]; [reflexivity|]. cbn [mreplay cw_machine wm_step].
  destruct (cw_write_flags p (mreplay (cw_machine p) h) b) as [Hb _]. rewrite Hb. f_equal. exact IH.
Qed.

(* as long as every call was answered Interrupted or Ok(n >= 1): not fired, no call after a failure *)
Lemma cw_replay_good p : forall hist, log_good (cwo p) hist ->
  c_fired (mreplay (cw_machine p) hist) = false /\ c_after (mreplay (cw_machine p) hist) = 0.
Proof.
  induction hist as [|b h IH]; intros HG; [split; reflexivity|].
  cbn [log_good] in HG. destruct HG as [_ [Hr HG]]. destruct (IH HG) as [Hf Ha].
  unfold cwo, oracle_of_machine in Hr. cbn [cw_machine wm_step] in Hr.
  cbn [mreplay cw_machine wm_step].
  destruct (cw_write_flags p (mreplay (cw_machine p) h) b) as [_ [H2 H3]].
  change (mreplay (mkWM cw_init (cw_write p)) h) with (mreplay (cw_machine p) h) in *.
  rewrite H2, Hf, Ha. split; [|reflexivity].
  destruct (fst (cw_write p (mreplay (cw_machine p) h) b)) as [n| |kind]; [congruence|congruence|destruct Hr].
Qed.

(* [cw_run] unfolded at the level of the buffers handed to write_all *)
Lemma cw_run_unfold {A} p fuel (t : tr A) :
  cw_run p fuel t =
  let g := gfeed fuel (cwo p) g0 (fst t) in
  let s := mreplay (cw_machine p) (ghist (fst g)) in
  mkCR (c_accepted s) (mlift t (snd g)) (c_after s) (c_fired s).
Proof.
  unfold cw_run, mrun. change (wm_init (cw_machine p)) with (mreplay (cw_machine p) (ghist g0)).
  change (@nil byte) with (gacc g0) at 1. rewrite mfeed_is_gfeed. reflexivity.
Qed.

(* the run of the ChunkWriter seen at the level of write_all results: the writer's `accepted` is what write_all saw accepted, a prefix of
   the fault-free output; no `write` call follows a failed one; `fired` says exactly whether a write_all failed, and then with fail_kind *)
Lemma cw_feed_spec p fuel bufs :
  let g := gfeed fuel (cwo p) g0 bufs in
  let s := mreplay (cw_machine p) (ghist (fst g)) in
  c_accepted s = gacc (fst g) /\ c_after s = 0 /\ is_prefix (gacc (fst g)) (concat bufs)
  /\ ((snd g = Ok tt /\ c_fired s = false /\ gacc (fst g) = concat bufs)
      \/ (snd g = OutOfFuel /\ c_fired s = false)
      \/ (snd g = Err (Io (p_kind p)) O /\ c_fired s = true)).
Proof.
  cbv zeta. split; [exact (gfeed_proj (cw_machine p) c_accepted (cw_write_acc p) fuel bufs eq_refl)|].
  destruct (gfeed_spec (cwo p) fuel bufs g0 I) as [[R [A1 [_ A3]]]|[R [done [b [rest [pre [s [B1 [B2 [B3 [B4 [_ B6]]]]]]]]]]]].
  - cbn [g0 gstart gacc app] in A1. destruct (cw_replay_good p _ A3) as [Hf Ha].
    split; [exact Ha|]. split; [exists []; rewrite A1, app_nil_r; reflexivity|]. left. auto.
  - cbn [g0 gstart gacc app] in B4.
    assert (Hpre : is_prefix (gacc (fst (gfeed fuel (cwo p) g0 bufs))) (concat bufs)).
    { exists (s ++ concat rest). rewrite B4, B1, concat_app. cbn [concat]. rewrite B2, <- !app_assoc. reflexivity. }
    destruct B6 as [[E G]|[h [Eh [G Bad]]]].
    + destruct (cw_replay_good p _ G) as [Hf Ha]. split; [exact Ha|]. split; [exact Hpre|]. right. left. auto.
    + rewrite Eh. cbn [mreplay cw_machine wm_step]. destruct (cw_replay_good p _ G) as [Hf Ha].
      change (mreplay (mkWM cw_init (cw_write p)) h) with (mreplay (cw_machine p) h).
      destruct (cw_write_flags p (mreplay (cw_machine p) h) s) as [_ [H2 H3]].
      rewrite H2, Hf, Ha. split; [reflexivity|]. split; [exact Hpre|]. right. right.
      unfold cwo, oracle_of_machine in Bad. cbn [cw_machine wm_step] in Bad.
      change (mreplay (mkWM cw_init (cw_write p)) h) with (mreplay (cw_machine p) h) in Bad.
      destruct (cw_write_good p (mreplay (cw_machine p) h) s B3) as [Hg|Hk].
      * exfalso. exact (good_not_bad _ _ _ Hg Bad).
      * rewrite Hk in Bad, H3. cbn [bad_answer] in Bad. tauto.
Qed.

(* [cw_run] in terms of the oracle model: accepted bytes and outcome are those of [grun_writer] on the oracle of the machine *)
Theorem cw_run_is_grun {A} p fuel (t : tr A) :
  let g := grun_writer fuel (cwo p) g0 t in
  cr_accepted (cw_run p fuel t) = gacc (fst g) /\ cr_result (cw_run p fuel t) = snd g
  /\ cr_after (cw_run p fuel t) = c_after (mreplay (cw_machine p) (ghist (fst g)))
  /\ cr_fired (cw_run p fuel t) = c_fired (mreplay (cw_machine p) (ghist (fst g))).
Proof.
  cbv zeta. rewrite cw_run_unfold, grun_unfold. cbv zeta. cbn [cr_accepted cr_result cr_after cr_fired fst snd].
  destruct (cw_feed_spec p fuel (fst t)) as [H1 _]. auto.
Qed.

(* C13g_prefix for the ChunkWriter, every mode, every fuel: what the writer accepted is a prefix of the fault-free output *)
Theorem cw_prefix {A} p fuel (t : tr A) : is_prefix (cr_accepted (cw_run p fuel t)) (concat (fst t)).
Proof.
  destruct (cw_run_is_grun p fuel t) as [H1 _]. rewrite H1. exact (proj1 (C13g_prefix (cwo p) fuel t)).
Qed.

(* no `write` call is ever made after a failed one (every mode), and fired -> the outcome is Err (Io fail_kind) *)
Theorem cw_fired {A} p fuel (t : tr A) :
  cr_after (cw_run p fuel t) = 0
  /\ (cr_fired (cw_run p fuel t) = true -> cr_result (cw_run p fuel t) = Err (Io (p_kind p)) O).
Proof.
  rewrite cw_run_unfold. cbv zeta. cbn [cr_after cr_fired cr_result].
  destruct (cw_feed_spec p fuel (fst t)) as [_ [Ha [_ H]]]. split; [exact Ha|]. intros Hf.
  destruct H as [[_ [H _]]|[[_ H]|[H _]]]; [congruence|congruence|]. rewrite H. reflexivity.
Qed.

(* not fired -> everything was accepted and the outcome is the fault-free one (unless write_all ran out of fuel) *)
Theorem cw_not_fired {A} p fuel (t : tr A) : cr_fired (cw_run p fuel t) = false ->
  (cr_result (cw_run p fuel t) = snd t /\ cr_accepted (cw_run p fuel t) = concat (fst t))
  \/ cr_result (cw_run p fuel t) = OutOfFuel.
Proof.
  rewrite cw_run_unfold. cbv zeta. cbn [cr_accepted cr_fired cr_result].
  destruct (cw_feed_spec p fuel (fst t)) as [H1 [_ [_ H]]]. intros Hf.
  destruct H as [[H [_ H2]]|[[H _]|[_ H]]]; [|right; rewrite H; reflexivity|congruence].
  left. rewrite H, H1. auto.
Qed.

(* C13g_error_kind for the ChunkWriter: a call in the writer's `buffers` that was answered Err is the LAST entry of `buffers` *)
Theorem cw_failing_call_is_last {A} p fuel (t : tr A) :
  let s := fst (fst (mrun fuel (cw_machine p) t)) in
  let r := snd (mrun fuel (cw_machine p) t) in
  forall h2 b h1, c_buffers s = h2 ++ b :: h1 ->
  forall kind, cwo p h1 b = RFail kind -> h2 = [] /\ kind = p_kind p /\ r = Err (Io kind) O /\ c_fired s = true.
Proof.
  cbv zeta. rewrite mrun_is_grun. unfold mview. cbn [fst snd]. rewrite cw_buffers_replay.
  intros h2 b h1 E kind Hk.
  destruct (C13g_error_kind (cwo p) fuel t h2 b h1 E) as [_ [H _]]. destruct (H kind Hk) as [-> Hr].
  split; [reflexivity|]. cbn [app] in E. rewrite E. cbn [mreplay cw_machine wm_step].
  unfold cwo, oracle_of_machine in Hk. cbn [cw_machine wm_step] in Hk.
  change (mreplay (mkWM cw_init (cw_write p)) h1) with (mreplay (cw_machine p) h1).
  destruct (cw_write_flags p (mreplay (cw_machine p) h1) b) as [_ [_ H3]]. rewrite Hk in H3. tauto.
Qed.

(* ================================================= B. ChunkWriter: fuel ================================================= *)
(* every residue is reached within L consecutive positions *)
Lemma cyc_hit (L r s : nat) : r < L -> exists d, d < L /\ (s + d) mod L = r.
Proof.
  intros Hr. assert (HL : L <> 0) by lia. pose proof (Nat.mod_upper_bound s L HL) as Hx.
  destruct (Nat.le_gt_cases (s mod L) r) as [Hle|Hgt].
  - exists (r - s mod L). split; [lia|]. rewrite <- Nat.add_mod_idemp_l by exact HL.
    replace (s mod L + (r - s mod L)) with r by lia. apply Nat.mod_small. exact Hr.
  - exists (r + L - s mod L). split; [lia|]. rewrite <- Nat.add_mod_idemp_l by exact HL.
    replace (s mod L + (r + L - s mod L)) with (r + 1 * L) by lia. rewrite Nat.mod_add by exact HL. apply Nat.mod_small. exact Hr.
Qed.

Lemma forallb_false_nth {X} (f : X -> bool) (d : X) : forall l, forallb f l = false -> exists i, i < length l /\ f (nth i l d) = false.
Proof.
  induction l as [|a l IH]; intros H; [discriminate H|]. cbn [forallb] in H. destruct (f a) eqn:Ea.
  - cbn [andb] in H. destruct (IH H) as [i [Hi Hf]]. exists (S i). cbn [length nth]. split; [lia|exact Hf].
  - exists 0. cbn [length nth]. split; [lia|exact Ea].
Qed.

Lemma cw_si_replay p : p_cap p = None -> p_sched p <> [] -> forall hist, c_si (mreplay (cw_machine p) hist) = length hist.
Proof.
  intros Hc Hs. induction hist as [|b h IH]; [reflexivity|]. cbn [mreplay cw_machine wm_step length].
  change (mreplay (mkWM cw_init (cw_write p)) h) with (mreplay (cw_machine p) h).
  destruct (cw_write_si p (mreplay (cw_machine p) h) b Hc Hs) as [H _]. rewrite H, IH. reflexivity.
Qed.

(* a schedule that is not all zeros interrupts at most |sched| times in a row *)
Lemma cw_interrupts_bounded p : sched_ok (p_sched p) = true -> interrupts_bounded (cwo p) (length (p_sched p)).
Proof.
  intros Hok hist buf.
  destruct (p_cap p) as [c|] eqn:Hc.
  { exists 0. split; [lia|]. cbn [repeat app]. unfold cwo, oracle_of_machine. cbn [cw_machine wm_step].
    apply cw_write_no_interrupt. left. congruence. }
  destruct (p_sched p) as [|c0 rs] eqn:Hs.
  { exists 0. split; [lia|]. cbn [repeat app]. unfold cwo, oracle_of_machine. cbn [cw_machine wm_step].
    apply cw_write_no_interrupt. right. exact Hs. }
  unfold sched_ok in Hok. apply Bool.negb_true_iff in Hok.
  destruct (forallb_false_nth _ 0 _ Hok) as [r [Hr Hz]]. apply Nat.eqb_neq in Hz.
  destruct (cyc_hit (length (c0 :: rs)) r (length hist) Hr) as [d [Hd Hm]].
  exists d. split; [lia|]. unfold cwo, oracle_of_machine. cbn [cw_machine wm_step].
  change (mreplay (mkWM cw_init (cw_write p)) (repeat buf d ++ hist)) with (mreplay (cw_machine p) (repeat buf d ++ hist)).
  assert (Hne : p_sched p <> []) by (rewrite Hs; discriminate).
  apply (proj2 (cw_write_si p _ buf Hc Hne)).
  rewrite (cw_si_replay p Hc Hne), app_length, repeat_length, Hs.
  replace (d + length hist) with (length hist + d) by lia. rewrite Hm. exact Hz.
Qed.

Lemma maxlen_ge (bufs : list bytes) b : In b bufs -> length b <= maxlen bufs.
Proof.
  induction bufs as [|x l IH]; intros HI; [destruct HI|]. cbn [maxlen fold_right]. fold (maxlen l).
  destruct HI as [->|HI]; [lia|]. specialize (IH HI). lia.
Qed.

(* with such a schedule no write_all runs out of fuel, as soon as fuel >= (|sched|+1) * the longest buffer ([cw_fuel] is that) *)
Theorem cw_total p fuel bufs : sched_ok (p_sched p) = true -> cw_fuel p bufs <= fuel ->
  snd (gfeed fuel (cwo p) g0 bufs) <> OutOfFuel.
Proof.
  intros Hok Hf Er.
  assert (Hn : snd (gfeed fuel (cwo p) g0 bufs) <> Ok tt) by (rewrite Er; discriminate).
  destruct (gfeed_fail_split (cwo p) fuel bufs g0 Hn) as [done [b [rest [B1 [_ [_ B4]]]]]].
  rewrite B4 in Er. unfold gwrite_all in Er. revert Er.
  apply (C13g_total (cwo p) (length (p_sched p)) (cw_interrupts_bounded p Hok)).
  assert (Hb : length b <= maxlen bufs) by (apply maxlen_ge; rewrite B1; apply in_or_app; right; left; reflexivity).
  unfold cw_fuel in Hf. assert (S (length (p_sched p)) * length b <= S (length (p_sched p)) * maxlen bufs) by (apply Nat.mul_le_mono_l; exact Hb).
  lia.
Qed.

(* the complete description of a ChunkWriter run (every mode), under the conditions the driver guarantees *)
Theorem cw_run_spec {A} p fuel (t : tr A) : sched_ok (p_sched p) = true -> cw_fuel p (fst t) <= fuel ->
  let x := cw_run p fuel t in
  cr_after x = 0 /\ is_prefix (cr_accepted x) (concat (fst t))
  /\ ((cr_fired x = false /\ cr_result x = snd t /\ cr_accepted x = concat (fst t))
      \/ (cr_fired x = true /\ cr_result x = Err (Io (p_kind p)) O)).
Proof.
  intros Hok Hf. cbv zeta. rewrite cw_run_unfold. cbv zeta. cbn [cr_accepted cr_after cr_fired cr_result].
  destruct (cw_feed_spec p fuel (fst t)) as [H1 [Ha [Hp H]]]. pose proof (cw_total p fuel (fst t) Hok Hf) as Ht.
  split; [exact Ha|]. split; [rewrite H1; exact Hp|].
  destruct H as [[H [Hfi H2]]|[[H _]|[H Hfi]]]; [left|contradiction|right].
  - rewrite H, H1. auto.
  - rewrite H. auto.
Qed.

(* ================================================= C. threshold writers: the closed form ================================================= *)
(* A class of machines: while [live], a call on a non-empty buffer is answered Interrupted, Ok(1 <= n <= |buf|) or Err(kind);
   with a threshold [Some k] it fails only once k bytes were accepted and never accepts beyond k; with [None] it never fails.
   (What happens after the first Err is irrelevant: the serializer never gets there.)
   For such a machine the run is determined by k alone — chunking and interruptions are unobservable. *)
Section Threshold.
  Context {St : Type} (m : wmachine St) (proj : St -> bytes) (live : St -> Prop) (kk : option nat) (kind : N).
  Hypothesis Hacc : tracks_accepted m proj.
  Hypothesis Hinit : live (wm_init m) /\ proj (wm_init m) = [].
  Hypothesis Hgood : forall s buf, live s -> buf <> [] ->
    good_resp (fst (wm_step m s buf)) buf \/ fst (wm_step m s buf) = RFail kind.
  Hypothesis Hlive : forall s buf, live s -> (forall kd, fst (wm_step m s buf) <> RFail kd) -> live (snd (wm_step m s buf)).
  Hypothesis Hthr : forall s buf, live s ->
    match kk with
    | Some k => length (proj s) <= k ->
                (forall kd, fst (wm_step m s buf) = RFail kd -> k <= length (proj s)) /\ length (proj (snd (wm_step m s buf))) <= k
    | None => forall kd, fst (wm_step m s buf) <> RFail kd
    end.

  Lemma thr_replay_good : forall hist, log_good (oracle_of_machine m) hist ->
    live (mreplay m hist) /\ match kk with Some k => length (proj (mreplay m hist)) <= k | None => True end.
  Proof.
    induction hist as [|b h IH]; intros HG.
    - cbn [mreplay]. destruct Hinit as [H1 H2]. split; [exact H1|]. destruct kk; [rewrite H2; cbn [length]; lia|exact I].
    - cbn [log_good] in HG. destruct HG as [_ [Hr HG]]. destruct (IH HG) as [Hl Hk].
      unfold oracle_of_machine in Hr. cbn [mreplay].
      assert (Hnf : forall kd, fst (wm_step m (mreplay m h) b) <> RFail kd).
      { intros kd E. rewrite E in Hr. destruct Hr. }
      split; [exact (Hlive _ _ Hl Hnf)|]. pose proof (Hthr (mreplay m h) b Hl) as Ht.
      destruct kk as [k|]; [exact (proj2 (Ht Hk))|exact I].
  Qed.

  Theorem thr_closed fuel bufs :
    let g := gfeed fuel (oracle_of_machine m) g0 bufs in
    snd g <> OutOfFuel ->
    match kk with
    | Some k => if Nat.ltb k (length (concat bufs))
                then gacc (fst g) = firstn k (concat bufs) /\ snd g = Err (Io kind) O
                else gacc (fst g) = concat bufs /\ snd g = Ok tt
    | None => gacc (fst g) = concat bufs /\ snd g = Ok tt
    end.
  Proof.
    cbv zeta. intros Hoof.
    pose proof (gfeed_proj m proj Hacc fuel bufs (proj2 Hinit)) as Hpj. cbv zeta in Hpj.
    destruct (gfeed_spec (oracle_of_machine m) fuel bufs g0 I) as [[R [A1 [_ A3]]]|[R [done [b [rest [pre [s [B1 [B2 [B3 [B4 [_ B6]]]]]]]]]]]].
    - cbn [g0 gstart gacc app] in A1. destruct (thr_replay_good _ A3) as [_ Hk].
      destruct kk as [k|]; [|auto]. rewrite Hpj, A1 in Hk.
      destruct (Nat.ltb k (length (concat bufs))) eqn:El; [apply Nat.ltb_lt in El; lia|auto].
    - cbn [g0 gstart gacc app] in B4.
      destruct B6 as [[E _]|[h [Eh [G Bad]]]]; [contradiction|].
      destruct (thr_replay_good _ G) as [Hl Hk].
      unfold oracle_of_machine in Bad.
      pose proof (Hacc (mreplay m h) s) as Ha. pose proof (Hthr (mreplay m h) s Hl) as Ht.
      destruct (Hgood (mreplay m h) s Hl B3) as [Hg|Hf]; [exfalso; exact (good_not_bad _ _ _ Hg Bad)|].
      rewrite Hf in Bad, Ha. cbn [bad_answer] in Bad.
      rewrite Eh in Hpj. cbn [mreplay] in Hpj. rewrite Ha in Hpj.
      destruct kk as [k|]; [|exfalso; exact (Ht kind Hf)].
      destruct (Ht Hk) as [Ht1 _]. specialize (Ht1 kind Hf).
      assert (Hlen : length (gacc (fst (gfeed fuel (oracle_of_machine m) g0 bufs))) = k) by (rewrite <- Hpj; lia).
      assert (Hout : concat bufs = gacc (fst (gfeed fuel (oracle_of_machine m) g0 bufs)) ++ s ++ concat rest).
      { rewrite B4, B1, concat_app. cbn [concat]. rewrite B2, <- !app_assoc. reflexivity. }
      assert (Hs : 1 <= length s) by (destruct s; [congruence|cbn [length]; lia]).
      assert (El : Nat.ltb k (length (concat bufs)) = true).
      { apply Nat.ltb_lt. rewrite Hout, !app_length. lia. }
      rewrite El. split; [|exact Bad].
      rewrite Hout, <- Hlen. rewrite <- (Nat.add_0_r (length _)), firstn_app_2. cbn [firstn]. rewrite app_nil_r. reflexivity.
  Qed.
End Threshold.

(* ---- the ChunkWriter with `fail_at` (persistent or one-shot), or without any failure ---- *)
Theorem cw_feed_closed p fuel bufs : p_cap p = None -> sched_ok (p_sched p) = true -> cw_fuel p bufs <= fuel ->
  let g := gfeed fuel (cwo p) g0 bufs in
  match p_fail_at p with
  | Some k => if Nat.ltb k (length (concat bufs))
              then gacc (fst g) = firstn k (concat bufs) /\ snd g = Err (Io (p_kind p)) O
              else gacc (fst g) = concat bufs /\ snd g = Ok tt
  | None => gacc (fst g) = concat bufs /\ snd g = Ok tt
  end.
Proof.
  intros Hc Hok Hf.
  apply (thr_closed (cw_machine p) c_accepted (fun s => c_fired s = false) (p_fail_at p) (p_kind p)).
  - exact (cw_write_acc p).
  - split; reflexivity.
  - intros s buf _ Hb. exact (cw_write_good p s buf Hb).
  - intros s buf Hl Hn. cbn [cw_machine wm_step] in Hn |- *. destruct (cw_write_flags p s buf) as [_ [_ H3]].
    destruct (fst (cw_write p s buf)) as [n| |kd]; [congruence|congruence|exfalso; exact (Hn kd eq_refl)].
  - intros s buf Hl. cbn [cw_machine wm_step]. destruct (p_fail_at p) as [k|] eqn:Ef.
    + intros Hk. exact (cw_write_threshold p k s buf Hc Ef Hl Hk).
    + exact (cw_write_never_fails p s buf Hc Ef).
  - exact (cw_total p fuel bufs Hok Hf).
Qed.

(* closed form of the harness's `wf` runs in the modes "-", "<k>" and "o<k>": whatever the chunking, the writer ends up with exactly
   the first k bytes of the fault-free output and Err (Io kind) — or with everything and the fault-free outcome when k >= |output| *)
Theorem cw_fail_at_closed {A} p fuel (t : tr A) : p_cap p = None -> sched_ok (p_sched p) = true -> cw_fuel p (fst t) <= fuel ->
  let x := cw_run p fuel t in
  let out := concat (fst t) in
  match p_fail_at p with
  | Some k => if Nat.ltb k (length out)
              then cr_accepted x = firstn k out /\ cr_result x = Err (Io (p_kind p)) O /\ cr_fired x = true /\ cr_after x = 0
              else cr_accepted x = out /\ cr_result x = snd t /\ cr_fired x = false /\ cr_after x = 0
  | None => cr_accepted x = out /\ cr_result x = snd t /\ cr_fired x = false /\ cr_after x = 0
  end.
Proof.
  intros Hc Hok Hf. cbv zeta. rewrite cw_run_unfold. cbv zeta. cbn [cr_accepted cr_result cr_fired cr_after].
  pose proof (cw_feed_closed p fuel (fst t) Hc Hok Hf) as Hcl. cbv zeta in Hcl.
  destruct (cw_feed_spec p fuel (fst t)) as [H1 [Ha [_ H]]]. rewrite H1, Ha.
  assert (Hfired : forall b, (b = true <-> snd (gfeed fuel (cwo p) g0 (fst t)) <> Ok tt) ->
            c_fired (mreplay (cw_machine p) (ghist (fst (gfeed fuel (cwo p) g0 (fst t))))) = b).
  { intros b Hb. destruct H as [[H [Hfi _]]|[[H Hfi]|[H Hfi]]]; rewrite Hfi; destruct b; try reflexivity.
    - exfalso. exact (proj1 Hb eq_refl H).
    - exfalso. apply (cw_total p fuel (fst t) Hok Hf). exact H.
    - symmetry. apply (proj2 Hb). rewrite H. discriminate. }
  destruct (p_fail_at p) as [k|]; [destruct (Nat.ltb k (length (concat (fst t))))|]; destruct Hcl as [Hg Hr]; rewrite Hg, Hr; cbn [mlift];
    (split; [reflexivity|]); (split; [reflexivity|]); (split; [|reflexivity]); apply Hfired; rewrite Hr;
    split; try discriminate; try reflexivity; intros; congruence.
Qed.

(* the one-shot flag cannot be observed through the serializer: same accepted bytes, same outcome, same flags *)
Corollary cw_one_shot_is_persistent {A} ch sc fa kd fuel (t : tr A) : sched_ok sc = true ->
  cw_fuel (mkCWP ch sc fa kd true None) (fst t) <= fuel ->
  cw_run (mkCWP ch sc fa kd true None) fuel t = cw_run (mkCWP ch sc fa kd false None) fuel t.
Proof.
  intros Hok Hf.
  pose proof (cw_fail_at_closed (mkCWP ch sc fa kd true None) fuel t eq_refl Hok Hf) as H1.
  pose proof (cw_fail_at_closed (mkCWP ch sc fa kd false None) fuel t eq_refl Hok Hf) as H2.
  cbv zeta in H1, H2. cbn [p_fail_at p_kind] in H1, H2.
  destruct (cw_run (mkCWP ch sc fa kd true None) fuel t) as [a1 r1 n1 f1].
  destruct (cw_run (mkCWP ch sc fa kd false None) fuel t) as [a2 r2 n2 f2].
  cbn [cr_accepted cr_result cr_fired cr_after] in H1, H2.
  destruct fa as [k|]; [destruct (Nat.ltb k (length (concat (fst t))))|];
    destruct H1 as [-> [-> [-> ->]]]; destruct H2 as [-> [-> [-> ->]]]; reflexivity.
Qed.

(* ---- the writers of Model/Ser.v are threshold machines too ---- *)
Lemma old_replay w : forall hist, mreplay (old_machine w) hist = replay w hist.
Proof. induction hist as [|b h IH]; [reflexivity|]. cbn [mreplay replay old_machine wm_step snd]. rewrite <- IH. reflexivity. Qed.

Lemma old_oracle w h b : oracle_of_writer w h b = oracle_of_machine (old_machine w) h b.
Proof. unfold oracle_of_writer, oracle_of_machine. rewrite old_replay. reflexivity. Qed.

Lemma write_once_threshold w buf : buf <> [] ->
  fail_at (fst (write_once w buf)) = fail_at w
  /\ match snd (write_once w buf) with
     | WOk n => 1 <= n <= length buf
     | WInterrupted => True
     | WErr kd => exists k, fail_at w = Some (k, kd) /\ k <= length (accepted w)
     end
  /\ (forall k kd, fail_at w = Some (k, kd) -> length (accepted w) <= k -> length (accepted (fst (write_once w buf))) <= k).
Proof.
  intros Hb. assert (Hl : 1 <= length buf) by (destruct buf; [congruence|cbn [length]; lia]).
  unfold write_once.
  destruct (sched w) as [|c rs]; [|destruct (Nat.eqb c 0) eqn:Ec];
    (destruct (fail_at w) as [[k kd]|] eqn:Ef; [destruct (Nat.leb k (length (accepted w))) eqn:Ek|]);
    cbn [fst snd accepted fail_at]; cw_arith;
    (split; [reflexivity|]); (split; [try exact I; try lia; try (exists k; split; [reflexivity|lia])|]);
    intros k' kd' E; try discriminate E; try (injection E as <- <-); intros Hk; try rewrite app_length, firstn_length; lia.
Qed.

Theorem old_feed_closed (w : writer) (bufs : list bytes) : accepted w = [] ->
  match fail_at w with
  | Some (k, kd) => if Nat.ltb k (length (concat bufs))
                    then accepted (fst (feed w bufs)) = firstn k (concat bufs) /\ snd (feed w bufs) = Err (Io kd) O
                    else accepted (fst (feed w bufs)) = concat bufs /\ snd (feed w bufs) = Ok tt
  | None => accepted (fst (feed w bufs)) = concat bufs /\ snd (feed w bufs) = Ok tt
  end.
Proof.
  intros Hw.
  set (fuel := S (length (sched w) + length (concat bufs))).
  (* the oracle run is the old run *)
  destruct (sim_feed w fuel bufs g0) as [_ [X2 X3]]; [exact Hw| |].
  { intros b Hi. cbn [g0 gstart ghist replay]. pose proof (in_length_concat b bufs Hi). unfold fuel. lia. }
  cbn [g0 gstart ghist replay] in X2, X3. fold g0 in X2, X3.
  rewrite (gfeed_ext _ _ (old_oracle w)) in X2, X3.
  assert (Hoof : snd (gfeed fuel (oracle_of_machine (old_machine w)) g0 bufs) <> OutOfFuel).
  { rewrite X3. destruct (feed_spec bufs w) as [p [s [_ [_ [_ [[E _]|[k [kd [_ [E _]]]]]]]]]]; rewrite E; discriminate. }
  pose proof (thr_closed (old_machine w) accepted (fun w1 => fail_at w1 = fail_at w)
                (match fail_at w with Some (k, _) => Some k | None => None end)
                (match fail_at w with Some (_, kd) => kd | None => 0%N end)) as T.
  rewrite <- X2, <- X3.
  assert (T' := fun H1 H2 H3 H4 H5 => T H1 H2 H3 H4 H5 fuel bufs Hoof). clear T.
  assert (Tc : match match fail_at w with Some (k, _) => Some k | None => None end with
               | Some k => if Nat.ltb k (length (concat bufs))
                           then gacc (fst (gfeed fuel (oracle_of_machine (old_machine w)) g0 bufs)) = firstn k (concat bufs)
                                /\ snd (gfeed fuel (oracle_of_machine (old_machine w)) g0 bufs)
                                   = Err (Io match fail_at w with Some (_, kd) => kd | None => 0%N end) O
                           else gacc (fst (gfeed fuel (oracle_of_machine (old_machine w)) g0 bufs)) = concat bufs
                                /\ snd (gfeed fuel (oracle_of_machine (old_machine w)) g0 bufs) = Ok tt
               | None => gacc (fst (gfeed fuel (oracle_of_machine (old_machine w)) g0 bufs)) = concat bufs
                         /\ snd (gfeed fuel (oracle_of_machine (old_machine w)) g0 bufs) = Ok tt
               end).
  { apply T'; clear T'.
    - intros s buf. cbn [old_machine wm_step fst snd]. pose proof (write_once_facts s buf) as [_ H].
      destruct (snd (write_once s buf)); cbn [resp_of_wres]; exact H.
    - split; [reflexivity|exact Hw].
    - intros s buf Hl Hb. cbn [old_machine wm_step fst snd]. destruct (write_once_threshold s buf Hb) as [_ [H _]].
      destruct (snd (write_once s buf)) as [n| |kd]; cbn [resp_of_wres good_resp]; [left; exact H|left; exact I|].
      right. destruct H as [k [E _]]. rewrite <- Hl, E. reflexivity.
    - intros s buf Hl _. cbn [old_machine wm_step fst snd].
      destruct buf as [|b0 r0].
      + unfold write_once. destruct (sched s) as [|c rs]; [|destruct (Nat.eqb c 0)];
          (destruct (fail_at s) as [[k kd]|] eqn:Ef; [destruct (Nat.leb k (length (accepted s)))|]); cbn [fst fail_at]; congruence.
      + destruct (write_once_threshold s (b0 :: r0)) as [H _]; [discriminate|]. congruence.
    - intros s buf Hl. cbn [old_machine wm_step fst snd].
      destruct buf as [|b0 r0].
      { (* the empty buffer (never offered by write_all): direct computation *)
        unfold write_once. rewrite <- Hl.
        destruct (sched s) as [|c rs]; [|destruct (Nat.eqb c 0)];
          (destruct (fail_at s) as [[k kd]|] eqn:Ef; [destruct (Nat.leb k (length (accepted s))) eqn:Ek|]);
          cbn [fst snd accepted resp_of_wres length]; cw_arith;
          try (intros Hk; split; [intros kd' E; try discriminate E; lia|try rewrite app_length, firstn_length; cbn [length]; lia]);
          intros kd' E; discriminate E. }
      destruct (write_once_threshold s (b0 :: r0)) as [_ [H2 H3]]; [discriminate|]. rewrite <- Hl.
      destruct (fail_at s) as [[k kd]|] eqn:Ef.
      + intros Hk. split; [|exact (H3 k kd eq_refl Hk)].
        intros kd' E. destruct (snd (write_once s (b0 :: r0))) as [n| |kd'']; cbn [resp_of_wres] in E; try discriminate E.
        destruct H2 as [k' [E2 Hk']]. congruence.
      + intros kd' E. destruct (snd (write_once s (b0 :: r0))) as [n| |kd'']; cbn [resp_of_wres] in E; try discriminate E.
        destruct H2 as [k' [E2 _]]. discriminate E2. }
  destruct (fail_at w) as [[k kd]|]; exact Tc.
Qed.

(* the closed form of Model/Ser.v's `run_writer`: it does not depend on the schedule *)
Theorem old_closed {A} (sc : list nat) (fa : option (nat * N)) (t : tr A) :
  let r := run_writer (mkW [] sc fa) t in
  let out := concat (fst t) in
  match fa with
  | Some (k, kd) => if Nat.ltb k (length out)
                    then accepted (fst r) = firstn k out /\ snd r = Err (Io kd) O
                    else accepted (fst r) = out /\ snd r = snd t
  | None => accepted (fst r) = out /\ snd r = snd t
  end.
Proof.
  cbv zeta. pose proof (old_feed_closed (mkW [] sc fa) (fst t) eq_refl) as H. cbn [fail_at] in H.
  unfold run_writer. destruct (feed (mkW [] sc fa) (fst t)) as [w1 r1]. cbn [fst snd] in H.
  destruct fa as [[k kd]|]; [destruct (Nat.ltb k (length (concat (fst t))))|]; destruct H as [H1 ->]; cbn [fst snd]; auto.
Qed.

(* In the modes without cap — persistent AND one-shot — the ChunkWriter machine (cyclic schedule, any chunk) gives exactly the accepted
   bytes and the outcome of Model/Ser.v's writer model [run_writer], whatever (unrolled, finite) schedule [sc] the latter is given *)
Theorem machine_persistent_is_old {A} (p : cwp) (sc : list nat) (fuel : nat) (t : tr A) :
  p_cap p = None -> sched_ok (p_sched p) = true -> cw_fuel p (fst t) <= fuel ->
  let fa := match p_fail_at p with Some k => Some (k, p_kind p) | None => None end in
  cr_accepted (cw_run p fuel t) = accepted (fst (run_writer (mkW [] sc fa) t))
  /\ cr_result (cw_run p fuel t) = snd (run_writer (mkW [] sc fa) t).
Proof.
  intros Hc Hok Hf. cbv zeta.
  pose proof (cw_fail_at_closed p fuel t Hc Hok Hf) as H1. cbv zeta in H1.
  pose proof (old_closed sc (match p_fail_at p with Some k => Some (k, p_kind p) | None => None end) t) as H2. cbv zeta in H2.
  destruct (p_fail_at p) as [k|]; [destruct (Nat.ltb k (length (concat (fst t))))|];
    destruct H1 as [-> [-> _]]; destruct H2 as [-> ->]; auto.
Qed.

(* ================================================= the drivers ================================================= *)
Module DriverEq.
  Import SJ.Extract.Driver SJ.Extract.Driver_ser SJ.Extract.Driver_wgen.
  Open Scope N_scope.

  (* a field is "-" or it is not *)
  Lemma dash_dec (k : bytes) : k = [45] \/ (forall X (a b : X), match k with [45] => a | _ => b end = b).
  Proof.
    destruct k as [|b0 [|b1 r]]; [right; reflexivity| |right; intros; destruct b0 as [|q]; [reflexivity|];
      repeat (match goal with |- context [match ?q with xI _ => _ | xO _ => _ | xH => _ end] => destruct q end); reflexivity].
    destruct (N.eqb_spec b0 45) as [->|Hne]; [left; reflexivity|right]. intros X a b.
    destruct b0 as [|q]; [reflexivity|].
    repeat (match goal with |- context [match ?q with xI _ => _ | xO _ => _ | xH => _ end] => destruct q end); try reflexivity.
    congruence.
  Qed.

  Lemma sched_of_cycle ch total :
    match cycle_of ch with
    | Some cyc => sched_ok cyc = true /\ exists sc, sched_of ch total = Some sc
    | None => sched_of ch total = None
    end.
  Proof.
    unfold cycle_of, sched_of.
    destruct ch as [|b0 r]; [reflexivity|].
    destruct b0 as [|q]; [reflexivity|].
    repeat (match goal with |- context [match ?q with xI _ => _ | xO _ => _ | xH => _ end] => destruct q end); try reflexivity.
    - (* 115 *)
      destruct (forallb (fun n => Nat.eqb n 0) (map (fun d => N.to_nat (N_of_dec d)) (split_on 44 r))) eqn:E; [reflexivity|].
      split; [|eexists; reflexivity]. unfold sched_ok. rewrite E. destruct (map _ _); reflexivity.
    - (* 97 *)
      destruct r; [|reflexivity]. split; [reflexivity|eexists; reflexivity].
  Qed.

  Lemma show_wf_ext {A} w1 w2 (r : res A) : accepted w1 = accepted w2 -> show_wf (w1, r) = show_wf (w2, r).
  Proof. intros E. unfold show_wf. rewrite E. reflexivity. Qed.

  (* On the k-specs that Driver_ser.v knows ("-" and "<k>": everything that does not start with "o" or "b") the new driver, which runs the
     ChunkWriter machine with its cyclic schedule, gives the answer of Driver_ser.v's `wf`, which runs Model/Ser.v's writer on the unrolled
     schedule — for every line, well-formed or not. *)
  Theorem dispatch_wgen_is_dispatch_ser (c f ft k kind ch sv : bytes) : is_ext_kspec k = false ->
    dispatch_wgen [[119; 102]; c; f; ft; k; kind; ch; sv] = dispatch_ser [[119; 102]; c; f; ft; k; kind; ch; sv].
  Proof.
    intros Hk. unfold dispatch_wgen, dispatch_ser. cbv beta iota.
    destruct (fmt_of f) as [F|]; [|reflexivity]. destruct (parse_ftab ft) as [tab|]; [|reflexivity].
    destruct (sval_of_field sv) as [v|]; [|reflexivity].
    set (t := serialize_trace (cfg_of c) (ftab_lookup tab false) (ftab_lookup tab true) F v). cbv zeta.
    pose proof (sched_of_cycle ch (length (concat (fst t)) + length (fst t))%nat) as Hs.
    destruct (cycle_of ch) as [cyc|]; [|rewrite Hs; reflexivity].
    destruct Hs as [Hok [sc ->]].
    assert (Hks : kspec_of k = Some (match k with [45] => KNever | _ => KPersist (N.to_nat (N_of_dec k)) end)).
    { unfold kspec_of. destruct k as [|b0 r]; [reflexivity|]. cbn [is_ext_kspec] in Hk. apply Bool.orb_false_iff in Hk.
      destruct Hk as [H1 H2]. rewrite H1, H2. reflexivity. }
    rewrite Hks. clear Hks.
    set (fa := match k with [45] => None | _ => Some (N.to_nat (N_of_dec k), N_of_dec kind) end).
    set (ks := match k with [45] => KNever | _ => KPersist (N.to_nat (N_of_dec k)) end).
    set (p := params_of ks (N_of_dec kind) cyc).
    assert (Hp : p_cap p = None /\ p_sched p = cyc
                 /\ fa = match p_fail_at p with Some k' => Some (k', p_kind p) | None => None end /\ extended ks = false).
    { unfold p, ks, fa. destruct (dash_dec k) as [->|Hd]; [repeat split|]. rewrite !Hd. repeat split. }
    destruct Hp as [Hc [Hsc [Hfa Hext]]]. rewrite Hext.
    destruct (machine_persistent_is_old p sc (cw_fuel p (fst t)) t Hc) as [H1 H2]; [rewrite Hsc; exact Hok|apply le_n|].
    cbv zeta in H1, H2. rewrite <- Hfa in H1, H2.
    unfold show_cw. rewrite app_nil_r. rewrite H2.
    destruct (run_writer (mkW [] sc fa) t) as [w r] eqn:Er. cbn [fst snd] in H1 |- *.
    apply show_wf_ext. exact H1.
  Qed.
End DriverEq.

Print Assumptions mrun_is_grun.
Print Assumptions cw_run_is_grun.
Print Assumptions cw_prefix.
Print Assumptions cw_fired.
Print Assumptions cw_not_fired.
Print Assumptions cw_failing_call_is_last.
Print Assumptions cw_total.
Print Assumptions cw_run_spec.
Print Assumptions cw_fail_at_closed.
Print Assumptions cw_one_shot_is_persistent.
Print Assumptions old_closed.
Print Assumptions machine_persistent_is_old.
Print Assumptions DriverEq.dispatch_wgen_is_dispatch_ser.
