(* Proofs/TypedRk.v — typed deserialization (Model/DeTyped.v) from an io::Read and from a byte slice.

   For the untyped parser the two reader kinds give IDENTICAL results (Proofs/RkIndep.v).  For typed targets
   they agree up to the byte index of some errors: `error()` is positioned by `Read::position()`, and an
   IoRead has already counted a byte that sits in its peek slot ([err_idx Eio s = off s + (if pk s then 1 else 0)],
   [err_idx Esl s = off s]).  Typed deserialization calls `error()` with a byte peeked at these places:
     * fix_position on a serde data error (Message _),
     * deserialize_enum's closing-brace check            (ExpectedSomeValue),
     * do_deserialize_i128 / u128 after scan_integer128  (NumberOutOfRange),
     * deserialize_numeric_key!'s first-byte check       (ExpectedNumericKey),
     * deserialize_raw_value's UTF-8 check               (InvalidUnicodeCodePoint; `error` at the state after ignore_value).
   Everything else is raised by `error` after next/discard or by `peek_error` after a peek, as in RkIndep.v.

   Two inherent source differences are built into the statements (agreed with the coordinator):
     1. [parse_str] reports Borrowed/Copied; an IoRead can never lend, so [DStr _ b] carries [b = false] on io
        where a slice may say [true].  Values are compared modulo [unb], which resets every such flag.
     2. a `&str` target ([TBorrowedStr]) accepts only a borrowed string, hence always fails on a reader
        (`from_reader` requires DeserializeOwned).  Hypothesis [owned_ty t = true]: no [TBorrowedStr] in [t].
        Counterexamples without it: [borrowed_str_counterexample], [borrowed_str_counterexample_eof] below.

   Main results (section "Main theorems"):
     de_typed_rk_strong / from_input_typed_rk_strong   results agree; an error index may be one larger on io, and
                                                       only for a code with [may_shift c = true]
     de_typed_rk / from_input_typed_rk                 the same with the bare "differ by at most one" clause
     from_input_typed_rk_eof                           Eof-category errors are positioned identically *)
From SJ Require Import Base.Bytes Base.Utf8 Base.FloatB Gen.Tables
  Model.Read Model.Str Model.Num Model.NumF32 Model.Value Model.De Model.Ignore Model.Ty Model.DeTyped.
From SJ Require Import Proofs.StrRefine Proofs.RkIndep.
Require Import Lia List.
Import ListNotations.
Open Scope N_scope.

(* ------------------------------------------------------------------------------------------ *)
(** * 1. Vocabulary *)

Definition Eio (c : cfg) : env := mkEnv RIo TEof c.
Definition Esl (c : cfg) : env := mkEnv RSlice TEof c.

(* reset the Borrowed/Copied flag of every string in a typed value *)
Definition unbp (unb : dval -> dval) (p : dval * dval) : dval * dval := let '(a, b) := p in (unb a, unb b).
Fixpoint unb (d : dval) : dval :=
  match d with
  | DStr s _ => DStr s false
  | DSome d1 => DSome (unb d1)
  | DNewtype d1 => DNewtype (unb d1)
  | DSeq l => DSeq (map unb l)
  | DMap l => DMap (map (unbp unb) l)
  | DStruct l => DStruct (map unb l)
  | DVariant n p => DVariant n (unb p)
  | _ => d
  end.

(* the type program never asks for a borrowed &str *)
Definition owned_variant (owned_ty : ty -> bool) (v : variant) : bool :=
  match v with
  | VUnit => true
  | VNewtype t1 => owned_ty t1
  | VTuple ts => forallb owned_ty ts
  | VStruct fs => forallb (fun q => owned_ty (snd q)) fs
  end.
Fixpoint owned_ty (t : ty) : bool :=
  match t with
  | TBorrowedStr => false
  | TOption t1 | TNewtype t1 | TSeq t1 => owned_ty t1
  | TTuple ts | TTupleStruct ts => forallb owned_ty ts
  | TMap _ v => owned_ty v
  | TStruct fs => forallb (fun p => owned_ty (snd p)) fs
  | TEnum vs => forallb (fun p => owned_variant owned_ty (snd p)) vs
  | _ => true
  end.

(* the error codes that typed deserialization raises through `error()` while a byte may be peeked *)
Definition may_shift (c : ecode) : bool :=
  match c with
  | Message _ | ExpectedSomeValue | NumberOutOfRange | InvalidUnicodeCodePoint | ExpectedNumericKey => true
  | _ => false
  end.

Lemma may_shift_not_eof : forall c, may_shift c = true -> category c <> CatEof.
Proof. intros c H. destruct c; cbn [may_shift] in H; try discriminate H; cbn [category]; discriminate. Qed.

(* io result vs slice result; Ok payloads compared through [f] *)
Definition tclose {A B} (f : A -> B) (r_io r_sl : tres A) : Prop :=
  match r_io, r_sl with
  | TOk a, TOk b => f a = f b
  | TErr c i, TErr c' i' => c = c' /\ (i = i' \/ (i = S i' /\ may_shift c = true))
  | TUnpos k s, TUnpos k' s' => k = k' /\ s = s'
  | TFuel, TFuel => True
  | TPanic, TPanic => True
  | _, _ => False
  end.

(* the statement asked for: results agree up to the error index, which may differ by at most one (io >= slice) *)
Definition tres_close {A B} (f : A -> B) (r_io r_sl : tres A) : Prop :=
  match r_io, r_sl with
  | TOk a, TOk b => f a = f b
  | TErr c i, TErr c' i' => c = c' /\ (i = i' \/ i = S i')
  | TUnpos k s, TUnpos k' s' => k = k' /\ s = s'
  | TFuel, TFuel => True
  | TPanic, TPanic => True
  | _, _ => False
  end.

Lemma tclose_weaken {A B} (f : A -> B) r1 r2 : tclose f r1 r2 -> tres_close f r1 r2.
Proof.
  destruct r1, r2; cbn [tclose tres_close]; auto.
  intros [Hc [Hi | [Hi _]]]; auto.
Qed.

Definition onfst {A B} (g : A -> B) (p : A * st) : B * st := (g (fst p), snd p).
Definition ust := onfst unb.
Definition ulst := onfst (map unb).
Definition umst := onfst (map (unbp unb)).
Definition uslots (sl : list (option dval)) := map (option_map unb) sl.

Definition tpost {A} (P : A -> Prop) (r : tres A) : Prop := match r with TOk a => P a | _ => True end.

(* ------------------------------------------------------------------------------------------ *)
(** * 2. Generic lemmas about [tclose] / [tpost] *)

Lemma tclose_refl {A B} (f : A -> B) r : tclose f r r.
Proof. destruct r; cbn [tclose]; auto. Qed.

Lemma tclose_eq {A B} (f : A -> B) r1 r2 : r1 = r2 -> tclose f r1 r2.
Proof. intros ->. apply tclose_refl. Qed.

Lemma tclose_lift {A B} (f : A -> B) (r1 r2 : res A) : r1 = r2 -> tclose f (lift r1) (lift r2).
Proof. intros ->. apply tclose_refl. Qed.

Lemma tclose_tbind {A B C D} (f : A -> B) (g : C -> D) r1 r2 (k1 k2 : A -> tres C) :
  tclose f r1 r2 -> (forall a b, f a = f b -> tclose g (k1 a) (k2 b)) -> tclose g (tbind r1 k1) (tbind r2 k2).
Proof.
  intros Hr Hk. destruct r1, r2; cbn [tclose] in Hr; try contradiction; cbn [tbind tclose]; auto.
Qed.

Lemma tclose_tbind_post {A B C D} (f : A -> B) (g : C -> D) (P : A -> Prop) r1 r2 (k1 k2 : A -> tres C) :
  tclose f r1 r2 -> tpost P r2 -> (forall a b, f a = f b -> P b -> tclose g (k1 a) (k2 b)) ->
  tclose g (tbind r1 k1) (tbind r2 k2).
Proof.
  intros Hr Hp Hk. destruct r1, r2; cbn [tclose tpost] in Hr, Hp; try contradiction; cbn [tbind tclose]; auto.
Qed.

Lemma tclose_let {A C D} (g : C -> D) (r1 r2 : res A) (k1 k2 : A -> tres C) :
  r1 = r2 -> (forall a, r2 = Ok a -> tclose g (k1 a) (k2 a)) -> tclose g (tbind (lift r1) k1) (tbind (lift r2) k2).
Proof.
  intros -> Hk. destruct r2; cbn [lift tbind tclose]; auto.
Qed.

Lemma onfst_inv : forall A B (g : A -> B) a s b s', onfst g (a, s) = onfst g (b, s') -> g a = g b /\ s = s'.
Proof. intros A B g a s b s' H. unfold onfst in H. cbn [fst snd] in H. injection H as H1 H2. split; assumption. Qed.

Lemma tclose_tmap {A A' B B'} (g : A -> B) (g' : A' -> B') (h : A -> A') r1 r2 :
  (forall a b, g a = g b -> g' (h a) = g' (h b)) ->
  tclose (onfst g) r1 r2 -> tclose (onfst g') (tmap h r1) (tmap h r2).
Proof.
  intros Hh Hr. unfold tmap. apply (tclose_tbind (onfst g) (onfst g') _ _ _ _ Hr).
  intros [a s] [b s'] Hab. apply onfst_inv in Hab. destruct Hab as [Hg Hs]. subst s'.
  cbv beta iota. cbn [tclose]. unfold onfst. cbn [fst snd]. rewrite (Hh _ _ Hg). reflexivity.
Qed.

Lemma tpost_tbind {A B} (P : B -> Prop) (r : tres A) (k : A -> tres B) :
  (forall a, tpost P (k a)) -> tpost P (tbind r k).
Proof. intros Hk. destruct r; cbn [tbind tpost]; auto. Qed.

Lemma tpost_tbind2 {A B} (Q : A -> Prop) (P : B -> Prop) (r : tres A) (k : A -> tres B) :
  tpost Q r -> (forall a, Q a -> tpost P (k a)) -> tpost P (tbind r k).
Proof. intros Hr Hk. destruct r; cbn [tbind tpost] in *; auto. Qed.

Lemma tpost_fix {A} (P : A -> Prop) E (r : tres A) : tpost P r -> tpost P (fix_position E r).
Proof. destruct r; cbn [fix_position tpost]; auto. Qed.

(* ------------------------------------------------------------------------------------------ *)
(** * 3. List lemmas: erasing flags in slots, byte buffers, field tables *)

Lemma u8s_of_unb : forall l, u8s_of (map unb l) = u8s_of l.
Proof.
  induction l as [|d l IH]; [reflexivity|].
  cbn [map]. destruct d; cbn [unb u8s_of]; rewrite ?IH; reflexivity.
Qed.

Lemma slot_filled_unb : forall i sl, slot_filled i (uslots sl) = slot_filled i sl.
Proof.
  intros i sl. unfold slot_filled, uslots.
  change (@None dval) with (option_map unb None) at 1. rewrite map_nth.
  destruct (nth i sl None); reflexivity.
Qed.

Lemma set_slot_unb : forall i d sl, uslots (set_slot i d sl) = set_slot i (unb d) (uslots sl).
Proof.
  induction i as [|i IH]; intros d sl; destruct sl as [|x r]; cbn [set_slot uslots map option_map]; try reflexivity.
  f_equal. apply IH.
Qed.

Lemma finish_struct_close : forall fields sl1 sl2 s, uslots sl1 = uslots sl2 ->
  tclose (map unb) (finish_struct fields sl1 s) (finish_struct fields sl2 s).
Proof.
  induction fields as [|[n t] fields IH]; intros sl1 sl2 s Hsl.
  - destruct sl1, sl2; cbn [finish_struct tclose]; reflexivity.
  - destruct sl1 as [|x1 r1], sl2 as [|x2 r2]; cbn [uslots map] in Hsl; try discriminate Hsl.
    + cbn [finish_struct tclose]. exact I.
    + inversion Hsl as [[Hx Hr]]. cbn [finish_struct].
      destruct x1 as [d1|], x2 as [d2|]; cbn [option_map] in Hx; try discriminate Hx.
      * inversion Hx as [Hd].
        apply (tclose_tbind (map unb) (map unb) _ _ _ _ (IH r1 r2 s Hr)).
        intros a b Hab. cbn [tclose map]. rewrite Hd, Hab. reflexivity.
      * destruct t; try (cbn [tclose]; split; reflexivity).
        apply (tclose_tbind (map unb) (map unb) _ _ _ _ (IH r1 r2 s Hr)).
        intros a b Hab. cbn [tclose map]. rewrite Hab. reflexivity.
Qed.

Lemma index_of_owned : forall (P : ty -> bool) name (fields : list (bytes * ty)) i t,
  forallb (fun p => P (snd p)) fields = true -> index_of name fields = Some (i, t) -> P t = true.
Proof.
  intros P name. induction fields as [|[n a] fields IH]; intros i t Hall Hidx.
  - discriminate Hidx.
  - cbn [forallb snd] in Hall. apply andb_prop in Hall. destruct Hall as [Ha Hall].
    cbn [index_of] in Hidx. destruct (beq_bytes name n).
    + inversion Hidx; subst. exact Ha.
    + destruct (index_of name fields) as [[i' a']|] eqn:Hi; [|discriminate Hidx].
      inversion Hidx; subst. eapply IH; [exact Hall|reflexivity].
Qed.

Lemma index_of_owned_variant : forall name (vs : list (bytes * variant)) i v,
  forallb (fun p => owned_variant owned_ty (snd p)) vs = true -> index_of name vs = Some (i, v) ->
  owned_variant owned_ty v = true.
Proof.
  intros name. induction vs as [|[n a] vs IH]; intros i v Hall Hidx.
  - discriminate Hidx.
  - cbn [forallb snd] in Hall. apply andb_prop in Hall. destruct Hall as [Ha Hall].
    cbn [index_of] in Hidx. destruct (beq_bytes name n).
    + inversion Hidx; subst. exact Ha.
    + destruct (index_of name vs) as [[i' a']|] eqn:Hi; [|discriminate Hidx].
      inversion Hidx; subst. eapply IH; [exact Hall|reflexivity].
Qed.

Lemma forallb_map_snd : forall (P : ty -> bool) (fields : list (bytes * ty)),
  forallb P (map snd fields) = forallb (fun p => P (snd p)) fields.
Proof. intros P. induction fields as [|x r IH]; [reflexivity|]. cbn [map forallb]. rewrite IH. reflexivity. Qed.

(* ------------------------------------------------------------------------------------------ *)
(** * 4. The reader-kind lemmas *)

Section TypedRk.
  Variable c0 : cfg.
  Local Notation EIO := (mkEnv RIo TEof c0).
  Local Notation ESL := (mkEnv RSlice TEof c0).

  Lemma str_agree : forall s, RkIndep.drop_flag (parse_str EIO s) = RkIndep.drop_flag (parse_str ESL s).
  Proof. intros s. apply parse_str_io_slice. Qed.
  Lemma str_raw_agree : forall s, RkIndep.drop_flag (parse_str_raw EIO s) = RkIndep.drop_flag (parse_str_raw ESL s).
  Proof. intros s. apply parse_str_raw_io_slice. Qed.
  Lemma ign_agree : forall s, ignore_str EIO s = ignore_str ESL s.
  Proof. intros s. apply ignore_str_io_slice. Qed.

  Lemma parse_value_rk' : forall fuel s, parse_value fuel EIO s = parse_value fuel ESL s.
  Proof. intros fuel s. apply parse_value_rk. exact str_agree. Qed.
  Lemma ignore_value_rk' : forall s, ignore_value EIO s = ignore_value ESL s.
  Proof. intros s. apply ignore_value_rk. exact ign_agree. Qed.

  Lemma pw_none_pk : forall s s', parse_whitespace ESL s = Ok (None, s') -> pk s' = false.
  Proof.
    intros s s'. unfold parse_whitespace, peek, at_end. cbn [tm].
    destruct (rest (advance (span_len is_ws (rest s)) s)); intros H; inversion H; reflexivity.
  Qed.

  Lemma peek_none_pk : forall s s', peek ESL s = Ok (None, s') -> pk s' = false.
  Proof.
    intros s s'. unfold peek, at_end. cbn [tm].
    destruct (rest s); intros H; inversion H; reflexivity.
  Qed.

  Lemma str_bind_rk : forall B s (k1 k2 : list N * bool * st -> res B),
    (forall a f1 f2 s', k1 (a, f1, s') = k2 (a, f2, s')) ->
    bind (parse_str EIO s) k1 = bind (parse_str ESL s) k2.
  Proof. intros B s k1 k2 Hk. apply parse_str_bind; [exact str_agree|exact Hk]. Qed.

  Create HintDb trk.
  Hint Resolve error_rk peek_error_rk peek_post next_post peek_or_null_post skip_digits_post
       parse_whitespace_post pk_discard pk_advance pw_none_pk peek_none_pk
       parse_ident_rk enter_rk f64_from_parts_rk f64_long_from_parts_rk parse_exponent_overflow_rk
       exponent_front_rk exponent_front_post parse_exponent_rk parse_long_exponent_rk parse_long_decimal_rk
       parse_decimal_overflow_rk parse_decimal_rk parse_long_integer_rk parse_number_rk parse_integer_rk
       parse_any_number_rk scan_integer128_rk parse_object_colon_rk end_seq_rk end_map_rk
       has_next_element_rk has_next_key_rk de_end_rk parse_value_rk' ignore_value_rk' : trk.

  (* ---- automation for [res]-level equalities (as in RkIndep.v) ---- *)
  Ltac norm :=
    change (peek EIO) with (peek ESL);
    change (next EIO) with (next ESL);
    change (peek_or_null EIO) with (peek_or_null ESL);
    change (skip_digits EIO) with (skip_digits ESL);
    change (parse_whitespace EIO) with (parse_whitespace ESL);
    change (leave EIO) with (leave ESL);
    cbn [Read.cf Read.rk].

  Ltac split_pairs := repeat match goal with p : (_ * _)%type |- _ => destruct p end.

  Ltac destr_scrut x :=
    lazymatch x with
    | match ?y with _ => _ end => destr_scrut y
    | _ => destruct x eqn:?
    end.

  Ltac rk_head := try solve [eauto 6 with trk nocore].

  Ltac rk_go :=
    cbv beta iota zeta;
    lazymatch goal with
    | |- ?a = ?b =>
      first
        [ constr_eq a b; reflexivity
        | lazymatch goal with
          | |- bind (parse_str _ _) _ = bind (parse_str _ _) _ =>
            apply str_bind_rk;
            let a := fresh "a" in let f1 := fresh "f1" in let f2 := fresh "f2" in let s' := fresh "s'" in
            intros a f1 f2 s'; rk_go
          | |- bind _ _ = bind _ _ =>
            apply bind_cong';
            [ rk_go
            | let a := fresh "a" in let Ha := fresh "Ha" in intros a Ha; split_pairs; rk_go ]
          | |- match ?x with _ => _ end = _ => destr_scrut x; rk_go
          | |- _ => rk_head
          end ]
    end.

  Ltac rk_start := intros; norm; rk_go.

  (* ---- Model/NumF32.v: the single-precision number parser is reader-kind independent ---- *)
  Lemma finish_s_rk : forall positive f s, pkok s -> finish_s EIO positive f s = finish_s ESL positive f s.
  Proof. unfold finish_s. rk_start. Qed.
  Hint Resolve finish_s_rk : trk.

  Lemma f64_from_parts_s_rk : forall positive sig e s, pkok s ->
    f64_from_parts_s EIO positive sig e s = f64_from_parts_s ESL positive sig e s.
  Proof. unfold f64_from_parts_s. rk_start. Qed.
  Hint Resolve f64_from_parts_s_rk : trk.

  Lemma f64_long_from_parts_s_rk : forall positive integer fraction e s, pkok s ->
    f64_long_from_parts_s EIO positive integer fraction e s = f64_long_from_parts_s ESL positive integer fraction e s.
  Proof. unfold f64_long_from_parts_s. rk_start. Qed.
  Hint Resolve f64_long_from_parts_s_rk : trk.

  Lemma parse_exponent_s_rk : forall positive sig starting_exp s,
    parse_exponent_s EIO positive sig starting_exp s = parse_exponent_s ESL positive sig starting_exp s.
  Proof. unfold parse_exponent_s. rk_start. Qed.
  Hint Resolve parse_exponent_s_rk : trk.

  Lemma parse_long_exponent_s_rk : forall positive integer fraction s,
    parse_long_exponent_s EIO positive integer fraction s = parse_long_exponent_s ESL positive integer fraction s.
  Proof. unfold parse_long_exponent_s. rk_start. Qed.
  Hint Resolve parse_long_exponent_s_rk : trk.

  Lemma parse_long_decimal_s_rk : forall positive integer fraction0 s,
    parse_long_decimal_s EIO positive integer fraction0 s = parse_long_decimal_s ESL positive integer fraction0 s.
  Proof. unfold parse_long_decimal_s. rk_start. Qed.
  Hint Resolve parse_long_decimal_s_rk : trk.

  Lemma parse_decimal_overflow_s_rk : forall positive sig e s,
    parse_decimal_overflow_s EIO positive sig e s = parse_decimal_overflow_s ESL positive sig e s.
  Proof. unfold parse_decimal_overflow_s. rk_start. Qed.
  Hint Resolve parse_decimal_overflow_s_rk : trk.

  Lemma parse_decimal_s_rk : forall positive sig exp_before s,
    parse_decimal_s EIO positive sig exp_before s = parse_decimal_s ESL positive sig exp_before s.
  Proof. unfold parse_decimal_s. rk_start. Qed.
  Hint Resolve parse_decimal_s_rk : trk.

  Lemma parse_long_integer_s_rk : forall positive sig s,
    parse_long_integer_s EIO positive sig s = parse_long_integer_s ESL positive sig s.
  Proof. unfold parse_long_integer_s. rk_start. Qed.
  Hint Resolve parse_long_integer_s_rk : trk.

  Lemma parse_number_s_rk : forall positive sig s,
    parse_number_s EIO positive sig s = parse_number_s ESL positive sig s.
  Proof. unfold parse_number_s. rk_start. Qed.
  Hint Resolve parse_number_s_rk : trk.

  Lemma parse_integer_s_rk : forall positive s,
    parse_integer_s EIO positive s = parse_integer_s ESL positive s.
  Proof. unfold parse_integer_s. rk_start. Qed.
  Hint Resolve parse_integer_s_rk : trk.

  (* ---- [tres]-level leaves ---- *)
  (* `error()` wherever the parser stands: io may be one ahead *)
  Lemma err_idx_close : forall s, err_idx EIO s = err_idx ESL s \/ err_idx EIO s = S (err_idx ESL s).
  Proof.
    intros s. unfold err_idx, is_io. cbn [rk]. destruct (pk s); [right|left]; lia.
  Qed.

  Lemma tclose_error_shift : forall A B (f : A -> B) s c, may_shift c = true ->
    tclose f (lift (@error A EIO s c)) (lift (@error A ESL s c)).
  Proof.
    intros A B f s c Hc. unfold error. cbn [lift tclose]. split; [reflexivity|].
    destruct (err_idx_close s) as [H | H]; [left; exact H | right; split; [exact H | exact Hc]].
  Qed.

  (* invalid_type(..) then fix_position, and fix_position itself *)
  Lemma tclose_it : forall A B (f : A -> B) k s,
    tclose f (@TErr A (Message k) (err_idx EIO s)) (@TErr A (Message k) (err_idx ESL s)).
  Proof.
    intros A B f k s. cbn [tclose]. split; [reflexivity|].
    destruct (err_idx_close s) as [H | H]; [left; exact H | right; split; [exact H | reflexivity]].
  Qed.

  Lemma tclose_fix : forall A B (f : A -> B) r1 r2,
    tclose f r1 r2 -> tclose f (fix_position EIO r1) (fix_position ESL r2).
  Proof.
    intros A B f r1 r2 H. destruct r1, r2; cbn [tclose] in H; try contradiction; cbn [fix_position]; try exact H.
    destruct H as [-> ->]. apply tclose_it.
  Qed.

  Lemma tclose_let_str : forall C D (g : C -> D) s (k1 k2 : bytes * bool * st -> tres C),
    (forall a f1 f2 s', tclose g (k1 (a, f1, s')) (k2 (a, f2, s'))) ->
    tclose g (tbind (lift (parse_str EIO s)) k1) (tbind (lift (parse_str ESL s)) k2).
  Proof.
    intros C D g s k1 k2 Hk. pose proof (str_agree s) as Hs.
    destruct (parse_str EIO s) as [[[a f1] s1]|c i| |];
      destruct (parse_str ESL s) as [[[a' f2] s2]|c' i'| |];
      cbn [RkIndep.drop_flag] in Hs; try discriminate Hs; cbn [lift tbind].
    - inversion Hs; subst. apply Hk.
    - inversion Hs; subst. apply tclose_refl.
    - exact I.
    - exact I.
  Qed.

  Lemma tclose_let_str_raw : forall C D (g : C -> D) s (k1 k2 : bytes * bool * st -> tres C),
    (forall a f1 f2 s', tclose g (k1 (a, f1, s')) (k2 (a, f2, s'))) ->
    tclose g (tbind (lift (parse_str_raw EIO s)) k1) (tbind (lift (parse_str_raw ESL s)) k2).
  Proof.
    intros C D g s k1 k2 Hk. pose proof (str_raw_agree s) as Hs.
    destruct (parse_str_raw EIO s) as [[[a f1] s1]|c i| |];
      destruct (parse_str_raw ESL s) as [[[a' f2] s2]|c' i'| |];
      cbn [RkIndep.drop_flag] in Hs; try discriminate Hs; cbn [lift tbind].
    - inversion Hs; subst. apply Hk.
    - inversion Hs; subst. apply tclose_refl.
    - exact I.
    - exact I.
  Qed.

  (* ---- automation for [tclose] goals: descend through let^ / fix_position / matches on a common
          scrutinee; leaves are closed from the database, by reflexivity, or as shiftable errors ---- *)
  Ltac tc_eq := solve [ reflexivity | eauto 6 with trk nocore ].

  Ltac tc :=
    cbv beta iota zeta; cbn [Read.cf Read.rk];
    lazymatch goal with
    | |- tclose _ ?l ?r =>
      first
        [ constr_eq l r; apply tclose_refl
        | lazymatch l with
          | tbind (lift (parse_str _ _)) _ =>
            apply tclose_let_str;
            let a := fresh "a" in let f1 := fresh "f1" in let f2 := fresh "f2" in let s' := fresh "s'" in
            intros a f1 f2 s'; tc
          | tbind (lift (parse_str_raw _ _)) _ =>
            apply tclose_let_str_raw;
            let a := fresh "a" in let f1 := fresh "f1" in let f2 := fresh "f2" in let s' := fresh "s'" in
            intros a f1 f2 s'; tc
          | tbind (lift _) _ =>
            apply tclose_let;
            [ tc_eq
            | let a := fresh "a" in let Ha := fresh "Ha" in intros a Ha; split_pairs; tc ]
          | fix_position _ _ => apply tclose_fix; tc
          | lift (error _ _ _) =>
            first [ apply tclose_lift; tc_eq | apply tclose_error_shift; reflexivity ]
          | lift _ => first [ apply tclose_lift; tc_eq | idtac ]
          | TErr (Message _) (err_idx _ _) => apply tclose_it
          | match ?x with _ => _ end =>
            lazymatch r with
            | match ?y with _ => _ end => first [ constr_eq x y; destr_scrut x; tc | idtac ]
            | _ => idtac
            end
          | _ => idtac
          end ]
    end.

  (* ---- peek_invalid_type ---- *)
  Lemma peek_invalid_type_close : forall A B (f : A -> B) s, pkok s ->
    tclose f (@peek_invalid_type A EIO s) (@peek_invalid_type A ESL s).
  Proof.
    intros A B f s Hp. unfold peek_invalid_type. norm.
    assert (Hbody : forall b s0, pkok s0 ->
      tclose f
        (let it (s' : st) : tres A := TErr (Message MInvalidType) (err_idx EIO s') in
         if b =? 110 then let^ s2 := parse_ident EIO lit_ull (discard s0) in it s2
         else if b =? 116 then let^ s2 := parse_ident EIO lit_rue (discard s0) in it s2
         else if b =? 102 then let^ s2 := parse_ident EIO lit_alse (discard s0) in it s2
         else if b =? 45 then let^ (_, s2) := parse_any_number EIO false (discard s0) in it s2
         else if is_digit b then let^ (_, s2) := parse_any_number EIO true s0 in it s2
         else if b =? 34 then let^ (_, s2) := parse_str EIO (discard s0) in it s2
         else if (b =? 91) || (b =? 123) then it s0
         else lift (peek_error EIO s0 ExpectedSomeValue))
        (let it (s' : st) : tres A := TErr (Message MInvalidType) (err_idx ESL s') in
         if b =? 110 then let^ s2 := parse_ident ESL lit_ull (discard s0) in it s2
         else if b =? 116 then let^ s2 := parse_ident ESL lit_rue (discard s0) in it s2
         else if b =? 102 then let^ s2 := parse_ident ESL lit_alse (discard s0) in it s2
         else if b =? 45 then let^ (_, s2) := parse_any_number ESL false (discard s0) in it s2
         else if is_digit b then let^ (_, s2) := parse_any_number ESL true s0 in it s2
         else if b =? 34 then let^ (_, s2) := parse_str ESL (discard s0) in it s2
         else if (b =? 91) || (b =? 123) then it s0
         else lift (peek_error ESL s0 ExpectedSomeValue))).
    { intros b s0 Hp0. tc. }
    destruct (peek_or_null ESL s) as [[b s0]|c i| |] eqn:Hpn.
    - apply Hbody. eapply peek_or_null_post; exact Hpn.
    - apply Hbody; exact Hp.
    - apply Hbody; exact Hp.
    - apply Hbody; exact Hp.
  Qed.

  Lemma peek_invalid_type_post : forall A (P : A -> Prop) E s, tpost P (@peek_invalid_type A E s).
  Proof.
    intros A P E s. unfold peek_invalid_type.
    destruct (match peek_or_null E s with Ok (b, s') => (b, s') | _ => (0, s) end) as [b s0].
    cbv zeta.
    repeat match goal with
           | |- tpost _ (if ?c then _ else _) => destruct c
           end;
      try (apply tpost_tbind; intros; split_pairs; exact I).
    - exact I.
    - unfold peek_error. exact I.
  Qed.

  (* ---- scalar requests ---- *)
  Lemma deserialize_number_close : forall visit s,
    tclose ust (deserialize_number EIO visit s) (deserialize_number ESL visit s).
  Proof.
    intros visit s. unfold deserialize_number. tc.
    apply peek_invalid_type_close. eauto with trk.
  Qed.

  Lemma deserialize_number_s_close : forall visit s,
    tclose ust (deserialize_number_s EIO visit s) (deserialize_number_s ESL visit s).
  Proof.
    intros visit s. unfold deserialize_number_s. tc.
    apply peek_invalid_type_close. eauto with trk.
  Qed.

  Lemma deserialize_f32_close : forall s, tclose ust (deserialize_f32 EIO s) (deserialize_f32 ESL s).
  Proof.
    intros s. unfold deserialize_f32. cbn [Read.cf].
    destruct (float_roundtrip c0); [apply deserialize_number_s_close | apply deserialize_number_close].
  Qed.

  Lemma deserialize_i128_close : forall s, tclose ust (deserialize_i128 EIO s) (deserialize_i128 ESL s).
  Proof. intros s. unfold deserialize_i128. tc. Qed.

  Lemma deserialize_u128_close : forall s, tclose ust (deserialize_u128 EIO s) (deserialize_u128 ESL s).
  Proof. intros s. unfold deserialize_u128. tc. Qed.

  Lemma deserialize_int_close : forall t s, tclose ust (deserialize_int EIO t s) (deserialize_int ESL t s).
  Proof.
    intros t s. unfold deserialize_int.
    destruct t; first [apply deserialize_i128_close | apply deserialize_u128_close | apply deserialize_number_close].
  Qed.

  Lemma deserialize_bool_close : forall s, tclose ust (deserialize_bool EIO s) (deserialize_bool ESL s).
  Proof.
    intros s. unfold deserialize_bool. tc.
    apply peek_invalid_type_close. eauto with trk.
  Qed.

  Lemma deserialize_unit_close : forall s, tclose ust (deserialize_unit EIO s) (deserialize_unit ESL s).
  Proof.
    intros s. unfold deserialize_unit. tc.
    apply peek_invalid_type_close. eauto with trk.
  Qed.

  Lemma deserialize_str_close : forall A B (f : A -> B) (visit : bytes -> bool -> st -> tres A) s,
    (forall str b1 b2 s', tclose f (visit str b1 s') (visit str b2 s')) ->
    tclose f (deserialize_str EIO visit s) (deserialize_str ESL visit s).
  Proof.
    intros A B f visit s Hv. unfold deserialize_str. tc.
    - apply Hv.
    - apply peek_invalid_type_close. eauto with trk.
  Qed.

  Lemma deserialize_str_post : forall A (P : A -> Prop) E (visit : bytes -> bool -> st -> tres A) s,
    (forall str b s', tpost P (visit str b s')) -> tpost P (deserialize_str E visit s).
  Proof.
    intros A P E visit s Hv. unfold deserialize_str.
    apply tpost_tbind. intros [o s1]. destruct o as [b|]; [|unfold peek_error; exact I].
    apply tpost_fix. destruct (b =? 34).
    - apply tpost_tbind. intros [[str bo] s2]. apply Hv.
    - apply peek_invalid_type_post.
  Qed.

  Lemma deserialize_raw_close : forall s, tclose ust (deserialize_raw EIO s) (deserialize_raw ESL s).
  Proof. intros s. unfold deserialize_raw. tc. Qed.

  Lemma visit_string_close : forall str b1 b2 s, tclose ust (visit_string str b1 s) (visit_string str b2 s).
  Proof. intros. cbn [visit_string tclose]. reflexivity. Qed.

  Lemma visit_char_close : forall str b1 b2 s, tclose ust (visit_char str b1 s) (visit_char str b2 s).
  Proof. intros. apply tclose_refl. Qed.

  Lemma visit_variant_close : forall A (vs : list (bytes * A)) str b1 b2 s,
    tclose (fun x => x) (visit_variant vs str b1 s) (visit_variant vs str b2 s).
  Proof. intros. apply tclose_refl. Qed.

  Lemma visit_variant_post : forall A (vs : list (bytes * A)) str b s,
    tpost (fun r => exists i, index_of (fst (fst r)) vs = Some (i, snd (fst r))) (visit_variant vs str b s).
  Proof.
    intros A vs str b s. unfold visit_variant.
    destruct (index_of str vs) as [[i a]|] eqn:Hi; cbn [tpost fst snd]; [exists i; exact Hi | exact I].
  Qed.

  (* ---- containers ---- *)
  Lemma end_seq_st_rk : forall s, end_seq_st EIO s = end_seq_st ESL s.
  Proof. reflexivity. Qed.
  Lemma end_map_st_rk : forall s, end_map_st EIO s = end_map_st ESL s.
  Proof. reflexivity. Qed.

  Lemma frame_close : forall A B (g : A -> B) (endf : env -> st -> res st) (endst : env -> st -> st)
      (body1 body2 : st -> tres (A * st)) s1,
    pkok s1 ->
    (forall s, endf EIO s = endf ESL s) -> (forall s, endst EIO s = endst ESL s) ->
    (forall s, tclose (onfst g) (body1 s) (body2 s)) ->
    tclose (onfst g) (frame EIO endf endst body1 s1) (frame ESL endf endst body2 s1).
  Proof.
    intros A B g endf endst body1 body2 s1 Hp Hendf Hendst Hbody. unfold frame.
    apply tclose_let; [apply enter_rk; exact Hp|]. intros s2 He.
    specialize (Hbody (discard s2)).
    destruct (body1 (discard s2)) as [[a s3]|c i|k s3| |], (body2 (discard s2)) as [[a' s3']|c' i'|k' s3'| |];
      cbn [tclose] in Hbody; try contradiction.
    - unfold onfst in Hbody; cbn [fst snd] in Hbody. inversion Hbody as [[Hg Hs]]. subst s3'.
      apply tclose_let; [reflexivity|]. intros s4 Hl.
      apply tclose_let; [apply Hendf|]. intros s5 Hend.
      cbn [tclose]. unfold onfst; cbn [fst snd]. rewrite Hg. reflexivity.
    - exact Hbody.
    - destruct Hbody as [Hk Hs]. subst k' s3'.
      apply tclose_let; [reflexivity|]. intros s4 Hl.
      cbn [tclose]. split; [reflexivity|apply Hendst].
    - exact I.
    - exact I.
  Qed.

  Lemma deserialize_seq_close : forall A B (g : A -> B) (body1 body2 : st -> tres (A * st)) s,
    (forall s', tclose (onfst g) (body1 s') (body2 s')) ->
    tclose (onfst g) (deserialize_seq EIO body1 s) (deserialize_seq ESL body2 s).
  Proof.
    intros A B g body1 body2 s Hb. unfold deserialize_seq. tc.
    - apply frame_close; [eauto with trk | apply end_seq_rk | apply end_seq_st_rk | exact Hb].
    - apply peek_invalid_type_close. eauto with trk.
  Qed.

  Lemma deserialize_map_close : forall A B (g : A -> B) (body1 body2 : st -> tres (A * st)) s,
    (forall s', tclose (onfst g) (body1 s') (body2 s')) ->
    tclose (onfst g) (deserialize_map EIO body1 s) (deserialize_map ESL body2 s).
  Proof.
    intros A B g body1 body2 s Hb. unfold deserialize_map. tc.
    - apply frame_close; [eauto with trk | apply end_map_rk | apply end_map_st_rk | exact Hb].
    - apply peek_invalid_type_close. eauto with trk.
  Qed.

  Lemma deserialize_struct_close : forall A B (g : A -> B) (bs1 bs2 bm1 bm2 : st -> tres (A * st)) s,
    (forall s', tclose (onfst g) (bs1 s') (bs2 s')) ->
    (forall s', tclose (onfst g) (bm1 s') (bm2 s')) ->
    tclose (onfst g) (deserialize_struct EIO bs1 bm1 s) (deserialize_struct ESL bs2 bm2 s).
  Proof.
    intros A B g bs1 bs2 bm1 bm2 s Hs Hm. unfold deserialize_struct. tc.
    - apply frame_close; [eauto with trk | apply end_seq_rk | apply end_seq_st_rk | exact Hs].
    - apply frame_close; [eauto with trk | apply end_map_rk | apply end_map_st_rk | exact Hm].
    - apply peek_invalid_type_close. eauto with trk.
  Qed.

  Lemma deserialize_enum_close : forall A B (g : A -> B) (bm1 bm2 bu1 bu2 : st -> tres (A * st)) s,
    (forall s', tclose (onfst g) (bm1 s') (bm2 s')) ->
    (forall s', tclose (onfst g) (bu1 s') (bu2 s')) ->
    tclose (onfst g) (deserialize_enum EIO bm1 bu1 s) (deserialize_enum ESL bm2 bu2 s).
  Proof.
    intros A B g bm1 bm2 bu1 bu2 s Hm Hu. unfold deserialize_enum.
    apply tclose_let; [reflexivity|]. intros [o s1] Hw. cbv beta iota.
    destruct o as [b|]; [|tc].
    destruct (b =? 123).
    - apply tclose_let; [eauto with trk|]. intros s2 He.
      specialize (Hm (discard s2)).
      destruct (bm1 (discard s2)) as [[a s3]|c i|k s3| |], (bm2 (discard s2)) as [[a' s3']|c' i'|k' s3'| |];
        cbn [tclose] in Hm; try contradiction.
      + unfold onfst in Hm; cbn [fst snd] in Hm. inversion Hm as [[Hg Hs]]. subst s3'.
        apply tclose_let; [reflexivity|]. intros s4 Hl.
        apply tclose_let; [reflexivity|]. intros [o2 s5] Hw2. cbv beta iota.
        destruct o2 as [c|].
        * destruct (c =? 125); [|tc].
          cbn [tclose]. unfold onfst; cbn [fst snd]. rewrite Hg. reflexivity.
        * tc.
      + exact Hm.
      + destruct Hm as [Hk Hs]. subst k' s3'.
        apply tclose_let; [reflexivity|]. intros s4 Hl.
        cbn [tclose]. split; reflexivity.
      + exact I.
      + exact I.
    - destruct (b =? 34); [apply Hu | tc].
  Qed.

  (* ---- map keys ---- *)
  Lemma numeric_key_close : forall (d1 d2 : st -> tres (dval * st)) s,
    (forall s', tclose ust (d1 s') (d2 s')) ->
    tclose ust (numeric_key EIO d1 s) (numeric_key ESL d2 s).
  Proof.
    intros d1 d2 s Hd. unfold numeric_key. cbv zeta.
    apply tclose_let; [reflexivity|]. intros [o s1] Hpk. cbv beta iota.
    destruct o as [b|]; [|tc].
    destruct (is_digit b || (b =? 45)); [|tc].
    apply (tclose_tbind ust ust _ _ _ _ (Hd s1)).
    intros [da sa] [db sb] Hab. unfold ust, onfst in Hab. cbn [fst snd] in Hab. inversion Hab as [[Hda Hsa]]. subst sb.
    cbv beta iota.
    apply tclose_let; [reflexivity|]. intros [o2 s3] Hpk2. cbv beta iota.
    destruct o2 as [c|]; [|tc].
    destruct (c =? 34); [|tc].
    cbn [tclose]. unfold ust, onfst. cbn [fst snd]. rewrite Hda. reflexivity.
  Qed.

  Lemma key_bool_close : forall s, tclose ust (key_bool EIO s) (key_bool ESL s).
  Proof. intros s. unfold key_bool. tc. Qed.

  (* ---------------------------------------------------------------------------------------- *)
  (** * 5. The seed: simultaneous induction on fuel *)

  Definition P_typed (f : nat) : Prop := forall t s, owned_ty t = true ->
    tclose ust (de_typed f EIO t s) (de_typed f ESL t s).
  Definition P_elems (f : nat) : Prop := forall t first s, owned_ty t = true ->
    tclose ulst (de_elems f EIO t first s) (de_elems f ESL t first s).
  Definition P_tuple (f : nat) : Prop := forall ts first s, forallb owned_ty ts = true ->
    tclose ulst (de_tuple f EIO ts first s) (de_tuple f ESL ts first s).
  Definition P_entries (f : nat) : Prop := forall k v first s, owned_ty v = true ->
    tclose umst (de_entries f EIO k v first s) (de_entries f ESL k v first s).
  Definition P_fields (f : nat) : Prop := forall fields sl1 sl2 first s,
    forallb (fun p => owned_ty (snd p)) fields = true -> uslots sl1 = uslots sl2 ->
    tclose ulst (de_fields f EIO fields sl1 first s) (de_fields f ESL fields sl2 first s).
  Definition P_struct (f : nat) : Prop := forall fields s,
    forallb (fun p => owned_ty (snd p)) fields = true ->
    tclose ust (de_struct f EIO fields s) (de_struct f ESL fields s).
  Definition P_key (f : nat) : Prop := forall k s,
    tclose ust (de_key f EIO k s) (de_key f ESL k s).

  Definition P_all (f : nat) : Prop :=
    P_typed f /\ P_elems f /\ P_tuple f /\ P_entries f /\ P_fields f /\ P_struct f /\ P_key f.

  Lemma tuple_seq_close : forall f, P_tuple f -> forall ts s, forallb owned_ty ts = true ->
    tclose ust (tmap DSeq (deserialize_seq EIO (fun s' => de_tuple f EIO ts true s') s))
               (tmap DSeq (deserialize_seq ESL (fun s' => de_tuple f ESL ts true s') s)).
  Proof.
    intros f IHt ts s Hts.
    apply (tclose_tmap (map unb) unb DSeq).
    - intros a b Hab. cbn [unb]. rewrite Hab. reflexivity.
    - apply deserialize_seq_close. intros s'. apply IHt. exact Hts.
  Qed.

  Lemma de_typed_step : forall f, P_all f -> P_typed (S f).
  Proof.
    intros f (IHty & IHel & IHtu & IHen & IHfi & IHst & IHke) t s Hown.
    destruct t; cbn [de_typed]; cbn [owned_ty] in Hown.
    - (* TValue *) tc.
    - (* TIgnored *) tc.
    - (* TRaw *) apply deserialize_raw_close.
    - (* TBool *) apply deserialize_bool_close.
    - (* TInt *) apply deserialize_int_close.
    - (* TF32 *) apply deserialize_f32_close.
    - (* TF64 *) apply deserialize_number_close.
    - (* TChar *) apply deserialize_str_close. apply visit_char_close.
    - (* TStr *) apply deserialize_str_close. apply visit_string_close.
    - (* TBorrowedStr *) discriminate Hown.
    - (* TBytes *)
      tc.
      + apply (tclose_tmap (map unb) unb (fun l => DBytes (u8s_of l))).
        * intros a b Hab. cbn [unb]. rewrite <- (u8s_of_unb a), <- (u8s_of_unb b), Hab. reflexivity.
        * apply deserialize_seq_close. intros s'0. apply IHel. reflexivity.
      + apply peek_invalid_type_close. eauto with trk.
    - (* TUnit *) apply deserialize_unit_close.
    - (* TUnitStruct *) apply deserialize_unit_close.
    - (* TOption *)
      tc; (apply (tclose_tmap unb unb DSome); [|apply IHty; exact Hown]);
        intros a0 b0 Hab; cbn [unb]; rewrite Hab; reflexivity.
    - (* TNewtype *)
      apply (tclose_tmap unb unb DNewtype); [|apply IHty; exact Hown].
      intros a b Hab. cbn [unb]. rewrite Hab. reflexivity.
    - (* TSeq *)
      apply (tclose_tmap (map unb) unb DSeq).
      + intros a b Hab. cbn [unb]. rewrite Hab. reflexivity.
      + apply deserialize_seq_close. intros s'. apply IHel. exact Hown.
    - (* TTuple *) apply tuple_seq_close; assumption.
    - (* TTupleStruct *) apply tuple_seq_close; assumption.
    - (* TMap *)
      apply (tclose_tmap (map (unbp unb)) unb DMap).
      + intros a b Hab. cbn [unb]. rewrite Hab. reflexivity.
      + apply deserialize_map_close. intros s'. apply IHen. exact Hown.
    - (* TStruct *) apply IHst. exact Hown.
    - (* TEnum *)
      apply deserialize_enum_close.
      + intros s'.
        eapply (tclose_tbind_post (fun x => x) ust).
        * apply deserialize_str_close. apply visit_variant_close.
        * apply deserialize_str_post. intros str b s'0. apply visit_variant_post.
        * intros [[name v] s2] [[name' v'] s2'] Hab [i Hidx]. cbn [fst snd] in Hidx.
          inversion Hab; subst name' v' s2'. clear Hab.
          pose proof (index_of_owned_variant _ _ _ _ Hown Hidx) as Hv.
          cbv beta iota.
          apply tclose_let; [eauto with trk|]. intros s3 Hcolon.
          apply (tclose_tmap unb unb (DVariant name)).
          -- intros a b Hab. cbn [unb]. rewrite Hab. reflexivity.
          -- destruct v as [|t1|ts|fs]; cbn [owned_variant] in Hv.
             ++ apply deserialize_unit_close.
             ++ apply IHty. exact Hv.
             ++ apply tuple_seq_close; assumption.
             ++ apply IHst. exact Hv.
      + intros s'.
        eapply (tclose_tbind (fun x => x) ust).
        * apply deserialize_str_close. apply visit_variant_close.
        * intros [[name v] s2] [[name' v'] s2'] Hab. inversion Hab; subst name' v' s2'. clear Hab.
          cbv beta iota. apply tclose_refl.
  Qed.

  Lemma de_elems_step : forall f, P_all f -> P_elems (S f).
  Proof.
    intros f (IHty & IHel & IHtu & IHen & IHfi & IHst & IHke) t first s Hown.
    cbn [de_elems].
    apply tclose_let; [eauto with trk|]. intros o Hn.
    destruct o as [s1|]; [|apply tclose_refl].
    apply (tclose_tbind ust ulst _ _ _ _ (IHty t s1 Hown)).
    intros [d s2] [d' s2'] Hd. apply onfst_inv in Hd. destruct Hd as [Hd Hs]. subst s2'. cbv beta iota.
    apply (tclose_tbind ulst ulst _ _ _ _ (IHel t false s2 Hown)).
    intros [ds s3] [ds' s3'] Hds. apply onfst_inv in Hds. destruct Hds as [Hds Hs]. subst s3'. cbv beta iota.
    cbn [tclose]. unfold ulst, onfst. cbn [fst snd map]. rewrite Hd, Hds. reflexivity.
  Qed.

  Lemma de_tuple_step : forall f, P_all f -> P_tuple (S f).
  Proof.
    intros f (IHty & IHel & IHtu & IHen & IHfi & IHst & IHke) ts first s Hown.
    cbn [de_tuple]. destruct ts as [|t ts']; [apply tclose_refl|].
    cbn [forallb] in Hown. apply andb_prop in Hown. destruct Hown as [Ht Hts].
    apply tclose_let; [eauto with trk|]. intros o Hn.
    destruct o as [s1|]; [|apply tclose_refl].
    apply (tclose_tbind ust ulst _ _ _ _ (IHty t s1 Ht)).
    intros [d s2] [d' s2'] Hd. apply onfst_inv in Hd. destruct Hd as [Hd Hs]. subst s2'. cbv beta iota.
    apply (tclose_tbind ulst ulst _ _ _ _ (IHtu ts' false s2 Hts)).
    intros [ds s3] [ds' s3'] Hds. apply onfst_inv in Hds. destruct Hds as [Hds Hs]. subst s3'. cbv beta iota.
    cbn [tclose]. unfold ulst, onfst. cbn [fst snd map]. rewrite Hd, Hds. reflexivity.
  Qed.

  Lemma de_entries_step : forall f, P_all f -> P_entries (S f).
  Proof.
    intros f (IHty & IHel & IHtu & IHen & IHfi & IHst & IHke) k v first s Hown.
    cbn [de_entries].
    apply tclose_let; [eauto with trk|]. intros o Hn.
    destruct o as [s1|]; [|apply tclose_refl].
    apply (tclose_tbind ust umst _ _ _ _ (IHke k s1)).
    intros [kd s2] [kd' s2'] Hkd. apply onfst_inv in Hkd. destruct Hkd as [Hkd Hs]. subst s2'. cbv beta iota.
    apply tclose_let; [eauto with trk|]. intros s3 Hcolon.
    apply (tclose_tbind ust umst _ _ _ _ (IHty v s3 Hown)).
    intros [vd s4] [vd' s4'] Hvd. apply onfst_inv in Hvd. destruct Hvd as [Hvd Hs]. subst s4'. cbv beta iota.
    apply (tclose_tbind umst umst _ _ _ _ (IHen k v false s4 Hown)).
    intros [es s5] [es' s5'] Hes. apply onfst_inv in Hes. destruct Hes as [Hes Hs]. subst s5'. cbv beta iota.
    cbn [tclose]. unfold umst, onfst. cbn [fst snd map unbp]. rewrite Hkd, Hvd, Hes. reflexivity.
  Qed.

  Lemma de_fields_step : forall f, P_all f -> P_fields (S f).
  Proof.
    intros f (IHty & IHel & IHtu & IHen & IHfi & IHst & IHke) fields sl1 sl2 first s Hown Hsl.
    cbn [de_fields].
    apply tclose_let; [eauto with trk|]. intros o Hn.
    destruct o as [s1|].
    - apply tclose_let_str. intros name fl1 fl2 s2. cbv beta iota.
      destruct (index_of name fields) as [[i t]|] eqn:Hidx.
      + assert (Hfilled : slot_filled i sl1 = slot_filled i sl2).
        { rewrite <- (slot_filled_unb i sl1), <- (slot_filled_unb i sl2), Hsl. reflexivity. }
        rewrite Hfilled. destruct (slot_filled i sl2); [cbn [tclose]; split; reflexivity|].
        apply tclose_let; [eauto with trk|]. intros s3 Hcolon.
        pose proof (index_of_owned owned_ty _ _ _ _ Hown Hidx) as Ht.
        apply (tclose_tbind ust ulst _ _ _ _ (IHty t s3 Ht)).
        intros [d s4] [d' s4'] Hd. apply onfst_inv in Hd. destruct Hd as [Hd Hs]. subst s4'. cbv beta iota.
        apply IHfi; [exact Hown|]. rewrite !set_slot_unb, Hd, Hsl. reflexivity.
      + apply tclose_let; [eauto with trk|]. intros s3 Hcolon.
        apply tclose_let; [eauto with trk|]. intros s4 Hig.
        apply IHfi; assumption.
    - apply (tclose_tbind (map unb) ulst _ _ _ _ (finish_struct_close fields sl1 sl2 s Hsl)).
      intros ds ds' Hds. cbn [tclose]. unfold ulst, onfst. cbn [fst snd]. rewrite Hds. reflexivity.
  Qed.

  Lemma de_struct_step : forall f, P_all f -> P_struct (S f).
  Proof.
    intros f (IHty & IHel & IHtu & IHen & IHfi & IHst & IHke) fields s Hown.
    cbn [de_struct].
    apply (tclose_tmap (map unb) unb DStruct).
    - intros a b Hab. cbn [unb]. rewrite Hab. reflexivity.
    - apply deserialize_struct_close.
      + intros s'. apply IHtu. rewrite forallb_map_snd. exact Hown.
      + intros s'. apply IHfi; [exact Hown|reflexivity].
  Qed.

  Lemma de_key_step : forall f, P_all f -> P_key (S f).
  Proof.
    intros f (IHty & IHel & IHtu & IHen & IHfi & IHst & IHke) k s.
    destruct k; cbn [de_key].
    - (* KStr *) apply tclose_let_str. intros a f1 f2 s'. apply visit_string_close.
    - (* KInt *) apply numeric_key_close. intros s'. apply deserialize_int_close.
    - (* KBool *) apply key_bool_close.
    - (* KChar *) apply tclose_let_str. intros a f1 f2 s'. apply visit_char_close.
    - (* KF32 *) apply numeric_key_close. intros s'. apply deserialize_f32_close.
    - (* KF64 *) apply numeric_key_close. intros s'. apply deserialize_number_close.
    - (* KOption *)
      apply (tclose_tmap unb unb DSome); [|apply IHke].
      intros a b Hab. cbn [unb]. rewrite Hab. reflexivity.
    - (* KNewtype *)
      apply (tclose_tmap unb unb DNewtype); [|apply IHke].
      intros a b Hab. cbn [unb]. rewrite Hab. reflexivity.
    - (* KUnitEnum *)
      cbv zeta. apply deserialize_enum_close.
      + intros s'. exact I.
      + intros s'.
        eapply (tclose_tbind (fun x => x) ust).
        * apply deserialize_str_close. apply visit_variant_close.
        * intros [[name v] s2] [[name' v'] s2'] Hab. inversion Hab; subst name' v' s2'.
          cbv beta iota. apply tclose_refl.
  Qed.

  Lemma P_all_holds : forall f, P_all f.
  Proof.
    induction f as [|f IH].
    - repeat split; red; intros; exact I.
    - split; [apply de_typed_step; exact IH|].
      split; [apply de_elems_step; exact IH|].
      split; [apply de_tuple_step; exact IH|].
      split; [apply de_entries_step; exact IH|].
      split; [apply de_fields_step; exact IH|].
      split; [apply de_struct_step; exact IH|].
      apply de_key_step; exact IH.
  Qed.

  Lemma de_typed_close : forall fuel t s, owned_ty t = true ->
    tclose ust (de_typed fuel EIO t s) (de_typed fuel ESL t s).
  Proof. intros fuel. apply (P_all_holds fuel). Qed.

  Lemma de_key_close : forall fuel k s, tclose ust (de_key fuel EIO k s) (de_key fuel ESL k s).
  Proof. intros fuel. apply (P_all_holds fuel). Qed.

  Lemma from_input_typed_close : forall t bs, owned_ty t = true ->
    tclose unb (from_input_typed EIO t bs) (from_input_typed ESL t bs).
  Proof.
    intros t bs Hown. unfold from_input_typed.
    apply (tclose_tbind ust unb _ _ _ _ (de_typed_close (typed_fuel t bs) t (init_st bs) Hown)).
    intros [d s1] [d' s1'] Hd. apply onfst_inv in Hd. destruct Hd as [Hd Hs]. subst s1'. cbv beta iota.
    apply tclose_let; [apply de_end_rk|]. intros s2 Hend. cbn [tclose]. exact Hd.
  Qed.

End TypedRk.

(* ------------------------------------------------------------------------------------------ *)
(** * 6. Main theorems *)

(* strong form: an error index may be one larger on io only for a code in [may_shift] *)
Theorem de_typed_rk_strong : forall cf fuel t s, owned_ty t = true ->
  tclose (fun p : dval * st => (unb (fst p), snd p)) (de_typed fuel (Eio cf) t s) (de_typed fuel (Esl cf) t s).
Proof. intros cf fuel t s H. exact (de_typed_close cf fuel t s H). Qed.

Theorem de_key_rk_strong : forall cf fuel k s,
  tclose (fun p : dval * st => (unb (fst p), snd p)) (de_key fuel (Eio cf) k s) (de_key fuel (Esl cf) k s).
Proof. intros cf fuel k s. exact (de_key_close cf fuel k s). Qed.

Theorem from_input_typed_rk_strong : forall cf t bs, owned_ty t = true ->
  tclose unb (from_input_typed (Eio cf) t bs) (from_input_typed (Esl cf) t bs).
Proof. intros cf t bs H. exact (from_input_typed_close cf t bs H). Qed.

(* results agree (values modulo the Borrowed/Copied flag, final reader states equal) up to the error index,
   which may differ by at most one (io >= slice) *)
Theorem de_typed_rk : forall cf fuel t s, owned_ty t = true ->
  tres_close (fun p : dval * st => (unb (fst p), snd p)) (de_typed fuel (Eio cf) t s) (de_typed fuel (Esl cf) t s).
Proof. intros cf fuel t s H. apply tclose_weaken. apply de_typed_rk_strong. exact H. Qed.

Theorem from_input_typed_rk : forall cf t bs, owned_ty t = true ->
  tres_close unb (from_input_typed (Eio cf) t bs) (from_input_typed (Esl cf) t bs).
Proof. intros cf t bs H. apply tclose_weaken. apply from_input_typed_rk_strong. exact H. Qed.

(* an error whose code cannot shift — in particular every Eof-category error — has the same index on both sources *)
Theorem from_input_typed_rk_noshift : forall cf t bs c i, owned_ty t = true ->
  from_input_typed (Esl cf) t bs = TErr c i -> may_shift c = false ->
  from_input_typed (Eio cf) t bs = TErr c i.
Proof.
  intros cf t bs c i Hown Hsl Hc.
  pose proof (from_input_typed_rk_strong cf t bs Hown) as H. rewrite Hsl in H.
  destruct (from_input_typed (Eio cf) t bs) as [a|c' i'|k s| |]; cbn [tclose] in H; try contradiction.
  destruct H as [-> [-> | [_ Hs]]]; [reflexivity|]. rewrite Hs in Hc. discriminate Hc.
Qed.

Theorem from_input_typed_rk_eof : forall cf t bs c i, owned_ty t = true ->
  from_input_typed (Esl cf) t bs = TErr c i -> category c = CatEof ->
  from_input_typed (Eio cf) t bs = TErr c i.
Proof.
  intros cf t bs c i Hown Hsl Hc. apply from_input_typed_rk_noshift; [exact Hown|exact Hsl|].
  destruct (may_shift c) eqn:Hs; [|reflexivity].
  exfalso. exact (may_shift_not_eof c Hs Hc).
Qed.

(* and conversely: an Eof-category error on io is the same error on the slice *)
Theorem from_input_typed_rk_eof_io : forall cf t bs c i, owned_ty t = true ->
  from_input_typed (Eio cf) t bs = TErr c i -> category c = CatEof ->
  from_input_typed (Esl cf) t bs = TErr c i.
Proof.
  intros cf t bs c i Hown Hio Hc.
  pose proof (from_input_typed_rk_strong cf t bs Hown) as H. rewrite Hio in H.
  destruct (from_input_typed (Esl cf) t bs) as [a|c' i'|k s| |]; cbn [tclose] in H; try contradiction.
  destruct H as [<- [-> | [_ Hs]]]; [reflexivity|].
  exfalso. exact (may_shift_not_eof c Hs Hc).
Qed.

(* ------------------------------------------------------------------------------------------ *)
(** * 7. Witnesses: the shift happens, and the two built-in restrictions are necessary *)

Definition cfg0 := mkCfg false false false false.

(* i128 out of range inside a sequence: `[340282366920938463463374607431768211456]` *)
Example shift_i128 :
  let bs := [91] ++ [51;52;48;50;56;50;51;54;54;57;50;48;57;51;56;52;54;51;52;54;51;51;55;52;54;48;55;52;51;49;55;54;56;50;49;49;52;53;54] ++ [93] in
  from_input_typed (Eio cfg0) (TSeq (TInt I128)) bs = TErr NumberOutOfRange 41 /\
  from_input_typed (Esl cfg0) (TSeq (TInt I128)) bs = TErr NumberOutOfRange 40.
Proof. vm_compute. split; reflexivity. Qed.

(* enum `{"V":1 x` *)
Example shift_enum :
  let bs := [123;34;86;34;58;49;32;120] in
  from_input_typed (Eio cfg0) (TEnum [([86], VNewtype (TInt I32))]) bs = TErr ExpectedSomeValue 8 /\
  from_input_typed (Esl cfg0) (TEnum [([86], VNewtype (TInt I32))]) bs = TErr ExpectedSomeValue 7.
Proof. vm_compute. split; reflexivity. Qed.

(* struct field type mismatch `{"a":[1]}` into struct { a: i32 }: invalid_type positioned with `[` peeked *)
Example shift_message :
  let bs := [123;34;97;34;58;91;49;93;125] in
  from_input_typed (Eio cfg0) (TStruct [([97], TInt I32)]) bs = TErr (Message MInvalidType) 6 /\
  from_input_typed (Esl cfg0) (TStruct [([97], TInt I32)]) bs = TErr (Message MInvalidType) 5.
Proof. vm_compute. split; reflexivity. Qed.

(* numeric map key `{"x":true}` into a map with i32 keys *)
Example shift_numeric_key :
  let bs := [123;34;120;34;58;116;114;117;101;125] in
  from_input_typed (Eio cfg0) (TMap (KInt I32) TBool) bs = TErr ExpectedNumericKey 3 /\
  from_input_typed (Esl cfg0) (TMap (KInt I32) TBool) bs = TErr ExpectedNumericKey 2.
Proof. vm_compute. split; reflexivity. Qed.

(* restriction 1: the Borrowed/Copied flag *)
Example borrowed_flag_differs :
  from_input_typed (Eio cfg0) TStr [34;97;34] = TOk (DStr [97] false) /\
  from_input_typed (Esl cfg0) TStr [34;97;34] = TOk (DStr [97] true).
Proof. vm_compute. split; reflexivity. Qed.

(* restriction 2: &str targets *)
Example borrowed_str_counterexample :
  from_input_typed (Eio cfg0) TBorrowedStr [34;97;34] = TErr (Message MInvalidType) 3 /\
  from_input_typed (Esl cfg0) TBorrowedStr [34;97;34] = TOk (DStr [97] true).
Proof. vm_compute. split; reflexivity. Qed.

Example borrowed_str_counterexample_eof :
  from_input_typed (Eio cfg0) (TSeq TBorrowedStr) [91;34;97;34] = TErr (Message MInvalidType) 4 /\
  from_input_typed (Esl cfg0) (TSeq TBorrowedStr) [91;34;97;34] = TErr EofWhileParsingList 4.
Proof. vm_compute. split; reflexivity. Qed.

Print Assumptions de_typed_rk_strong.
Print Assumptions de_key_rk_strong.
Print Assumptions from_input_typed_rk_strong.
Print Assumptions de_typed_rk.
Print Assumptions from_input_typed_rk.
Print Assumptions from_input_typed_rk_noshift.
Print Assumptions from_input_typed_rk_eof.
Print Assumptions from_input_typed_rk_eof_io.
