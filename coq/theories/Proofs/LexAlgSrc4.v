(* Proofs/LexAlgSrc4.v — part 4 of Proofs/LexAlgSrc.v: the hand model Model/Lex.v is the translated source (Gen/LexAlgTables.v) for

       errors.rs     u64::{error_scale, error_halfscale, error_is_accurate}  nearest_error_is_accurate
       num.rs        Float::is_special
       algorithm.rs  fast_path  multiply_exponent_extended  moderate_path  fallback_path

   and the exported conjunction [lexical_algorithm_is_translated_source].  See the header of Proofs/LexAlgSrc.v for the shape of the statements. *)
From Coq Require Import String ZArith NArith List Bool Lia ZifyBool ZifyNat ZifyN.
From Flocq Require Import Core BinarySingleNaN.
From SJ Require Import Base.Bytes Base.FloatB Gen.LexTables Model.Num Model.Lex Model.LexAlgAst Gen.LexAlgTables Model.LexAlgEnv.
From SJ Require Import Proofs.LexExt Proofs.LexAlgSrc Proofs.LexAlgSrc2 Proofs.LexAlgSrc3.
Import ListNotations.
Local Open Scope string_scope.
Local Open Scope list_scope.
Local Open Scope Z_scope.

Ltac Zify.zify_post_hook ::= idtac.

#[local] Arguments ef_normalize : simpl never.
#[local] Arguments ef_mul : simpl never.
#[local] Arguments error_is_accurate : simpl never.
#[local] Arguments nearest_error_is_accurate : simpl never.
#[local] Arguments lower_n_mask : simpl never.
#[local] Arguments lower_n_halfway : simpl never.
#[local] Arguments ef_into_float : simpl never.
#[local] Arguments ef_into_downward_float : simpl never.
#[local] Arguments bhcomp : simpl never.
#[local] Arguments Bmult : simpl never.
#[local] Arguments Bdiv : simpl never.
#[local] Arguments b64_of_Z : simpl never.
#[local] Arguments b32_of_Z : simpl never.
#[local] Arguments bits_of_b64 : simpl never.
#[local] Arguments bits_of_b32 : simpl never.
#[local] Arguments shl : simpl never.
#[local] Arguments shr : simpl never.

(* ================================================================================================ *)
(** * errors.rs *)
Section Errors.
Variable G : genv.

Theorem error_scale_src : forall f, (1 <= f)%nat -> call f G "u64::error_scale" [] = Ok (VInt U32 (Z.of_N ERROR_SCALE), []).
Proof. intros f Hf. do 1 fuel1. enter LA_u64_error_scale. step. reflexivity. Qed.

Theorem error_halfscale_src : forall f, (2 <= f)%nat -> call f G "u64::error_halfscale" [] = Ok (VInt U32 (Z.of_N ERROR_HALFSCALE), []).
Proof.
  intros f Hf. do 2 fuel1. enter LA_u64_error_halfscale. step.
  pcall LA_u64_error_scale. rewrite error_scale_src by lia. reflexivity.
Qed.

Lemma wrapping_sub_N h e : (h < two64N)%N -> (e < two64N)%N ->
  wrap U64 (Z.of_N h - Z.of_N e) = Z.of_N ((h + two64N - e) mod two64N).
Proof.
  intros Hh He. unfold wrap. cbn [ity_lo ity_mod]. rewrite N2Z.inj_mod, N2Z.inj_sub, N2Z.inj_add by (unfold two64N in *; lia).
  change (Z.of_N two64N) with 18446744073709551616. rewrite Z.sub_0_r, Z.add_0_r.
  replace (Z.of_N h + 18446744073709551616 - Z.of_N e) with (Z.of_N h - Z.of_N e + 1 * 18446744073709551616) by lia.
  rewrite Z.mod_add by lia. reflexivity.
Qed.
Lemma wrapping_add_N h e : wrap U64 (Z.of_N h + Z.of_N e) = Z.of_N ((h + e) mod two64N).
Proof.
  unfold wrap. cbn [ity_lo ity_mod]. rewrite N2Z.inj_mod, N2Z.inj_add. rewrite Z.sub_0_r, Z.add_0_r. reflexivity.
Qed.

Lemma lower_n_mask_lt n : 0 <= n <= 64 -> (lower_n_mask n < two64N)%N.
Proof. intros H. pose proof (lower_n_mask_Z n H). assert (0 < 2 ^ n <= 2 ^ 64) by (split; [apply Z.pow_pos_nonneg; lia | apply Z.pow_le_mono_r; lia]).
  change (2 ^ 64) with 18446744073709551616 in *. unfold two64N. lia. Qed.
Lemma lower_n_halfway_lt n : 0 <= n <= 64 -> (lower_n_halfway n < two64N)%N.
Proof.
  intros H. pose proof (lower_n_halfway_Z n H) as Hz. destruct (n =? 0) eqn:E; [unfold two64N; lia|].
  assert (0 < 2 ^ (n - 1) < 2 ^ 64) by (split; [apply Z.pow_pos_nonneg; lia | apply Z.pow_lt_mono_r; lia]).
  change (2 ^ 64) with 18446744073709551616 in *. unfold two64N. lia.
Qed.

Theorem nearest_error_is_accurate_src : forall (errors : N) fp extrabits f, (errors < two64N)%N -> ef_ok fp -> 0 <= extrabits <= 65 ->
  (8 <= f)%nat ->
  call f G "nearest_error_is_accurate" [VInt U64 (Z.of_N errors); ef_val fp; VInt U64 extrabits] =
  Ok (VB (nearest_error_is_accurate errors fp extrabits), []).
Proof.
  intros errors [m e] x f Herr Hok Hx Hf. pose proof Hok as [Hm He]. cbn [mant exp] in *. do 2 fuel1. enter LA_nearest_error_is_accurate.
  unfold nearest_error_is_accurate. cbn [mant exp]. step.
  destruct (x =? 65) eqn:E; cbn.
  - unfold exec_scope. step. unfold in_range. cbn [ity_lo ity_hi]. unfold two64N in *.
    f_equal. f_equal. f_equal. lia.
  - unfold exec_scope. step. pcall LA_lower_n_mask. rewrite lower_n_mask_src by lia. cbn.
    step. unfold nbits. rewrite !N2Z.id.
    step. pcall LA_lower_n_halfway. rewrite lower_n_halfway_src by lia. cbn.
    pose proof (lower_n_halfway_lt x ltac:(lia)) as Hh.
    step. rewrite wrapping_sub_N by assumption. rewrite ltb_N.
    step. rewrite wrapping_add_N. rewrite ltb_N.
    repeat step. destruct (_ <? _)%N; cbn; reflexivity.
Qed.

End Errors.

Section ErrorsK.
Variable k : fkind.
Notation G := (lex_genv k).

Theorem error_is_accurate_src : forall (count : N) fp f, (count < two32N)%N -> ef_ok fp -> (10 <= f)%nat ->
  call f G "u64::error_is_accurate" [VInt U32 (Z.of_N count); ef_val fp] = Ok (VB (error_is_accurate k count fp), []).
Proof.
  intros count [m e] f Hc Hok Hf. pose proof Hok as [Hm He]. cbn [mant exp] in *. unfold two32N in Hc. do 2 fuel1. enter LA_u64_error_is_accurate.
  unfold error_is_accurate. cbn [mant exp]. unfold i32_ok in He.
  destruct k; consts.
  - step; consts. step; consts. step; consts.
    destruct (e <=? -1086) eqn:E1; cbn.
    + rewrite checked_ok by inr. cbn. step. rewrite wrap_id by inr. step. rewrite wrap_id by inr.
      step. match goal with |- context [65 <? ?z] => destruct (65 <? z) eqn:E2 end; cbn.
      * repeat step. reflexivity.
      * repeat step. pcall LA_nearest_error_is_accurate.
        rewrite nearest_error_is_accurate_src by (assumption || (unfold two64N; lia) || lia). reflexivity.
    + step. rewrite (wrap_id U64 11) by reflexivity. step. rewrite wrap_id by inr. step. cbn. step. step.
      pcall LA_nearest_error_is_accurate.
      rewrite nearest_error_is_accurate_src by (assumption || (unfold two64N; lia) || lia). reflexivity.
  - step; consts. step; consts. step; consts.
    destruct (e <=? -190) eqn:E1; cbn.
    + rewrite checked_ok by inr. cbn. step. rewrite wrap_id by inr. step. rewrite wrap_id by inr.
      step. match goal with |- context [65 <? ?z] => destruct (65 <? z) eqn:E2 end; cbn.
      * repeat step. reflexivity.
      * repeat step. pcall LA_nearest_error_is_accurate.
        rewrite nearest_error_is_accurate_src by (assumption || (unfold two64N; lia) || lia). reflexivity.
    + step. rewrite (wrap_id U64 40) by reflexivity. step. rewrite wrap_id by inr. step. cbn. step. step.
      pcall LA_nearest_error_is_accurate.
      rewrite nearest_error_is_accurate_src by (assumption || (unfold two64N; lia) || lia). reflexivity.
Qed.
End ErrorsK.

(* ================================================================================================ *)
(** * num.rs: Float::is_special (a float is given by its bit pattern) *)
Definition fbits_ok (k : fkind) (bits : N) : Prop := (bits < match k with F64 => two64N | F32 => two32N end)%N.

Section Special.
Variable k : fkind.
Notation G := (lex_genv k).

Theorem is_special_src : forall (bits : N) f, fbits_ok k bits -> (1 <= f)%nat ->
  call f G "Float::is_special" [VF (FBits (Z.of_N bits))] = Ok (VB (f_is_special k bits), []).
Proof.
  intros bits f Hb Hf. do 1 fuel1. enter LA_Float_is_special. unfold f_is_special, fbits_ok, two64N, two32N in *.
  destruct k; consts; step; consts.
  - rewrite checked_ok by (apply in_range_u64; lia). cbn. unfold nbits. rewrite N2Z.id. to_N_lit. rewrite eqb_Npos. reflexivity.
  - rewrite checked_ok by (apply in_range_u32; lia). cbn. unfold nbits. rewrite N2Z.id. to_N_lit. rewrite eqb_Npos. reflexivity.
Qed.
End Special.

(* ================================================================================================ *)
(** * algorithm.rs: fast_path *)
(* the interpreter keeps the result of `F::as_cast` / `pow10` as a Flocq float; the model has bit patterns: compare bit patterns *)
Fixpoint val_bits (v : val) : val :=
  match v with
  | VF f => VF (FBits (fl_bits f))
  | VOpt (Some x) => VOpt (Some (val_bits x))
  | VTup a b => VTup (val_bits a) (val_bits b)
  | _ => v
  end.
Definition res_bits (r : res (val * list val)) : res (val * list val) := let* (v, o) := r in Ok (val_bits v, o).
Definition some_bits (o : option N) : val := VOpt (option_map (fun b => VF (FBits (Z.of_N b))) o).

Lemma idx_nth {A} (l : list A) (i : Z) (d : A) : 0 <= i < Z.of_nat (length l) -> idx l i = Some (nth (Z.to_nat i) l d).
Proof.
  intros H. unfold idx. replace ((0 <=? i) && (i <? Z.of_nat (length l))) with true by lia.
  apply nth_error_nth'. lia.
Qed.
Lemma u64_at_ok (l : list N) i : Forall (fun m => (m < two64N)%N) l -> 0 <= i < Z.of_nat (length l) ->
  u64_at l i = Ok (VInt U64 (Z.of_N (nth (Z.to_nat i) l 0%N))).
Proof.
  intros Hall Hi. unfold u64_at. rewrite (idx_nth l i 0%N Hi). apply checked_ok, in_range_N.
  rewrite Forall_forall in Hall. apply Hall, nth_In. lia.
Qed.
Lemma pow10_64_ok : Forall (fun m => (m < two64N)%N) POW10_64.
Proof. repeat constructor. Qed.

#[local] Arguments pow10 : simpl never.
#[local] Arguments nth : simpl never.
#[local] Arguments u64_at : simpl never.

Lemma pow10_f64 x n : -22 <= n <= 22 ->
  pow10 (lex_genv F64) (FB64 x) n =
  Ok (VF (FB64 (let p := b64_of_Z (nth (Z.to_nat (Z.abs n)) F64_POW10 0) in if 0 <? n then Bmult mode_NE x p else Bdiv mode_NE x p))).
Proof.
  intros H. unfold pow10. cbn [g_tr lex_genv lex_traits ft_exp_limit_min ft_exp_limit_max ft_POW10]. consts.
  replace ((-22 <=? n) && (n <=? 22)) with true by lia.
  rewrite (idx_nth F64_POW10 (Z.abs n) 0) by (change (Z.of_nat (length F64_POW10)) with 23; lia). reflexivity.
Qed.
Lemma pow10_f32 x n : -10 <= n <= 10 ->
  pow10 (lex_genv F32) (FB32 x) n =
  Ok (VF (FB32 (let p := b32_of_Z (nth (Z.to_nat (Z.abs n)) F32_POW10 0) in if 0 <? n then Bmult mode_NE x p else Bdiv mode_NE x p))).
Proof.
  intros H. unfold pow10. cbn [g_tr lex_genv lex_traits ft_exp_limit_min ft_exp_limit_max ft_POW10]. consts.
  replace ((-10 <=? n) && (n <=? 10)) with true by lia.
  rewrite (idx_nth F32_POW10 (Z.abs n) 0) by (change (Z.of_nat (length F32_POW10)) with 11; lia). reflexivity.
Qed.

Section Fast.
Variable k : fkind.
Notation G := (lex_genv k).

Theorem fast_path_src : forall (mantissa : N) exponent f, u64_ok mantissa -> i32_ok exponent -> (8 <= f)%nat ->
  res_bits (call f G "fast_path" [VInt U64 (Z.of_N mantissa); VInt I32 exponent]) = Ok (some_bits (fast_path k mantissa exponent), []).
Proof.
  intros m e f Hm He Hf. do 8 fuel1. enter LA_fast_path. unfold fast_path, some_bits, res_bits, f_cast, f_cast_pow10.
  destruct k; consts.
  - step; consts. step; consts. step; consts. step; consts.
    change 0 with (Z.of_N 0) at 1. rewrite eqb_N. destruct (m =? 0)%N eqn:E0; cbn; [unfold exec_scope; repeat step; reflexivity|].
    unfold exec_scope. step. rewrite int_shr_ok by lia. cbn. change 0 with (Z.of_N 0) at 1. rewrite eqb_N. to_N_lit.
    change (Z.to_N (52 + 1)) with 53%N.
    destruct (N.shiftr m 53 =? 0)%N eqn:E1; cbn [negb]; [|unfold exec_scope; repeat step; reflexivity].
    unfold exec_scope. step.
    destruct (e =? 0) eqn:E2; cbn; [repeat step; reflexivity|].
    step. destruct (-22 <=? e) eqn:E3; cbn; [destruct (e <=? 22) eqn:E4; cbn|].
    + step. step. rewrite pow10_f64 by lia. cbn. repeat step. reflexivity.
    + step. destruct (0 <=? e) eqn:E5; [|lia]. cbn.
      destruct (e <=? 37) eqn:E6; cbn; [|repeat step; reflexivity].
      step. step. rewrite checked_ok by inr. cbn. step. rewrite wrap_id by inr.
      rewrite u64_at_ok by (first [apply pow10_64_ok | change (Z.of_nat (length POW10_64)) with 20; lia]). cbn.
      remember (nth (Z.to_nat (e - 22)) POW10_64 0%N) as p eqn:Ep.
      step. rewrite <- N2Z.inj_mul. unfold in_range. cbn [ity_lo ity_hi]. unfold two64N.
      destruct (18446744073709551616 <=? m * p)%N eqn:E7.
      * replace ((0 <=? Z.of_N (m * p)) && (Z.of_N (m * p) <=? 18446744073709551615)) with false by lia. cbn.
        repeat step. reflexivity.
      * replace ((0 <=? Z.of_N (m * p)) && (Z.of_N (m * p) <=? 18446744073709551615)) with true by lia. cbn.
        step. step. rewrite int_shr_ok by lia. cbn. change 0 with (Z.of_N 0) at 1. rewrite eqb_N. to_N_lit.
        destruct (N.shiftr (m * p) 53 =? 0)%N eqn:E8; cbn [negb]; [|repeat step; reflexivity].
        step. step. rewrite pow10_f64 by lia. cbn. repeat step. reflexivity.
    + step. destruct (0 <=? e) eqn:E5; [lia|]. cbn. repeat step. reflexivity.
  - step; consts. step; consts. step; consts. step; consts.
    change 0 with (Z.of_N 0) at 1. rewrite eqb_N. destruct (m =? 0)%N eqn:E0; cbn; [unfold exec_scope; repeat step; reflexivity|].
    unfold exec_scope. step. rewrite int_shr_ok by lia. cbn. change 0 with (Z.of_N 0) at 1. rewrite eqb_N. to_N_lit.
    change (Z.to_N (23 + 1)) with 24%N.
    destruct (N.shiftr m 24 =? 0)%N eqn:E1; cbn [negb]; [|unfold exec_scope; repeat step; reflexivity].
    unfold exec_scope. step.
    destruct (e =? 0) eqn:E2; cbn; [repeat step; reflexivity|].
    step. destruct (-10 <=? e) eqn:E3; cbn; [destruct (e <=? 10) eqn:E4; cbn|].
    + step. step. rewrite pow10_f32 by lia. cbn. repeat step. reflexivity.
    + step. destruct (0 <=? e) eqn:E5; [|lia]. cbn.
      destruct (e <=? 17) eqn:E6; cbn; [|repeat step; reflexivity].
      step. step. rewrite checked_ok by inr. cbn. step. rewrite wrap_id by inr.
      rewrite u64_at_ok by (first [apply pow10_64_ok | change (Z.of_nat (length POW10_64)) with 20; lia]). cbn.
      remember (nth (Z.to_nat (e - 10)) POW10_64 0%N) as p eqn:Ep.
      step. rewrite <- N2Z.inj_mul. unfold in_range. cbn [ity_lo ity_hi]. unfold two64N.
      destruct (18446744073709551616 <=? m * p)%N eqn:E7.
      * replace ((0 <=? Z.of_N (m * p)) && (Z.of_N (m * p) <=? 18446744073709551615)) with false by lia. cbn.
        repeat step. reflexivity.
      * replace ((0 <=? Z.of_N (m * p)) && (Z.of_N (m * p) <=? 18446744073709551615)) with true by lia. cbn.
        step. step. rewrite int_shr_ok by lia. cbn. change 0 with (Z.of_N 0) at 1. rewrite eqb_N. to_N_lit.
        destruct (N.shiftr (m * p) 24 =? 0)%N eqn:E8; cbn [negb]; [|repeat step; reflexivity].
        step. step. rewrite pow10_f32 by lia. cbn. repeat step. reflexivity.
    + step. destruct (0 <=? e) eqn:E5; [lia|]. cbn. repeat step. reflexivity.
Qed.

(* the fast path needs no range hypothesis: every operation of the source is guarded (checked_mul, the exponent limits) *)
End Fast.

(* ================================================================================================ *)
(** * algorithm.rs: multiply_exponent_extended, moderate_path *)
#[local] Arguments ef_at : simpl never.

Definition norm_mant (m : N) : Prop := (9223372036854775808 <= m < two64N)%N.
Lemma small_mant_ok : Forall norm_mant BASE10_SMALL_MANTISSA.
Proof. unfold norm_mant, two64N. repeat constructor; lia. Qed.
Lemma large_mant_ok : Forall norm_mant BASE10_LARGE_MANTISSA.
Proof. unfold norm_mant, two64N. repeat constructor; lia. Qed.
Lemma small_exp_ok : Forall (fun e => -2000 <= e <= 2000) BASE10_SMALL_EXPONENT.
Proof. repeat constructor; lia. Qed.
Lemma large_exp_ok : Forall (fun e => -2000 <= e <= 2000) BASE10_LARGE_EXPONENT.
Proof. repeat constructor; lia. Qed.
Lemma small_int_ok : Forall (fun m => (1 <= m < two64N)%N) BASE10_SMALL_INT_POWERS.
Proof. unfold two64N. repeat constructor; lia. Qed.

Lemma Forall_nth {A} (Q : A -> Prop) l i d : Forall Q l -> (i < length l)%nat -> Q (nth i l d).
Proof. intros H Hi. rewrite Forall_forall in H. apply H, nth_In, Hi. Qed.

Lemma ef_at_ok ms es i : Forall norm_mant ms -> Forall (fun e => -2000 <= e <= 2000) es -> length es = length ms ->
  0 <= i < Z.of_nat (length ms) ->
  ef_at ms es i = Ok (ef_val (mkEF (nth (Z.to_nat i) ms 0%N) (nth (Z.to_nat i) es 0))).
Proof.
  intros Hm He Hl Hi. unfold ef_at. rewrite (idx_nth ms i 0%N Hi), (idx_nth es i 0) by lia.
  pose proof (Forall_nth _ ms (Z.to_nat i) 0%N Hm ltac:(lia)) as H1. pose proof (Forall_nth _ es (Z.to_nat i) 0 He ltac:(lia)) as H2.
  unfold norm_mant in H1. cbv beta in H2.
  rewrite in_range_N by (unfold u64_ok; lia). rewrite in_range_i32 by (unfold i32_ok; lia). reflexivity.
Qed.

(* the innermost else-block of multiply_exponent_extended (the case "within the valid exponent range") *)
Definition mee_main : list stmt :=
  match fbody LA_multiply_exponent_extended with
  | [_; _; _; _; SIf _ _ [SIf _ _ main]] => main
  | _ => []
  end.

Lemma normalize_shift_small fp : (mant fp < two64N)%N -> (1152921504606846976 <= mant fp)%N -> 0 <= snd (ef_normalize fp) <= 3.
Proof.
  intros Hhi Hlo. pose proof (ef_normalize_spec fp ltac:(lia) Hhi) as H. destruct (ef_normalize fp) as [r s]. cbn [snd].
  destruct H as [Hs [_ [Hv Hr]]]. split; [lia|].
  destruct (Z_le_gt_dec s 3) as [Hle|Hgt]; [exact Hle|exfalso].
  assert (2 ^ 4 <= 2 ^ s) by (apply Z.pow_le_mono_r; lia). change (2 ^ 4) with 16 in *. change (2 ^ 64) with 18446744073709551616 in *. nia.
Qed.

Lemma ef_mul_lower a b lo : (mant a < two64N)%N -> (mant b < two64N)%N -> (lo - 1) * 18446744073709551616 + 9223372036854775808 < Z.of_N (mant a) * Z.of_N (mant b) ->
  lo <= Z.of_N (mant (ef_mul a b)).
Proof.
  intros Ha Hb Hl. pose proof (ef_mul_round a b Ha Hb) as H. cbv zeta in H. destruct H as [_ [H _]].
  change (2 ^ 64) with 18446744073709551616 in H. change (2 ^ 63) with 9223372036854775808 in H. lia.
Qed.

Lemma int_shl32 a b : 0 <= b < 32 -> int_shift OShl U32 (Z.of_N a) b = Ok (VInt U32 (Z.of_N (N.shiftl a (Z.to_N b)) mod 4294967296)).
Proof. intros H. unfold int_shift. cbn. replace ((0 <=? b) && (b <? 32)) with true by lia. rewrite N2Z.id. reflexivity. Qed.
Lemma shiftl_small a b : (a <= 100)%N -> 0 <= b <= 3 -> (N.shiftl a (Z.to_N b) <= 800)%N.
Proof.
  intros Ha Hb. rewrite N.shiftl_mul_pow2.
  assert (Hc : b = 0 \/ b = 1 \/ b = 2 \/ b = 3) by lia.
  destruct Hc as [ Hc | [ Hc | [ Hc | Hc ] ] ]; subst b; cbn; lia.
Qed.

Section Moderate.
Variable k : fkind.
Notation G := (lex_genv k).

Definition mee_fr (li si X : Z) : frame :=
  [("large_index", VInt I32 li); ("small_index", VInt I32 si); ("exponent", VInt I32 X); ("powers", VTab "BASE10_POWERS")].

(* errors += error_halfscale(); let shift = fp.normalize(); errors <<= shift; error_is_accurate(errors, fp) *)
Lemma mee_tail2 : forall fp2 (e2 : N) li si X pr f, ef_ok fp2 -> (1152921504606846976 <= mant fp2)%N -> -1200000 <= exp fp2 <= 1200000 ->
  (e2 <= 90)%N -> (10 <= f)%nat ->
  exec_block (exec (S (S f)) G P) (skipn 5 mee_main) [[("errors", VInt U32 (Z.of_N e2))]; []; mee_fr li si X; ("fp", ef_val fp2) :: pr] =
  Ok (let '(fp3, shift) := ef_normalize fp2 in
      let e4 := N.shiftl (e2 + ERROR_HALFSCALE) (Z.to_N shift) in
      ORet (VB (error_is_accurate k e4 fp3))
           [[("shift", VInt U32 shift); ("errors", VInt U32 (Z.of_N e4))]; []; mee_fr li si X; ("fp", ef_val fp3) :: pr]).
Proof.
  intros fp2 e2 li si X pr f Hok Hlo Hex He2 Hf. pose proof Hok as [Hm He]. cbn [skipn mee_main fbody LA_multiply_exponent_extended]. unfold mee_fr.
  step. pcall LA_u64_error_halfscale. rewrite error_halfscale_src by lia. cbn.
  rewrite checked_ok by (apply in_range_u32; unfold ERROR_HALFSCALE; lia). cbn.
  replace (Z.of_N e2 + 4) with (Z.of_N (e2 + ERROR_HALFSCALE)) by (unfold ERROR_HALFSCALE; lia).
  step. rewrite normalize_src by (assumption || lia). cbn.
  pose proof (normalize_shift_small fp2 Hm Hlo) as Hs.
  destruct (normalize_ok fp2 Hok ltac:(lia)) as [Hn1 Hn2].
  destruct (ef_normalize fp2) as [fp3 shift] eqn:En. cbn [fst snd] in *.
  step. rewrite int_shl32 by lia.
  pose proof (shiftl_small (e2 + ERROR_HALFSCALE) shift ltac:(unfold ERROR_HALFSCALE; lia) Hs) as Hsm.
  rewrite Z.mod_small by lia. cbn.
  step. pcall LA_u64_error_is_accurate. rewrite error_is_accurate_src by (assumption || (unfold two32N; lia) || lia). cbn. reflexivity.
Qed.
Lemma get_large_ok i : 0 <= i < 66 -> ef_ok (get_large (Z.to_nat i)) /\ norm_mant (mant (get_large (Z.to_nat i))) /\ -2000 <= exp (get_large (Z.to_nat i)) <= 2000.
Proof.
  intros Hi. unfold get_large. cbn [mant exp].
  pose proof (Forall_nth _ BASE10_LARGE_MANTISSA (Z.to_nat i) 0%N large_mant_ok ltac:(change (length BASE10_LARGE_MANTISSA) with 66%nat; lia)) as H1.
  pose proof (Forall_nth _ BASE10_LARGE_EXPONENT (Z.to_nat i) 0 large_exp_ok ltac:(change (length BASE10_LARGE_EXPONENT) with 66%nat; lia)) as H2.
  cbv beta in H2. unfold norm_mant in *. unfold ef_ok, i32_ok. cbn [mant exp]. repeat split; lia.
Qed.
Lemma get_small_ok i : 0 <= i < 10 -> ef_ok (get_small (Z.to_nat i)) /\ norm_mant (mant (get_small (Z.to_nat i))) /\ -2000 <= exp (get_small (Z.to_nat i)) <= 2000.
Proof.
  intros Hi. unfold get_small. cbn [mant exp].
  pose proof (Forall_nth _ BASE10_SMALL_MANTISSA (Z.to_nat i) 0%N small_mant_ok ltac:(change (length BASE10_SMALL_MANTISSA) with 10%nat; lia)) as H1.
  pose proof (Forall_nth _ BASE10_SMALL_EXPONENT (Z.to_nat i) 0 small_exp_ok ltac:(change (length BASE10_SMALL_EXPONENT) with 10%nat; lia)) as H2.
  cbv beta in H2. unfold norm_mant in *. unfold ef_ok, i32_ok. cbn [mant exp]. repeat split; lia.
Qed.

(* fp.imul(&powers.get_large(large_index as usize)); if errors > 0 { errors += 1; } .. *)
Lemma mee_tail1 : forall fp1 (e1 : N) li si X pr f, ef_ok fp1 -> (4611686018427387904 <= mant fp1)%N -> -1100000 <= exp fp1 <= 1100000 ->
  (e1 <= 80)%N -> 0 <= li < 66 -> (12 <= f)%nat ->
  exec_block (exec (S (S f)) G P) (skipn 3 mee_main) [[("errors", VInt U32 (Z.of_N e1))]; []; mee_fr li si X; ("fp", ef_val fp1) :: pr] =
  Ok (let fp2 := ef_mul fp1 (get_large (Z.to_nat li)) in
      let e2 := if (0 <? e1)%N then (e1 + 1)%N else e1 in
      let '(fp3, shift) := ef_normalize fp2 in
      let e4 := N.shiftl (e2 + ERROR_HALFSCALE) (Z.to_N shift) in
      ORet (VB (error_is_accurate k e4 fp3))
           [[("shift", VInt U32 shift); ("errors", VInt U32 (Z.of_N e4))]; []; mee_fr li si X; ("fp", ef_val fp3) :: pr]).
Proof.
  intros fp1 e1 li si X pr f Hok Hlo Hex He1 Hli Hf. pose proof Hok as [Hm He].
  destruct (get_large_ok li Hli) as [Hg1 [Hg2 Hg3]]. unfold norm_mant in Hg2.
  pose proof mee_tail2 as T2.
  cbn [skipn mee_main fbody LA_multiply_exponent_extended] in *. unfold mee_fr in *.
  step. rewrite wrap_id by inr.
  rewrite ef_at_ok by (first [apply large_mant_ok | apply large_exp_ok | reflexivity | change (Z.of_nat (length BASE10_LARGE_MANTISSA)) with 66; lia]).
  change (mkEF (nth (Z.to_nat li) BASE10_LARGE_MANTISSA 0%N) (nth (Z.to_nat li) BASE10_LARGE_EXPONENT 0)) with (get_large (Z.to_nat li)).
  cbn. rewrite imul_src by (first [assumption | unfold two32N; lia | unfold i32_ok; lia | lia]). cbn.
  assert (Hok2 : ef_ok (ef_mul fp1 (get_large (Z.to_nat li)))).
  { split; [apply ef_mul_fits; [exact Hm | apply Hg1]|]. unfold i32_ok. change (exp (ef_mul fp1 (get_large (Z.to_nat li)))) with (exp fp1 + exp (get_large (Z.to_nat li)) + 64). lia. }
  assert (Hlo2 : (1152921504606846976 <= mant (ef_mul fp1 (get_large (Z.to_nat li))))%N).
  { apply N2Z.inj_le. apply ef_mul_lower; [exact Hm | apply Hg1 |]. unfold two64N in *. nia. }
  assert (Hex2 : -1200000 <= exp (ef_mul fp1 (get_large (Z.to_nat li))) <= 1200000).
  { change (exp (ef_mul fp1 (get_large (Z.to_nat li)))) with (exp fp1 + exp (get_large (Z.to_nat li)) + 64). lia. }
  remember (ef_mul fp1 (get_large (Z.to_nat li))) as fp2 eqn:E2.
  step. change 0 with (Z.of_N 0) at 1. rewrite ltb_N.
  destruct (0 <? e1)%N eqn:Epos; cbn.
  - unfold exec_scope. step. rewrite checked_ok by (apply in_range_u32; lia). cbn. step.
    replace (Z.of_N e1 + 1) with (Z.of_N (e1 + 1)) by lia.
    etransitivity; [apply T2; (assumption || lia)|reflexivity].
  - unfold exec_scope. step. step. etransitivity; [apply T2; (assumption || lia)|reflexivity].
Qed.

(* the `match fp.mant.overflowing_mul(powers.get_small_int(small_index as usize))` statement *)
Definition mee_step1 (fp : efloat) (e0 : N) (si : Z) : efloat * N :=
  let prod := (mant fp * get_small_int (Z.to_nat si))%N in
  if (two64N <=? prod)%N then (ef_mul (fst (ef_normalize fp)) (get_small (Z.to_nat si)), (e0 + ERROR_HALFSCALE)%N)
  else (fst (ef_normalize (mkEF prod (exp fp))), e0).

Lemma get_small_int_ok i : 0 <= i < 10 -> (1 <= get_small_int (Z.to_nat i) < two64N)%N.
Proof.
  intros Hi. unfold get_small_int.
  exact (Forall_nth _ BASE10_SMALL_INT_POWERS (Z.to_nat i) 0%N small_int_ok ltac:(change (length BASE10_SMALL_INT_POWERS) with 10%nat; lia)).
Qed.
Lemma small_int_lt : Forall (fun m => (m < two64N)%N) BASE10_SMALL_INT_POWERS.
Proof. eapply Forall_impl; [|apply small_int_ok]. cbv beta. intros a H. lia. Qed.

Lemma normalize_big fp : ef_ok fp -> mant fp <> 0%N -> -2147483648 + 63 <= exp fp ->
  ef_ok (fst (ef_normalize fp)) /\ norm_mant (mant (fst (ef_normalize fp))) /\ exp fp - 63 <= exp (fst (ef_normalize fp)) <= exp fp.
Proof.
  intros Hok H0 Hx. destruct (normalize_ok fp Hok Hx) as [H1 H2]. split; [exact H1|]. split; [|exact H2].
  destruct Hok as [Hm _]. pose proof (ef_normalize_spec fp ltac:(lia) Hm) as H. destruct (ef_normalize fp) as [r s]. cbn [fst].
  destruct H as [_ [_ [_ Hr]]]. unfold norm_mant, two64N. change (2 ^ 63) with 9223372036854775808 in Hr. change (2 ^ 64) with 18446744073709551616 in Hr. lia.
Qed.

Lemma mee_step1_ok fp e0 si : ef_ok fp -> mant fp <> 0%N -> -1000000 <= exp fp <= 1000000 -> (e0 <= 64)%N -> 0 <= si < 10 ->
  let '(fp1, e1) := mee_step1 fp e0 si in
  ef_ok fp1 /\ (4611686018427387904 <= mant fp1)%N /\ -1100000 <= exp fp1 <= 1100000 /\ (e1 <= 80)%N.
Proof.
  intros Hok H0 Hex He0 Hsi. pose proof Hok as [Hm He]. unfold mee_step1.
  destruct (get_small_int_ok si Hsi) as [Hs1 Hs2]. destruct (get_small_ok si Hsi) as [Hg1 [Hg2 Hg3]].
  destruct (two64N <=? mant fp * get_small_int (Z.to_nat si))%N eqn:E.
  - destruct (normalize_big fp Hok H0 ltac:(lia)) as [Hn1 [Hn2 Hn3]]. unfold norm_mant in *.
    assert (Hexp : exp (ef_mul (fst (ef_normalize fp)) (get_small (Z.to_nat si))) = exp (fst (ef_normalize fp)) + exp (get_small (Z.to_nat si)) + 64) by reflexivity.
    split; [split; [apply ef_mul_fits; [apply Hn1|apply Hg1] | unfold i32_ok; rewrite Hexp; lia]|].
    split; [apply N2Z.inj_le; apply ef_mul_lower; [apply Hn1 | apply Hg1 | unfold two64N in *; nia]|].
    split; [rewrite Hexp; lia | unfold ERROR_HALFSCALE; lia].
  - assert (Hok' : ef_ok (mkEF (mant fp * get_small_int (Z.to_nat si)) (exp fp))) by (split; cbn [mant exp]; [lia|exact He]).
    destruct (normalize_big _ Hok' ltac:(cbn [mant]; lia) ltac:(cbn [exp]; lia)) as [Hn1 [Hn2 Hn3]]. unfold norm_mant in *. cbn [exp] in Hn3.
    split; [exact Hn1|]. split; [lia|]. split; lia.
Qed.

Lemma mee_match : forall fp (e0 : N) li si X pr f, ef_ok fp -> mant fp <> 0%N -> -1000000 <= exp fp <= 1000000 -> (e0 <= 64)%N -> 0 <= si < 10 ->
  (6 <= f)%nat ->
  exec (S (S f)) G P (nth 2 mee_main (SRet EUnit)) [[("errors", VInt U32 (Z.of_N e0))]; []; mee_fr li si X; ("fp", ef_val fp) :: pr] =
  Ok (let '(fp1, e1) := mee_step1 fp e0 si in OFall [[("errors", VInt U32 (Z.of_N e1))]; []; mee_fr li si X; ("fp", ef_val fp1) :: pr]).
Proof.
  intros [m e] e0 li si X pr f Hok H0 Hex He0 Hsi Hf. pose proof Hok as [Hm He]. cbn [mant exp] in *.
  destruct (get_small_int_ok si Hsi) as [Hs1 Hs2]. destruct (get_small_ok si Hsi) as [Hg1 [Hg2 Hg3]]. unfold norm_mant in Hg2.
  lazy [nth mee_main fbody LA_multiply_exponent_extended]. unfold mee_fr, mee_step1. cbn [mant exp].
  rewrite ex_match. cbn. rewrite wrap_id by inr.
  rewrite u64_at_ok by (first [apply small_int_lt | change (Z.of_nat (length BASE10_SMALL_INT_POWERS)) with 10; lia]).
  change (nth (Z.to_nat si) BASE10_SMALL_INT_POWERS 0%N) with (get_small_int (Z.to_nat si)). cbn.
  remember (get_small_int (Z.to_nat si)) as s eqn:Es. rewrite <- N2Z.inj_mul.
  unfold in_range. cbn [ity_lo ity_hi]. unfold two64N in *.
  destruct (18446744073709551616 <=? m * s)%N eqn:E.
  - replace ((0 <=? Z.of_N (m * s)) && (Z.of_N (m * s) <=? 18446744073709551615)) with false by lia. cbn.
    destruct (normalize_big (mkEF m e) Hok H0 ltac:(cbn [exp]; lia)) as [Hn1 [Hn2 Hn3]]. unfold norm_mant in Hn2. cbn [exp] in Hn3.
    unfold exec_scope. step. fold_ef. rewrite normalize_src by (first [assumption | cbn [exp]; lia | lia]). cbn.
    step. rewrite wrap_id by inr.
    rewrite ef_at_ok by (first [apply small_mant_ok | apply small_exp_ok | reflexivity | change (Z.of_nat (length BASE10_SMALL_MANTISSA)) with 10; lia]).
    change (mkEF (nth (Z.to_nat si) BASE10_SMALL_MANTISSA 0%N) (nth (Z.to_nat si) BASE10_SMALL_EXPONENT 0)) with (get_small (Z.to_nat si)).
    cbn. rewrite imul_src by (first [assumption | unfold two32N, two64N in *; lia | unfold i32_ok; lia | lia]). cbn.
    step. pcall LA_u64_error_halfscale. rewrite error_halfscale_src by lia. cbn.
    rewrite checked_ok by (apply in_range_u32; unfold ERROR_HALFSCALE; lia). cbn. step.
    replace (Z.of_N e0 + 4) with (Z.of_N (e0 + ERROR_HALFSCALE)) by (unfold ERROR_HALFSCALE; lia). reflexivity.
  - replace ((0 <=? Z.of_N (m * s)) && (Z.of_N (m * s) <=? 18446744073709551615)) with true by lia. cbn.
    rewrite wrap_id by (apply in_range_u64; lia).
    unfold exec_scope. step. step. fold_ef.
    rewrite normalize_src by (first [split; cbn [mant exp]; [unfold two64N; lia | assumption] | cbn [exp]; lia | lia]). cbn.
    step. reflexivity.
Qed.

Lemma bind_eq {A B} (r r' : res A) (h : A -> res B) : r = r' -> bind r h = bind r' h.
Proof. intros ->. reflexivity. Qed.
(* use an equation whose left side is the innermost scrutinee of nested binds (up to conversion: the frame types are unfolded by cbn) *)
Ltac bind_rw H := etransitivity; [repeat (first [apply H | apply bind_eq]) |].

Lemma rem10 X : -9 <= Z.rem X 10 <= 9.
Proof. pose proof (Z.rem_bound_abs X 10 ltac:(lia)). lia. Qed.
Lemma quot10 X : i32_ok X -> i32_ok (X ÷ 10) /\ (0 <= X -> 0 <= X ÷ 10 /\ 0 <= Z.rem X 10).
Proof.
  intros H. pose proof (Z.quot_rem' X 10). pose proof (rem10 X). unfold i32_ok in *. split; [lia|].
  intros Hpos. split; [apply Z.quot_pos; lia | apply Z.rem_nonneg; lia].
Qed.
Lemma shl8 b : 0 <= b <= 3 -> Z.of_N (N.shiftl 8 (Z.to_N b)) mod 4294967296 = Z.of_N (N.shiftl 8 (Z.to_N b)) /\ (N.shiftl 8 (Z.to_N b) <= 64)%N.
Proof.
  intros Hb. assert (Hc : b = 0 \/ b = 1 \/ b = 2 \/ b = 3) by lia.
  destruct Hc as [ Hc | [ Hc | [ Hc | Hc ] ] ]; subst b; (split; [reflexivity | vm_compute; discriminate]).
Qed.

Definition mee_e0 (fp : efloat) (tr : bool) : N := if tr then N.shiftl ERROR_SCALE (Z.to_N (Z.min (Lex.clz64 (mant fp)) 3)) else 0%N.

Lemma mee_model fp x tr : let X := i32_sat (x + BASE10_BIAS) in
  multiply_exponent_extended k fp x tr =
  if X <? 0 then (mkEF 0%N (exp fp), true)
  else if 66 <=? X ÷ BASE10_STEP then (mkEF 9223372036854775808%N 2047, true)
  else
    let '(fp1, e1) := mee_step1 fp (mee_e0 fp tr) (Z.rem X BASE10_STEP) in
    let fp2 := ef_mul fp1 (get_large (Z.to_nat (X ÷ BASE10_STEP))) in
    let e2 := if (0 <? e1)%N then (e1 + 1)%N else e1 in
    let '(fp3, shift) := ef_normalize fp2 in
    (fp3, error_is_accurate k (N.shiftl (e2 + ERROR_HALFSCALE) (Z.to_N shift)) fp3).
Proof.
  cbv zeta. unfold multiply_exponent_extended, mee_step1, mee_e0.
  change (Z.of_nat (length BASE10_LARGE_MANTISSA)) with 66.
  destruct (i32_sat (x + BASE10_BIAS) <? 0); [reflexivity|]. destruct (66 <=? _); [reflexivity|].
  destruct (two64N <=? _)%N; reflexivity.
Qed.

Lemma int_shl32_8 b : 0 <= b < 32 -> int_shift OShl U32 8 b = Ok (VInt U32 (Z.of_N (N.shiftl 8 (Z.to_N b)) mod 4294967296)).
Proof. exact (int_shl32 8 b). Qed.

Theorem multiply_exponent_extended_src : forall fp exponent truncated f, ef_ok fp -> mant fp <> 0%N ->
  -1000000 <= exp fp <= 1000000 -> i32_ok exponent -> (20 <= f)%nat ->
  call f G "multiply_exponent_extended" [ef_val fp; VInt I32 exponent; VB truncated] =
  Ok (let '(fp', valid) := multiply_exponent_extended k fp exponent truncated in (VB valid, [ef_val fp'])).
Proof.
  intros [m e] x tr f Hok Hm0 Hex Hx Hf. pose proof Hok as [Hm He]. cbn [mant exp] in *. do 5 fuel1. enter LA_multiply_exponent_extended.
  rewrite mee_model. cbv zeta.
  pose proof mee_match as MM. pose proof mee_tail1 as T1.
  lazy [nth skipn mee_main fbody LA_multiply_exponent_extended] in MM, T1. unfold mee_fr in MM, T1.
  step. step. rewrite sat_i32.
  remember (i32_sat (x + BASE10_BIAS)) as X eqn:EX. assert (HX : i32_ok X) by (subst X; apply i32_sat_ok).
  unfold BASE10_STEP in *.
  destruct (quot10 X HX) as [Hq1 Hq2]. pose proof (rem10 X) as Hr.
  step; unfold BASE10_STEP. rewrite checked_ok by inr. cbn.
  step; unfold BASE10_STEP. rewrite checked_ok by inr. cbn.
  step. destruct (X <? 0) eqn:E1; cbn; [unfold exec_scope; repeat step; reflexivity|].
  destruct (Hq2 ltac:(lia)) as [Hq3 Hq4]. unfold i32_ok in Hq1, HX.
  unfold exec_scope. step. rewrite wrap_id by inr. destruct (66 <=? X ÷ 10) eqn:E2; cbn.
  - step. change (int_shift OShl U64 1 63) with (Ok (VInt U64 9223372036854775808)). cbn. repeat step. reflexivity.
  - step.
    assert (He0 : (mee_e0 (mkEF m e) tr <= 64)%N).
    { unfold mee_e0. cbn [mant]. destruct tr; [|lia]. pose proof (clz_range m ltac:(lia) Hm) as Hc.
      destruct (shl8 (Z.min (Lex.clz64 m) 3) ltac:(lia)) as [_ Hs2]. exact Hs2. }
    pose proof (mee_step1_ok (mkEF m e) (mee_e0 (mkEF m e) tr) (Z.rem X 10) Hok Hm0 Hex He0 ltac:(lia)) as S1.
    rewrite blk_cons, ex_if. cbn.
    match goal with |- context [if tr then exec_scope ?ex [] ?blk (_ :: ?rest) else ?B] =>
      assert (Hsif : (if tr then exec_scope ex [] blk ([("errors", VInt U32 0)] :: rest) else B) =
                     Ok (OFall ([("errors", VInt U32 (Z.of_N (mee_e0 (mkEF m e) tr)))] :: rest))) end.
    { unfold mee_e0. cbn [mant]. destruct tr; unfold exec_scope.
      - step. pcall LA_u64_error_scale. rewrite error_scale_src by lia. cbn. rewrite clz_agree by lia.
        pose proof (clz_range m ltac:(lia) Hm) as Hc. rewrite int_shl32_8 by lia.
        destruct (shl8 (Z.min (Lex.clz64 m) 3) ltac:(lia)) as [Hs1 Hs2]. rewrite Hs1. cbn.
        rewrite checked_ok by (apply in_range_u32; lia). cbn. step. reflexivity.
      - step. reflexivity. }
    bind_rw Hsif. cbn. rewrite blk_cons.
    bind_rw (MM (mkEF m e) (mee_e0 (mkEF m e) tr) (X ÷ 10) (Z.rem X 10) X [("exponent", VInt I32 x); ("truncated", VB tr)] (S fu) Hok Hm0 Hex He0 ltac:(lia) ltac:(lia)).
    destruct (mee_step1 (mkEF m e) (mee_e0 (mkEF m e) tr) (Z.rem X 10)) as [fp1 e1]. destruct S1 as [S1a [S1b [S1c S1d]]]. cbn.
    bind_rw (T1 fp1 e1 (X ÷ 10) (Z.rem X 10) X [("exponent", VInt I32 x); ("truncated", VB tr)] (S fu) S1a S1b S1c S1d ltac:(lia) ltac:(lia)).
    cbn. destruct (ef_normalize _) as [fp3 shift]. cbn. reflexivity.
Qed.
End Moderate.

Section Paths.
Variable k : fkind.
Notation G := (lex_genv k).

Theorem moderate_path_src : forall (mantissa : N) exponent truncated f, u64_ok mantissa -> mantissa <> 0%N -> i32_ok exponent -> (22 <= f)%nat ->
  call f G "moderate_path" [VInt U64 (Z.of_N mantissa); VInt I32 exponent; VB truncated] =
  Ok (let '(fp, valid) := moderate_path k mantissa exponent truncated in (VTup (ef_val fp) (VB valid), [])).
Proof.
  intros m x tr f Hm H0 Hx Hf. do 1 fuel1. enter LA_moderate_path. unfold moderate_path.
  step. step. fold_ef.
  rewrite (multiply_exponent_extended_src k) by (first [split; [exact Hm | unfold i32_ok; cbn [exp]; lia] | exact H0 | cbn [exp]; lia | assumption | lia]).
  destruct (multiply_exponent_extended k (mkEF m 0) x tr) as [fp valid] eqn:E. cbn. step. reflexivity.
Qed.

(* the debug_assert of ExtendedFloat::mul makes a zero mantissa a panic of the moderate path (the fast path answers it before; the model goes on) *)
Example moderate_path_needs_nonzero_mantissa :
  run 40 G P "moderate_path" [VInt U64 0; VInt I32 0; VB false] = Panic /\ snd (moderate_path k 0 0 false) = true.
Proof. split; destruct k; vm_compute; reflexivity. Qed.

(* the result of the extended-float stage leaves room in i32 for the rounding that follows *)
Lemma mee_result_ok fp x tr : ef_ok fp -> mant fp <> 0%N -> -1000000 <= exp fp <= 1000000 ->
  let fp' := fst (multiply_exponent_extended k fp x tr) in ef_ok fp' /\ -1300000 <= exp fp' <= 1300000.
Proof.
  intros Hok H0 Hex. cbv zeta. rewrite mee_model. cbv zeta. pose proof Hok as [Hm He].
  remember (i32_sat (x + BASE10_BIAS)) as X eqn:EX. assert (HX : i32_ok X) by (subst X; apply i32_sat_ok). unfold BASE10_STEP.
  destruct (X <? 0) eqn:E1; [cbn [fst]; split; [split; [reflexivity|exact He]|cbn [exp]; lia]|].
  destruct (66 <=? X ÷ 10) eqn:E2; [cbn [fst]; split; [split; [reflexivity|unfold i32_ok; cbn [exp]; lia]|cbn [exp]; lia]|].
  destruct (quot10 X HX) as [Hq1 Hq2]. destruct (Hq2 ltac:(lia)) as [Hq3 Hq4]. pose proof (rem10 X) as Hr.
  assert (He0 : (mee_e0 fp tr <= 64)%N).
  { unfold mee_e0. destruct tr; [|lia]. pose proof (clz_range (mant fp) ltac:(lia) Hm) as Hc.
    destruct (shl8 (Z.min (Lex.clz64 (mant fp)) 3) ltac:(lia)) as [_ Hs2]. exact Hs2. }
  pose proof (mee_step1_ok fp (mee_e0 fp tr) (Z.rem X 10) Hok H0 Hex He0 ltac:(lia)) as S1.
  destruct (mee_step1 fp (mee_e0 fp tr) (Z.rem X 10)) as [fp1 e1]. destruct S1 as [S1a [S1b [S1c S1d]]].
  destruct (get_large_ok (X ÷ 10) ltac:(lia)) as [Hg1 [Hg2 Hg3]]. unfold norm_mant in Hg2.
  set (fp2 := ef_mul fp1 (get_large (Z.to_nat (X ÷ 10)))).
  assert (Hok2 : ef_ok fp2).
  { split; [apply ef_mul_fits; [apply S1a | apply Hg1]|]. unfold i32_ok. change (exp fp2) with (exp fp1 + exp (get_large (Z.to_nat (X ÷ 10))) + 64). lia. }
  assert (Hex2 : -1200000 <= exp fp2 <= 1200000).
  { change (exp fp2) with (exp fp1 + exp (get_large (Z.to_nat (X ÷ 10))) + 64). lia. }
  destruct (normalize_ok fp2 Hok2 ltac:(lia)) as [Hn1 Hn2].
  destruct (ef_normalize fp2) as [fp3 shift]. cbn [fst] in *. split; [exact Hn1 | lia].
Qed.

Lemma into_float_bits_ok fp : ef_ok fp -> fbits_ok k (into_float_bits k fp).
Proof.
  intros [Hm He]. unfold fbits_ok, into_float_bits, two64N, two32N.
  destruct (N.eqb (mant fp) 0 || (exp fp <? DENORMAL_EXPONENT k)) eqn:E1; [destruct k; reflexivity|].
  destruct (MAX_EXPONENT k <=? exp fp) eqn:E2; [destruct k; reflexivity|].
  destruct k; consts.
  - apply (lor_lt _ _ 64).
    + eapply N.le_lt_trans; [apply land_le_r|]. reflexivity.
    + rewrite N.shiftl_mul_pow2. change (2 ^ Z.to_N 52)%N with 4503599627370496%N. change (2 ^ 64)%N with 18446744073709551616%N.
      destruct (_ && _); lia.
  - apply (lor_lt _ _ 32).
    + eapply N.le_lt_trans; [apply land_le_r|]. reflexivity.
    + rewrite N.shiftl_mul_pow2. change (2 ^ Z.to_N 23)%N with 8388608%N. change (2 ^ 32)%N with 4294967296%N.
      destruct (_ && _); lia.
Qed.

Lemma pcall_ext (c : call_t) fn args : find_fn fn P = None -> pcall_of G P c fn args = g_ext G fn args.
Proof. intros H. unfold pcall_of. rewrite H. reflexivity. Qed.

Theorem fallback_path_src : forall (integer fraction : list N) (mantissa : N) exponent mantissa_exponent truncated f,
  u64_ok mantissa -> mantissa <> 0%N -> i32_ok exponent -> i32_ok mantissa_exponent -> (26 <= f)%nat ->
  call f G "fallback_path" [VBytes integer; VBytes fraction; VInt U64 (Z.of_N mantissa); VInt I32 exponent; VInt I32 mantissa_exponent; VB truncated] =
  Ok (VF (FBits (Z.of_N (fallback_path k integer fraction mantissa exponent mantissa_exponent truncated))), []).
Proof.
  intros ig fr m x mx tr f Hm H0 Hx Hmx Hf. do 2 fuel1. enter LA_fallback_path.
  unfold fallback_path, fallback_trace.
  step. pcall LA_moderate_path. rewrite (moderate_path_src) by (assumption || lia).
  pose proof (mee_result_ok (mkEF m 0) mx tr ltac:(split; [exact Hm | unfold i32_ok; cbn [exp]; lia]) H0 ltac:(cbn [exp]; lia)) as R.
  unfold moderate_path in *. cbv zeta in R.
  destruct (multiply_exponent_extended k (mkEF m 0) mx tr) as [fp valid]. cbn [fst] in R. destruct R as [R1 R2].
  assert (Hds : 0 <= DEFAULT_SHIFT k <= 64) by (destruct k; consts; lia).
  cbn. step. unfold slow_tail. destruct valid; cbn.
  - unfold exec_scope. step. pcall LA_ExtendedFloat_into_float. rewrite (ef_into_float_src k) by (assumption || lia). reflexivity.
  - unfold exec_scope. step. step. pcall LA_ExtendedFloat_into_downward_float.
    rewrite (ef_into_downward_float_src k) by (assumption || lia). cbn.
    assert (Hb : fbits_ok k (ef_into_downward_float k fp)).
    { unfold ef_into_downward_float. apply into_float_bits_ok. apply round_to_native_ok; first [apply algo_down | assumption | lia]. }
    remember (ef_into_downward_float k fp) as b eqn:Eb.
    step. pcall LA_Float_is_special. rewrite (is_special_src k) by (assumption || lia). cbn.
    destruct (f_is_special k b); cbn.
    + unfold exec_scope. step. reflexivity.
    + unfold exec_scope. step. rewrite pcall_ext by reflexivity. cbn. rewrite N2Z.id. reflexivity.
Qed.
End Paths.

(* ================================================================================================ *)
(** * The export: every translated function of the control logic of src/lexical

   COVERED (all 37 entries of Gen/LexAlgTables.LEXALG, for F = f64 and F = f32 where the function is generic):
     exponent.rs   into_i32  scientific_exponent  mantissa_exponent            digit.rs  to_digit  add_digit
     shift.rs      shr  overflowing_shr  shl
     rounding.rs   nth_bit  lower_n_mask  lower_n_halfway  internal_n_mask  round_nearest  tie_even  round_nearest_tie_even  round_toward  downard
                   round_downward  round_to_float  avoid_overflow  round_to_native
     float.rs      ExtendedFloat::{mul, imul, normalize, round_to_native, into_float, into_downward_float}  into_float
     errors.rs     nearest_error_is_accurate  u64::{error_scale, error_halfscale, error_is_accurate}         num.rs  Float::is_special
     algorithm.rs  fast_path  multiply_exponent_extended  moderate_path  fallback_path
   under the RANGE HYPOTHESES written in each conjunct (outside them the source panics in the harness build — overflow-checks, debug-assertions —
   while the model computes in N / Z; witnesses: shr_needs_shift_lt_64, shr_needs_exp_range, shl_needs_shift_nonneg, tie_even_needs_room,
   normalize_needs_exp_room, mul_needs_high_bits, into_float_needs_exp_room, moderate_path_needs_nonzero_mantissa).
   fast_path is compared on bit patterns ([res_bits]: the interpreter carries the Flocq float produced by `as_cast` / `pow10`).

   NOT COVERED (not translated; the hand model stands for the source there):
     * bhcomp.rs / math.rs / bignum.rs (big-integer slow path): fallback_path calls bhcomp through the environment ([lex_ext]: the model's bhcomp);
     * parse.rs (parse_concise_float, parse_truncated_float: itoa buffer, slice iterators, the digit loop) — their steps add_digit / to_digit /
       mantissa_exponent / fast_path / fallback_path are covered, the glue is not;   float.rs from_float, ExtendedFloat::from_float;
       num.rs Float::{is_denormal, is_inf, exponent, mantissa, next_positive, round_positive_even} (used by bhcomp only);
     * the primitives the interpreter gives a meaning directly, PINNED BY TEXT in tools/translate_lexalg.py: `pow10`, `as_cast` / `as_u64` (the
       as_primitive_impl! / as_cast_impl! macros), `from_bits` / `to_bits`, cached.rs accessors (get_small / get_large / get_small_int / len),
       get_powers; std: leading_zeros, min, checked_ / overflowing_ / wrapping_ / saturating_ operations, char::to_digit(10), mem::size_of;
     * the cached power TABLES and the trait constants are those of Gen/LexTables.v (tools/translate_lex.py). *)
Theorem lexical_algorithm_is_translated_source :
  (forall G : genv, forall n f, 0 <= n < 64 -> (2 <= f)%nat -> call f G "nth_bit" [VInt U64 n] = Ok (VInt U64 (2 ^ n), [])) /\
  (forall G : genv, forall n f, 0 <= n <= 64 -> (3 <= f)%nat -> call f G "lower_n_mask" [VInt U64 n] = Ok (VInt U64 (Z.of_N (lower_n_mask n)), [])) /\
  (forall G : genv, forall n f, 0 <= n <= 64 -> (5 <= f)%nat -> call f G "lower_n_halfway" [VInt U64 n] = Ok (VInt U64 (Z.of_N (lower_n_halfway n)), [])) /\
  (forall G : genv, forall bit n f, 0 <= n <= bit -> bit <= 64 -> (5 <= f)%nat -> call f G "internal_n_mask" [VInt U64 bit; VInt U64 n] = Ok (VInt U64 (Z.of_N (internal_n_mask bit n)), [])) /\
  (forall G : genv, forall fp shift f, ef_ok fp -> 0 <= shift < 64 -> i32_ok (exp fp + shift) -> (2 <= f)%nat -> call f G "shr" [ef_val fp; VInt I32 shift] = Ok (VUnit, [ef_val (shr fp shift)])) /\
  (forall G : genv, forall fp shift f, ef_ok fp -> 0 <= shift <= 64 -> i32_ok (exp fp + shift) -> (2 <= f)%nat -> call f G "overflowing_shr" [ef_val fp; VInt I32 shift] = Ok (VUnit, [ef_val (overflowing_shr fp shift)])) /\
  (forall G : genv, forall fp shift f, ef_ok fp -> 0 <= shift < 64 -> i32_ok (exp fp - shift) -> (2 <= f)%nat -> call f G "shl" [ef_val fp; VInt I32 shift] = Ok (VUnit, [ef_val (shl fp shift)])) /\
  (forall G : genv, forall v f, 0 <= v <= 18446744073709551615 -> (2 <= f)%nat -> call f G "into_i32" [VInt Usize v] = Ok (VInt I32 (into_i32 v), [])) /\
  (forall G : genv, forall e (integer_digits fraction_start : nat) f, i32_ok e -> 0 <= Z.of_nat integer_digits <= 18446744073709551615 -> 0 <= Z.of_nat fraction_start <= 18446744073709551615 -> (5 <= f)%nat -> call f G "scientific_exponent" [VInt I32 e; VInt Usize (Z.of_nat integer_digits); VInt Usize (Z.of_nat fraction_start)] = Ok (VInt I32 (scientific_exponent e integer_digits fraction_start), [])) /\
  (forall G : genv, forall e (fraction_digits truncated : nat) f, i32_ok e -> 0 <= Z.of_nat fraction_digits <= 18446744073709551615 -> 0 <= Z.of_nat truncated <= 18446744073709551615 -> (5 <= f)%nat -> call f G "mantissa_exponent" [VInt I32 e; VInt Usize (Z.of_nat fraction_digits); VInt Usize (Z.of_nat truncated)] = Ok (VInt I32 (mantissa_exponent e fraction_digits truncated), [])) /\
  (forall G : genv, forall (c : N) f, (c <= 255)%N -> (1 <= f)%nat -> call f G "to_digit" [VInt U8 (Z.of_N c)] = Ok (VOpt (if is_digit c then Some (VInt U32 (Z.of_N (digit_val c))) else None), [])) /\
  (forall G : genv, forall (m d : N) f, u64_ok m -> (d < 4294967296)%N -> (2 <= f)%nat -> call f G "add_digit" [VInt U64 (Z.of_N m); VInt U32 (Z.of_N d)] = Ok (VOpt (if (m * 10 + d <? two64N)%N then Some (VInt U64 (Z.of_N (m * 10 + d))) else None), [])) /\
  (forall G : genv, forall fp shift f, ef_ok fp -> 0 <= shift <= 64 -> i32_ok (exp fp + shift) -> (7 <= f)%nat -> call f G "round_nearest" [ef_val fp; VInt I32 shift] = Ok (let '(fp1, is_above, is_halfway) := round_nearest fp shift in (VTup (VB is_above) (VB is_halfway), [ef_val fp1]))) /\
  (forall G : genv, forall fp is_above is_halfway f, ef_ok fp -> (mant fp + 1 < two64N)%N -> (3 <= f)%nat -> call f G "tie_even" [ef_val fp; VB is_above; VB is_halfway] = Ok (VUnit, [ef_val (tie_even fp is_above is_halfway)])) /\
  (forall G : genv, forall fp shift f, ef_ok fp -> 1 <= shift <= 64 -> i32_ok (exp fp + shift) -> (9 <= f)%nat -> call f G "round_nearest_tie_even" [ef_val fp; VInt I32 shift] = Ok (VUnit, [ef_val (round_nearest_tie_even fp shift)])) /\
  (forall G : genv, forall fp shift f, ef_ok fp -> 0 <= shift <= 64 -> i32_ok (exp fp + shift) -> (5 <= f)%nat -> call f G "round_toward" [ef_val fp; VInt I32 shift] = Ok (VB (negb (N.land (mant fp) (lower_n_mask shift) =? 0)%N), [ef_val (overflowing_shr fp shift)])) /\
  (forall G : genv, forall v b f, (1 <= f)%nat -> call f G "downard" [v; VB b] = Ok (VUnit, [v])) /\
  (forall G : genv, forall fp shift f, ef_ok fp -> 0 <= shift <= 64 -> i32_ok (exp fp + shift) -> (7 <= f)%nat -> call f G "round_downward" [ef_val fp; VInt I32 shift] = Ok (VUnit, [ef_val (round_downward fp shift)])) /\
  (forall G : genv, forall fp f, ef_ok fp -> -2147483648 + 63 <= exp fp -> (4 <= f)%nat -> call f G "ExtendedFloat::normalize" [ef_val fp] = Ok (VInt U32 (snd (ef_normalize fp)), [ef_val (fst (ef_normalize fp))])) /\
  (forall G : genv, forall a b f, ef_ok a -> ef_ok b -> (two32N <= mant a)%N -> (two32N <= mant b)%N -> i32_ok (exp a + exp b) -> i32_ok (exp a + exp b + 64) -> (2 <= f)%nat -> call f G "ExtendedFloat::mul" [ef_val a; ef_val b] = Ok (ef_val (ef_mul a b), [])) /\
  (forall G : genv, forall a b f, ef_ok a -> ef_ok b -> (two32N <= mant a)%N -> (two32N <= mant b)%N -> i32_ok (exp a + exp b) -> i32_ok (exp a + exp b + 64) -> (4 <= f)%nat -> call f G "ExtendedFloat::imul" [ef_val a; ef_val b] = Ok (VUnit, [ef_val (ef_mul a b)])) /\
  (forall k : fkind, forall name algo n fp f, alg_spec (lex_genv k) name algo n -> algo_ok algo -> ef_ok fp -> exp fp + DEFAULT_SHIFT k + 1 <= 2147483647 -> (n + 4 <= f)%nat -> call f (lex_genv k) "round_to_float" [ef_val fp; VFn name] = Ok (VUnit, [ef_val (round_to_float k algo fp)])) /\
  (forall k : fkind, forall fp f, ef_ok fp -> (10 <= f)%nat -> call f (lex_genv k) "avoid_overflow" [ef_val fp] = Ok (VUnit, [ef_val (avoid_overflow k fp)])) /\
  (forall k : fkind, forall name algo n fp f, alg_spec (lex_genv k) name algo n -> algo_ok algo -> ef_ok fp -> -2147483648 + 63 <= exp fp -> exp fp + DEFAULT_SHIFT k + 1 <= 2147483647 -> (n + 11 <= f)%nat -> call f (lex_genv k) "round_to_native" [ef_val fp; VFn name] = Ok (VUnit, [ef_val (round_to_native k algo fp)])) /\
  (forall k : fkind, forall name algo n fp f, alg_spec (lex_genv k) name algo n -> algo_ok algo -> ef_ok fp -> -2147483648 + 63 <= exp fp -> exp fp + DEFAULT_SHIFT k + 1 <= 2147483647 -> (n + 12 <= f)%nat -> call f (lex_genv k) "ExtendedFloat::round_to_native" [ef_val fp; VFn name] = Ok (VUnit, [ef_val (round_to_native k algo fp)])) /\
  (forall k : fkind, forall fp f, ef_ok fp -> (4 <= f)%nat -> call f (lex_genv k) "into_float" [ef_val fp] = Ok (VF (FBits (Z.of_N (into_float_bits k fp))), [])) /\
  (forall k : fkind, forall fp f, ef_ok fp -> -2147483648 + 63 <= exp fp -> exp fp + DEFAULT_SHIFT k + 1 <= 2147483647 -> (22 <= f)%nat -> call f (lex_genv k) "ExtendedFloat::into_float" [ef_val fp] = Ok (VF (FBits (Z.of_N (ef_into_float k fp))), [])) /\
  (forall k : fkind, forall fp f, ef_ok fp -> -2147483648 + 63 <= exp fp -> exp fp + DEFAULT_SHIFT k + 1 <= 2147483647 -> (20 <= f)%nat -> call f (lex_genv k) "ExtendedFloat::into_downward_float" [ef_val fp] = Ok (VF (FBits (Z.of_N (ef_into_downward_float k fp))), [])) /\
  (forall G : genv, forall f, (1 <= f)%nat -> call f G "u64::error_scale" [] = Ok (VInt U32 (Z.of_N ERROR_SCALE), [])) /\
  (forall G : genv, forall f, (2 <= f)%nat -> call f G "u64::error_halfscale" [] = Ok (VInt U32 (Z.of_N ERROR_HALFSCALE), [])) /\
  (forall G : genv, forall (errors : N) fp extrabits f, (errors < two64N)%N -> ef_ok fp -> 0 <= extrabits <= 65 -> (8 <= f)%nat -> call f G "nearest_error_is_accurate" [VInt U64 (Z.of_N errors); ef_val fp; VInt U64 extrabits] = Ok (VB (nearest_error_is_accurate errors fp extrabits), [])) /\
  (forall k : fkind, forall (count : N) fp f, (count < two32N)%N -> ef_ok fp -> (10 <= f)%nat -> call f (lex_genv k) "u64::error_is_accurate" [VInt U32 (Z.of_N count); ef_val fp] = Ok (VB (error_is_accurate k count fp), [])) /\
  (forall k : fkind, forall (bits : N) f, fbits_ok k bits -> (1 <= f)%nat -> call f (lex_genv k) "Float::is_special" [VF (FBits (Z.of_N bits))] = Ok (VB (f_is_special k bits), [])) /\
  (forall k : fkind, forall (mantissa : N) exponent f, u64_ok mantissa -> i32_ok exponent -> (8 <= f)%nat -> res_bits (call f (lex_genv k) "fast_path" [VInt U64 (Z.of_N mantissa); VInt I32 exponent]) = Ok (some_bits (fast_path k mantissa exponent), [])) /\
  (forall k : fkind, forall fp exponent truncated f, ef_ok fp -> mant fp <> 0%N -> -1000000 <= exp fp <= 1000000 -> i32_ok exponent -> (20 <= f)%nat -> call f (lex_genv k) "multiply_exponent_extended" [ef_val fp; VInt I32 exponent; VB truncated] = Ok (let '(fp', valid) := multiply_exponent_extended k fp exponent truncated in (VB valid, [ef_val fp']))) /\
  (forall k : fkind, forall (mantissa : N) exponent truncated f, u64_ok mantissa -> mantissa <> 0%N -> i32_ok exponent -> (22 <= f)%nat -> call f (lex_genv k) "moderate_path" [VInt U64 (Z.of_N mantissa); VInt I32 exponent; VB truncated] = Ok (let '(fp, valid) := moderate_path k mantissa exponent truncated in (VTup (ef_val fp) (VB valid), []))) /\
  (forall k : fkind, forall (integer fraction : list N) (mantissa : N) exponent mantissa_exponent truncated f, u64_ok mantissa -> mantissa <> 0%N -> i32_ok exponent -> i32_ok mantissa_exponent -> (26 <= f)%nat -> call f (lex_genv k) "fallback_path" [VBytes integer; VBytes fraction; VInt U64 (Z.of_N mantissa); VInt I32 exponent; VInt I32 mantissa_exponent; VB truncated] = Ok (VF (FBits (Z.of_N (fallback_path k integer fraction mantissa exponent mantissa_exponent truncated))), [])).
Proof.
  repeat (split; [first [ exact nth_bit_src | exact lower_n_mask_src | exact lower_n_halfway_src | exact internal_n_mask_src | exact shr_src | exact overflowing_shr_src | exact shl_src | exact into_i32_src | exact scientific_exponent_src | exact mantissa_exponent_src | exact to_digit_src | exact add_digit_src | exact round_nearest_src | exact tie_even_src | exact round_nearest_tie_even_src | exact round_toward_src | exact downard_src | exact round_downward_src | exact normalize_src | exact mul_src | exact imul_src | exact round_to_float_src | exact avoid_overflow_src | exact round_to_native_src | exact method_round_to_native_src | exact into_float_src | exact ef_into_float_src | exact ef_into_downward_float_src | exact error_scale_src | exact error_halfscale_src | exact nearest_error_is_accurate_src | exact error_is_accurate_src | exact is_special_src | exact fast_path_src | exact multiply_exponent_extended_src | exact moderate_path_src | exact fallback_path_src ]|]).
  exact fallback_path_src.
Qed.

Print Assumptions lexical_algorithm_is_translated_source.
Print Assumptions fast_path_src.
Print Assumptions multiply_exponent_extended_src.
Print Assumptions fallback_path_src.
