(* Proofs/RawSer.v — C19, part 2: serialising a RawValue (Model/RawM.v [rser], mirror of src/ser.rs with the
   `Compound::RawValue` / `RawValueStrEmitter` / `write_raw_fragment` path).

     rser_plain_*      [rser] on raw-free containers IS [Ser.ser] (the extension type adds nothing else)
     rser_raw          a RawValue is one `write_all` of its bytes; formatter state untouched (Compact and Pretty)
     rser_elems_raw_step / rser_entries_raw_step   at an element / value position: the enclosing begin_*/end_* calls, the bytes verbatim
     compact_seq_of_raws / compact_struct_of_raws  closed forms
     rser_context      ANY one-hole context (arrays, tuples, maps, structs, variants, Option, newtypes; any nesting; both
                       formatters; any formatter state): the output is  A ++ [json] ++ B  with A, B and the outcome
                       independent of json — or the run fails before reaching the hole, independently of json. *)
From SJ Require Import Base.Bytes Base.Utf8 Gen.Tables Model.Read Model.Num Model.Value Model.De Model.Sval Model.Ser Model.ValueSer Model.RawM.
Require Import Lia.
Open Scope N_scope.

(* ------------------------------------------------------------------------------------------ *)
(** * 1. The trace monad *)

Lemma tbind_ext {A B} (m : tr A) (k1 k2 : A -> tr B) : (forall a, k1 a = k2 a) -> tbind m k1 = tbind m k2.
Proof. intros H. destruct m as [o [a|c i| |]]; cbn [tbind]; [rewrite H|..]; reflexivity. Qed.

Section S.
Variable cf : cfg.
Variable fmt32 fmt64 : N -> bytes.
Variable F : formatter.

Notation rser' := (rser cf fmt32 fmt64 F).
Notation ser' := (ser cf fmt32 fmt64 F).

(* ------------------------------------------------------------------------------------------ *)
(** * 2. [rser] extends [ser] conservatively *)

Lemma rser_elems_plain (es : list sval) : forall cs st,
  rser_elems F rser' (map RPlain es) cs st = ser_elems F ser' es cs st.
Proof.
  induction es as [|e es IH]; intros cs st; cbn [map rser_elems ser_elems]; [reflexivity|].
  apply tbind_ext; intros st1. cbn [rser]. apply tbind_ext; intros st2. apply tbind_ext; intros st3. apply IH.
Qed.

Definition plain_entry {K} (kv : K * sval) : K * rsval := (fst kv, RPlain (snd kv)).

Lemma rser_entries_plain {K} (serkey : K -> tr unit) (l : list (K * sval)) : forall cs st,
  rser_entries F rser' serkey (map plain_entry l) cs st = ser_entries F ser' serkey l cs st.
Proof.
  induction l as [|[k v] l IH]; intros cs st; cbn [map rser_entries ser_entries plain_entry fst snd]; [reflexivity|].
  apply tbind_ext; intros st1. apply tbind_ext; intros u. apply tbind_ext; intros st2. apply tbind_ext; intros st3.
  cbn [rser]. apply tbind_ext; intros st4. apply tbind_ext; intros st5. apply IH.
Qed.

Theorem rser_plain_some v st : rser' (RSome (RPlain v)) st = ser' (SSome v) st.
Proof. reflexivity. Qed.
Theorem rser_plain_newtype_struct v st : rser' (RNewtypeStruct (RPlain v)) st = ser' (SNewtypeStruct v) st.
Proof. reflexivity. Qed.
Theorem rser_plain_newtype_variant name v st : rser' (RNewtypeVariant name (RPlain v)) st = ser' (SNewtypeVariant name v) st.
Proof. reflexivity. Qed.
Theorem rser_plain_seq h es st : rser' (RSeq h (map RPlain es)) st = ser' (SSeq h es) st.
Proof. cbn [rser ser]. apply tbind_ext; intros [cs st1]. rewrite rser_elems_plain. reflexivity. Qed.
Theorem rser_plain_tuple es st : rser' (RTuple (map RPlain es)) st = ser' (STuple es) st.
Proof. cbn [rser ser]. rewrite map_length. apply tbind_ext; intros [cs st1]. rewrite rser_elems_plain. reflexivity. Qed.
Theorem rser_plain_tuple_struct es st : rser' (RTupleStruct (map RPlain es)) st = ser' (STupleStruct es) st.
Proof. cbn [rser ser]. rewrite map_length. apply tbind_ext; intros [cs st1]. rewrite rser_elems_plain. reflexivity. Qed.
Theorem rser_plain_tuple_variant name es st : rser' (RTupleVariant name (map RPlain es)) st = ser' (STupleVariant name es) st.
Proof.
  cbn [rser ser]. rewrite map_length. apply tbind_ext; intros st0. apply tbind_ext; intros [cs st1].
  rewrite rser_elems_plain. reflexivity.
Qed.
Theorem rser_plain_map h kvs st : rser' (RMap h (map plain_entry kvs)) st = ser' (SMap h kvs) st.
Proof. cbn [rser ser]. apply tbind_ext; intros [cs st1]. rewrite rser_entries_plain. reflexivity. Qed.
Theorem rser_plain_struct fs st : rser' (RStruct (map plain_entry fs)) st = ser' (SStruct fs) st.
Proof. cbn [rser ser]. rewrite map_length. apply tbind_ext; intros [cs st1]. rewrite rser_entries_plain. reflexivity. Qed.
Theorem rser_plain_struct_variant name fs st : rser' (RStructVariant name (map plain_entry fs)) st = ser' (SStructVariant name fs) st.
Proof.
  cbn [rser ser]. rewrite map_length. apply tbind_ext; intros st0. apply tbind_ext; intros [cs st1].
  rewrite rser_entries_plain. reflexivity.
Qed.

(* ------------------------------------------------------------------------------------------ *)
(** * 3. The raw leaf, alone and at an element / value position *)

Theorem rser_raw json st : rser' (RRaw json) st = ([json], Ok st).
Proof. reflexivity. Qed.

Theorem rserialize_raw json : rserialize cf fmt32 fmt64 F (RRaw json) = Ok [json].
Proof. reflexivity. Qed.

Theorem rto_vec_raw json : rto_vec cf fmt32 fmt64 F (RRaw json) = Ok json.
Proof. unfold rto_vec. rewrite rserialize_raw. unfold rmap. cbn [bind concat]. now rewrite app_nil_r. Qed.

(* wrappers that serde treats as transparent *)
Theorem rto_vec_raw_some json : rto_vec cf fmt32 fmt64 F (RSome (RRaw json)) = Ok json.
Proof. exact (rto_vec_raw json). Qed.
Theorem rto_vec_raw_newtype json : rto_vec cf fmt32 fmt64 F (RNewtypeStruct (RRaw json)) = Ok json.
Proof. exact (rto_vec_raw json). Qed.

Theorem rser_elems_raw_step json rest cs st :
  rser_elems F rser' (RRaw json :: rest) cs st =
  (do* st1 := Ser.lift (begin_array_value F (is_first cs) st) in
   do* _ := twrite json in
   do* st3 := Ser.lift (end_array_value F st1) in
   rser_elems F rser' rest Rest st3).
Proof.
  cbn [rser_elems]. apply tbind_ext; intros st1. rewrite rser_raw. reflexivity.
Qed.

Theorem rser_entries_raw_step {K} (serkey : K -> tr unit) k json rest cs st :
  rser_entries F rser' serkey ((k, RRaw json) :: rest) cs st =
  (do* st1 := Ser.lift (begin_object_key F (is_first cs) st) in
   do* _ := serkey k in
   do* st2 := Ser.lift (end_object_key F st1) in
   do* st3 := Ser.lift (begin_object_value F st2) in
   do* _ := twrite json in
   do* st5 := Ser.lift (end_object_value F st3) in
   rser_entries F rser' serkey rest Rest st5).
Proof.
  cbn [rser_entries]. apply tbind_ext; intros st1. apply tbind_ext; intros u. apply tbind_ext; intros st2.
  apply tbind_ext; intros st3. rewrite rser_raw. reflexivity.
Qed.

(* a RawValue in key position: MapKeySerializer::serialize_struct *)
Theorem raw_key_is_error : raw_key_ser = ([], Err KeyMustBeAString O).
Proof. reflexivity. Qed.

(* ------------------------------------------------------------------------------------------ *)
(** * 4. One-hole contexts *)

Inductive rctx :=
  | XHole
  | XSome (x : rctx)
  | XNewtypeStruct (x : rctx)
  | XNewtypeVariant (name : bytes) (x : rctx)
  | XSeq (hint : option nat) (pre : list rsval) (x : rctx) (post : list rsval)
  | XTuple (pre : list rsval) (x : rctx) (post : list rsval)
  | XTupleStruct (pre : list rsval) (x : rctx) (post : list rsval)
  | XTupleVariant (name : bytes) (pre : list rsval) (x : rctx) (post : list rsval)
  | XMap (hint : option nat) (pre : list (sval * rsval)) (k : sval) (x : rctx) (post : list (sval * rsval))
  | XStruct (pre : list (bytes * rsval)) (k : bytes) (x : rctx) (post : list (bytes * rsval))
  | XStructVariant (name : bytes) (pre : list (bytes * rsval)) (k : bytes) (x : rctx) (post : list (bytes * rsval)).

Fixpoint plug (x : rctx) (v : rsval) : rsval :=
  match x with
  | XHole => v
  | XSome x1 => RSome (plug x1 v)
  | XNewtypeStruct x1 => RNewtypeStruct (plug x1 v)
  | XNewtypeVariant name x1 => RNewtypeVariant name (plug x1 v)
  | XSeq h pre x1 post => RSeq h (pre ++ plug x1 v :: post)
  | XTuple pre x1 post => RTuple (pre ++ plug x1 v :: post)
  | XTupleStruct pre x1 post => RTupleStruct (pre ++ plug x1 v :: post)
  | XTupleVariant name pre x1 post => RTupleVariant name (pre ++ plug x1 v :: post)
  | XMap h pre k x1 post => RMap h (pre ++ (k, plug x1 v) :: post)
  | XStruct pre k x1 post => RStruct (pre ++ (k, plug x1 v) :: post)
  | XStructVariant name pre k x1 post => RStructVariant name (pre ++ (k, plug x1 v) :: post)
  end.

Definition not_ok {T} (r : res T) : Prop := match r with Ok _ => False | _ => True end.

(* [g json] writes [json] exactly once, as one buffer, between buffers that do not depend on it — or fails before *)
Definition Holed {T} (g : bytes -> tr T) : Prop :=
  (exists A B fin, forall json, g json = (A ++ [json] ++ B, fin))
  \/ (exists A e, not_ok e /\ forall json, g json = (A, e)).

Lemma Holed_bind_l {T U} (g : bytes -> tr T) (k : T -> tr U) : Holed g -> Holed (fun json => tbind (g json) k).
Proof.
  intros [(A & B & fin & H)|(A & e & He & H)].
  - left. destruct fin as [a|c i| |].
    + destruct (k a) as [o2 r2] eqn:Hk. exists A, (B ++ o2), r2. intros json. rewrite H. cbn [tbind]. rewrite Hk.
      now rewrite <- !app_assoc.
    + exists A, B, (Err c i). intros json. rewrite H. reflexivity.
    + exists A, B, OutOfFuel. intros json. rewrite H. reflexivity.
    + exists A, B, Panic. intros json. rewrite H. reflexivity.
  - right. destruct e as [a|c i| |]; [contradiction He|..].
    + exists A, (Err c i). split; [exact I|]. intros json. rewrite H. reflexivity.
    + exists A, OutOfFuel. split; [exact I|]. intros json. rewrite H. reflexivity.
    + exists A, Panic. split; [exact I|]. intros json. rewrite H. reflexivity.
Qed.

Lemma Holed_bind_r {T U} (m : tr T) (k : T -> bytes -> tr U) :
  (forall a, Holed (k a)) -> Holed (fun json => tbind m (fun a => k a json)).
Proof.
  intros Hk. destruct m as [o [a|c i| |]].
  - destruct (Hk a) as [(A & B & fin & H)|(A & e & He & H)].
    + left. exists (o ++ A), B, fin. intros json. cbn [tbind]. rewrite H. now rewrite <- app_assoc.
    + right. exists (o ++ A), e. split; [exact He|]. intros json. cbn [tbind]. rewrite H. reflexivity.
  - right. exists o, (Err c i). split; [exact I|]. reflexivity.
  - right. exists o, OutOfFuel. split; [exact I|]. reflexivity.
  - right. exists o, Panic. split; [exact I|]. reflexivity.
Qed.

Lemma Holed_ext {T} (g1 g2 : bytes -> tr T) : (forall json, g1 json = g2 json) -> Holed g2 -> Holed g1.
Proof.
  intros He [(A & B & fin & H)|(A & e & Hn & H)].
  - left. exists A, B, fin. intros json. now rewrite He.
  - right. exists A, e. split; [exact Hn|]. intros json. now rewrite He.
Qed.

Lemma Holed_elems (g : bytes -> rsval) (pre post : list rsval) :
  (forall st, Holed (fun json => rser' (g json) st)) ->
  forall cs st, Holed (fun json => rser_elems F rser' (pre ++ g json :: post) cs st).
Proof.
  intros Hg. induction pre as [|a pre IH]; intros cs st; cbn [app rser_elems].
  - apply (Holed_bind_r _ (fun st1 json =>
        do* st2 := rser' (g json) st1 in do* st3 := Ser.lift (end_array_value F st2) in rser_elems F rser' post Rest st3)).
    intros st1. apply (Holed_bind_l (fun json => rser' (g json) st1)). apply Hg.
  - apply (Holed_bind_r _ (fun st1 json =>
        do* st2 := rser' a st1 in do* st3 := Ser.lift (end_array_value F st2) in rser_elems F rser' (pre ++ g json :: post) Rest st3)).
    intros st1.
    apply (Holed_bind_r _ (fun st2 json => do* st3 := Ser.lift (end_array_value F st2) in rser_elems F rser' (pre ++ g json :: post) Rest st3)).
    intros st2.
    apply (Holed_bind_r _ (fun st3 json => rser_elems F rser' (pre ++ g json :: post) Rest st3)).
    intros st3. apply IH.
Qed.

Lemma Holed_entries {K} (serkey : K -> tr unit) (g : bytes -> rsval) (pre post : list (K * rsval)) (k : K) :
  (forall st, Holed (fun json => rser' (g json) st)) ->
  forall cs st, Holed (fun json => rser_entries F rser' serkey (pre ++ (k, g json) :: post) cs st).
Proof.
  intros Hg. induction pre as [|[k0 a] pre IH]; intros cs st; cbn [app rser_entries].
  - apply (Holed_bind_r _ (fun st1 json =>
        do* _ := serkey k in do* st2 := Ser.lift (end_object_key F st1) in do* st3 := Ser.lift (begin_object_value F st2) in
        do* st4 := rser' (g json) st3 in do* st5 := Ser.lift (end_object_value F st4) in rser_entries F rser' serkey post Rest st5)).
    intros st1.
    apply (Holed_bind_r _ (fun (_ : unit) json =>
        do* st2 := Ser.lift (end_object_key F st1) in do* st3 := Ser.lift (begin_object_value F st2) in
        do* st4 := rser' (g json) st3 in do* st5 := Ser.lift (end_object_value F st4) in rser_entries F rser' serkey post Rest st5)).
    intros _.
    apply (Holed_bind_r _ (fun st2 json =>
        do* st3 := Ser.lift (begin_object_value F st2) in
        do* st4 := rser' (g json) st3 in do* st5 := Ser.lift (end_object_value F st4) in rser_entries F rser' serkey post Rest st5)).
    intros st2.
    apply (Holed_bind_r _ (fun st3 json =>
        do* st4 := rser' (g json) st3 in do* st5 := Ser.lift (end_object_value F st4) in rser_entries F rser' serkey post Rest st5)).
    intros st3. apply (Holed_bind_l (fun json => rser' (g json) st3)). apply Hg.
  - apply (Holed_bind_r _ (fun st1 json =>
        do* _ := serkey k0 in do* st2 := Ser.lift (end_object_key F st1) in do* st3 := Ser.lift (begin_object_value F st2) in
        do* st4 := rser' a st3 in do* st5 := Ser.lift (end_object_value F st4) in
        rser_entries F rser' serkey (pre ++ (k, g json) :: post) Rest st5)).
    intros st1.
    apply (Holed_bind_r _ (fun (_ : unit) json =>
        do* st2 := Ser.lift (end_object_key F st1) in do* st3 := Ser.lift (begin_object_value F st2) in
        do* st4 := rser' a st3 in do* st5 := Ser.lift (end_object_value F st4) in
        rser_entries F rser' serkey (pre ++ (k, g json) :: post) Rest st5)).
    intros _.
    apply (Holed_bind_r _ (fun st2 json =>
        do* st3 := Ser.lift (begin_object_value F st2) in
        do* st4 := rser' a st3 in do* st5 := Ser.lift (end_object_value F st4) in
        rser_entries F rser' serkey (pre ++ (k, g json) :: post) Rest st5)).
    intros st2.
    apply (Holed_bind_r _ (fun st3 json =>
        do* st4 := rser' a st3 in do* st5 := Ser.lift (end_object_value F st4) in
        rser_entries F rser' serkey (pre ++ (k, g json) :: post) Rest st5)).
    intros st3.
    apply (Holed_bind_r _ (fun st4 json =>
        do* st5 := Ser.lift (end_object_value F st4) in rser_entries F rser' serkey (pre ++ (k, g json) :: post) Rest st5)).
    intros st4.
    apply (Holed_bind_r _ (fun st5 json => rser_entries F rser' serkey (pre ++ (k, g json) :: post) Rest st5)).
    intros st5. apply IH.
Qed.

Lemma length_hole {A} (pre post : list A) (a b : A) : length (pre ++ a :: post) = length (pre ++ b :: post).
Proof. now rewrite !app_length. Qed.

Theorem rser_context : forall (x : rctx) (st : fstate), Holed (fun json => rser' (plug x (RRaw json)) st).
Proof.
  induction x as [|x IH|x IH|name x IH|h pre x IH post|pre x IH post|pre x IH post|name pre x IH post
                  |h pre k x IH post|pre k x IH post|name pre k x IH post]; intros st; cbn [plug].
  - left. exists [], [], (Ok st). intros json. reflexivity.
  - cbn [rser]. apply IH.
  - cbn [rser]. apply IH.
  - cbn [rser].
    apply (Holed_bind_r _ (fun st1 json => do* st2 := rser' (plug x (RRaw json)) st1 in close_variant F st2)).
    intros st1. apply (Holed_bind_l (fun json => rser' (plug x (RRaw json)) st1)). apply IH.
  - cbn [rser].
    apply (Holed_bind_r _ (fun (p : cstate * fstate) json =>
        let '(cs, st1) := p in
        do* (cs2, st2) := rser_elems F rser' (pre ++ plug x (RRaw json) :: post) cs st1 in close_seq F cs2 st2)).
    intros [cs st1].
    apply (Holed_bind_l (fun json => rser_elems F rser' (pre ++ plug x (RRaw json) :: post) cs st1)).
    apply (Holed_elems (fun json => plug x (RRaw json))). exact IH.
  - cbn [rser]. eapply Holed_ext.
    { intros json. rewrite (length_hole pre post (plug x (RRaw json)) (RRaw [])). reflexivity. }
    apply (Holed_bind_r _ (fun (p : cstate * fstate) json =>
        let '(cs, st1) := p in
        do* (cs2, st2) := rser_elems F rser' (pre ++ plug x (RRaw json) :: post) cs st1 in close_seq F cs2 st2)).
    intros [cs st1].
    apply (Holed_bind_l (fun json => rser_elems F rser' (pre ++ plug x (RRaw json) :: post) cs st1)).
    apply (Holed_elems (fun json => plug x (RRaw json))). exact IH.
  - cbn [rser]. eapply Holed_ext.
    { intros json. rewrite (length_hole pre post (plug x (RRaw json)) (RRaw [])). reflexivity. }
    apply (Holed_bind_r _ (fun (p : cstate * fstate) json =>
        let '(cs, st1) := p in
        do* (cs2, st2) := rser_elems F rser' (pre ++ plug x (RRaw json) :: post) cs st1 in close_seq F cs2 st2)).
    intros [cs st1].
    apply (Holed_bind_l (fun json => rser_elems F rser' (pre ++ plug x (RRaw json) :: post) cs st1)).
    apply (Holed_elems (fun json => plug x (RRaw json))). exact IH.
  - cbn [rser]. eapply Holed_ext.
    { intros json. rewrite (length_hole pre post (plug x (RRaw json)) (RRaw [])). reflexivity. }
    apply (Holed_bind_r _ (fun st0 json =>
        do* (cs, st1) := open_seq F (Some (length (pre ++ RRaw [] :: post))) st0 in
        do* (cs2, st2) := rser_elems F rser' (pre ++ plug x (RRaw json) :: post) cs st1 in
        do* st3 := close_seq F cs2 st2 in close_variant F st3)).
    intros st0.
    apply (Holed_bind_r _ (fun (p : cstate * fstate) json =>
        let '(cs, st1) := p in
        do* (cs2, st2) := rser_elems F rser' (pre ++ plug x (RRaw json) :: post) cs st1 in
        do* st3 := close_seq F cs2 st2 in close_variant F st3)).
    intros [cs st1].
    apply (Holed_bind_l (fun json => rser_elems F rser' (pre ++ plug x (RRaw json) :: post) cs st1)).
    apply (Holed_elems (fun json => plug x (RRaw json))). exact IH.
  - cbn [rser].
    apply (Holed_bind_r _ (fun (p : cstate * fstate) json =>
        let '(cs, st1) := p in
        do* (cs2, st2) := rser_entries F rser' (key_ser fmt32 fmt64) (pre ++ (k, plug x (RRaw json)) :: post) cs st1 in
        close_map F cs2 st2)).
    intros [cs st1].
    apply (Holed_bind_l (fun json => rser_entries F rser' (key_ser fmt32 fmt64) (pre ++ (k, plug x (RRaw json)) :: post) cs st1)).
    apply (Holed_entries (key_ser fmt32 fmt64) (fun json => plug x (RRaw json))). exact IH.
  - cbn [rser]. eapply Holed_ext.
    { intros json. rewrite (length_hole pre post (k, plug x (RRaw json)) (k, RRaw [])). reflexivity. }
    apply (Holed_bind_r _ (fun (p : cstate * fstate) json =>
        let '(cs, st1) := p in
        do* (cs2, st2) := rser_entries F rser' format_escaped_str (pre ++ (k, plug x (RRaw json)) :: post) cs st1 in
        close_map F cs2 st2)).
    intros [cs st1].
    apply (Holed_bind_l (fun json => rser_entries F rser' format_escaped_str (pre ++ (k, plug x (RRaw json)) :: post) cs st1)).
    apply (Holed_entries format_escaped_str (fun json => plug x (RRaw json))). exact IH.
  - cbn [rser]. eapply Holed_ext.
    { intros json. rewrite (length_hole pre post (k, plug x (RRaw json)) (k, RRaw [])). reflexivity. }
    apply (Holed_bind_r _ (fun st0 json =>
        do* (cs, st1) := open_map F (Some (length (pre ++ (k, RRaw []) :: post))) st0 in
        do* (cs2, st2) := rser_entries F rser' format_escaped_str (pre ++ (k, plug x (RRaw json)) :: post) cs st1 in
        do* st3 := close_map F cs2 st2 in close_variant F st3)).
    intros st0.
    apply (Holed_bind_r _ (fun (p : cstate * fstate) json =>
        let '(cs, st1) := p in
        do* (cs2, st2) := rser_entries F rser' format_escaped_str (pre ++ (k, plug x (RRaw json)) :: post) cs st1 in
        do* st3 := close_map F cs2 st2 in close_variant F st3)).
    intros [cs st1].
    apply (Holed_bind_l (fun json => rser_entries F rser' format_escaped_str (pre ++ (k, plug x (RRaw json)) :: post) cs st1)).
    apply (Holed_entries format_escaped_str (fun json => plug x (RRaw json))). exact IH.
Qed.

End S.

(* ------------------------------------------------------------------------------------------ *)
(** * 5. Closed forms for the compact formatter *)

Fixpoint commas (l : list bytes) : bytes :=
  match l with
  | [] => []
  | [x] => x
  | x :: r => x ++ 44 :: commas r
  end.

Fixpoint elem_bufs (first : bool) (rs : list bytes) : list bytes :=
  match rs with
  | [] => []
  | r :: rs' => (if first then [] else [[44]]) ++ [r] ++ elem_bufs false rs'
  end.

Lemma concat_elem_bufs_false (rs : list bytes) :
  concat (elem_bufs false rs) = match rs with [] => [] | _ => 44 :: commas rs end.
Proof.
  induction rs as [|r rs IH]; [reflexivity|].
  cbn [elem_bufs app concat]. rewrite IH. destruct rs as [|r2 rs]; cbn [commas app]; [now rewrite app_nil_r|reflexivity].
Qed.

Lemma concat_elem_bufs_true (rs : list bytes) : concat (elem_bufs true rs) = commas rs.
Proof.
  destruct rs as [|r rs]; [reflexivity|]. cbn [elem_bufs app concat]. rewrite concat_elem_bufs_false.
  destruct rs; cbn [commas]; [now rewrite app_nil_r|reflexivity].
Qed.

Section Compact.
Variable cf : cfg.
Variable fmt32 fmt64 : N -> bytes.
Notation rserc := (rser cf fmt32 fmt64 Compact).

Lemma compact_elems_of_raws (rs : list bytes) : forall cs st,
  rser_elems Compact rserc (map RRaw rs) cs st
  = (elem_bufs (is_first cs) rs, Ok (match rs with [] => cs | _ => Rest end, st)).
Proof.
  induction rs as [|r rs IH]; intros cs st; [reflexivity|].
  cbn [map]. rewrite rser_elems_raw_step. cbn [begin_array_value end_array_value Ser.lift fst snd tbind twrite].
  rewrite IH. cbn [is_first elem_bufs]. destruct (is_first cs); cbn [app]; destruct rs; reflexivity.
Qed.

(* Vec<&RawValue> / Vec<Box<RawValue>> / a tuple of RawValues: `[` the texts separated by `,` `]` — nothing else *)
Theorem compact_seq_of_raws (h : option nat) (rs : list bytes) :
  (is_some0 h = true -> rs = []) ->
  rto_vec cf fmt32 fmt64 Compact (RSeq h (map RRaw rs)) = Ok (91 :: commas rs ++ [93]).
Proof.
  intros Hh. unfold rto_vec, rserialize, rserialize_trace. cbn [rser open_seq begin_array end_array Ser.lift fst snd tbind].
  destruct (is_some0 h) eqn:H0.
  - rewrite (Hh eq_refl). reflexivity.
  - cbn [tbind tret]. rewrite compact_elems_of_raws. cbn [is_first tbind app].
    destruct rs as [|r rs].
    + reflexivity.
    + cbn [close_seq end_array Ser.lift fst snd tbind tret rmap bind].
      rewrite !app_nil_r. f_equal. cbn [concat app]. f_equal.
      rewrite concat_app. cbn [concat]. rewrite app_nil_r. f_equal.
      change (elem_bufs true (r :: rs)) with ([] ++ [r] ++ elem_bufs false rs).
      exact (concat_elem_bufs_true (r :: rs)).
Qed.

Theorem compact_tuple_of_raws (rs : list bytes) :
  rs <> [] -> rto_vec cf fmt32 fmt64 Compact (RTuple (map RRaw rs)) = Ok (91 :: commas rs ++ [93]).
Proof.
  intros Hne. rewrite <- (compact_seq_of_raws (Some (length (map RRaw rs))) rs).
  - reflexivity.
  - rewrite map_length. destruct rs; [congruence|discriminate].
Qed.

(* a struct whose fields are all RawValues: `{` "name" `:` text , ... `}` *)
Definition esc_key (k : bytes) : bytes := concat (fst (format_escaped_str k)).

Fixpoint fields_text (fs : list (bytes * bytes)) : bytes :=
  match fs with
  | [] => []
  | [(k, r)] => esc_key k ++ 58 :: r
  | (k, r) :: rest => esc_key k ++ 58 :: r ++ 44 :: fields_text rest
  end.

Definition raw_field (kr : bytes * bytes) : bytes * rsval := (fst kr, RRaw (snd kr)).

(* format_escaped_str always ends well (the escape table has no entry that reaches unreachable!) unless it panics;
   the closed form is stated for keys on which it succeeds, which is every key: see Proofs/SerBase.v *)
Definition key_ok (k : bytes) : Prop := snd (format_escaped_str k) = Ok tt.

Lemma compact_entries_of_raws (fs : list (bytes * bytes)) : Forall (fun kr => key_ok (fst kr)) fs -> forall cs st,
  exists bufs,
    rser_entries Compact rserc format_escaped_str (map raw_field fs) cs st
      = (bufs, Ok (match fs with [] => cs | _ => Rest end, st))
    /\ concat bufs = match fs with [] => [] | _ => (if is_first cs then [] else [44]) ++ fields_text fs end.
Proof.
  induction 1 as [|[k r] fs Hk Hfs IH]; intros cs st.
  - exists []. split; reflexivity.
  - unfold key_ok in Hk. cbn [fst] in Hk. destruct (format_escaped_str k) as [ko kr] eqn:Hfk. cbn [snd] in Hk. subst kr.
    destruct (IH Rest st) as (bufs & Heq & Hc).
    assert (Hm : match fs with [] => Rest | _ :: _ => Rest end = Rest) by (destruct fs; reflexivity).
    rewrite Hm in Heq. clear Hm.
    exists (((if is_first cs then [] else [[44]]) ++ ko ++ [[58]] ++ [r]) ++ bufs). split.
    + cbn [map]. change (raw_field (k, r)) with (k, RRaw r). rewrite rser_entries_raw_step.
      cbn [begin_object_key end_object_key begin_object_value end_object_value Ser.lift fst snd tbind twrite].
      rewrite Hfk. cbn [tbind]. rewrite Heq. cbn [app]. rewrite ?app_nil_r. rewrite <- ?app_assoc. reflexivity.
    + rewrite !concat_app. cbn [concat app]. rewrite !app_nil_r. rewrite Hc.
      assert (He : esc_key k = concat ko) by (unfold esc_key; rewrite Hfk; reflexivity).
      destruct (is_first cs); destruct fs as [|[k2 r2] fs]; cbn [is_first fields_text app concat];
        rewrite He, <- ?app_assoc; cbn [app]; rewrite ?app_nil_r; reflexivity.
Qed.

Theorem compact_struct_of_raws (fs : list (bytes * bytes)) :
  fs <> [] -> Forall (fun kr => key_ok (fst kr)) fs ->
  rto_vec cf fmt32 fmt64 Compact (RStruct (map raw_field fs)) = Ok (123 :: fields_text fs ++ [125]).
Proof.
  intros Hne Hk. unfold rto_vec, rserialize, rserialize_trace. cbn [rser open_map begin_object end_object Ser.lift fst snd tbind].
  rewrite map_length. destruct fs as [|kr fs]; [congruence|]. cbn [length is_some0 tbind tret].
  destruct (compact_entries_of_raws (kr :: fs) Hk First fs0) as (bufs & -> & Hc).
  cbn [tbind close_map end_object Ser.lift fst snd tret rmap bind app].
  rewrite !app_nil_r. f_equal. cbn [concat app]. f_equal. rewrite concat_app. cbn [concat]. rewrite app_nil_r, Hc. reflexivity.
Qed.
End Compact.

(* ------------------------------------------------------------------------------------------ *)
(** * 6. Examples (both formatters); the raw texts keep their own spacing *)

Definition cfg0 := mkCfg false false false false.
Definition nofmt (_ : N) : bytes := [].

(* raw.rs doc example: Output { info: (u32, &RawValue) } with code 200 and payload `{}`  ==>  {"info":[200,{}]} *)
Example raw_doc_example :
  rto_vec cfg0 nofmt nofmt Compact
    (RStruct [([105;110;102;111], RTuple [RPlain (SInt U32 200); RRaw [123;125]])])
  = Ok [123; 34;105;110;102;111;34; 58; 91; 50;48;48; 44; 123;125; 93; 125].
Proof. vm_compute. reflexivity. Qed.

(* PrettyFormatter with indent "  ": [ `{ "a" : 1 }` , `[1,  2]` ]  — indentation around the fragments, fragments untouched *)
Example raw_pretty_example :
  rto_vec cfg0 nofmt nofmt (Pretty [32;32])
    (RSeq (Some 2%nat) [RRaw [123;32;34;97;34;32;58;32;49;32;125]; RRaw [91;49;44;32;32;50;93]])
  = Ok ([91;10] ++ [32;32] ++ [123;32;34;97;34;32;58;32;49;32;125] ++ [44;10] ++ [32;32] ++ [91;49;44;32;32;50;93] ++ [10;93]).
Proof. vm_compute. reflexivity. Qed.

Print Assumptions rser_raw.
Print Assumptions rto_vec_raw.
Print Assumptions rser_plain_seq.
Print Assumptions rser_plain_map.
Print Assumptions rser_context.
Print Assumptions compact_seq_of_raws.
Print Assumptions compact_struct_of_raws.
