(* Proofs/ValueDeAgreeEnum.v — C16, second clause, extended to externally tagged enums (serde_derive's visitor, the seed's EnumV):
   from_value agrees with the text deserializer on the text the serializer prints for the Value, for the type programs of
   [agree_ty_enum] = [agree_ty_struct] (Proofs/ValueDeAgreeStruct.v) + `TEnum variants` with the four variant kinds:
     "Variant"                      unit variant (UnitVariantAccess / EnumDeserializer with value None)
     {"Variant": null}              unit variant
     {"Variant": payload}           newtype variant
     {"Variant": [e1, .., en]}      tuple variant
     {"Variant": {"field": ..}}     struct variant
   An object with no or with more than one member is an error on both routes.
   Two shapes are outside the claim ([claimb], Proofs/ValueDeAgreeMap.v), because the two routes genuinely disagree on them — both
   are accepted from text and rejected from a Value ([C16_ex_tuple0_variant], [C16_ex_struct_variant_array] below):
     - a tuple variant without components on `{"V":[]}`   (value/de.rs tuple_variant: an empty array is visit_unit),
     - a struct variant written as an array `{"V":[..]}`   (value/de.rs struct_variant accepts objects only). *)
From SJ Require Import Base.Bytes Base.Utf8 Base.FloatB Gen.Tables
  Model.Read Model.Str Model.Num Model.NumF32 Model.Value Model.De Model.Ignore Model.Ty Model.NumberM Model.DeTyped Model.ValueDe
  Spec.Syntax Spec.Denote Proofs.GrammarIgnore Proofs.GrammarValueComplete Proofs.SerValue Proofs.GrammarValueBase Proofs.GrammarStr Proofs.GrammarNum
  Proofs.ValueDeRef Proofs.ValueDeAgree.
From SJ Require Import Proofs.SerRender Proofs.SerWf Proofs.SerDenote Proofs.ValueDeAgreeKey Proofs.ValueDeAgreeMap Proofs.ValueDeAgreeStruct.
Require Import Lia ZifyBool ZifyNat ZifyN.
Open Scope N_scope.

(* ---- nesting of a variant list ------------------------------------------------------------------------------------------------------------ *)
Definition vdepth (vr : variant) : nat :=
  match vr with
  | VUnit => 1%nat
  | VNewtype t1 => ty_depth t1
  | VTuple ts => S (lmax_depth ts)
  | VStruct fs => S (S (fmax_depth fs))
  end.
Definition vmax_depth (vs : list (bytes * variant)) : nat := fold_right (fun p m => Nat.max (vdepth (snd p)) m) O vs.

Lemma ty_depth_enum vs : ty_depth (TEnum vs) = S (vmax_depth vs).
Proof. reflexivity. Qed.

Lemma vmax_depth_in vs p : In p vs -> (vdepth (snd p) <= vmax_depth vs)%nat.
Proof.
  induction vs as [|x vs IH]; [intros []|]. cbn [vmax_depth fold_right]. intros [->|Hin]; [lia|]. specialize (IH Hin). unfold vmax_depth in IH. lia.
Qed.

Lemma vfuel_pos c : (1 <= vfuel c)%nat.
Proof. destruct c; cbn [vfuel]; lia. Qed.

Section Enum2.
  Variable NR : numlit -> num -> Prop.
  Variable cf : cfg.
  Variable fx : fenv.
  Hypothesis Hap : arbitrary_precision cf = false.
  Local Notation E := (mkEnv RSlice TEof cf).
  Local Notation shp2 := (shape2 NR).
  Local Notation shp2_elems := (shape2_elems NR).
  Local Notation shp2_members := (shape2_members NR).
  Local Notation agree_at2 := (agree_at2 NR cf fx).

  (* ---- the text side, named ------------------------------------------------------------------------------------------------------------ *)
  Definition payload_text (f : nat) (vr : variant) (s3 : st) : tres (dval * st) :=
    match vr with
    | VUnit => deserialize_unit E s3
    | VNewtype t1 => de_typed f E t1 s3
    | VTuple ts => tmap DSeq (deserialize_seq E (fun s'' => de_tuple f E ts true s'') s3)
    | VStruct fields => de_struct f E fields s3
    end.

  Definition enum_body_map (f : nat) (vs : list (bytes * variant)) (s' : st) : tres (dval * st) :=
    let+ (name, v, s2) := deserialize_str E (visit_variant vs) s' in
    let^ s3 := parse_object_colon E s2 in
    tmap (DVariant name) (payload_text f v s3).

  Definition enum_body_unit (vs : list (bytes * variant)) (s' : st) : tres (dval * st) :=
    let+ (name, v, s2) := deserialize_str E (visit_variant vs) s' in
    match v with
    | VUnit => TOk (DVariant name DUnit, s2)
    | _ => TUnpos MInvalidType s2
    end.

  Lemma de_typed_enum_S f vs s : de_typed (S f) E (TEnum vs) s = deserialize_enum E (enum_body_map f vs) (enum_body_unit vs) s.
  Proof. reflexivity. Qed.

  (* what deserialize_enum does with the result of the variant access *)
  Definition enum_after {A} (r : tres (A * st)) : tres (A * st) :=
    match r with
    | TOk (a, s3) =>
      let^ s4 := leave E s3 in
      let^ (o2, s5) := parse_whitespace E s4 in
      match o2 with
      | Some c => if c =? 125 then TOk (a, discard s5) else lift (error E s5 ExpectedSomeValue)
      | None => lift (error E s5 EofWhileParsingObject)
      end
    | TUnpos k s3 => let^ s4 := leave E s3 in TUnpos k s4
    | r => r
    end.

  Lemma deserialize_enum_obj {A} (bm bu : st -> tres (A * st)) s s1 s2 :
    parse_whitespace E s = Ok (Some 123, s1) -> enter E s1 = Ok s2 -> deserialize_enum E bm bu s = enum_after (bm (discard s2)).
  Proof. intros Hpw Hen. unfold deserialize_enum. rewrite Hpw. cbn [lift tbind]. change (123 =? 123) with true. cbv iota. rewrite Hen. cbn [lift tbind]. unfold enum_after. destruct (bm (discard s2)) as [[a s3]| | | |]; reflexivity. Qed.

  Lemma enum_after_fail {A} (r : tres (A * st)) : not_ok r -> not_ok (enum_after r).
  Proof.
    intros H a. unfold enum_after. destruct r as [[x s3]| | | |]; try discriminate.
    - exfalso. exact (H _ eq_refl).
    - destruct (leave E s); cbn [lift tbind]; discriminate.
  Qed.

  (* something else than the closing brace follows the payload *)
  Lemma enum_after_blocked {A} (a : A) s3 w b r : ws_ok w = true -> ws_byte b = false -> b <> 125 -> rest s3 = w ++ b :: r ->
    not_ok (enum_after (TOk (a, s3))).
  Proof.
    intros Hw Hb H125 Hr x. unfold enum_after.
    destruct (leave E s3) as [s4| | |] eqn:Hl; cbn [lift tbind]; try discriminate.
    apply leave_inv in Hl as [Hr4 _]. rewrite Hr in Hr4.
    destruct (pws_head cf s4 w b r Hw Hb Hr4) as (s5 & Hpw & _). rewrite Hpw. cbn [lift tbind].
    apply N.eqb_neq in H125. rewrite H125. unfold error, lift. discriminate.
  Qed.

  Lemma enum_after_stuck {A} (a : A) s3 : stuck (rest s3) -> not_ok (enum_after (TOk (a, s3))).
  Proof.
    intros (b & r & Hr & Hb). apply (enum_after_blocked a s3 [] b r eq_refl); [| |exact Hr]; destruct Hb as [->|[->| ->]]; try reflexivity; discriminate.
  Qed.

  Lemma enum_after_ok {A} (a : A) n s s1 s2 s3 wl rst :
    dbudget cf (S n) (depth s) -> enter E s1 = Ok s2 -> depth s1 = depth s ->
    depth (discard s2) = (if limit_disabled cf then depth s else depth s - 1) ->
    ws_ok wl = true -> rest s3 = wl ++ 125 :: rst -> depth s3 = depth (discard s2) ->
    exists s5, enum_after (TOk (a, s3)) = TOk (a, s5) /\ rest s5 = rst /\ depth s5 = depth s.
  Proof.
    intros Hdb Hen Hd1 Hd2 Hwl Hr3 Hd3. unfold enum_after.
    destruct (leave_fwd cf s3) as (s4 & Hlv & Hr4 & Hd4).
    { intros Hl. specialize (Hdb Hl). rewrite Hd3, Hd2, Hl. lia. }
    rewrite Hlv. cbn [lift tbind]. rewrite Hr3 in Hr4.
    destruct (pws_head cf s4 wl 125 rst Hwl eq_refl Hr4) as (s5 & Hpw & Hr5 & Hd5). rewrite Hpw. cbn [lift tbind].
    change (125 =? 125) with true. cbv iota. eexists. split; [reflexivity|]. split; [rewrite discard_rest, Hr5; reflexivity|].
    rewrite discard_depth, Hd5, Hd4, Hd3, Hd2. unfold dbudget in Hdb. destruct (limit_disabled cf); [reflexivity|].
    specialize (Hdb eq_refl). lia.
  Qed.

  (* ---- the payload of a variant ------------------------------------------------------------------------------------------------------------ *)
  Definition variant_ok (vr : variant) : Prop :=
    match vr with
    | VUnit => True
    | VNewtype t1 => agree_at2 t1
    | VTuple ts => forall t, In t ts -> agree_at2 t
    | VStruct fs => forall p, In p fs -> agree_at2 (snd p)
    end.

  Lemma payload_agree vr c x f fv s w rst :
    variant_ok vr -> wfb c = true -> denote cf c = Some x -> shp2 c x -> claim_variant (claimb fv) vr x = true -> wf_value cf x = true ->
    ws_ok w = true -> follow_ok rst -> dbudget cf (cdepth c) (depth s) -> rest s = w ++ render c ++ rst ->
    (vdepth vr + vfuel c <= f)%nat -> (vdepth vr < fv)%nat ->
    okrel2 unborrow (variant_payload_owned (de_value_owned fv cf fx) vr (Some x)) (payload_text f vr s) s rst.
  Proof.
    intros Hvr Hwf Hden Hsh Hcl Hwv Hw Hfol Hdb Hr Hfuel Hfv.
    destruct vr as [|t1|ts|fields]; cbn [variant_ok vdepth claim_variant variant_payload_owned payload_text] in *.
    - (* unit *)
      change (match x with VNull => VOk DUnit | _ => verr MInvalidType end) with (de_value_owned 2 cf fx TUnit x).
      destruct f as [|f]; [lia|]. change (deserialize_unit E s) with (de_typed (S f) E TUnit s).
      apply (agree_leaf2 NR cf fx Hap TUnit eq_refl c x (S f) 2%nat s w rst); try assumption; try reflexivity.
    - (* newtype *) apply (Hvr c x f fv s w rst); assumption.
    - (* tuple *)
      destruct (render_first c Hwf) as (b & r & Hren & Hbws & _).
      pose proof Hr as Hr0. rewrite Hren in Hr. revert Hr. lnorm. intros Hr.
      destruct (first_not c b r Hwf Hren) as (_ & Hn91 & _).
      assert (Hrej : (forall w0 es, c <> CArr w0 es) -> not_ok (tmap DSeq (deserialize_seq E (fun s'' => de_tuple f E ts true s'') s))).
      { intros Hc. destruct f as [|f]; [pose proof (vfuel_pos c); lia|].
        intros a. apply (reject_not_ok cf (TTuple ts) (S f) s w b (r ++ rst) Hw Hbws Hr). cbn [rejects]. apply Hn91, Hc. }
      destruct c as [| | |n|ps|w0 es|w0 ms]; destruct x as [|[|]| | |l|m]; cbn [shape2 shape] in Hsh; try discriminate Hsh; try contradiction;
        unfold verr.
      all: try (apply okrel2_not_ok; apply Hrej; intros; discriminate).
      cbn [wfb denote] in Hwf, Hden. apply andb_prop in Hwf as [Hw0 Hwfe].
      destruct (denote_elems cf es) as [l'|] eqn:Hde; [|discriminate Hden]. injection Hden as <-.
      rewrite render_arr in Hr0. revert Hr0. lnorm. intros Hr0.
      destruct (open_frame cf 91 _ (cdepth_elems es) s w Hw eq_refl Hr0 Hdb) as (s1 & s2 & Hpw & Hen & Hrb & Hd1 & Hd2 & Hdb2).
      unfold deserialize_seq. rewrite Hpw. cbn [lift tbind]. change (91 =? 91) with true. cbv iota.
      cbn [vfuel] in Hfuel. cbn [wf_value] in Hwv. apply andb_prop in Hcl as [Hne Hcl].
      assert (Hta := tuple_array NR cf fx Hap DSeq ts w0 es l' f fv s s1 s2 rst (lmax_depth ts)
                       (fun a b' Hab => f_equal DSeq Hab) (fun t Hin => conj (Hvr t Hin) (lmax_depth_in' ts t Hin))
                       Hw0 Hwfe Hde Hsh Hcl Hwv Hdb Hen Hrb Hd1 Hd2 Hdb2).
      assert (Hf1 : (lmax_depth ts + sfuel es <= f)%nat) by (clear - Hfuel; lia).
      assert (Hf2 : (lmax_depth ts < fv)%nat) by (clear - Hfv; lia). specialize (Hta Hf1 Hf2).
      destruct l' as [|x0 l'']; [|exact Hta].
      (* `[]`: the Value route answers visit_unit; the text route misses a component (the variant has one: [claimb]) *)
      destruct ts as [|t ts']; [discriminate Hne|]. exact Hta.
    - (* struct *)
      destruct (render_first c Hwf) as (b & r & Hren & Hbws & _).
      pose proof Hr as Hr0. rewrite Hren in Hr. revert Hr. lnorm. intros Hr.
      destruct (first_not c b r Hwf Hren) as (_ & Hn91 & Hn123 & _).
      assert (HIH' : forall p, In p fields -> agree_at2 (snd p) /\ (ty_depth (snd p) <= S (fmax_depth fields))%nat).
      { intros p Hp. split; [apply Hvr, Hp|]. pose proof (fmax_depth_in fields p Hp). lia. }
      destruct c as [| | |n|ps|w0 es|w0 ms]; destruct x as [|[|]| | |l|m]; cbn [shape2 shape] in Hsh; try discriminate Hsh; try contradiction;
        unfold verr; try discriminate Hcl.
      all: try (apply okrel2_not_ok; apply (struct_reject cf fields f s w b (r ++ rst) Hw Hbws Hr); [apply Hn91|apply Hn123]; intros; discriminate).
      apply (struct_obj NR cf fx Hap fields w0 ms m f fv s w rst (S (fmax_depth fields))); try assumption; [clear - Hfuel; lia|clear - Hfv; lia].
  Qed.

  (* ---- enums ----------------------------------------------------------------------------------------------------------------------------- *)
  Lemma enum_reject vs f s w b r : ws_ok w = true -> ws_byte b = false -> rest s = w ++ b :: r -> b <> 123 -> b <> 34 ->
    not_ok (de_typed (S f) E (TEnum vs) s).
  Proof.
    intros Hw Hb Hr H123 H34 a. rewrite de_typed_enum_S. destruct (pws_head cf s w b r Hw Hb Hr) as (s1 & Hpw & _).
    unfold deserialize_enum. rewrite Hpw. cbn [lift tbind]. apply N.eqb_neq in H123, H34. rewrite H123, H34. unfold peek_error, lift. discriminate.
  Qed.

  Lemma agree_enum2 vs : (forall p, In p vs -> variant_ok (snd p)) -> agree_at2 (TEnum vs).
  Proof.
    intros HIH c v fuel fv s w rst Hwf Hden Hsh Hcl Hwv Hw Hfol Hdb Hr Hfuel Hfv. rewrite ty_depth_enum in Hfuel, Hfv.
    destruct fuel as [|f]; [lia|]. destruct fv as [|fv]; [lia|].
    destruct (render_first c Hwf) as (b & r & Hren & Hbws & _).
    pose proof Hr as Hr0. rewrite Hren in Hr. revert Hr. lnorm. intros Hr.
    destruct (first_not c b r Hwf Hren) as (_ & _ & Hn123 & Hn34 & _).
    destruct c as [| | |n|ps|w0 es|w0 ms]; destruct v as [|[|]| |sv|l|m]; cbn [shape2 shape] in Hsh; try discriminate Hsh; try contradiction;
      cbn [de_value_owned]; unfold verr.
    all: try (apply okrel2_not_ok; apply (enum_reject vs f s w b (r ++ rst) Hw Hbws Hr); [apply Hn123|apply Hn34]; intros; discriminate).
    - (* "Variant" *)
      cbn [wfb denote] in Hwf, Hden. destruct (str_text ps) as [sv'|] eqn:Htext; [|discriminate Hden]. injection Hden as <-.
      cbn [render] in Hr0. unfold render_str in Hr0. revert Hr0. lnorm. intros Hr0.
      destruct (pws_head cf s w 34 _ Hw eq_refl Hr0) as (s1 & Hpw & Hr1 & Hd1).
      rewrite de_typed_enum_S. unfold deserialize_enum. rewrite Hpw. cbn [lift tbind]. change (34 =? 123) with false. change (34 =? 34) with true. cbv iota.
      destruct (str_accept cf (visit_variant vs) ps sv' s1 [] rst Hwf Htext eq_refl) as (bw & s2 & Hds & Hr2 & Hd2).
      { rewrite Hr1. unfold render_str. lnorm. reflexivity. }
      unfold enum_body_unit. rewrite Hds. unfold visit_enum_owned, visit_variant.
      destruct (index_of sv' vs) as [[i vr]|]; cbn [of_visit1 vbind fix_position tbind verr].
      + destruct vr; cbn [variant_payload_owned vmap vbind verr]; try (apply okrel2_not_ok; intros a; discriminate).
        cbn [okrel2]. exists (DVariant sv' DUnit), s2. split; [reflexivity|]. split; [reflexivity|]. split; [exact Hr2|congruence].
      + apply okrel2_not_ok. intros a. discriminate.
    - (* { .. } *)
      pose proof (obj_members NR cf w0 ms m Hden Hsh Hwv) as Hdm.
      cbn [wfb] in Hwf. apply andb_prop in Hwf as [Hw0 Hwfm].
      rewrite render_obj in Hr0. revert Hr0. lnorm. intros Hr0.
      destruct (open_frame cf 123 _ (cdepth_members ms) s w Hw eq_refl Hr0 Hdb) as (s1 & s2 & Hpw & Hen & Hrb & Hd1 & Hd2 & Hdb2).
      rewrite de_typed_enum_S, (deserialize_enum_obj _ _ s s1 s2 Hpw Hen).
      destruct ms as [|w1 kp w2 w3 cx w4 rest0].
      + (* {} *)
        destruct m; [|contradiction]. cbn [map_enum_owned]. unfold verr. apply okrel2_not_ok. apply enum_after_fail.
        cbn [map_text] in Hrb. unfold enum_body_map. intros a.
        destruct (pws_head cf (discard s2) w0 125 rst Hw0 eq_refl Hrb) as (s3 & Hpw3 & _).
        unfold deserialize_str. rewrite Hpw3. cbn [lift tbind]. change (125 =? 34) with false. cbv iota.
        destruct (fix_position E (peek_invalid_type E s3)) as [[[nm vr] s4]| | | |] eqn:Hfp; cbn [tbind]; try discriminate.
        exfalso. exact (fix_position_not_ok E _ (pit_not_ok cf s3) _ Hfp).
      + (* {"name": payload ..} *)
        destruct m as [|[name x] m']; [contradiction|].
        cbn [wfb_members] in Hwfm. apply andb_prop in Hwfm as [Hwfm Hwfr]. apply andb_prop in Hwfm as [Hwfm Hw4].
        apply andb_prop in Hwfm as [Hwfm Hwfc]. apply andb_prop in Hwfm as [Hwfm Hw3]. apply andb_prop in Hwfm as [Hwfm Hw2].
        apply andb_prop in Hwfm as [Hw1 Hkok].
        cbn [denote_members] in Hdm. destruct (str_text kp) as [kb|] eqn:Hkt; [|discriminate].
        destruct (denote cf cx) as [vx|] eqn:Hdc; [|discriminate].
        destruct (denote_members cf rest0) as [vs0|] eqn:Hdr; [|discriminate]. injection Hdm as -> -> ->.
        cbn [shape2_members fst snd] in Hsh. destruct Hsh as (Hkp & Hshc & Hshr).
        cbn [wf_value forallb fst snd] in Hwv. apply andb_prop in Hwv as [Hwv _]. apply andb_prop in Hwv as [Hwvc Hwvr]. apply andb_prop in Hwvc as [Hu Hwvc].
        cbn [cdepth_members] in Hdb2. cbn [vfuel mfuel] in Hfuel. cbn [claimb] in Hcl.
        rewrite map_text_cons in Hrb. cbn [app] in Hrb.
        set (rst1 := w4 ++ tail_members rest0 ++ 125 :: rst) in *.
        destruct (str_accept cf (visit_variant vs) kp name (discard s2) w1 (w2 ++ 58 :: w3 ++ render cx ++ rst1) Hkok Hkt Hw1)
          as (bw & s3 & Hds & Hr3 & Hd3).
        { rewrite Hrb. unfold rst1. lnorm. reflexivity. }
        unfold enum_body_map. rewrite Hds. unfold visit_variant.
        destruct (index_of name vs) as [[i vr]|] eqn:Hidx; cbn [fix_position tbind].
        2:{ (* unknown variant *)
            assert (Hv : exists c0 l0 k0, map_enum_owned ((name, x) :: m') (visit_enum_owned (de_value_owned fv cf fx) vs) = VErr c0 l0 k0).
            { cbn [map_enum_owned]. destruct m'; [|unfold verr; eauto]. unfold visit_enum_owned, visit_variant. rewrite Hidx.
              cbn [of_visit1]. unfold verr. cbn [vbind]. eauto. }
            destruct Hv as (c0 & l0 & k0 & ->). apply okrel2_not_ok. apply enum_after_fail. intros a. discriminate. }
        destruct (colon_step cf s3 w2 (w3 ++ render cx ++ rst1) Hw2 Hr3) as (s4 & Hcol & Hr4 & Hd4).
        rewrite Hcol. cbn [lift tbind].
        destruct (index_of_In name vs i vr Hidx) as [n0 Hin]. pose proof (HIH (n0, vr) Hin) as Hvr. pose proof (vmax_depth_in vs (n0, vr) Hin) as HvD.
        cbn [snd] in Hvr, HvD.
        assert (Hpay := payload_agree vr cx x f fv s4 w3 rst1 Hvr Hwfc Hdc Hshc Hcl Hwvc Hw3 (follow_members_tail w4 rest0 rst Hw4)).
        rewrite Hd4, Hd3 in Hpay. specialize (Hpay (dbudget_le _ _ _ _ (Nat.le_max_l _ _) Hdb2) Hr4).
        assert (Hf1 : (vdepth vr + vfuel cx <= f)%nat) by (clear - Hfuel HvD; lia).
        assert (Hf2 : (vdepth vr < fv)%nat) by (clear - Hfv HvD; lia). specialize (Hpay Hf1 Hf2).
        assert (Hval : map_enum_owned ((name, x) :: m') (visit_enum_owned (de_value_owned fv cf fx) vs)
                       = match m' with
                         | [] => vmap (DVariant name) (variant_payload_owned (de_value_owned fv cf fx) vr (Some x))
                         | _ :: _ => verr MInvalidValue
                         end).
        { cbn [map_enum_owned]. destruct m'; [|reflexivity]. unfold visit_enum_owned, visit_variant. rewrite Hidx. reflexivity. }
        rewrite Hval. clear Hval.
        destruct (variant_payload_owned (de_value_owned fv cf fx) vr (Some x)) as [d| | |]; cbn [okrel2] in Hpay; try contradiction.
        * destruct Hpay as (d' & s5 & Hpt & Hud & Hr5 & Hd5). rewrite Hpt. cbn [tmap tbind].
          destruct m' as [|kv2 m''].
          -- destruct rest0; [|contradiction]. cbn [vmap vbind okrel2]. unfold rst1 in Hr5. cbn [tail_members app] in Hr5.
             destruct (enum_after_ok (DVariant name d') (cdepth_members (MCons w1 kp w2 w3 cx w4 MNil)) s s1 s2 s5 w4 rst Hdb Hen Hd1 Hd2 Hw4 Hr5)
               as (s6 & Hea & Hr6 & Hd6).
             { rewrite Hd5, Hd4, Hd3. reflexivity. }
             rewrite Hea. exists (DVariant name d'), s6. split; [reflexivity|]. split; [cbn [unborrow]; rewrite Hud; reflexivity|]. auto.
          -- destruct rest0 as [|w1' k' w2' w3' c' w4' rest1]; [contradiction|]. unfold verr. apply okrel2_not_ok.
             unfold rst1 in Hr5. cbn [tail_members app] in Hr5.
             eapply (enum_after_blocked (DVariant name d') s5 w4 44); [exact Hw4|reflexivity|discriminate|exact Hr5].
        * assert (Hno : not_ok (enum_after (tmap (DVariant name) (payload_text f vr s4)))).
          { destruct (payload_text f vr s4) as [[d' s5]| | | |] eqn:Hpt; cbn [tmap tbind]; try (apply enum_after_fail; intros a; discriminate).
            apply enum_after_stuck. exact (Hpay _ _ eq_refl). }
          destruct m'; unfold verr; cbn [vmap vbind]; apply okrel2_not_ok; exact Hno.
  Qed.

  (* ---- every type program of this stage ------------------------------------------------------------------------------------------ *)
  Fixpoint agree_ty_enum (t : ty) : bool :=
    match t with
    | TBool | TUnit | TUnitStruct | TStr | TChar | TF64 | TIgnored | TValue => true
    | TInt it => negb (is_128 it)
    | TOption t1 | TNewtype t1 | TSeq t1 => agree_ty_enum t1
    | TTuple ts | TTupleStruct ts => forallb agree_ty_enum ts
    | TMap k t1 => agree_kty k && agree_ty_enum t1
    | TStruct fs => forallb (fun p => agree_ty_enum (snd p)) fs
    | TEnum vs => forallb (fun p => match snd p with
                                    | VUnit => true
                                    | VNewtype t1 => agree_ty_enum t1
                                    | VTuple ts => forallb agree_ty_enum ts
                                    | VStruct fs => forallb (fun q => agree_ty_enum (snd q)) fs
                                    end) vs
    | _ => false
    end.

  Theorem agree_all_enum : forall n t, (ty_depth t <= n)%nat -> agree_ty_enum t = true -> agree_at2 t.
  Proof.
    induction n as [|n IH]; intros t Hn Ht; [pose proof (ty_depth_pos' t); lia|].
    destruct t; cbn [agree_ty_enum] in Ht; try discriminate Ht; try (apply (agree_leaf2 NR cf fx Hap); exact Ht).
    - apply (agree_option2 NR cf fx Hap), IH; [cbn [ty_depth] in Hn; lia|exact Ht].
    - apply (agree_newtype2 NR cf fx Hap), IH; [cbn [ty_depth] in Hn; lia|exact Ht].
    - apply (agree_seq2 NR cf fx Hap), IH; [cbn [ty_depth] in Hn; lia|exact Ht].
    - apply (agree_tuple_gen2 NR cf fx Hap _ ts (or_introl eq_refl)). intros t' Hin. apply IH.
      + pose proof (lmax_depth_in' ts t' Hin). rewrite (proj1 (ty_depth_tuple ts)) in Hn. lia.
      + rewrite forallb_forall in Ht. apply Ht, Hin.
    - apply (agree_tuple_gen2 NR cf fx Hap _ ts (or_intror eq_refl)). intros t' Hin. apply IH.
      + pose proof (lmax_depth_in' ts t' Hin). rewrite (proj2 (ty_depth_tuple ts)) in Hn. lia.
      + rewrite forallb_forall in Ht. apply Ht, Hin.
    - apply andb_prop in Ht as [Hk Ht]. apply (agree_map2 NR cf fx Hap); [exact Hk|]. apply IH; [cbn [ty_depth] in Hn; lia|exact Ht].
    - apply (agree_struct2 NR cf fx Hap). intros p Hp. apply IH.
      + pose proof (fmax_depth_in fields p Hp). rewrite ty_depth_struct in Hn. lia.
      + rewrite forallb_forall in Ht. apply Ht, Hp.
    - apply agree_enum2. intros p Hp. rewrite forallb_forall in Ht. specialize (Ht p Hp).
      pose proof (vmax_depth_in variants p Hp) as Hd. rewrite ty_depth_enum in Hn.
      destruct (snd p) as [|t1|ts|fs]; cbn [variant_ok vdepth] in *.
      + exact I.
      + apply IH; [lia|exact Ht].
      + intros t' Hin. apply IH; [pose proof (lmax_depth_in' ts t' Hin); lia|]. rewrite forallb_forall in Ht. apply Ht, Hin.
      + intros q Hq. apply IH; [pose proof (fmax_depth_in fs q Hq); lia|]. rewrite forallb_forall in Ht. apply Ht, Hq.
  Qed.
End Enum2.

(* ---- C16 for enums ------------------------------------------------------------------------------------------------------------------------------ *)
From SJ Require Import Model.Sval Model.Ser Model.ValueSer Spec.Layout Proofs.SerBase Proofs.SerMain Proofs.SerFinal Proofs.ValueDeText.

(* from_value::<T>(v) against from_str::<T>(to_string(&v)) for every T of [agree_ty_enum]: the types of C16_agree_struct and
   externally tagged enums with unit, newtype, tuple and struct variants, nested arbitrarily — on the (T, v) pairs of the claim
   ([claimb]: no zero-length tuple variant on `[]`, no struct variant written as an array, wherever the seed meets them in v). *)
Theorem C16_agree_enum : forall cf fx fmt32 fmt64 t v,
  arbitrary_precision cf = false -> ryu_json fmt32 fmt64 -> ryu_reads_back_value cf fmt64 ->
  agree_ty_enum t = true -> wf_value cf v = true -> claimb (value_de_fuel t) t v = true ->
  exists bufs c, serialize cf fmt32 fmt64 Compact (sval_of_value v) = Ok bufs /\ concat bufs = render c /\
    ((limit_disabled cf = false -> (cdepth c <= 127)%nat) ->
     agree (from_value_owned cf fx t v) (from_input_typed (mkEnv RSlice TEof cf) t (concat bufs))).
Proof.
  intros cf fx fmt32 fmt64 t v Hap HR H4 Ht W Hcl.
  apply (agree_text_gen cf fx fmt32 fmt64 t v Hap HR H4); [|exact W|exact Hcl].
  exact (agree_all_enum (NRser cf fmt32 fmt64) cf fx Hap (ty_depth t) t (le_n _) Ht).
Qed.


(* ---- the two excluded shapes are genuine disagreements (model level; Rust: from_value::<E>(json!({"V":[]})) fails while
        from_str::<E>(r#"{"V":[]}"#) succeeds for `enum E { V() }`, and likewise {"V":[true]} for `enum E { V { x: bool } }`) ---- *)
Definition ex_cfd : cfg := mkCfg false false false false.
Definition ex_fx0 : fenv := mkFenv (fun _ => []) (fun _ => []).

Example C16_ex_tuple0_variant :
  from_value_owned ex_cfd ex_fx0 (TEnum [([86], VTuple [])]) (VObj [([86], VArr [])]) = VErr (Message MInvalidType) 0 0
  /\ from_input_typed (mkEnv RSlice TEof ex_cfd) (TEnum [([86], VTuple [])]) [123; 34; 86; 34; 58; 91; 93; 125] = TOk (DVariant [86] (DSeq []))
  /\ claimb (value_de_fuel (TEnum [([86], VTuple [])])) (TEnum [([86], VTuple [])]) (VObj [([86], VArr [])]) = false.
Proof. repeat split; vm_compute; reflexivity. Qed.

Example C16_ex_struct_variant_array :
  from_value_owned ex_cfd ex_fx0 (TEnum [([86], VStruct [([120], TBool)])]) (VObj [([86], VArr [VBool true])]) = VErr (Message MInvalidType) 0 0
  /\ from_input_typed (mkEnv RSlice TEof ex_cfd) (TEnum [([86], VStruct [([120], TBool)])]) [123; 34; 86; 34; 58; 91; 116; 114; 117; 101; 93; 125]
     = TOk (DVariant [86] (DStruct [DBool true]))
  /\ claimb (value_de_fuel (TEnum [([86], VStruct [([120], TBool)])])) (TEnum [([86], VStruct [([120], TBool)])]) (VObj [([86], VArr [VBool true])]) = false.
Proof. repeat split; vm_compute; reflexivity. Qed.

Print Assumptions C16_agree_enum.
