(* Proofs/StreamFinal.v — completeness of the stream item parser [value_item] on a rendered value followed by
   ARBITRARY text (only a number must not be followed by a byte that continues it), and with it the
   unconditional stream history theorem.

   The grammar completeness theorem (GrammarValueComplete.complete_all) asks [follow_ok rst] after EVERY value,
   because that is what follows a value inside a container.  At the top level only numbers look at their
   follower; literals, strings, arrays and objects are self-delimiting.  Here the OUTERMOST value is re-done by
   case analysis ([top_slice]), the inner structure (elements / members) is taken from [complete_all].

     1. instantiation of complete_all with the string and number layers
     2. what the last cursor operation of a value leaves in [pk]  (parse_ident, end_seq, end_map)
     3. top_slice:      the run on [render c ++ rst], slice reader; result state known up to [off]
     4. item_complete:  exact final state (offsets/depth from Total.parse_value_ok_advd); io reader by RkIndep
     5. C12_values_final *)
From SJ Require Import Base.Bytes Base.Utf8 Base.FloatB Gen.Tables Model.Read Model.Str Model.Num Model.Value Model.De
  Model.Ignore Model.Stream Spec.Syntax Spec.Denote.
From SJ Require Proofs.Total Proofs.RkIndep Proofs.StrRefine Proofs.GrammarStr Proofs.GrammarNum Proofs.GrammarFinal.
From SJ Require Import Proofs.StreamProps Proofs.GrammarValueBase Proofs.GrammarValueComplete.
Require Import Lia ZifyBool ZifyNat ZifyN.
Open Scope N_scope.

(* ------------------------------------------------------------------------------------------ *)
(** * 0. Sanity: the statement on concrete inputs (no lemma involved) *)

Definition cf0 : cfg := mkCfg false false false false.

(* the string a directly followed by the digit 1 *)
Example ex_str_digit :
  value_item (mkEnv RSlice TEof cf0) (mkSt (render (CStr [PRaw 97]) ++ [49]) 5 true 128)
  = Ok (VStr [97], mkSt [49] (5 + length (render (CStr [PRaw 97]))) false 128).
Proof. vm_compute. reflexivity. Qed.

(* []-1 : an array directly followed by a minus sign *)
Example ex_arr_minus :
  value_item (mkEnv RIo TEof cf0) (mkSt (render (CArr [] ENil) ++ [45; 49]) 0 true 7)
  = Ok (VArr [], mkSt [45; 49] (0 + length (render (CArr [] ENil))) false 7).
Proof. vm_compute. reflexivity. Qed.

(* 1<space> : the number leaves the follower peeked *)
Example ex_num_space :
  value_item (mkEnv RSlice TEof cf0) (mkSt (render (CNum (mkNum false [49] None None)) ++ [32]) 3 false 128)
  = Ok (VNum (NPos 1), mkSt [32] (3 + 1) true 128).
Proof. vm_compute. reflexivity. Qed.

(* null5 and {}e : literals and objects do not look at the follower *)
Example ex_null_digit :
  value_item (mkEnv RSlice TEof cf0) (mkSt (render CNull ++ [53]) 0 true 128) = Ok (VNull, mkSt [53] 4 false 128).
Proof. vm_compute. reflexivity. Qed.
Example ex_obj_e :
  value_item (mkEnv RSlice TEof cf0) (mkSt (render (CObj [32] MNil) ++ [101]) 0 true 128)
  = Ok (VObj (map_of_entries false []), mkSt [101] 3 false 128).
Proof. vm_compute. reflexivity. Qed.

(* the restriction on numbers is needed: 1 followed by 2 is the number 12 *)
Example ex_num_needs_follow :
  value_item (mkEnv RSlice TEof cf0) (mkSt (render (CNum (mkNum false [49] None None)) ++ [50]) 0 true 128)
  = Ok (VNum (NPos 12), mkSt [] 2 false 128).
Proof. vm_compute. reflexivity. Qed.

(* ------------------------------------------------------------------------------------------ *)
(** * 1. The grammar completeness theorem, instantiated *)

Lemma complete_all_inst (cf : cfg) :
  (forall c, complete_value cf c) /\ (forall es, complete_seq cf es) /\ (forall ms, complete_map cf ms).
Proof.
  apply complete_all.
  - intros s b rst o p d Hok Ht. eapply GrammarFinal.Hstr_complete_inst; eassumption.
  - intros positive n rst o p d Hn Hf q s' H.
    exact (GrammarNum.number_local_ok (mkEnv RSlice TEof cf) positive n rst o p d eq_refl Hn Hf q s' H).
Qed.

(* ------------------------------------------------------------------------------------------ *)
(** * 2. The peek flag after the last cursor operation of a value *)

Section Top.
  Variable cf : cfg.
  Local Notation E := (mkEnv RSlice TEof cf).

  (* parse_ident consumes with [next]: no peek outstanding afterwards (if none was before) *)
  Lemma parse_ident_fwd_pk ident : forall s rst, rest s = ident ++ rst -> pk s = false ->
    exists s', parse_ident E ident s = Ok s' /\ rest s' = rst /\ pk s' = false.
  Proof.
    induction ident as [|e ident IH]; intros s rst Hr Hp; cbn [parse_ident].
    - exists s. cbn [app] in Hr. auto.
    - unfold next. rewrite Hr. cbn [app bind]. rewrite N.eqb_refl.
      destruct (IH (mkSt (ident ++ rst) (S (off s)) false (depth s)) rst eq_refl eq_refl) as (s' & H1 & H2 & H3).
      exists s'. auto.
  Qed.

  (* end_seq / end_map finish with [discard] *)
  Lemma end_seq_fwd_pk s rst : skipws (rest s) = 93 :: rst ->
    exists s', end_seq E s = Ok s' /\ rest s' = rst /\ pk s' = false.
  Proof.
    intros H. unfold end_seq. destruct (pw_spec cf s) as (s1 & Hpw & Hr & Hd). rewrite Hpw. cbn [bind].
    rewrite H in Hr. rewrite Hr. cbn [hd_error]. rewrite N.eqb_refl. eexists. split; [reflexivity|].
    rewrite discard_rest, Hr. cbn [tl]. split; reflexivity.
  Qed.

  Lemma end_map_fwd_pk s rst : skipws (rest s) = 125 :: rst ->
    exists s', end_map E s = Ok s' /\ rest s' = rst /\ pk s' = false.
  Proof.
    intros H. unfold end_map. destruct (pw_spec cf s) as (s1 & Hpw & Hr & Hd). rewrite Hpw. cbn [bind].
    rewrite H in Hr. rewrite Hr. cbn [hd_error]. rewrite N.eqb_refl. eexists. split; [reflexivity|].
    rewrite discard_rest, Hr. cbn [tl]. split; reflexivity.
  Qed.

  (* ---------------------------------------------------------------------------------------- *)
  (** * 3. The outermost value *)

  (* the conclusion: the run succeeds with the denotation, stops exactly in front of [rst], and a peek is
     outstanding only if something is left *)
  Definition top_ok (fuel : nat) (s : st) (rst : list N) (v : value) : Prop :=
    exists s', parse_value fuel E s = Ok (v, s') /\ rest s' = rst /\ (pk s' = true -> rst <> []).

  Lemma top_lit (b : N) (lit : list N) (v : value) fuel s rst :
    ws_byte b = false ->
    (forall f s1, value_branch cf f b s1 = let* s2 := parse_ident E lit (discard s1) in Ok (v, s2)) ->
    (1 <= fuel)%nat -> rest s = (b :: lit) ++ rst -> top_ok fuel s rst v.
  Proof.
    intros Hb Hbr Hf Hr. unfold top_ok. destruct fuel as [|f]; [lia|]. cbn [app] in Hr.
    destruct (pv_head cf f s [] b (lit ++ rst) eq_refl Hb Hr) as (s1 & Hs1 & Hd1 & Heq).
    rewrite Heq, Hbr.
    destruct (parse_ident_fwd_pk lit (discard s1) rst) as (s2 & Hid & Hr2 & Hp2).
    { rewrite discard_rest, Hs1. reflexivity. }
    { reflexivity. }
    rewrite Hid. cbn [bind]. exists s2. split; [reflexivity|]. split; [exact Hr2|].
    intros Hp. rewrite Hp2 in Hp. discriminate Hp.
  Qed.

  Lemma st_end_pk lit rst o d : pk (GrammarNum.st_end lit rst o d) = true -> rst <> [].
  Proof. unfold GrammarNum.st_end. cbn [pk]. destruct rst; [discriminate|]. intros _; discriminate. Qed.

  Lemma top_num n fuel s rst v :
    (1 <= fuel)%nat -> num_ok n = true -> denote cf (CNum n) = Some v -> val_follow rst ->
    rest s = render (CNum n) ++ rst -> top_ok fuel s rst v.
  Proof.
    intros Hf Hwf Hden Hfol Hr. unfold top_ok. destruct fuel as [|f]; [lia|].
    cbn [denote] in Hden. unfold num_den in Hden. change (env0 cf) with E in Hden.
    destruct (parse_any_number E (negb (nneg n)) (init_st (render_abs n))) as [[p s'']| | |] eqn:Hiso;
      try discriminate.
    injection Hden as <-.
    assert (Hloc : forall positive o q d, parse_any_number E positive (init_st (render_abs n)) = Ok (p, s'') ->
              parse_any_number E positive (mkSt (render_abs n ++ rst) o q d)
              = Ok (p, GrammarNum.st_end (render_abs n) rst o d)).
    { intros positive o q d H.
      exact (GrammarNum.number_local_ok E positive n rst o q d eq_refl Hwf Hfol p s'' H). }
    cbn [render] in Hr. rewrite render_num_abs in Hr.
    destruct (render_abs_head n Hwf) as (dg & r & Habs & Hdig).
    destruct (nneg n) eqn:Hneg; cbn [negb] in Hiso; cbn [app] in Hr.
    - destruct (pv_head cf f s [] 45 (render_abs n ++ rst) eq_refl eq_refl Hr) as (s1 & Hs1 & Hd1 & Heq).
      rewrite Heq, branch_minus. unfold discard. rewrite Hs1. cbn [tl].
      rewrite (Hloc false _ _ _ Hiso). cbn [bind].
      eexists. split; [reflexivity|]. split; [reflexivity|]. apply st_end_pk.
    - rewrite Habs in Hr. cbn [app] in Hr.
      destruct (pv_head cf f s [] dg (r ++ rst) eq_refl (digit_not_ws dg Hdig) Hr) as (s1 & Hs1 & Hd1 & Heq).
      rewrite Heq, digit_branch by exact Hdig.
      destruct s1 as [r1 o1 p1 d1]. cbn [rest depth] in Hs1, Hd1. subst r1.
      change (dg :: r ++ rst) with ((dg :: r) ++ rst). rewrite <- Habs.
      rewrite (Hloc true _ _ _ Hiso). cbn [bind].
      eexists. split; [reflexivity|]. split; [reflexivity|]. apply st_end_pk.
  Qed.

  Lemma top_str ps fuel s rst v :
    (1 <= fuel)%nat -> str_ok ps = true -> denote cf (CStr ps) = Some v ->
    rest s = render (CStr ps) ++ rst -> top_ok fuel s rst v.
  Proof.
    intros Hf Hwf Hden Hr. unfold top_ok. destruct fuel as [|f]; [lia|]. cbn [denote] in Hden.
    destruct (str_text ps) as [b|] eqn:Htext; [|discriminate]. injection Hden as <-.
    cbn [render] in Hr. unfold render_str in Hr. revert Hr. lnorm. intros Hr.
    destruct (pv_head cf f s [] 34 _ eq_refl eq_refl Hr) as (s1 & Hs1 & Hd1 & Heq).
    rewrite Heq, branch_quote. unfold discard. rewrite Hs1. cbn [tl].
    destruct (GrammarFinal.Hstr_complete_inst cf ps b rst (S (off s1)) false (depth s1) Hwf Htext) as (bw & Hp).
    rewrite Hp. cbn [bind]. eexists. split; [reflexivity|]. split; [reflexivity|]. cbn [pk]. discriminate.
  Qed.

  Lemma top_arr w0 es fuel s rst v :
    (vfuel (CArr w0 es) <= fuel)%nat -> wfb (CArr w0 es) = true -> denote cf (CArr w0 es) = Some v ->
    dbudget cf (cdepth (CArr w0 es)) (depth s) -> rest s = render (CArr w0 es) ++ rst -> top_ok fuel s rst v.
  Proof.
    intros Hf Hwf Hden Hdb Hr. unfold top_ok. destruct (complete_all_inst cf) as (_ & IH & _). specialize (IH es).
    cbn [vfuel] in Hf. destruct fuel as [|f]; [lia|]. cbn [wfb] in Hwf. apply andb_prop in Hwf as [Hw0 Hwf].
    cbn [denote] in Hden. destruct (denote_elems cf es) as [vs|] eqn:Hdes; [|discriminate]. injection Hden as <-.
    rewrite render_arr in Hr. revert Hr. lnorm. intros Hr. cbn [cdepth] in Hdb.
    destruct (pv_head cf f s [] 91 _ eq_refl eq_refl Hr) as (s1 & Hs1 & Hd1 & Heq).
    rewrite Heq, branch_lbrack.
    destruct (enter_fwd cf s1) as (s2 & Hen & Hr2 & Hd2).
    { intros Hl. specialize (Hdb Hl). lia. }
    rewrite Hen. cbn [bind].
    destruct (IH f true (discard s2) w0 rst vs) as (s3 & wl & Hsq & Hwl & Hr3 & Hd3); try assumption.
    { lia. }
    { rewrite discard_depth, Hd2. unfold dbudget in *. intros Hl. specialize (Hdb Hl). rewrite Hl. lia. }
    { rewrite discard_rest, Hr2, Hs1. reflexivity. }
    rewrite Hsq. cbn [bind]. rewrite discard_depth in Hd3.
    destruct (leave_fwd cf s3) as (s4 & Hlv & Hr4 & Hd4).
    { intros Hl. specialize (Hdb Hl). rewrite Hd3, Hd2, Hl. lia. }
    rewrite Hlv. cbn [bind].
    destruct (end_seq_fwd_pk s4 rst) as (s5 & Hes & Hr5 & Hp5).
    { rewrite Hr4, Hr3. now apply skipws_to. }
    rewrite Hes. cbn [bind]. exists s5. split; [reflexivity|]. split; [exact Hr5|].
    intros Hp. rewrite Hp5 in Hp. discriminate Hp.
  Qed.

  Lemma top_obj w0 ms fuel s rst v :
    (vfuel (CObj w0 ms) <= fuel)%nat -> wfb (CObj w0 ms) = true -> denote cf (CObj w0 ms) = Some v ->
    dbudget cf (cdepth (CObj w0 ms)) (depth s) -> rest s = render (CObj w0 ms) ++ rst -> top_ok fuel s rst v.
  Proof.
    intros Hf Hwf Hden Hdb Hr. unfold top_ok. destruct (complete_all_inst cf) as (_ & _ & IH). specialize (IH ms).
    cbn [vfuel] in Hf. destruct fuel as [|f]; [lia|]. cbn [wfb] in Hwf. apply andb_prop in Hwf as [Hw0 Hwf].
    cbn [denote] in Hden. destruct (denote_members cf ms) as [vs|] eqn:Hdes; [|discriminate]. injection Hden as <-.
    rewrite render_obj in Hr. revert Hr. lnorm. intros Hr. cbn [cdepth] in Hdb.
    destruct (pv_head cf f s [] 123 _ eq_refl eq_refl Hr) as (s1 & Hs1 & Hd1 & Heq).
    rewrite Heq, branch_lbrace.
    destruct (enter_fwd cf s1) as (s2 & Hen & Hr2 & Hd2).
    { intros Hl. specialize (Hdb Hl). lia. }
    rewrite Hen. cbn [bind].
    destruct (IH f true (discard s2) w0 rst vs) as (s3 & wl & Hsq & Hwl & Hr3 & Hd3); try assumption.
    { lia. }
    { rewrite discard_depth, Hd2. unfold dbudget in *. intros Hl. specialize (Hdb Hl). rewrite Hl. lia. }
    { rewrite discard_rest, Hr2, Hs1. reflexivity. }
    rewrite Hsq. cbn [bind]. rewrite discard_depth in Hd3.
    destruct (leave_fwd cf s3) as (s4 & Hlv & Hr4 & Hd4).
    { intros Hl. specialize (Hdb Hl). rewrite Hd3, Hd2, Hl. lia. }
    rewrite Hlv. cbn [bind].
    destruct (end_map_fwd_pk s4 rst) as (s5 & Hes & Hr5 & Hp5).
    { rewrite Hr4, Hr3. now apply skipws_to. }
    rewrite Hes. cbn [bind]. exists s5. split; [reflexivity|]. split; [exact Hr5|].
    intros Hp. rewrite Hp5 in Hp. discriminate Hp.
  Qed.

  (* the top-level case: the follower is constrained for numbers only *)
  Theorem top_slice : forall c fuel s rst v,
    (vfuel c <= fuel)%nat -> wfb c = true -> denote cf c = Some v ->
    (is_cnum c = true -> val_follow rst) ->
    dbudget cf (cdepth c) (depth s) -> rest s = render c ++ rst ->
    top_ok fuel s rst v.
  Proof.
    intros c fuel s rst v Hf Hwf Hden Hfol Hdb Hr.
    destruct c as [| | |n|ps|w0 es|w0 ms].
    - cbn [denote] in Hden. injection Hden as <-.
      apply (top_lit 110 lit_ull VNull fuel s rst eq_refl); [reflexivity|exact Hf|exact Hr].
    - cbn [denote] in Hden. injection Hden as <-.
      apply (top_lit 116 lit_rue (VBool true) fuel s rst eq_refl); [reflexivity|exact Hf|exact Hr].
    - cbn [denote] in Hden. injection Hden as <-.
      apply (top_lit 102 lit_alse (VBool false) fuel s rst eq_refl); [reflexivity|exact Hf|exact Hr].
    - apply (top_num n); [exact Hf|exact Hwf|exact Hden|exact (Hfol eq_refl)|exact Hr].
    - apply (top_str ps); [exact Hf|exact Hwf|exact Hden|exact Hr].
    - apply (top_arr w0 es); assumption.
    - apply (top_obj w0 ms); assumption.
  Qed.

  (* ---------------------------------------------------------------------------------------- *)
  (** * 4. The item parser: exact final state *)

  Lemma item_complete_slice : forall c v rst off pk d,
    wfb c = true -> denote cf c = Some v ->
    (limit_disabled cf = false -> (cdepth c < N.to_nat d)%nat) -> (d <= 128)%N ->
    (is_cnum c = true -> val_follow rst) ->
    exists pk', value_item E (mkSt (render c ++ rst) off pk d)
                = Ok (v, mkSt rst (off + length (render c))%nat pk' d) /\ (pk' = true -> rst <> []).
  Proof.
    intros c v rst o p d Hwf Hden Hdep Hd Hfol. unfold value_item. cbn [rest].
    set (s := mkSt (render c ++ rst) o p d).
    destruct (top_slice c (value_fuel (render c ++ rst)) s rst v) as (s' & Hrun & Hrs & Hpk); try assumption.
    - pose proof (vfuel_bound c) as Hb. unfold value_fuel. rewrite app_length. lia.
    - unfold dbudget, s. cbn [depth]. intros Hl. specialize (Hdep Hl). lia.
    - reflexivity.
    - destruct (Total.parse_value_ok_advd _ _ _ _ _ Hrun) as [(pre & Hpre & Hoff & _) Hdp].
      unfold s in Hpre, Hoff, Hdp. cbn [rest off depth] in Hpre, Hoff, Hdp. rewrite Hrs in Hpre.
      assert (Hlen : length pre = length (render c)).
      { apply (f_equal (@length N)) in Hpre. rewrite !app_length in Hpre. lia. }
      destruct s' as [r' o' p' d']. cbn [rest off depth pk] in Hrs, Hoff, Hdp, Hpk. subst r' d'.
      rewrite Hlen in Hoff. subst o'. exists p'. split; [exact Hrun|exact Hpk].
  Qed.
End Top.

(* completeness of the item parser for a value followed by ARBITRARY text, except that a number must not be
   followed by a byte that continues it *)
Theorem item_complete : forall cf rk c v rst off pk d,
  (rk = RSlice \/ rk = RIo) ->
  wfb c = true -> denote cf c = Some v ->
  (limit_disabled cf = false -> (cdepth c < N.to_nat d)%nat) -> (d <= 128)%N ->
  (is_cnum c = true -> val_follow rst) ->
  exists pk', value_item (mkEnv rk TEof cf) (mkSt (render c ++ rst) off pk d)
              = Ok (v, mkSt rst (off + length (render c))%nat pk' d) /\ (pk' = true -> rst <> []).
Proof.
  intros cf rk c v rst o p d Hrk Hwf Hden Hdep Hd Hfol.
  destruct (item_complete_slice cf c v rst o p d Hwf Hden Hdep Hd Hfol) as (pk' & Hrun & Hpk).
  exists pk'. split; [|exact Hpk]. destruct Hrk as [-> | ->]; [exact Hrun|].
  rewrite (RkIndep.value_item_rk cf (StrRefine.parse_str_io_slice cf)).
  exact Hrun.
Qed.

(* ------------------------------------------------------------------------------------------ *)
(** * 5. The stream history theorem, unconditionally *)

Theorem C12_values_final : forall (cf : cfg) (rk : rkind), (rk = RSlice \/ rk = RIo) ->
  forall (items : list (cst * value * list N)) (w0 : list N) (k : nat),
  ws_ok w0 = true -> items_ok_full cf items ->
  stream_run (length items + k) (mkEnv rk TEof cf) value_item (stream_init (w0 ++ stream_text items))
  = stream_obs (length w0) items ++ repeat (None, length (w0 ++ stream_text items)) k.
Proof.
  intros cf rk Hrk. apply stream_values_full.
  intros c v rst o p d. apply item_complete. exact Hrk.
Qed.

Print Assumptions item_complete.
Print Assumptions C12_values_final.
