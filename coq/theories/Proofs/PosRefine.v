(* Proofs/PosRefine.v — the position bookkeeping of both reader families (Model/Pos.v) computes [pos_of].

   1. [slice_position_of_index_spec]   SliceRead::position_of_index input i = pos_of input i          (i <= len)
   2. [lci_run_inv]                    LineColIterator after k calls of next(): (line, col) = pos_of input k,
                                       byte_offset = min k len, remaining source = skipn k input
   3. [io_lockstep] / [slice_lockstep] every sequence of next / peek / discard-after-peek run on the concrete reader and on the
                                       abstract cursor of Model/Read.v: same returned bytes, byte_offset() = off,
                                       position() = pos_of input (err_idx), peek_position() = pos_of input (peek_err_idx)
   4. [C09_positions_agree]            "Err c i has line/column pos_of input i" (Base/Bytes.v) for both families.            *)
From SJ Require Import Base.Bytes Gen.Tables Model.Read Model.Pos.
Require Import Lia ZifyBool ZifyNat ZifyN.
Open Scope N_scope.

(* ================================================================================================== *)
(* 0. list and pos_go facts                                                                            *)

Lemma skipn_cons_inv : forall (l : bytes) n b r,
  skipn n l = b :: r -> nth_error l n = Some b /\ skipn (S n) l = r /\ (n < length l)%nat.
Proof.
  induction l as [|x l IH]; intros n b r H.
  - destruct n; discriminate H.
  - destruct n as [|n].
    + cbn [skipn] in H. injection H as -> ->. cbn [nth_error skipn length]. repeat split. lia.
    + cbn [skipn] in H. destruct (IH n b r H) as (H1 & H2 & H3).
      cbn [nth_error length]. repeat split; [exact H1 | exact H2 | lia].
Qed.

Lemma skipn_nil_inv : forall (l : bytes) n, skipn n l = [] -> (length l <= n)%nat.
Proof.
  induction l as [|x l IH]; intros n H.
  - cbn [length]. lia.
  - destruct n as [|n]; [discriminate H|]. cbn [skipn] in H. apply IH in H. cbn [length]. lia.
Qed.

(* the effect of one more byte on (line, column) *)
Definition pos_step (b : byte) (p : N * N) : N * N :=
  if b =? 10 then (fst p + 1, 0) else (fst p, snd p + 1).

Lemma pos_go_0 : forall l a c, pos_go l O a c = (a, c).
Proof. intros l a c. destruct l; reflexivity. Qed.

Lemma pos_go_S : forall l n a c b,
  nth_error l n = Some b -> pos_go l (S n) a c = pos_step b (pos_go l n a c).
Proof.
  induction l as [|x l IH]; intros n a c b Hn.
  - destruct n; discriminate Hn.
  - destruct n as [|n].
    + cbn [nth_error] in Hn. injection Hn as ->. cbn [pos_go]. unfold pos_step.
      rewrite !pos_go_0. destruct (b =? 10); cbn [fst snd]; reflexivity.
    + cbn [nth_error] in Hn. cbn [pos_go]. destruct (x =? 10); apply IH; exact Hn.
Qed.

Lemma pos_of_S : forall input n b,
  nth_error input n = Some b -> pos_of input (S n) = pos_step b (pos_of input n).
Proof. intros input n b H. unfold pos_of. apply pos_go_S. exact H. Qed.

Lemma pos_go_firstn : forall l i a c,
  pos_go l i a c = pos_go (firstn i l) (length (firstn i l)) a c.
Proof.
  induction l as [|x l IH]; intros i a c.
  - destruct i; reflexivity.
  - destruct i as [|i]; [reflexivity|].
    cbn [firstn length pos_go]. destruct (x =? 10); apply IH.
Qed.

Lemma pos_of_min : forall input k, pos_of input (Nat.min k (length input)) = pos_of input k.
Proof.
  intros input k. unfold pos_of.
  rewrite (pos_go_firstn input k), (pos_go_firstn input (Nat.min k (length input))).
  destruct (Nat.le_gt_cases k (length input)) as [Hle|Hgt].
  - rewrite Nat.min_l by exact Hle. reflexivity.
  - rewrite Nat.min_r by lia. rewrite firstn_all. rewrite (firstn_all2 input (n := k)) by lia. reflexivity.
Qed.

Lemma skipn_min : forall (input : bytes) k, skipn (Nat.min k (length input)) input = skipn k input.
Proof.
  intros input k. destruct (Nat.le_gt_cases k (length input)) as [Hle|Hgt].
  - rewrite Nat.min_l by exact Hle. reflexivity.
  - rewrite Nat.min_r by lia. rewrite skipn_all. rewrite (skipn_all2 input (n := k)) by lia. reflexivity.
Qed.

(* ================================================================================================== *)
(* 1. SliceRead::position_of_index                                                                     *)

Lemma memrchr_none_count : forall c l, memrchr c l = None -> memchr_count c l = O.
Proof.
  intros c. induction l as [|b r IH]; intros H.
  - reflexivity.
  - cbn [memrchr] in H. cbn [memchr_count].
    destruct (memrchr c r) as [q|] eqn:E; [discriminate H|].
    destruct (b =? c); [discriminate H|]. apply IH. reflexivity.
Qed.

Lemma memrchr_some_lt : forall c l p, memrchr c l = Some p -> (p < length l)%nat.
Proof.
  intros c. induction l as [|b r IH]; intros p H.
  - discriminate H.
  - cbn [memrchr] in H. cbn [length].
    destruct (memrchr c r) as [q|] eqn:E.
    + injection H as <-. specialize (IH q eq_refl). lia.
    + destruct (b =? c); [|discriminate H]. injection H as <-. lia.
Qed.

(* memrchr finds a position that holds the needle, and nothing after it does: stated once, as documentation of the
   modelled memchr function (not needed below) *)
Lemma memrchr_some_spec : forall c l p,
  memrchr c l = Some p -> nth_error l p = Some c /\ memchr_count c (skipn (S p) l) = O.
Proof.
  intros c. induction l as [|b r IH]; intros p H.
  - discriminate H.
  - cbn [memrchr] in H. destruct (memrchr c r) as [q|] eqn:E.
    + injection H as <-. cbn [nth_error skipn]. apply IH. reflexivity.
    + destruct (b =? c) eqn:Eb; [|discriminate H]. injection H as <-.
      apply N.eqb_eq in Eb. subst b. cbn [nth_error skipn]. split; [reflexivity|].
      apply memrchr_none_count. exact E.
Qed.

(* no newline is lost by counting only up to the start of the last line *)
Lemma count_firstn_memrchr : forall c l p,
  memrchr c l = Some p -> memchr_count c (firstn (p + 1) l) = memchr_count c l.
Proof.
  intros c. induction l as [|b r IH]; intros p H.
  - discriminate H.
  - cbn [memrchr] in H. destruct (memrchr c r) as [q|] eqn:E.
    + injection H as <-. replace (S q + 1)%nat with (S (q + 1)) by lia.
      cbn [firstn memchr_count]. rewrite (IH q eq_refl). reflexivity.
    + destruct (b =? c) eqn:Eb; [|discriminate H]. injection H as <-.
      cbn [Nat.add firstn memchr_count]. rewrite Eb. rewrite (memrchr_none_count _ _ E). reflexivity.
Qed.

(* pos_go over a whole list, in closed form *)
Lemma pos_go_full : forall l a c,
  pos_go l (length l) a c =
  match memrchr 10 l with
  | Some p => (a + N.of_nat (memchr_count 10 l), N.of_nat (length l - (p + 1)))
  | None => (a, c + N.of_nat (length l))
  end.
Proof.
  induction l as [|b r IH]; intros a c.
  - cbn [length pos_go memrchr]. f_equal. lia.
  - cbn [length pos_go memrchr memchr_count]. destruct (b =? 10) eqn:Eb.
    + rewrite IH. destruct (memrchr 10 r) as [p|] eqn:E.
      * f_equal; lia.
      * rewrite (memrchr_none_count _ _ E). f_equal; lia.
    + rewrite IH. destruct (memrchr 10 r) as [p|] eqn:E; f_equal; lia.
Qed.

Theorem slice_position_of_index_spec : forall input i,
  (i <= length input)%nat -> position_of_index input i = pos_of input i.
Proof.
  intros input i Hi. unfold pos_of. rewrite pos_go_firstn, pos_go_full.
  unfold position_of_index.
  assert (Hlen : length (firstn i input) = i) by (apply firstn_length_le; exact Hi).
  destruct (memrchr 10 (firstn i input)) as [p|] eqn:E.
  - pose proof (memrchr_some_lt _ _ _ E) as Hp. rewrite Hlen in Hp. rewrite Hlen.
    assert (Hff : firstn (p + 1) input = firstn (p + 1) (firstn i input)).
    { rewrite firstn_firstn. rewrite Nat.min_l by lia. reflexivity. }
    rewrite Hff. rewrite (count_firstn_memrchr _ _ _ E). reflexivity.
  - rewrite Hlen. cbn [firstn memchr_count]. f_equal; lia.
Qed.

Corollary position_of_index_chk_spec : forall input i,
  (i <= length input)%nat -> position_of_index_chk input i = Ok (pos_of input i).
Proof.
  intros input i Hi. unfold position_of_index_chk.
  destruct (i <=? length input)%nat eqn:E; [|lia].
  rewrite slice_position_of_index_spec by exact Hi. reflexivity.
Qed.

Definition ex_input : bytes := [97;98;10;99;100;10;10;120;121;122].     (* "ab\ncd\n\nxyz" *)

Example ex_position_of_index :
  map (position_of_index ex_input) (seq 0 11)
  = [(1,0);(1,1);(1,2);(2,0);(2,1);(2,2);(3,0);(4,0);(4,1);(4,2);(4,3)]
  /\ map (position_of_index ex_input) (seq 0 11) = map (pos_of ex_input) (seq 0 11).
Proof. vm_compute. split; reflexivity. Qed.

(* ================================================================================================== *)
(* 2. LineColIterator                                                                                  *)

(* the iterator has consumed exactly the first n bytes of input *)
Definition lci_inv (input : bytes) (n : nat) (s : lci) : Prop :=
  (n <= length input)%nat /\
  lc_src s = skipn n input /\
  (lci_line s, lci_col s) = pos_of input n /\
  lci_byte_offset s = N.of_nat n.

Lemma lci_inv_new : forall input, lci_inv input O (lci_new input).
Proof.
  intros input. unfold lci_inv, lci_new, lci_line, lci_col, lci_byte_offset. cbn [lc_src lc_line lc_col lc_sol skipn].
  split; [lia|]. split; [reflexivity|]. split; [|reflexivity].
  unfold pos_of. rewrite pos_go_0. reflexivity.
Qed.

(* arm "Some(Ok(c))" (both the newline arm and the other-byte arm) *)
Lemma lci_next_byte : forall input t n s b r,
  lci_inv input n s -> skipn n input = b :: r ->
  fst (lci_next t s) = ItByte b /\ lci_inv input (S n) (snd (lci_next t s)).
Proof.
  intros input t n s b r (Hn & Hsrc & Hpos & Hoff) Hsk.
  destruct (skipn_cons_inv _ _ _ _ Hsk) as (Hnth & Hsk' & Hlt).
  pose proof (pos_of_S _ _ _ Hnth) as HS. rewrite <- Hpos in HS.
  unfold lci_byte_offset, lci_line, lci_col in *.
  unfold lci_next. rewrite Hsrc, Hsk. cbn [src_next].
  unfold pos_step in HS. cbn [fst snd] in HS.
  destruct (b =? 10) eqn:Eb; cbn [fst snd]; unfold lci_inv, lci_line, lci_col, lci_byte_offset;
    cbn [lc_src lc_line lc_col lc_sol].
  - apply N.eqb_eq in Eb. subst b. repeat split; [lia | exact (eq_sym Hsk') | exact (eq_sym HS) | lia].
  - repeat split; [lia | exact (eq_sym Hsk') | exact (eq_sym HS) | lia].
Qed.

(* arms "None" and "Some(Err(e))": nothing moves *)
Lemma lci_next_end : forall input t n s,
  lci_inv input n s -> skipn n input = [] ->
  lci_next t s = (match t with TEof => ItEnd | TFail k => ItFail k end, s).
Proof.
  intros input t n s (Hn & Hsrc & Hpos & Hoff) Hsk.
  unfold lci_next. rewrite Hsrc, Hsk. cbn [src_next].
  destruct s as [src line col sol]. cbn [lc_src lc_line lc_col lc_sol] in *. rewrite Hsrc, Hsk.
  destruct t; reflexivity.
Qed.

Lemma lci_run_inv_gen : forall input t k n s,
  lci_inv input n s -> lci_inv input (Nat.min (n + k) (length input)) (lci_run t k s).
Proof.
  intros input t. induction k as [|k IH]; intros n s Hinv.
  - cbn [lci_run]. pose proof Hinv as (Hn & _). rewrite Nat.min_l by lia.
    replace (n + 0)%nat with n by lia. exact Hinv.
  - cbn [lci_run]. destruct (skipn n input) as [|b r] eqn:Hsk.
    + rewrite (lci_next_end _ t _ _ Hinv Hsk). cbn [snd].
      pose proof (skipn_nil_inv _ _ Hsk) as Hge. pose proof Hinv as (Hn & _).
      specialize (IH n s Hinv).
      replace (Nat.min (n + S k) (length input)) with (Nat.min (n + k) (length input)) by lia.
      exact IH.
    + destruct (lci_next_byte _ t _ _ _ _ Hinv Hsk) as (_ & Hinv').
      specialize (IH (S n) _ Hinv').
      replace (n + S k)%nat with (S n + k)%nat by lia. exact IH.
Qed.

(* Every reachable state: after k calls of next() on a fresh iterator *)
Theorem lci_run_inv : forall input t k,
  let s := lci_run t k (lci_new input) in
  lc_src s = skipn k input /\
  (lci_line s, lci_col s) = pos_of input k /\
  lci_byte_offset s = N.of_nat (Nat.min k (length input)).
Proof.
  intros input t k s.
  pose proof (lci_run_inv_gen input t k O _ (lci_inv_new input)) as (Hn & Hsrc & Hpos & Hoff).
  cbn [Nat.add] in Hsrc, Hpos, Hoff. fold s in Hsrc, Hpos, Hoff.
  rewrite skipn_min in Hsrc. rewrite pos_of_min in Hpos.
  repeat split; assumption.
Qed.

(* while input remains, byte_offset is the number of calls *)
Corollary lci_run_inv_le : forall input t k,
  (k <= length input)%nat ->
  let s := lci_run t k (lci_new input) in
  (lci_line s, lci_col s) = pos_of input k /\ lc_sol s + lc_col s = N.of_nat k.
Proof.
  intros input t k Hk s. destruct (lci_run_inv input t k) as (_ & Hpos & Hoff).
  fold s in Hpos, Hoff. rewrite Nat.min_l in Hoff by exact Hk. split; assumption.
Qed.

Example ex_lci_run :
  map (fun k => let s := lci_run TEof k (lci_new ex_input) in (lci_line s, lci_col s, lci_byte_offset s)) (seq 0 13)
  = [(1,0,0);(1,1,1);(1,2,2);(2,0,3);(2,1,4);(2,2,5);(3,0,6);(4,0,7);(4,1,8);(4,2,9);(4,3,10);(4,3,10);(4,3,10)]
  /\ map (fun k => let s := lci_run (TFail 7) k (lci_new ex_input) in (lci_line s, lci_col s)) (seq 0 13)
     = map (pos_of ex_input) (seq 0 13).
Proof. vm_compute. split; reflexivity. Qed.

(* ================================================================================================== *)
(* 3. Lock step with the abstract cursor of Model/Read.v                                               *)

(* One operation on the abstract cursor.  After an I/O error the abstract functions return no state; the concrete reader
   is unchanged by a failing read, so the run goes on from the same cursor. *)
Definition abs_step (E : env) (op : rop) (s : st) : res (option byte) * st :=
  match op with
  | ONext =>
      match next E s with
      | Ok (o, s') => (Ok o, s')
      | Err c i => (Err c i, s)
      | OutOfFuel => (OutOfFuel, s)
      | Panic => (Panic, s)
      end
  | OPeek =>
      match peek E s with
      | Ok (o, s') => (Ok o, s')
      | Err c i => (Err c i, s)
      | OutOfFuel => (OutOfFuel, s)
      | Panic => (Panic, s)
      end
  | ODiscard => (Ok None, discard s)
  end.

(* Read::discard is "only valid after a call to peek()".  What is needed precisely:
   IoRead: a byte sits in the peek slot (otherwise IoRead::discard does nothing while the abstract cursor moves);
   SliceRead: a byte remains (otherwise index > len and position() panics). *)
Definition op_ok (E : env) (op : rop) (s : st) : bool :=
  match op with
  | ODiscard => if is_io E then pk s else match rest s with [] => false | _ :: _ => true end
  | _ => true
  end.

Fixpoint ops_ok (E : env) (ops : list rop) (s : st) : bool :=
  match ops with
  | [] => true
  | op :: ops' => op_ok E op s && ops_ok E ops' (snd (abs_step E op s))
  end.

(* what the abstract cursor predicts a client observes: off, and pos_of at err_idx / peek_err_idx *)
Definition abs_obs (input : bytes) (E : env) (ret : res (option byte)) (s : st) : pobs :=
  mkObs ret (N.of_nat (off s)) (Ok (pos_of input (err_idx E s))) (Ok (pos_of input (peek_err_idx E s))).

Fixpoint abs_run (input : bytes) (E : env) (ops : list rop) (s : st) : list pobs :=
  match ops with
  | [] => []
  | op :: ops' => let '(ret, s') := abs_step E op s in abs_obs input E ret s' :: abs_run input E ops' s'
  end.

Fixpoint abs_final (E : env) (ops : list rop) (s : st) : st :=
  match ops with
  | [] => s
  | op :: ops' => abs_final E ops' (snd (abs_step E op s))
  end.

(* number of bytes the LineColIterator of an IoRead has delivered *)
Definition cnt (s : st) : nat := if pk s then S (off s) else off s.

Lemma err_idx_io : forall E s, is_io E = true -> err_idx E s = cnt s /\ peek_err_idx E s = cnt s.
Proof.
  intros E s HE. unfold err_idx, peek_err_idx, cnt. rewrite HE. destruct (pk s); split; lia.
Qed.

(* ---- IoRead ---- *)
Definition io_rel (input : bytes) (s : st) (r : ioread) : Prop :=
  rest s = skipn (off s) input /\
  lci_inv input (cnt s) (io_iter r) /\
  io_ch r = (if pk s then hd_error (rest s) else None) /\
  (pk s = true -> rest s <> []).

Lemma io_rel_init : forall input, io_rel input (init_st input) (io_new input).
Proof.
  intros input. unfold io_rel, init_st, io_new, cnt. cbn [rest off pk io_iter io_ch skipn].
  repeat split; try apply lci_inv_new. intros H. discriminate H.
Qed.

(* no underflow in `self.iter.byte_offset() - 1` *)
Lemma io_rel_ch_offset_pos : forall input s r b,
  io_rel input s r -> io_ch r = Some b -> 1 <= lci_byte_offset (io_iter r).
Proof.
  intros input s r b (Hrest & (Hn & Hsrc & Hpos & Hoff) & Hch & Hpk) Hb.
  rewrite Hoff. unfold cnt. destruct (pk s); [lia|]. rewrite Hch in Hb. discriminate Hb.
Qed.

Lemma io_rel_obs : forall input E s r ret,
  is_io E = true -> io_rel input s r -> io_obs ret r = abs_obs input E ret s.
Proof.
  intros input E s r ret HE (Hrest & (Hn & Hsrc & Hpos & Hoff) & Hch & Hpk).
  destruct (err_idx_io E s HE) as (He & Hpe).
  unfold io_obs, abs_obs, io_peek_position, io_position, io_byte_offset.
  rewrite He, Hpe, Hpos, Hch, Hoff. unfold cnt.
  destruct (pk s) eqn:Epk.
  - destruct (rest s) as [|b r'] eqn:Er; [exfalso; apply (Hpk eq_refl); reflexivity|].
    cbn [hd_error]. f_equal. lia.
  - reflexivity.
Qed.

Ltac split4 := split; [|split; [|split]].

Lemma io_step_sim : forall input E op s r,
  is_io E = true -> io_rel input s r -> op_ok E op s = true ->
  fst (io_step (tm E) op r) = fst (abs_step E op s) /\
  io_rel input (snd (abs_step E op s)) (snd (io_step (tm E) op r)).
Proof.
  intros input E op s r HE Hrel Hok.
  pose proof Hrel as (Hrest & Hinv & Hch & Hpk). unfold cnt in Hinv.
  destruct op; cbn [io_step abs_step].
  - (* next *)
    unfold next, io_next. destruct (rest s) as [|b r'] eqn:Er.
    + assert (Epk : pk s = false).
      { destruct (pk s); [exfalso; apply Hpk; reflexivity | reflexivity]. }
      rewrite Epk in Hch. rewrite Hch.
      rewrite Epk in Hinv.
      rewrite (lci_next_end input (tm E) (off s) _ Hinv (eq_sym Hrest)).
      unfold at_end. destruct (tm E) as [|k]; cbn [fst snd]; (split; [reflexivity|]).
      * unfold io_rel, cnt. cbn [rest off pk io_iter io_ch].
        split4; [assumption | assumption | reflexivity | intros H; discriminate H].
      * unfold io_rel, cnt. rewrite Epk, Er. cbn [io_iter io_ch].
        split4; [assumption | assumption | reflexivity | intros H; discriminate H].
    + symmetry in Hrest. destruct (skipn_cons_inv _ _ _ _ Hrest) as (Hnth & Hsk' & Hlt).
      destruct (pk s) eqn:Epk.
      * cbn [hd_error] in Hch. rewrite Hch. cbn [fst snd]. split; [reflexivity|].
        unfold io_rel, cnt. cbn [rest off pk io_iter io_ch]. split4; [symmetry; exact Hsk' | exact Hinv | reflexivity | intros H; discriminate H].
      * rewrite Hch.
        destruct (lci_next_byte input (tm E) (off s) _ b r' Hinv Hrest) as (Hfst & Hinv').
        destruct (lci_next (tm E) (io_iter r)) as [it it'] eqn:Enx. cbn [fst snd] in Hfst, Hinv'. subst it.
        cbn [fst snd]. split; [reflexivity|].
        unfold io_rel, cnt. cbn [rest off pk io_iter io_ch].
        split4; [symmetry; exact Hsk' | exact Hinv' | reflexivity | intros H; discriminate H].
  - (* peek *)
    unfold peek, io_peek. destruct (rest s) as [|b r'] eqn:Er.
    + assert (Epk : pk s = false).
      { destruct (pk s); [exfalso; apply Hpk; reflexivity | reflexivity]. }
      rewrite Epk in Hch. rewrite Hch.
      rewrite Epk in Hinv.
      rewrite (lci_next_end input (tm E) (off s) _ Hinv (eq_sym Hrest)).
      unfold at_end. destruct (tm E) as [|k]; cbn [fst snd]; (split; [reflexivity|]).
      * unfold io_rel, cnt. cbn [rest off pk io_iter io_ch].
        split4; [assumption | assumption | reflexivity | intros H; discriminate H].
      * unfold io_rel, cnt. rewrite Epk, Er. cbn [io_iter io_ch].
        split4; [assumption | assumption | reflexivity | intros H; discriminate H].
    + symmetry in Hrest. destruct (skipn_cons_inv _ _ _ _ Hrest) as (Hnth & Hsk' & Hlt).
      destruct (pk s) eqn:Epk.
      * cbn [hd_error] in Hch. rewrite Hch. cbn [fst snd]. split; [reflexivity|].
        unfold io_rel, cnt. cbn [rest off pk hd_error]. split4; [symmetry; exact Hrest | exact Hinv | exact Hch | intros _ H; discriminate H].
      * rewrite Hch.
        destruct (lci_next_byte input (tm E) (off s) _ b r' Hinv Hrest) as (Hfst & Hinv').
        destruct (lci_next (tm E) (io_iter r)) as [it it'] eqn:Enx. cbn [fst snd] in Hfst, Hinv'. subst it.
        cbn [fst snd]. split; [reflexivity|].
        unfold io_rel, cnt. cbn [rest off pk io_iter io_ch hd_error].
        split4; [symmetry; exact Hrest | exact Hinv' | reflexivity | intros _ H; discriminate H].
  - (* discard, a byte is in the peek slot *)
    cbn [op_ok] in Hok. rewrite HE in Hok. cbn [fst snd]. split; [reflexivity|].
    destruct (rest s) as [|b r'] eqn:Er; [exfalso; apply (Hpk Hok); reflexivity|].
    symmetry in Hrest. destruct (skipn_cons_inv _ _ _ _ Hrest) as (Hnth & Hsk' & Hlt).
    unfold io_rel, discard, io_discard, cnt. rewrite Er. cbn [rest off pk io_iter io_ch tl].
    rewrite Hok in Hinv.
    split4; [symmetry; exact Hsk' | exact Hinv | reflexivity | intros H; discriminate H].
Qed.

Lemma io_lockstep_gen : forall input E ops s r,
  is_io E = true -> io_rel input s r -> ops_ok E ops s = true ->
  io_run (tm E) ops r = abs_run input E ops s /\
  io_rel input (abs_final E ops s) (io_final (tm E) ops r).
Proof.
  intros input E. induction ops as [|op ops IH]; intros s r HE Hrel Hok.
  - cbn [io_run abs_run abs_final io_final]. split; [reflexivity | exact Hrel].
  - cbn [ops_ok] in Hok. apply andb_prop in Hok. destruct Hok as (Hok1 & Hok2).
    destruct (io_step_sim input E op s r HE Hrel Hok1) as (Hret & Hrel').
    cbn [io_run abs_run abs_final io_final].
    destruct (io_step (tm E) op r) as [ret r'] eqn:Eio.
    destruct (abs_step E op s) as [ret2 s'] eqn:Eabs.
    cbn [fst snd] in *. subst ret2.
    destruct (IH s' r' HE Hrel' Hok2) as (Hrun & Hfin).
    split; [|exact Hfin].
    rewrite (io_rel_obs input E s' r' ret HE Hrel'). rewrite Hrun. reflexivity.
Qed.

(* Theorem 3, IoRead: on every admissible operation sequence the concrete reader and the abstract cursor agree after
   every operation on: the value returned, byte_offset() = off, position() = pos_of input (err_idx),
   peek_position() = pos_of input (peek_err_idx). *)
Theorem io_lockstep : forall input E ops,
  is_io E = true -> ops_ok E ops (init_st input) = true ->
  io_run (tm E) ops (io_new input) = abs_run input E ops (init_st input).
Proof.
  intros input E ops HE Hok.
  exact (proj1 (io_lockstep_gen input E ops _ _ HE (io_rel_init input) Hok)).
Qed.

(* ---- SliceRead (and StrRead, which delegates) ---- *)
Definition sl_rel (input : bytes) (s : st) (r : sread) : Prop :=
  sl_slice r = input /\ sl_index r = off s /\ rest s = skipn (off s) input /\ (off s <= length input)%nat.

Lemma sl_rel_init : forall input, sl_rel input (init_st input) (sl_new input).
Proof.
  intros input. unfold sl_rel, init_st, sl_new. cbn [sl_slice sl_index rest off skipn]. repeat split. lia.
Qed.

Lemma sl_rel_obs : forall input E s r ret,
  is_io E = false -> sl_rel input s r -> sl_obs ret r = abs_obs input E ret s.
Proof.
  intros input E s r ret HE (Hsl & Hidx & Hrest & Hle).
  unfold sl_obs, abs_obs, sl_byte_offset, sl_position, sl_peek_position, err_idx, peek_err_idx.
  rewrite HE, Hsl, Hidx.
  rewrite (position_of_index_chk_spec input (off s) Hle).
  destruct (rest s) as [|b r'] eqn:Er.
  - symmetry in Hrest. apply skipn_nil_inv in Hrest.
    replace (Nat.min (length input) (off s + 1)) with (off s + 0)%nat by lia.
    rewrite (position_of_index_chk_spec input (off s + 0)) by lia. reflexivity.
  - symmetry in Hrest. destruct (skipn_cons_inv _ _ _ _ Hrest) as (_ & _ & Hlt).
    replace (Nat.min (length input) (off s + 1)) with (off s + 1)%nat by lia.
    rewrite (position_of_index_chk_spec input (off s + 1)) by lia. reflexivity.
Qed.

Lemma nth_of_nth_error : forall (l : bytes) n b d, nth_error l n = Some b -> nth n l d = b.
Proof.
  induction l as [|x l IH]; intros n b d H.
  - destruct n; discriminate H.
  - destruct n as [|n]; cbn [nth_error] in H; cbn [nth].
    + injection H as ->. reflexivity.
    + apply IH. exact H.
Qed.

Lemma sl_step_sim : forall input E op s r,
  is_io E = false -> tm E = TEof -> sl_rel input s r -> op_ok E op s = true ->
  fst (sl_step op r) = fst (abs_step E op s) /\
  sl_rel input (snd (abs_step E op s)) (snd (sl_step op r)).
Proof.
  intros input E op s r HE Ht Hrel Hok.
  pose proof Hrel as (Hsl & Hidx & Hrest & Hle).
  destruct op; cbn [sl_step abs_step].
  - (* next *)
    unfold next, sl_next, at_end. rewrite Ht, Hsl, Hidx. destruct (rest s) as [|b r'] eqn:Er.
    + symmetry in Hrest. pose proof (skipn_nil_inv _ _ Hrest) as Hge.
      destruct (off s <? length input)%nat eqn:Elt; [lia|]. cbn [fst snd]. split; [reflexivity|].
      unfold sl_rel. cbn [rest off]. repeat split; try assumption. symmetry; exact Hrest.
    + symmetry in Hrest. destruct (skipn_cons_inv _ _ _ _ Hrest) as (Hnth & Hsk' & Hlt).
      destruct (off s <? length input)%nat eqn:Elt; [|lia]. cbn [fst snd].
      rewrite (nth_of_nth_error _ _ _ 0 Hnth). split; [reflexivity|].
      unfold sl_rel. cbn [rest off sl_slice sl_index]. repeat split; [lia | symmetry; exact Hsk' | lia].
  - (* peek *)
    unfold peek, sl_peek, at_end. rewrite Ht, Hsl, Hidx. destruct (rest s) as [|b r'] eqn:Er.
    + symmetry in Hrest. pose proof (skipn_nil_inv _ _ Hrest) as Hge.
      destruct (off s <? length input)%nat eqn:Elt; [lia|]. cbn [fst snd]. split; [reflexivity|].
      unfold sl_rel. cbn [rest off]. repeat split; try assumption. symmetry; exact Hrest.
    + symmetry in Hrest. destruct (skipn_cons_inv _ _ _ _ Hrest) as (Hnth & Hsk' & Hlt).
      destruct (off s <? length input)%nat eqn:Elt; [|lia]. cbn [fst snd].
      rewrite (nth_of_nth_error _ _ _ 0 Hnth). split; [reflexivity|].
      unfold sl_rel. cbn [rest off]. repeat split; try assumption. symmetry; exact Hrest.
  - (* discard, a byte remains *)
    cbn [op_ok] in Hok. rewrite HE in Hok. cbn [fst snd]. split; [reflexivity|].
    destruct (rest s) as [|b r'] eqn:Er; [discriminate Hok|].
    symmetry in Hrest. destruct (skipn_cons_inv _ _ _ _ Hrest) as (Hnth & Hsk' & Hlt).
    unfold sl_rel, discard, sl_discard. rewrite Er. cbn [rest off tl sl_slice sl_index].
    repeat split; [exact Hsl | lia | symmetry; exact Hsk' | lia].
Qed.

Lemma slice_lockstep_gen : forall input E ops s r,
  is_io E = false -> tm E = TEof -> sl_rel input s r -> ops_ok E ops s = true ->
  sl_run ops r = abs_run input E ops s /\
  sl_rel input (abs_final E ops s) (sl_final ops r).
Proof.
  intros input E. induction ops as [|op ops IH]; intros s r HE Ht Hrel Hok.
  - cbn [sl_run abs_run abs_final sl_final]. split; [reflexivity | exact Hrel].
  - cbn [ops_ok] in Hok. apply andb_prop in Hok. destruct Hok as (Hok1 & Hok2).
    destruct (sl_step_sim input E op s r HE Ht Hrel Hok1) as (Hret & Hrel').
    cbn [sl_run abs_run abs_final sl_final].
    destruct (sl_step op r) as [ret r'] eqn:Esl.
    destruct (abs_step E op s) as [ret2 s'] eqn:Eabs.
    cbn [fst snd] in *. subst ret2.
    destruct (IH s' r' HE Ht Hrel' Hok2) as (Hrun & Hfin).
    split; [|exact Hfin].
    rewrite (sl_rel_obs input E s' r' ret HE Hrel'). rewrite Hrun. reflexivity.
Qed.

(* Theorem 3, SliceRead / StrRead (rk E = RSlice or RStr; a slice has no I/O failures: tm E = TEof):
   position() = pos_of input off, peek_position() = pos_of input (off + (0 if at end else 1)). *)
Theorem slice_lockstep : forall input E ops,
  is_io E = false -> tm E = TEof -> ops_ok E ops (init_st input) = true ->
  sl_run ops (sl_new input) = abs_run input E ops (init_st input).
Proof.
  intros input E ops HE Ht Hok.
  exact (proj1 (slice_lockstep_gen input E ops _ _ HE Ht (sl_rel_init input) Hok)).
Qed.

(* `advance n` of Model/Read.v (the cursor movement of the model's scanning loops) is n calls of next() *)
Lemma advance_as_nexts : forall E n s,
  pk s = false -> (n <= length (rest s))%nat ->
  abs_final E (repeat ONext n) s = advance n s /\ ops_ok E (repeat ONext n) s = true.
Proof.
  intros E. induction n as [|n IH]; intros s Hpk Hn.
  - cbn [repeat abs_final ops_ok]. split; [|reflexivity].
    unfold advance. destruct s as [rs o p d]. cbn [rest off pk depth skipn] in *. subst p. f_equal. lia.
  - cbn [repeat abs_final ops_ok op_ok andb]. cbn [abs_step]. unfold next.
    destruct (rest s) as [|b r'] eqn:Er; [cbn [length] in Hn; lia|].
    cbn [snd]. cbn [length] in Hn.
    destruct (IH (mkSt r' (S (off s)) false (depth s)) eq_refl) as (Hf & Hk).
    { cbn [rest]. lia. }
    rewrite Hf, Hk. split; [|reflexivity].
    unfold advance. rewrite Er. cbn [rest off depth skipn]. f_equal. lia.
Qed.

Definition ex_ops : list rop :=
  [OPeek; OPeek; ONext; ONext; OPeek; ODiscard; ONext; OPeek; ONext; ONext; ONext; OPeek; ODiscard; ONext; OPeek;
   ONext; ONext; ONext; OPeek; ONext; OPeek].
Definition ex_cfg : cfg := mkCfg false false false false.

Example ex_io_lockstep :
  ops_ok (mkEnv RIo TEof ex_cfg) ex_ops (init_st ex_input) = true
  /\ io_run TEof ex_ops (io_new ex_input) = abs_run ex_input (mkEnv RIo TEof ex_cfg) ex_ops (init_st ex_input)
  /\ io_run (TFail 5) ex_ops (io_new ex_input) = abs_run ex_input (mkEnv RIo (TFail 5) ex_cfg) ex_ops (init_st ex_input)
  /\ map (fun o => (o_off o, o_pos o)) (io_run TEof (firstn 7 ex_ops) (io_new ex_input))
     = [(0, Ok (1,1)); (0, Ok (1,1)); (1, Ok (1,1)); (2, Ok (1,2)); (2, Ok (2,0)); (3, Ok (2,0)); (4, Ok (2,1))].
Proof. vm_compute. repeat split; reflexivity. Qed.

Example ex_slice_lockstep :
  ops_ok (mkEnv RSlice TEof ex_cfg) ex_ops (init_st ex_input) = true
  /\ sl_run ex_ops (sl_new ex_input) = abs_run ex_input (mkEnv RSlice TEof ex_cfg) ex_ops (init_st ex_input)
  /\ sl_run ex_ops (sl_new ex_input) = abs_run ex_input (mkEnv RStr TEof ex_cfg) ex_ops (init_st ex_input)
  /\ map (fun o => (o_off o, o_pos o, o_ppos o)) (sl_run (firstn 7 ex_ops) (sl_new ex_input))
     = [(0, Ok (1,0), Ok (1,1)); (0, Ok (1,0), Ok (1,1)); (1, Ok (1,1), Ok (1,2)); (2, Ok (1,2), Ok (2,0));
        (2, Ok (1,2), Ok (2,0)); (3, Ok (2,0), Ok (2,1)); (4, Ok (2,1), Ok (2,2))].
Proof. vm_compute. repeat split; reflexivity. Qed.

(* Why [op_ok] is needed (not findings: Read::discard is documented "only valid after a call to peek()"):
   a discard() that does not follow a successful peek() separates the concrete readers from the abstract [discard]. *)
Example ex_discard_without_peek_io :
  io_run TEof [ODiscard] (io_new ex_input) <> abs_run ex_input (mkEnv RIo TEof ex_cfg) [ODiscard] (init_st ex_input).
Proof. vm_compute. intros H. discriminate H. Qed.

Example ex_discard_at_end_slice :
  map o_pos (sl_run [OPeek; ODiscard] (sl_new [])) = [Ok (1, 0); Panic].
Proof. vm_compute. reflexivity. Qed.

(* ================================================================================================== *)
(* 4. C09: the index carried by [Err] denotes the line/column the real reader reports                   *)

Definition conc_byte_offset (E : env) (input : bytes) (ops : list rop) : N :=
  if is_io E then io_byte_offset (io_final (tm E) ops (io_new input))
  else N.of_nat (sl_byte_offset (sl_final ops (sl_new input))).

Definition conc_position (E : env) (input : bytes) (ops : list rop) : res (N * N) :=
  if is_io E then Ok (io_position (io_final (tm E) ops (io_new input)))
  else sl_position (sl_final ops (sl_new input)).

Definition conc_peek_position (E : env) (input : bytes) (ops : list rop) : res (N * N) :=
  if is_io E then Ok (io_peek_position (io_final (tm E) ops (io_new input)))
  else sl_peek_position (sl_final ops (sl_new input)).

(* For both reader families (IoRead: is_io E; SliceRead/StrRead otherwise), after any admissible sequence of reader
   operations: whenever the model's `error` / `peek_error` (the only producers of positioned errors in Model/Read.v)
   yield [Err c i], the concrete reader's position() / peek_position() — the line and column the crate stores in the
   Error — is exactly [pos_of input i]; and byte_offset() is the abstract [off]. *)
Theorem C09_positions_agree : forall input E ops,
  (is_io E = false -> tm E = TEof) ->
  ops_ok E ops (init_st input) = true ->
  let s := abs_final E ops (init_st input) in
  conc_byte_offset E input ops = N.of_nat (off s) /\
  (forall (A : Type) c c' i, @error A E s c = Err c' i -> conc_position E input ops = Ok (pos_of input i)) /\
  (forall (A : Type) c c' i, @peek_error A E s c = Err c' i -> conc_peek_position E input ops = Ok (pos_of input i)).
Proof.
  intros input E ops Ht Hok s.
  unfold conc_byte_offset, conc_position, conc_peek_position.
  destruct (is_io E) eqn:HE.
  - destruct (io_lockstep_gen input E ops _ _ HE (io_rel_init input) Hok) as (_ & Hrel). fold s in Hrel.
    pose proof (io_rel_obs input E s _ (Ok None) HE Hrel) as Hobs.
    unfold io_obs, abs_obs in Hobs. injection Hobs as Hoff Hpos Hppos.
    split; [exact Hoff|]. split.
    + intros A c c' i H. unfold error in H. injection H as _ <-. rewrite Hpos. reflexivity.
    + intros A c c' i H. unfold peek_error in H. injection H as _ <-. rewrite Hppos. reflexivity.
  - specialize (Ht eq_refl).
    destruct (slice_lockstep_gen input E ops _ _ HE Ht (sl_rel_init input) Hok) as (_ & Hrel). fold s in Hrel.
    pose proof (sl_rel_obs input E s _ (Ok None) HE Hrel) as Hobs.
    unfold sl_obs, abs_obs in Hobs. injection Hobs as Hoff Hpos Hppos.
    split; [exact Hoff|]. split.
    + intros A c c' i H. unfold error in H. injection H as _ <-. exact Hpos.
    + intros A c c' i H. unfold peek_error in H. injection H as _ <-. exact Hppos.
Qed.

Example ex_C09 :
  let E1 := mkEnv RIo TEof ex_cfg in
  let E2 := mkEnv RSlice TEof ex_cfg in
  let ops := firstn 12 ex_ops in
  (@peek_error unit E1 (abs_final E1 ops (init_st ex_input)) ExpectedSomeValue = Err ExpectedSomeValue 8
   /\ conc_peek_position E1 ex_input ops = Ok (4, 1) /\ pos_of ex_input 8 = (4, 1))
  /\ (@error unit E2 (abs_final E2 ops (init_st ex_input)) ExpectedSomeValue = Err ExpectedSomeValue 7
   /\ conc_position E2 ex_input ops = Ok (4, 0) /\ pos_of ex_input 7 = (4, 0))
  /\ (@peek_error unit E2 (abs_final E2 ops (init_st ex_input)) ExpectedSomeValue = Err ExpectedSomeValue 8
   /\ conc_peek_position E2 ex_input ops = Ok (4, 1)).
Proof. vm_compute. repeat split; reflexivity. Qed.

Print Assumptions slice_position_of_index_spec.
Print Assumptions lci_run_inv.
Print Assumptions io_lockstep.
Print Assumptions slice_lockstep.
Print Assumptions C09_positions_agree.
