(* Proofs/ValueInt.v — C06, the clause "from a Value": integers deserialised from a serde_json::Value
   (Model/ValueDe.v: `impl Deserializer for Value`, `for &Value`, `for Number`, MapKeyDeserializer) are exact and
   range-checked, never wrapped, truncated or saturated.

   Default number representation (arbitrary_precision = false)
     C06_value_owned / C06_value_ref   from_value::<iN/uN> on EVERY Value: PosInt / NegInt convert exactly when the value
                                       is in range (else invalid_value), Float never converts — for all ten targets, the
                                       128-bit ones included —, every other kind of Value is invalid_type
     C06_value_ok_iff                  the same as an equivalence
     C06_value_float_never             the Float clause on its own
     C06_value_parse                   composed with the parser: from_value (from_str lit) for an integer literal lit
   Object keys (every cfg: the key route never looks at arbitrary_precision)
     C06_value_key_64 / _i128 / _u128  the key text is an integer literal: result by range (text-route statements mirrored)
     C06_value_key_iff                 EXACT set of accepted spellings: an optional '-', then 0 or a digit string without leading zero, in range; no '+', no whitespace,
                                       no leading zero, no fraction/exponent; "-0" is rejected by the 8..64-bit targets and by
                                       u128, and is 0 for i128
     C06_value_key_vs_text             the key route through a Value accepts exactly what the text route (C06_key, C06_key_i128, C06_key_u128) accepts,
                                       with the same value
     C06_value_map_key                 the whole Value {"<key>": null} into a map with integer keys
   arbitrary_precision = true
     C06_value_ap / C06_value_ap_lit   from_value::<iN/uN> parses the Number's text with str::parse: plain integer literals in
                                       range convert (a '-' only for signed targets); "-0" converts to 0 for every signed target
                                       (finding F12: the text route refuses -0 for i8..i64), fraction/exponent never convert
     F12_value_neg_zero                the witness                                                                        *)
From SJ Require Import Base.Bytes Base.Utf8 Base.FloatB Gen.Tables
  Model.Read Model.Str Model.Num Model.NumF32 Model.Value Model.De Model.Ignore Model.Ty Model.NumberM Model.DeTyped Model.ValueDe
  Spec.Syntax.
From SJ Require Import Proofs.NumInt Proofs.GrammarNum Proofs.ApNumber Proofs.TypedInt.
From Coq Require Import Lia ZifyBool ZifyNat ZifyN.
Open Scope N_scope.

(* ------------------------------------------------------------------------------------------------------------------ *)
(** * 1. Default representation: `from_value::<T>(v)` and `T::deserialize(&v)` for the integer targets *)

(* the integer a Number of the default build holds (None: a Float) *)
Definition num_int (n : num) : option Z :=
  match n with
  | NPos u => Some (Z.of_N u)
  | NNeg z => Some z
  | NFloat _ => None
  | NLit _ => None
  end.

Definition c06v_spec (t : intty) (v : value) : vres dval :=
  match v with
  | VNum (NPos u) => if Ty.in_range t (Z.of_N u) then VOk (DInt (Z.of_N u)) else verr MInvalidValue
  | VNum (NNeg z) => if Ty.in_range t z then VOk (DInt z) else verr MInvalidValue
  | VNum (NFloat _) => verr MInvalidType
  | VNum (NLit _) => VPanic                  (* no such Number in this build *)
  | _ => verr MInvalidType
  end.

Lemma de_value_owned_int (fuel : nat) (cf : cfg) (fx : fenv) (t : intty) (v : value) :
  de_value_owned (S fuel) cf fx (TInt t) v = value_number_owned cf v (number_de_int cf fx t).
Proof. reflexivity. Qed.

Lemma de_value_ref_int (fuel : nat) (cf : cfg) (fx : fenv) (t : intty) (v : value) :
  de_value_ref (S fuel) cf fx (TInt t) v = value_number_ref cf v (number_de_int cf fx t).
Proof. reflexivity. Qed.

Lemma number_de_int_default (cf : cfg) (fx : fenv) (t : intty) (n : num) :
  arbitrary_precision cf = false ->
  number_de_int cf fx t n = c06v_spec t (VNum n).
Proof.
  intros Hap. unfold number_de_int, number_any. rewrite Hap.
  destruct n as [u|z|f|s]; cbn [intv nv_u64 nv_i64 nv_f64 c06v_spec visit_int].
  - destruct (Ty.in_range t (Z.of_N u)); reflexivity.
  - destruct (Ty.in_range t z); reflexivity.
  - reflexivity.
  - reflexivity.
Qed.

Theorem C06_value_owned : forall cf fx t v, arbitrary_precision cf = false ->
  from_value_owned cf fx (TInt t) v = c06v_spec t v.
Proof.
  intros cf fx t v Hap. unfold from_value_owned, value_de_fuel. rewrite de_value_owned_int.
  unfold value_number_owned. rewrite Hap.
  destruct v as [|b|n|s|l|l]; try reflexivity. apply number_de_int_default. exact Hap.
Qed.

Theorem C06_value_ref : forall cf fx t v, arbitrary_precision cf = false ->
  from_value_ref cf fx (TInt t) v = c06v_spec t v.
Proof.
  intros cf fx t v Hap. unfold from_value_ref, value_de_fuel. rewrite de_value_ref_int.
  unfold value_number_ref. rewrite Hap.
  destruct v as [|b|n|s|l|l]; try reflexivity. apply number_de_int_default. exact Hap.
Qed.

(* the two Deserializer impls coincide on the integer targets, in every build *)
Theorem C06_value_ref_owned : forall cf fx t v,
  from_value_ref cf fx (TInt t) v = from_value_owned cf fx (TInt t) v.
Proof. reflexivity. Qed.

(* as an equivalence: Ok exactly for an integer-valued Number whose value is in range, and then that value *)
Theorem C06_value_ok_iff : forall cf fx t v d, arbitrary_precision cf = false ->
  (from_value_owned cf fx (TInt t) v = VOk d <->
   exists n z, v = VNum n /\ num_int n = Some z /\ Ty.in_range t z = true /\ d = DInt z).
Proof.
  intros cf fx t v d Hap. rewrite (C06_value_owned cf fx t v Hap). split.
  - destruct v as [|b|n|s|l|l]; cbn [c06v_spec]; try discriminate.
    destruct n as [u|z|f|s]; try discriminate.
    + destruct (Ty.in_range t (Z.of_N u)) eqn:Hin; [|discriminate]. intros H. injection H as <-.
      exists (NPos u), (Z.of_N u). repeat split. exact Hin.
    + destruct (Ty.in_range t z) eqn:Hin; [|discriminate]. intros H. injection H as <-.
      exists (NNeg z), z. repeat split. exact Hin.
  - intros (n & z & -> & Hn & Hin & ->). destruct n as [u|z'|f|s]; cbn [num_int] in Hn; try discriminate Hn;
      injection Hn as <-; cbn [c06v_spec]; rewrite Hin; reflexivity.
Qed.

(* never another value, and an out-of-range integer is an invalid_value error (no wrap, truncation, saturation) *)
Corollary C06_value_out_of_range : forall cf fx t n z, arbitrary_precision cf = false ->
  num_int n = Some z -> Ty.in_range t z = false ->
  from_value_owned cf fx (TInt t) (VNum n) = VErr (Message MInvalidValue) 0 0.
Proof.
  intros cf fx t n z Hap Hn Hin. rewrite (C06_value_owned cf fx t _ Hap).
  destruct n as [u|z'|f|s]; cbn [num_int] in Hn; try discriminate Hn; injection Hn as <-; cbn [c06v_spec]; rewrite Hin; reflexivity.
Qed.

(* a Float (what a literal with a fraction or an exponent, the literal -0, and every integer literal outside
   [i64::MIN, u64::MAX] became) is never turned into an integer — by ANY of the ten targets, i128 / u128 included *)
Theorem C06_value_float_never : forall cf fx t f, arbitrary_precision cf = false ->
  from_value_owned cf fx (TInt t) (VNum (NFloat f)) = VErr (Message MInvalidType) 0 0
  /\ from_value_ref cf fx (TInt t) (VNum (NFloat f)) = VErr (Message MInvalidType) 0 0.
Proof.
  intros cf fx t f Hap. rewrite C06_value_ref_owned, (C06_value_owned cf fx t _ Hap). split; reflexivity.
Qed.

(* every other kind of Value is an invalid_type error *)
Theorem C06_value_other_kinds : forall cf fx t v, arbitrary_precision cf = false ->
  (forall n, v <> VNum n) -> from_value_owned cf fx (TInt t) v = VErr (Message MInvalidType) 0 0.
Proof.
  intros cf fx t v Hap Hv. rewrite (C06_value_owned cf fx t v Hap).
  destruct v as [|b|n|s|l|l]; try reflexivity. exfalso. exact (Hv n eq_refl).
Qed.

(* ------------------------------------------------------------------------------------------------------------------ *)
(** * 2. Composed with the parser: `from_value::<T>(from_str::<Value>(lit))` for an integer literal *)

Lemma digit_not_kw (c : N) : is_digit c = true ->
  (c =? 110) = false /\ (c =? 116) = false /\ (c =? 102) = false /\ (c =? 45) = false.
Proof. unfold is_digit. lia. Qed.

Lemma de_end_nil_st (E : env) (o : nat) (p : bool) (d : N) : tm E = TEof ->
  de_end E (mkSt [] o p d) = Ok (mkSt [] (o + 0) false d).
Proof.
  intros HE. unfold de_end, parse_whitespace. cbn [Read.rest span_len]. rewrite NumInt.advance_mk. cbn [skipn].
  rewrite (ApNumber.peek_nil E _ false d HE). reflexivity.
Qed.

(* the parser on an integer literal standing alone: the Value is what parse_integer classified *)
Lemma from_input_int_lit (E : env) (neg : bool) (ds : list N) :
  tm E = TEof -> arbitrary_precision (cf E) = false -> int_ok ds = true ->
  from_input E (int_lit neg ds) =
    match parse_integer E (negb neg) (mkSt ds (if neg then 1 else 0) (negb neg) DEPTH0) with
    | Ok (p, s') => let* _ := de_end E s' in Ok (visit_number p)
    | Err c i => Err c i
    | OutOfFuel => OutOfFuel
    | Panic => Panic
    end.
Proof.
  intros HE Hap Hok. unfold from_input, value_fuel, init_st, int_lit.
  destruct neg; cbn [app negb parse_value].
  - rewrite (parse_whitespace_hd E 45 ds 0 false DEPTH0 eq_refl). cbn [bind].
    change (45 =? 110) with false. change (45 =? 116) with false. change (45 =? 102) with false.
    change (45 =? 45) with true. cbv iota.
    change (discard (mkSt (45 :: ds) 0 true DEPTH0)) with (mkSt ds 1 false DEPTH0).
    unfold parse_any_number. rewrite Hap.
    destruct (parse_integer E false (mkSt ds 1 false DEPTH0)) as [[p s']|c i| |]; cbn [bind]; try reflexivity.
    unfold visit_number_cfg. rewrite Hap. reflexivity.
  - destruct (int_ok_hd ds Hok) as (c0 & r0 & Hds & Hc0).
    assert (Hpw : parse_whitespace E (mkSt ds 0 false DEPTH0) = Ok (Some c0, mkSt ds 0 true DEPTH0)).
    { rewrite Hds. apply parse_whitespace_hd. apply is_digit_not_ws. exact Hc0. }
    rewrite Hpw. cbn [bind].
    destruct (digit_not_kw c0 Hc0) as (H1 & H2 & H3 & H4). rewrite H1, H2, H3, H4, Hc0.
    unfold parse_any_number. rewrite Hap.
    destruct (parse_integer E true (mkSt ds 0 true DEPTH0)) as [[p s']|c i| |]; cbn [bind]; try reflexivity.
    unfold visit_number_cfg. rewrite Hap. reflexivity.
Qed.

Definition fits_number (z : Z) : bool := ((I64_MIN <=? z) && (z <=? U64_MAX))%Z.

(* the Number of the default build that holds the integer z (From<u64> / From<i64>, and what the parser builds) *)
Definition num_of_int (z : Z) : num := if (0 <=? z)%Z then NPos (Z.to_N z) else NNeg z.

Lemma num_int_of_int (z : Z) : num_int (num_of_int z) = Some z.
Proof. unfold num_of_int. destruct (0 <=? z)%Z eqn:Hz; cbn [num_int]; [|reflexivity]. rewrite Z2N.id by lia. reflexivity. Qed.

(* what from_str::<Value> makes of an integer literal standing alone: the Number holding its value when that value is
   within [i64::MIN, u64::MAX] and the literal is not -0; otherwise a Float (null if the float is not finite — which
   cannot happen, but is not needed here) or an error *)
Theorem from_input_int_lit_value : forall E neg ds,
  tm E = TEof -> arbitrary_precision (cf E) = false -> int_ok ds = true ->
  let lit := int_lit neg ds in
  let z := int_lit_val neg ds in
  if fits_number z && negb (is_neg_zero neg ds)
  then from_input E lit = Ok (VNum (num_of_int z))
  else forall v, from_input E lit = Ok v -> v = VNull \/ exists f, v = VNum (NFloat f).
Proof.
  intros E neg ds HE Hap Hok. cbv zeta.
  rewrite (from_input_int_lit E neg ds HE Hap Hok).
  pose proof (digits_val_nonneg ds) as Hnn.
  set (n := Z.to_N (digits_val ds 0)).
  assert (Hn : Z.of_N n = digits_val ds 0) by (unfold n; apply Z2N.id; exact Hnn).
  pose proof (parse_integer_int E (negb neg) ds [] (if neg then 1 else 0)%nat (negb neg) DEPTH0 HE Hok I) as HP.
  cbv zeta in HP. rewrite app_nil_r in HP. fold n in HP.
  unfold fits_number, int_lit_val, is_neg_zero, I64_MIN, U64_MAX. rewrite <- Hn.
  assert (Hfl : forall f : b64, visit_number (PF64 f) = VNull \/ exists g, visit_number (PF64 f) = VNum (NFloat g)).
  { intros f. cbn [visit_number]. destruct (b64_is_finite f); [right; exists f; reflexivity|left; reflexivity]. }
  destruct (n <=? u64_max) eqn:Hle.
  - rewrite HP. unfold st_after. cbn [length]. rewrite (de_end_nil_st E _ false DEPTH0 HE). cbn [bind].
    destruct neg; cbn [negb andb].
    + destruct ((0 <? n) && (n <=? i64_min_abs)) eqn:Hr.
      * assert (Hc : ((-9223372036854775808 <=? - Z.of_N n)%Z && (- Z.of_N n <=? 18446744073709551615)%Z)
                       && negb (Z.of_N n =? 0)%Z = true) by (unfold i64_min_abs in Hr; lia).
        rewrite Hc.
        assert (Hno : num_of_int (- Z.of_N n) = NNeg (- Z.of_N n)).
        { unfold num_of_int. assert (H0 : (0 <=? - Z.of_N n)%Z = false) by lia. rewrite H0. reflexivity. }
        rewrite Hno. reflexivity.
      * assert (Hc : ((-9223372036854775808 <=? - Z.of_N n)%Z && (- Z.of_N n <=? 18446744073709551615)%Z)
                       && negb (Z.of_N n =? 0)%Z = false) by (unfold i64_min_abs in Hr; lia).
        rewrite Hc. intros v Hv. injection Hv as <-. apply Hfl.
    + assert (Hc : ((-9223372036854775808 <=? Z.of_N n)%Z && (Z.of_N n <=? 18446744073709551615)%Z) && true = true)
        by (unfold u64_max in Hle; lia).
      rewrite Hc.
      assert (Hno : num_of_int (Z.of_N n) = NPos n).
      { unfold num_of_int. assert (H0 : (0 <=? Z.of_N n)%Z = true) by lia. rewrite H0, N2Z.id. reflexivity. }
      rewrite Hno. reflexivity.
  - assert (Hc : ((-9223372036854775808 <=? (if neg then - Z.of_N n else Z.of_N n))%Z
                   && ((if neg then - Z.of_N n else Z.of_N n) <=? 18446744073709551615)%Z)
                   && negb (neg && (Z.of_N n =? 0)%Z) = false).
    { unfold u64_max in Hle. destruct neg; lia. }
    rewrite Hc.
    destruct (parse_integer E (negb neg) (mkSt ds (if neg then 1%nat else 0%nat) (negb neg) DEPTH0)) as [[p s']|c i| |];
      try discriminate.
    destruct p as [f|x|x|x]; try contradiction. subst s'.
    unfold st_after. cbn [length]. rewrite (de_end_nil_st E _ false DEPTH0 HE). cbn [bind].
    intros v Hv. injection Hv as <-. apply Hfl.
Qed.

Theorem C06_value_parse : forall E fx t neg ds,
  tm E = TEof -> arbitrary_precision (cf E) = false -> int_ok ds = true ->
  let lit := int_lit neg ds in
  let z := int_lit_val neg ds in
  if fits_number z && negb (is_neg_zero neg ds)
  then from_input E lit = Ok (VNum (num_of_int z)) /\
       from_value_owned (cf E) fx (TInt t) (VNum (num_of_int z)) = (if Ty.in_range t z then VOk (DInt z) else verr MInvalidValue)
  else forall v, from_input E lit = Ok v -> from_value_owned (cf E) fx (TInt t) v = verr MInvalidType.
Proof.
  intros E fx t neg ds HE Hap Hok. cbv zeta.
  pose proof (from_input_int_lit_value E neg ds HE Hap Hok) as H. cbv zeta in H.
  destruct (fits_number (int_lit_val neg ds) && negb (is_neg_zero neg ds)).
  - split; [exact H|]. rewrite (C06_value_owned (cf E) fx t _ Hap). unfold num_of_int.
    destruct (0 <=? int_lit_val neg ds)%Z eqn:H0; cbn [c06v_spec]; [rewrite Z2N.id by lia|]; reflexivity.
  - intros v Hv. rewrite (C06_value_owned (cf E) fx t _ Hap).
    destruct (H v Hv) as [->|(f & ->)]; reflexivity.
Qed.

(* ------------------------------------------------------------------------------------------------------------------ *)
(** * 3. Object keys: MapKeyDeserializer, deserialize_numeric_key! (a text Deserializer over the key) *)

Definition Ek (cf : cfg) : env := mkEnv RStr TEof cf.

Lemma Ek_eof (cf : cfg) : tm (Ek cf) = TEof.
Proof. reflexivity. Qed.

(* the frame of deserialize_numeric_key! on a key that starts like a number *)
Lemma vkey_numeric_cons (cf : cfg) (delegate : env -> st -> tres (dval * st)) (b : N) (r : list N) :
  (is_digit b || (b =? 45)) = true ->
  vkey_numeric cf delegate (b :: r) =
    (let& (d, s2) := of_text (b :: r) (delegate (Ek cf) (mkSt (b :: r) 0 true DEPTH0)) in
     match peek (Ek cf) s2 with
     | Ok (Some _, _) => VErr ExpectedNumericKey 0 0
     | Ok (None, _) => VOk d
     | Err c _ => VErr c 0 0
     | OutOfFuel => VFuel
     | Panic => VPanic
     end).
Proof. intros Hb. unfold vkey_numeric, init_st. rewrite TypedInt.peek_cons. rewrite Hb. reflexivity. Qed.

Lemma vkey_numeric_reject (cf : cfg) (delegate : env -> st -> tres (dval * st)) (key : list N) :
  match key with [] => True | b :: _ => (is_digit b || (b =? 45)) = false end ->
  vkey_numeric cf delegate key = VErr ExpectedNumericKey 0 0.
Proof.
  intros Hk. unfold vkey_numeric, init_st. destruct key as [|b r].
  - rewrite (ApNumber.peek_nil (mkEnv RStr TEof cf) 0 false DEPTH0 eq_refl). reflexivity.
  - rewrite TypedInt.peek_cons, Hk. reflexivity.
Qed.

Lemma int_lit_hd (neg : bool) (ds : list N) : int_ok ds = true ->
  exists b r, int_lit neg ds = b :: r /\ (is_digit b || (b =? 45)) = true.
Proof.
  intros Hok. unfold int_lit. destruct neg; cbn [app].
  - exists 45, ds. split; reflexivity.
  - destruct (int_ok_hd ds Hok) as (c0 & r0 & Hds & Hc0). exists c0, r0. split; [exact Hds|]. rewrite Hc0. reflexivity.
Qed.

Lemma peek_after_nil (cf : cfg) (lit : list N) (o : nat) (d : N) :
  peek (Ek cf) (st_after lit [] o d) = Ok (None, mkSt [] (o + length lit) false d).
Proof. unfold st_after. apply ApNumber.peek_nil. reflexivity. Qed.

(* the key text is an integer literal: the delegate's run on the literal decides *)
Lemma vkey_numeric_lit (cf : cfg) (delegate : env -> st -> tres (dval * st)) (neg : bool) (ds : list N) :
  int_ok ds = true ->
  let lit := int_lit neg ds in
  vkey_numeric cf delegate lit =
    (let& (d, s2) := of_text lit (delegate (Ek cf) (mkSt lit 0 true DEPTH0)) in
     match peek (Ek cf) s2 with
     | Ok (Some _, _) => VErr ExpectedNumericKey 0 0
     | Ok (None, _) => VOk d
     | Err c _ => VErr c 0 0
     | OutOfFuel => VFuel
     | Panic => VPanic
     end).
Proof.
  intros Hok. cbv zeta. destruct (int_lit_hd neg ds Hok) as (b & r & Hl & Hb). rewrite Hl.
  apply vkey_numeric_cons. exact Hb.
Qed.

Definition c06v_err (r : vres dval) : Prop :=
  exists c l k, r = VErr c l k /\ (c = Message MInvalidValue \/ c = Message MInvalidType \/ c = NumberOutOfRange).

Lemma de_value_key_int (cf : cfg) (b : bool) (t : intty) (key : list N) :
  de_value_key cf b (KInt t) key = vkey_numeric cf (fun E => deserialize_int E t) key.
Proof. reflexivity. Qed.

Lemma deserialize_int_small (E : env) (t : intty) (s : st) :
  is_128 t = false -> deserialize_int E t s = deserialize_number E (visit_int t) s.
Proof. intros H. destruct t; try discriminate H; reflexivity. Qed.

(* 8..64-bit key types: Ok with the literal's value exactly when it is in range and the literal is not -0 *)
Theorem C06_value_key_64 : forall cf b t neg ds,
  is_128 t = false -> int_ok ds = true ->
  let lit := int_lit neg ds in
  let v := int_lit_val neg ds in
  let r := de_value_key cf b (KInt t) lit in
  if Ty.in_range t v && negb (is_neg_zero neg ds)
  then r = VOk (DInt v)
  else c06v_err r.
Proof.
  intros cf b t neg ds H128 Hok. cbv zeta. rewrite de_value_key_int, (vkey_numeric_lit cf _ neg ds Hok).
  cbv beta. rewrite (deserialize_int_small _ t _ H128).
  pose proof (deserialize_number_int (Ek cf) t neg ds [] 0 true DEPTH0 (Ek_eof cf) (not128_small t H128) Hok I) as HD.
  cbv zeta in HD. rewrite app_nil_r in HD.
  destruct (Ty.in_range t (int_lit_val neg ds) && negb (is_neg_zero neg ds)).
  - rewrite HD. cbn [of_text vbind]. rewrite peek_after_nil. reflexivity.
  - destruct HD as (c & i & Hr & Hc). rewrite Hr.
    destruct Hc as [->|[->| ->]]; cbn [of_text]; destruct (pos_of (int_lit neg ds) i) as [line col]; cbn [vbind];
      unfold c06v_err; eexists _, line, col; (split; [reflexivity|]); auto.
Qed.

Lemma err_idx_Ek (cf : cfg) (s : st) : err_idx (Ek cf) s = off s.
Proof. reflexivity. Qed.

Theorem C06_value_key_i128 : forall cf b neg ds, int_ok ds = true ->
  let lit := int_lit neg ds in
  let v := int_lit_val neg ds in
  de_value_key cf b (KInt I128) lit =
    if Ty.in_range I128 v then VOk (DInt v)
    else let '(line, col) := pos_of lit (length lit) in VErr NumberOutOfRange line col.
Proof.
  intros cf b neg ds Hok. cbv zeta. rewrite de_value_key_int, (vkey_numeric_lit cf _ neg ds Hok). cbv beta.
  pose proof (C06_text_i128 O (Ek cf) neg ds [] 0 true DEPTH0 (Ek_eof cf) Hok I) as HD.
  cbv zeta in HD. cbn [de_typed] in HD. rewrite app_nil_r in HD. rewrite HD.
  destruct (Ty.in_range I128 (int_lit_val neg ds)).
  - cbn [of_text vbind]. rewrite peek_after_nil. reflexivity.
  - cbn [of_text]. rewrite err_idx_Ek. unfold st_after. cbn [off]. rewrite Nat.add_0_l.
    destruct (pos_of (int_lit neg ds) (length (int_lit neg ds))) as [line col]. reflexivity.
Qed.

Theorem C06_value_key_u128 : forall cf b neg ds, int_ok ds = true ->
  let lit := int_lit neg ds in
  let v := int_lit_val neg ds in
  de_value_key cf b (KInt U128) lit =
    if neg then let '(line, col) := pos_of lit 1 in VErr NumberOutOfRange line col
    else if Ty.in_range U128 v then VOk (DInt v)
    else let '(line, col) := pos_of lit (length lit) in VErr NumberOutOfRange line col.
Proof.
  intros cf b neg ds Hok. cbv zeta. rewrite de_value_key_int, (vkey_numeric_lit cf _ neg ds Hok). cbv beta.
  pose proof (C06_text_u128 O (Ek cf) neg ds [] 0 true DEPTH0 (Ek_eof cf) Hok I) as HD.
  cbv zeta in HD. cbn [de_typed] in HD. rewrite app_nil_r in HD. rewrite HD.
  destruct neg.
  - cbn [of_text]. unfold int_lit. cbn [app]. unfold peek_err_idx. cbn [is_io rk Ek Read.rest Read.off]. rewrite Nat.add_0_l.
    destruct (pos_of (45 :: ds) 1) as [line col]. reflexivity.
  - destruct (Ty.in_range U128 (int_lit_val false ds)).
    + cbn [of_text vbind]. rewrite peek_after_nil. reflexivity.
    + cbn [of_text]. rewrite err_idx_Ek. unfold st_after. cbn [off]. rewrite Nat.add_0_l.
      destruct (pos_of (int_lit false ds) (length (int_lit false ds))) as [line col]. reflexivity.
Qed.

(* ---- the converse: what a successful key run implies about the key text ------------------------------------------- *)
Lemma vbind_ok_inv {A B} (r : vres A) (f : A -> vres B) (b : B) :
  vbind r f = VOk b -> exists a, r = VOk a /\ f a = VOk b.
Proof. destruct r as [a|c l k| |]; cbn [vbind]; intros H; try discriminate H. exists a. split; [reflexivity|exact H]. Qed.

Lemma of_text_ok_inv {A} (text : bytes) (r : tres A) (a : A) : of_text text r = VOk a -> r = TOk a.
Proof.
  destruct r as [x|c i|k s| |]; cbn [of_text]; intros H; try discriminate H.
  - injection H as <-. reflexivity.
  - exfalso. destruct c; try discriminate H; destruct (pos_of text i); discriminate H.
Qed.

Lemma fix_position_ok_inv {A} (E : env) (r : tres A) (a : A) : fix_position E r = TOk a -> r = TOk a.
Proof. destruct r; cbn [fix_position]; intros H; try discriminate H; exact H. Qed.

Lemma tbind_lift_ok_inv {A B} (r : res A) (f : A -> tres B) (b : B) :
  tbind (lift r) f = TOk b -> exists a, r = Ok a /\ f a = TOk b.
Proof. destruct r as [a|c i| |]; cbn [lift tbind]; intros H; try discriminate H. exists a. split; [reflexivity|exact H]. Qed.

Lemma numstart_not_ws (b : N) : (is_digit b || (b =? 45)) = true -> is_ws b = false.
Proof. unfold is_digit, is_ws, WS_SET. cbn [existsb]. intros H. lia. Qed.

Lemma vkey_numeric_ok_inv (cf : cfg) (delegate : env -> st -> tres (dval * st)) (key : list N) (d : dval) :
  vkey_numeric cf delegate key = VOk d ->
  exists b r s2, key = b :: r /\ (is_digit b || (b =? 45)) = true
    /\ delegate (Ek cf) (mkSt key 0 true DEPTH0) = TOk (d, s2) /\ rest s2 = [].
Proof.
  intros H. destruct key as [|b r].
  - rewrite (vkey_numeric_reject cf delegate [] I) in H. discriminate H.
  - destruct (is_digit b || (b =? 45)) eqn:Hb.
    + rewrite (vkey_numeric_cons cf delegate b r Hb) in H. apply vbind_ok_inv in H. destruct H as ([d' s2] & Hd & Hp).
      apply of_text_ok_inv in Hd. exists b, r, s2. split; [reflexivity|]. split; [exact Hb|].
      unfold peek in Hp. destruct (rest s2) as [|c l] eqn:Hrest.
      * unfold at_end in Hp. cbn [tm Ek] in Hp. injection Hp as <-. split; [exact Hd|reflexivity].
      * discriminate Hp.
    + rewrite (vkey_numeric_reject cf delegate (b :: r) Hb) in H. discriminate H.
Qed.

(* parse_integer returned an integer and consumed everything: the input was an integer literal, the result its value *)
Lemma parse_integer_all_int (E : env) (positive : bool) (l : list N) (o : nat) (p : bool) (d : N) (pn : pnum) (s' : st) :
  tm E = TEof ->
  parse_integer E positive (mkSt l o p d) = Ok (pn, s') -> (forall f, pn <> PF64 f) -> rest s' = [] ->
  int_ok l = true /\
  let v := Z.to_N (digits_val l 0) in
  (v <=? u64_max) = true /\ pn = (if positive then PU64 v else PI64 (- Z.of_N v))
  /\ (positive = false -> ((0 <? v) && (v <=? i64_min_abs)) = true).
Proof.
  intros HE Hrun Hnf Hrest.
  destruct (int_split l) as [Hnd|[(r & -> & Hr)|(int & r & -> & Hint & Hr)]].
  - exfalso. exact (parse_integer_noint E HE positive l o p d Hnd _ Hrun).
  - exfalso. exact (parse_integer_lead0 E HE positive r o p d Hr _ Hrun).
  - destruct r as [|c r3].
    + rewrite app_nil_r in *. split; [exact Hint|].
      pose proof (parse_integer_int E positive int [] o p d HE Hint I) as HP. cbv zeta in HP. rewrite app_nil_r in HP.
      cbv zeta. destruct (Z.to_N (digits_val int 0) <=? u64_max).
      * split; [reflexivity|]. rewrite Hrun in HP. injection HP as Hpn _. subst pn.
        destruct positive; [split; [reflexivity|intros H; discriminate H]|].
        destruct ((0 <? Z.to_N (digits_val int 0)) && (Z.to_N (digits_val int 0) <=? i64_min_abs)).
        -- split; [reflexivity|intros _; reflexivity].
        -- exfalso. exact (Hnf _ eq_refl).
      * exfalso. rewrite Hrun in HP. destruct pn as [f|x|x|x]; try contradiction. exact (Hnf f eq_refl).
    + exfalso. unfold nd in Hr. cbn [hd] in Hr.
      destruct (N.eq_dec c 46) as [H46|H46]; [|destruct (N.eq_dec c 101) as [H101|H101]; [|destruct (N.eq_dec c 69) as [H69|H69]]].
      * destruct (parse_integer_frac_exp_is_float E positive int c r3 o p d pn s' HE Hint (or_introl H46) Hrun) as [f Hf].
        exact (Hnf f Hf).
      * destruct (parse_integer_frac_exp_is_float E positive int c r3 o p d pn s' HE Hint (or_intror (or_introl H101)) Hrun) as [f Hf].
        exact (Hnf f Hf).
      * destruct (parse_integer_frac_exp_is_float E positive int c r3 o p d pn s' HE Hint (or_intror (or_intror H69)) Hrun) as [f Hf].
        exact (Hnf f Hf).
      * assert (Hstop : stops_number (c :: r3)) by (cbn [stops_number]; repeat split; assumption).
        pose proof (parse_integer_int E positive int (c :: r3) o p d HE Hint Hstop) as HP. cbv zeta in HP.
        rewrite Hrun in HP. destruct (Z.to_N (digits_val int 0) <=? u64_max).
        -- injection HP as _ Hs. subst s'. discriminate Hrest.
        -- destruct pn as [f|x|x|x]; try contradiction. exact (Hnf f eq_refl).
Qed.

Lemma visit_int_ok_inv (t : intty) (pn : pnum) (s s2 : st) (d : dval) :
  visit_int t pn s = TOk (d, s2) ->
  s2 = s /\ (forall f, pn <> PF64 f) /\
  exists z, d = DInt z /\ Ty.in_range t z = true /\ (pn = PU64 (Z.to_N z) /\ (0 <= z)%Z \/ pn = PI64 z).
Proof.
  destruct pn as [f|n|z|x]; cbn [visit_int]; intros H; try discriminate H.
  - destruct (Ty.in_range t (Z.of_N n)) eqn:Hin; [|discriminate H]. injection H as <- <-.
    split; [reflexivity|]. split; [discriminate|]. exists (Z.of_N n). split; [reflexivity|]. split; [exact Hin|].
    left. rewrite N2Z.id. split; [reflexivity|lia].
  - destruct (Ty.in_range t z) eqn:Hin; [|discriminate H]. injection H as <- <-.
    split; [reflexivity|]. split; [discriminate|]. exists z. split; [reflexivity|]. split; [exact Hin|]. right. reflexivity.
Qed.

(* deserialize_number with an integer visitor succeeded and consumed the whole text *)
Lemma deserialize_number_all_int (E : env) (t : intty) (b : N) (r : list N) (o : nat) (p : bool) (d0 : N) (d : dval) (s2 : st) :
  tm E = TEof -> (is_digit b || (b =? 45)) = true ->
  deserialize_number E (visit_int t) (mkSt (b :: r) o p d0) = TOk (d, s2) -> rest s2 = [] ->
  exists neg ds, int_ok ds = true /\ b :: r = int_lit neg ds /\ d = DInt (int_lit_val neg ds)
    /\ Ty.in_range t (int_lit_val neg ds) = true /\ is_neg_zero neg ds = false.
Proof.
  intros HE Hb Hrun Hrest. unfold deserialize_number in Hrun.
  rewrite (parse_whitespace_hd E b r o p d0 (numstart_not_ws b Hb)) in Hrun. cbn [lift tbind] in Hrun.
  apply fix_position_ok_inv in Hrun.
  destruct (b =? 45) eqn:H45.
  - apply N.eqb_eq in H45. subst b.
    change (discard (mkSt (45 :: r) o true d0)) with (mkSt r (S o) false d0) in Hrun.
    apply tbind_lift_ok_inv in Hrun. destruct Hrun as ([pn s'] & Hpi & Hv).
    apply visit_int_ok_inv in Hv. destruct Hv as (-> & Hnf & z & -> & Hin & Hpn).
    destruct (parse_integer_all_int E false r (S o) false d0 pn s' HE Hpi Hnf Hrest) as (Hok & Hle & Hp & Hpos).
    cbv zeta in Hle, Hp, Hpos. specialize (Hpos eq_refl).
    pose proof (digits_val_nonneg r) as Hnn.
    assert (Hz : z = (- digits_val r 0)%Z).
    { destruct Hpn as [(Hq & _)|Hq]; rewrite Hq in Hp; [discriminate Hp|]. injection Hp as ->. rewrite Z2N.id by exact Hnn. reflexivity. }
    exists true, r. split; [exact Hok|]. split; [reflexivity|]. unfold int_lit_val, is_neg_zero. rewrite <- Hz.
    split; [reflexivity|]. split; [exact Hin|]. cbn [andb]. lia.
  - rewrite orb_false_r in Hb. rewrite Hb in Hrun.
    apply tbind_lift_ok_inv in Hrun. destruct Hrun as ([pn s'] & Hpi & Hv).
    apply visit_int_ok_inv in Hv. destruct Hv as (-> & Hnf & z & -> & Hin & Hpn).
    destruct (parse_integer_all_int E true (b :: r) o true d0 pn s' HE Hpi Hnf Hrest) as (Hok & Hle & Hp & _).
    cbv zeta in Hle, Hp.
    pose proof (digits_val_nonneg (b :: r)) as Hnn.
    assert (Hz : z = digits_val (b :: r) 0).
    { destruct Hpn as [(Hq & Hz0)|Hq]; rewrite Hq in Hp; [|discriminate Hp]. injection Hp as Hp.
      apply (f_equal Z.of_N) in Hp. rewrite !Z2N.id in Hp by assumption. exact Hp. }
    exists false, (b :: r). split; [exact Hok|]. split; [reflexivity|]. unfold int_lit_val, is_neg_zero. rewrite <- Hz.
    split; [reflexivity|]. split; [exact Hin|]. reflexivity.
Qed.

(* scan_integer128 consumed everything: the input was the digits of an integer literal *)
Lemma scan_integer128_all (E : env) (l : list N) (o : nat) (p : bool) (d : N) (buf : bytes) (s2 : st) :
  tm E = TEof -> scan_integer128 E (mkSt l o p d) = Ok (buf, s2) -> rest s2 = [] ->
  int_ok l = true /\ buf = l.
Proof.
  intros HE Hrun Hrest.
  destruct (int_split l) as [Hnd|[(r & -> & Hr)|(int & r & -> & Hint & Hr)]].
  - exfalso. unfold scan_integer128 in Hrun. destruct l as [|c l].
    + rewrite (GrammarNum.next_nil E HE) in Hrun. discriminate Hrun.
    + rewrite NumInt.next_cons in Hrun. cbn [bind] in Hrun. unfold nd in Hnd. cbn [hd] in Hnd.
      assert (H48 : (c =? 48) = false) by (unfold is_digit in Hnd; lia).
      assert (H19 : is_digit19 c = false) by (unfold is_digit, is_digit19 in *; lia).
      rewrite H48, H19 in Hrun. discriminate Hrun.
  - exfalso. unfold scan_integer128 in Hrun. rewrite NumInt.next_cons in Hrun. cbn [bind] in Hrun.
    change (48 =? 48) with true in Hrun. cbv iota in Hrun.
    rewrite (peek_or_null_eof E r (S o) false d HE) in Hrun. cbn [bind] in Hrun. rewrite Hr in Hrun. discriminate Hrun.
  - assert (Hnext : not_digit_next r) by (destruct r as [|c r3]; [exact I|exact Hr]).
    rewrite (scan_integer128_int E int r o p d HE Hint Hnext) in Hrun. injection Hrun as <- <-.
    unfold st_after in Hrest. cbn [rest] in Hrest. subst r. rewrite app_nil_r. split; [exact Hint|reflexivity].
Qed.

Lemma parse_i128_some (neg : bool) (buf : bytes) (z : Z) : parse_i128 neg buf = Some z ->
  z = (if neg then - digits_val buf 0 else digits_val buf 0)%Z /\ Ty.in_range I128 z = true.
Proof.
  unfold parse_i128. destruct (all_digits buf && Ty.in_range I128 (if neg then (- digits_val buf 0)%Z else digits_val buf 0)) eqn:H;
    intros Hs; [|discriminate Hs]. injection Hs as <-. apply andb_prop in H. destruct H as (_ & H). split; [reflexivity|exact H].
Qed.

Lemma parse_u128_some (buf : bytes) (z : Z) : parse_u128 buf = Some z ->
  z = digits_val buf 0 /\ Ty.in_range U128 z = true.
Proof.
  unfold parse_u128. destruct (all_digits buf && Ty.in_range U128 (digits_val buf 0)) eqn:H;
    intros Hs; [|discriminate Hs]. injection Hs as <-. apply andb_prop in H. destruct H as (_ & H). split; [reflexivity|exact H].
Qed.

Lemma deserialize_i128_all_int (E : env) (b : N) (r : list N) (o : nat) (p : bool) (d0 : N) (d : dval) (s2 : st) :
  tm E = TEof -> (is_digit b || (b =? 45)) = true ->
  deserialize_i128 E (mkSt (b :: r) o p d0) = TOk (d, s2) -> rest s2 = [] ->
  exists neg ds, int_ok ds = true /\ b :: r = int_lit neg ds /\ d = DInt (int_lit_val neg ds)
    /\ Ty.in_range I128 (int_lit_val neg ds) = true.
Proof.
  intros HE Hb Hrun Hrest. unfold deserialize_i128 in Hrun.
  rewrite (parse_whitespace_hd E b r o p d0 (numstart_not_ws b Hb)) in Hrun. cbn [lift tbind] in Hrun.
  destruct (b =? 45) eqn:H45.
  - apply N.eqb_eq in H45. subst b.
    change (discard (mkSt (45 :: r) o true d0)) with (mkSt r (S o) false d0) in Hrun.
    apply tbind_lift_ok_inv in Hrun. destruct Hrun as ([buf s'] & Hsc & Hv).
    destruct (parse_i128 true buf) as [z|] eqn:Hp; [|discriminate Hv]. injection Hv as <- <-.
    destruct (scan_integer128_all E r (S o) false d0 buf s' HE Hsc Hrest) as (Hok & ->).
    destruct (parse_i128_some true r z Hp) as (Hz & Hin).
    exists true, r. split; [exact Hok|]. split; [reflexivity|]. unfold int_lit_val. rewrite <- Hz. split; [reflexivity|exact Hin].
  - apply tbind_lift_ok_inv in Hrun. destruct Hrun as ([buf s'] & Hsc & Hv).
    destruct (parse_i128 false buf) as [z|] eqn:Hp; [|discriminate Hv]. injection Hv as <- <-.
    destruct (scan_integer128_all E (b :: r) o true d0 buf s' HE Hsc Hrest) as (Hok & ->).
    destruct (parse_i128_some false (b :: r) z Hp) as (Hz & Hin).
    exists false, (b :: r). split; [exact Hok|]. split; [reflexivity|]. unfold int_lit_val. rewrite <- Hz. split; [reflexivity|exact Hin].
Qed.

Lemma deserialize_u128_all_int (E : env) (b : N) (r : list N) (o : nat) (p : bool) (d0 : N) (d : dval) (s2 : st) :
  tm E = TEof -> (is_digit b || (b =? 45)) = true ->
  deserialize_u128 E (mkSt (b :: r) o p d0) = TOk (d, s2) -> rest s2 = [] ->
  exists ds, int_ok ds = true /\ b :: r = int_lit false ds /\ d = DInt (int_lit_val false ds)
    /\ Ty.in_range U128 (int_lit_val false ds) = true.
Proof.
  intros HE Hb Hrun Hrest. unfold deserialize_u128 in Hrun.
  rewrite (parse_whitespace_hd E b r o p d0 (numstart_not_ws b Hb)) in Hrun. cbn [lift tbind] in Hrun.
  destruct (b =? 45) eqn:H45; [discriminate Hrun|].
  apply tbind_lift_ok_inv in Hrun. destruct Hrun as ([buf s'] & Hsc & Hv).
  destruct (parse_u128 buf) as [z|] eqn:Hp; [|discriminate Hv]. injection Hv as <- <-.
  destruct (scan_integer128_all E (b :: r) o true d0 buf s' HE Hsc Hrest) as (Hok & ->).
  destruct (parse_u128_some (b :: r) z Hp) as (Hz & Hin).
  exists (b :: r). split; [exact Hok|]. split; [reflexivity|]. unfold int_lit_val. rewrite <- Hz. split; [reflexivity|exact Hin].
Qed.

(* which literals a key type accepts *)
Definition key_accepts (t : intty) (neg : bool) (ds : list N) : bool :=
  Ty.in_range t (int_lit_val neg ds) &&
  match t with
  | I128 => true                                   (* "-0" is 0 *)
  | U128 => negb neg                               (* any '-' is refused, "-0" included *)
  | _ => negb (is_neg_zero neg ds)                 (* "-0" is the float negative zero: refused *)
  end.

Theorem C06_value_key_sound : forall cf b t key d,
  de_value_key cf b (KInt t) key = VOk d ->
  exists neg ds, int_ok ds = true /\ key = int_lit neg ds /\ d = DInt (int_lit_val neg ds) /\ key_accepts t neg ds = true.
Proof.
  intros cf b t key d H. rewrite de_value_key_int in H.
  apply vkey_numeric_ok_inv in H. destruct H as (b0 & r & s2 & -> & Hb & Hrun & Hrest).
  unfold key_accepts.
  destruct (is_128 t) eqn:H128.
  - destruct t; try discriminate H128; cbn [deserialize_int] in Hrun.
    + destruct (deserialize_i128_all_int (Ek cf) b0 r 0 true DEPTH0 d s2 (Ek_eof cf) Hb Hrun Hrest) as (neg & ds & Hok & Hk & Hd & Hin).
      exists neg, ds. rewrite Hin. repeat split; assumption.
    + destruct (deserialize_u128_all_int (Ek cf) b0 r 0 true DEPTH0 d s2 (Ek_eof cf) Hb Hrun Hrest) as (ds & Hok & Hk & Hd & Hin).
      exists false, ds. rewrite Hin. repeat split; assumption.
  - rewrite (deserialize_int_small _ t _ H128) in Hrun.
    destruct (deserialize_number_all_int (Ek cf) t b0 r 0 true DEPTH0 d s2 (Ek_eof cf) Hb Hrun Hrest)
      as (neg & ds & Hok & Hk & Hd & Hin & Hnz).
    exists neg, ds. rewrite Hin, Hnz. split; [exact Hok|]. split; [exact Hk|]. split; [exact Hd|].
    destruct t; try discriminate H128; reflexivity.
Qed.

(* the forward direction in the same vocabulary *)
Lemma C06_value_key_complete : forall cf b t neg ds, int_ok ds = true ->
  de_value_key cf b (KInt t) (int_lit neg ds) =
    if key_accepts t neg ds then VOk (DInt (int_lit_val neg ds)) else de_value_key cf b (KInt t) (int_lit neg ds).
Proof.
  intros cf b t neg ds Hok. destruct (key_accepts t neg ds) eqn:Hacc; [|reflexivity]. unfold key_accepts in Hacc.
  apply andb_prop in Hacc. destruct Hacc as (Hin & Hx).
  destruct (is_128 t) eqn:H128.
  - destruct t; try discriminate H128.
    + pose proof (C06_value_key_i128 cf b neg ds Hok) as H. cbv zeta in H. rewrite Hin in H. exact H.
    + pose proof (C06_value_key_u128 cf b neg ds Hok) as H. cbv zeta in H. destruct neg; [discriminate Hx|]. rewrite Hin in H. exact H.
  - pose proof (C06_value_key_64 cf b t neg ds H128 Hok) as H. cbv zeta in H.
    assert (Hnz : negb (is_neg_zero neg ds) = true) by (destruct t; try discriminate H128; exact Hx).
    rewrite Hin, Hnz in H. exact H.
Qed.

(* EXACT characterisation of the object keys an integer key type accepts, and of the value it produces *)
Theorem C06_value_key_iff : forall cf b t key d,
  de_value_key cf b (KInt t) key = VOk d <->
  exists neg ds, int_ok ds = true /\ key = int_lit neg ds /\ d = DInt (int_lit_val neg ds) /\ key_accepts t neg ds = true.
Proof.
  intros cf b t key d. split; [apply C06_value_key_sound|].
  intros (neg & ds & Hok & -> & -> & Hacc). rewrite (C06_value_key_complete cf b t neg ds Hok), Hacc. reflexivity.
Qed.

(* a refused integer-literal key is an error of the text deserializer run on the key (never Ok, fuel or panic) *)
Theorem C06_value_key_refused : forall cf b t neg ds, int_ok ds = true -> key_accepts t neg ds = false ->
  c06v_err (de_value_key cf b (KInt t) (int_lit neg ds)).
Proof.
  intros cf b t neg ds Hok Hacc. unfold key_accepts in Hacc.
  destruct (is_128 t) eqn:H128.
  - destruct t; try discriminate H128.
    + rewrite andb_true_r in Hacc. pose proof (C06_value_key_i128 cf b neg ds Hok) as H. cbv zeta in H. rewrite Hacc in H.
      rewrite H. destruct (pos_of _ _) as [line col]. exists NumberOutOfRange, line, col. auto.
    + pose proof (C06_value_key_u128 cf b neg ds Hok) as H. cbv zeta in H. rewrite H. destruct neg.
      * destruct (pos_of _ _) as [line col]. exists NumberOutOfRange, line, col. auto.
      * rewrite andb_true_r in Hacc. rewrite Hacc. destruct (pos_of _ _) as [line col]. exists NumberOutOfRange, line, col. auto.
  - pose proof (C06_value_key_64 cf b t neg ds H128 Hok) as H. cbv zeta in H.
    assert (Hc : Ty.in_range t (int_lit_val neg ds) && negb (is_neg_zero neg ds) = false)
      by (destruct t; try discriminate H128; exact Hacc).
    rewrite Hc in H. exact H.
Qed.

(* ---- the key route through a Value against the key route of the text deserializer (C06_key, C06_key_i128, C06_key_u128) ---- *)
Lemma text_key_char (fuel : nat) (E : env) (t : intty) (neg : bool) (ds rest : list N) (o : nat) (p : bool) (d : N) :
  tm E = TEof -> int_ok ds = true ->
  let lit := int_lit neg ds in
  let r := de_key (S fuel) E (KInt t) (mkSt (34 :: lit ++ 34 :: rest) o p d) in
  if key_accepts t neg ds then r = TOk (DInt (int_lit_val neg ds), st_key_end lit rest o d) else forall a, r <> TOk a.
Proof.
  intros HE Hok. cbv zeta. unfold key_accepts.
  destruct (is_128 t) eqn:H128.
  - destruct t; try discriminate H128.
    + rewrite andb_true_r. pose proof (C06_key_i128 fuel E neg ds rest o p d HE Hok) as H. cbv zeta in H. rewrite H.
      destruct (Ty.in_range I128 (int_lit_val neg ds)); [reflexivity|discriminate].
    + pose proof (C06_key_u128 fuel E neg ds rest o p d HE Hok) as H. cbv zeta in H. rewrite H.
      destruct neg; cbn [negb]; [rewrite andb_false_r; discriminate|]. rewrite andb_true_r.
      destruct (Ty.in_range U128 (int_lit_val false ds)); [reflexivity|discriminate].
  - pose proof (C06_key_64 fuel E t neg ds rest o p d HE H128 Hok) as H. cbv zeta in H.
    assert (Hc : Ty.in_range t (int_lit_val neg ds) && match t with I128 => true | U128 => negb neg | _ => negb (is_neg_zero neg ds) end
                 = Ty.in_range t (int_lit_val neg ds) && negb (is_neg_zero neg ds))
      by (destruct t; try discriminate H128; reflexivity).
    rewrite Hc. destruct (Ty.in_range t (int_lit_val neg ds) && negb (is_neg_zero neg ds)); [exact H|].
    destruct H as (c & i & Hr & _). rewrite Hr. discriminate.
Qed.

Theorem C06_value_key_vs_text : forall fuel E cf b t neg ds rest off pk d x,
  tm E = TEof -> int_ok ds = true ->
  let lit := int_lit neg ds in
  (de_value_key cf b (KInt t) lit = VOk x <->
   de_key (S fuel) E (KInt t) (mkSt (34 :: lit ++ 34 :: rest) off pk d) = TOk (x, st_key_end lit rest off d)).
Proof.
  intros fuel E cf b t neg ds rest o p d x HE Hok. cbv zeta.
  pose proof (text_key_char fuel E t neg ds rest o p d HE Hok) as HT. cbv zeta in HT.
  destruct (key_accepts t neg ds) eqn:Hacc.
  - rewrite HT, (C06_value_key_complete cf b t neg ds Hok), Hacc. split; intros H; injection H as <-; reflexivity.
  - destruct (C06_value_key_refused cf b t neg ds Hok Hacc) as (c & l & k & Hr & _). rewrite Hr. split; intros H; [discriminate H|].
    exfalso. exact (HT _ H).
Qed.

(* ---- the whole Value {"<key>": null} into a map with integer keys (owned and by reference) -------------------------------- *)
Theorem C06_value_map_key : forall cf fx t key,
  from_value_owned cf fx (TMap (KInt t) TUnit) (VObj [(key, VNull)]) =
    (let& kd := de_value_key cf false (KInt t) key in VOk (DMap [(kd, DUnit)]))
  /\ from_value_ref cf fx (TMap (KInt t) TUnit) (VObj [(key, VNull)]) =
    (let& kd := de_value_key cf true (KInt t) key in VOk (DMap [(kd, DUnit)])).
Proof.
  intros cf fx t key. unfold from_value_owned, from_value_ref.
  change (value_de_fuel (TMap (KInt t) TUnit)) with 3%nat. split.
  - cbn [de_value_owned]. unfold map_any_owned, vmap. cbn [map_all].
    destruct (de_value_key cf false (KInt t) key) as [kd|c l k| |]; reflexivity.
  - cbn [de_value_ref]. unfold map_any_ref, vmap. cbn [map_all].
    destruct (de_value_key cf true (KInt t) key) as [kd|c l k| |]; reflexivity.
Qed.

Corollary C06_value_map_key_lit : forall cf fx t neg ds, int_ok ds = true ->
  let r := from_value_owned cf fx (TMap (KInt t) TUnit) (VObj [(int_lit neg ds, VNull)]) in
  if key_accepts t neg ds then r = VOk (DMap [(DInt (int_lit_val neg ds), DUnit)]) else c06v_err r.
Proof.
  intros cf fx t neg ds Hok. cbv zeta. rewrite (proj1 (C06_value_map_key cf fx t (int_lit neg ds))).
  destruct (key_accepts t neg ds) eqn:Hacc.
  - rewrite (C06_value_key_complete cf false t neg ds Hok), Hacc. reflexivity.
  - destruct (C06_value_key_refused cf false t neg ds Hok Hacc) as (c & l & k & Hr & Hc). rewrite Hr. cbn [vbind].
    exists c, l, k. split; [reflexivity|exact Hc].
Qed.

(* ------------------------------------------------------------------------------------------------------------------ *)
(** * 4. arbitrary_precision = true: the Number's text is parsed by `str::parse::<iN/uN>` *)

Theorem C06_value_ap : forall cf fx t v, arbitrary_precision cf = true ->
  from_value_owned cf fx (TInt t) v =
    match v with
    | VNum n =>
      match std_parse_int (int_signed t) (int_min t) (int_max t) (number_text n) with
      | Some z => VOk (DInt z)
      | None => VErr InvalidNumber 0 0
      end
    | _ => VErr (Message MInvalidType) 0 0
    end.
Proof.
  intros cf fx t v Hap. unfold from_value_owned, value_de_fuel. rewrite de_value_owned_int.
  unfold value_number_owned, number_de_int. rewrite Hap. destruct v; reflexivity.
Qed.

(* a Number of this build holds a well-formed literal: exact characterisation *)
Theorem C06_value_ap_lit : forall cf fx t n, arbitrary_precision cf = true -> num_ok n = true ->
  from_value_owned cf fx (TInt t) (VNum (NLit (render_num n))) =
    if lit_is_int n && (int_signed t || negb (nneg n)) && Ty.in_range t (lit_int n)
    then VOk (DInt (lit_int n)) else VErr InvalidNumber 0 0.
Proof.
  intros cf fx t n Hap Hok. rewrite (C06_value_ap cf fx t _ Hap). cbn [number_text].
  rewrite (std_parse_int_lit (int_signed t) (int_min t) (int_max t) n Hok).
  change (ApNumber.in_range (int_min t) (int_max t) (lit_int n)) with (Ty.in_range t (lit_int n)).
  destruct (lit_is_int n && (int_signed t || negb (nneg n)) && Ty.in_range t (lit_int n)); reflexivity.
Qed.

(* never another value than the literal's, never out of range, and a fraction or an exponent never converts *)
Corollary C06_value_ap_ok_iff : forall cf fx t n d, arbitrary_precision cf = true -> num_ok n = true ->
  (from_value_owned cf fx (TInt t) (VNum (NLit (render_num n))) = VOk d <->
   nfrac n = None /\ nexp n = None /\ (int_signed t = true \/ nneg n = false)
   /\ Ty.in_range t (lit_int n) = true /\ d = DInt (lit_int n)).
Proof.
  intros cf fx t n d Hap Hok. rewrite (C06_value_ap_lit cf fx t n Hap Hok).
  pose proof (lit_is_int_iff n) as Hi. split.
  - destruct (lit_is_int n) eqn:Hli; cbn [andb]; [|discriminate].
    destruct (proj1 Hi eq_refl) as (Hf & Hx).
    destruct (int_signed t || negb (nneg n)) eqn:Hs; cbn [andb]; [|discriminate].
    destruct (Ty.in_range t (lit_int n)) eqn:Hin; [|discriminate]. intros H. injection H as <-.
    split; [exact Hf|]. split; [exact Hx|]. split; [|split; reflexivity].
    destruct (int_signed t); [left; reflexivity|right]. destruct (nneg n); [discriminate Hs|reflexivity].
  - intros (Hf & Hx & Hs & Hin & ->). rewrite (proj2 Hi (conj Hf Hx)), Hin.
    assert (Hs' : int_signed t || negb (nneg n) = true) by (destruct Hs as [-> | ->]; [reflexivity|apply orb_true_r]).
    rewrite Hs'. reflexivity.
Qed.

(* composed with the parser of that build (C20: the literal is kept verbatim) *)
Theorem C06_value_ap_parse : forall cf fx t n, arbitrary_precision cf = true -> num_ok n = true ->
  exists v, from_input (mkEnv RSlice TEof cf) (render_num n) = Ok v /\
    from_value_owned cf fx (TInt t) v =
      if lit_is_int n && (int_signed t || negb (nneg n)) && Ty.in_range t (lit_int n)
      then VOk (DInt (lit_int n)) else VErr InvalidNumber 0 0.
Proof.
  intros cf fx t n Hap Hok. exists (VNum (NLit (render_num n))). split; [apply verbatim_alone; assumption|].
  apply C06_value_ap_lit; assumption.
Qed.

(* finding F12: the literal -0 (the float negative zero) converts to the integer 0 for EVERY signed target through a Value
   of this build, whereas the text route refuses it for i8..i64 (C06_text) and the default build's Value route refuses it
   for all targets (C06_value_float_never: -0 is a Float there) *)
Definition lit_neg_zero : numlit := mkNum true [48] None None.

Theorem F12_value_neg_zero : forall cf fx t, arbitrary_precision cf = true ->
  from_value_owned cf fx (TInt t) (VNum (NLit [45; 48])) =
    if int_signed t then VOk (DInt 0) else VErr InvalidNumber 0 0.
Proof.
  intros cf fx t Hap. change [45; 48] with (render_num lit_neg_zero).
  rewrite (C06_value_ap_lit cf fx t lit_neg_zero Hap eq_refl). destruct t; reflexivity.
Qed.

(* ------------------------------------------------------------------------------------------------------------------ *)
(** * 5. Examples: the statements say what they should *)
Definition cfd : cfg := mkCfg false false false false.
Definition cfa : cfg := mkCfg false false true false.
Definition fx0 : fenv := mkFenv (fun _ => []) (fun _ => []).

Example ex_v_i8_max : from_value_owned cfd fx0 (TInt I8) (VNum (NPos 127)) = VOk (DInt 127).
Proof. vm_compute. reflexivity. Qed.
Example ex_v_i8_over : from_value_owned cfd fx0 (TInt I8) (VNum (NPos 128)) = VErr (Message MInvalidValue) 0 0.
Proof. vm_compute. reflexivity. Qed.
Example ex_v_u128_neg : from_value_ref cfd fx0 (TInt U128) (VNum (NNeg (-1))) = VErr (Message MInvalidValue) 0 0.
Proof. vm_compute. reflexivity. Qed.
Example ex_v_i128_float : from_value_owned cfd fx0 (TInt I128) (VNum (NFloat (b64_of_Z 1))) = VErr (Message MInvalidType) 0 0.
Proof. vm_compute. reflexivity. Qed.
Example ex_v_str : from_value_owned cfd fx0 (TInt U8) (VStr [49]) = VErr (Message MInvalidType) 0 0.
Proof. vm_compute. reflexivity. Qed.
(* from_str("-0") is the Float -0.0, which no integer target accepts; from_str("255") into u8 *)
Example ex_parse_neg_zero : exists f, from_input E_sl [45; 48] = Ok (VNum (NFloat f))
  /\ from_value_owned cfd fx0 (TInt I128) (VNum (NFloat f)) = VErr (Message MInvalidType) 0 0.
Proof. eexists. split; vm_compute; reflexivity. Qed.
Example ex_parse_u8 : from_input E_sl [50; 53; 53] = Ok (VNum (NPos 255))
  /\ from_value_owned cfd fx0 (TInt U8) (VNum (NPos 255)) = VOk (DInt 255)
  /\ from_value_owned cfd fx0 (TInt I8) (VNum (NPos 255)) = VErr (Message MInvalidValue) 0 0.
Proof. repeat split; vm_compute; reflexivity. Qed.
(* keys: "255", "256", "01", "+1", " 1", "1 ", "-0", "1.0", "1e0", "" *)
Example ex_k_255 : de_value_key cfd false (KInt U8) [50; 53; 53] = VOk (DInt 255).
Proof. vm_compute. reflexivity. Qed.
Example ex_k_256 : de_value_key cfd false (KInt U8) [50; 53; 54] = VErr (Message MInvalidValue) 1 3.
Proof. vm_compute. reflexivity. Qed.
Example ex_k_lead0 : de_value_key cfd false (KInt I8) [48; 49] = VErr InvalidNumber 1 2.
Proof. vm_compute. reflexivity. Qed.
Example ex_k_plus : de_value_key cfd false (KInt I8) [43; 49] = VErr ExpectedNumericKey 0 0.
Proof. vm_compute. reflexivity. Qed.
Example ex_k_ws_before : de_value_key cfd false (KInt I8) [32; 49] = VErr ExpectedNumericKey 0 0.
Proof. vm_compute. reflexivity. Qed.
Example ex_k_ws_after : de_value_key cfd false (KInt I8) [49; 32] = VErr ExpectedNumericKey 0 0.
Proof. vm_compute. reflexivity. Qed.
Example ex_k_neg_zero_i8 : de_value_key cfd false (KInt I8) [45; 48] = VErr (Message MInvalidType) 1 2.
Proof. vm_compute. reflexivity. Qed.
Example ex_k_neg_zero_i128 : de_value_key cfd false (KInt I128) [45; 48] = VOk (DInt 0).
Proof. vm_compute. reflexivity. Qed.
Example ex_k_neg_zero_u128 : de_value_key cfd false (KInt U128) [45; 48] = VErr NumberOutOfRange 1 1.
Proof. vm_compute. reflexivity. Qed.
Example ex_k_frac : de_value_key cfd true (KInt I8) [49; 46; 48] = VErr (Message MInvalidType) 1 3.
Proof. vm_compute. reflexivity. Qed.
Example ex_k_exp_i128 : de_value_key cfd true (KInt I128) [49; 101; 48] = VErr ExpectedNumericKey 0 0.
Proof. vm_compute. reflexivity. Qed.
Example ex_k_empty : de_value_key cfa true (KInt I8) [] = VErr ExpectedNumericKey 0 0.
Proof. vm_compute. reflexivity. Qed.
(* F12 witness, next to the text route on the same literal *)
Example F12_witness :
  from_value_owned cfa fx0 (TInt I8) (VNum (NLit [45; 48])) = VOk (DInt 0)
  /\ from_input (mkEnv RSlice TEof cfa) [45; 48] = Ok (VNum (NLit [45; 48]))
  /\ from_input_typed (mkEnv RSlice TEof cfa) (TInt I8) [45; 48] = TErr (Message MInvalidType) 2.
Proof. repeat split; vm_compute; reflexivity. Qed.
(* arbitrary_precision: a u128 beyond u64 converts (the default build cannot even hold it), 1.0 and 1e2 never do *)
Example ex_ap_u128_max : from_value_owned cfa fx0 (TInt U128)
  (VNum (NLit [51;52;48;50;56;50;51;54;54;57;50;48;57;51;56;52;54;51;52;54;51;51;55;52;54;48;55;52;51;49;55;54;56;50;49;49;52;53;53]))
  = VOk (DInt 340282366920938463463374607431768211455).
Proof. vm_compute. reflexivity. Qed.
Example ex_ap_frac : from_value_owned cfa fx0 (TInt I64) (VNum (NLit [49; 46; 48])) = VErr InvalidNumber 0 0.
Proof. vm_compute. reflexivity. Qed.
Example ex_ap_exp : from_value_ref cfa fx0 (TInt U128) (VNum (NLit [49; 101; 50])) = VErr InvalidNumber 0 0.
Proof. vm_compute. reflexivity. Qed.

Print Assumptions C06_value_owned.
Print Assumptions C06_value_ref.
Print Assumptions C06_value_ok_iff.
Print Assumptions C06_value_float_never.
Print Assumptions from_input_int_lit_value.
Print Assumptions C06_value_parse.
Print Assumptions C06_value_key_64.
Print Assumptions C06_value_key_i128.
Print Assumptions C06_value_key_u128.
Print Assumptions C06_value_key_iff.
Print Assumptions C06_value_key_refused.
Print Assumptions C06_value_key_vs_text.
Print Assumptions C06_value_map_key_lit.
Print Assumptions C06_value_ap.
Print Assumptions C06_value_ap_lit.
Print Assumptions C06_value_ap_ok_iff.
Print Assumptions C06_value_ap_parse.
Print Assumptions F12_value_neg_zero.
