(* Proofs/ViableIgnore.v — C11 converse for the skip scanner (IgnoredAny / ignore_value, slice input).

   The skip scanner accepts the bare RFC 8259 grammar: it neither decodes strings (no UTF-8 check, no surrogate
   pairing) nor evaluates numbers nor counts nesting.  Accordingly the only side condition is the lexical one:
   if the input ends inside a \u escape, the digits typed so far are hex digits ([iesc_tail_ok]).

     C11_eof_viable_ignored : ignored_from_input p = Err c i -> category c = CatEof -> Forall (< 256) p ->
                              iesc_tail_ok p = true -> exists t, ignored_from_input (p ++ t) = Ok tt *)
From Coq Require Import List NArith ZArith Bool Arith Lia ZifyBool ZifyNat ZifyN.
From SJ Require Import Base.Bytes Base.Utf8 Gen.Tables Model.Read Model.Str Model.Num Model.De Model.Ignore Spec.Syntax.
From SJ Require Import Proofs.GrammarStr Proofs.GrammarValueBase Proofs.GrammarIgnore Proofs.ViableBase Proofs.ViableDe.
Import ListNotations.
Open Scope N_scope.

Local Notation SE cf := (mkEnv RSlice TEof cf).
Local Notation render_ps s := (flat_map render_piece s).
Ltac lnm := repeat (rewrite <- ?app_assoc; cbn [app]).
Ltac not_eof H Hc := injection H as <- _; discriminate Hc.

(* ------------------------------------------------------------------------------------------ *)
(** * 1. The lexer of the skip scanner: no surrogate logic *)
Inductive ilex := IOut | IStr | IEsc | IU (h : bytes).

Definition ilex_step (q : ilex) (b : byte) : ilex :=
  match q with
  | IOut => if b =? 34 then IStr else IOut
  | IStr => if b =? 34 then IOut else if b =? 92 then IEsc else IStr
  | IEsc => if b =? 117 then IU [] else IStr
  | IU h => match h with [_; _; _] => IStr | _ => IU (h ++ [b]) end
  end.
Definition lexi (q : ilex) (l : bytes) : ilex := fold_left ilex_step l q.
Definition lexi_ok (q : ilex) : bool := match q with IU h => forallb hex_byte h | _ => true end.
Definition iesc_tail_ok (p : bytes) : bool := lexi_ok (lexi IOut p).

Lemma lexi_app q a b : lexi q (a ++ b) = lexi (lexi q a) b.
Proof. unfold lexi. apply fold_left_app. Qed.
Lemma lexi_cons q b l : lexi q (b :: l) = lexi (ilex_step q b) l.
Proof. reflexivity. Qed.

Lemma lexi_out_noq w : forallb noq w = true -> lexi IOut w = IOut.
Proof.
  induction w as [|b w IH]; [reflexivity|]. cbn [forallb]. intros H. apply andb_prop in H as [Hb Hw].
  rewrite lexi_cons. cbn [ilex_step]. unfold noq in Hb. destruct (b =? 34); [discriminate Hb|]. exact (IH Hw).
Qed.
Lemma lexi_out_ws w : ws_ok w = true -> lexi IOut w = IOut.
Proof. intros H. apply lexi_out_noq, ws_noq, H. Qed.

Lemma lexi_str_bs x : lexi IStr (92 :: x) = lexi IEsc x. Proof. reflexivity. Qed.
Lemma lexi_out_quote x : lexi IOut (34 :: x) = lexi IStr x. Proof. reflexivity. Qed.
Lemma lexi_str_quote x : lexi IStr (34 :: x) = lexi IOut x. Proof. reflexivity. Qed.
Lemma lexi_esc_u x : lexi IEsc (117 :: x) = lexi (IU []) x. Proof. reflexivity. Qed.
Lemma lexi_u4 a b c d x : lexi (IU []) (a :: b :: c :: d :: x) = lexi IStr x. Proof. reflexivity. Qed.
Lemma lexi_esc_other c x : (c =? 117) = false -> lexi IEsc (c :: x) = lexi IStr x.
Proof. intros H. rewrite lexi_cons. cbn [ilex_step]. rewrite H. reflexivity. Qed.
Lemma lexi_str_raw b x : (b =? 34) = false -> (b =? 92) = false -> lexi IStr (b :: x) = lexi IStr x.
Proof. intros H1 H2. rewrite lexi_cons. cbn [ilex_step]. rewrite H1, H2. reflexivity. Qed.

Lemma lexi_piece pc x : piece_ok pc = true -> lexi IStr (render_piece pc ++ x) = lexi IStr x.
Proof.
  destruct pc as [b|c|a b c d]; cbn [render_piece app piece_ok]; intros Hpc.
  - apply lexi_str_raw; lia.
  - rewrite lexi_str_bs. apply lexi_esc_other. apply (GrammarStr.esc_letter_not_u c Hpc).
  - rewrite lexi_str_bs, lexi_esc_u, lexi_u4. reflexivity.
Qed.

Lemma lexi_str_pieces ps x : str_ok ps = true -> lexi IStr (render_ps ps ++ x) = lexi IStr x.
Proof.
  induction ps as [|pc r IH]; [reflexivity|]. unfold str_ok. cbn [forallb]. intros H. apply andb_prop in H as [Hpc Hr].
  cbn [flat_map]. rewrite <- app_assoc, (lexi_piece pc _ Hpc). exact (IH Hr).
Qed.

Lemma lexi_str_chunk chunk x :
  forallb (fun b => negb (is_escape b true)) chunk = true -> lexi IStr (chunk ++ x) = lexi IStr x.
Proof.
  induction chunk as [|b r IH]; [reflexivity|]. cbn [forallb]. intros H. apply andb_prop in H as [Hb Hr].
  cbn [app]. rewrite is_escape_spec in Hb. rewrite lexi_str_raw by lia. exact (IH Hr).
Qed.

Lemma lexi_render_str ps : str_ok ps = true -> lexi IOut (render_str ps) = IOut.
Proof. intros Hok. unfold render_str. rewrite lexi_out_quote, (lexi_str_pieces ps _ Hok). reflexivity. Qed.

Lemma lexi_render_all :
  (forall c, wfb c = true -> lexi IOut (render c) = IOut) /\
  (forall es, wfb_elems es = true -> lexi IOut (render_elems es) = IOut) /\
  (forall ms, wfb_members ms = true -> lexi IOut (render_members ms) = IOut).
Proof.
  apply cst_elems_members_ind.
  - reflexivity.
  - reflexivity.
  - reflexivity.
  - intros n Hwf. cbn [wfb] in Hwf. cbn [render]. apply lexi_out_noq, render_num_noq, Hwf.
  - intros s Hwf. cbn [wfb] in Hwf. cbn [render]. apply lexi_render_str, Hwf.
  - intros w es IH Hwf. cbn [wfb] in Hwf. apply andb_prop in Hwf as [Hw Hes].
    rewrite GrammarValueBase.render_arr. rewrite lexi_cons. cbn [ilex_step]. change (91 =? 34) with false. cbv iota.
    rewrite lexi_app. destruct es as [|w1 c w2 rest].
    + cbn [seq_text]. rewrite (lexi_out_ws w Hw). reflexivity.
    + cbn [seq_text]. rewrite (IH Hes). reflexivity.
  - intros w ms IH Hwf. cbn [wfb] in Hwf. apply andb_prop in Hwf as [Hw Hms].
    rewrite GrammarValueBase.render_obj. rewrite lexi_cons. cbn [ilex_step]. change (123 =? 34) with false. cbv iota.
    rewrite lexi_app. destruct ms as [|w1 k w2 w3 c w4 rest].
    + cbn [map_text]. rewrite (lexi_out_ws w Hw). reflexivity.
    + cbn [map_text]. rewrite (IH Hms). reflexivity.
  - reflexivity.
  - intros w1 c IHc w2 rest IHr Hwf. cbn [wfb_elems] in Hwf.
    apply andb_prop in Hwf as [Hwf Hrest]. apply andb_prop in Hwf as [Hwf Hw2]. apply andb_prop in Hwf as [Hw1 Hc].
    rewrite GrammarValueBase.render_elems_cons, !lexi_app, (lexi_out_ws w1 Hw1), (IHc Hc), (lexi_out_ws w2 Hw2).
    destruct rest as [|w1' c' w2' rest']; [reflexivity|].
    cbn [tail_elems]. rewrite lexi_cons. cbn [ilex_step]. change (44 =? 34) with false. cbv iota. exact (IHr Hrest).
  - reflexivity.
  - intros w1 k w2 w3 c IHc w4 rest IHr Hwf. cbn [wfb_members] in Hwf.
    apply andb_prop in Hwf as [Hwf Hrest]. apply andb_prop in Hwf as [Hwf Hw4]. apply andb_prop in Hwf as [Hwf Hc].
    apply andb_prop in Hwf as [Hwf Hw3]. apply andb_prop in Hwf as [Hwf Hw2]. apply andb_prop in Hwf as [Hw1 Hk].
    rewrite GrammarValueBase.render_members_cons, !lexi_app, (lexi_out_ws w1 Hw1), (lexi_render_str k Hk), (lexi_out_ws w2 Hw2).
    rewrite lexi_cons. cbn [ilex_step]. change (58 =? 34) with false. cbv iota.
    rewrite !lexi_app, (lexi_out_ws w3 Hw3), (IHc Hc), (lexi_out_ws w4 Hw4).
    destruct rest as [|w1' k' w2' w3' c' w4' rest']; [reflexivity|].
    cbn [tail_members]. rewrite lexi_cons. cbn [ilex_step]. change (44 =? 34) with false. cbv iota. exact (IHr Hrest).
Qed.
Lemma lexi_render c : wfb c = true -> lexi IOut (render c) = IOut.
Proof. apply lexi_render_all. Qed.

(* the invariant of the unread input *)
Definition InvI (r : bytes) : Prop := Forall lt256 r /\ lexi_ok (lexi IOut r) = true.
Lemma InvI_skip pre r : lexi IOut pre = IOut -> InvI (pre ++ r) -> InvI r.
Proof.
  intros Hc (HF & Hl). split; [apply Forall_app in HF; apply HF|]. rewrite lexi_app, Hc in Hl. exact Hl.
Qed.
Lemma InvI_ws w r : ws_ok w = true -> InvI (w ++ r) -> InvI r.
Proof. intros Hw. apply InvI_skip, lexi_out_ws, Hw. Qed.
Lemma InvI_byte b r : (b =? 34) = false -> InvI (b :: r) -> InvI r.
Proof. intros Hb. apply (InvI_skip [b]). rewrite lexi_cons. cbn [ilex_step]. rewrite Hb. reflexivity. Qed.

(* ------------------------------------------------------------------------------------------ *)
Section Ig.
Variable cf : cfg.
Local Notation E := (SE cf).

Lemma pw_not_err s c i : parse_whitespace E s = Err c i -> False.
Proof. unfold parse_whitespace, peek, at_end. cbn [tm]. destruct (rest (advance _ s)); discriminate. Qed.

(** * 2. String literals *)
Lemma hexb48 : hex_byte 48 = true. Proof. reflexivity. Qed.

Lemma iesc_eof_viable tl o p d c i :
  ignore_escape E (mkSt tl o p d) = Err c i -> category c = CatEof -> lexi_ok (lexi IEsc tl) = true ->
  exists te pc, 92 :: tl ++ te = render_piece pc /\ piece_ok pc = true.
Proof.
  intros H Hc Hl. destruct tl as [|ch l].
  { exists [110], (PEsc 110). split; reflexivity. }
  unfold ignore_escape, next_or_eof, next in H. cbn [rest off depth bind] in H.
  destruct (N.eqb_spec ch 117) as [->|Hch].
  2:{ exfalso. destruct (escape_simple ch); [discriminate H|]. unfold error in H. not_eof H Hc. }
  rewrite lexi_esc_u in Hl.
  destruct l as [|a [|b [|c0 [|d0 tl']]]].
  - exists [48; 48; 48; 48], (PU4 48 48 48 48). split; reflexivity.
  - change (lexi (IU []) [a]) with (IU [a]) in Hl. cbn [lexi_ok forallb] in Hl. apply andb_prop in Hl as [Ha _].
    exists [48; 48; 48], (PU4 a 48 48 48). split; [reflexivity|]. cbn [piece_ok]. rewrite Ha. reflexivity.
  - change (lexi (IU []) [a; b]) with (IU [a; b]) in Hl. cbn [lexi_ok forallb] in Hl.
    apply andb_prop in Hl as [Ha Hl]. apply andb_prop in Hl as [Hb _].
    exists [48; 48], (PU4 a b 48 48). split; [reflexivity|]. cbn [piece_ok]. rewrite Ha, Hb. reflexivity.
  - change (lexi (IU []) [a; b; c0]) with (IU [a; b; c0]) in Hl. cbn [lexi_ok forallb] in Hl.
    apply andb_prop in Hl as [Ha Hl]. apply andb_prop in Hl as [Hb Hl]. apply andb_prop in Hl as [Hc0 _].
    exists [48], (PU4 a b c0 48). split; [reflexivity|]. cbn [piece_ok]. rewrite Ha, Hb, Hc0. reflexivity.
  - exfalso. rewrite (GrammarIgnore.decode_hex_escape_slice cf) in H. cbn [rest] in H.
    destruct (decode_four_hex a b c0 d0); cbn [bind] in H; [discriminate H|]. unfold error in H. not_eof H Hc.
Qed.

Lemma sil_eof_viable : forall f s c i,
  slice_ignore_loop f E s = Err c i -> category c = CatEof ->
  Forall lt256 (rest s) -> lexi_ok (lexi IStr (rest s)) = true ->
  exists t ps, rest s ++ t = render_ps ps ++ [34] /\ str_ok ps = true.
Proof.
  induction f as [|f IH]; intros s c i H Hc HF Hl; [discriminate H|].
  destruct s as [l o p dp]. cbn [rest] in *.
  rewrite (sil_S cf) in H. cbn [rest] in H. cbv zeta in H.
  set (n := esc_span true l) in *.
  pose proof (firstn_skipn n l) as Hsplit.
  pose proof (span_firstn_all (fun b => negb (is_escape b true)) l) as Hall.
  fold (esc_span true l) in Hall. fold n in Hall.
  set (chunk := firstn n l) in *.
  assert (HFc : Forall lt256 chunk /\ Forall lt256 (skipn n l)).
  { rewrite <- Hsplit in HF. apply Forall_app in HF. exact HF. }
  destruct HFc as [HFc HFs].
  destruct (raw_chunk chunk Hall HFc) as [Hcok Hcren].
  rewrite <- Hsplit, (lexi_str_chunk chunk _ Hall) in Hl.
  unfold advance in H. cbn [rest off depth] in H.
  destruct (skipn n l) as [|b tl] eqn:Hsk.
  { rewrite app_nil_r in Hsplit. exists [34], (map PRaw chunk). split; [rewrite Hcren, Hsplit; reflexivity|exact Hcok]. }
  destruct (N.eqb_spec b 34) as [->|Hb34]; [discriminate H|].
  destruct (N.eqb_spec b 92) as [->|Hb92].
  2:{ exfalso. unfold error in H. not_eof H Hc. }
  cbn [skipn] in H. rewrite lexi_str_bs in Hl.
  apply bind_err in H as [H|(s2 & Hesc & H)].
  - destruct (iesc_eof_viable _ _ _ _ _ _ H Hc Hl) as (te & pc & H1 & H2).
    exists (te ++ [34]), (map PRaw chunk ++ [pc]).
    split.
    { rewrite flat_map_app, Hcren. cbn [flat_map]. rewrite app_nil_r, <- H1, <- Hsplit. lnm. reflexivity. }
    rewrite GrammarIgnore.str_ok_app, Hcok. unfold str_ok. cbn [forallb]. rewrite H2. reflexivity.
  - assert (HFt : Forall lt256 tl) by (inversion HFs; assumption).
    apply (ignore_escape_inv cf) in Hesc as (pc & bs & Hpr & (Hst & _ & _) & Hpok); [|exact HFt].
    cbn [rest] in Hst.
    assert (HF2 : Forall lt256 (rest s2)). { rewrite Hst in HFt. apply Forall_app in HFt. apply HFt. }
    assert (Hl2 : lexi_ok (lexi IStr (rest s2)) = true).
    { rewrite <- lexi_str_bs, Hst in Hl. change (92 :: bs ++ rest s2) with ((92 :: bs) ++ rest s2) in Hl.
      rewrite <- Hpr, (lexi_piece pc _ Hpok) in Hl. exact Hl. }
    destruct (IH s2 c i H Hc HF2 Hl2) as (t & ps' & H1 & H2).
    exists t, (map PRaw chunk ++ pc :: ps').
    split.
    { rewrite flat_map_app, Hcren. cbn [flat_map]. rewrite Hpr, <- Hsplit, Hst. lnm. rewrite H1. reflexivity. }
    rewrite GrammarIgnore.str_ok_app, Hcok. unfold str_ok. cbn [forallb]. rewrite Hpok. exact H2.
Qed.

Lemma ignore_str_eof_viable s c i :
  ignore_str E s = Err c i -> category c = CatEof -> Forall lt256 (rest s) -> lexi_ok (lexi IStr (rest s)) = true ->
  exists t ps, rest s ++ t = render_ps ps ++ [34] /\ str_ok ps = true.
Proof. unfold ignore_str. cbn [rk]. apply sil_eof_viable. Qed.

(** * 3. Numbers *)
Lemma exp_tail_eof s2 c i : exp_tail cf s2 = Err c i -> category c = CatEof -> rest s2 = [].
Proof.
  unfold exp_tail, next. destruct (rest s2) as [|dg r]; [reflexivity|]. cbn [bind]. intros H Hc. exfalso.
  destruct (is_digit dg).
  - rewrite (skip_digits_eq cf) in H. cbv zeta in H. cbn [bind] in H. discriminate H.
  - unfold error in H. not_eof H Hc.
Qed.

Definition sgokb (sg : option N) : bool := match sg with Some c => (c =? 43) || (c =? 45) | None => true end.

Lemma ignore_exponent_eof e r o p d c i :
  ignore_exponent E (mkSt (e :: r) o p d) = Err c i -> category c = CatEof -> exists sg, r = sign_bytes sg /\ sgokb sg = true.
Proof.
  intros H Hc. rewrite (ignore_exponent_eq cf) in H. cbv zeta in H. cbn [rest tl] in H.
  apply exp_tail_eof in H; [|exact Hc].
  destruct ((hd 0 r =? 43) || (hd 0 r =? 45)) eqn:Hs.
  - destruct r as [|x r']; [discriminate Hs|]. cbn [hd] in Hs. unfold discard in H. cbn [rest tl] in H. subst r'.
    exists (Some x). split; [reflexivity|exact Hs].
  - cbn [rest] in H. subst r. exists None. split; reflexivity.
Qed.

Lemma digits_prefix r : let n := span_len is_digit r in n <> O -> digits_ok (firstn n r) = true.
Proof.
  cbv zeta. intros Hn. apply digits_ok_intro; [apply span_len_firstn|].
  apply firstn_nonempty; [exact Hn|apply GrammarIgnore.span_len_le].
Qed.

Lemma ignore_decimal_eof r o p d c i :
  ignore_decimal E (mkSt (46 :: r) o p d) = Err c i -> category c = CatEof ->
  r = [] \/ exists f e sg, r = f ++ e :: sign_bytes sg /\ digits_ok f = true /\ ((e =? 101) || (e =? 69)) = true /\ sgokb sg = true.
Proof.
  intros H Hc. rewrite (ignore_decimal_eq cf) in H. cbv zeta in H. cbn [rest tl] in H.
  destruct (Nat.eqb (span_len is_digit r) 0) eqn:Hn.
  - apply Nat.eqb_eq in Hn. rewrite Hn in H. cbn [skipn] in H. unfold peek in H. cbn [rest] in H.
    destruct r as [|x r']; [left; reflexivity|]. exfalso. cbn [bind] in H. unfold peek_error in H. not_eof H Hc.
  - apply Nat.eqb_neq in Hn. right.
    destruct ((hd 0 (skipn (span_len is_digit r) r) =? 101) || (hd 0 (skipn (span_len is_digit r) r) =? 69)) eqn:He;
      [|discriminate H].
    destruct (skipn (span_len is_digit r) r) as [|e r4] eqn:Hsk; [discriminate He|]. cbn [hd] in He.
    destruct (ignore_exponent_eof e r4 _ _ _ c i H Hc) as (sg & -> & Hsg).
    exists (firstn (span_len is_digit r) r), e, sg. split; [rewrite <- Hsk; symmetry; apply firstn_skipn|].
    split; [apply digits_prefix, Hn|]. auto.
Qed.

Lemma ignore_integer_eof s c i : ignore_integer E s = Err c i -> category c = CatEof ->
  exists t it fr ex, rest s ++ t = it ++ frac_bytes fr ++ exp_bytes ex /\
                    int_ok it = true /\ frac_okb fr = true /\ exp_okb ex = true.
Proof.
  intros H Hc. destruct (rest s) as [|c0 r] eqn:Hr.
  { exists [48], [48], None, None. repeat split. }
  rewrite (ignore_integer_eq cf s c0 r Hr) in H. cbv zeta in H.
  assert (Hafter : forall it r2 o2, int_ok it = true ->
     (if hd 0 r2 =? 46 then ignore_decimal E (mkSt r2 o2 (nonempty r2) (depth s))
      else if (hd 0 r2 =? 101) || (hd 0 r2 =? 69) then ignore_exponent E (mkSt r2 o2 (nonempty r2) (depth s))
      else Ok (mkSt r2 o2 (nonempty r2) (depth s))) = Err c i ->
     exists t it' fr ex, (it ++ r2) ++ t = it' ++ frac_bytes fr ++ exp_bytes ex /\
                         int_ok it' = true /\ frac_okb fr = true /\ exp_okb ex = true).
  { intros it r2 o2 Hit G. destruct (hd 0 r2 =? 46) eqn:Hdot.
    - apply N.eqb_eq in Hdot. destruct (hd_cons r2 _ Hdot ltac:(lia)) as (r3 & ->).
      destruct (ignore_decimal_eof r3 _ _ _ c i G Hc) as [->|(f & e & sg & -> & Hf & He & Hsg)].
      + exists [48], it, (Some [48]), None. cbn [frac_bytes exp_bytes]. split; [lnm; reflexivity|]. auto.
      + exists [48], it, (Some f), (Some (e, sg, [48])). cbn [frac_bytes exp_bytes]. split; [lnm; reflexivity|].
        split; [exact Hit|]. split; [exact Hf|]. cbn [exp_okb]. rewrite He. destruct sg; cbn [sgokb] in Hsg; rewrite ?Hsg; reflexivity.
    - destruct ((hd 0 r2 =? 101) || (hd 0 r2 =? 69)) eqn:He; [|discriminate G].
      destruct r2 as [|e r3]; [discriminate He|]. cbn [hd] in He.
      destruct (ignore_exponent_eof e r3 _ _ _ c i G Hc) as (sg & -> & Hsg).
      exists [48], it, None, (Some (e, sg, [48])). cbn [frac_bytes exp_bytes]. split; [lnm; reflexivity|].
      split; [exact Hit|]. split; [reflexivity|]. cbn [exp_okb]. rewrite He. destruct sg; cbn [sgokb] in Hsg; rewrite ?Hsg; reflexivity. }
  destruct (c0 =? 48) eqn:H0.
  - apply N.eqb_eq in H0. subst c0. destruct (is_digit (hd 0 r)); [exfalso; unfold peek_error in H; not_eof H Hc|].
    exact (Hafter [48] r _ eq_refl H).
  - destruct (is_digit19 c0) eqn:H19; [|exfalso; unfold error in H; not_eof H Hc].
    pose proof (firstn_skipn (span_len is_digit r) r) as Hsp.
    assert (Hio : int_ok (c0 :: firstn (span_len is_digit r) r) = true).
    { rewrite int_ok_cons by lia. rewrite H19, span_len_firstn. reflexivity. }
    destruct (Hafter (c0 :: firstn (span_len is_digit r) r) _ _ Hio H) as (t & it' & fr & ex & H1 & H2).
    exists t, it', fr, ex. split; [|exact H2]. rewrite <- H1. cbn [app]. rewrite Hsp. reflexivity.
Qed.

(** * 4. The scanner *)
Definition frames (stk : list N) : Prop := Forall (fun fr => fr = 91 \/ fr = 123) stk.
Definition closer (fr : N) : N := if fr =? 91 then 93 else 125.
Fixpoint closers (stk : list N) : bytes := match stk with [] => [] | fr :: stk' => closer fr :: closers stk' end.

Lemma closer_ok fr : fr = 91 \/ fr = 123 -> ((closer fr =? 93) && (fr =? 91)) || ((closer fr =? 125) && (fr =? 123)) = true.
Proof. intros [->| ->]; reflexivity. Qed.

Lemma Tail_closers stk : frames stk -> Tail stk (closers stk).
Proof.
  induction stk as [|fr stk IH]; intros HF; [reflexivity|]. inversion HF as [|? ? Hfr HF']; subst.
  cbn [Tail closers]. exists [closer fr], (closers stk). split; [reflexivity|]. split; [|exact (IH HF')].
  exact (proj1 (close_after_val (closer fr) fr [] (closer_ok fr Hfr) eq_refl)).
Qed.

Definition VO (f : nat) : Prop := forall stk s c i, frames stk -> InvI (rest s) ->
  ig_outer f E stk s = Err c i -> category c = CatEof ->
  exists t w cst tl, rest s ++ t = w ++ render cst ++ tl /\ ws_ok w = true /\ wfb cst = true /\ Tail stk tl.
Definition VT (f : nat) : Prop := forall fr stk s c i, frames (fr :: stk) -> InvI (rest s) ->
  ig_inner f E true fr stk s = Err c i -> category c = CatEof ->
  exists t tl, rest s ++ t = tl /\ Tail (fr :: stk) tl.
Definition VF (f : nat) : Prop := forall fr stk s c i, frames (fr :: stk) -> InvI (rest s) ->
  ig_inner f E false fr stk s = Err c i -> category c = CatEof ->
  exists t body tl, rest s ++ t = body ++ tl /\ Tail stk tl /\ opened fr body.

Lemma cont_viable f stk s2 c i : VT f -> frames stk -> InvI (rest s2) ->
  cont cf f stk s2 = Err c i -> category c = CatEof -> exists t tl, rest s2 ++ t = tl /\ Tail stk tl.
Proof.
  intros IT HF HI H Hc. destruct stk as [|fr stk']; cbn [cont] in H; [discriminate H|].
  exact (IT fr stk' s2 c i HF HI H Hc).
Qed.

(* a scalar whose text is [render c0]: either it is cut short (completion t0), or it is complete and the
   continuation fails later *)
Lemma scalar_viable f stk (s0 : st) (r : res st) (c0f : bytes -> cst) c i :
  VT f -> frames stk -> InvI (rest s0) ->
  (forall c' i', r = Err c' i' -> category c' = CatEof -> exists t0 c0, rest s0 ++ t0 = render c0 /\ wfb c0 = true) ->
  (forall s2, r = Ok s2 -> exists c0, rest s0 = render c0 ++ rest s2 /\ wfb c0 = true) ->
  scalar_k cf f stk r = Err c i -> category c = CatEof ->
  exists t cst tl, rest s0 ++ t = render cst ++ tl /\ wfb cst = true /\ Tail stk tl.
Proof.
  intros IT HF HI Herr Hok H Hc. unfold scalar_k in H. apply bind_err in H as [H|(s2 & Hs2 & H)].
  - destruct (Herr c i H Hc) as (t0 & c0 & H1 & H2).
    exists (t0 ++ closers stk), c0, (closers stk). rewrite app_assoc, H1. split; [reflexivity|]. split; [exact H2|].
    apply Tail_closers, HF.
  - destruct (Hok s2 Hs2) as (c0 & H1 & H2).
    assert (HI2 : InvI (rest s2)). { apply (InvI_skip (render c0)); [apply lexi_render, H2|]. rewrite <- H1. exact HI. }
    destruct (cont_viable f stk s2 c i IT HF HI2 H Hc) as (t & tl & H3 & H4).
    exists t, c0, tl. rewrite H1, <- app_assoc, H3. auto.
Qed.

Lemma steps_rest s bs s' : steps s bs s' -> rest s = bs ++ rest s'.
Proof. intros (H & _). exact H. Qed.

Lemma dispatch_viable f stk b r s0 c i : VT f -> VF f -> rest s0 = b :: r -> frames stk -> InvI (rest s0) ->
  dispatch cf f stk b s0 = Err c i -> category c = CatEof ->
  exists t cst tl, rest s0 ++ t = render cst ++ tl /\ wfb cst = true /\ Tail stk tl.
Proof.
  intros IT IF Hr HF HI H Hc. unfold dispatch in H.
  assert (Hdr : rest (discard s0) = r) by (unfold discard; cbn [rest]; rewrite Hr; reflexivity).
  assert (Hlit : forall lit cl, render cl = b :: lit -> wfb cl = true ->
     scalar_k cf f stk (parse_ident E lit (discard s0)) = Err c i ->
     exists t cst tl, rest s0 ++ t = render cst ++ tl /\ wfb cst = true /\ Tail stk tl).
  { intros lit cl Hcl Hwf G. apply (scalar_viable f stk s0 _ (fun _ => cl) c i IT HF HI) with (3 := G); [| |exact Hc].
    - intros c' i' He Hc'. destruct (ident_eof cf _ _ _ _ He Hc') as (t0 & Ht0). rewrite Hdr in Ht0.
      exists t0, cl. rewrite Hr, Hcl. cbn [app]. rewrite Ht0. auto.
    - intros s2 Hs2. apply (parse_ident_inv cf) in Hs2. apply steps_rest in Hs2. rewrite Hdr in Hs2.
      exists cl. rewrite Hr, Hcl, Hs2. auto. }
  destruct (b =? 110) eqn:E1.
  { apply N.eqb_eq in E1. subst b. exact (Hlit lit_ull CNull eq_refl eq_refl H). }
  destruct (b =? 116) eqn:E2.
  { apply N.eqb_eq in E2. subst b. exact (Hlit lit_rue CTrue eq_refl eq_refl H). }
  destruct (b =? 102) eqn:E3.
  { apply N.eqb_eq in E3. subst b. exact (Hlit lit_alse CFalse eq_refl eq_refl H). }
  destruct (b =? 45) eqn:E4.
  { apply N.eqb_eq in E4. subst b.
    apply (scalar_viable f stk s0 _ (fun _ => CNull) c i IT HF HI) with (3 := H); [| |exact Hc].
    - intros c' i' He Hc'. destruct (ignore_integer_eof _ _ _ He Hc') as (t0 & it & fr & ex & H1 & H2 & H3 & H4).
      rewrite Hdr in H1. exists t0, (CNum (mkNum true it fr ex)). cbn [render wfb].
      rewrite render_num_eq, num_ok_eq, H2, H3, H4, Hr. cbn [app]. rewrite H1. auto.
    - intros s2 Hs2. apply (ignore_integer_inv cf) in Hs2 as (it & fr & ex & Hst & H2 & H3 & H4).
      apply steps_rest in Hst. rewrite Hdr in Hst. exists (CNum (mkNum true it fr ex)). cbn [render wfb].
      rewrite render_num_eq, num_ok_eq, H2, H3, H4, Hr, Hst. split; [lnm; reflexivity|reflexivity]. }
  destruct (is_digit b) eqn:E5.
  { apply (scalar_viable f stk s0 _ (fun _ => CNull) c i IT HF HI) with (3 := H); [| |exact Hc].
    - intros c' i' He Hc'. destruct (ignore_integer_eof _ _ _ He Hc') as (t0 & it & fr & ex & H1 & H2 & H3 & H4).
      exists t0, (CNum (mkNum false it fr ex)). cbn [render wfb].
      rewrite render_num_eq, num_ok_eq, H2, H3, H4. cbn [app]. rewrite H1. auto.
    - intros s2 Hs2. apply (ignore_integer_inv cf) in Hs2 as (it & fr & ex & Hst & H2 & H3 & H4).
      apply steps_rest in Hst. exists (CNum (mkNum false it fr ex)). cbn [render wfb].
      rewrite render_num_eq, num_ok_eq, H2, H3, H4, Hst. split; [lnm; reflexivity|reflexivity]. }
  destruct (b =? 34) eqn:E6.
  { apply N.eqb_eq in E6. subst b. destruct HI as [HFs Hlx]. rewrite Hr in HFs, Hlx. rewrite lexi_out_quote in Hlx.
    assert (HFr : Forall lt256 r) by (inversion HFs; assumption).
    apply (scalar_viable f stk s0 _ (fun _ => CNull) c i IT HF) with (4 := H); [| | |exact Hc].
    - split; rewrite Hr; [exact HFs|rewrite lexi_out_quote; exact Hlx].
    - intros c' i' He Hc'. destruct (ignore_str_eof_viable _ _ _ He Hc') as (t0 & ps & H1 & H2); try (rewrite Hdr; assumption).
      rewrite Hdr in H1. exists t0, (CStr ps). cbn [render wfb]. unfold render_str. rewrite Hr. cbn [app]. rewrite H1. auto.
    - intros s2 Hs2. apply (ignore_str_sound cf) in Hs2 as (ps & Hst & Hps); [|rewrite Hdr; exact HFr].
      apply steps_rest in Hst. rewrite Hdr in Hst. exists (CStr ps). cbn [render wfb]. unfold render_str.
      rewrite Hr, Hst. split; [lnm; reflexivity|exact Hps]. }
  destruct ((b =? 91) || (b =? 123)) eqn:E7; [|exfalso; unfold peek_error in H; not_eof H Hc].
  assert (Hb : b = 91 \/ b = 123) by lia.
  assert (HId : InvI (rest (discard s0))).
  { rewrite Hdr. apply (InvI_byte b); [lia|]. rewrite <- Hr. exact HI. }
  destruct (IF b stk (discard s0) c i (Forall_cons b Hb HF) HId H Hc) as (t & body & tl & H1 & H2 & (cst & H3 & H4)).
  rewrite Hdr in H1. exists t, cst, tl. rewrite Hr, <- H3. cbn [app]. rewrite H1. auto.
Qed.

Lemma cont_outer_viable f fr stk s2 c i : VO f -> frames (fr :: stk) -> InvI (rest s2) ->
  cont_outer cf f fr stk s2 = Err c i -> category c = CatEof ->
  exists t body tl, rest s2 ++ t = body ++ tl /\ Tail stk tl /\ items fr body.
Proof.
  intros IO HFr HI H Hc. inversion HFr as [|? ? Hfr HF]; subst. unfold cont_outer in H.
  destruct (fr =? 123) eqn:Efr.
  - apply N.eqb_eq in Efr. subst fr.
    apply bind_err in H as [H|([o s3] & Hpw & H)]; [exfalso; exact (pw_not_err _ _ _ H)|].
    apply (pw_inv cf) in Hpw as (w1 & Hst1 & Hw1 & Ho). apply steps_rest in Hst1.
    assert (HI3 : InvI (rest s3)) by (apply (InvI_ws w1); [exact Hw1|rewrite <- Hst1; exact HI]).
    destruct o as [q|].
    2:{ (* a key is expected *)
        rewrite Ho, app_nil_r in Hst1.
        exists ([34; 34; 58; 48; 125] ++ closers stk), (render_members (MCons w1 [] [] [] (CNum nzero) [] MNil) ++ [125]), (closers stk).
        split; [rewrite Hst1; cbn [render_members]; lnm; reflexivity|]. split; [apply Tail_closers, HF|].
        right. split; [reflexivity|]. exists (MCons w1 [] [] [] (CNum nzero) [] MNil). split; [discriminate|]. split; [reflexivity|].
        cbn [wfb_members wfb str_ok forallb]. rewrite Hw1. reflexivity. }
    destruct Ho as (r3 & Hr3 & _).
    destruct (q =? 34) eqn:Eq; [|exfalso; unfold peek_error in H; not_eof H Hc]. apply N.eqb_eq in Eq. subst q.
    assert (Hd3 : rest (discard s3) = r3) by (unfold discard; cbn [rest]; rewrite Hr3; reflexivity).
    destruct HI3 as [HF3 Hl3]. rewrite Hr3 in HF3, Hl3. rewrite lexi_out_quote in Hl3.
    assert (HFr3 : Forall lt256 r3) by (inversion HF3; assumption).
    apply bind_err in H as [H|(s4 & Hstr & H)].
    { (* inside the key *)
      destruct (ignore_str_eof_viable _ _ _ H Hc) as (t0 & ps & H1 & H2); try (rewrite Hd3; assumption).
      rewrite Hd3 in H1.
      exists (t0 ++ [58; 48; 125] ++ closers stk), (render_members (MCons w1 ps [] [] (CNum nzero) [] MNil) ++ [125]), (closers stk).
      split.
      { rewrite Hst1, Hr3. cbn [render_members]. unfold render_str. lnm.
        replace (r3 ++ t0 ++ 58 :: 48 :: 125 :: closers stk) with ((r3 ++ t0) ++ 58 :: 48 :: 125 :: closers stk) by (lnm; reflexivity).
        rewrite H1. lnm. reflexivity. }
      split; [apply Tail_closers, HF|]. right. split; [reflexivity|]. exists (MCons w1 ps [] [] (CNum nzero) [] MNil).
      split; [discriminate|]. split; [reflexivity|]. cbn [wfb_members wfb]. rewrite Hw1, H2. reflexivity. }
    apply (ignore_str_sound cf) in Hstr as (k & Hst4 & Hk); [|rewrite Hd3; exact HFr3].
    apply steps_rest in Hst4. rewrite Hd3 in Hst4.
    assert (HI4 : InvI (rest s4)).
    { split.
      - rewrite Hst4 in HFr3. apply Forall_app in HFr3. apply HFr3.
      - rewrite Hst4, app_assoc_reverse in Hl3. rewrite (lexi_str_pieces k _ Hk) in Hl3. exact Hl3. }
    apply bind_err in H as [H|([o2 s5] & Hpw2 & H)]; [exfalso; exact (pw_not_err _ _ _ H)|].
    apply (pw_inv cf) in Hpw2 as (w2 & Hst5 & Hw2 & Ho2). apply steps_rest in Hst5.
    assert (HI5 : InvI (rest s5)) by (apply (InvI_ws w2); [exact Hw2|rewrite <- Hst5; exact HI4]).
    destruct o2 as [c5|].
    2:{ (* a colon is expected *)
        rewrite Ho2, app_nil_r in Hst5.
        exists ([58; 48; 125] ++ closers stk), (render_members (MCons w1 k w2 [] (CNum nzero) [] MNil) ++ [125]), (closers stk).
        split; [rewrite Hst1, Hr3, Hst4, Hst5; cbn [render_members]; unfold render_str; lnm; reflexivity|].
        split; [apply Tail_closers, HF|]. right. split; [reflexivity|]. exists (MCons w1 k w2 [] (CNum nzero) [] MNil).
        split; [discriminate|]. split; [reflexivity|]. cbn [wfb_members wfb]. rewrite Hw1, Hk, Hw2. reflexivity. }
    destruct Ho2 as (r5 & Hr5 & _).
    destruct (c5 =? 58) eqn:Ec; [|exfalso; unfold peek_error in H; not_eof H Hc]. apply N.eqb_eq in Ec. subst c5.
    assert (Hd5 : rest (discard s5) = r5) by (unfold discard; cbn [rest]; rewrite Hr5; reflexivity).
    assert (HI6 : InvI (rest (discard s5))).
    { rewrite Hd5. apply (InvI_byte 58); [reflexivity|]. rewrite <- Hr5. exact HI5. }
    destruct (IO (123 :: stk) (discard s5) c i HFr HI6 H Hc) as (t & w3 & cst & t0 & H1 & Hw3 & Hcst & (body0 & tl & -> & Hav & Htl)).
    destruct Hav as [(Hx & _)|(_ & w4 & ms & -> & Hw4 & Hms)]; [discriminate Hx|].
    rewrite Hd5 in H1.
    exists t, (render_members (MCons w1 k w2 w3 cst w4 ms) ++ [125]), tl. split; [|split; [exact Htl|]].
    + rewrite Hst1, Hr3, Hst4, Hst5, Hr5. rewrite GrammarIgnore.render_members_cons. unfold render_str. lnm.
      rewrite H1. lnm. reflexivity.
    + right. split; [reflexivity|]. exists (MCons w1 k w2 w3 cst w4 ms). split; [discriminate|]. split; [reflexivity|].
      cbn [wfb_members]. rewrite Hw1, Hk, Hw2, Hw3, Hcst, Hw4, Hms. reflexivity.
  - assert (fr = 91) by lia. subst fr.
    destruct (IO (91 :: stk) s2 c i HFr HI H Hc) as (t & w1 & cst & t0 & H1 & Hw1 & Hcst & (body0 & tl & -> & Hav & Htl)).
    destruct Hav as [(_ & w2 & es & -> & Hw2 & Hes)|(Hx & _)]; [|discriminate Hx].
    exists t, (render_elems (ECons w1 cst w2 es) ++ [93]), tl. split; [|split; [exact Htl|]].
    + rewrite H1, GrammarIgnore.render_elems_cons. lnm. reflexivity.
    + left. split; [reflexivity|]. exists (ECons w1 cst w2 es). split; [discriminate|]. split; [reflexivity|].
      cbn [wfb_elems]. rewrite Hw1, Hcst, Hw2, Hes. reflexivity.
Qed.

Lemma ig_viable : forall f, VO f /\ VT f /\ VF f.
Proof.
  induction f as [|f (IO & IT & IF)].
  { split; [|split]; intros ? **; discriminate. }
  split; [|split].
  - intros stk s c i HF HI H Hc. rewrite (ig_outer_S cf) in H.
    apply bind_err in H as [H|([o s0] & Hpw & H)]; [exfalso; exact (pw_not_err _ _ _ H)|].
    apply (pw_inv cf) in Hpw as (w & Hst & Hw & Ho). apply steps_rest in Hst.
    assert (HI0 : InvI (rest s0)) by (apply (InvI_ws w); [exact Hw|rewrite <- Hst; exact HI]).
    destruct o as [b|].
    + destruct Ho as (r & Hr & _).
      destruct (dispatch_viable f stk b r s0 c i IT IF Hr HF HI0 H Hc) as (t & cst & tl & H1 & H2 & H3).
      exists t, w, cst, tl. rewrite Hst, <- app_assoc, H1. auto.
    + rewrite Ho, app_nil_r in Hst. exists ([48] ++ closers stk), w, (CNum nzero), (closers stk).
      rewrite Hst. split; [reflexivity|]. split; [exact Hw|]. split; [reflexivity|apply Tail_closers, HF].
  - intros fr stk s c i HFr HI H Hc. inversion HFr as [|? ? Hfr HF]; subst. rewrite (ig_inner_S cf) in H.
    apply bind_err in H as [H|([o s0] & Hpw & H)]; [exfalso; exact (pw_not_err _ _ _ H)|].
    apply (pw_inv cf) in Hpw as (w & Hst & Hw & Ho). apply steps_rest in Hst.
    assert (HI0 : InvI (rest s0)) by (apply (InvI_ws w); [exact Hw|rewrite <- Hst; exact HI]).
    destruct o as [b|].
    2:{ rewrite Ho, app_nil_r in Hst. exists (closer fr :: closers stk), ((w ++ [closer fr]) ++ closers stk).
        split; [rewrite Hst; lnm; reflexivity|]. cbn [Tail]. exists (w ++ [closer fr]), (closers stk).
        split; [reflexivity|]. split; [|apply Tail_closers, HF].
        exact (proj1 (close_after_val (closer fr) fr w (closer_ok fr Hfr) Hw)). }
    destruct Ho as (r & Hr & _).
    assert (Hdr : rest (discard s0) = r) by (unfold discard; cbn [rest]; rewrite Hr; reflexivity).
    unfold inner_body in H. rewrite andb_true_r in H. destruct (b =? 44) eqn:Ecomma.
    + apply N.eqb_eq in Ecomma. subst b.
      assert (HId : InvI (rest (discard s0))).
      { rewrite Hdr. apply (InvI_byte 44); [reflexivity|]. rewrite <- Hr. exact HI0. }
      destruct (cont_outer_viable f fr stk _ c i IO HFr HId H Hc) as (t & body & tl & H1 & H2 & H3). rewrite Hdr in H1.
      exists t, ((w ++ 44 :: body) ++ tl). split; [rewrite Hst, Hr; lnm; rewrite <- H1; reflexivity|].
      cbn [Tail]. exists (w ++ 44 :: body), tl. split; [reflexivity|]. split; [now apply items_after_val|exact H2].
    + destruct (((b =? 93) && (fr =? 91)) || ((b =? 125) && (fr =? 123))) eqn:Eclose;
        [|exfalso; unfold peek_error in H; injection H as <- _; destruct (fr =? 91); discriminate Hc].
      assert (HId : InvI (rest (discard s0))).
      { rewrite Hdr. apply (InvI_byte b); [lia|]. rewrite <- Hr. exact HI0. }
      destruct (cont_viable f stk _ c i IT HF HId H Hc) as (t & tl & H1 & H2). rewrite Hdr in H1.
      exists t, ((w ++ [b]) ++ tl). split; [rewrite Hst, Hr; lnm; rewrite <- H1; reflexivity|].
      cbn [Tail]. exists (w ++ [b]), tl. split; [reflexivity|]. split; [|exact H2].
      exact (proj1 (close_after_val b fr w Eclose Hw)).
  - intros fr stk s c i HFr HI H Hc. inversion HFr as [|? ? Hfr HF]; subst. rewrite (ig_inner_S cf) in H.
    apply bind_err in H as [H|([o s0] & Hpw & H)]; [exfalso; exact (pw_not_err _ _ _ H)|].
    apply (pw_inv cf) in Hpw as (w & Hst & Hw & Ho). apply steps_rest in Hst.
    assert (HI0 : InvI (rest s0)) by (apply (InvI_ws w); [exact Hw|rewrite <- Hst; exact HI]).
    destruct o as [b|].
    2:{ rewrite Ho, app_nil_r in Hst. exists (closer fr :: closers stk), (w ++ [closer fr]), (closers stk).
        split; [rewrite Hst; lnm; reflexivity|]. split; [apply Tail_closers, HF|].
        exact (proj2 (close_after_val (closer fr) fr w (closer_ok fr Hfr) Hw)). }
    destruct Ho as (r & Hr & _).
    assert (Hdr : rest (discard s0) = r) by (unfold discard; cbn [rest]; rewrite Hr; reflexivity).
    unfold inner_body in H. rewrite andb_false_r in H.
    destruct (((b =? 93) && (fr =? 91)) || ((b =? 125) && (fr =? 123))) eqn:Eclose.
    + assert (HId : InvI (rest (discard s0))).
      { rewrite Hdr. apply (InvI_byte b); [lia|]. rewrite <- Hr. exact HI0. }
      destruct (cont_viable f stk _ c i IT HF HId H Hc) as (t & tl & H1 & H2). rewrite Hdr in H1.
      exists t, (w ++ [b]), tl. split; [rewrite Hst, Hr; lnm; rewrite <- H1; reflexivity|]. split; [exact H2|].
      exact (proj2 (close_after_val b fr w Eclose Hw)).
    + destruct (cont_outer_viable f fr stk s0 c i IO HFr HI0 H Hc) as (t & body & tl & H1 & H2 & H3).
      exists t, (w ++ body), tl. split; [rewrite Hst; lnm; rewrite <- H1; reflexivity|]. split; [exact H2|].
      now apply items_opened.
Qed.

End Ig.

(* ------------------------------------------------------------------------------------------ *)
(** * 5. Top level *)
Theorem C11_eof_viable_ignored : forall cf p c i,
  ignored_from_input (SE cf) p = Err c i -> category c = CatEof ->
  Forall (fun b => b < 256) p -> iesc_tail_ok p = true ->
  exists t, ignored_from_input (SE cf) (p ++ t) = Ok tt.
Proof.
  intros cf p c i H Hc HF Hl. unfold ignored_from_input in H.
  apply bind_err in H as [H|(s1 & _ & H)].
  2:{ exfalso. apply bind_err in H as [H|(s2 & _ & H)]; [exact (de_end_not_eof cf _ _ _ H Hc)|discriminate H]. }
  unfold ignore_value in H.
  destruct (ig_viable cf (ignore_fuel (init_st p))) as (IO & _ & _).
  destruct (IO [] (init_st p) c i (Forall_nil _) (conj HF Hl) H Hc) as (t & w & cst & tl & H1 & Hw & Hcst & Htl).
  cbn [Tail] in Htl. subst tl. cbn [init_st rest] in H1.
  exists t. unfold ignored_from_input, init_st. rewrite H1.
  destruct (ignore_value_complete cf w cst [] 0 false DEPTH0 Hw Hcst I) as (pk' & Hrun). rewrite Hrun. cbn [bind].
  reflexivity.
Qed.

(* the condition cannot be dropped *)
Example ignored_hex_eof : ignored_from_input (SE (mkCfg false false false false)) [34; 92; 117; 90] = Err EofWhileParsingString 4.
Proof. vm_compute. reflexivity. Qed.
Example ignored_hex_not_ok : iesc_tail_ok [34; 92; 117; 90] = false.
Proof. vm_compute. reflexivity. Qed.
(* what the Value parser rejects for UTF-8 / surrogate reasons the skip scanner completes *)
Example ignored_ff_ok : iesc_tail_ok [34; 255] = true /\ iesc_tail_ok [34; 92; 117; 100; 99] = true.
Proof. vm_compute. split; reflexivity. Qed.

Print Assumptions C11_eof_viable_ignored.
