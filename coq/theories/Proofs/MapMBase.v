(* Proofs/MapMBase.v — lemmas about keys, association lists and the backing-store primitives of Model/MapM.v
   (what each primitive does to lookups, to the key sequence, and which invariants it keeps). *)
From SJ Require Import Base.Bytes Model.Value Spec.Dict Model.MapM.
From Coq Require Import Sorting.Permutation Sorting.Sorted Lia.
Open Scope N_scope.

(* ------------------------------------------------------------------ keys *)
Lemma beq_bytes_true_iff : forall a b, beq_bytes a b = true <-> a = b.
Proof.
  induction a as [|x a IH]; destruct b as [|y b]; cbn [beq_bytes]; split; intro H; try congruence; auto.
  - apply andb_true_iff in H. destruct H as [H1 H2]. apply N.eqb_eq in H1. apply IH in H2. congruence.
  - inversion H; subst. rewrite N.eqb_refl. cbn. apply IH. reflexivity.
Qed.
Lemma beq_bytes_refl : forall a, beq_bytes a a = true.
Proof. intro a. apply beq_bytes_true_iff. reflexivity. Qed.
Lemma beq_bytes_false_iff : forall a b, beq_bytes a b = false <-> a <> b.
Proof.
  intros a b. split; intro H.
  - intro E. apply beq_bytes_true_iff in E. congruence.
  - destruct (beq_bytes a b) eqn:E; auto. apply beq_bytes_true_iff in E. contradiction.
Qed.
Lemma beq_bytes_sym : forall a b, beq_bytes a b = beq_bytes b a.
Proof.
  intros a b. destruct (beq_bytes a b) eqn:E.
  - apply beq_bytes_true_iff in E. subst. symmetry. apply beq_bytes_refl.
  - apply beq_bytes_false_iff in E. symmetry. apply beq_bytes_false_iff. congruence.
Qed.

Lemma bytes_ltb_irrefl : forall a, bytes_ltb a a = false.
Proof. induction a as [|x a IH]; cbn [bytes_ltb]; auto. rewrite N.ltb_irrefl. exact IH. Qed.

Lemma bytes_ltb_trans : forall a b c, bytes_ltb a b = true -> bytes_ltb b c = true -> bytes_ltb a c = true.
Proof.
  induction a as [|x a IH]; destruct b as [|y b]; destruct c as [|z c]; cbn [bytes_ltb]; intros H1 H2; try congruence; auto.
  destruct (x <? y) eqn:Exy.
  - apply N.ltb_lt in Exy. destruct (y <? z) eqn:Eyz.
    + apply N.ltb_lt in Eyz. assert (Hxz : (x <? z) = true) by (apply N.ltb_lt; lia). rewrite Hxz. reflexivity.
    + destruct (z <? y) eqn:Ezy; try congruence.
      apply N.ltb_ge in Eyz. apply N.ltb_ge in Ezy. assert (y = z) by lia. subst z.
      assert (Hxz : (x <? y) = true) by (apply N.ltb_lt; lia). rewrite Hxz. reflexivity.
  - destruct (y <? x) eqn:Eyx; try congruence.
    apply N.ltb_ge in Exy. apply N.ltb_ge in Eyx. assert (x = y) by lia. subst y.
    destruct (x <? z) eqn:Exz; auto.
    destruct (z <? x) eqn:Ezx; try congruence. eapply IH; eauto.
Qed.

Lemma bytes_ltb_total : forall a b, bytes_ltb a b = false -> bytes_ltb b a = false -> a = b.
Proof.
  induction a as [|x a IH]; destruct b as [|y b]; cbn [bytes_ltb]; intros H1 H2; try congruence; auto.
  destruct (x <? y) eqn:Exy; try congruence. destruct (y <? x) eqn:Eyx; try congruence.
  apply N.ltb_ge in Exy. apply N.ltb_ge in Eyx. assert (x = y) by lia. subst y. f_equal. apply IH; auto.
Qed.

Lemma bytes_ltb_asym : forall a b, bytes_ltb a b = true -> bytes_ltb b a = false.
Proof.
  intros a b H. destruct (bytes_ltb b a) eqn:E; auto.
  pose proof (bytes_ltb_trans _ _ _ H E) as T. rewrite bytes_ltb_irrefl in T. discriminate.
Qed.
Lemma bytes_ltb_neq : forall a b, bytes_ltb a b = true -> beq_bytes a b = false.
Proof.
  intros a b H. apply beq_bytes_false_iff. intro E. subst. rewrite bytes_ltb_irrefl in H. discriminate.
Qed.

(* ------------------------------------------------------------------ ascending / NoDup *)
Lemma ascending_nil : ascending [].
Proof. constructor. Qed.
Lemma ascending_cons_inv : forall k ks, ascending (k :: ks) -> ascending ks /\ Forall (bytes_lt k) ks.
Proof. intros k ks H. inversion H; subst. split; assumption. Qed.
Lemma ascending_NoDup : forall ks, ascending ks -> NoDup ks.
Proof.
  induction ks as [|k ks IH]; intro H; constructor.
  - apply ascending_cons_inv in H. destruct H as [_ HF]. intro Hin.
    rewrite Forall_forall in HF. apply HF in Hin. unfold bytes_lt in Hin. rewrite bytes_ltb_irrefl in Hin. discriminate.
  - apply IH. apply ascending_cons_inv in H. tauto.
Qed.

(* two ascending sequences with the same elements are equal *)
Lemma ascending_ext : forall l1 l2, ascending l1 -> ascending l2 -> (forall x, In x l1 <-> In x l2) -> l1 = l2.
Proof.
  induction l1 as [|a l1 IH]; intros l2 H1 H2 Hx.
  - destruct l2 as [|b l2]; auto. exfalso. apply (Hx b). left. reflexivity.
  - destruct l2 as [|b l2].
    + exfalso. apply (Hx a). left. reflexivity.
    + apply ascending_cons_inv in H1. destruct H1 as [H1 F1]. apply ascending_cons_inv in H2. destruct H2 as [H2 F2].
      rewrite Forall_forall in F1, F2.
      assert (a = b) as ->.
      { destruct (proj1 (Hx a) (or_introl eq_refl)) as [E|Hin]; [congruence|].
        destruct (proj2 (Hx b) (or_introl eq_refl)) as [E|Hin']; [congruence|].
        apply F2 in Hin. apply F1 in Hin'. unfold bytes_lt in *.
        rewrite (bytes_ltb_asym _ _ Hin) in Hin'. discriminate. }
      f_equal. apply IH; auto. intro x. split; intro Hin.
      * destruct (proj1 (Hx x) (or_intror Hin)) as [E|?]; auto. subst x. apply F1 in Hin. unfold bytes_lt in Hin.
        rewrite bytes_ltb_irrefl in Hin. discriminate.
      * destruct (proj2 (Hx x) (or_intror Hin)) as [E|?]; auto. subst x. apply F2 in Hin. unfold bytes_lt in Hin.
        rewrite bytes_ltb_irrefl in Hin. discriminate.
Qed.

Lemma key_mem_In : forall k ks, key_mem k ks = true <-> In k ks.
Proof.
  intros k ks. unfold key_mem. rewrite existsb_exists. split.
  - intros [x [Hin E]]. apply beq_bytes_true_iff in E. subst. exact Hin.
  - intro Hin. exists k. split; auto. apply beq_bytes_refl.
Qed.
Lemma key_mem_false : forall k ks, key_mem k ks = false <-> ~ In k ks.
Proof.
  intros k ks. split; intro H.
  - intro Hin. apply key_mem_In in Hin. congruence.
  - destruct (key_mem k ks) eqn:E; auto. apply key_mem_In in E. contradiction.
Qed.

(* ------------------------------------------------------------------ lookups *)
Notation keys := (map fst).

Lemma al_get_dict_get : forall A k (m : list (bytes * A)), al_get k m = dict_get k m.
Proof. induction m as [|[k' v] m IH]; cbn; [reflexivity|]. destruct (beq_bytes k k'); auto. Qed.
Lemma al_mem_dict_mem : forall A k (m : list (bytes * A)), al_mem k m = dict_mem k m.
Proof. intros. unfold al_mem, dict_mem. rewrite al_get_dict_get. reflexivity. Qed.

Lemma dict_get_In : forall A k v (m : list (bytes * A)), dict_get k m = Some v -> In (k, v) m.
Proof.
  induction m as [|[k' v'] m IH]; cbn; intro H; try discriminate.
  destruct (beq_bytes k k') eqn:E.
  - apply beq_bytes_true_iff in E. inversion H; subst. left. reflexivity.
  - right. auto.
Qed.
Lemma dict_get_None : forall A k (m : list (bytes * A)), dict_get k m = None <-> ~ In k (keys m).
Proof.
  induction m as [|[k' v'] m IH]; cbn.
  - tauto.
  - destruct (beq_bytes k k') eqn:E.
    + apply beq_bytes_true_iff in E. subst. split; [discriminate|]. intro H. exfalso. apply H. left. reflexivity.
    + apply beq_bytes_false_iff in E. rewrite IH. split; intro H.
      * intros [X|X]; [congruence|contradiction].
      * intro X. apply H. right. exact X.
Qed.
Lemma dict_mem_In : forall A k (m : list (bytes * A)), dict_mem k m = true <-> In k (keys m).
Proof.
  intros. unfold dict_mem. destruct (dict_get k m) eqn:E.
  - split; auto. intros _. apply dict_get_In in E. apply (in_map fst) in E. exact E.
  - apply dict_get_None in E. split; [discriminate|contradiction].
Qed.
Lemma dict_mem_key_mem : forall A k (m : list (bytes * A)), dict_mem k m = key_mem k (keys m).
Proof.
  intros. destruct (key_mem k (keys m)) eqn:E.
  - apply dict_mem_In. apply key_mem_In. exact E.
  - apply key_mem_false in E. destruct (dict_mem k m) eqn:E2; auto. apply dict_mem_In in E2. contradiction.
Qed.
Lemma In_dict_get : forall A k v (m : list (bytes * A)), NoDup (keys m) -> In (k, v) m -> dict_get k m = Some v.
Proof.
  induction m as [|[k' v'] m IH]; cbn; intros ND Hin; [contradiction|].
  inversion ND as [|? ? Hnin ND']; subst.
  destruct Hin as [E|Hin].
  - inversion E; subst. rewrite beq_bytes_refl. reflexivity.
  - destruct (beq_bytes k k') eqn:E.
    + apply beq_bytes_true_iff in E. subst. exfalso. apply Hnin. apply (in_map fst) in Hin. exact Hin.
    + auto.
Qed.

Lemma NoDup_keys_NoDup : forall A (m : list (bytes * A)), NoDup (keys m) -> NoDup m.
Proof.
  induction m as [|e m IH]; intro H; constructor; inversion H; subst; auto.
  intro Hin. apply (in_map fst) in Hin. contradiction.
Qed.

(* dictionaries with distinct keys that answer every lookup alike are permutations of each other *)
Lemma dict_eq_Permutation : forall A (m d : list (bytes * A)),
  NoDup (keys m) -> NoDup (keys d) -> dict_eq m d -> Permutation m d.
Proof.
  intros A m d Hm Hd He. apply NoDup_Permutation; try (apply NoDup_keys_NoDup; assumption).
  intros [k v]. split; intro Hin.
  - apply dict_get_In. rewrite <- He. apply In_dict_get; auto.
  - apply dict_get_In. rewrite He. apply In_dict_get; auto.
Qed.
Lemma Permutation_dict_eq : forall A (m d : list (bytes * A)),
  NoDup (keys m) -> Permutation m d -> dict_eq m d.
Proof.
  intros A m d Hm Hp k.
  assert (Hd : NoDup (keys d)) by (eapply Permutation_NoDup; [apply Permutation_map; exact Hp|exact Hm]).
  destruct (dict_get k m) eqn:E.
  - symmetry. apply In_dict_get; auto. eapply Permutation_in; [exact Hp|]. apply dict_get_In. exact E.
  - destruct (dict_get k d) eqn:E2; auto. exfalso. apply dict_get_None in E. apply E.
    apply dict_get_In in E2. apply (in_map fst) in E2. eapply Permutation_in; [apply Permutation_sym, Permutation_map; exact Hp|exact E2].
Qed.

(* ------------------------------------------------------------------ tactics for key comparisons *)
Ltac beq_norm :=
  repeat match goal with
  | H : beq_bytes _ _ = true |- _ => apply beq_bytes_true_iff in H; subst
  | H : beq_bytes _ _ = false |- _ => apply beq_bytes_false_iff in H
  end.
Ltac beq_destruct :=
  repeat match goal with
  | |- context [beq_bytes ?a ?b] => let E := fresh "E" in destruct (beq_bytes a b) eqn:E; beq_norm
  end.
Ltac beq_solve := beq_destruct; try congruence; try contradiction; auto.

Lemma ltb_false_neq_gt : forall a b, bytes_ltb a b = false -> a <> b -> bytes_ltb b a = true.
Proof.
  intros a b H N. destruct (bytes_ltb b a) eqn:E; auto. exfalso. apply N. apply bytes_ltb_total; auto.
Qed.

(* ------------------------------------------------------------------ generic list facts *)
Lemma map_last : forall A B (f : A -> B) l d, last (map f l) (f d) = f (last l d).
Proof. induction l as [|a l IH]; intro d; cbn; auto. destruct l; cbn in *; auto. Qed.
Lemma map_removelast : forall A B (f : A -> B) l, map f (removelast l) = removelast (map f l).
Proof. induction l as [|a l IH]; cbn; auto. destruct l; cbn in *; auto. rewrite IH. reflexivity. Qed.
Lemma last_removelast_perm : forall A (l : list A) d, l <> [] -> Permutation (last l d :: removelast l) l.
Proof.
  intros A l d H. rewrite (app_removelast_last d H) at 3. apply Permutation_cons_append.
Qed.
Lemma insert_at_perm : forall A (l : list A) i x, Permutation (firstn i l ++ x :: skipn i l) (x :: l).
Proof.
  intros. apply Permutation_sym. rewrite <- (firstn_skipn i l) at 1. apply Permutation_middle.
Qed.
Lemma filter_all_true : forall A (P : A -> bool) l, (forall x, In x l -> P x = true) -> filter P l = l.
Proof.
  induction l as [|a l IH]; intro H; cbn; auto. rewrite (H a (or_introl eq_refl)). f_equal. apply IH.
  intros x Hx. apply H. right. exact Hx.
Qed.
Lemma StronglySorted_filter : forall A (R : A -> A -> Prop) (P : A -> bool) l,
  StronglySorted R l -> StronglySorted R (filter P l).
Proof.
  induction l as [|a l IH]; intro H; cbn; [constructor|].
  inversion H as [|? ? HS HF]; subst. destruct (P a).
  - constructor; auto. rewrite Forall_forall in *. intros x Hx. apply filter_In in Hx. apply HF. tauto.
  - auto.
Qed.
Lemma NoDup_filter : forall A (P : A -> bool) l, NoDup l -> NoDup (filter P l).
Proof.
  induction l as [|a l IH]; intro H; cbn; [constructor|]. inversion H; subst. destruct (P a); auto.
  constructor; auto. intro X. apply filter_In in X. tauto.
Qed.
Lemma keys_filter : forall A (P : bytes * A -> bool) (m : list (bytes * A)),
  NoDup (keys m) -> NoDup (keys (filter P m)).
Proof.
  induction m as [|e m IH]; intro H; cbn; [constructor|]. inversion H; subst. destruct (P e); auto.
  cbn. constructor; auto. intro X. apply in_map_iff in X. destruct X as [e' [E X]]. apply filter_In in X.
  destruct X as [X _]. apply (in_map fst) in X. congruence.
Qed.

(* ------------------------------------------------------------------ the reference dictionary *)
Lemma dict_get_remove : forall A k k' (d : dict A),
  dict_get k' (dict_remove k d) = if beq_bytes k' k then None else dict_get k' d.
Proof.
  intros A k k' d. unfold dict_remove. induction d as [|[k1 v1] d IH]; cbn [filter fst dict_get].
  - destruct (beq_bytes k' k); reflexivity.
  - destruct (beq_bytes k k1) eqn:E1; cbn [negb dict_get]; rewrite IH; beq_norm.
    + destruct (beq_bytes k' k1) eqn:E2; auto.
    + destruct (beq_bytes k' k1) eqn:E2; beq_norm; auto.
      destruct (beq_bytes k1 k) eqn:E3; beq_norm; congruence.
Qed.
Lemma dict_get_insert : forall A k v k' (d : dict A),
  dict_get k' (dict_insert k v d) = if beq_bytes k' k then Some v else dict_get k' d.
Proof.
  intros. unfold dict_insert. cbn. destruct (beq_bytes k' k) eqn:E; auto. rewrite dict_get_remove, E. reflexivity.
Qed.
Lemma keys_dict_remove : forall A k (d : dict A), keys (dict_remove k d) = ord_shift_remove k (keys d).
Proof.
  intros A k d. unfold dict_remove, ord_shift_remove. induction d as [|[k1 v1] d IH]; cbn [filter map fst]; auto.
  destruct (beq_bytes k k1); cbn [negb map fst]; rewrite IH; reflexivity.
Qed.
Lemma ord_shift_remove_notin : forall k ks, ~ In k ks -> ord_shift_remove k ks = ks.
Proof.
  induction ks as [|x ks IH]; cbn; intro H; auto.
  destruct (beq_bytes k x) eqn:E; beq_norm.
  - exfalso. apply H. left. reflexivity.
  - cbn. f_equal. apply IH. tauto.
Qed.
Lemma In_ord_shift_remove : forall k x ks, In x (ord_shift_remove k ks) <-> In x ks /\ x <> k.
Proof.
  intros. unfold ord_shift_remove. rewrite filter_In. split; intros [H1 H2]; split; auto.
  - intro E. subst. rewrite beq_bytes_refl in H2. discriminate.
  - apply negb_true_iff. apply beq_bytes_false_iff. congruence.
Qed.
Lemma dict_wf_remove : forall A k (d : dict A), dict_wf d -> dict_wf (dict_remove k d).
Proof. intros. unfold dict_wf. rewrite keys_dict_remove. apply NoDup_filter. exact H. Qed.
Lemma dict_wf_insert : forall A k v (d : dict A), dict_wf d -> dict_wf (dict_insert k v d).
Proof.
  intros. unfold dict_wf, dict_insert. cbn. constructor.
  - rewrite keys_dict_remove. rewrite In_ord_shift_remove. tauto.
  - apply dict_wf_remove. exact H.
Qed.
Lemma dict_get_filter : forall A (f : bytes -> A -> bool) k (d : dict A), dict_wf d ->
  dict_get k (dict_filter f d) = match dict_get k d with Some v => if f k v then Some v else None | None => None end.
Proof.
  intros A f k d. unfold dict_filter, dict_wf. induction d as [|[k1 v1] d IH]; intro W; cbn [filter fst snd dict_get map]; auto.
  cbn [map fst] in W. inversion W as [|? ? Hn W']; subst.
  destruct (f k1 v1) eqn:F; cbn [dict_get].
  - destruct (beq_bytes k k1) eqn:E; beq_norm; [rewrite F; reflexivity|]. apply IH. exact W'.
  - destruct (beq_bytes k k1) eqn:E; beq_norm.
    + rewrite F. rewrite IH by exact W'.
      assert (N : dict_get k1 d = None) by (apply dict_get_None; exact Hn). rewrite N. reflexivity.
    + apply IH. exact W'.
Qed.
Lemma dict_wf_filter : forall A (f : bytes -> A -> bool) (d : dict A), dict_wf d -> dict_wf (dict_filter f d).
Proof. intros. apply keys_filter. exact H. Qed.
Lemma keys_dict_map : forall A (g : bytes -> A -> A) (d : dict A), keys (dict_map g d) = keys d.
Proof. intros. unfold dict_map. rewrite map_map. cbn. reflexivity. Qed.
Lemma dict_get_map : forall A (g : bytes -> A -> A) k (d : dict A),
  dict_get k (dict_map g d) = option_map (g k) (dict_get k d).
Proof.
  induction d as [|[k1 v1] d IH]; cbn; auto. destruct (beq_bytes k k1) eqn:E; beq_norm; auto.
Qed.

(* ------------------------------------------------------------------ al_update (get_mut, IndexMut, OccupiedEntry::insert) *)
Lemma keys_al_update : forall A k (g : A -> A) (m : list (bytes * A)), keys (al_update k g m) = keys m.
Proof. induction m as [|[k1 v1] m IH]; cbn; auto. destruct (beq_bytes k k1); cbn; congruence. Qed.
Lemma get_al_update : forall A k (g : A -> A) k' (m : list (bytes * A)),
  dict_get k' (al_update k g m) = if beq_bytes k' k then option_map g (dict_get k m) else dict_get k' m.
Proof.
  induction m as [|[k1 v1] m IH]; cbn.
  - destruct (beq_bytes k' k); reflexivity.
  - destruct (beq_bytes k k1) eqn:E1; cbn; beq_norm.
    + destruct (beq_bytes k' k1) eqn:E2; beq_norm; auto.
    + rewrite IH. destruct (beq_bytes k' k1) eqn:E2; beq_norm; auto.
      destruct (beq_bytes k1 k) eqn:E3; beq_norm; congruence.
Qed.

(* ------------------------------------------------------------------ BTreeMap primitives *)
Lemma get_bt_insert : forall A k (v : A) k' m,
  dict_get k' (bt_insert k v m) = if beq_bytes k' k then Some v else dict_get k' m.
Proof.
  induction m as [|[k1 v1] m IH]; cbn.
  - destruct (beq_bytes k' k); reflexivity.
  - destruct (beq_bytes k k1) eqn:E1; beq_norm; cbn.
    + destruct (beq_bytes k' k1); reflexivity.
    + destruct (bytes_ltb k k1) eqn:L; cbn.
      * destruct (beq_bytes k' k); reflexivity.
      * rewrite IH. destruct (beq_bytes k' k1) eqn:E2; beq_norm; auto.
        destruct (beq_bytes k1 k) eqn:E3; beq_norm; congruence.
Qed.
Lemma In_keys_bt_insert : forall A k (v : A) x m, In x (keys (bt_insert k v m)) -> x = k \/ In x (keys m).
Proof.
  induction m as [|[k1 v1] m IH]; cbn; intro H.
  - intuition congruence.
  - destruct (beq_bytes k k1) eqn:E1; beq_norm; cbn in H.
    + intuition congruence.
    + destruct (bytes_ltb k k1); cbn in H; [intuition congruence|]. destruct H as [H|H]; [tauto|]. apply IH in H. tauto.
Qed.
Lemma ascending_bt_insert : forall A k (v : A) m, ascending (keys m) -> ascending (keys (bt_insert k v m)).
Proof.
  induction m as [|[k1 v1] m IH]; cbn; intro H.
  - repeat constructor.
  - apply ascending_cons_inv in H. destruct H as [H HF].
    destruct (beq_bytes k k1) eqn:E1; beq_norm; cbn.
    + constructor; assumption.
    + destruct (bytes_ltb k k1) eqn:L; cbn.
      * constructor; [constructor; assumption|]. constructor; [exact L|].
        rewrite Forall_forall in *. intros x Hx. unfold bytes_lt. eapply bytes_ltb_trans; [exact L|]. apply HF. exact Hx.
      * constructor; [apply IH; exact H|]. rewrite Forall_forall in *. intros x Hx.
        apply In_keys_bt_insert in Hx. destruct Hx as [->|Hx]; [|apply HF; exact Hx].
        apply ltb_false_neq_gt; auto.
Qed.
Lemma keys_bt_remove : forall A k (m : list (bytes * A)), NoDup (keys m) -> keys (bt_remove k m) = ord_shift_remove k (keys m).
Proof.
  induction m as [|[k1 v1] m IH]; cbn; intro H; auto. inversion H; subst.
  destruct (beq_bytes k k1) eqn:E; beq_norm; cbn.
  - symmetry. apply ord_shift_remove_notin. assumption.
  - f_equal. apply IH. assumption.
Qed.
Lemma get_bt_remove : forall A k k' (m : list (bytes * A)), NoDup (keys m) ->
  dict_get k' (bt_remove k m) = if beq_bytes k' k then None else dict_get k' m.
Proof.
  induction m as [|[k1 v1] m IH]; cbn; intro H.
  - destruct (beq_bytes k' k); reflexivity.
  - inversion H as [|? ? Hn H']; subst. destruct (beq_bytes k k1) eqn:E1; beq_norm; cbn.
    + destruct (beq_bytes k' k1) eqn:E2; beq_norm; auto. apply dict_get_None. exact Hn.
    + rewrite IH by exact H'. destruct (beq_bytes k' k1) eqn:E2; beq_norm; auto.
      destruct (beq_bytes k1 k) eqn:E3; beq_norm; congruence.
Qed.
Lemma bt_remove_dict_remove : forall A k (m : list (bytes * A)), NoDup (keys m) -> bt_remove k m = dict_remove k m.
Proof.
  induction m as [|[k1 v1] m IH]; cbn; intro H; auto. inversion H as [|? ? Hn H']; subst.
  destruct (beq_bytes k k1) eqn:E; beq_norm; cbn.
  - symmetry. unfold dict_remove. rewrite filter_all_true; auto. intros [k2 v2] Hin. cbn.
    apply negb_true_iff. apply beq_bytes_false_iff. intro X. subst. apply Hn. apply (in_map fst) in Hin. exact Hin.
  - f_equal. apply IH. exact H'.
Qed.

(* ------------------------------------------------------------------ IndexMap primitives *)
Lemma get_ix_insert : forall A k (v : A) k' m,
  dict_get k' (ix_insert k v m) = if beq_bytes k' k then Some v else dict_get k' m.
Proof.
  induction m as [|[k1 v1] m IH]; cbn.
  - destruct (beq_bytes k' k); reflexivity.
  - destruct (beq_bytes k k1) eqn:E1; beq_norm; cbn.
    + destruct (beq_bytes k' k1); reflexivity.
    + rewrite IH. destruct (beq_bytes k' k1) eqn:E2; beq_norm; auto.
      destruct (beq_bytes k1 k) eqn:E3; beq_norm; congruence.
Qed.
Lemma keys_ix_insert : forall A k (v : A) m, keys (ix_insert k v m) = ord_insert k (keys m).
Proof.
  induction m as [|[k1 v1] m IH]; cbn [ix_insert map fst].
  - reflexivity.
  - destruct (beq_bytes k k1) eqn:E; cbn [map fst].
    + unfold ord_insert, key_mem. cbn [existsb]. rewrite E. reflexivity.
    + rewrite IH. unfold ord_insert, key_mem. cbn [existsb]. rewrite E. cbn [orb].
      destruct (existsb (beq_bytes k) (keys m)); reflexivity.
Qed.
Lemma NoDup_ord_insert : forall k ks, NoDup ks -> NoDup (ord_insert k ks).
Proof.
  intros. unfold ord_insert. destruct (key_mem k ks) eqn:E; auto. apply key_mem_false in E.
  eapply Permutation_NoDup; [apply Permutation_cons_append|]. constructor; assumption.
Qed.
Lemma ix_shift_remove_bt_remove : forall A k (m : list (bytes * A)), ix_shift_remove k m = bt_remove k m.
Proof. induction m as [|[k1 v1] m IH]; cbn; [reflexivity|]. destruct (beq_bytes k k1); congruence. Qed.
Lemma ix_swap_remove_perm : forall A k (m : list (bytes * A)), Permutation (ix_swap_remove k m) (bt_remove k m).
Proof.
  induction m as [|[k1 v1] m IH]; cbn; auto. destruct (beq_bytes k k1).
  - destruct m as [|e m]; auto. apply last_removelast_perm. discriminate.
  - constructor. exact IH.
Qed.
Lemma keys_ix_swap_remove : forall A k (m : list (bytes * A)), keys (ix_swap_remove k m) = ord_swap_remove k (keys m).
Proof.
  induction m as [|[k1 v1] m IH]; cbn; auto. destruct (beq_bytes k k1); cbn.
  - destruct m as [|e m]; auto.
    change (keys (last (e :: m) (k1, v1) :: removelast (e :: m)) = last (keys (e :: m)) k1 :: removelast (keys (e :: m))).
    cbn [map]. rewrite map_removelast. f_equal. rewrite <- (map_last _ _ fst (e :: m) (k1, v1)). reflexivity.
  - f_equal. exact IH.
Qed.
Lemma NoDup_keys_bt_remove : forall A k (m : list (bytes * A)), NoDup (keys m) -> NoDup (keys (bt_remove k m)).
Proof. intros. rewrite keys_bt_remove by assumption. apply NoDup_filter. assumption. Qed.
Lemma NoDup_keys_ix_swap_remove : forall A k (m : list (bytes * A)), NoDup (keys m) -> NoDup (keys (ix_swap_remove k m)).
Proof.
  intros. eapply Permutation_NoDup; [apply Permutation_sym, Permutation_map, ix_swap_remove_perm|].
  apply NoDup_keys_bt_remove. assumption.
Qed.
Lemma get_ix_swap_remove : forall A k k' (m : list (bytes * A)), NoDup (keys m) ->
  dict_get k' (ix_swap_remove k m) = if beq_bytes k' k then None else dict_get k' m.
Proof.
  intros. rewrite <- get_bt_remove by assumption. apply Permutation_dict_eq.
  - apply NoDup_keys_ix_swap_remove. assumption.
  - apply ix_swap_remove_perm.
Qed.
Lemma length_bt_remove : forall A k (m : list (bytes * A)),
  length (bt_remove k m) = if dict_mem k m then pred (length m) else length m.
Proof.
  induction m as [|[k1 v1] m IH]; cbn; auto. unfold dict_mem in *. cbn. destruct (beq_bytes k k1); cbn; auto.
  rewrite IH. destruct (dict_get k m) eqn:E; auto. destruct m; cbn in *; [discriminate|reflexivity].
Qed.

(* shift_insert *)
Lemma ix_shift_insert_spec : forall A i k (v : A) m, NoDup (keys m) ->
  match ix_shift_insert i k v m with
  | Some m' => ord_shift_insert_ok i k (keys m) = true /\ keys m' = ord_shift_insert i k (keys m)
               /\ Permutation m' ((k, v) :: bt_remove k m)
  | None => ord_shift_insert_ok i k (keys m) = false
  end.
Proof.
  intros A i k v m ND. unfold ix_shift_insert, ord_shift_insert_ok, ord_shift_insert.
  rewrite al_mem_dict_mem. rewrite <- keys_bt_remove by assumption. rewrite map_length.
  rewrite ix_shift_remove_bt_remove. rewrite length_bt_remove.
  destruct (dict_mem k m) eqn:M.
  - assert (L : (0 < length m)%nat).
    { destruct m; [cbn in M; discriminate|cbn; lia]. }
    destruct (Nat.ltb i (length m)) eqn:C.
    + apply Nat.ltb_lt in C. split; [apply Nat.leb_le; lia|]. split.
      * rewrite map_app. cbn. rewrite firstn_map, skipn_map. reflexivity.
      * apply insert_at_perm.
    + apply Nat.ltb_ge in C. apply Nat.leb_gt. lia.
  - assert (E : bt_remove k m = m).
    { rewrite bt_remove_dict_remove by assumption. unfold dict_remove. apply filter_all_true.
      intros [k2 v2] Hin. cbn. apply negb_true_iff. apply beq_bytes_false_iff. intro X. subst.
      assert (dict_mem k2 m = true) by (apply dict_mem_In; apply (in_map fst) in Hin; exact Hin). congruence. }
    rewrite E. destruct (Nat.leb i (length m)) eqn:C; auto. split; auto. split.
    + rewrite map_app. cbn. rewrite firstn_map, skipn_map. reflexivity.
    + apply insert_at_perm.
Qed.

(* sort_by_key *)
Lemma sort_ins_perm : forall A (kv : bytes * A) l, Permutation (sort_ins kv l) (kv :: l).
Proof.
  induction l as [|x l IH]; cbn; auto. destruct (bytes_ltb (fst x) (fst kv)); auto.
  eapply Permutation_trans; [apply perm_skip; exact IH|]. apply perm_swap.
Qed.
Lemma sort_by_key_perm : forall A (l : list (bytes * A)), Permutation (sort_by_key l) l.
Proof.
  induction l as [|x l IH]; cbn; auto. eapply Permutation_trans; [apply sort_ins_perm|]. constructor. exact IH.
Qed.
Lemma keys_sort_ins : forall A (kv : bytes * A) l, keys (sort_ins kv l) = ord_sort_ins (fst kv) (keys l).
Proof. induction l as [|x l IH]; cbn; auto. destruct (bytes_ltb (fst x) (fst kv)); cbn; congruence. Qed.
Lemma keys_sort_by_key : forall A (l : list (bytes * A)), keys (sort_by_key l) = ord_sort (keys l).
Proof.
  intros A l. unfold sort_by_key, ord_sort. induction l as [|x l IH]; cbn [fold_right map]; auto.
  rewrite keys_sort_ins, IH. reflexivity.
Qed.
Lemma In_ord_sort_ins : forall k y l, In y (ord_sort_ins k l) <-> y = k \/ In y l.
Proof.
  induction l as [|x l IH]; cbn.
  - intuition congruence.
  - destruct (bytes_ltb x k); cbn; [rewrite IH|]; intuition congruence.
Qed.
Lemma ord_sort_perm : forall ks, Permutation (ord_sort ks) ks.
Proof.
  induction ks as [|k ks IH]; cbn; auto.
  assert (P : forall l, Permutation (ord_sort_ins k l) (k :: l)).
  { induction l as [|x l IHl]; cbn; auto. destruct (bytes_ltb x k); auto.
    eapply Permutation_trans; [apply perm_skip; exact IHl|]. apply perm_swap. }
  eapply Permutation_trans; [apply P|]. constructor. exact IH.
Qed.
Lemma ascending_ord_sort_ins : forall k l, ascending l -> ~ In k l -> ascending (ord_sort_ins k l).
Proof.
  induction l as [|x l IH]; cbn; intros H N.
  - repeat constructor.
  - apply ascending_cons_inv in H. destruct H as [H HF]. destruct (bytes_ltb x k) eqn:L.
    + constructor; [apply IH; tauto|]. rewrite Forall_forall in *. intros y Hy. apply In_ord_sort_ins in Hy.
      destruct Hy as [->|Hy]; [exact L|apply HF; exact Hy].
    + assert (K : bytes_ltb k x = true) by (apply ltb_false_neq_gt; auto; intro X; apply N; left; congruence).
      constructor; [constructor; assumption|]. constructor; [exact K|]. rewrite Forall_forall in *. intros y Hy.
      unfold bytes_lt. eapply bytes_ltb_trans; [exact K|]. apply HF. exact Hy.
Qed.
Lemma ascending_ord_sort : forall ks, NoDup ks -> ascending (ord_sort ks).
Proof.
  induction ks as [|k ks IH]; cbn; intro H; [constructor|]. inversion H; subst.
  apply ascending_ord_sort_ins; auto. intro X. eapply Permutation_in in X; [|apply ord_sort_perm]. contradiction.
Qed.
Lemma ord_sort_ascending_id : forall ks, ascending ks -> ord_sort ks = ks.
Proof.
  intros ks H. apply ascending_ext; auto.
  - apply ascending_ord_sort. apply ascending_NoDup. exact H.
  - intro x. split; intro Hx; eapply Permutation_in; try exact Hx; [apply ord_sort_perm|apply Permutation_sym, ord_sort_perm].
Qed.

(* retain / values_mut *)
Lemma keys_m_retain : forall f (m : mapstate), NoDup (keys m) ->
  keys (m_retain f m) = filter (fun k => match dict_get k m with Some v => f k v | None => false end) (keys m).
Proof.
  intros f m. unfold m_retain. induction m as [|[k1 v1] m IH]; intro H; cbn; auto.
  inversion H as [|? ? Hn H']; subst. rewrite beq_bytes_refl.
  assert (E : filter (fun k => match (if beq_bytes k k1 then Some v1 else dict_get k m) with Some v => f k v | None => false end) (keys m)
              = filter (fun k => match dict_get k m with Some v => f k v | None => false end) (keys m)).
  { apply filter_ext_in. intros k Hk. destruct (beq_bytes k k1) eqn:E; beq_norm; [contradiction|reflexivity]. }
  rewrite E. destruct (f k1 v1); cbn; rewrite IH by exact H'; reflexivity.
Qed.
Lemma keys_m_map_values : forall g (m : mapstate), keys (m_map_values g m) = keys m.
Proof. intros. unfold m_map_values. rewrite map_map. reflexivity. Qed.
