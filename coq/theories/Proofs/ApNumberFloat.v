(* Proofs/ApNumberFloat.v — C20, as_f64: on a literal the accessor returns the nearest (ties to even) binary64 value of
   the literal's exact decimal value when that is finite, and None otherwise.
   (The model's as_f64 is `str::parse::<f64>` ASSUMED correctly rounding, i.e. the oracle rne_decimal of Base/FloatB.v on
   the literal's exact value; rne_decimal is proved correctly rounded in Proofs/FloatOracle.v — here also its overflow side.) *)
From Coq Require Import ZArith NArith Reals Lia Lra List Bool.
From Flocq Require Import Core BinarySingleNaN.
From SJ Require Import Base.Bytes Base.FloatB Gen.Tables Model.Read Model.Num Model.NumberM Spec.Syntax.
From SJ Require Import Spec.Denote Proofs.FloatDefault Proofs.FloatOracle Proofs.NumInt Proofs.GrammarNum Proofs.ApNumber.
Open Scope Z_scope.

Lemma bn_overflow (m e : Z) (sz : bool) :
  (0 < F2R (Float radix2 m e))%R ->
  (bpow radix2 1024 <= Rabs (RNE64 (F2R (Float radix2 m e))))%R ->
  binary_normalize 53 1024 prec53_gt_0 prec53_lt_emax mode_NE m e sz = B754_infinity false.
Proof.
  intros Hpos Hge.
  pose proof (binary_normalize_correct 53 1024 prec53_gt_0 prec53_lt_emax mode_NE m e sz) as H.
  cbn zeta in H. cbn [round_mode] in H. rewrite fexp64_conv in H. fold (RNE64 (F2R (Float radix2 m e))) in H.
  rewrite Rlt_bool_false in H by exact Hge.
  rewrite Rlt_bool_false in H by (apply Rlt_le; exact Hpos).
  apply B2SF_inj. rewrite H. reflexivity.
Qed.

(* the overflow side of the oracle *)
Theorem rne_decimal_overflow : forall m e, 0 < m ->
  (bpow radix2 1024 <= Rabs (RNE64 (IZR m * powerRZ 10 e)))%R ->
  rne_decimal m e = B754_infinity false.
Proof.
  intros m e Hm Hge. unfold rne_decimal.
  replace (m <=? 0) with false by (symmetry; apply Z.leb_gt; exact Hm).
  destruct (Z.ltb_spec 400 e) as [Hbig|Hle]; [reflexivity|].
  destruct (Z.ltb_spec e (- (400 + Z.log2 m))) as [Hsmall|Hge2].
  { exfalso. rewrite RNE64_tiny in Hge by (apply guard_small; assumption).
    rewrite Rabs_R0 in Hge. pose proof (bpow_gt_0 radix2 1024). lra. }
  destruct (Z.leb_spec 0 e) as [Hpos|Hneg].
  - assert (HF : F2R (Float radix2 (m * 10 ^ e) 0) = (IZR m * powerRZ 10 e)%R).
    { rewrite F2R_e0, mult_IZR, powerRZ_10_nonneg by exact Hpos. reflexivity. }
    apply bn_overflow; rewrite HF; [|exact Hge].
    rewrite powerRZ_10_nonneg by exact Hpos.
    apply Rmult_lt_0_compat; apply IZR_lt; [exact Hm|apply pow10_pos; exact Hpos].
  - cbn zeta.
    set (d := 10 ^ (- e)). set (k := Z.max 0 (70 + Z.log2_up d - Z.log2 m)).
    assert (Hd1 : 1 < d).
    { unfold d. apply Z.lt_le_trans with (10 ^ 1); [reflexivity|apply Z.pow_le_mono_r; lia]. }
    destruct (scale_big m d Hm Hd1) as (Hk & Hbig). fold k in Hk, Hbig.
    assert (Hd : 0 < d) by lia.
    change (if m * 2 ^ k mod d =? 0 then m * 2 ^ k / d
            else if Z.even (m * 2 ^ k / d) then m * 2 ^ k / d + 1 else m * 2 ^ k / d)
      with (odd_fix (m * 2 ^ k) d).
    assert (Hx : (IZR m * powerRZ 10 e = IZR m / IZR d)%R).
    { replace e with (- (- e)) by lia. rewrite powerRZ_10_neg by lia. reflexivity. }
    rewrite Hx in Hge.
    pose proof (oq_RNE m d k Hm Hd Hk Hbig) as HR.
    apply bn_overflow.
    + apply F2R_gt_0. cbn [Fnum]. apply (oq_num_pos m d k Hm Hd Hk Hbig).
    + rewrite HR. exact Hge.
Qed.

(* ---- as_f64 on a literal ------------------------------------------------------------------------------- *)
(* the absolute value of the literal, as a real number *)
Definition lit_abs_value (n : numlit) : R := (IZR (lit_mantissa n) * powerRZ 10 (lit_exponent n))%R.

Lemma lit_mantissa_nonneg (n : numlit) : 0 <= lit_mantissa n.
Proof. unfold lit_mantissa. apply (digits_val_ge (nint n ++ lit_frac n) 0). lia. Qed.

Lemma finite_not_inf (f : b64) : is_finite f = true -> b64_is_inf f = false.
Proof. destruct f; [reflexivity|discriminate|discriminate|reflexivity]. Qed.

Theorem as_f64_in_range : forall n, num_ok n = true ->
  (Rabs (RNE64 (lit_abs_value n)) < bpow radix2 1024)%R ->
  exists f, ap_as_f64 (render_num n) = Some f /\ is_finite f = true
         /\ B2R f = (if nneg n then - RNE64 (lit_abs_value n) else RNE64 (lit_abs_value n))%R
         /\ Bsign f = nneg n.
Proof.
  intros n Hok Hlt. rewrite (as_f64_lit n Hok). cbv zeta. unfold lit_abs_value in *.
  pose proof (lit_mantissa_nonneg n) as Hm0.
  destruct (Z.eq_dec (lit_mantissa n) 0) as [Hz|Hnz].
  - rewrite Hz. assert (Hr : rne_decimal 0 (lit_exponent n) = B754_zero false) by reflexivity.
    rewrite Hr. cbn [b64_is_inf]. rewrite Rmult_0_l, RNE64_0.
    destruct (nneg n); eexists; (split; [reflexivity|]); cbn [b64_neg Bopp is_finite B2R Bsign];
      (split; [reflexivity|]); (split; [|reflexivity]); lra.
  - destruct (rne_decimal_correct (lit_mantissa n) (lit_exponent n) ltac:(lia) Hlt) as (Hfin & HR & Hsg).
    rewrite (finite_not_inf _ Hfin).
    destruct (nneg n); eexists; (split; [reflexivity|]).
    + unfold b64_neg. rewrite is_finite_Bopp, B2R_Bopp, Bsign_Bopp by (apply finite_not_nan; exact Hfin).
      rewrite Hfin, HR, Hsg. repeat split; reflexivity.
    + rewrite Hfin, HR, Hsg. repeat split; reflexivity.
Qed.

Theorem as_f64_overflow : forall n, num_ok n = true ->
  (bpow radix2 1024 <= Rabs (RNE64 (lit_abs_value n)))%R ->
  ap_as_f64 (render_num n) = None.
Proof.
  intros n Hok Hge. rewrite (as_f64_lit n Hok). cbv zeta. unfold lit_abs_value in Hge.
  pose proof (lit_mantissa_nonneg n) as Hm0.
  destruct (Z.eq_dec (lit_mantissa n) 0) as [Hz|Hnz].
  - exfalso. rewrite Hz, Rmult_0_l, RNE64_0, Rabs_R0 in Hge. pose proof (bpow_gt_0 radix2 1024). lra.
  - rewrite (rne_decimal_overflow (lit_mantissa n) (lit_exponent n) ltac:(lia) Hge). reflexivity.
Qed.

(* is_f64: the literal has a fraction or an exponent and its nearest double is finite *)
Theorem is_f64_lit : forall n, num_ok n = true ->
  ap_is_f64 (render_num n) = negb (lit_is_int n) && is_some (ap_as_f64 (render_num n)).
Proof.
  intros n Hok. rewrite is_f64_def. f_equal.
  (* a '.', 'e' or 'E' occurs in the text iff the literal has a fraction or an exponent *)
  rewrite render_num_split, existsb_app.
  assert (Hs : existsb float_char (if nneg n then [45%N] else []) = false) by (destruct (nneg n); reflexivity).
  rewrite Hs. cbn [orb].
  pose proof (all_digits_render_abs n Hok) as Had.
  destruct (lit_is_int n) eqn:Hi; cbn [negb].
  - apply all_digits_forallb in Had.
    induction (render_abs n) as [|c r IH]; [reflexivity|].
    cbn [forallb] in Had. apply andb_prop in Had. destruct Had as (Hc & Hr).
    cbn [existsb]. rewrite (IH Hr). unfold float_char, is_digit in *. lia.
  - rewrite GrammarNum.render_abs_eq. unfold lit_is_int in Hi.
    destruct (num_ok_parts n Hok) as (_ & _ & Hx).
    rewrite !existsb_app. destruct (nfrac n) as [f|].
    + cbn [GrammarNum.fracl existsb]. change (float_char 46) with true. cbn [orb]. apply orb_true_r.
    + destruct (nexp n) as [[[e sg] ds]|]; [|discriminate Hi].
      destruct (Hx e sg ds eq_refl) as (He & _ & _).
      cbn [GrammarNum.expl existsb].
      assert (Hfc : float_char e = true) by (unfold float_char; lia).
      rewrite Hfc. cbn [orb]. rewrite !orb_true_r. reflexivity.
Qed.

Print Assumptions rne_decimal_overflow.
Print Assumptions as_f64_in_range.
Print Assumptions as_f64_overflow.
Print Assumptions is_f64_lit.
