(* Proofs/ValueDeAgreeKey.v — C16, map keys: the MapKeyDeserializer of src/value/de.rs ([de_value_key], run on the key String of a
   Value's object) against the MapKey deserializer of src/de.rs ([de_key], run on the quoted key the serializer prints).

   The serializer prints the key [key] as the string literal with pieces [pieces_of key] (escapes exactly where the ESCAPE table asks
   for them).  This matters: a numeric or bool key is accepted by the text MapKey only when it is spelled without escapes
   (`{"1":..}` is not an integer key for from_str, while the Value holding the key "1" is one for from_value), so the agreement
   is a statement about the PRINTED key, not about an arbitrary spelling of it.

   Main statement [key_agree]: for every key type except f32 (string, char, bool, all ten integer widths, f64, Option / newtype
   wrappers, unit-variant enums), on  " Lk key " rstk :
     - de_value_key succeeds with d  ->  de_key succeeds with d (up to borrowing), stops behind the closing quote, same depth;
     - de_value_key fails            ->  de_key does not succeed;
     - de_value_key never runs out of fuel / panics.
   Numeric keys: deserialize_numeric_key! runs the number parser on the key text (end of input behind it) resp. inside the quotes
   (closing quote behind it); both directions go through the number grammar theorems (Proofs/GrammarNum.v: number_sound_plain,
   number_local_ok) and, for the 128-bit widths, a direct characterisation of scan_integer128. *)
From SJ Require Import Base.Bytes Base.Utf8 Base.FloatB Gen.Tables
  Model.Read Model.Str Model.Num Model.NumF32 Model.Value Model.De Model.Ignore Model.Ty Model.NumberM Model.DeTyped Model.ValueDe
  Spec.Syntax Spec.Denote Proofs.GrammarIgnore Proofs.GrammarValueComplete Proofs.SerValue Proofs.GrammarValueBase Proofs.GrammarStr Proofs.GrammarNum
  Proofs.ValueDeRef Proofs.ValueDeAgree.
From SJ Require Import Proofs.SerBase Proofs.SerRender Proofs.SerWf Proofs.SerDenote Proofs.Total Proofs.TypedTotal.
From SJ Require Proofs.NumInt Proofs.TypedInt Proofs.StrSource.
Require Import Lia ZifyBool ZifyNat ZifyN.
Open Scope N_scope.

(* ---- the printed key --------------------------------------------------------------------------------------------------------------- *)
Definition Lk (key : bytes) : bytes := flat_map render_piece (pieces_of key).

(* bytes a number literal is made of; the letters of `true` / `false` *)
Definition numch (b : N) : bool := is_digit b || (b =? 43) || (b =? 45) || (b =? 46) || (b =? 69) || (b =? 101).
Definition lowtf (b : N) : bool := existsb (N.eqb b) [116; 114; 117; 101; 102; 97; 108; 115].

Definition piece_pred (b : N) : bool :=
  match piece_of b with
  | PRaw c => (c =? b) && negb (b =? 34) && negb (b =? 92)
  | _ => negb (numch b) && negb (lowtf b)
  end.

Lemma piece_pred_all : forall b, b < 256 -> piece_pred b = true.
Proof. apply all_bytes. vm_compute. reflexivity. Qed.

(* a byte is printed as itself (and is neither a quote nor a backslash), or as an escape sequence starting with a backslash
   (and then is neither a number character nor one of t r u e f a l s) *)
Lemma piece_cases b : b < 256 ->
  (render_piece (piece_of b) = [b] /\ b <> 34 /\ b <> 92)
  \/ ((exists x r, render_piece (piece_of b) = 92 :: x :: r) /\ numch b = false /\ lowtf b = false).
Proof.
  intros Hb. pose proof (piece_pred_all b Hb) as H. unfold piece_pred in H.
  destruct (piece_of b) as [c|c|h1 h2 h3 h4]; cbn [render_piece].
  - left. assert (c = b) by lia. subst c. split; [reflexivity|]. lia.
  - right. split; [eauto|]. split; [destruct (numch b); [discriminate H|reflexivity]|].
    destruct (numch b); [discriminate H|]. destruct (lowtf b); [discriminate H|reflexivity].
  - right. split; [eauto|]. split; [destruct (numch b); [discriminate H|reflexivity]|].
    destruct (numch b); [discriminate H|]. destruct (lowtf b); [discriminate H|reflexivity].
Qed.

Lemma Lk_cons b key : Lk (b :: key) = render_piece (piece_of b) ++ Lk key.
Proof. reflexivity. Qed.

Lemma Lk_app a b : Lk (a ++ b) = Lk a ++ Lk b.
Proof. unfold Lk. rewrite pieces_of_app, flat_map_app. reflexivity. Qed.

Lemma numch_lt b : numch b = true -> b < 256.
Proof. unfold numch, is_digit. lia. Qed.

Lemma numch_raw b : numch b = true -> render_piece (piece_of b) = [b].
Proof.
  intros H. destruct (piece_cases b (numch_lt b H)) as [[Hr _]|[_ [Hn _]]]; [exact Hr|]. rewrite H in Hn. discriminate Hn.
Qed.

Lemma lowtf_raw b : lowtf b = true -> render_piece (piece_of b) = [b].
Proof.
  intros H. assert (Hb : b < 256) by (unfold lowtf in H; cbn [existsb] in H; lia).
  destruct (piece_cases b Hb) as [[Hr _]|[_ [_ Hn]]]; [exact Hr|]. rewrite H in Hn. discriminate Hn.
Qed.

Lemma Lk_numch x : forallb numch x = true -> Lk x = x.
Proof.
  induction x as [|b x IH]; [reflexivity|]. cbn [forallb]. intros H. apply andb_prop in H as [Hb Hx].
  rewrite Lk_cons, (numch_raw b Hb), (IH Hx). reflexivity.
Qed.

(* the first byte of a printed non-empty key: the byte itself, or a backslash for a byte that is not a number character *)
Lemma Lk_head c key : c < 256 ->
  exists hb tl, Lk (c :: key) = hb :: tl /\ hb <> 34 /\ ((hb = c /\ tl = Lk key) \/ (hb = 92 /\ numch c = false /\ lowtf c = false)).
Proof.
  intros Hc. rewrite Lk_cons. destruct (piece_cases c Hc) as [[Hr [H34 H92]]|[(x & r & Hr) [Hn Hl]]]; rewrite Hr.
  - exists c, (Lk key). split; [reflexivity|]. split; [exact H34|]. left. auto.
  - exists 92, (x :: r ++ Lk key). split; [reflexivity|]. split; [discriminate|]. right. auto.
Qed.

(* bytes that are certainly printed as themselves *)
Definition rawb (b : N) : bool := numch b || lowtf b.

Lemma rawb_raw b : rawb b = true -> render_piece (piece_of b) = [b].
Proof. unfold rawb. intros H. apply orb_prop in H as [H|H]; [apply numch_raw, H|apply lowtf_raw, H]. Qed.

Lemma numch_rawb x : forallb numch x = true -> forallb rawb x = true.
Proof.
  induction x as [|b x IH]; [reflexivity|]. cbn [forallb]. intros H. apply andb_prop in H as [Hb Hx].
  rewrite (IH Hx). unfold rawb. rewrite Hb. reflexivity.
Qed.

(* a run of such bytes at the front of the printed key (followed by anything) is a run at the front of the key *)
Lemma Lk_split x : forall K r1 r2, Forall (fun b => b < 256) K -> forallb rawb x = true ->
  Lk K ++ 34 :: r1 = x ++ r2 -> exists K', K = x ++ K' /\ r2 = Lk K' ++ 34 :: r1.
Proof.
  induction x as [|y x IH]; intros K r1 r2 HK Hx Heq.
  - exists K. split; [reflexivity|]. symmetry. exact Heq.
  - cbn [forallb] in Hx. apply andb_prop in Hx as [Hy Hx].
    destruct K as [|b K].
    + cbn in Heq. injection Heq as Hy' _. subst y. discriminate Hy.
    + inversion HK as [|? ? Hb HK']; subst.
      destruct (Lk_head b K Hb) as (hb & tl & Hh & _ & [[-> ->]|[-> [Hn _]]]); rewrite Hh in Heq; cbn [app] in Heq;
        injection Heq as Hy' Heq.
      * subst y. destruct (IH K r1 r2 HK' Hx Heq) as (K' & -> & ->). exists K'. split; reflexivity.
      * subst y. discriminate Hy.
Qed.

(* ... and when the closing quote comes right behind the run, the key is the run *)
Lemma Lk_exact x K r1 r2 : Forall (fun b => b < 256) K -> forallb rawb x = true ->
  Lk K ++ 34 :: r1 = x ++ 34 :: r2 -> K = x /\ r2 = r1.
Proof.
  intros HK Hx Heq. destruct (Lk_split x K r1 (34 :: r2) HK Hx Heq) as (K' & -> & Hq).
  destruct K' as [|c K'].
  - cbn in Hq. injection Hq as ->. rewrite app_nil_r. auto.
  - exfalso. apply Forall_app in HK as [_ HK]. inversion HK as [|? ? Hc _]; subst.
    destruct (Lk_head c K' Hc) as (hb & tl & Hh & H34 & _). rewrite Hh in Hq. cbn [app] in Hq. injection Hq as Hq _. congruence.
Qed.

Lemma Lk_rawb x : forallb rawb x = true -> Lk x = x.
Proof.
  induction x as [|b x IH]; [reflexivity|]. cbn [forallb]. intros H. apply andb_prop in H as [Hb Hx].
  rewrite Lk_cons, (rawb_raw b Hb), (IH Hx). reflexivity.
Qed.

(* ---- small facts ---------------------------------------------------------------------------------------------------------------------- *)
Lemma digits_numch l : forallb is_digit l = true -> forallb numch l = true.
Proof.
  induction l as [|b l IH]; [reflexivity|]. cbn [forallb]. intros H. apply andb_prop in H as [Hb Hl].
  rewrite (IH Hl). unfold numch. rewrite Hb. reflexivity.
Qed.

Lemma int_ok_digits l : int_ok l = true -> forallb is_digit l = true.
Proof.
  intros H. destruct (int_ok_inv l H) as [->|(c & ds & -> & Hc & Hds)]; [reflexivity|].
  cbn [forallb]. unfold digs in Hds. rewrite Hds. unfold is_digit19 in Hc. unfold is_digit.
  replace ((48 <=? c) && (c <=? 57)) with true by lia. reflexivity.
Qed.

Lemma numch_app a b : forallb numch a = true -> forallb numch b = true -> forallb numch (a ++ b) = true.
Proof. intros Ha Hb. rewrite forallb_app, Ha, Hb. reflexivity. Qed.

(* the text of a number literal consists of number characters *)
Lemma render_abs_numch n : num_ok n = true -> forallb numch (render_abs n) = true.
Proof.
  unfold num_ok, render_abs, render_num. cbn [nneg nint nfrac nexp app]. intros H.
  apply andb_prop in H as [H Hx]. apply andb_prop in H as [Hi Hf].
  apply numch_app; [apply digits_numch, int_ok_digits, Hi|]. apply numch_app.
  - destruct (nfrac n) as [f|]; [|reflexivity]. cbn [forallb]. change (numch 46) with true. cbn [andb].
    apply digits_numch. destruct f; [discriminate Hf|exact Hf].
  - destruct (nexp n) as [[[e sg] ds]|]; [|reflexivity].
    apply andb_prop in Hx as [Hx Hds]. apply andb_prop in Hx as [He Hsg].
    cbn [forallb]. apply andb_true_intro. split; [unfold numch; lia|].
    apply numch_app.
    + destruct sg as [c|]; [|reflexivity]. cbn [forallb]. rewrite andb_true_r. unfold numch. lia.
    + apply digits_numch. destruct ds; [discriminate Hds|exact Hds].
Qed.

Lemma tbl_ok {A B} (r : res A) (k : A -> tres B) b : tbind (lift r) k = TOk b -> exists x, r = Ok x /\ k x = TOk b.
Proof. destruct r as [x| | |]; cbn [lift tbind]; intros H; try discriminate H. eauto. Qed.

Lemma span_firstn p (l : bytes) : forallb p (firstn (span_len p l) l) = true.
Proof. induction l as [|b l IH]; [reflexivity|]. cbn [span_len]. destruct (p b) eqn:Hb; [|reflexivity]. cbn [firstn forallb]. rewrite Hb, IH. reflexivity. Qed.

Lemma span_skipn_hd p (l : bytes) : match skipn (span_len p l) l with [] => True | c :: _ => p c = false end.
Proof. induction l as [|b l IH]; [exact I|]. cbn [span_len]. destruct (p b) eqn:Hb; [exact IH|]. cbn [skipn]. exact Hb. Qed.

Section Keys.
  Variable cf : cfg.
  Hypothesis Hap : arbitrary_precision cf = false.
  Local Notation E := (mkEnv RSlice TEof cf).
  Local Notation Ev := (mkEnv RStr TEof cf).
  Local Notation bytes_lt K := (Forall (fun x : N => x < 256) K).

  (* ---- the inner scanners: on the key text alone / inside the quotes ---------------------------------------------------------- *)
  Definition core_ok {X} (P : env -> st -> res (X * st)) : Prop := forall KN rstk ov pv dv ot pt dt, bytes_lt KN ->
    (forall x s2v, P Ev (mkSt KN ov pv dv) = Ok (x, s2v) -> rest s2v = [] ->
        exists s2t, P E (mkSt (Lk KN ++ 34 :: rstk) ot pt dt) = Ok (x, s2t) /\ rest s2t = 34 :: rstk /\ depth s2t = dt)
    /\ (forall x s2t r', P E (mkSt (Lk KN ++ 34 :: rstk) ot pt dt) = Ok (x, s2t) -> rest s2t = 34 :: r' ->
        exists s2v, P Ev (mkSt KN ov pv dv) = Ok (x, s2v) /\ rest s2v = []).

  Lemma pan_int E' positive s : cf = Read.cf E' -> parse_any_number E' positive s = parse_integer E' positive s.
  Proof. intros HE. unfold parse_any_number. rewrite <- HE, Hap. reflexivity. Qed.

  Lemma follow_quote r : num_follow (34 :: r).
  Proof. cbn [num_follow]. repeat split; discriminate. Qed.

  Lemma core_parse_integer positive : core_ok (fun E' => parse_integer E' positive).
  Proof.
    intros KN rstk ov pv dv ot pt dt HK. split.
    - intros p s2v Hp Hr.
      rewrite <- (pan_int Ev positive _ eq_refl), (StrSource.parse_any_number_eq cf) in Hp.
      destruct (number_sound_plain E positive _ p s2v eq_refl Hp) as (n & Hok & _ & Hrest & _ & _ & _ & s' & Hiso).
      cbn [rest] in Hrest. rewrite Hr, app_nil_r in Hrest. subst KN.
      rewrite (Lk_numch _ (render_abs_numch n Hok)).
      rewrite <- (pan_int E positive _ eq_refl).
      rewrite (number_local_ok E positive n (34 :: rstk) ot pt dt eq_refl Hok (follow_quote rstk) p s' Hiso).
      eexists. split; [reflexivity|]. split; reflexivity.
    - intros p s2t r' Hp Hr.
      rewrite <- (pan_int E positive _ eq_refl) in Hp.
      destruct (number_sound_plain E positive _ p s2t eq_refl Hp) as (n & Hok & _ & Hrest & _ & _ & _ & s' & Hiso).
      cbn [rest] in Hrest. rewrite Hr in Hrest.
      destruct (Lk_exact (render_abs n) KN rstk r' HK (numch_rawb _ (render_abs_numch n Hok)) Hrest) as [-> _].
      rewrite <- (pan_int Ev positive _ eq_refl), (StrSource.parse_any_number_eq cf).
      pose proof (number_local_ok E positive n [] ov pv dv eq_refl Hok I p s' Hiso) as H. rewrite app_nil_r in H.
      rewrite H. eexists. split; [reflexivity|]. reflexivity.
  Qed.

  (* scan_integer128: what an accepting run has read *)
  Lemma scan128_inv E' l o p d buf s2 : tm E' = TEof -> scan_integer128 E' (mkSt l o p d) = Ok (buf, s2) ->
    l = buf ++ rest s2 /\ int_ok buf = true /\ TypedInt.not_digit_next (rest s2) /\ depth s2 = d.
  Proof.
    intros HE H. unfold scan_integer128 in H. destruct l as [|c l].
    - unfold next, at_end in H. cbn [rest] in H. rewrite HE in H. cbn [bind] in H. discriminate H.
    - rewrite NumInt.next_cons in H. cbn [bind] in H. destruct (c =? 48) eqn:H48.
      + rewrite (NumInt.peek_or_null_eof E' l (S o) false d HE) in H. cbn [bind] in H.
        destruct (is_digit (hd 0 l)) eqn:Hd; [discriminate H|]. injection H as <- <-. cbn [rest depth].
        apply N.eqb_eq in H48. subst c. split; [reflexivity|]. split; [reflexivity|]. split; [|reflexivity].
        destruct l as [|x l]; [exact I|exact Hd].
      + destruct (is_digit19 c) eqn:H19; [|discriminate H]. cbn [rest] in H.
        rewrite NumInt.advance_mk, (NumInt.peek_or_null_eof E' _ _ false d HE) in H. cbn [bind] in H.
        injection H as <- <-. cbn [rest depth]. split; [cbn [app]; rewrite firstn_skipn; reflexivity|].
        split; [rewrite int_ok_eq, H48, H19; cbn [andb]; apply span_firstn|]. split; [|reflexivity].
        exact (span_skipn_hd is_digit l).
  Qed.

  Lemma core_scan128 : core_ok scan_integer128.
  Proof.
    intros KN rstk ov pv dv ot pt dt HK. split.
    - intros buf s2v Hp Hr.
      destruct (scan128_inv Ev _ _ _ _ _ _ eq_refl Hp) as (Hl & Hok & _ & _). rewrite Hr, app_nil_r in Hl. subst KN.
      rewrite (Lk_numch _ (digits_numch _ (int_ok_digits _ Hok))).
      rewrite (TypedInt.scan_integer128_int E buf (34 :: rstk) ot pt dt eq_refl Hok eq_refl).
      eexists. split; [reflexivity|]. split; reflexivity.
    - intros buf s2t r' Hp Hr.
      destruct (scan128_inv E _ _ _ _ _ _ eq_refl Hp) as (Hl & Hok & _ & _). rewrite Hr in Hl.
      destruct (Lk_exact buf KN rstk r' HK (numch_rawb _ (digits_numch _ (int_ok_digits _ Hok))) Hl) as [-> _].
      pose proof (TypedInt.scan_integer128_int Ev buf [] ov pv dv eq_refl Hok I) as H. rewrite app_nil_r in H.
      rewrite H. eexists. split; [reflexivity|]. reflexivity.
  Qed.

  (* ---- what is done with the scanner's result does not look at the reader ------------------------------------------------------ *)
  Definition post_ok {X} (kv kt : X * st -> tres (dval * st)) : Prop := forall x,
    (exists d, (forall s, kv (x, s) = TOk (d, s)) /\ (forall s, kt (x, s) = TOk (d, s)))
    \/ ((forall s a, kv (x, s) <> TOk a) /\ (forall s a, kt (x, s) <> TOk a)).

  Lemma wrap_ok {X} (P : env -> st -> res (X * st)) kv kt KN rstk ov pv dv ot pt dt :
    core_ok P -> post_ok kv kt -> bytes_lt KN ->
    (forall d s2v, tbind (lift (P Ev (mkSt KN ov pv dv))) kv = TOk (d, s2v) -> rest s2v = [] ->
       exists s2t, tbind (lift (P E (mkSt (Lk KN ++ 34 :: rstk) ot pt dt))) kt = TOk (d, s2t) /\ rest s2t = 34 :: rstk /\ depth s2t = dt)
    /\ (forall d s2t r', tbind (lift (P E (mkSt (Lk KN ++ 34 :: rstk) ot pt dt))) kt = TOk (d, s2t) -> rest s2t = 34 :: r' ->
       exists s2v, tbind (lift (P Ev (mkSt KN ov pv dv))) kv = TOk (d, s2v) /\ rest s2v = []).
  Proof.
    intros Hcore Hpost HK. destruct (Hcore KN rstk ov pv dv ot pt dt HK) as [C1 C2]. split.
    - intros d s2v HR Hr. apply tbl_ok in HR as ([x s2] & HP & Hk).
      destruct (Hpost x) as [(d0 & Hv & Ht)|[Hv _]]; [|exfalso; exact (Hv _ _ Hk)].
      rewrite Hv in Hk. injection Hk as <- <-. destruct (C1 x s2 HP Hr) as (s2t & HPt & Hrt & Hdt).
      exists s2t. rewrite HPt. cbn [lift tbind]. rewrite Ht. auto.
    - intros d s2t r' HR Hr. apply tbl_ok in HR as ([x s2] & HP & Hk).
      destruct (Hpost x) as [(d0 & Hv & Ht)|[_ Ht]]; [|exfalso; exact (Ht _ _ Hk)].
      rewrite Ht in Hk. injection Hk as <- <-. destruct (C2 x s2 r' HP Hr) as (s2v & HPv & Hrv).
      exists s2v. rewrite HPv. cbn [lift tbind]. rewrite Hv. auto.
  Qed.

  (* ---- the delegates of deserialize_numeric_key! ------------------------------------------------------------------------------- *)
  (* [sv]: the key text with its first byte (a digit or `-`) peeked; [st_]: the same inside the quotes *)
  Definition key_delegate (dl : env -> st -> tres (dval * st)) : Prop := forall b K rstk sv st_,
    (is_digit b || (b =? 45)) = true -> bytes_lt K -> rest sv = b :: K -> rest st_ = Lk (b :: K) ++ 34 :: rstk ->
    (forall d s2v, dl Ev sv = TOk (d, s2v) -> rest s2v = [] ->
       exists s2t, dl E st_ = TOk (d, s2t) /\ rest s2t = 34 :: rstk /\ depth s2t = depth st_)
    /\ (forall d s2t r', dl E st_ = TOk (d, s2t) -> rest s2t = 34 :: r' -> exists s2v, dl Ev sv = TOk (d, s2v) /\ rest s2v = [])
    /\ dl Ev sv <> TFuel /\ dl Ev sv <> TPanic.

  Definition pure_visit (visit : pnum -> st -> tres (dval * st)) : Prop := forall p,
    (exists d, forall s, visit p s = TOk (d, s)) \/ (forall s a, visit p s <> TOk a).

  Lemma first_numch b : (is_digit b || (b =? 45)) = true -> numch b = true /\ is_ws b = false.
  Proof. intros H. unfold numch, is_ws, WS_SET, is_digit in *. cbn [existsb]. lia. Qed.

  Lemma Lk_first b K : (is_digit b || (b =? 45)) = true -> Lk (b :: K) = b :: Lk K.
  Proof. intros H. rewrite Lk_cons, (numch_raw b (proj1 (first_numch b H))). reflexivity. Qed.

  Lemma delegate_number visit : pure_visit visit -> (forall p s2, tchk false false (vpost s2) (depth s2) (visit p s2)) ->
    key_delegate (fun E' => deserialize_number E' visit).
  Proof.
    intros Hpure Hchk b K rstk sv st_ Hb HK Hrv Hrt.
    assert (Htot := deserialize_number_chk Ev false false visit sv Hchk).
    assert (Hpost : post_ok (fun '(p, s2) => visit p s2) (fun '(p, s2) => visit p s2)).
    { intros p. destruct (Hpure p) as [(d & Hd)|Hn]; [left; exists d; split; exact Hd|right; split; exact Hn]. }
    destruct sv as [rv ov pv dv], st_ as [rt ot pt dt]. cbn [rest depth] in *. subst rv rt.
    destruct (first_numch b Hb) as [Hnb Hws]. pose proof (Lk_first b K Hb) as HLk.
    split; [|split; [|split; [exact (tchk_no_fuel _ _ _ _ Htot)|exact (tchk_no_panic _ _ _ _ Htot)]]]; clear Htot.
    - intros d s2v. unfold deserialize_number. rewrite HLk. cbn [app].
      rewrite !(TypedInt.parse_whitespace_hd _ b _ _ _ _ Hws). cbn [lift tbind].
      destruct (b =? 45) eqn:H45.
      + change (discard (mkSt (b :: K) ov true dv)) with (mkSt K (S ov) false dv).
        change (discard (mkSt (b :: Lk K ++ 34 :: rstk) ot true dt)) with (mkSt (Lk K ++ 34 :: rstk) (S ot) false dt).
        intros H Hr. apply fix_position_ok in H.
        destruct (proj1 (wrap_ok (fun E' => parse_integer E' false) _ _ K rstk (S ov) false dv (S ot) false dt (core_parse_integer false) Hpost HK) d s2v H Hr)
          as (s2t & Ht & Hrt & Hdt).
        exists s2t. split; [apply fix_position_ok; exact Ht|]. auto.
      + assert (Hd : is_digit b = true) by (destruct (is_digit b); [reflexivity|discriminate Hb]). rewrite Hd.
        replace (b :: Lk K ++ 34 :: rstk) with (Lk (b :: K) ++ 34 :: rstk) by (rewrite HLk; reflexivity).
        intros H Hr. apply fix_position_ok in H.
        destruct (proj1 (wrap_ok (fun E' => parse_integer E' true) _ _ (b :: K) rstk ov true dv ot true dt (core_parse_integer true) Hpost
                           (@Forall_cons N (fun x : N => x < 256) b K (numch_lt b Hnb) HK)) d s2v H Hr) as (s2t & Ht & Hrt & Hdt).
        exists s2t. split; [apply fix_position_ok; exact Ht|]. auto.
    - intros d s2t r'. unfold deserialize_number. rewrite HLk. cbn [app].
      rewrite !(TypedInt.parse_whitespace_hd _ b _ _ _ _ Hws). cbn [lift tbind].
      destruct (b =? 45) eqn:H45.
      + change (discard (mkSt (b :: K) ov true dv)) with (mkSt K (S ov) false dv).
        change (discard (mkSt (b :: Lk K ++ 34 :: rstk) ot true dt)) with (mkSt (Lk K ++ 34 :: rstk) (S ot) false dt).
        intros H Hr. apply fix_position_ok in H.
        destruct (proj2 (wrap_ok (fun E' => parse_integer E' false) _ _ K rstk (S ov) false dv (S ot) false dt (core_parse_integer false) Hpost HK) d s2t r' H Hr)
          as (s2v & Hv & Hrv).
        exists s2v. split; [apply fix_position_ok; exact Hv|]. auto.
      + assert (Hd : is_digit b = true) by (destruct (is_digit b); [reflexivity|discriminate Hb]). rewrite Hd.
        replace (b :: Lk K ++ 34 :: rstk) with (Lk (b :: K) ++ 34 :: rstk) by (rewrite HLk; reflexivity).
        intros H Hr. apply fix_position_ok in H.
        destruct (proj2 (wrap_ok (fun E' => parse_integer E' true) _ _ (b :: K) rstk ov true dv ot true dt (core_parse_integer true) Hpost
                           (@Forall_cons N (fun x : N => x < 256) b K (numch_lt b Hnb) HK)) d s2t r' H Hr) as (s2v & Hv & Hrv).
        exists s2v. split; [apply fix_position_ok; exact Hv|]. auto.
  Qed.

  Lemma pure_visit_int it : pure_visit (visit_int it).
  Proof.
    intros p. unfold visit_int. destruct p as [f|u|i|str].
    - right. discriminate.
    - destruct (in_range it (Z.of_N u)); [left; eexists; reflexivity|right; discriminate].
    - destruct (in_range it i); [left; eexists; reflexivity|right; discriminate].
    - right. discriminate.
  Qed.

  Lemma pure_visit_f64 : pure_visit visit_f64.
  Proof. intros p. unfold visit_f64. destruct p; try (left; eexists; reflexivity). right. discriminate. Qed.

  Lemma post_i128 neg :
    post_ok (fun '(buf, s2) => match parse_i128 neg buf with Some z => TOk (DInt z, s2) | None => lift (error Ev s2 NumberOutOfRange) end)
            (fun '(buf, s2) => match parse_i128 neg buf with Some z => TOk (DInt z, s2) | None => lift (error E s2 NumberOutOfRange) end).
  Proof.
    intros buf. destruct (parse_i128 neg buf) as [z|] eqn:Hz.
    - left. exists (DInt z). split; intros s; cbv beta iota; rewrite ?Hz; reflexivity.
    - right. split; intros s a; cbv beta iota; rewrite ?Hz; discriminate.
  Qed.

  Lemma post_u128 :
    post_ok (fun '(buf, s2) => match parse_u128 buf with Some z => TOk (DInt z, s2) | None => lift (error Ev s2 NumberOutOfRange) end)
            (fun '(buf, s2) => match parse_u128 buf with Some z => TOk (DInt z, s2) | None => lift (error E s2 NumberOutOfRange) end).
  Proof.
    intros buf. destruct (parse_u128 buf) as [z|] eqn:Hz.
    - left. exists (DInt z). split; intros s; cbv beta iota; rewrite ?Hz; reflexivity.
    - right. split; intros s a; cbv beta iota; rewrite ?Hz; discriminate.
  Qed.

  Lemma delegate_i128 : key_delegate deserialize_i128.
  Proof.
    intros b K rstk sv st_ Hb HK Hrv Hrt.
    assert (Htot := deserialize_i128_chk Ev false false sv).
    destruct sv as [rv ov pv dv], st_ as [rt ot pt dt]. cbn [rest depth] in *. subst rv rt.
    destruct (first_numch b Hb) as [Hnb Hws]. pose proof (Lk_first b K Hb) as HLk.
    split; [|split; [|split; [exact (tchk_no_fuel _ _ _ _ Htot)|exact (tchk_no_panic _ _ _ _ Htot)]]]; clear Htot.
    - intros d s2v. unfold deserialize_i128. rewrite HLk. cbn [app].
      rewrite !(TypedInt.parse_whitespace_hd _ b _ _ _ _ Hws). cbn [lift tbind]. cbv zeta.
      destruct (b =? 45) eqn:H45.
      + change (discard (mkSt (b :: K) ov true dv)) with (mkSt K (S ov) false dv).
        change (discard (mkSt (b :: Lk K ++ 34 :: rstk) ot true dt)) with (mkSt (Lk K ++ 34 :: rstk) (S ot) false dt).
        exact (proj1 (wrap_ok scan_integer128 _ _ K rstk (S ov) false dv (S ot) false dt core_scan128 (post_i128 true) HK) d s2v).
      + replace (b :: Lk K ++ 34 :: rstk) with (Lk (b :: K) ++ 34 :: rstk) by (rewrite HLk; reflexivity).
        exact (proj1 (wrap_ok scan_integer128 _ _ (b :: K) rstk ov true dv ot true dt core_scan128 (post_i128 false)
                        (@Forall_cons N (fun x : N => x < 256) b K (numch_lt b Hnb) HK)) d s2v).
    - intros d s2t r'. unfold deserialize_i128. rewrite HLk. cbn [app].
      rewrite !(TypedInt.parse_whitespace_hd _ b _ _ _ _ Hws). cbn [lift tbind]. cbv zeta.
      destruct (b =? 45) eqn:H45.
      + change (discard (mkSt (b :: K) ov true dv)) with (mkSt K (S ov) false dv).
        change (discard (mkSt (b :: Lk K ++ 34 :: rstk) ot true dt)) with (mkSt (Lk K ++ 34 :: rstk) (S ot) false dt).
        exact (proj2 (wrap_ok scan_integer128 _ _ K rstk (S ov) false dv (S ot) false dt core_scan128 (post_i128 true) HK) d s2t r').
      + replace (b :: Lk K ++ 34 :: rstk) with (Lk (b :: K) ++ 34 :: rstk) by (rewrite HLk; reflexivity).
        exact (proj2 (wrap_ok scan_integer128 _ _ (b :: K) rstk ov true dv ot true dt core_scan128 (post_i128 false)
                        (@Forall_cons N (fun x : N => x < 256) b K (numch_lt b Hnb) HK)) d s2t r').
  Qed.

  Lemma delegate_u128 : key_delegate deserialize_u128.
  Proof.
    intros b K rstk sv st_ Hb HK Hrv Hrt.
    assert (Htot := deserialize_u128_chk Ev false false sv).
    destruct sv as [rv ov pv dv], st_ as [rt ot pt dt]. cbn [rest depth] in *. subst rv rt.
    destruct (first_numch b Hb) as [Hnb Hws]. pose proof (Lk_first b K Hb) as HLk.
    split; [|split; [|split; [exact (tchk_no_fuel _ _ _ _ Htot)|exact (tchk_no_panic _ _ _ _ Htot)]]]; clear Htot.
    - intros d s2v. unfold deserialize_u128. rewrite HLk. cbn [app].
      rewrite !(TypedInt.parse_whitespace_hd _ b _ _ _ _ Hws). cbn [lift tbind].
      destruct (b =? 45) eqn:H45; [unfold peek_error, lift; discriminate|].
      replace (b :: Lk K ++ 34 :: rstk) with (Lk (b :: K) ++ 34 :: rstk) by (rewrite HLk; reflexivity).
      exact (proj1 (wrap_ok scan_integer128 _ _ (b :: K) rstk ov true dv ot true dt core_scan128 post_u128
                      (@Forall_cons N (fun x : N => x < 256) b K (numch_lt b Hnb) HK)) d s2v).
    - intros d s2t r'. unfold deserialize_u128. rewrite HLk. cbn [app].
      rewrite !(TypedInt.parse_whitespace_hd _ b _ _ _ _ Hws). cbn [lift tbind].
      destruct (b =? 45) eqn:H45; [unfold peek_error, lift; discriminate|].
      replace (b :: Lk K ++ 34 :: rstk) with (Lk (b :: K) ++ 34 :: rstk) by (rewrite HLk; reflexivity).
      exact (proj2 (wrap_ok scan_integer128 _ _ (b :: K) rstk ov true dv ot true dt core_scan128 post_u128
                      (@Forall_cons N (fun x : N => x < 256) b K (numch_lt b Hnb) HK)) d s2t r').
  Qed.

  Lemma delegate_int it : key_delegate (fun E' => deserialize_int E' it).
  Proof.
    destruct it; first [exact delegate_i128 | exact delegate_u128
                       | exact (delegate_number (visit_int _) (pure_visit_int _) (fun p s2 => visit_int_chk false false _ p s2))].
  Qed.

  Lemma delegate_f64 : key_delegate (fun E' => deserialize_number E' visit_f64).
  Proof. exact (delegate_number visit_f64 pure_visit_f64 (fun p s2 => visit_f64_chk false false p s2)). Qed.

  (* ---- deserialize_numeric_key! on both sides -------------------------------------------------------------------------------------- *)
  Lemma of_text_err {A} text c i : exists c' l k, @of_text A text (TErr c i) = VErr c' l k.
  Proof. unfold of_text. destruct c; try (destruct (pos_of text i) as [ln cl]); do 3 eexists; reflexivity. Qed.

  Lemma numeric_key_agree dl key s rstk : key_delegate dl -> bytes_lt key -> rest s = 34 :: Lk key ++ 34 :: rstk ->
    okrel unborrow (vkey_numeric cf dl key) (numeric_key E (dl E) s) s rstk.
  Proof.
    intros Hdl HK Hr. destruct s as [r0 o p d]. cbn [rest] in Hr. subst r0.
    unfold vkey_numeric, numeric_key. cbv zeta.
    change (discard (mkSt (34 :: Lk key ++ 34 :: rstk) o p d)) with (mkSt (Lk key ++ 34 :: rstk) (S o) false d).
    destruct key as [|b K].
    - cbn [okrel]. intros a. cbn. discriminate.
    - inversion HK as [|? ? Hb256 HK']; subst.
      change (peek Ev (init_st (b :: K))) with (@Ok (option byte * st) (Some b, mkSt (b :: K) 0 true DEPTH0)). cbv iota beta.
      destruct (is_digit b || (b =? 45)) eqn:Hb.
      + pose proof (Lk_first b K Hb) as HLk. rewrite HLk. cbn [app].
        change (peek E (mkSt (b :: Lk K ++ 34 :: rstk) (S o) false d))
          with (@Ok (option byte * st) (Some b, mkSt (b :: Lk K ++ 34 :: rstk) (S o) true d)).
        cbn [lift tbind]. rewrite Hb.
        set (sv := mkSt (b :: K) 0 true DEPTH0). set (st_ := mkSt (b :: Lk K ++ 34 :: rstk) (S o) true d).
        assert (Hst : rest st_ = Lk (b :: K) ++ 34 :: rstk) by (unfold st_; cbn [rest]; rewrite HLk; reflexivity).
        destruct (Hdl b K rstk sv st_ Hb HK' eq_refl Hst) as (D1 & D2 & D3 & D4).
        match goal with |- okrel _ _ ?T _ _ => set (TXT := T) end.
        assert (Hback : forall a, TXT = TOk a -> exists d' s2v, dl Ev sv = TOk (d', s2v) /\ rest s2v = []).
        { intros a Ha. unfold TXT in Ha. destruct (dl E st_) as [[d' s2t]| | | |] eqn:Ht; cbn [tbind] in Ha; try discriminate Ha.
          unfold peek in Ha. destruct (rest s2t) as [|c r'] eqn:Hrt; [cbn in Ha; discriminate Ha|]. cbn [lift tbind] in Ha.
          destruct (c =? 34) eqn:Hc; [|unfold peek_error, lift in Ha; discriminate Ha]. apply N.eqb_eq in Hc. subst c.
          destruct (D2 d' s2t r' eq_refl Hrt) as (s2v & Hv & Hrv). eauto. }
        destruct (dl Ev sv) as [[dv s2v]|c i|k su| |] eqn:Hv.
        * cbn [of_text vbind]. unfold peek at 1. destruct (rest s2v) as [|c r2] eqn:Hr2.
          -- cbn [at_end tm]. cbn [okrel]. destruct (D1 dv s2v eq_refl Hr2) as (s2t & Ht & Hrt & Hdt).
             unfold TXT. rewrite Ht. cbn [tbind]. unfold peek. rewrite Hrt. cbn [lift tbind]. change (34 =? 34) with true. cbv iota.
             exists dv. eexists. split; [reflexivity|]. split; [reflexivity|]. cbn [discard rest depth tl]. rewrite ?Hrt. cbn [tl].
             split; [reflexivity|]. rewrite Hdt. reflexivity.
          -- cbn [okrel]. intros a Ha. destruct (Hback a Ha) as (d' & s2v' & Hv' & Hr'). injection Hv' as _ <-. rewrite Hr2 in Hr'. discriminate Hr'.
        * destruct (@of_text_err (dval * st) (b :: K) c i) as (c' & l & k & He). rewrite He. cbn [vbind okrel].
          intros a Ha. destruct (Hback a Ha) as (d' & s2v' & Hv' & _). discriminate Hv'.
        * cbn [of_text verr vbind okrel]. intros a Ha. destruct (Hback a Ha) as (d' & s2v' & Hv' & _). discriminate Hv'.
        * exfalso. apply D3. reflexivity.
        * exfalso. apply D4. reflexivity.
      + cbn [okrel]. intros a.
        destruct (Lk_head b K Hb256) as (hb & tl0 & Hh & _ & Hcase). rewrite Hh. cbn [app].
        change (peek E (mkSt (hb :: tl0 ++ 34 :: rstk) (S o) false d))
          with (@Ok (option byte * st) (Some hb, mkSt (hb :: tl0 ++ 34 :: rstk) (S o) true d)).
        cbn [lift tbind].
        assert (Hhb : (is_digit hb || (hb =? 45)) = false).
        { destruct Hcase as [[-> _]|[-> _]]; [exact Hb|reflexivity]. }
        rewrite Hhb. unfold error, lift. discriminate.
  Qed.

  (* ---- string-like keys ------------------------------------------------------------------------------------------------------------ *)
  Lemma key_str_read key s rstk : utf8_valid key = true -> rest s = 34 :: Lk key ++ 34 :: rstk ->
    exists bw s2, parse_str E (discard s) = Ok (key, bw, s2) /\ rest s2 = rstk /\ depth s2 = depth s.
  Proof.
    intros Hu Hr. unfold discard. rewrite Hr. cbn [tl]. unfold Lk.
    destruct (parse_str_complete cf (pieces_of key) key rstk (S (off s)) false (depth s)
                (pieces_of_ok key (utf8_valid_bytes key Hu)) (str_text_pieces key Hu)) as (bw & Hp).
    rewrite Hp. eexists. eexists. split; [reflexivity|]. split; reflexivity.
  Qed.

  Lemma beq_bytes_true a : forall b, beq_bytes a b = true -> a = b.
  Proof.
    induction a as [|x a IH]; intros [|y b] H; cbn [beq_bytes] in H; try discriminate H; [reflexivity|].
    apply andb_prop in H as [H1 H2]. apply N.eqb_eq in H1. subst y. rewrite (IH b H2). reflexivity.
  Qed.

  (* ---- bool keys -------------------------------------------------------------------------------------------------------------------- *)
  Lemma key_bool_agree key s rstk : bytes_lt key -> rest s = 34 :: Lk key ++ 34 :: rstk ->
    okrel unborrow (de_value_key cf false KBool key) (key_bool E s) s rstk.
  Proof.
    intros HK Hr. destruct s as [r0 o p d]. cbn [rest] in Hr. subst r0. cbn [de_value_key]. unfold key_bool. cbv zeta.
    change (discard (mkSt (34 :: Lk key ++ 34 :: rstk) o p d)) with (mkSt (Lk key ++ 34 :: rstk) (S o) false d).
    destruct (beq_bytes key lit_true_k) eqn:Ht; [|destruct (beq_bytes key lit_false_k) eqn:Hf].
    - apply beq_bytes_true in Ht. subst key. cbn [okrel].
      change (Lk lit_true_k) with [116; 114; 117; 101]. cbn [app].
      change (peek E (mkSt (116 :: 114 :: 117 :: 101 :: 34 :: rstk) (S o) false d))
        with (@Ok (option byte * st) (Some 116, mkSt (116 :: 114 :: 117 :: 101 :: 34 :: rstk) (S o) true d)).
      cbn [lift tbind]. change (116 =? 116) with true. cbv iota.
      destruct (parse_ident_fwd cf lit_rue_q (discard (mkSt (116 :: 114 :: 117 :: 101 :: 34 :: rstk) (S o) true d)) rstk eq_refl)
        as (s2 & Hid & Hr2 & Hd2).
      rewrite Hid. cbn [lift tbind fix_position]. exists (DBool true), s2. auto.
    - apply beq_bytes_true in Hf. subst key. cbn [okrel].
      change (Lk lit_false_k) with [102; 97; 108; 115; 101]. cbn [app].
      change (peek E (mkSt (102 :: 97 :: 108 :: 115 :: 101 :: 34 :: rstk) (S o) false d))
        with (@Ok (option byte * st) (Some 102, mkSt (102 :: 97 :: 108 :: 115 :: 101 :: 34 :: rstk) (S o) true d)).
      cbn [lift tbind]. change (102 =? 116) with false. change (102 =? 102) with true. cbv iota.
      destruct (parse_ident_fwd cf lit_alse_q (discard (mkSt (102 :: 97 :: 108 :: 115 :: 101 :: 34 :: rstk) (S o) true d)) rstk eq_refl)
        as (s2 & Hid & Hr2 & Hd2).
      rewrite Hid. cbn [lift tbind fix_position]. exists (DBool false), s2. auto.
    - cbn [okrel verr]. intros a Ha.
      unfold peek in Ha. cbn [rest] in Ha.
      destruct (Lk key ++ 34 :: rstk) as [|hb tl0] eqn:Hl; [destruct (Lk key); discriminate Hl|].
      cbn [lift tbind off depth] in Ha. apply fix_position_ok in Ha.
      destruct (hb =? 116) eqn:H116; [|destruct (hb =? 102) eqn:H102].
      + apply tbl_ok in Ha as (s2 & Hid & _). apply parse_ident_inv in Hid as [Hid _]. cbn [discard rest tl] in Hid.
        apply N.eqb_eq in H116. subst hb.
        assert (Heq : Lk key ++ 34 :: rstk = [116; 114; 117; 101] ++ 34 :: rest s2) by (rewrite Hl, Hid; reflexivity).
        destruct (Lk_exact [116; 114; 117; 101] key rstk (rest s2) HK eq_refl Heq) as [-> _]. discriminate Ht.
      + apply tbl_ok in Ha as (s2 & Hid & _). apply parse_ident_inv in Hid as [Hid _]. cbn [discard rest tl] in Hid.
        apply N.eqb_eq in H102. subst hb.
        assert (Heq : Lk key ++ 34 :: rstk = [102; 97; 108; 115; 101] ++ 34 :: rest s2) by (rewrite Hl, Hid; reflexivity).
        destruct (Lk_exact [102; 97; 108; 115; 101] key rstk (rest s2) HK eq_refl Heq) as [-> _]. discriminate Hf.
      + destruct (parse_str E (mkSt (hb :: tl0) (S o) true d)) as [[[x1 x2] x3]| | |]; cbn [lift tbind] in Ha; discriminate Ha.
  Qed.

  (* ---- every key type but f32 ------------------------------------------------------------------------------------------------------ *)
  Fixpoint agree_kty (k : kty) : bool :=
    match k with
    | KF32 => false
    | KOption k1 | KNewtype k1 => agree_kty k1
    | _ => true
    end.

  Lemma de_key_S f k s : de_key (S f) E k s =
    match k with
    | KStr => let^ (str, borrowed, s2) := parse_str E (discard s) in visit_string str borrowed s2
    | KChar => let^ (str, borrowed, s2) := parse_str E (discard s) in visit_char str borrowed s2
    | KInt it => numeric_key E (deserialize_int E it) s
    | KF32 => numeric_key E (deserialize_f32 E) s
    | KF64 => numeric_key E (deserialize_number E visit_f64) s
    | KBool => key_bool E s
    | KOption k1 => tmap DSome (de_key f E k1 s)
    | KNewtype k1 => tmap DNewtype (de_key f E k1 s)
    | KUnitEnum names =>
      let vs := map (fun n => (n, tt)) names in
      deserialize_enum E
        (fun s' => TPanic)
        (fun s' => let+ (name, _, s2) := deserialize_str E (visit_variant vs) s' in TOk (DVariant name DUnit, s2))
        s
    end.
  Proof. reflexivity. Qed.

  Theorem key_agree : forall k key fuel s rstk, agree_kty k = true -> utf8_valid key = true ->
    rest s = 34 :: Lk key ++ 34 :: rstk -> (kty_depth k <= fuel)%nat ->
    okrel unborrow (de_value_key cf false k key) (de_key fuel E k s) s rstk.
  Proof.
    induction k as [|it| | | | |k1 IH|k1 IH|names]; intros key fuel s rstk Hk Hu Hr Hf;
      (destruct fuel as [|f]; [cbn [kty_depth] in Hf; lia|]); rewrite de_key_S; cbn [de_value_key].
    - (* KStr *) destruct (key_str_read key s rstk Hu Hr) as (bw & s2 & Hp & Hr2 & Hd2). rewrite Hp. cbn [lift tbind].
      unfold visit_string. cbn [of_visit okrel]. exists (DStr key bw), s2. auto.
    - (* KInt *) apply (numeric_key_agree (fun E' => deserialize_int E' it)); [apply delegate_int|apply Utf8Lemmas.utf8_valid_bytes, Hu|exact Hr].
    - (* KBool *) apply key_bool_agree; [apply Utf8Lemmas.utf8_valid_bytes, Hu|exact Hr].
    - (* KChar *) destruct (key_str_read key s rstk Hu Hr) as (bw & s2 & Hp & Hr2 & Hd2). rewrite Hp. cbn [lift tbind].
      unfold visit_char. destruct (one_scalar key) as [ch|]; cbn [of_visit okrel verr]; [|discriminate].
      exists (DChar ch), s2. auto.
    - (* KF32 *) discriminate Hk.
    - (* KF64 *) apply (numeric_key_agree (fun E' => deserialize_number E' visit_f64)); [apply delegate_f64|apply Utf8Lemmas.utf8_valid_bytes, Hu|exact Hr].
    - (* KOption *) apply okrel_map; [intros a b' Hab; cbn [unborrow]; rewrite Hab; reflexivity|].
      apply IH; try assumption. cbn [kty_depth] in Hf. lia.
    - (* KNewtype *) apply okrel_map; [intros a b' Hab; cbn [unborrow]; rewrite Hab; reflexivity|].
      apply IH; try assumption. cbn [kty_depth] in Hf. lia.
    - (* KUnitEnum *) cbv zeta. set (vs := map (fun n => (n, tt)) names).
      destruct (pws_head cf s [] 34 (Lk key ++ 34 :: rstk) eq_refl eq_refl Hr) as (s1 & Hpw & Hr1 & Hd1).
      unfold deserialize_enum. rewrite Hpw. cbn [lift tbind]. change (34 =? 123) with false. change (34 =? 34) with true. cbv iota.
      destruct (str_accept cf (visit_variant vs) (pieces_of key) key s1 [] rstk
                  (pieces_of_ok key (utf8_valid_bytes key Hu)) (str_text_pieces key Hu) eq_refl) as (bw & s2 & Hds & Hr2 & Hd2).
      { rewrite Hr1. unfold render_str, Lk. cbn [app]. rewrite <- app_assoc. reflexivity. }
      rewrite Hds. unfold visit_variant. destruct (index_of key vs) as [[i a]|]; cbn [of_visit1 vbind fix_position tbind okrel verr].
      + exists (DVariant key DUnit), s2. split; [reflexivity|]. split; [reflexivity|]. split; [exact Hr2|congruence].
      + discriminate.
  Qed.
End Keys.

Print Assumptions key_agree.
