(* Proofs/PointerEqSrc.v — the routing of Model/Pointer.v ([eq_int]: signed comparands through eq_i64, unsigned through eq_u64) IS the grouping of
   `partialeq_numeric!` in src/value/partial_eq.rs as translated on this run (Gen/EqTables.v). *)
From SJ Require Import Base.Bytes Model.Value Model.Pointer Gen.EqTables.

Definition eqty_of (t : ity) : eqty :=
  match t with
  | I8 => T_i8 | I16 => T_i16 | I32 => T_i32 | I64 => T_i64 | Isize => T_isize
  | U8 => T_u8 | U16 => T_u16 | U32 => T_u32 | U64 => T_u64 | Usize => T_usize
  end.

Theorem eq_routing_is_source : forall t v other,
  eq_int t v other = match EQ_GROUP (eqty_of t) with
                     | G_i64 => eq_i64 v other
                     | G_u64 => eq_u64 v (Z.to_N other)
                     | _ => false
                     end.
Proof. intros t v other; destruct t; reflexivity. Qed.

Theorem eq_routing_floats_bool : EQ_GROUP T_f32 = G_f32 /\ EQ_GROUP T_f64 = G_f64 /\ EQ_GROUP T_bool = G_bool.
Proof. repeat split. Qed.
Print Assumptions eq_routing_is_source.
