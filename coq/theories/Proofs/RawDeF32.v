(* Proofs/RawDeF32.v — the failure half of the "recognizer" property for the single-precision number parser
   [NumF32.parse_integer_s] (float_roundtrip builds, f32 targets), and the soundness statements that follow for both
   number parsers: a successful run has consumed exactly one well-formed number literal.

   Proofs/TypedRoundtripF32.v proves the success half ([parse_integer_s_recognizes]); the failure half below replays
   GrammarNum.parse_integer_recognizer's second part for the _s functions (same control flow).
   Used by Proofs/RawDeProps.v for map keys of a numeric type (the parser runs inside a string literal there, so the
   text is not a number node of the syntax tree and the "forward" lemmas of RawDeBase.v do not apply). *)
From Coq Require Import Lia ZifyBool ZifyNat ZifyN.
From SJ Require Import Base.Bytes Base.Utf8 Base.FloatB Gen.Tables Model.Read Model.Str Model.Num Model.NumF32 Model.Value Model.De
  Spec.Syntax Spec.Denote Proofs.GrammarNum Proofs.TypedRoundtripF32.
Open Scope N_scope.

Section RunS.
Variable E : env.
Hypothesis HE : tm E = TEof.

Lemma parse_integer_s_noint : forall positive l o p d, nd l -> noOk (parse_integer_s E positive (mkSt l o p d)).
Proof.
  intros positive [|c l] o p d Hl; unfold parse_integer_s.
  - rewrite (next_nil E HE). cbn [bind]. apply noOk_err.
  - rewrite next_cons. cbn [bind]. cbv beta iota. unfold nd in Hl. cbn [hd] in Hl.
    assert (H48 : (c =? 48) = false) by (unfold is_digit in Hl; lia).
    assert (H19 : is_digit19 c = false) by (unfold is_digit, is_digit19 in *; lia).
    rewrite H48, H19. apply noOk_err.
Qed.

Lemma parse_integer_s_lead0 : forall positive r o p d, is_digit (hd 0 r) = true ->
  noOk (parse_integer_s E positive (mkSt (48 :: r) o p d)).
Proof.
  intros positive r o p d Hr. unfold parse_integer_s. rewrite next_cons. cbn [bind]. cbv beta iota.
  change (48 =? 48) with true. cbv iota. rewrite (peek_or_null_mk E HE). cbn [bind]. cbv beta iota. rewrite Hr. apply noOk_err.
Qed.

Lemma parse_long_decimal_s_bad : forall positive i r o p d, nd r -> noOk (parse_long_decimal_s E positive i [] (mkSt r o p d)).
Proof.
  intros positive i r o p d Hr. unfold parse_long_decimal_s. cbn [rest].
  rewrite (span_nd r Hr). cbn [firstn app]. rewrite advance_mk, (peek_or_null_mk E HE). cbn [bind]. cbv beta iota.
  unfold pkd. rewrite (peek_mk E HE). cbn [bind]. cbv beta iota. destruct (hd_error (skipn 0 r)); apply noOk_err.
Qed.

Lemma parse_decimal_s_bad : forall positive sg e r o p d, nd r -> noOk (parse_decimal_s E positive sg e (mkSt (46 :: r) o p d)).
Proof.
  intros positive sg e r o p d Hr. unfold parse_decimal_s. rewrite discard_mk. cbn [tl rest].
  rewrite (sig_loop_nd r sg Hr). rewrite advance_mk, (peek_or_null_mk E HE). cbn [bind]. cbv beta iota. cbn [Nat.eqb].
  unfold pkd. rewrite (peek_mk E HE). cbn [bind]. cbv beta iota. destruct (hd_error (skipn 0 r)); apply noOk_err.
Qed.

Lemma k2s_exp_bad : forall positive k r off d, is_e (hd 0 r) = true -> exp_bad r -> noOk (run_k2s E positive k (pkd r off d)).
Proof.
  intros positive [sg0 e0|i f] r off d He Hb; unfold run_k2s; cbv zeta; rewrite rest_pkd, He.
  - rewrite parse_exponent_s_eq. apply (after_exp_bad E HE), Hb.
  - rewrite parse_long_exponent_s_eq. apply (after_exp_bad E HE), Hb.
Qed.

Lemma k1s_dec_bad : forall positive k r o d, nd r -> noOk (run_k1s E positive k (pkd (46 :: r) o d)).
Proof.
  intros positive [sg|sg e|i] r o d Hr; unfold run_k1s; cbv zeta.
  - rewrite (parse_number_s_unfold E HE). cbv zeta. cbn [hd]. change (46 =? 46) with true. cbv iota.
    apply noOk_wrapF. unfold pkd. apply parse_decimal_s_bad, Hr.
  - rewrite rest_pkd. cbn [hd]. change (46 =? 46) with true. cbv iota.
    apply noOk_wrapF. unfold pkd. apply parse_decimal_s_bad, Hr.
  - rewrite rest_pkd. cbn [hd]. change (46 =? 46) with true. cbv iota.
    apply noOk_wrapF. unfold pkd. rewrite discard_mk. cbn [tl]. apply parse_long_decimal_s_bad, Hr.
Qed.

Theorem parse_integer_s_recognizer : forall positive, recognizer (parse_integer_s E positive).
Proof.
  intros positive. split.
  - intros n Hok. exact (parse_integer_s_recognizes E HE positive n Hok).
  - intros l off p d Hb. destruct Hb as [l Hl|r Hr|int r Hint Hr|int r Hint He Hb|int ds r Hint Hd Hne He Hb].
    + apply parse_integer_s_noint, Hl.
    + apply parse_integer_s_lead0, Hr.
    + destruct (parse_integer_s_good E HE positive int Hint) as (k & Hk & Hrun1).
      rewrite (Hrun1 _ off p d (nd_dot _)). apply k1s_dec_bad, Hr.
    + destruct (parse_integer_s_good E HE positive int Hint) as (k & Hk & Hrun1).
      rewrite (Hrun1 _ off p d (e_nd _ He)), (k1s_exp E HE) by exact He. apply noOk_wrapF, k2s_exp_bad; assumption.
    + destruct (parse_integer_s_good E HE positive int Hint) as (k & Hk & Hrun1).
      destruct (k1s_dec E HE positive k ds Hk Hd Hne) as (k' & Hrun2).
      rewrite (Hrun1 _ off p d (nd_dot _)), (Hrun2 _ _ d (e_nd _ He)). apply noOk_wrapF, k2s_exp_bad; assumption.
Qed.

(* a recognizer that succeeds has read one well-formed literal (sign excluded) and nothing else *)
Lemma recognizer_sound (P : st -> res (pnum * st)) : recognizer P -> forall s0 p s1, P s0 = Ok (p, s1) ->
  exists n, num_ok n = true /\ rest s0 = render_abs n ++ rest s1.
Proof.
  intros (Hg & Hb) [l off0 pk0 d0] p s1 Hrun.
  destruct (num_shape_total false l) as [Hbad|(n & r & Hneg & Hok & -> & Hfw)].
  - exfalso. exact (Hb l off0 pk0 d0 Hbad _ Hrun).
  - destruct (Hg n Hok) as (o & Ho). pose proof (Ho r off0 pk0 d0 Hfw) as Hemb.
    destruct o as [p'|]; cbn [fin] in Hemb.
    + rewrite Hemb in Hrun. injection Hrun as _ <-. exists n. split; [exact Hok|reflexivity].
    + destruct Hemb as [i Hi]. rewrite Hi in Hrun. discriminate Hrun.
Qed.

Theorem parse_integer_sound : forall positive s0 p s1, parse_integer E positive s0 = Ok (p, s1) ->
  exists n, num_ok n = true /\ rest s0 = render_abs n ++ rest s1.
Proof. intros positive. apply recognizer_sound, (parse_integer_recognizer E HE). Qed.

Theorem parse_integer_s_sound : forall positive s0 p s1, parse_integer_s E positive s0 = Ok (p, s1) ->
  exists n, num_ok n = true /\ rest s0 = render_abs n ++ rest s1.
Proof. intros positive. apply recognizer_sound, parse_integer_s_recognizer. Qed.

End RunS.

Print Assumptions parse_integer_s_recognizer.
