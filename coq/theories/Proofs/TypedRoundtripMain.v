(* Proofs/TypedRoundtripMain.v — C04 (typed half), part 3: the typed deserializer reads [txt t d] back to [d].

   One induction on fuel over the mutually recursive functions of Model/DeTyped.v, in the style "either out of fuel
   or the right answer" ([okf]); the fuel question is settled at the end by Proofs/TypedTotal.v ([de_typed_no_fuel]:
   [typed_fuel] always suffices).  Levels covered (all of them; see [in_universe] in Model/SerTyped.v):
     (a) bool, the twelve integer types, unit, unit struct, char, String, &str (escape-free), Option, newtype struct
     (b) Vec, tuples, tuple structs
     (c) maps with string / integer / bool / char keys (and newtype wrappers of those), structs by name
     (d) enums: unit, newtype, tuple and struct variants
     (e) f32 / f64 — under the per-leaf hypothesis [float_ok] (the printed text of this float reads back as this float;
         discharged from hypotheses on ryu in Proofs/TypedRoundtripFloat.v)                                            *)
From SJ Require Import Base.Bytes Base.Utf8 Base.FloatB Gen.Tables Model.Read Model.Str Model.Num Model.NumF32 Model.Value Model.De
  Model.Ignore Model.Sval Model.Ser Model.Ty Model.SerTyped Spec.Syntax Spec.Denote Spec.Layout
  Proofs.NumInt Proofs.GrammarValueBase Proofs.StrEscape Proofs.TypedInt Proofs.TypedRk Proofs.TypedTotal
  Proofs.TypedRoundtripTxt Proofs.TypedRoundtripBase.
From SJ Require Import Model.DeTyped.
From Coq Require Import Lia ZifyBool ZifyNat ZifyN.
Open Scope N_scope.

(* ------------------------------------------------------------------------------------------ *)
(** * Lists *)
Lemma maxl_cons a l : maxl (a :: l) = Nat.max a (maxl l).
Proof. reflexivity. Qed.

Lemma beq_bytes_refl a : beq_bytes a a = true.
Proof. induction a as [|x a IH]; [reflexivity|]. cbn [beq_bytes]. rewrite N.eqb_refl. exact IH. Qed.

Lemma beq_bytes_sym a b : beq_bytes a b = beq_bytes b a.
Proof.
  destruct (beq_bytes a b) eqn:H1.
  - apply beq_bytes_eq in H1. subst b. symmetry. apply beq_bytes_refl.
  - destruct (beq_bytes b a) eqn:H2; [|reflexivity]. apply beq_bytes_eq in H2. subst b. rewrite beq_bytes_refl in H1. discriminate H1.
Qed.

Lemma index_of_app_skip {A} n (pre post : list (bytes * A)) :
  existsb (beq_bytes n) (map fst pre) = false ->
  index_of n (pre ++ post) = match index_of n post with Some (i, a) => Some ((length pre + i)%nat, a) | None => None end.
Proof.
  induction pre as [|[n0 a0] pre IH]; intros H; cbn [app length].
  - destruct (index_of n post) as [[i a]|]; reflexivity.
  - cbn [map fst existsb] in H. apply orb_false_iff in H as [H0 H]. cbn [index_of]. rewrite H0, (IH H).
    destruct (index_of n post) as [[i a]|]; reflexivity.
Qed.

Lemma nodup_mid {A} n (a : A) (pre post : list (bytes * A)) :
  nodupb (map fst (pre ++ (n, a) :: post)) = true -> existsb (beq_bytes n) (map fst pre) = false.
Proof.
  induction pre as [|[n0 a0] pre IH]; intros H; [reflexivity|].
  cbn [app map fst nodupb] in H. apply andb_prop in H as [H0 H]. cbn [map fst existsb]. rewrite (IH H), orb_false_r.
  rewrite map_app, existsb_app in H0. cbn [map fst existsb] in H0.
  destruct (beq_bytes n n0) eqn:Hb; [|reflexivity]. rewrite beq_bytes_sym in Hb. rewrite Hb in H0.
  rewrite orb_true_l, orb_true_r in H0. discriminate H0.
Qed.

Lemma slot_filled_mid (dd : list dval) X : slot_filled (length dd) (map Some dd ++ None :: X) = false.
Proof.
  unfold slot_filled. rewrite app_nth2 by (rewrite map_length; lia). rewrite map_length, Nat.sub_diag. reflexivity.
Qed.

Lemma set_slot_mid (dd : list dval) d X : set_slot (length dd) d (map Some dd ++ None :: X) = map Some (dd ++ [d]) ++ X.
Proof. induction dd as [|x dd IH]; [reflexivity|]. cbn [length map app set_slot]. rewrite IH. reflexivity. Qed.

Lemma finish_struct_full s : forall (fields : list (bytes * ty)) (dd : list dval), length dd = length fields ->
  finish_struct fields (map Some dd) s = TOk dd.
Proof.
  induction fields as [|[n t] fields IH]; intros dd H; destruct dd as [|d dd]; try discriminate H; [reflexivity|].
  cbn [map finish_struct]. rewrite IH by (injection H as H; exact H). reflexivity.
Qed.

Lemma tfollow_items xs tl c : c = 93 \/ c = 125 -> tfollow (items false xs ++ c :: tl).
Proof. intros Hc. destruct xs as [|x xs]; cbn [items app tfollow]; [destruct Hc; auto|auto]. Qed.

Lemma zipw_andl_impl {A} (f g : A -> dval -> bool) l : Forall (fun x => forall a, f a x = true -> g a x = true) l ->
  forall la, andl (zipw f la l) = true -> andl (zipw g la l) = true.
Proof.
  induction 1 as [|x l Hx _ IH]; intros la H; destruct la as [|a la]; rewrite ?zipw_nil_l, ?zipw_nil_r in *; try reflexivity.
  rewrite zipw_cons, andl_cons in H. rewrite zipw_cons, andl_cons. apply andb_prop in H as [H1 H2]. rewrite (Hx a H1), (IH la H2). reflexivity.
Qed.

Lemma zipw_fixed {A} (h : A -> dval -> dval) (p q : A -> dval -> bool) l :
  Forall (fun x => forall a, p a x = true -> q a x = true -> h a x = x) l ->
  forall la, length la = length l -> andl (zipw p la l) = true -> andl (zipw q la l) = true -> zipw h la l = l.
Proof.
  induction 1 as [|x l Hx _ IH]; intros la HL Hp Hq; destruct la as [|a la]; try discriminate HL; [reflexivity|].
  rewrite zipw_cons, andl_cons in Hp, Hq. rewrite zipw_cons. apply andb_prop in Hp as [Hp1 Hp2]. apply andb_prop in Hq as [Hq1 Hq2].
  injection HL as HL. rewrite (Hx a Hp1 Hq1), (IH la HL Hp2 Hq2). reflexivity.
Qed.

(* the exclusion of property C04 implies the &str condition ... *)
Lemma safe_str_safe : forall d t, roundtrip_safe t d = true -> str_safe t d = true.
Proof.
  induction d as [d Hl|d IH|d IH|l IH|l IH|l IH|n p IHp IHl] using dval_ind'; intros t H.
  - destruct d; try contradiction Hl; destruct t; try reflexivity; exact H.
  - destruct t; try reflexivity. cbn [roundtrip_safe str_safe] in *. apply andb_prop in H as [_ H]. exact (IH t H).
  - destruct t; try reflexivity. cbn [roundtrip_safe str_safe] in *. exact (IH t H).
  - destruct t; try reflexivity; cbn [roundtrip_safe str_safe] in *.
    + induction IH as [|x l Hx _ IHl]; [reflexivity|]. cbn [forallb] in *. apply andb_prop in H as [H1 H2].
      rewrite (Hx t H1), (IHl H2). reflexivity.
    + exact (zipw_andl_impl _ _ l IH ts H).
    + exact (zipw_andl_impl _ _ l IH ts H).
  - destruct t; try reflexivity; cbn [roundtrip_safe str_safe] in *.
    induction IH as [|[kd vd] l [_ Hx] _ IHl]; [reflexivity|]. cbn [forallb snd] in *. apply andb_prop in H as [H1 H2].
    rewrite (Hx t H1), (IHl H2). reflexivity.
  - destruct t; try reflexivity; cbn [roundtrip_safe str_safe] in *.
    refine (zipw_andl_impl (fun f0 x => roundtrip_safe (snd f0) x) (fun f0 x => str_safe (snd f0) x) l _ fields H).
    eapply Forall_impl; [|exact IH]. intros x Hx a. apply Hx.
  - destruct t; try reflexivity; cbn [roundtrip_safe str_safe] in *.
    destruct (index_of n variants) as [[i v]|]; [|reflexivity]. destruct v as [|t1|ts|fs]; [reflexivity|exact (IHp t1 H)| |].
    + destruct p; try reflexivity. exact (zipw_andl_impl _ _ l IHl ts H).
    + destruct p; try reflexivity.
      refine (zipw_andl_impl (fun f0 x => roundtrip_safe (snd f0) x) (fun f0 x => str_safe (snd f0) x) l _ fs H).
      eapply Forall_impl; [|exact IHl]. intros x Hx a. apply Hx.
Qed.

(* ... and that nothing is changed by reading back *)
Lemma norm_id : forall d t, has_type t d = true -> roundtrip_safe t d = true -> norm t d = d.
Proof.
  induction d as [d Hl|d IH|d IH|l IH|l IH|l IH|n p IHp IHl] using dval_ind'; intros t HT H.
  - destruct d; try contradiction Hl; destruct t; reflexivity.
  - destruct t; try reflexivity. cbn [has_type roundtrip_safe norm] in *. apply andb_prop in H as [Hn H].
    destruct (prints_null t d); [discriminate Hn|]. rewrite (IH t HT H). reflexivity.
  - destruct t; try reflexivity. cbn [has_type roundtrip_safe norm] in *. rewrite (IH t HT H). reflexivity.
  - destruct t; try reflexivity; cbn [has_type roundtrip_safe norm] in *.
    + f_equal. induction IH as [|x l Hx _ IHl]; [reflexivity|]. cbn [forallb map] in *.
      apply andb_prop in H as [H1 H2]. apply andb_prop in HT as [HT1 HT2]. rewrite (Hx t HT1 H1), (IHl HT2 H2). reflexivity.
    + apply andb_prop in HT as [HL HT]. apply Nat.eqb_eq in HL. f_equal.
      exact (zipw_fixed _ (fun t0 x => has_type t0 x) (fun t0 x => roundtrip_safe t0 x) l IH ts HL HT H).
    + apply andb_prop in HT as [HL HT]. apply Nat.eqb_eq in HL. f_equal.
      exact (zipw_fixed _ (fun t0 x => has_type t0 x) (fun t0 x => roundtrip_safe t0 x) l IH ts HL HT H).
  - destruct t; try reflexivity; cbn [has_type roundtrip_safe norm] in *. f_equal.
    induction IH as [|[kd vd] l [_ Hx] _ IHl]; [reflexivity|]. cbn [forallb map snd] in *.
    apply andb_prop in H as [H1 H2]. apply andb_prop in HT as [HT1 HT2]. apply andb_prop in HT1 as [_ HT1].
    rewrite (Hx t HT1 H1), (IHl HT2 H2). reflexivity.
  - destruct t; try reflexivity; cbn [has_type roundtrip_safe norm] in *.
    apply andb_prop in HT as [HL HT]. apply Nat.eqb_eq in HL. f_equal.
    refine (zipw_fixed (fun f0 x => norm (snd f0) x) (fun f0 x => has_type (snd f0) x) (fun f0 x => roundtrip_safe (snd f0) x) l _ fields HL HT H).
    eapply Forall_impl; [|exact IH]. intros x Hx a. apply Hx.
  - destruct t; try reflexivity; cbn [has_type roundtrip_safe norm] in *.
    destruct (index_of n variants) as [[i v]|]; [|reflexivity]. destruct v as [|t1|ts|fs]; [reflexivity|rewrite (IHp t1 HT H); reflexivity| |].
    + destruct p; try reflexivity. apply andb_prop in HT as [HL HT]. apply Nat.eqb_eq in HL. do 2 f_equal.
      exact (zipw_fixed _ (fun t0 x => has_type t0 x) (fun t0 x => roundtrip_safe t0 x) l IHl ts HL HT H).
    + destruct p; try reflexivity. apply andb_prop in HT as [HL HT]. apply Nat.eqb_eq in HL. do 2 f_equal.
      refine (zipw_fixed (fun f0 x => norm (snd f0) x) (fun f0 x => has_type (snd f0) x) (fun f0 x => roundtrip_safe (snd f0) x) l _ fs HL HT H).
      eapply Forall_impl; [|exact IHl]. intros x Hx a. apply Hx.
Qed.

(* ------------------------------------------------------------------------------------------ *)
(** * The statement's vocabulary *)
Section Main.
  Variable cf : cfg.
  Variable fmt32 fmt64 : N -> bytes.
  Notation E := (mkEnv RSlice TEof cf).
  Notation txt := (txt fmt32 fmt64).
  Notation key_txt := (key_txt fmt32 fmt64).

  (* a number text starts with a digit or a minus sign *)
  Definition num_head (t : bytes) : Prop := exists c r, t = c :: r /\ (is_digit c = true \/ c = 45).

  (* per-leaf float hypotheses: the float is finite and its printed text, wherever it stands in compact output, reads back
     through the typed deserializer as the same float *)
  Definition reads_f64 (b : N) : Prop :=
    f64_finite_bits b = true /\ num_head (fmt64 b) /\
    forall s tl, rest s = fmt64 b ++ tl -> tfollow tl -> reads (deserialize_number E visit_f64 s) (DFloat b) s tl.
  Definition reads_f32 (b : N) : Prop :=
    f32_finite_bits (f32_bits_of_f64_bits b) = true /\ num_head (fmt32 (f32_bits_of_f64_bits b)) /\
    forall s tl, rest s = fmt32 (f32_bits_of_f64_bits b) ++ tl -> tfollow tl -> reads (deserialize_f32 E s) (DFloat b) s tl.
  Definition float_ok (p : bool * N) : Prop := if fst p then reads_f32 (snd p) else reads_f64 (snd p).
  Definition floats_ok (t : ty) (d : dval) : Prop := Forall float_ok (float_leaves t d).

  Definition good (t : ty) (d : dval) : Prop :=
    in_universe t = true /\ has_type t d = true /\ str_safe t d = true /\ floats_ok t d.

  (* ---- inversion of [good] ---- *)
  Lemma good_some t d : good (TOption t) (DSome d) -> good t d.
  Proof. intros (HU & HT & HS & HF). repeat split; assumption. Qed.
  Lemma good_newtype t d : good (TNewtype t) (DNewtype d) -> good t d.
  Proof. intros (HU & HT & HS & HF). repeat split; assumption. Qed.

  Lemma good_list t l : in_universe t = true -> forallb (fun x => has_type t x) l = true ->
    forallb (fun x => str_safe t x) l = true -> Forall float_ok (concat (map (fun x => float_leaves t x) l)) ->
    Forall (good t) l.
  Proof.
    intros HU. induction l as [|x l IH]; intros HT HS HF; [constructor|]. cbn [forallb map concat] in *.
    apply andb_prop in HT as [HT1 HT]. apply andb_prop in HS as [HS1 HS]. apply Forall_app in HF as [HF1 HF].
    constructor; [repeat split; assumption|exact (IH HT HS HF)].
  Qed.

  Lemma good_zip : forall ts l, forallb in_universe ts = true -> length ts = length l ->
    andl (zipw (fun t0 x => has_type t0 x) ts l) = true -> andl (zipw (fun t0 x => str_safe t0 x) ts l) = true ->
    Forall float_ok (concat (zipw (fun t0 x => float_leaves t0 x) ts l)) -> Forall2 good ts l.
  Proof.
    induction ts as [|t ts IH]; intros l HU HL HT HS HF; destruct l as [|x l]; try discriminate HL; [constructor|].
    rewrite !zipw_cons in *. rewrite !andl_cons in *. cbn [forallb concat] in *. injection HL as HL.
    apply andb_prop in HU as [HU1 HU]. apply andb_prop in HT as [HT1 HT]. apply andb_prop in HS as [HS1 HS].
    apply Forall_app in HF as [HF1 HF]. constructor; [repeat split; assumption|exact (IH l HU HL HT HS HF)].
  Qed.

  Definition goodf (f : bytes * ty) (x : dval) : Prop := utf8_valid (fst f) = true /\ good (snd f) x.

  Lemma good_fields : forall (fs : list (bytes * ty)) l,
    forallb (fun f => utf8_valid (fst f) && in_universe (snd f)) fs = true -> length fs = length l ->
    andl (zipw (fun f x => has_type (snd f) x) fs l) = true -> andl (zipw (fun f x => str_safe (snd f) x) fs l) = true ->
    Forall float_ok (concat (zipw (fun f x => float_leaves (snd f) x) fs l)) -> Forall2 goodf fs l.
  Proof.
    induction fs as [|[n t] fs IH]; intros l HU HL HT HS HF; destruct l as [|x l]; try discriminate HL; [constructor|].
    rewrite !zipw_cons in *. rewrite !andl_cons in *. cbn [forallb concat fst snd] in *. injection HL as HL.
    apply andb_prop in HU as [HU1 HU]. apply andb_prop in HU1 as [Hn HU1]. apply andb_prop in HT as [HT1 HT].
    apply andb_prop in HS as [HS1 HS]. apply Forall_app in HF as [HF1 HF].
    constructor; [split; [exact Hn|repeat split; assumption]|exact (IH l HU HL HT HS HF)].
  Qed.

  Definition goode (k : kty) (v : ty) (kv : dval * dval) : Prop := key_has_type k (fst kv) = true /\ good v (snd kv).

  Lemma good_entries k v l : in_universe v = true ->
    forallb (fun kv : dval * dval => let '(kd, vd) := kv in key_has_type k kd && has_type v vd) l = true ->
    forallb (fun kv : dval * dval => let '(_, vd) := kv in str_safe v vd) l = true ->
    Forall float_ok (concat (map (fun kv : dval * dval => let '(_, vd) := kv in float_leaves v vd) l)) ->
    Forall (goode k v) l.
  Proof.
    intros HU. induction l as [|[kd vd] l IH]; intros HT HS HF; [constructor|]. cbn [forallb map concat] in *.
    apply andb_prop in HT as [HT1 HT]. apply andb_prop in HT1 as [HK HT1]. apply andb_prop in HS as [HS1 HS].
    apply Forall_app in HF as [HF1 HF]. constructor; [split; [exact HK|repeat split; assumption]|exact (IH HT HS HF)].
  Qed.

  (* ---- the first byte of a value's text ---- *)
  Lemma txt_head : forall d t, in_universe t = true -> has_type t d = true -> floats_ok t d ->
    exists b r, txt t d = b :: r /\ ws_byte b = false /\ b <> 93 /\ (b = 110 -> prints_null t d = true).
  Proof.
    induction d as [| | | | | | | | | | |d IH|d IH| | | |n p IH]; intros t HU HT HF;
      destruct t; cbn [in_universe] in HU; try discriminate HU; cbn [has_type] in HT; try discriminate HT; cbn [txt prints_null].
    - (* bool *) destruct b; do 2 eexists; (split; [reflexivity|]); (split; [reflexivity|]); split; discriminate.
    - (* int *)
      destruct (zdigits_ok t z HT) as (Hok & _ & _). rewrite itoa_z_lit. unfold int_lit. destruct (zneg z); cbn [app].
      + do 2 eexists. split; [reflexivity|]. split; [reflexivity|]. split; discriminate.
      + destruct (int_ok_hd _ Hok) as (c & r & -> & Hc). exists c, r. split; [reflexivity|]. unfold is_digit, ws_byte in *. lia.
    - (* f32 *)
      unfold floats_ok in HF. cbn [float_leaves] in HF. inversion HF as [|? ? Hfo _]; subst. unfold float_ok in Hfo. cbn [fst snd] in Hfo.
      destruct Hfo as (Hfin & (c & r & Hc & Hd) & _). rewrite Hfin, Hc. exists c, r. split; [reflexivity|]. unfold is_digit, ws_byte in *. lia.
    - (* f64 *)
      unfold floats_ok in HF. cbn [float_leaves] in HF. inversion HF as [|? ? Hfo _]; subst. unfold float_ok in Hfo. cbn [fst snd] in Hfo.
      destruct Hfo as (Hfin & (c & r & Hc & Hd) & _). rewrite Hfin, Hc. exists c, r. split; [reflexivity|]. unfold is_digit, ws_byte in *. lia.
    - (* char *) do 2 eexists. split; [reflexivity|]. split; [reflexivity|]. split; discriminate.
    - (* String *) do 2 eexists. split; [reflexivity|]. split; [reflexivity|]. split; discriminate.
    - (* &str *) do 2 eexists. split; [reflexivity|]. split; [reflexivity|]. split; discriminate.
    - (* unit *) do 2 eexists. split; [reflexivity|]. split; [reflexivity|]. split; [discriminate|reflexivity].
    - (* unit struct *) do 2 eexists. split; [reflexivity|]. split; [reflexivity|]. split; [discriminate|reflexivity].
    - (* None *) do 2 eexists. split; [reflexivity|]. split; [reflexivity|]. split; [discriminate|reflexivity].
    - (* Some *) exact (IH t HU HT HF).
    - (* newtype *) exact (IH t HU HT HF).
    - (* seq *) do 2 eexists. split; [reflexivity|]. split; [reflexivity|]. split; discriminate.
    - (* tuple *) do 2 eexists. split; [reflexivity|]. split; [reflexivity|]. split; discriminate.
    - (* tuple struct *) do 2 eexists. split; [reflexivity|]. split; [reflexivity|]. split; discriminate.
    - (* map *) do 2 eexists. split; [reflexivity|]. split; [reflexivity|]. split; discriminate.
    - (* struct *) do 2 eexists. split; [reflexivity|]. split; [reflexivity|]. split; discriminate.
    - (* variant *)
      destruct (index_of n variants) as [[i v]|]; [|discriminate HT]. destruct v as [|t1|ts|fs].
      + do 2 eexists. split; [reflexivity|]. split; [reflexivity|]. split; discriminate.
      + do 2 eexists. split; [reflexivity|]. split; [reflexivity|]. split; discriminate.
      + destruct p; try discriminate HT. do 2 eexists. split; [reflexivity|]. split; [reflexivity|]. split; discriminate.
      + destruct p; try discriminate HT. do 2 eexists. split; [reflexivity|]. split; [reflexivity|]. split; discriminate.
  Qed.

  Lemma prints_null_txt : forall d t, prints_null t d = true -> txt t d = lit_null.
  Proof.
    induction d as [| | | | |bits| | | | | |d IH|d IH| | | |n p IH]; intros t H; destruct t; cbn [prints_null] in H; try discriminate H;
      cbn [txt]; try reflexivity.
    - destruct (f32_finite_bits (f32_bits_of_f64_bits bits)); [discriminate H|reflexivity].
    - destruct (f64_finite_bits bits); [discriminate H|reflexivity].
    - exact (IH t H).
    - exact (IH t H).
  Qed.

  Lemma good_head t d : good t d -> exists b r, txt t d = b :: r /\ ws_byte b = false /\ b <> 93 /\ (b = 110 -> prints_null t d = true).
  Proof. intros (HU & HT & _ & HF). exact (txt_head d t HU HT HF). Qed.

  (* ------------------------------------------------------------------------------------------ *)
  (** * The induction hypotheses, one per function *)
  Definition lpost (l : list dval) : list dval -> Prop := fun ds => map unb ds = map unb l.

  Definition IHt (f : nat) : Prop := forall t d s tl,
    good t d -> rest s = txt t d ++ tl -> tfollow tl -> dbudget cf (nest t d) (depth s) ->
    okf (de_typed f E t s) (vpost (norm t d) s tl).

  Definition IHe (f : nat) : Prop := forall t l first s tl,
    Forall (good t) l -> rest s = items first (map (fun x => txt t x) l) ++ 93 :: tl ->
    dbudget cf (maxl (map (fun x => nest t x) l)) (depth s) ->
    okf (de_elems f E t first s) (cpost (lpost (map (fun x => norm t x) l)) s (93 :: tl)).

  Definition IHtu (f : nat) : Prop := forall ts l first s tl,
    Forall2 good ts l -> rest s = items first (zipw (fun t0 x => txt t0 x) ts l) ++ 93 :: tl ->
    dbudget cf (maxl (zipw (fun t0 x => nest t0 x) ts l)) (depth s) ->
    okf (de_tuple f E ts first s) (cpost (lpost (zipw (fun t0 x => norm t0 x) ts l)) s (93 :: tl)).

  Definition entry_txt (k : kty) (v : ty) (kv : dval * dval) : bytes := let '(kd, vd) := kv in member (key_txt k kd) (txt v vd).
  Definition entry_nest (v : ty) (kv : dval * dval) : nat := let '(_, vd) := kv in nest v vd.
  Definition entry_norm (v : ty) (kv : dval * dval) : dval * dval := let '(kd, vd) := kv in (kd, norm v vd).

  Definition IHen (f : nat) : Prop := forall k v l first s tl,
    key_in_universe k = true -> Forall (goode k v) l ->
    rest s = items first (map (entry_txt k v) l) ++ 125 :: tl ->
    dbudget cf (maxl (map (entry_nest v) l)) (depth s) ->
    okf (de_entries f E k v first s) (cpost (fun es => map (unbp unb) es = map (unbp unb) (map (entry_norm v) l)) s (125 :: tl)).

  Definition IHf (f : nat) : Prop := forall (fields done todo : list (bytes * ty)) dd dl first s tl,
    fields = done ++ todo -> nodupb (map fst fields) = true -> length dd = length done ->
    Forall2 goodf todo dl ->
    rest s = items first (fields_txt (fun t0 x => txt t0 x) todo dl) ++ 125 :: tl ->
    dbudget cf (maxl (zipw (fun f0 x => nest (snd f0) x) todo dl)) (depth s) ->
    okf (de_fields f E fields (map Some dd ++ map (fun _ => None) todo) first s)
        (cpost (fun ds => exists dl', ds = dd ++ dl' /\ map unb dl' = map unb (zipw (fun f0 x => norm (snd f0) x) todo dl)) s (125 :: tl)).

  Definition IHs (f : nat) : Prop := forall (fields : list (bytes * ty)) dl s tl,
    nodupb (map fst fields) = true -> Forall2 goodf fields dl ->
    rest s = obj_text (fields_txt (fun t0 x => txt t0 x) fields dl) ++ tl ->
    dbudget cf (S (maxl (zipw (fun f0 x => nest (snd f0) x) fields dl))) (depth s) ->
    okf (de_struct f E fields s) (vpost (DStruct (zipw (fun f0 x => norm (snd f0) x) fields dl)) s tl).

  (* ---- text shapes ---- *)
  Lemma arr_text_app xs tl : arr_text xs ++ tl = 91 :: items true xs ++ 93 :: tl.
  Proof. unfold arr_text. cbn [app]. rewrite <- app_assoc. reflexivity. Qed.
  Lemma obj_text_app xs tl : obj_text xs ++ tl = 123 :: items true xs ++ 125 :: tl.
  Proof. unfold obj_text. cbn [app]. rewrite <- app_assoc. reflexivity. Qed.
  Lemma variant_text_app n x tl : obj_text [member (qstr n) x] ++ tl = 123 :: qstr n ++ 58 :: x ++ 125 :: tl.
  Proof. rewrite obj_text_app. unfold member. cbn [items app]. rewrite app_nil_r, <- app_assoc. reflexivity. Qed.
  Lemma items_cons_app (first : bool) x xs tl :
    items first (x :: xs) ++ tl = (if first then [] else [44]) ++ x ++ items false xs ++ tl.
  Proof. cbn [items]. rewrite <- !app_assoc. reflexivity. Qed.

  (* has_next_element / has_next_key in compact text *)
  Lemma hne_compact (first : bool) (s : st) (b : N) (r : bytes) : rest s = (if first then [] else [44]) ++ b :: r -> ws_byte b = false -> b <> 93 ->
    exists s1, has_next_element E first s = Ok (Some s1) /\ rest s1 = b :: r /\ depth s1 = depth s.
  Proof.
    intros Hr Hws H93. destruct first; cbn [app] in Hr.
    - apply hne_fwd_first; [|exact H93]. rewrite Hr. apply skipws_head, Hws.
    - apply (hne_fwd_more cf s (b :: r)); [| |exact H93].
      + rewrite Hr. apply skipws_head. reflexivity.
      + apply skipws_head, Hws.
  Qed.

  Lemma hnk_compact (first : bool) (s : st) (r : bytes) : rest s = (if first then [] else [44]) ++ 34 :: r ->
    exists s1, has_next_key E first s = Ok (Some s1) /\ rest s1 = 34 :: r /\ depth s1 = depth s.
  Proof.
    intros Hr. destruct first; cbn [app] in Hr.
    - apply hnk_fwd_first. rewrite Hr. apply skipws_head. reflexivity.
    - apply (hnk_fwd_more cf s (34 :: r)).
      + rewrite Hr. apply skipws_head. reflexivity.
      + apply skipws_head. reflexivity.
  Qed.

  Lemma colon_compact s rst : rest s = 58 :: rst ->
    exists s', parse_object_colon E s = Ok s' /\ rest s' = rst /\ depth s' = depth s.
  Proof. intros Hr. apply colon_fwd. rewrite Hr. apply skipws_head. reflexivity. Qed.

  (* ------------------------------------------------------------------------------------------ *)
  (** * The steps *)
  Lemma step_elems f : IHt f -> IHe f -> IHe (S f).
  Proof.
    intros IT IL t l first s tl HG Hr Hb. rewrite de_elems_S. destruct HG as [|x l Hx Hl].
    - cbn [map items app] in Hr. rewrite (hne_fwd_none cf first s tl) by (rewrite Hr; apply skipws_head; reflexivity).
      cbn [lift tbind]. apply okf_ok with (a := ([], s)); [reflexivity|]. repeat split. exact Hr.
    - cbn [map] in Hr, Hb. rewrite items_cons_app in Hr. rewrite maxl_cons in Hb.
      set (tl1 := items false (map (fun x0 => txt t x0) l) ++ 93 :: tl) in *.
      destruct (good_head t x Hx) as (b & r & Htx & Hws & H93 & _).
      destruct (hne_compact first s b (r ++ tl1)) as (s1 & Hh & Hr1 & Hd1); [rewrite Hr, Htx; reflexivity|exact Hws|exact H93|].
      rewrite Hh. cbn [lift tbind].
      eapply okf_tbind.
      + apply (IT t x s1 tl1 Hx).
        * rewrite Hr1, Htx. reflexivity.
        * apply tfollow_items. auto.
        * rewrite Hd1. eapply dbudget_le; [apply Nat.le_max_l|exact Hb].
      + intros [d' s2] (Hu & Hr2 & Hd2). cbn [fst snd] in *. cbv beta iota.
        eapply okf_tbind.
        * apply (IL t l false s2 tl Hl Hr2). rewrite Hd2, Hd1. eapply dbudget_le; [apply Nat.le_max_r|exact Hb].
        * intros [ds s3] (Hus & Hr3 & Hd3). cbn [fst snd] in *. cbv beta iota.
          apply okf_ok with (a := (d' :: ds, s3)); [reflexivity|]. unfold cpost, lpost in *. cbn [fst snd map].
          rewrite Hu, Hus. split; [reflexivity|]. split; [exact Hr3|]. congruence.
  Qed.

  Lemma step_tuple f : IHt f -> IHtu f -> IHtu (S f).
  Proof.
    intros IT IL ts l first s tl HG Hr Hb. destruct HG as [|t x ts l Hx Hl].
    - rewrite de_tuple_nil. cbn [items app] in Hr. apply okf_ok with (a := ([], s)); [reflexivity|]. repeat split. exact Hr.
    - rewrite de_tuple_cons. rewrite !zipw_cons in *. rewrite items_cons_app in Hr. rewrite maxl_cons in Hb.
      set (tl1 := items false (zipw (fun t0 x0 => txt t0 x0) ts l) ++ 93 :: tl) in *.
      destruct (good_head t x Hx) as (b & r & Htx & Hws & H93 & _).
      destruct (hne_compact first s b (r ++ tl1)) as (s1 & Hh & Hr1 & Hd1); [rewrite Hr, Htx; reflexivity|exact Hws|exact H93|].
      rewrite Hh. cbn [lift tbind].
      eapply okf_tbind.
      + apply (IT t x s1 tl1 Hx).
        * rewrite Hr1, Htx. reflexivity.
        * apply tfollow_items. auto.
        * rewrite Hd1. eapply dbudget_le; [apply Nat.le_max_l|exact Hb].
      + intros [d' s2] (Hu & Hr2 & Hd2). cbn [fst snd] in *. cbv beta iota.
        eapply okf_tbind.
        * apply (IL ts l false s2 tl Hl Hr2). rewrite Hd2, Hd1. eapply dbudget_le; [apply Nat.le_max_r|exact Hb].
        * intros [ds s3] (Hus & Hr3 & Hd3). cbn [fst snd] in *. cbv beta iota.
          apply okf_ok with (a := (d' :: ds, s3)); [reflexivity|]. unfold cpost, lpost in *. cbn [fst snd map].
          rewrite Hu, Hus. split; [reflexivity|]. split; [exact Hr3|]. congruence.
  Qed.

  Lemma step_entries f : IHt f -> IHen f -> IHen (S f).
  Proof.
    intros IT IL k v l first s tl HK HG Hr Hb. rewrite de_entries_S. destruct HG as [|[kd vd] l [Hkt Hx] Hl].
    - cbn [map items app] in Hr. rewrite (hnk_fwd_none cf first s tl) by (rewrite Hr; apply skipws_head; reflexivity).
      cbn [lift tbind]. apply okf_ok with (a := ([], s)); [reflexivity|]. repeat split. exact Hr.
    - cbn [map fst snd] in *. rewrite items_cons_app in Hr. rewrite maxl_cons in Hb. cbn [entry_txt entry_nest] in Hr, Hb.
      unfold member in Hr. rewrite <- app_assoc in Hr. cbn [app] in Hr.
      set (tl1 := items false (map (entry_txt k v) l) ++ 125 :: tl) in *.
      destruct (key_txt_head fmt32 fmt64 k kd HK Hkt) as (rk & Hkh).
      destruct (hnk_compact first s (rk ++ 58 :: txt v vd ++ tl1)) as (s1 & Hh & Hr1 & Hd1).
      { rewrite Hr, Hkh. reflexivity. }
      rewrite Hh. cbn [lift tbind].
      eapply okf_tbind.
      + apply (read_key cf fmt32 fmt64 k kd f s1 (58 :: txt v vd ++ tl1) HK Hkt). rewrite Hr1, Hkh. reflexivity.
      + intros [kd' s2] (Hku & Hr2 & Hd2). cbn [fst snd] in *. cbv beta iota.
        destruct (colon_compact s2 _ Hr2) as (s3 & Hc & Hr3 & Hd3). rewrite Hc. cbn [lift tbind].
        eapply okf_tbind.
        * apply (IT v vd s3 tl1 Hx Hr3).
          -- apply tfollow_items. auto.
          -- rewrite Hd3, Hd2, Hd1. eapply dbudget_le; [apply Nat.le_max_l|exact Hb].
        * intros [vd' s4] (Hvu & Hr4 & Hd4). cbn [fst snd] in *. cbv beta iota.
          eapply okf_tbind.
          -- apply (IL k v l false s4 tl HK Hl Hr4). rewrite Hd4, Hd3, Hd2, Hd1. eapply dbudget_le; [apply Nat.le_max_r|exact Hb].
          -- intros [es s5] (Hus & Hr5 & Hd5). cbn [fst snd] in *. cbv beta iota.
             apply okf_ok with (a := ((kd', vd') :: es, s5)); [reflexivity|]. unfold cpost in *. cbn [fst snd map unbp entry_norm].
             rewrite Hku, Hvu, Hus. split; [reflexivity|]. split; [exact Hr5|]. congruence.
  Qed.

  Lemma step_fields f : IHt f -> IHf f -> IHf (S f).
  Proof.
    intros IT IL fields done todo dd dl first s tl HF HN HL HG Hr Hb. rewrite de_fields_S. destruct HG as [|[n t] x todo dl [Hn Hx] Hl].
    - cbn [items app] in Hr. rewrite (hnk_fwd_none cf first s tl) by (rewrite Hr; apply skipws_head; reflexivity).
      cbn [lift tbind map]. rewrite !app_nil_r in *. subst fields. rewrite (finish_struct_full s done dd HL). cbn [tbind].
      apply okf_ok with (a := (dd, s)); [reflexivity|]. split; [|split; [exact Hr|reflexivity]].
      exists []. rewrite app_nil_r. auto.
    - unfold fields_txt in Hr. rewrite !zipw_cons in *. fold (fields_txt (fun t0 x0 => txt t0 x0) todo dl) in Hr.
      cbn [fst snd] in *. rewrite items_cons_app in Hr. rewrite maxl_cons in Hb.
      unfold member in Hr. rewrite <- app_assoc in Hr. cbn [app] in Hr. rewrite qstr_app in Hr.
      set (tl1 := items false (fields_txt (fun t0 x0 => txt t0 x0) todo dl) ++ 125 :: tl) in *.
      destruct (hnk_compact first s (esc n ++ 34 :: 58 :: txt t x ++ tl1)) as (s1 & Hh & Hr1 & Hd1).
      { rewrite Hr. reflexivity. }
      rewrite Hh. cbn [lift tbind].
      destruct (parse_str_esc cf (discard s1) n (58 :: txt t x ++ tl1) Hn) as (fl & s2 & Hps & Hr2 & Hd2 & _).
      { rewrite discard_rest, Hr1. reflexivity. }
      rewrite Hps. cbn [lift tbind]. rewrite discard_depth in Hd2.
      assert (Hidx : index_of n fields = Some (length done, t)).
      { subst fields. rewrite (index_of_app_skip n done ((n, t) :: todo) (nodup_mid n t done todo HN)).
        cbn [index_of]. rewrite beq_bytes_refl. rewrite Nat.add_0_r. reflexivity. }
      rewrite Hidx. cbn [map]. rewrite <- HL, slot_filled_mid.
      destruct (colon_compact s2 _ Hr2) as (s3 & Hc & Hr3 & Hd3). rewrite Hc. cbn [lift tbind].
      eapply okf_tbind.
      + apply (IT t x s3 tl1 Hx Hr3).
        * apply tfollow_items. auto.
        * rewrite Hd3, Hd2, Hd1. eapply dbudget_le; [apply Nat.le_max_l|exact Hb].
      + intros [d' s4] (Hu & Hr4 & Hd4). cbn [fst snd] in *. cbv beta iota.
        rewrite set_slot_mid.
        eapply okf_weaken.
        * apply (IL fields (done ++ [(n, t)]) todo (dd ++ [d']) dl false s4 tl).
          -- subst fields. rewrite <- app_assoc. reflexivity.
          -- exact HN.
          -- rewrite !app_length. cbn [length]. lia.
          -- exact Hl.
          -- exact Hr4.
          -- rewrite Hd4, Hd3, Hd2, Hd1. eapply dbudget_le; [apply Nat.le_max_r|exact Hb].
        * intros [ds s5] ((dl' & Hds & Hul) & Hr5 & Hd5). cbn [fst snd] in *. split; [|split; [exact Hr5|cbn [snd]; congruence]].
          exists (d' :: dl'). cbn [fst]. rewrite Hds, <- app_assoc. split; [reflexivity|]. cbn [map]. rewrite Hu, Hul. reflexivity.
  Qed.

  Lemma step_struct f : IHf f -> IHs (S f).
  Proof.
    intros IL fields dl s tl HN HG Hr Hb. rewrite de_struct_S. rewrite obj_text_app in Hr.
    apply okf_tmap.
    eapply okf_weaken.
    - apply (okf_deserialize_struct_map cf _ (fun s' => de_fields f E fields (map (fun _ => None) fields) true s') s
               (fun ds => exists dl', ds = [] ++ dl' /\ map unb dl' = map unb (zipw (fun f0 x => norm (snd f0) x) fields dl)) _ tl _ Hr Hb).
      intros s2 Hr2 Hb2. apply (IL fields [] fields [] dl true s2 tl eq_refl HN eq_refl HG Hr2 Hb2).
    - intros [ds s'] ((dl' & Hds & Hul) & Hr' & Hd'). cbn [fst snd] in *. unfold vpost. cbn [fst snd unb app] in *.
      subst ds. rewrite Hul. auto.
  Qed.

  (* ---- inversion of [good] on enums ---- *)
  Lemma good_variant vs n p : good (TEnum vs) (DVariant n p) ->
    exists i v, index_of n vs = Some (i, v) /\ utf8_valid n = true /\
      match v with
      | VUnit => p = DUnit
      | VNewtype t1 => good t1 p
      | VTuple ts => exists l, p = DSeq l /\ Forall2 good ts l
      | VStruct fs => exists l, p = DStruct l /\ nodupb (map fst fs) = true /\ Forall2 goodf fs l
      end.
  Proof.
    intros (HU & HT & HS & HF). cbn [in_universe has_type str_safe] in *. unfold floats_ok in *. cbn [float_leaves] in HF.
    destruct (index_of n vs) as [[i v]|] eqn:Hi; [|discriminate HT]. exists i, v. split; [reflexivity|].
    pose proof (index_of_forallb _ vs n i v HU Hi) as HQ. cbn [fst snd] in HQ. apply andb_prop in HQ as [Hn HQ].
    split; [exact Hn|]. destruct v as [|t1|ts|fs].
    - destruct p; try discriminate HT. reflexivity.
    - repeat split; assumption.
    - destruct p; try discriminate HT. exists l. split; [reflexivity|]. apply andb_prop in HT as [HL HT]. apply Nat.eqb_eq in HL.
      apply good_zip; assumption.
    - destruct p; try discriminate HT. exists l. split; [reflexivity|]. apply andb_prop in HT as [HL HT]. apply Nat.eqb_eq in HL.
      apply fields_ok_inv in HQ as [HN HQ]. split; [exact HN|]. apply good_fields; assumption.
  Qed.

  Lemma step_typed f : IHt f -> IHe f -> IHtu f -> IHen f -> IHs f -> IHt (S f).
  Proof.
    intros IT IE ITU IEN IS t d s tl HG Hr Hfol Hb. pose proof HG as (HU & HT & HS & HF).
    destruct t; cbn [in_universe] in HU; try discriminate HU; (destruct d; cbn [has_type] in HT; try discriminate HT); cbn [norm].
    - (* bool *) cbn [txt] in Hr.
      apply reads_okf. cbn [de_typed]. apply read_bool. exact Hr.
    - (* integers *) cbn [txt] in Hr.
      apply reads_okf. apply read_int; assumption.
    - (* f32 *) cbn [txt] in Hr.
      unfold floats_ok in HF. cbn [float_leaves] in HF. inversion HF as [|? ? Hfo _]; subst. unfold float_ok in Hfo. cbn [fst snd] in Hfo.
      destruct Hfo as (Hfin & _ & Hrd).
      rewrite Hfin in Hr. apply reads_okf. cbn [de_typed]. apply Hrd; assumption.
    - (* f64 *) cbn [txt] in Hr.
      unfold floats_ok in HF. cbn [float_leaves] in HF. inversion HF as [|? ? Hfo _]; subst. unfold float_ok in Hfo. cbn [fst snd] in Hfo.
      destruct Hfo as (Hfin & _ & Hrd).
      rewrite Hfin in Hr. apply reads_okf. cbn [de_typed]. apply Hrd; assumption.
    - (* char *) cbn [txt] in Hr.
      apply reads_okf. apply read_char; assumption.
    - (* String *) cbn [txt] in Hr.
      apply reads_okf. apply read_str; assumption.
    - (* &str *) cbn [txt] in Hr. cbn [str_safe] in HS.
      apply reads_okf. apply read_borrowed_str; assumption.
    - (* unit *) cbn [txt] in Hr.
      apply reads_okf. cbn [de_typed]. apply read_unit. exact Hr.
    - (* unit struct *) cbn [txt] in Hr.
      apply reads_okf. cbn [de_typed]. apply read_unit. exact Hr.
    - (* Option: None *) cbn [txt] in Hr. apply reads_okf. apply read_none. exact Hr.
    - (* Option: Some *) cbn [txt] in Hr. apply good_some in HG. cbn [nest] in Hb.
      destruct (prints_null t d) eqn:Hpn.
      + rewrite (prints_null_txt d t Hpn) in Hr. apply reads_okf. apply read_none. exact Hr.
      + destruct (good_head t d HG) as (b & r & Htx & Hws & _ & H110).
        assert (Hb110 : b <> 110) by (intros ->; rewrite (H110 eq_refl) in Hpn; discriminate Hpn).
        destruct (option_some_step cf f t s b (r ++ tl)) as (s1 & Hr1 & Hd1 & Heq); [rewrite Hr, Htx; reflexivity|exact Hws|exact Hb110|].
        rewrite Heq. apply okf_tmap. eapply okf_weaken.
        * apply (IT t d s1 tl HG); [congruence|exact Hfol|rewrite Hd1; exact Hb].
        * intros [d' s'] (H1 & H2 & H3). unfold vpost. cbn [fst snd unb] in *. rewrite H1. split; [reflexivity|]. split; congruence.
    - (* newtype *) cbn [txt] in Hr.
      apply good_newtype in HG. cbn [nest] in Hb. cbn [de_typed]. apply okf_tmap. eapply okf_weaken.
      + apply (IT t d s tl HG Hr Hfol Hb).
      + intros [d' s'] (H1 & H2 & H3). unfold vpost. cbn [fst snd unb] in *. rewrite H1. auto.
    - (* Vec *) cbn [txt] in Hr.
      cbn [str_safe] in HS. unfold floats_ok in HF. cbn [float_leaves] in HF. cbn [nest] in Hb.
      pose proof (good_list t l HU HT HS HF) as HL. rewrite arr_text_app in Hr.
      rewrite de_typed_seq. apply okf_tmap. eapply okf_weaken.
      + apply (okf_deserialize_seq cf (fun s' => de_elems f E t true s') s (lpost (map (fun x => norm t x) l)) _ tl _ Hr Hb).
        intros s2 Hr2 Hb2. apply (IE t l true s2 tl HL Hr2 Hb2).
      + intros [ds s'] (H1 & H2 & H3). unfold vpost, lpost in *. cbn [fst snd unb] in *. rewrite H1. auto.
    - (* tuple *) cbn [txt] in Hr.
      cbn [str_safe] in HS. unfold floats_ok in HF. cbn [float_leaves] in HF. cbn [nest] in Hb.
      apply andb_prop in HT as [HLen HT]. apply Nat.eqb_eq in HLen.
      pose proof (good_zip ts l HU HLen HT HS HF) as HL. rewrite arr_text_app in Hr.
      rewrite de_typed_tuple. apply okf_tmap. eapply okf_weaken.
      + apply (okf_deserialize_seq cf (fun s' => de_tuple f E ts true s') s (lpost (zipw (fun t0 x => norm t0 x) ts l)) _ tl _ Hr Hb).
        intros s2 Hr2 Hb2. apply (ITU ts l true s2 tl HL Hr2 Hb2).
      + intros [ds s'] (H1 & H2 & H3). unfold vpost, lpost in *. cbn [fst snd unb] in *. rewrite H1. auto.
    - (* tuple struct *) cbn [txt] in Hr.
      cbn [str_safe] in HS. unfold floats_ok in HF. cbn [float_leaves] in HF. cbn [nest] in Hb.
      apply andb_prop in HT as [HLen HT]. apply Nat.eqb_eq in HLen.
      pose proof (good_zip ts l HU HLen HT HS HF) as HL. rewrite arr_text_app in Hr.
      rewrite de_typed_tuple_struct. apply okf_tmap. eapply okf_weaken.
      + apply (okf_deserialize_seq cf (fun s' => de_tuple f E ts true s') s (lpost (zipw (fun t0 x => norm t0 x) ts l)) _ tl _ Hr Hb).
        intros s2 Hr2 Hb2. apply (ITU ts l true s2 tl HL Hr2 Hb2).
      + intros [ds s'] (H1 & H2 & H3). unfold vpost, lpost in *. cbn [fst snd unb] in *. rewrite H1. auto.
    - (* map *) cbn [txt] in Hr.
      cbn [str_safe] in HS. unfold floats_ok in HF. cbn [float_leaves] in HF. cbn [nest] in Hb.
      apply andb_prop in HU as [HK HV].
      pose proof (good_entries k t l HV HT HS HF) as HL. rewrite obj_text_app in Hr.
      rewrite de_typed_map. apply okf_tmap. eapply okf_weaken.
      + apply (okf_deserialize_map cf (fun s' => de_entries f E k t true s') s
                 (fun es => map (unbp unb) es = map (unbp unb) (map (entry_norm t) l)) _ tl _ Hr Hb).
        intros s2 Hr2 Hb2. apply (IEN k t l true s2 tl HK HL Hr2 Hb2).
      + intros [es s'] (H1 & H2 & H3). unfold vpost in *. cbn [fst snd unb] in *. rewrite H1. auto.
    - (* struct *) cbn [txt] in Hr.
      cbn [str_safe] in HS. unfold floats_ok in HF. cbn [float_leaves] in HF. cbn [nest] in Hb.
      apply andb_prop in HT as [HLen HT]. apply Nat.eqb_eq in HLen. apply fields_ok_inv in HU as [HN HU].
      pose proof (good_fields fields l HU HLen HT HS HF) as HL.
      rewrite de_typed_struct. apply (IS fields l s tl HN HL Hr Hb).
    - (* enum *)
      destruct (good_variant variants name d HG) as (i & v & Hi & Hn & Hv). cbn [txt nest] in Hr, Hb. rewrite Hi in Hr, Hb. rewrite Hi.
      rewrite de_typed_enum. destruct v as [|t1|ts|fs].
      + (* unit variant *) subst d.
        destruct (enum_unit_step cf
                    (fun s' : st =>
                       let+ (name0, v, s2) := deserialize_str E (visit_variant variants) s'
                       in let^ s3 := parse_object_colon E s2
                          in tmap (DVariant name0)
                               match v with
                               | VUnit => deserialize_unit E s3
                               | VNewtype t1 => de_typed f E t1 s3
                               | VTuple ts => tmap DSeq (deserialize_seq E (fun s'' : st => de_tuple f E ts true s'') s3)
                               | VStruct fields => de_struct f E fields s3
                               end)
                    (fun s' : st =>
                       let+ pat := deserialize_str E (visit_variant variants) s'
                       in match pat with
                          | (name0, VUnit, s2) => TOk (DVariant name0 DUnit, s2)
                          | (name0, VNewtype _, s2) | (name0, VTuple _, s2) | (name0, VStruct _, s2) => TUnpos MInvalidType s2
                          end) s (esc name ++ [34] ++ tl)) as (s1 & Hr1 & Hd1 & Heq).
        { rewrite Hr. unfold qstr. cbn [app]. rewrite <- app_assoc. reflexivity. }
        rewrite Heq.
        destruct (read_variant_id cf variants s1 name i VUnit tl Hn Hi) as (s2 & Hid & Hr2 & Hd2); [congruence|].
        rewrite Hid. cbn [tbind]. apply okf_ok with (a := (DVariant name DUnit, s2)); [reflexivity|].
        unfold vpost. cbn [fst snd]. split; [reflexivity|]. split; [exact Hr2|congruence].
      + (* newtype variant *)
        rewrite variant_text_app in Hr. eapply okf_weaken.
        * eapply (okf_enum_map cf _ _ s (fun d' => unb d' = unb (DVariant name (norm t1 d))) _ tl (nest t1 d) Hr Hb).
          intros s2 Hr2 Hb2.
          destruct (read_variant_id cf variants s2 name i (VNewtype t1) _ Hn Hi Hr2) as (s3 & Hid & Hr3 & Hd3).
          rewrite Hid. cbn [tbind].
          destruct (colon_compact s3 _ Hr3) as (s4 & Hc & Hr4 & Hd4). rewrite Hc. cbn [lift tbind].
          apply okf_tmap. eapply okf_weaken.
          -- apply (IT t1 d s4 (125 :: tl) Hv Hr4); [cbn [tfollow]; auto|]. rewrite Hd4, Hd3. exact Hb2.
          -- intros [d' s'] (H1 & H2 & H3). unfold cpost. cbn [fst snd unb] in *. rewrite H1. split; [reflexivity|]. split; congruence.
        * intros p Hp. exact Hp.
      + (* tuple variant *)
        destruct Hv as (l & -> & HL). rewrite variant_text_app in Hr. eapply okf_weaken.
        * eapply (okf_enum_map cf _ _ s (fun d' => unb d' = unb (DVariant name (DSeq (zipw (fun t0 x => norm t0 x) ts l)))) _ tl _ Hr Hb).
          intros s2 Hr2 Hb2.
          destruct (read_variant_id cf variants s2 name i (VTuple ts) _ Hn Hi Hr2) as (s3 & Hid & Hr3 & Hd3).
          rewrite Hid. cbn [tbind].
          destruct (colon_compact s3 _ Hr3) as (s4 & Hc & Hr4 & Hd4). rewrite Hc. cbn [lift tbind].
          rewrite arr_text_app in Hr4.
          apply okf_tmap. apply okf_tmap. eapply okf_weaken.
          -- apply (okf_deserialize_seq cf (fun s' => de_tuple f E ts true s') s4 (lpost (zipw (fun t0 x => norm t0 x) ts l)) _ (125 :: tl)
                      (maxl (zipw (fun t0 x => nest t0 x) ts l)) Hr4).
             ++ rewrite Hd4, Hd3. exact Hb2.
             ++ intros s5 Hr5 Hb5. apply (ITU ts l true s5 (125 :: tl) HL Hr5 Hb5).
          -- intros [ds s'] (H1 & H2 & H3). unfold cpost, lpost in *. cbn [fst snd unb] in *. rewrite H1.
             split; [reflexivity|]. split; congruence.
        * intros p Hp. exact Hp.
      + (* struct variant *)
        destruct Hv as (l & -> & HN & HL). rewrite variant_text_app in Hr. eapply okf_weaken.
        * eapply (okf_enum_map cf _ _ s (fun d' => unb d' = unb (DVariant name (DStruct (zipw (fun f0 x => norm (snd f0) x) fs l)))) _ tl _ Hr Hb).
          intros s2 Hr2 Hb2.
          destruct (read_variant_id cf variants s2 name i (VStruct fs) _ Hn Hi Hr2) as (s3 & Hid & Hr3 & Hd3).
          rewrite Hid. cbn [tbind].
          destruct (colon_compact s3 _ Hr3) as (s4 & Hc & Hr4 & Hd4). rewrite Hc. cbn [lift tbind].
          apply okf_tmap. eapply okf_weaken.
          -- apply (IS fs l s4 (125 :: tl) HN HL Hr4). rewrite Hd4, Hd3. exact Hb2.
          -- intros [d' s'] (H1 & H2 & H3). unfold cpost. cbn [fst snd unb] in *. rewrite H1. split; [reflexivity|]. split; congruence.
        * intros p Hp. exact Hp.
  Qed.

  (* ------------------------------------------------------------------------------------------ *)
  (** * The induction *)
  Lemma all_steps : forall f, IHt f /\ IHe f /\ IHtu f /\ IHen f /\ IHf f /\ IHs f.
  Proof.
    induction f as [|f (IT & IE & ITU & IEN & IF & IS)].
    - repeat split; intro; intros; left; reflexivity.
    - split; [apply step_typed; assumption|]. split; [apply step_elems; assumption|]. split; [apply step_tuple; assumption|].
      split; [apply step_entries; assumption|]. split; [apply step_fields; assumption|]. apply step_struct; assumption.
  Qed.

  (* the typed deserializer on [txt t d ++ tl], any fuel: out of fuel or the data (as it reads back: [norm]) *)
  Theorem de_typed_reads_txt : forall f t d s tl,
    in_universe t = true -> has_type t d = true -> str_safe t d = true -> floats_ok t d ->
    rest s = txt t d ++ tl -> tfollow tl -> dbudget cf (nest t d) (depth s) ->
    okf (de_typed f E t s) (vpost (norm t d) s tl).
  Proof. intros f t d s tl HU HT HS HF. apply (proj1 (all_steps f)). repeat split; assumption. Qed.

  (* from_trait on the whole text *)
  Theorem from_input_typed_txt : forall t d,
    in_universe t = true -> has_type t d = true -> str_safe t d = true -> floats_ok t d ->
    (limit_disabled cf = false -> (nest t d <= 127)%nat) ->
    exists d', from_input_typed E t (txt t d) = TOk d' /\ unb d' = unb (norm t d).
  Proof.
    intros t d HU HT HS HF HD. unfold from_input_typed.
    pose proof (de_typed_reads_txt (typed_fuel t (txt t d)) t d (init_st (txt t d)) [] HU HT HS HF) as H.
    destruct (okf_not_fuel _ _ (H ltac:(cbn [init_st rest]; rewrite app_nil_r; reflexivity) I
                                  ltac:(intros Hl; specialize (HD Hl); cbn [init_st depth]; rewrite DEPTH0_eq; lia)))
      as ([d' s'] & Heq & Hu & Hr' & Hd').
    { apply (de_typed_no_fuel E t (init_st (txt t d))). }
    cbn [fst snd] in *. rewrite Heq. cbn [tbind].
    destruct (proj2 (de_end_ok cf s')) as (s'' & He); [rewrite Hr'; reflexivity|].
    rewrite He. cbn [lift tbind]. exists d'. auto.
  Qed.

  (* ======================================================== C04, typed half ======================================================== *)
  (* without the exclusion: what reads back is [norm t d], the data in which every `Some(x)` with x printed as `null`
     (nested None, unit, ...) has become `None` — anywhere in the tree *)
  Theorem C04_typed_norm : forall t d sv bufs,
    in_universe t = true -> has_type t d = true -> str_safe t d = true -> floats_ok t d ->
    sval_of_dval t d = Some sv -> serialize cf fmt32 fmt64 Compact sv = Ok bufs ->
    (limit_disabled cf = false -> (nest t d <= 127)%nat) ->
    exists d', from_input_typed E t (concat bufs) = TOk d' /\ unb d' = unb (norm t d).
  Proof.
    intros t d sv bufs HU HT HS HF Hsv Hser HD.
    rewrite (serialize_txt_inv cf fmt32 fmt64 t d sv bufs HU HT Hsv Hser). apply from_input_typed_txt; assumption.
  Qed.

  (* with the exclusion: the data itself *)
  Theorem C04_typed : forall t d sv bufs,
    in_universe t = true -> has_type t d = true -> roundtrip_safe t d = true -> floats_ok t d ->
    sval_of_dval t d = Some sv -> serialize cf fmt32 fmt64 Compact sv = Ok bufs ->
    (limit_disabled cf = false -> (nest t d <= 127)%nat) ->
    exists d', from_input_typed E t (concat bufs) = TOk d' /\ unb d' = unb d.
  Proof.
    intros t d sv bufs HU HT HS HF Hsv Hser HD.
    destruct (C04_typed_norm t d sv bufs HU HT (safe_str_safe d t HS) HF Hsv Hser HD) as (d' & H1 & H2).
    exists d'. split; [exact H1|]. rewrite H2, (norm_id d t HT HS). reflexivity.
  Qed.

  (* [has_type] is implied by the success of the Serialize impl (TypedRoundtripTxt.sval_has_type) *)
  Corollary C04_typed_min : forall t d sv bufs,
    in_universe t = true -> roundtrip_safe t d = true -> floats_ok t d ->
    sval_of_dval t d = Some sv -> serialize cf fmt32 fmt64 Compact sv = Ok bufs ->
    (limit_disabled cf = false -> (nest t d <= 127)%nat) ->
    exists d', from_input_typed E t (concat bufs) = TOk d' /\ unb d' = unb d.
  Proof. intros t d sv bufs HU HS HF Hsv. apply C04_typed; try assumption. exact (sval_has_type d t sv Hsv). Qed.

  (* the serializer never fails on well-typed data of the universe, so the round trip can also be stated outright *)
  Theorem C04_typed_total : forall t d,
    in_universe t = true -> has_type t d = true -> roundtrip_safe t d = true -> floats_ok t d ->
    (limit_disabled cf = false -> (nest t d <= 127)%nat) ->
    exists sv bufs d', sval_of_dval t d = Some sv /\ serialize cf fmt32 fmt64 Compact sv = Ok bufs /\
      from_input_typed E t (concat bufs) = TOk d' /\ unb d' = unb d.
  Proof.
    intros t d HU HT HS HF HD. destruct (serialize_txt cf fmt32 fmt64 t d HU HT) as (sv & bufs & Hsv & Hser & HC).
    destruct (C04_typed t d sv bufs HU HT HS HF Hsv Hser HD) as (d' & H1 & H2). exists sv, bufs, d'. auto.
  Qed.

  (* the exclusion is exact at the top level: `Some(x)` with x printed as `null` (unit, unit struct, None, a non-finite float,
     newtype / Some wrappers of those) reads back as `None` *)
  Theorem C04_typed_some_null : forall t d sv bufs,
    in_universe t = true -> has_type t d = true -> prints_null t d = true ->
    sval_of_dval (TOption t) (DSome d) = Some sv -> serialize cf fmt32 fmt64 Compact sv = Ok bufs ->
    from_input_typed E (TOption t) (concat bufs) = TOk DNone.
  Proof.
    intros t d sv bufs HU HT HN Hsv Hser.
    rewrite (serialize_txt_inv cf fmt32 fmt64 (TOption t) (DSome d) sv bufs HU HT Hsv Hser). cbn [txt].
    rewrite (prints_null_txt d t HN). unfold from_input_typed.
    destruct (typed_fuel (TOption t) lit_null) as [|f] eqn:Hf; [unfold typed_fuel in Hf; lia|].
    destruct (read_none cf f t (init_st lit_null) []) as (d' & s' & Heq & Hu & Hr' & Hd'); [cbn [init_st rest]; rewrite app_nil_r; reflexivity|].
    rewrite Heq. cbn [tbind].
    destruct (proj2 (de_end_ok cf s')) as (s'' & He); [rewrite Hr'; reflexivity|].
    rewrite He. cbn [lift tbind]. destruct d'; cbn [unb] in Hu; try discriminate Hu. reflexivity.
  Qed.
End Main.

Print Assumptions C04_typed_some_null.
Print Assumptions C04_typed_norm.
Print Assumptions C04_typed.
Print Assumptions C04_typed_total.
