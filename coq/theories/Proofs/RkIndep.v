(* Proofs/RkIndep.v — the outcome of the Value parser, the skip scanner and the stream iterator
   does not depend on the reader kind (IoRead vs SliceRead), PROVIDED the separately implemented
   string scanners agree (hypotheses [Hstr], [Hign]; discharged in Proofs/StrRefine.v).

   Why it is true: the two kinds differ only in where `error` / `peek_error` place an error:
     err_idx      RIo: off + (pk ? 1 : 0)     RSlice: off
     peek_err_idx RIo: off + (pk ? 1 : 0)     RSlice: off + (rest = [] ? 0 : 1)
   so  `error`       agrees when no peek is outstanding           ([pk s = false]),
       `peek_error`  agrees when a peek is outstanding iff input remains ([pkok s]).
   Every `error` in Num/De/Ignore/Stream is raised right after next/discard/advance (pk = false), and
   every `peek_error` right after a peek (pkok).  The proofs below establish exactly this, site by site. *)
From SJ Require Import Base.Bytes Base.FloatB Gen.Tables Model.Read Model.Str Model.Num Model.Value Model.De Model.Ignore Model.Stream.
Open Scope N_scope.

Definition drop_flag (r : res (list N * bool * st)) : res (list N * st) :=
  match r with Ok (b, _, s) => Ok (b, s) | Err c i => Err c i | OutOfFuel => OutOfFuel | Panic => Panic end.

(* "a peek is outstanding exactly when input remains": the state right after a peek *)
Definition pkok (s : st) : Prop := pk s = match rest s with [] => false | _ :: _ => true end.

Lemma bind_cong' {A B} (r1 r2 : res A) (k1 k2 : A -> res B) :
  r1 = r2 -> (forall a, r2 = Ok a -> k1 a = k2 a) -> bind r1 k1 = bind r2 k2.
Proof. intros Heq Hk. subst r1. destruct r2 as [a|c i| |]; cbn [bind]; auto. Qed.

(* simulation relation between the io stream state [a] and the slice stream state [b]:
   either identical and not failed, or failed: io has the flag, slice has its input truncated *)
Definition ss_sim (a b : sstate) : Prop :=
  (a = b /\ ss_failed a = false) \/
  (ss_failed a = true /\ rest (ss_st b) = [] /\ ss_off a = off (ss_st b)).

Section RkIndep.
  Variable cf : cfg.
  Let Eio := mkEnv RIo TEof cf.
  Let Esl := mkEnv RSlice TEof cf.
  Hypothesis Hstr : forall s, drop_flag (parse_str Eio s) = drop_flag (parse_str Esl s).
  Hypothesis Hign : forall s, ignore_str Eio s = ignore_str Esl s.

  (* ------------------------------------------------------------------------------------ *)
  (* the two error positioning functions                                                   *)
  Lemma error_rk : forall A s c, pk s = false -> @error A Eio s c = @error A Esl s c.
  Proof.
    intros A s c Hpk. unfold error, err_idx.
    change (is_io Eio) with true. change (is_io Esl) with false. cbv beta iota.
    rewrite Hpk. f_equal. apply Nat.add_0_r.
  Qed.

  Lemma peek_error_rk : forall A s c, pkok s -> @peek_error A Eio s c = @peek_error A Esl s c.
  Proof.
    intros A s c Hpk. unfold peek_error, peek_err_idx.
    change (is_io Eio) with true. change (is_io Esl) with false. cbv beta iota.
    unfold pkok in Hpk. rewrite Hpk. destruct (rest s); reflexivity.
  Qed.

  (* ------------------------------------------------------------------------------------ *)
  (* reader primitives: E-independent (by computation, since tm = TEof for both); what they
     leave in [pk]                                                                         *)
  Lemma peek_ok : forall s, exists o s', peek Esl s = Ok (o, s') /\ pkok s' /\ (o = None -> rest s' = []).
  Proof.
    intros s. unfold peek, at_end. change (tm Esl) with TEof. cbv beta iota.
    destruct (rest s) as [|b r] eqn:Hr.
    - eexists _, _. split; [reflexivity|]. split; [reflexivity|]. intros _; reflexivity.
    - eexists _, _. split; [reflexivity|]. split.
      + unfold pkok. cbn [pk rest]. reflexivity.
      + intros Hd; discriminate Hd.
  Qed.

  Lemma peek_post : forall s o s', peek Esl s = Ok (o, s') -> pkok s'.
  Proof.
    intros s o s' H. destruct (peek_ok s) as (o1 & s1 & H1 & Hp & _).
    rewrite H1 in H. inversion H; subst; exact Hp.
  Qed.

  Lemma next_post : forall s o s', next Esl s = Ok (o, s') -> pk s' = false.
  Proof.
    intros s o s'. unfold next, at_end. change (tm Esl) with TEof. cbv beta iota.
    destruct (rest s) as [|b r]; intros H; inversion H; reflexivity.
  Qed.

  Lemma peek_or_null_post : forall s c s', peek_or_null Esl s = Ok (c, s') -> pkok s'.
  Proof.
    intros s c s'. unfold peek_or_null.
    destruct (peek_ok s) as (o1 & s1 & H1 & Hp & _). rewrite H1. cbn [bind].
    intros H; inversion H; subst; exact Hp.
  Qed.

  Lemma skip_digits_post : forall s c s', skip_digits Esl s = Ok (c, s') -> pkok s'.
  Proof. intros s c s'. unfold skip_digits. apply peek_or_null_post. Qed.

  Lemma parse_whitespace_post : forall s o s', parse_whitespace Esl s = Ok (o, s') -> pkok s'.
  Proof. intros s o s'. unfold parse_whitespace. apply peek_post. Qed.

  Lemma parse_whitespace_ok : forall s, exists o s', parse_whitespace Esl s = Ok (o, s').
  Proof.
    intros s. unfold parse_whitespace.
    destruct (peek_ok (advance (span_len is_ws (rest s)) s)) as (o & s' & H & _).
    eauto.
  Qed.

  Lemma pk_discard : forall s, pk (discard s) = false.
  Proof. reflexivity. Qed.
  Lemma pk_advance : forall n s, pk (advance n s) = false.
  Proof. reflexivity. Qed.

  (* ------------------------------------------------------------------------------------ *)
  (* automation                                                                            *)
  Lemma parse_str_bind : forall B s (k1 k2 : list N * bool * st -> res B),
    (forall a f1 f2 s', k1 (a, f1, s') = k2 (a, f2, s')) ->
    bind (parse_str Eio s) k1 = bind (parse_str Esl s) k2.
  Proof.
    intros B s k1 k2 Hk. pose proof (Hstr s) as Hs.
    destruct (parse_str Eio s) as [[[a f1] s1]|c i| |];
      destruct (parse_str Esl s) as [[[a' f2] s2]|c' i'| |];
      cbn [drop_flag bind] in *; try discriminate Hs; try reflexivity.
    - inversion Hs; subst. apply Hk.
    - inversion Hs; reflexivity.
  Qed.

  Create HintDb rk.
  #[local] Hint Resolve error_rk peek_error_rk peek_post next_post peek_or_null_post skip_digits_post
       parse_whitespace_post pk_discard pk_advance Hign : rk.

  (* make every E-independent primitive syntactically equal on both sides (all by conversion) *)
  Ltac norm :=
    change (peek Eio) with (peek Esl);
    change (next Eio) with (next Esl);
    change (peek_or_null Eio) with (peek_or_null Esl);
    change (skip_digits Eio) with (skip_digits Esl);
    change (parse_whitespace Eio) with (parse_whitespace Esl);
    change (leave Eio) with (leave Esl);
    change (visit_number_cfg Eio) with (visit_number_cfg Esl);
    change (Read.cf Eio) with cf;
    change (Read.cf Esl) with cf.

  Ltac split_pairs := repeat match goal with p : (_ * _)%type |- _ => destruct p end.

  Ltac destr_scrut x :=
    lazymatch x with
    | match ?y with _ => _ end => destr_scrut y
    | _ => destruct x eqn:?
    end.

  (* close a leaf  f Eio .. = f Esl ..  with the lemma database; leave it open when that fails *)
  Ltac rk_head := try solve [eauto 6 with rk nocore].

  Ltac rk_go :=
    cbv beta iota zeta;
    lazymatch goal with
    | |- ?a = ?b =>
      first
        [ constr_eq a b; reflexivity
        | lazymatch goal with
          | |- bind (parse_str _ _) _ = bind (parse_str _ _) _ =>
            apply parse_str_bind;
            let a := fresh "a" in let f1 := fresh "f1" in let f2 := fresh "f2" in let s' := fresh "s'" in
            intros a f1 f2 s'; rk_go
          | |- bind _ _ = bind _ _ =>
            apply bind_cong';
            [ rk_go
            | let a := fresh "a" in let Ha := fresh "Ha" in intros a Ha; split_pairs; rk_go ]
          | |- match ?x with _ => _ end = _ => destr_scrut x; rk_go
          | |- _ => rk_head
          end ]
    end.

  Ltac rk_start := intros; norm; rk_go.

  (* ------------------------------------------------------------------------------------ *)
  (* Read.v                                                                                *)
  Lemma parse_ident_rk : forall ident s, parse_ident Eio ident s = parse_ident Esl ident s.
  Proof.
    induction ident as [|e ident IH]; intros s.
    - reflexivity.
    - cbn [parse_ident]. norm. rk_go.
  Qed.
  #[local] Hint Resolve parse_ident_rk : rk.

  Lemma enter_rk : forall s, pkok s -> enter Eio s = enter Esl s.
  Proof.
    intros s Hp. unfold enter. norm. rk_go.
  Qed.
  #[local] Hint Resolve enter_rk : rk.

  (* ------------------------------------------------------------------------------------ *)
  (* Num.v                                                                                 *)
  Lemma f64_from_parts_rk : forall positive sig e s, pkok s ->
    f64_from_parts Eio positive sig e s = f64_from_parts Esl positive sig e s.
  Proof. unfold f64_from_parts. rk_start. Qed.
  #[local] Hint Resolve f64_from_parts_rk : rk.

  Lemma f64_long_from_parts_rk : forall positive integer fraction e s, pkok s ->
    f64_long_from_parts Eio positive integer fraction e s = f64_long_from_parts Esl positive integer fraction e s.
  Proof. unfold f64_long_from_parts. rk_start. Qed.
  #[local] Hint Resolve f64_long_from_parts_rk : rk.

  Lemma parse_exponent_overflow_rk : forall positive zero_sig positive_exp s, pk s = false ->
    parse_exponent_overflow Eio positive zero_sig positive_exp s
    = parse_exponent_overflow Esl positive zero_sig positive_exp s.
  Proof. unfold parse_exponent_overflow. rk_start. Qed.
  #[local] Hint Resolve parse_exponent_overflow_rk : rk.

  Lemma exponent_front_rk : forall s, exponent_front Eio s = exponent_front Esl s.
  Proof. unfold exponent_front. rk_start. Qed.
  #[local] Hint Resolve exponent_front_rk : rk.

  (* exponent_front ends with `advance`: no peek outstanding *)
  Lemma exponent_front_post : forall s pe e ov s', exponent_front Esl s = Ok (pe, (e, ov), s') -> pk s' = false.
  Proof.
    intros s pe e ov s'. unfold exponent_front. cbv beta iota zeta.
    destruct (peek_or_null Esl (discard s)) as [[c s1]|c0 i0| |]; cbn [bind]; try (intros H; discriminate H).
    assert (Hgoal : forall (pe0 : bool) (s2 : st),
      (let* (o, s3) := next Esl s2 in
       match o with
       | Some c1 => if is_digit c1
                    then let '(n, e0, ov0) := exp_loop (rest s3) (digit_val c1) in Ok (pe0, (e0, ov0), advance n s3)
                    else @error (bool * (N * bool) * st) Esl s3 InvalidNumber
       | None => error Esl s3 EofWhileParsingValue
       end) = Ok (pe, (e, ov), s') -> pk s' = false).
    { intros pe0 s2.
      destruct (next Esl s2) as [[o s3]|c0 i0| |]; cbn [bind]; try (intros H; discriminate H).
      destruct o as [c1|]; [|intros H; discriminate H].
      destruct (is_digit c1); [|intros H; discriminate H].
      destruct (exp_loop (rest s3) (digit_val c1)) as [[n e0] ov0].
      intros H; inversion H; reflexivity. }
    destruct (c =? 43); [|destruct (c =? 45)]; cbn [bind]; apply Hgoal.
  Qed.
  #[local] Hint Resolve exponent_front_post : rk.

  Lemma parse_exponent_rk : forall positive sig starting_exp s,
    parse_exponent Eio positive sig starting_exp s = parse_exponent Esl positive sig starting_exp s.
  Proof. unfold parse_exponent. rk_start. Qed.
  #[local] Hint Resolve parse_exponent_rk : rk.

  Lemma parse_long_exponent_rk : forall positive integer fraction s,
    parse_long_exponent Eio positive integer fraction s = parse_long_exponent Esl positive integer fraction s.
  Proof. unfold parse_long_exponent. rk_start. Qed.
  #[local] Hint Resolve parse_long_exponent_rk : rk.

  Lemma parse_long_decimal_rk : forall positive integer fraction0 s,
    parse_long_decimal Eio positive integer fraction0 s = parse_long_decimal Esl positive integer fraction0 s.
  Proof. unfold parse_long_decimal. rk_start. Qed.
  #[local] Hint Resolve parse_long_decimal_rk : rk.

  Lemma parse_decimal_overflow_rk : forall positive sig e s,
    parse_decimal_overflow Eio positive sig e s = parse_decimal_overflow Esl positive sig e s.
  Proof. unfold parse_decimal_overflow. rk_start. Qed.
  #[local] Hint Resolve parse_decimal_overflow_rk : rk.

  Lemma parse_decimal_rk : forall positive sig exp_before s,
    parse_decimal Eio positive sig exp_before s = parse_decimal Esl positive sig exp_before s.
  Proof. unfold parse_decimal. rk_start. Qed.
  #[local] Hint Resolve parse_decimal_rk : rk.

  Lemma parse_long_integer_rk : forall positive sig s,
    parse_long_integer Eio positive sig s = parse_long_integer Esl positive sig s.
  Proof. unfold parse_long_integer. rk_start. Qed.
  #[local] Hint Resolve parse_long_integer_rk : rk.

  Lemma parse_number_rk : forall positive sig s,
    parse_number Eio positive sig s = parse_number Esl positive sig s.
  Proof. unfold parse_number. rk_start. Qed.
  #[local] Hint Resolve parse_number_rk : rk.

  Lemma parse_integer_rk : forall positive s,
    parse_integer Eio positive s = parse_integer Esl positive s.
  Proof. unfold parse_integer. rk_start. Qed.
  #[local] Hint Resolve parse_integer_rk : rk.

  Lemma scan_or_eof_rk : forall s, scan_or_eof Eio s = scan_or_eof Esl s.
  Proof. unfold scan_or_eof. rk_start. Qed.
  #[local] Hint Resolve scan_or_eof_rk : rk.

  Lemma scan_or_eof_post : forall s b s', scan_or_eof Esl s = Ok (b, s') -> pk s' = false.
  Proof.
    intros s b s'. unfold scan_or_eof.
    destruct (next Esl s) as [[o s1]|c0 i0| |] eqn:Hn; cbn [bind]; try (intros H; discriminate H).
    destruct o as [b1|]; intros H; [|discriminate H].
    inversion H; subst. eapply next_post; exact Hn.
  Qed.
  #[local] Hint Resolve scan_or_eof_post : rk.

  Lemma scan_exponent_rk : forall e s, scan_exponent Eio e s = scan_exponent Esl e s.
  Proof. unfold scan_exponent. rk_start. Qed.
  #[local] Hint Resolve scan_exponent_rk : rk.

  Lemma scan_decimal_rk : forall s, scan_decimal Eio s = scan_decimal Esl s.
  Proof. unfold scan_decimal. rk_start. Qed.
  #[local] Hint Resolve scan_decimal_rk : rk.

  Lemma scan_number_rk : forall s, scan_number Eio s = scan_number Esl s.
  Proof. unfold scan_number. rk_start. Qed.
  #[local] Hint Resolve scan_number_rk : rk.

  Lemma scan_integer_rk : forall s, scan_integer Eio s = scan_integer Esl s.
  Proof. unfold scan_integer. rk_start. Qed.
  #[local] Hint Resolve scan_integer_rk : rk.

  Lemma parse_any_number_rk : forall positive s,
    parse_any_number Eio positive s = parse_any_number Esl positive s.
  Proof. unfold parse_any_number. rk_start. Qed.
  #[local] Hint Resolve parse_any_number_rk : rk.

  Lemma scan_integer128_rk : forall s, scan_integer128 Eio s = scan_integer128 Esl s.
  Proof. unfold scan_integer128. rk_start. Qed.

  Lemma ignore_exponent_rk : forall s, ignore_exponent Eio s = ignore_exponent Esl s.
  Proof. unfold ignore_exponent. rk_start. Qed.
  #[local] Hint Resolve ignore_exponent_rk : rk.

  Lemma ignore_decimal_rk : forall s, ignore_decimal Eio s = ignore_decimal Esl s.
  Proof. unfold ignore_decimal. rk_start. Qed.
  #[local] Hint Resolve ignore_decimal_rk : rk.

  Lemma ignore_integer_rk : forall s, ignore_integer Eio s = ignore_integer Esl s.
  Proof. unfold ignore_integer. rk_start. Qed.
  #[local] Hint Resolve ignore_integer_rk : rk.

  (* ------------------------------------------------------------------------------------ *)
  (* De.v                                                                                  *)
  Lemma parse_object_colon_rk : forall s, parse_object_colon Eio s = parse_object_colon Esl s.
  Proof. unfold parse_object_colon. rk_start. Qed.
  #[local] Hint Resolve parse_object_colon_rk : rk.

  Lemma end_seq_rk : forall s, end_seq Eio s = end_seq Esl s.
  Proof. unfold end_seq. rk_start. Qed.
  #[local] Hint Resolve end_seq_rk : rk.

  Lemma end_map_rk : forall s, end_map Eio s = end_map Esl s.
  Proof. unfold end_map. rk_start. Qed.
  #[local] Hint Resolve end_map_rk : rk.

  Lemma has_next_element_rk : forall first s, has_next_element Eio first s = has_next_element Esl first s.
  Proof. unfold has_next_element. rk_start. Qed.
  #[local] Hint Resolve has_next_element_rk : rk.

  Lemma has_next_key_rk : forall first s, has_next_key Eio first s = has_next_key Esl first s.
  Proof. unfold has_next_key. rk_start. Qed.
  #[local] Hint Resolve has_next_key_rk : rk.

  Lemma de_end_rk : forall s, de_end Eio s = de_end Esl s.
  Proof. unfold de_end. rk_start. Qed.
  #[local] Hint Resolve de_end_rk : rk.

  Lemma de_rk : forall fuel,
    (forall s, parse_value fuel Eio s = parse_value fuel Esl s) /\
    (forall first s, parse_seq fuel Eio first s = parse_seq fuel Esl first s) /\
    (forall first s, parse_map fuel Eio first s = parse_map fuel Esl first s).
  Proof.
    induction fuel as [|f (IHv & IHs & IHm)].
    - repeat split; reflexivity.
    - split; [|split].
      + intros s. cbn [parse_value]. norm. rk_go.
      + intros first s. cbn [parse_seq]. norm. rk_go.
      + intros first s. cbn [parse_map]. norm. rk_go.
  Qed.

  Theorem parse_value_rk : forall fuel s, parse_value fuel Eio s = parse_value fuel Esl s.
  Proof. intros fuel. apply (de_rk fuel). Qed.
  Theorem parse_seq_rk : forall fuel first s, parse_seq fuel Eio first s = parse_seq fuel Esl first s.
  Proof. intros fuel. apply (de_rk fuel). Qed.
  Theorem parse_map_rk : forall fuel first s, parse_map fuel Eio first s = parse_map fuel Esl first s.
  Proof. intros fuel. apply (de_rk fuel). Qed.
  #[local] Hint Resolve parse_value_rk : rk.

  Theorem from_input_rk : forall bs, from_input Eio bs = from_input Esl bs.
  Proof. unfold from_input. rk_start. Qed.

  (* ------------------------------------------------------------------------------------ *)
  (* Ignore.v                                                                              *)
  Lemma ig_rk : forall fuel,
    (forall stk s, ig_outer fuel Eio stk s = ig_outer fuel Esl stk s) /\
    (forall accept_comma frame stk s,
       ig_inner fuel Eio accept_comma frame stk s = ig_inner fuel Esl accept_comma frame stk s).
  Proof.
    induction fuel as [|f (IHo & IHi)].
    - split; reflexivity.
    - split.
      + intros stk s. cbn [ig_outer]. norm. rk_go.
      + intros accept_comma frame stk s. cbn [ig_inner]. norm. rk_go.
  Qed.

  Theorem ignore_value_rk : forall s, ignore_value Eio s = ignore_value Esl s.
  Proof. intros s. unfold ignore_value. apply (ig_rk (ignore_fuel s)). Qed.
  #[local] Hint Resolve ignore_value_rk : rk.

  Theorem ignored_from_input_rk : forall bs, ignored_from_input Eio bs = ignored_from_input Esl bs.
  Proof. unfold ignored_from_input. rk_start. Qed.

  Theorem raw_value_rk : forall s, raw_value Eio s = raw_value Esl s.
  Proof. unfold raw_value. rk_start. Qed.

  (* ------------------------------------------------------------------------------------ *)
  (* Stream.v                                                                              *)
  Lemma peek_end_of_value_rk : forall s, peek_end_of_value Eio s = peek_end_of_value Esl s.
  Proof. unfold peek_end_of_value. rk_start. Qed.

  (* both environments end with end-of-input ([tm = TEof]), so the lookahead after a bare scalar can never
     report an I/O error: [peek] only fails through [at_end] when [tm E = TFail _] *)
  Lemma peek_end_of_value_no_io : forall s k i, peek_end_of_value Esl s <> Err (Io k) i.
  Proof.
    intros s k i. unfold peek_end_of_value, peek, at_end. change (tm Esl) with TEof.
    destruct (rest s) as [|b r]; cbn [bind].
    - discriminate.
    - destruct (is_delim b); [discriminate|]. unfold peek_error. discriminate.
  Qed.

  Lemma value_item_rk : forall s, value_item Eio s = value_item Esl s.
  Proof. intros s. unfold value_item. apply parse_value_rk. Qed.

  Lemma ignored_item_rk : forall s, ignored_item Eio s = ignored_item Esl s.
  Proof. unfold ignored_item. rk_start. Qed.

  Lemma parse_whitespace_nil : forall s, rest s = [] ->
    parse_whitespace Esl s = Ok (None, mkSt [] (off s + 0) false (depth s)).
  Proof.
    intros s Hr. unfold parse_whitespace, peek, at_end, advance. change (tm Esl) with TEof.
    rewrite Hr. reflexivity.
  Qed.

  (* one call of next(): equal observations, simulation preserved *)
  Lemma stream_next_sim : forall itemp a b,
    (forall s, itemp Eio s = itemp Esl s) -> ss_sim a b ->
    fst (stream_next Eio itemp a) = fst (stream_next Esl itemp b) /\
    ss_off (snd (stream_next Eio itemp a)) = ss_off (snd (stream_next Esl itemp b)) /\
    ss_sim (snd (stream_next Eio itemp a)) (snd (stream_next Esl itemp b)).
  Proof.
    intros itemp a b Hitem [[Hab Hf] | (Hf & Hrest & Hoff)].
    - (* not failed: the two states are identical *)
      subst b. unfold stream_next.
      change (is_io Eio) with true. change (is_io Esl) with false. rewrite Hf.
      cbn [andb]. cbv beta iota.
      change (parse_whitespace Eio) with (parse_whitespace Esl).
      destruct (parse_whitespace_ok (ss_st a)) as (o & s1 & Hpw). rewrite Hpw.
      destruct o as [b0|].
      + rewrite Hitem. destruct (itemp Esl s1) as [[v s2]|c i| |].
        * destruct ((b0 =? 91) || (b0 =? 34) || (b0 =? 123)).
          -- cbn [fst snd ss_off]. split; [reflexivity|]. split; [reflexivity|].
             left. split; reflexivity.
          -- rewrite peek_end_of_value_rk.
             destruct (peek_end_of_value Esl s2) as [s3|c i| |] eqn:Hpev.
             ++ cbn [fst snd ss_off]. split; [reflexivity|]. split; [reflexivity|]. left; split; reflexivity.
             ++ destruct c;
                  try (cbn [fst snd ss_off]; split; [reflexivity|]; split; [reflexivity|]; left; split; reflexivity).
                (* the only remaining case is Err (Io _) i: impossible for an end-of-input reader *)
                exfalso. exact (peek_end_of_value_no_io s2 _ i Hpev).
             ++ cbn [fst snd ss_off]. split; [reflexivity|]. split; [reflexivity|]. left; split; reflexivity.
             ++ cbn [fst snd ss_off]. split; [reflexivity|]. split; [reflexivity|]. left; split; reflexivity.
        * unfold set_failed. change (is_io Eio) with true. change (is_io Esl) with false.
          cbn [fst snd ss_off ss_st ss_failed]. split; [reflexivity|]. split; [reflexivity|].
          right. cbn [ss_failed ss_st ss_off rest off]. repeat split; reflexivity.
        * unfold set_failed. change (is_io Eio) with true. change (is_io Esl) with false.
          cbn [fst snd ss_off ss_st ss_failed]. split; [reflexivity|]. split; [reflexivity|].
          right. cbn [ss_failed ss_st ss_off rest off]. repeat split; reflexivity.
        * unfold set_failed. change (is_io Eio) with true. change (is_io Esl) with false.
          cbn [fst snd ss_off ss_st ss_failed]. split; [reflexivity|]. split; [reflexivity|].
          right. cbn [ss_failed ss_st ss_off rest off]. repeat split; reflexivity.
      + cbn [fst snd ss_off]. split; [reflexivity|]. split; [reflexivity|].
        left. split; reflexivity.
    - (* failed: io returns None on the flag, slice sees the truncated input *)
      unfold stream_next at 1 3 5.
      change (is_io Eio) with true. rewrite Hf. cbn [andb]. cbv beta iota. cbn [fst snd].
      unfold stream_next. change (is_io Esl) with false. cbn [andb]. cbv beta iota.
      rewrite (parse_whitespace_nil _ Hrest).
      cbn [fst snd ss_off ss_st off rest].
      split; [reflexivity|]. split; [rewrite Nat.add_0_r; exact Hoff|].
      right. cbn [ss_st rest off]. split; [exact Hf|]. split; [reflexivity|].
      rewrite Nat.add_0_r; exact Hoff.
  Qed.

  (* the general statement: histories from simulated states are equal *)
  Theorem stream_run_sim : forall itemp, (forall s, itemp Eio s = itemp Esl s) ->
    forall n a b, ss_sim a b -> stream_run n Eio itemp a = stream_run n Esl itemp b.
  Proof.
    intros itemp Hitem. induction n as [|n IH]; intros a b Hsim.
    - reflexivity.
    - cbn [stream_run].
      destruct (stream_next_sim itemp a b Hitem Hsim) as (H1 & H2 & H3).
      destruct (stream_next Eio itemp a) as [ia a'].
      destruct (stream_next Esl itemp b) as [ib b'].
      cbn [fst snd] in H1, H2, H3. subst ib. rewrite H2. f_equal. apply IH. exact H3.
  Qed.

  Lemma itemp_rk : forall itemp, (itemp = value_item \/ itemp = ignored_item) ->
    forall s, itemp Eio s = itemp Esl s.
  Proof.
    intros itemp [Hi | Hi] s; subst itemp; [apply value_item_rk | apply ignored_item_rk].
  Qed.

  (* stream_run_rk as stated in the task (for ALL ss) is FALSE: a state whose `failed` flag is already
     set makes the io iterator return None at once, while the slice iterator ignores the flag
     (see [stream_run_rk_counterexample] below).  Strongest true variant on a common state: *)
  Theorem stream_run_rk_partial : forall n itemp ss,
    (itemp = value_item \/ itemp = ignored_item) -> ss_failed ss = false ->
    stream_run n Eio itemp ss = stream_run n Esl itemp ss.
  Proof.
    intros n itemp ss Hi Hf. apply stream_run_sim.
    - apply itemp_rk; exact Hi.
    - left. split; [reflexivity|exact Hf].
  Qed.

  (* every stream starts from [stream_init bs] *)
  Theorem stream_run_rk_init : forall n itemp bs,
    (itemp = value_item \/ itemp = ignored_item) ->
    stream_run n Eio itemp (stream_init bs) = stream_run n Esl itemp (stream_init bs).
  Proof. intros n itemp bs Hi. apply stream_run_rk_partial; [exact Hi|reflexivity]. Qed.

End RkIndep.

(* the unrestricted stream statement fails on a state with the failed flag already set *)
Example stream_run_rk_counterexample :
  let c := mkCfg false false false false in
  let ss := mkSS (init_st [49]) 0 true in
  stream_run 1 (mkEnv RIo TEof c) value_item ss = [(None, 0%nat)] /\
  stream_run 1 (mkEnv RSlice TEof c) value_item ss = [(Some (IVal (VNum (NPos 1))), 1%nat)].
Proof. vm_compute. split; reflexivity. Qed.

Check parse_value_rk.
Check stream_run_rk_partial.
Print Assumptions parse_value_rk.
Print Assumptions parse_seq_rk.
Print Assumptions parse_map_rk.
Print Assumptions from_input_rk.
Print Assumptions ignore_value_rk.
Print Assumptions ignored_from_input_rk.
Print Assumptions raw_value_rk.
Print Assumptions stream_run_sim.
Print Assumptions stream_run_rk_partial.
Print Assumptions stream_run_rk_init.
Print Assumptions stream_run_rk_counterexample.
(* for comparison: the axioms listed above for the parse_value-family theorems are exactly those of the
   MODEL definitions they mention (Flocq's Bmult/Bdiv/binary_normalize carry Reals-based proof terms);
   the proofs in this file add none (cf. ignore_value_rk / stream_run_sim: closed). *)
Print Assumptions parse_value.
Print Assumptions f64_from_parts.
