(* Proofs/NumParseSrc2.v — f64_from_parts (default build) of Model/Num.v IS the translated source, and the exported conjunction
   numparse_model_is_translated_source.  (Second half of Proofs/NumParseSrc.v; the Flocq / Reals axioms enter here, through
   FloatDefault.f64_loop_fuel4_partial: the model runs the `loop` of f64_from_parts with fuel 4, the interpreter with the caller's fuel.) *)
From Coq Require Import String ZArith Lia ZifyBool ZifyNat ZifyN.
From SJ Require Import Base.Bytes Base.FloatB Gen.Tables Model.Read Model.Num Model.NumParseAst Gen.NumParseTables Proofs.NumInt
  Proofs.FloatDefault Proofs.NumParseSrc.
From Flocq Require Import Core BinarySingleNaN.
Local Open Scope string_scope.
Local Open Scope list_scope.
Local Open Scope Z_scope.

#[local] Arguments peek_or_null : simpl never.
#[local] Arguments peek : simpl never.
#[local] Arguments next : simpl never.
#[local] Arguments discard : simpl never.
#[local] Arguments advance : simpl never.
#[local] Arguments error : simpl never.
#[local] Arguments peek_error : simpl never.
#[local] Arguments exec : simpl never.
#[local] Arguments call_fn : simpl never.
#[local] Arguments exec_block : simpl never.
#[local] Arguments checked : simpl nomatch.
#[local] Arguments wrap : simpl never.
#[local] Arguments sat : simpl never.
#[local] Arguments tab_get : simpl never.
#[local] Arguments rne_decimal : simpl never.
#[local] Arguments b64_of_Z : simpl never.
#[local] Arguments b64_mul : simpl never.
#[local] Arguments b64_div : simpl never.
#[local] Arguments b64_neg : simpl never.
#[local] Arguments b64_is_inf : simpl never.
#[local] Arguments b64_is_zero : simpl never.
#[local] Arguments Beqb : simpl never.
#[local] Arguments Z.add : simpl nomatch.
#[local] Arguments Z.sub : simpl nomatch.
#[local] Arguments Z.mul : simpl nomatch.
#[local] Arguments Z.opp : simpl nomatch.
#[local] Arguments Z.abs : simpl nomatch.
#[local] Arguments Z.leb : simpl nomatch.
#[local] Arguments Z.ltb : simpl nomatch.
#[local] Arguments Z.eqb : simpl nomatch.
#[local] Arguments Z.of_N : simpl nomatch.
#[local] Arguments Z.to_N : simpl nomatch.
#[local] Arguments Z.of_nat : simpl nomatch.
#[local] Arguments Z.to_nat : simpl nomatch.
#[local] Arguments in_range : simpl nomatch.
#[local] Arguments Num.f64_from_parts : simpl never.
#[local] Arguments Num.f64_loop : simpl never.
#[local] Arguments Num.pow10_tab : simpl never.

Notation P := NUMPARSE.

(* ---- the POW10 table of the translation is the one of Gen/Tables.v (both regenerated from the source) ---- *)
Lemma NP_POW10_is : NP_POW10 = map (fun e => (1, e)) POW10_EXPS.
Proof. vm_compute. reflexivity. Qed.
Lemma NP_POW10_len : length NP_POW10 = 309%nat.
Proof. vm_compute. reflexivity. Qed.

Lemma tab_small (i : Z) : 0 <= i <= 308 -> tab_get NP_POW10 i = Some (1, i).
Proof.
  intros Hi. unfold tab_get. rewrite NP_POW10_len.
  replace ((0 <=? i) && (i <? Z.of_nat 309)) with true by lia.
  rewrite NP_POW10_is, nth_error_map, nth_POW10_EXPS.
  replace (Z.to_nat i <? 309)%nat with true by (symmetry; apply Nat.ltb_lt; lia).
  cbn [option_map]. rewrite Z2Nat.id by lia. reflexivity.
Qed.
Lemma tab_big (i : Z) : 308 < i -> tab_get NP_POW10 i = None.
Proof.
  intros Hi. unfold tab_get. rewrite NP_POW10_len.
  replace ((0 <=? i) && (i <? Z.of_nat 309)) with false by lia. reflexivity.
Qed.

(* POW10.get(exponent.wrapping_abs() as usize)  =  pow10_tab (Z.abs e) *)
Lemma tab_idx (e : Z) : i32_ok e ->
  tab_get NP_POW10 (wrap Usize (wrap I32 (Z.abs e))) =
  match pow10_tab (Z.abs e) with Some _ => Some (1, Z.abs e) | None => None end
  /\ (forall p, pow10_tab (Z.abs e) = Some p -> p = rne_decimal 1 (Z.abs e)).
Proof.
  intros He. unfold i32_ok in He.
  destruct (Z.eq_dec e (-2147483648)) as [Hmin|Hmin].
  - subst e. change (Z.abs (-2147483648)) with 2147483648.
    rewrite pow10_tab_none by lia. split; [|intros p Hp; discriminate Hp].
    change (wrap Usize (wrap I32 2147483648)) with 18446744071562067968. apply tab_big. lia.
  - assert (Ha : 0 <= Z.abs e <= 2147483647) by lia.
    rewrite (wrap_id I32) by (apply in_range_i32; unfold i32_ok; lia).
    rewrite (wrap_id Usize) by (unfold in_range, ity_lo, ity_hi; lia).
    destruct (Z_le_gt_dec (Z.abs e) 308) as [Hle|Hgt].
    + rewrite pow10_tab_some by lia. split; [apply tab_small; lia|]. intros p Hp. inversion Hp. reflexivity.
    + rewrite pow10_tab_none by lia. split; [apply tab_big; lia|]. intros p Hp; discriminate Hp.
Qed.

Lemma beqb_zero (f : b64) : Beqb f (B754_zero false) = b64_is_zero f.
Proof. destruct f as [s|s| |s m e Hb]; try destruct s; reflexivity. Qed.

Section S2.
Variable E : env.

Ltac step := unfold exec_scope;
  first [rewrite blk_nil
        | rewrite blk_cons;
          first [rewrite ex_eat | rewrite ex_let | rewrite ex_assign | rewrite ex_if | rewrite ex_match | rewrite ex_letmatch
                | rewrite ex_break | rewrite ex_ret | rewrite ex_matchget]]; cbn.

Definition LOOP_ffp := SLoop [
    SMatchGet "POW10" (ECast (EM1 MWrappingAbs (EVar "exponent")) (TInt Usize)) "pow" [
      SIf (ECmp CGe (EVar "exponent") (EInt I32 0)) [
        SAssign "f" (EBin OMul (EVar "f") (EVar "pow"));
        SIf (EM1 MIsInfinite (EVar "f")) [SRet (RErr true NumberOutOfRange)] []] [SAssign "f" (EBin ODiv (EVar "f") (EVar "pow"))];
      SBreak] [
      SIf (ECmp CEq (EVar "f") (EFloat 0 (-1))) [SBreak] [];
      SIf (ECmp CGe (EVar "exponent") (EInt I32 0)) [SRet (RErr true NumberOutOfRange)] [];
      SAssign "f" (EBin ODiv (EVar "f") (EFloat 1 308));
      SAssign "exponent" (EBin OAdd (EVar "exponent") (EInt I32 308))]].

Notation ffp_locals f positive sig e :=
  [[("f", VF f); ("positive", VB positive); ("significand", VInt U64 sig); ("exponent", VInt I32 e)]].

Lemma loop_ffp positive sig s : forall n f e fuel o, f64_loop n f e = Ok o -> i32_ok e -> (n + 5 <= fuel)%nat ->
  match o with
  | None => exec fuel E P LOOP_ffp (ffp_locals f positive sig e) s = peek_error E s NumberOutOfRange
  | Some f' => exists e', exec fuel E P LOOP_ffp (ffp_locals f positive sig e) s = Ok (OFall (ffp_locals f' positive sig e') s)
  end.
Proof.
  induction n as [|n IH]; intros f e fuel o Hl He Hf; [discriminate Hl|].
  rewrite f64_loop_S in Hl.
  destruct fuel as [|[|[|[|[|fuel]]]]]; [lia ..|].
  unfold LOOP_ffp. rewrite ex_loop. step.
  change (find_tab "POW10" (ftabs P)) with (Some NP_POW10).
  destruct (tab_idx e He) as [Hidx Hp]. rewrite Hidx.
  destruct (pow10_tab (Z.abs e)) as [p|] eqn:Hpt.
  - rewrite (Hp p eq_refl) in Hl. cbn. step.
    destruct (0 <=? e) eqn:Hge.
    + cbn zeta in Hl. repeat step.
      destruct (b64_is_inf (b64_mul f (rne_decimal 1 (Z.abs e)))) eqn:Hinf; inversion Hl; subst o; cbn.
      * repeat step. reflexivity.
      * exists e. repeat step. reflexivity.
    + inversion Hl; subst o. exists e. repeat step. reflexivity.
  - cbn. step. change (rne_decimal 0 (-1)) with (B754_zero false : b64). rewrite beqb_zero.
    destruct (b64_is_zero f) eqn:Hz.
    + inversion Hl; subst o. exists e. repeat step. reflexivity.
    + cbn. repeat step. destruct (0 <=? e) eqn:Hge.
      * inversion Hl; subst o. repeat step. reflexivity.
      * cbn. repeat step. assert (He' : i32_ok (e + 308)) by (unfold i32_ok in *; lia).
        rewrite checked_ok by (apply in_range_i32; exact He'). cbn. repeat step. fold LOOP_ffp.
        specialize (IH (b64_div f (rne_decimal 1 308)) (e + 308) (S (S (S (S fuel)))) o Hl He' ltac:(lia)).
        exact IH.
Qed.

Theorem f64_from_parts_src : forall positive sig e s fuel, float_roundtrip (cf E) = false -> (sig <= u64_max)%N -> i32_ok e ->
  (10 <= fuel)%nat ->
  run fuel E P "f64_from_parts" [VB positive; VInt U64 (Z.of_N sig); VInt I32 e] s = liftF (Num.f64_from_parts E positive sig e s).
Proof.
  intros positive sig e s fuel Hfr Hsig He Hf. destruct fuel as [|[|fuel]]; [lia|lia|].
  unfold run, call_fn. change (find_fn "f64_from_parts" (fns P)) with (Some NP_f64_from_parts). cbn.
  step. rewrite blk_cons. fold LOOP_ffp.
  unfold Num.f64_from_parts. rewrite Hfr.
  destruct (b64_of_Z_u64 (Z.of_N sig)) as (_ & Hfin & _); [lia|].
  pose proof (f64_loop_fuel4_partial _ e Hfin) as Hfuel.
  pose proof (f64_loop_shape 4 (b64_of_Z (Z.of_N sig)) e) as Hshape.
  destruct (f64_loop 4 (b64_of_Z (Z.of_N sig)) e) as [o|c i| |] eqn:Hl; [|elim Hshape|now elim Hfuel|elim Hshape].
  pose proof (loop_ffp positive (Z.of_N sig) s 4 _ e (S (S fuel)) o Hl He ltac:(lia)) as Hloop.
  destruct o as [f'|]; cbn.
  - destruct Hloop as [e' Hloop].
    match goal with |- context [exec ?a E P LOOP_ffp ?l s] =>
      replace (exec a E P LOOP_ffp l s) with (Ok (OFall (ffp_locals f' positive (Z.of_N sig) e') s) : res outcome) by (symmetry; exact Hloop) end.
    cbn. step. destruct positive; reflexivity.
  - match goal with |- context [exec ?a E P LOOP_ffp ?l s] =>
      replace (exec a E P LOOP_ffp l s) with (peek_error E s NumberOutOfRange : res outcome) by (symmetry; exact Hloop) end.
    reflexivity.
Qed.

End S2.

Theorem ffp_spec_holds : forall E, float_roundtrip (cf E) = false -> ffp_spec E.
Proof.
  intros E Hfr fuel positive sig e s Hsig He Hf.
  apply (f64_from_parts_src E positive sig e s fuel Hfr Hsig (in_range_i32_inv e He)). unfold FFP_FUEL in Hf. lia.
Qed.

(* ---- the exported statement ---- *)
Theorem numparse_model_is_translated_source : forall (E : env), float_roundtrip (cf E) = false ->
  forall (positive : bool) (s : st) (fuel : nat),
  (forall zs pe, (length (rest s) + 5 <= fuel)%nat ->
     run fuel E NUMPARSE "parse_exponent_overflow" [VB positive; VB zs; VB pe] s = liftF (Num.parse_exponent_overflow E positive zs pe s)) /\
  (forall sig se, (sig <= u64_max)%N -> i32_ok se -> (length (rest s) + 16 <= fuel)%nat ->
     run fuel E NUMPARSE "parse_exponent" [VB positive; VInt U64 (Z.of_N sig); VInt I32 se] s = liftF (Num.parse_exponent E positive sig se s)) /\
  (forall sig e, (sig <= u64_max)%N -> i32_ok e -> (length (rest s) + 20 <= fuel)%nat ->
     run fuel E NUMPARSE "parse_decimal_overflow" [VB positive; VInt U64 (Z.of_N sig); VInt I32 e] s =
     liftF (Num.parse_decimal_overflow E positive sig e s)) /\
  (forall sig eb, (sig <= u64_max)%N ->
     -2147483648 <= eb - Z.of_nat (length (rest s)) -> eb <= 2147483647 -> Z.of_nat (length (rest s)) <= 2147483648 ->
     (length (rest s) + 30 <= fuel)%nat ->
     run fuel E NUMPARSE "parse_decimal" [VB positive; VInt U64 (Z.of_N sig); VInt I32 eb] s = liftF (Num.parse_decimal E positive sig eb s)) /\
  (forall sig, (sig <= u64_max)%N -> Z.of_nat (length (rest s)) <= 2147483647 -> (length (rest s) + 38 <= fuel)%nat ->
     run fuel E NUMPARSE "parse_long_integer" [VB positive; VInt U64 (Z.of_N sig)] s = liftF (Num.parse_long_integer E positive sig s)) /\
  (forall sig, (sig <= u64_max)%N -> Z.of_nat (length (rest s)) <= 2147483648 -> (length (rest s) + 34 <= fuel)%nat ->
     run fuel E NUMPARSE "parse_number" [VB positive; VInt U64 (Z.of_N sig)] s = liftP (Num.parse_number E positive sig s)) /\
  (Z.of_nat (length (rest s)) <= 2147483647 -> (length (rest s) + 47 <= fuel)%nat ->
     run fuel E NUMPARSE "parse_integer" [VB positive] s = liftP (Num.parse_integer E positive s)) /\
  (forall sig e, (sig <= u64_max)%N -> i32_ok e -> (10 <= fuel)%nat ->
     run fuel E NUMPARSE "f64_from_parts" [VB positive; VInt U64 (Z.of_N sig); VInt I32 e] s = liftF (Num.f64_from_parts E positive sig e s)).
Proof.
  intros E Hfr positive s fuel. pose proof (ffp_spec_holds E Hfr) as Hffp.
  split; [intros zs pe Hf; apply parse_exponent_overflow_src; exact Hf|].
  split; [intros sig se Hsig Hse Hf; apply parse_exponent_src; assumption|].
  split; [intros sig e Hsig He Hf; apply parse_decimal_overflow_src; assumption|].
  split; [intros sig eb Hsig H1 H2 H3 Hf; apply parse_decimal_src; assumption|].
  split; [intros sig Hsig H1 Hf; apply parse_long_integer_src; assumption|].
  split; [intros sig Hsig H1 Hf; apply parse_number_src; assumption|].
  split; [intros H1 Hf; apply parse_integer_src; assumption|].
  intros sig e Hsig He Hf; apply f64_from_parts_src; assumption.
Qed.

(* the `overflow!` macro as expanded at its three uses (u64::MAX twice, i32::MAX once) evaluates to Num.overflow_mac *)
Theorem overflow_macro_is_translated_source : forall (l : locals) (a d : N),
  (lookup "significand" l = Some (VInt U64 (Z.of_N a)) -> lookup "digit" l = Some (VInt U64 (Z.of_N d)) ->
     eval (OVF "significand" "digit" U64 18446744073709551615) l = Ok (VB (overflow_mac a d u64_max))) /\
  (lookup "exp" l = Some (VInt I32 (Z.of_N a)) -> lookup "digit" l = Some (VInt I32 (Z.of_N d)) ->
     eval (OVF "exp" "digit" I32 2147483647) l = Ok (VB (overflow_mac a d i32_max))).
Proof. intros l a d. split; [apply ovf_u64 | apply ovf_i32]. Qed.

(* the expansions in the generated table are these expressions (syntactically) *)
Example overflow_uses :
  In (SIf (OVF "exp" "digit" I32 2147483647)
        [SLet "zero_significand" (ECmp CEq (EVar "significand") (EInt U64 0));
         SRet (RCall "parse_exponent_overflow" [EVar "positive"; EVar "zero_significand"; EVar "positive_exp"] None)] [])
     (match nth 4 (fbody NP_parse_exponent) SBreak with SWhileLet _ _ b => b | _ => [] end).
Proof. cbn. right. right. left. reflexivity. Qed.

(* not vacuous: the interpreted source on concrete inputs, and with too little fuel *)
Definition E_ex : env := mkEnv RSlice TEof (mkCfg false false false false).
Example parse_integer_runs_neg :
  run 60 E_ex NUMPARSE "parse_integer" [VB false] (init_st [49; 50; 51; 44]%N)
  = Ok (VPN (PI64 (-123)), mkSt [44%N] 3 true Gen.Tables.DEPTH0).
Proof. vm_compute. reflexivity. Qed.
(* floats are compared through their IEEE bit patterns (a [b64] carries a proof term) : 12.5e-7 = 0x3EB4F8B588E368F1 *)
Definition f64_bits (r : res (val * st)) : res (N * st) :=
  match r with
  | Ok (VPN (PF64 f), s) | Ok (VF f, s) => Ok (bits_of_b64 f, s)
  | Ok _ => Panic | Err c i => Err c i | OutOfFuel => OutOfFuel | Panic => Panic
  end.
Example parse_integer_runs_float :
  f64_bits (run 60 E_ex NUMPARSE "parse_integer" [VB true] (init_st [49; 50; 46; 53; 101; 45; 55; 44]%N))
  = Ok (4518509784728824049%N, mkSt [44%N] 7 true Gen.Tables.DEPTH0) /\
  f64_bits (liftP (Num.parse_integer E_ex true (init_st [49; 50; 46; 53; 101; 45; 55; 44]%N)))
  = Ok (4518509784728824049%N, mkSt [44%N] 7 true Gen.Tables.DEPTH0).
Proof. split; vm_compute; reflexivity. Qed.
Example parse_integer_exp_overflow :
  run 60 E_ex NUMPARSE "parse_integer" [VB true] (init_st [49; 101; 57; 57; 57; 57; 57; 57; 57; 57; 57; 57; 57]%N)
  = Err NumberOutOfRange 12.
Proof. vm_compute. reflexivity. Qed.
(* why parse_decimal needs [-2147483648 <= eb - length]: with eb = i32::MIN (a legal i32 argument) on ".5" the source computes
   `exponent_before_decimal_point + exponent_after_decimal_point` = i32::MIN - 1: a panic under overflow-checks; the model counts in Z *)
Example parse_decimal_needs_its_bound :
  run 40 E_ex NUMPARSE "parse_decimal" [VB true; VInt U64 5; VInt I32 (-2147483648)] (init_st [46; 53]%N) = Panic /\
  f64_bits (liftF (Num.parse_decimal E_ex true 5 (-2147483648) (init_st [46; 53]%N))) = Ok (0%N, mkSt [] 2 false Gen.Tables.DEPTH0).
Proof. split; vm_compute; reflexivity. Qed.
Example parse_integer_out_of_fuel :
  run 5 E_ex NUMPARSE "parse_integer" [VB false] (init_st [49; 50; 51; 44]%N) = OutOfFuel.
Proof. vm_compute. reflexivity. Qed.

Print Assumptions numparse_model_is_translated_source.
Print Assumptions overflow_macro_is_translated_source.
Print Assumptions parse_integer_src.
