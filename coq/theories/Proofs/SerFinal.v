(* Proofs/SerFinal.v — the two named hypotheses of Proofs/SerMain.v about other components
   ([parser_complete], [literal_kept]) are theorems of the development; the serialiser statements of
   Properties/C03.v and Properties/C15.v restated with those premises discharged.
     - [parser_complete cf] is Proofs/GrammarFinal.v [value_complete_slice];
     - [literal_kept cf] is Proofs/ApNumber.v [num_den_verbatim] (pinned as C20_num_den) composed with the
       text round trip [numlit_of_text_render] (Layout.v's splitter followed by Syntax.v's printer is the identity). *)
From SJ Require Import Base.Bytes Base.Utf8 Base.FloatB Model.Read Model.Num Model.Value Model.De Model.Sval Model.Ser Model.ValueSer
  Spec.Syntax Spec.Denote Spec.Layout
  Proofs.GrammarFinal Proofs.ApNumber
  Proofs.SerBase Proofs.SerHint Proofs.SerRender Proofs.SerValue Proofs.SerToValue Proofs.SerWriter Proofs.SerMain.
Open Scope N_scope.

(* ---- H: parser completeness ---------------------------------------------------------------------------------- *)
Theorem parser_complete_holds : forall cf, parser_complete cf.
Proof. intros cf bs v HD. exact (value_complete_slice cf bs v HD). Qed.

(* ---- H: literals are kept under arbitrary_precision ------------------------------------------------------------ *)
(* the text splitter followed by the printer is the identity (the well-formedness premise is not even needed:
   Proofs/SerBase.v proves it for every text the splitter accepts) *)
Theorem numlit_of_text_render : forall s n, numlit_of_text s = Some n -> num_ok n = true -> render_num n = s.
Proof. intros s n Hs _. exact (SerBase.numlit_of_text_render s n Hs). Qed.

Theorem literal_kept_holds : forall cf, literal_kept cf.
Proof.
  intros cf Hap s Hok. unfold number_text_ok in Hok. unfold num_image.
  destruct (numlit_of_text s) as [n|] eqn:En; [|discriminate Hok].
  rewrite (num_den_verbatim cf n Hap Hok), (numlit_of_text_render s n En Hok). reflexivity.
Qed.

(* ---- C03 with the premises discharged ------------------------------------------------------------------------- *)
Theorem C03_value_render_final : forall cf fmt32 fmt64 v, ryu_json fmt32 fmt64 -> ryu_reads_back_value cf fmt64 ->
  wf_value cf v = true ->
  exists bufs c,
    serialize cf fmt32 fmt64 Compact (sval_of_value v) = Ok bufs
    /\ concat bufs = render c /\ wfb c = true /\ nows c = true /\ denote cf c = Some v
    /\ (forall ind, exists bufsp, serialize cf fmt32 fmt64 (Pretty ind) (sval_of_value v) = Ok bufsp /\ concat bufsp = layout ind 0 c).
Proof.
  intros cf fmt32 fmt64 v HR H4 W.
  exact (C03_value_render_main' cf fmt32 fmt64 v HR H4 (literal_kept_holds cf) W).
Qed.

Theorem C03_value_roundtrip_final : forall cf fmt32 fmt64 v, ryu_json fmt32 fmt64 -> ryu_reads_back_value cf fmt64 ->
  wf_value cf v = true ->
  exists bufs c, serialize cf fmt32 fmt64 Compact (sval_of_value v) = Ok bufs /\ concat bufs = render c /\
    ((limit_disabled cf = false -> (cdepth c <= 127)%nat) -> from_input (mkEnv RSlice TEof cf) (concat bufs) = Ok v).
Proof.
  intros cf fmt32 fmt64 v HR H4 W.
  exact (C03_value_roundtrip_main' cf fmt32 fmt64 v HR H4 (literal_kept_holds cf) (parser_complete_holds cf) W).
Qed.

(* ---- C15 with the premises discharged ------------------------------------------------------------------------- *)
Theorem C15_same_success_final : forall cf fmt32 fmt64 v, ryu_json fmt32 fmt64 -> ryu_reads_back cf fmt64 ->
  wfs v = true -> c15_side (arbitrary_precision cf) v = true ->
  ((exists j, to_value cf fmt32 fmt64 v = Ok j) <-> (exists bufs, serialize cf fmt32 fmt64 Compact v = Ok bufs)).
Proof.
  intros cf fmt32 fmt64 v HR H4.
  exact (C15_same_success_main cf fmt32 fmt64 v HR H4 (literal_kept_holds cf)).
Qed.

Theorem C15_same_rejection_final : forall cf fmt32 fmt64 v, ryu_json fmt32 fmt64 -> ryu_reads_back cf fmt64 ->
  wfs v = true -> c15_side (arbitrary_precision cf) v = true ->
  ((exists e, to_value cf fmt32 fmt64 v = Err e O /\ (e = KeyMustBeAString \/ e = FloatKeyMustBeFinite))
   <-> (exists e, serialize cf fmt32 fmt64 Compact v = Err e O /\ (e = KeyMustBeAString \/ e = FloatKeyMustBeFinite))).
Proof.
  intros cf fmt32 fmt64 v HR H4.
  exact (C15_same_rejection_main cf fmt32 fmt64 v HR H4 (literal_kept_holds cf)).
Qed.

Theorem C15_same_value_final : forall cf fmt32 fmt64 v j bufs, ryu_json fmt32 fmt64 -> ryu_reads_back cf fmt64 ->
  wfs v = true -> c15_side (arbitrary_precision cf) v = true ->
  to_value cf fmt32 fmt64 v = Ok j -> serialize cf fmt32 fmt64 Compact v = Ok bufs ->
  exists c, concat bufs = render c /\ wfb c = true /\ denote cf c = Some j.
Proof.
  intros cf fmt32 fmt64 v j bufs HR H4.
  exact (C15_same_value_main cf fmt32 fmt64 v j bufs HR H4 (literal_kept_holds cf)).
Qed.

Theorem C15_parse_back_final : forall cf fmt32 fmt64 v j bufs, ryu_json fmt32 fmt64 -> ryu_reads_back cf fmt64 ->
  wfs v = true -> c15_side (arbitrary_precision cf) v = true ->
  to_value cf fmt32 fmt64 v = Ok j -> serialize cf fmt32 fmt64 Compact v = Ok bufs ->
  (forall c, concat bufs = render c -> limit_disabled cf = false -> (cdepth c <= 127)%nat) ->
  from_input (mkEnv RSlice TEof cf) (concat bufs) = Ok j.
Proof.
  intros cf fmt32 fmt64 v j bufs HR H4.
  exact (C15_parse_back_main cf fmt32 fmt64 v j bufs HR H4 (literal_kept_holds cf) (parser_complete_holds cf)).
Qed.

Print Assumptions parser_complete_holds.
Print Assumptions numlit_of_text_render.
Print Assumptions literal_kept_holds.
Print Assumptions C03_value_render_final.
Print Assumptions C03_value_roundtrip_final.
Print Assumptions C15_same_success_final.
Print Assumptions C15_same_rejection_final.
Print Assumptions C15_same_value_final.
Print Assumptions C15_parse_back_final.
