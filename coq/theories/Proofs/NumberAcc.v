(* Proofs/NumberAcc.v — C06 / C20 for the DEFAULT number representation (arbitrary_precision = false):
   the accessors of `Number { n: N }`, N = PosInt(u64) | NegInt(i64) | Float(f64)   (src/number.rs lines 75-224).

   Existing model definitions (Model/Pointer.v, validated by the correspondence check of C18):
       num_as_u64, num_as_i64, num_as_f64, num_as_f32     and the Value-level as_u64 / as_i64 / as_f64
   Mirrors DEFINED HERE (no model existed; each is the `#[cfg(not(feature = "arbitrary_precision"))]` arm, line numbers given;
   they are one-line matches and are NOT yet tied to the crate by a correspondence check):
       num_is_i64 (81-87), num_is_u64 (96-101), num_is_f64 (113-118), num_as_i128 (203-209), num_as_u128 (216-221)

   The theorems carry the names of their arbitrary_precision counterparts in Properties/C20.v with the suffix _default:
     C20_as_u64_default, C20_as_i64_default, C20_as_u128_default, C20_as_i128_default   exact value or None
     C20_is_u64_default, C20_is_i64_default, C20_is_f64_default                         is_x n = is_some (as_x n) ...
     C20_as_f64_default                                                                  total, finite, correctly rounded
     C20_non_integer_none_default                                                        a Float is never an integer
   and the link to C06 (Proofs/ValueInt.v):
     C06_value_via_as_i128     from_value::<T>(Number) succeeds iff as_i128 is Some z with z in T's range, with that z
     C06_accessors_parse       accessors on the Number the parser builds from an integer literal                         *)
From Coq Require Import Reals Lra Lia ZifyBool ZifyNat ZifyN.
From Flocq Require Import Core BinarySingleNaN.
From SJ Require Import Base.Bytes Base.Utf8 Base.FloatB Gen.Tables
  Model.Read Model.Str Model.Num Model.Value Model.De Model.Pointer Model.Ty Model.NumberM Model.DeTyped Model.ValueDe Spec.Syntax.
From SJ Require Import Proofs.FloatDefault Proofs.NumInt Proofs.TypedInt Proofs.SerValue Proofs.PointerEq Proofs.ValueInt.
Open Scope N_scope.

(* ------------------------------------------------------------------------------------------------------------------ *)
(** * Mirrors of the accessors that had no model (default build arms of src/number.rs) *)

(* number.rs 81-87:   PosInt(v) => v <= i64::MAX as u64, NegInt(_) => true, Float(_) => false *)
Definition num_is_i64 (n : num) : bool :=
  match n with NPos v => v <=? i64_max | NNeg _ => true | NFloat _ => false | NLit _ => false end.
(* number.rs 96-101:  PosInt(_) => true, NegInt(_) | Float(_) => false *)
Definition num_is_u64 (n : num) : bool :=
  match n with NPos _ => true | _ => false end.
(* number.rs 113-118: Float(_) => true, PosInt(_) | NegInt(_) => false *)
Definition num_is_f64 (n : num) : bool :=
  match n with NFloat _ => true | _ => false end.
(* number.rs 203-209: PosInt(n) => Some(n as i128), NegInt(n) => Some(n as i128), Float(_) => None *)
Definition num_as_i128 (n : num) : option Z :=
  match n with NPos u => Some (Z.of_N u) | NNeg z => Some z | _ => None end.
(* number.rs 216-221: PosInt(n) => Some(n as u128), NegInt(_) | Float(_) => None *)
Definition num_as_u128 (n : num) : option Z :=
  match n with NPos u => Some (Z.of_N u) | _ => None end.

(* the representation invariant of a default-build Number: PosInt any u64; NegInt a NEGATIVE i64; Float finite *)
Definition num_wf (n : num) : bool :=
  match n with
  | NPos u => u <=? u64_max
  | NNeg z => ((I64_MIN <=? z) && (z <? 0))%Z
  | NFloat f => is_finite f
  | NLit _ => false
  end.

(* it is the invariant the serialisation theorems use (Proofs/SerValue.v) *)
Lemma num_wf_wf_num (cf : cfg) (n : num) : arbitrary_precision cf = false -> wf_num cf n = num_wf n.
Proof. intros Hap. unfold wf_num, num_wf. rewrite Hap. destruct n; reflexivity. Qed.

(* inversion of the invariant, in Z.  (Proof-engineering note: these go through lemma applications on purpose — changing the
   hypothesis `num_wf (NPos u) = true` in place into `(u <=? 18446744073709551615) = true` makes the kernel compare a folded
   definition against an unfolded 64-bit literal comparison at Qed, which does not terminate in practice.) *)
Lemma num_wf_pos_b (u : N) : num_wf (NPos u) = true -> (u <=? u64_max) = true.
Proof. intros H. exact H. Qed.
Lemma num_wf_neg_b (z : Z) : num_wf (NNeg z) = true -> ((I64_MIN <=? z) && (z <? 0))%Z = true.
Proof. intros H. exact H. Qed.
Lemma num_wf_pos (u : N) : num_wf (NPos u) = true -> (0 <= Z.of_N u <= 18446744073709551615)%Z.
Proof. intros H. apply num_wf_pos_b in H. unfold u64_max in H. lia. Qed.
Lemma num_wf_neg (z : Z) : num_wf (NNeg z) = true -> (-9223372036854775808 <= z < 0)%Z.
Proof. intros H. apply num_wf_neg_b in H. unfold I64_MIN in H. lia. Qed.
Lemma num_wf_lit (s : bytes) : num_wf (NLit s) = true -> False.
Proof. intros H. discriminate H. Qed.

Lemma num_of_int_of_Z (z : Z) : num_of_int z = num_of_Z z.
Proof. reflexivity. Qed.

Lemma num_wf_of_int (z : Z) : fits_number z = true -> num_wf (num_of_int z) = true.
Proof.
  intros H.
  assert (Hz' : (-9223372036854775808 <= z <= 18446744073709551615)%Z) by (unfold fits_number, I64_MIN, U64_MAX in H; lia).
  unfold num_of_int. destruct (0 <=? z)%Z eqn:Hz; cbn [num_wf]; unfold u64_max, I64_MIN; lia.
Qed.

(* every well-formed Number is num_of_int of its integer, or a finite Float *)
Lemma num_wf_shape (n : num) : num_wf n = true ->
  (exists z, n = num_of_int z /\ num_int n = Some z /\ fits_number z = true) \/ (exists f, n = NFloat f /\ is_finite f = true).
Proof.
  destruct n as [u|z|f|s]; intros H.
  - left. pose proof (num_wf_pos u H) as Hu. exists (Z.of_N u). unfold num_of_int, fits_number, I64_MIN, U64_MAX.
    assert (H0 : (0 <=? Z.of_N u)%Z = true) by lia. rewrite H0, N2Z.id. split; [reflexivity|]. split; [reflexivity|]. lia.
  - left. pose proof (num_wf_neg z H) as Hz. exists z. unfold num_of_int, fits_number, U64_MAX, I64_MIN.
    assert (H0 : (0 <=? z)%Z = false) by lia. rewrite H0. split; [reflexivity|]. split; [reflexivity|]. lia.
  - right. exists f. split; [reflexivity|exact H].
  - exfalso. exact (num_wf_lit s H).
Qed.

(* ------------------------------------------------------------------------------------------------------------------ *)
(** * Integer accessors: the exact value or None *)

Theorem C20_as_u64_default : forall n v, num_wf n = true ->
  (num_as_u64 n = Some v <-> num_int n = Some (Z.of_N v) /\ (Z.of_N v <= U64_MAX)%Z).
Proof.
  intros n v Hwf. destruct n as [u|z|f|s]; cbn [num_as_u64 num_int].
  - pose proof (num_wf_pos u Hwf) as Hu. unfold U64_MAX. split.
    + intros H. injection H as <-. split; [reflexivity|lia].
    + intros (H & _). injection H as H. apply N2Z.inj in H. subst v. reflexivity.
  - pose proof (num_wf_neg z Hwf) as Hz. split; [intros H; discriminate H|]. intros (H & _). injection H as H. lia.
  - split; [intros H; discriminate H|intros (H & _); discriminate H].
  - exfalso. exact (num_wf_lit s Hwf).
Qed.

Theorem C20_as_i64_default : forall n v, num_wf n = true ->
  (num_as_i64 n = Some v <-> num_int n = Some v /\ (I64_MIN <= v <= I64_MAX)%Z).
Proof.
  intros n v Hwf. destruct n as [u|z|f|s]; cbn [num_as_i64 num_int].
  - unfold i64_max, I64_MIN, I64_MAX. destruct (u <=? 9223372036854775807) eqn:Hu; split.
    + intros H. injection H as <-. split; [reflexivity|lia].
    + intros (H & _). injection H as <-. reflexivity.
    + intros H. discriminate H.
    + intros (H & Hr). injection H as <-. lia.
  - pose proof (num_wf_neg z Hwf) as Hz. unfold I64_MIN, I64_MAX. split.
    + intros H. injection H as <-. split; [reflexivity|lia].
    + intros (H & _). injection H as <-. reflexivity.
  - split; [intros H; discriminate H|intros (H & _); discriminate H].
  - exfalso. exact (num_wf_lit s Hwf).
Qed.

Theorem C20_as_u128_default : forall n v, num_wf n = true ->
  (num_as_u128 n = Some v <-> num_int n = Some v /\ (0 <= v <= U64_MAX)%Z).
Proof.
  intros n v Hwf. destruct n as [u|z|f|s]; cbn [num_as_u128 num_int].
  - pose proof (num_wf_pos u Hwf) as Hu. unfold U64_MAX. split.
    + intros H. injection H as <-. split; [reflexivity|lia].
    + intros (H & _). exact H.
  - pose proof (num_wf_neg z Hwf) as Hz. split; [intros H; discriminate H|]. intros (H & Hr). injection H as <-. lia.
  - split; [intros H; discriminate H|intros (H & _); discriminate H].
  - exfalso. exact (num_wf_lit s Hwf).
Qed.

(* as_i128 is the integer itself, whenever the Number is an integer: it always fits *)
Theorem C20_as_i128_default : forall n v, num_wf n = true ->
  (num_as_i128 n = Some v <-> num_int n = Some v /\ (I64_MIN <= v <= U64_MAX)%Z).
Proof.
  intros n v Hwf. destruct n as [u|z|f|s]; cbn [num_as_i128 num_int].
  - pose proof (num_wf_pos u Hwf) as Hu. unfold I64_MIN, U64_MAX. split.
    + intros H. injection H as <-. split; [reflexivity|lia].
    + intros (H & _). exact H.
  - pose proof (num_wf_neg z Hwf) as Hz. unfold I64_MIN, U64_MAX. split.
    + intros H. injection H as <-. split; [reflexivity|lia].
    + intros (H & _). exact H.
  - split; [intros H; discriminate H|intros (H & _); discriminate H].
  - exfalso. exact (num_wf_lit s Hwf).
Qed.

Theorem C20_as_i128_default_eq : forall n, num_as_i128 n = num_int n.
Proof. intros n. destruct n; reflexivity. Qed.

(* on the Number that holds the integer z: closed forms *)
Theorem C20_accessors_of_int : forall z, fits_number z = true ->
  num_as_i128 (num_of_int z) = Some z
  /\ num_as_u128 (num_of_int z) = (if (0 <=? z)%Z then Some z else None)
  /\ num_as_u64 (num_of_int z) = (if (0 <=? z)%Z then Some (Z.to_N z) else None)
  /\ num_as_i64 (num_of_int z) = (if (z <=? I64_MAX)%Z then Some z else None).
Proof.
  intros z Hz.
  assert (Hz' : (-9223372036854775808 <= z <= 18446744073709551615)%Z) by (unfold fits_number, I64_MIN, U64_MAX in Hz; lia).
  unfold num_of_int, I64_MAX.
  destruct (0 <=? z)%Z eqn:H0; cbn [num_as_i128 num_as_u128 num_as_u64 num_as_i64].
  - rewrite Z2N.id by lia. repeat split. unfold i64_max.
    destruct (z <=? 9223372036854775807)%Z eqn:Hm.
    + assert (H1 : (Z.to_N z <=? 9223372036854775807) = true) by lia. rewrite H1. reflexivity.
    + assert (H1 : (Z.to_N z <=? 9223372036854775807) = false) by lia. rewrite H1. reflexivity.
  - repeat split. assert (H1 : (z <=? 9223372036854775807)%Z = true) by lia. rewrite H1. reflexivity.
Qed.

(* a Float is never an integer for the accessors (1.0, 1e2, -0.0 give None) *)
Theorem C20_non_integer_none_default : forall f,
  num_as_u64 (NFloat f) = None /\ num_as_i64 (NFloat f) = None
  /\ num_as_u128 (NFloat f) = None /\ num_as_i128 (NFloat f) = None.
Proof. intros f. repeat split; reflexivity. Qed.

(* ------------------------------------------------------------------------------------------------------------------ *)
(** * is_* against as_* *)

Theorem C20_is_u64_default : forall n, num_is_u64 n = is_some (num_as_u64 n).
Proof. intros n. destruct n; reflexivity. Qed.

Theorem C20_is_i64_default : forall n, num_is_i64 n = is_some (num_as_i64 n).
Proof. intros n. destruct n as [u|z|f|s]; cbn [num_is_i64 num_as_i64]; try reflexivity. destruct (u <=? i64_max); reflexivity. Qed.

(* "is_f64 returns true if and only if both is_i64 and is_u64 return false" (doc comment of is_f64) *)
Theorem C20_is_f64_default : forall n, num_wf n = true ->
  num_is_f64 n = negb (num_is_i64 n) && negb (num_is_u64 n)
  /\ num_is_f64 n = negb (is_some (num_as_i128 n))
  /\ (num_is_f64 n = true -> exists f, num_as_f64 n = Some f /\ n = NFloat f).
Proof.
  intros n Hwf. destruct n as [u|z|f|s]; cbn [num_is_f64 num_is_i64 num_is_u64 num_as_i128 is_some negb andb num_as_f64].
  - rewrite andb_false_r. repeat split. intros H; discriminate H.
  - repeat split. intros H; discriminate H.
  - repeat split. intros _. exists f. split; reflexivity.
  - exfalso. exact (num_wf_lit s Hwf).
Qed.

(* ------------------------------------------------------------------------------------------------------------------ *)
(** * as_f64: total, finite, the integer correctly rounded (nearest, ties to even) *)

Lemma b64_of_Z_i65 (z : Z) : (Z.abs z <= 2 ^ 64)%Z ->
  B2R (b64_of_Z z) = RNE64 (IZR z) /\ is_finite (b64_of_Z z) = true.
Proof.
  intros Hz. unfold b64_of_Z.
  assert (Hlt : (Rabs (RNE64 (F2R (Float radix2 z 0))) < bpow radix2 1024)%R).
  { rewrite F2R_e0. apply Rle_lt_trans with (bpow radix2 64); [|apply bpow_lt; lia].
    apply RNE64_abs_le; [apply format_bpow64; lia|].
    rewrite <- abs_IZR, bpow_IZR by lia. apply IZR_le. exact Hz. }
  destruct (bn_correct z 0 false Hlt) as (H1 & H2 & _). rewrite F2R_e0 in H1. split; [exact H1|exact H2].
Qed.

Theorem C20_as_f64_default : forall n, num_wf n = true ->
  exists f, num_as_f64 n = Some f /\ is_finite f = true
    /\ match num_int n with
       | Some z => B2R f = RNE64 (IZR z)           (* `n as f64` *)
       | None => n = NFloat f
       end.
Proof.
  intros n Hwf. destruct n as [u|z|f|s]; cbn [num_as_f64 num_int].
  - pose proof (num_wf_pos u Hwf) as Hu. destruct (b64_of_Z_i65 (Z.of_N u)) as (H1 & H2); [lia|].
    exists (b64_of_Z (Z.of_N u)). split; [reflexivity|]. split; [exact H2|exact H1].
  - pose proof (num_wf_neg z Hwf) as Hz. destruct (b64_of_Z_i65 z) as (H1 & H2); [lia|].
    exists (b64_of_Z z). split; [reflexivity|]. split; [exact H2|exact H1].
  - exists f. split; [reflexivity|]. split; [exact Hwf|reflexivity].
  - exfalso. exact (num_wf_lit s Hwf).
Qed.

(* integers of magnitude below 2^53 are represented exactly *)
Corollary C20_as_f64_default_exact : forall z, (Z.abs z < 2 ^ 53)%Z ->
  exists f, num_as_f64 (num_of_int z) = Some f /\ B2R f = IZR z.
Proof.
  intros z Hz.
  assert (Hfit : fits_number z = true) by (unfold fits_number, I64_MIN, U64_MAX; lia).
  destruct (C20_as_f64_default (num_of_int z) (num_wf_of_int z Hfit)) as (f & Hf & _ & Hv).
  rewrite num_int_of_int in Hv. exists f. split; [exact Hf|]. rewrite Hv. apply RNE64_generic, format_IZR. exact Hz.
Qed.

(* ------------------------------------------------------------------------------------------------------------------ *)
(** * The Value-level accessors of Model/Pointer.v *)
Theorem C20_value_accessors_default : forall n,
  Pointer.as_u64 (VNum n) = num_as_u64 n /\ Pointer.as_i64 (VNum n) = num_as_i64 n /\ Pointer.as_f64 (VNum n) = num_as_f64 n.
Proof. intros n. repeat split; reflexivity. Qed.

(* ------------------------------------------------------------------------------------------------------------------ *)
(** * Link to C06 *)

(* from_value::<T>(Value::Number(n)) succeeds exactly when as_i128 gives an integer in T's range, with that integer *)
Theorem C06_value_via_as_i128 : forall cf fx t n d, arbitrary_precision cf = false ->
  (from_value_owned cf fx (TInt t) (VNum n) = VOk d <->
   exists z, num_as_i128 n = Some z /\ Ty.in_range t z = true /\ d = DInt z).
Proof.
  intros cf fx t n d Hap. pose proof (C06_value_ok_iff cf fx t (VNum n) d Hap) as [H1 H2]. split.
  - intros H. destruct (H1 H) as (n' & z & Hn & Hz & Hin & Hd). injection Hn as <-. exists z.
    rewrite C20_as_i128_default_eq. auto.
  - intros (z & Hz & Hin & Hd). rewrite C20_as_i128_default_eq in Hz. apply H2. exists n, z. auto.
Qed.

(* the Number the parser builds from an integer literal (value within [i64::MIN, u64::MAX], not -0): every accessor
   returns the literal's mathematical value or None by range; otherwise the parser built a Float (or failed) and every
   integer accessor is None *)
Theorem C06_accessors_parse : forall E neg ds,
  tm E = TEof -> arbitrary_precision (cf E) = false -> int_ok ds = true ->
  let lit := int_lit neg ds in
  let z := int_lit_val neg ds in
  if fits_number z && negb (is_neg_zero neg ds)
  then exists n, from_input E lit = Ok (VNum n) /\ num_wf n = true
         /\ num_as_i128 n = Some z
         /\ num_as_u128 n = (if (0 <=? z)%Z then Some z else None)
         /\ num_as_u64 n = (if (0 <=? z)%Z then Some (Z.to_N z) else None)
         /\ num_as_i64 n = (if (z <=? I64_MAX)%Z then Some z else None)
  else forall v, from_input E lit = Ok v ->
         v = VNull \/ exists f, v = VNum (NFloat f).
Proof.
  intros E neg ds HE Hap Hok. cbv zeta.
  pose proof (from_input_int_lit_value E neg ds HE Hap Hok) as H. cbv zeta in H.
  destruct (fits_number (int_lit_val neg ds) && negb (is_neg_zero neg ds)) eqn:Hc.
  - apply andb_prop in Hc. destruct Hc as (Hfit & _).
    exists (num_of_int (int_lit_val neg ds)). split; [exact H|]. split; [apply num_wf_of_int; exact Hfit|].
    apply C20_accessors_of_int. exact Hfit.
  - exact H.
Qed.

(* ------------------------------------------------------------------------------------------------------------------ *)
(** * Examples *)
Example ex_acc_u64_max : num_as_u64 (NPos 18446744073709551615) = Some 18446744073709551615
  /\ num_as_i64 (NPos 18446744073709551615) = None /\ num_is_i64 (NPos 18446744073709551615) = false
  /\ num_as_i128 (NPos 18446744073709551615) = Some 18446744073709551615%Z.
Proof. repeat split; reflexivity. Qed.
Example ex_acc_i64_min : num_as_i64 (NNeg (-9223372036854775808)) = Some (-9223372036854775808)%Z
  /\ num_as_u64 (NNeg (-9223372036854775808)) = None /\ num_as_u128 (NNeg (-9223372036854775808)) = None.
Proof. repeat split; reflexivity. Qed.
Example ex_acc_parse_neg_zero : exists f, from_input E_sl [45; 48] = Ok (VNum (NFloat f))
  /\ num_as_i64 (NFloat f) = None /\ num_is_f64 (NFloat f) = true.
Proof. eexists. split; [vm_compute; reflexivity|]. split; reflexivity. Qed.

Print Assumptions C20_as_u64_default.
Print Assumptions C20_as_i64_default.
Print Assumptions C20_as_u128_default.
Print Assumptions C20_as_i128_default.
Print Assumptions C20_accessors_of_int.
Print Assumptions C20_is_u64_default.
Print Assumptions C20_is_i64_default.
Print Assumptions C20_is_f64_default.
Print Assumptions C20_as_f64_default.
Print Assumptions C20_as_f64_default_exact.
Print Assumptions C06_value_via_as_i128.
Print Assumptions C06_accessors_parse.
