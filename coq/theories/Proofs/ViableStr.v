(* Proofs/ViableStr.v — C11 converse, part 2: string literals (slice reader, validate = true).

   If [parse_str] fails with an Eof-category code, the unread input (the body of an unterminated literal)
   can be completed to a well-formed literal with a defined text, provided
     - it is valid UTF-8 up to an incomplete final sequence ([utf8_valid (rest ++ cmp)], cmp continuation bytes), and
     - if it ends inside a \u escape, that escape can still be completed ([lex_ok (lex LStr rest)]).

     escape_eof_viable    the escape decoder (the backslash has been consumed)
     loop_eof_viable      the scanning loop
     parse_str_eof_viable Read::parse_str *)
From Coq Require Import List NArith ZArith Bool Arith Lia ZifyBool ZifyNat ZifyN.
From SJ Require Import Base.Bytes Base.Utf8 Gen.Tables Model.Read Model.Str Spec.Syntax.
From SJ Require Import Proofs.Utf8Lemmas Proofs.GrammarStr Proofs.StrEscapeUtf8 Proofs.StrSource Proofs.ViableBase.
Import ListNotations.
Open Scope N_scope.

Local Notation SE cf := (mkEnv RSlice TEof cf).
Local Notation render s := (flat_map render_piece s).

Definition nonraw (p : strpiece) : bool := negb (is_raw p).

Lemma hi_not_lo n : is_hi_surr n = true -> is_lo_surr n = false.
Proof. unfold is_hi_surr, is_lo_surr. lia. Qed.

(* an Eof-category code is not one of the others *)
Ltac not_eof H Hc := injection H as <- _; discriminate Hc.
Ltac lnm := repeat (rewrite <- ?app_assoc; cbn [app]).

(* ---- completing \uXXXX ------------------------------------------------------------------- *)
Lemma u_complete : forall a b c d, hex4 a b c d = true -> is_lo_surr (u4_val a b c d) = false ->
  exists te eps w, [92; 117; a; b; c; d] ++ te = render eps /\ str_ok eps = true /\
                   str_decode eps = Some w /\ forallb nonraw eps = true.
Proof.
  intros a b c d Hh Hlo. destruct (is_hi_surr (u4_val a b c d)) eqn:Hhi.
  - exists [92; 117; 100; 99; 48; 48], [PU4 a b c d; PU4 100 99 48 48]. eexists.
    split; [reflexivity|]. split.
    { unfold str_ok. cbn [forallb piece_ok]. unfold hex4 in Hh. rewrite Hh. reflexivity. }
    split; [|reflexivity]. rewrite str_decode_u4. cbv zeta. rewrite Hlo, Hhi. reflexivity.
  - exists [], [PU4 a b c d]. eexists. split; [reflexivity|]. split.
    { unfold str_ok. cbn [forallb piece_ok]. unfold hex4 in Hh. rewrite Hh. reflexivity. }
    split; [|reflexivity]. rewrite str_decode_u4. cbv zeta. rewrite Hlo, Hhi. reflexivity.
Qed.

Lemma pair_complete : forall a b c d a' b' c' d', hex4 a b c d = true -> hex4 a' b' c' d' = true ->
  is_hi_surr (u4_val a b c d) = true -> is_lo_surr (u4_val a' b' c' d') = true ->
  str_ok [PU4 a b c d; PU4 a' b' c' d'] = true /\
  (exists w, str_decode [PU4 a b c d; PU4 a' b' c' d'] = Some w) /\
  forallb nonraw [PU4 a b c d; PU4 a' b' c' d'] = true.
Proof.
  intros a b c d a' b' c' d' Hh Hh' Hhi Hlo'. split; [|split; [|reflexivity]].
  - unfold str_ok. cbn [forallb piece_ok]. unfold hex4 in Hh, Hh'. rewrite Hh, Hh'. reflexivity.
  - eexists. rewrite str_decode_u4. cbv zeta. rewrite (hi_not_lo _ Hhi), Hhi, Hlo'. reflexivity.
Qed.

Lemma hex48 : hex_byte 48 = true. Proof. reflexivity. Qed.

(* ---- the escape decoder -------------------------------------------------------------------- *)
Lemma escape_eof_viable : forall f cf tl o p d c i,
  parse_escape f (SE cf) true (mkSt tl o p d) = Err c i -> category c = CatEof ->
  lex_ok (lex LEsc tl) = true ->
  exists te eps w, 92 :: tl ++ te = render eps /\ str_ok eps = true /\ str_decode eps = Some w /\
                   forallb nonraw eps = true.
Proof.
  intros f cf tl o p d c i H Hc Hl.
  destruct tl as [|ch l].
  { exists [110], [PEsc 110], [10]. repeat split; reflexivity. }
  destruct (N.eqb_spec ch 117) as [->|Hch].
  2:{ exfalso. rewrite parse_escape_cons in H. apply N.eqb_neq in Hch. rewrite Hch in H.
      destruct (escape_simple ch); [discriminate H|]. not_eof H Hc. }
  rewrite lex_esc_u in Hl.
  destruct l as [|a [|b [|c0 [|d0 tl']]]].
  - (* \u *)
    destruct (u_complete 48 48 48 48 eq_refl eq_refl) as (te & eps & w & H1 & H2 & H3 & H4).
    exists ([48; 48; 48; 48] ++ te), eps, w. split; [exact H1|]. auto.
  - (* \uX *)
    change (lex (LU []) [a]) with (LU [a]) in Hl. cbn [lex_ok forallb] in Hl.
    apply andb_prop in Hl as [Hx Hlo]. apply andb_prop in Hx as [Ha _]. apply negb_true_iff in Hlo.
    change (pad0 [a]) with (u4_val a 48 48 48) in Hlo.
    assert (Hh : hex4 a 48 48 48 = true) by (unfold hex4; rewrite Ha; reflexivity).
    destruct (u_complete a 48 48 48 Hh Hlo) as (te & eps & w & H1 & H2 & H3 & H4).
    exists ([48; 48; 48] ++ te), eps, w. split; [exact H1|]. auto.
  - (* \uXX *)
    change (lex (LU []) [a; b]) with (LU [a; b]) in Hl. cbn [lex_ok forallb] in Hl.
    apply andb_prop in Hl as [Hx Hlo]. apply andb_prop in Hx as [Ha Hx]. apply andb_prop in Hx as [Hb _].
    apply negb_true_iff in Hlo. change (pad0 [a; b]) with (u4_val a b 48 48) in Hlo.
    assert (Hh : hex4 a b 48 48 = true) by (unfold hex4; rewrite Ha, Hb; reflexivity).
    destruct (u_complete a b 48 48 Hh Hlo) as (te & eps & w & H1 & H2 & H3 & H4).
    exists ([48; 48] ++ te), eps, w. split; [exact H1|]. auto.
  - (* \uXXX *)
    change (lex (LU []) [a; b; c0]) with (LU [a; b; c0]) in Hl. cbn [lex_ok forallb] in Hl.
    apply andb_prop in Hl as [Hx Hlo]. apply andb_prop in Hx as [Ha Hx]. apply andb_prop in Hx as [Hb Hx].
    apply andb_prop in Hx as [Hc0 _].
    apply negb_true_iff in Hlo. change (pad0 [a; b; c0]) with (u4_val a b c0 48) in Hlo.
    assert (Hh : hex4 a b c0 48 = true) by (unfold hex4; rewrite Ha, Hb, Hc0; reflexivity).
    destruct (u_complete a b c0 48 Hh Hlo) as (te & eps & w & H1 & H2 & H3 & H4).
    exists ([48] ++ te), eps, w. split; [exact H1|]. auto.
  - (* \uXXXX followed by tl' *)
    destruct (hex4 a b c0 d0) eqn:Hh.
    2:{ exfalso. rewrite parse_escape_cons in H. change (117 =? 117) with true in H. cbv iota in H.
        unfold parse_unicode_escape in H.
        rewrite decode_hex_escape_slice, decode_four_hex_spec_gen in H. fold (hex4 a b c0 d0) in H.
        rewrite Hh in H. cbn [bind] in H. not_eof H Hc. }
    rewrite parse_escape_u_true in H by exact Hh.
    pose proof (u4_val_lt a b c0 d0 Hh) as Hlt.
    set (n := u4_val a b c0 d0) in *.
    destruct (is_lo_surr n) eqn:Hlo; [exfalso; not_eof H Hc|].
    destruct f as [|f]; [discriminate H|].
    destruct (is_hi_surr n) eqn:Hhi.
    2:{ rewrite unicode_loop_scalar in H by assumption. discriminate H. }
    rewrite lex_u4 in Hl. fold n in Hl. rewrite Hhi in Hl.
    assert (Hnr : (n <? 55296) || (56319 <? n) = false) by (unfold is_hi_surr in Hhi; lia).
    destruct tl' as [|x t2].
    { (* \uD8xx at the end: add the low surrogate *)
      destruct (pair_complete a b c0 d0 100 99 48 48 Hh eq_refl Hhi eq_refl) as (P1 & (w & P2) & P3).
      exists [92; 117; 100; 99; 48; 48], [PU4 a b c0 d0; PU4 100 99 48 48], w. split; [reflexivity|]. auto. }
    destruct (N.eqb_spec x 92) as [->|Hx].
    2:{ exfalso. apply N.eqb_neq in Hx. rewrite unicode_loop_S, Hnr in H. cbv iota in H.
        unfold peek_or_eof, peek in H. cbn [rest off depth bind] in H. rewrite Hx in H.
        unfold error in H. not_eof H Hc. }
    rewrite lex_hi_bs in Hl.
    destruct t2 as [|y t3].
    { destruct (pair_complete a b c0 d0 100 99 48 48 Hh eq_refl Hhi eq_refl) as (P1 & (w & P2) & P3).
      exists [117; 100; 99; 48; 48], [PU4 a b c0 d0; PU4 100 99 48 48], w. split; [reflexivity|]. auto. }
    destruct (N.eqb_spec y 117) as [->|Hy].
    2:{ exfalso. apply N.eqb_neq in Hy. rewrite unicode_loop_S, Hnr in H. cbv iota in H.
        unfold peek_or_eof, peek, discard in H. cbn [rest off depth bind tl] in H.
        change (92 =? 92) with true in H. cbv iota in H. rewrite Hy in H.
        unfold error in H. not_eof H Hc. }
    rewrite lex_hiesc_u in Hl.
    destruct t3 as [|a' [|b' [|c' [|d' t4]]]].
    + change (lex (LHiU []) []) with (LHiU []) in Hl.
      destruct (pair_complete a b c0 d0 100 99 48 48 Hh eq_refl Hhi eq_refl) as (P1 & (w & P2) & P3).
      exists [100; 99; 48; 48], [PU4 a b c0 d0; PU4 100 99 48 48], w. split; [reflexivity|]. auto.
    + change (lex (LHiU []) [a']) with (LHiU [a']) in Hl. cbn [lex_ok forallb] in Hl.
      apply andb_prop in Hl as [Hx Hlo']. apply andb_prop in Hx as [Ha' _].
      change (padlo [a']) with (u4_val a' 99 48 48) in Hlo'.
      assert (Hh' : hex4 a' 99 48 48 = true) by (unfold hex4; rewrite Ha'; reflexivity).
      destruct (pair_complete a b c0 d0 a' 99 48 48 Hh Hh' Hhi Hlo') as (P1 & (w & P2) & P3).
      exists [99; 48; 48], [PU4 a b c0 d0; PU4 a' 99 48 48], w. split; [reflexivity|]. auto.
    + change (lex (LHiU []) [a'; b']) with (LHiU [a'; b']) in Hl. cbn [lex_ok forallb] in Hl.
      apply andb_prop in Hl as [Hx Hlo']. apply andb_prop in Hx as [Ha' Hx]. apply andb_prop in Hx as [Hb' _].
      change (padlo [a'; b']) with (u4_val a' b' 48 48) in Hlo'.
      assert (Hh' : hex4 a' b' 48 48 = true) by (unfold hex4; rewrite Ha', Hb'; reflexivity).
      destruct (pair_complete a b c0 d0 a' b' 48 48 Hh Hh' Hhi Hlo') as (P1 & (w & P2) & P3).
      exists [48; 48], [PU4 a b c0 d0; PU4 a' b' 48 48], w. split; [reflexivity|]. auto.
    + change (lex (LHiU []) [a'; b'; c']) with (LHiU [a'; b'; c']) in Hl. cbn [lex_ok forallb] in Hl.
      apply andb_prop in Hl as [Hx Hlo']. apply andb_prop in Hx as [Ha' Hx]. apply andb_prop in Hx as [Hb' Hx].
      apply andb_prop in Hx as [Hc' _].
      change (padlo [a'; b'; c']) with (u4_val a' b' c' 48) in Hlo'.
      assert (Hh' : hex4 a' b' c' 48 = true) by (unfold hex4; rewrite Ha', Hb', Hc'; reflexivity).
      destruct (pair_complete a b c0 d0 a' b' c' 48 Hh Hh' Hhi Hlo') as (P1 & (w & P2) & P3).
      exists [48], [PU4 a b c0 d0; PU4 a' b' c' 48], w. split; [reflexivity|]. auto.
    + (* a complete second escape: the loop does not end with an Eof code *)
      exfalso. destruct (hex4 a' b' c' d') eqn:Hh'.
      * rewrite unicode_loop_hi_pair in H by assumption.
        destruct (is_lo_surr (u4_val a' b' c' d')); [discriminate H|not_eof H Hc].
      * rewrite unicode_loop_S, Hnr in H. cbv iota in H.
        unfold peek_or_eof, peek, discard in H. cbn [rest off depth bind tl] in H.
        change (92 =? 92) with true in H. change (117 =? 117) with true in H. cbv iota in H.
        rewrite decode_hex_escape_slice, decode_four_hex_spec_gen in H. fold (hex4 a' b' c' d') in H.
        rewrite Hh' in H. cbn [bind] in H. not_eof H Hc.
Qed.

(* ---- spans of unescaped bytes -------------------------------------------------------------- *)
Lemma lex_str_chunk chunk x :
  forallb (fun b => negb (is_escape b true)) chunk = true -> lex LStr (chunk ++ x) = lex LStr x.
Proof.
  induction chunk as [|b r IH]; [reflexivity|]. cbn [forallb]. intros H. apply andb_prop in H as [Hb Hr].
  cbn [app]. rewrite is_escape_spec in Hb. rewrite lex_str_raw by lia. exact (IH Hr).
Qed.

Lemma render_nonraw_ascii eps : str_ok eps = true -> forallb nonraw eps = true -> ascii_all (render eps) = true.
Proof.
  induction eps as [|pc r IH]; [reflexivity|]. unfold str_ok. cbn [forallb]. intros Hok Hn.
  apply andb_prop in Hok as [Hpc Hr]. apply andb_prop in Hn as [Hpn Hrn]. fold (str_ok r) in Hr.
  cbn [flat_map]. apply ascii_all_app; [|exact (IH Hr Hrn)].
  destruct pc as [b|c|a b c d]; [discriminate Hpn| |].
  - cbn [piece_ok] in Hpc. destruct (esc_letter_ascii c Hpc) as [Hc _]. unfold ascii_all. cbn [render_piece forallb].
    replace (c <? 128) with true by lia. reflexivity.
  - cbn [piece_ok] in Hpc. fold (hex4 a b c d) in Hpc. destruct (hex4_ascii a b c d Hpc) as (Ha & Hb & Hc & Hd).
    unfold ascii_all. cbn [render_piece forallb].
    replace (a <? 128) with true by lia. replace (b <? 128) with true by lia.
    replace (c <? 128) with true by lia. replace (d <? 128) with true by lia. reflexivity.
Qed.

Lemma conts_raw cmp : conts cmp ->
  Forall (fun x => x < 256) cmp /\ forallb (fun b => negb (is_escape b true)) cmp = true.
Proof.
  unfold conts. induction cmp as [|b r IH]; [split; [constructor|reflexivity]|].
  cbn [forallb]. intros H. apply andb_prop in H as [Hb Hr]. destruct (IH Hr) as [H1 H2].
  unfold is_cont, in_rng in Hb. split.
  - constructor; [lia|exact H1].
  - cbn [forallb]. rewrite H2, is_escape_spec. lia.
Qed.

Lemma str_decode_all_raw chunk : str_decode (map PRaw chunk) = Some chunk.
Proof.
  rewrite <- (app_nil_r (map PRaw chunk)), str_decode_raw_app. cbn [str_decode option_map].
  rewrite app_nil_r. reflexivity.
Qed.

(* how the completion relates to the unread input: either the input ended in the middle of raw text
   (then the completion is cmp followed by the closing quote), or it ended inside an escape — an ASCII tail y *)
Definition tail_shape (cmp l t : bytes) : Prop :=
  t = cmp ++ [34] \/ exists x y, l = x ++ y /\ y <> [] /\ ascii_all (y ++ t) = true.

(* ---- the scanning loop ----------------------------------------------------------------------- *)
Lemma loop_eof_viable cf cmp : conts cmp -> forall fuel s c i,
  slice_str_loop fuel (SE cf) true s = Err c i -> category c = CatEof ->
  Forall P256 (rest s) -> lex_ok (lex LStr (rest s)) = true ->
  exists t ps w, rest s ++ t = render ps ++ [34] /\ str_ok ps = true /\ str_decode ps = Some w /\
                 tail_shape cmp (rest s) t.
Proof.
  intros Hcmp. induction fuel as [|f IH]; intros s c i H Hc HF Hl; [discriminate H|].
  destruct s as [l o p dp]. cbn [rest] in *.
  rewrite slice_loop_S in H. cbn [rest] in H. cbv zeta in H.
  set (n := esc_span true l) in *.
  pose proof (firstn_skipn n l) as Hsplit.
  pose proof (span_firstn_all (fun b => negb (is_escape b true)) l) as Hall.
  fold (esc_span true l) in Hall. fold n in Hall.
  set (chunk := firstn n l) in *.
  assert (HFc : Forall P256 chunk /\ Forall P256 (skipn n l)).
  { rewrite <- Hsplit in HF. apply Forall_app in HF. exact HF. }
  destruct HFc as [HFc HFs].
  rewrite <- Hsplit, (lex_str_chunk chunk _ Hall) in Hl.
  unfold advance in H. cbn [rest off depth] in H.
  destruct (skipn n l) as [|b tl] eqn:Hsk.
  { (* the input ends in raw text *)
    rewrite app_nil_r in Hsplit. destruct (conts_raw cmp Hcmp) as [HFcmp Hrawcmp].
    exists (cmp ++ [34]), (map PRaw (l ++ cmp)), (l ++ cmp).
    split; [rewrite render_raw, <- app_assoc; reflexivity|]. split.
    { apply str_ok_raw.
      - apply Forall_app. split; [rewrite <- Hsplit; exact HFc|exact HFcmp].
      - rewrite forallb_app, <- Hsplit, Hall, Hrawcmp. reflexivity. }
    split; [apply str_decode_all_raw|]. left. reflexivity. }
  destruct (N.eqb_spec b 34) as [->|Hb34]; [discriminate H|].
  destruct (N.eqb_spec b 92) as [->|Hb92].
  2:{ exfalso. unfold error in H. not_eof H Hc. }
  cbn [skipn] in H. rewrite lex_str_bs in Hl.
  apply bind_err in H as [H|([w s2] & Hesc & H)].
  - (* the input ends inside the escape *)
    destruct (escape_eof_viable _ _ _ _ _ _ _ _ H Hc Hl) as (te & eps & w & H1 & H2 & H3 & H4).
    exists (te ++ [34]), (map PRaw chunk ++ eps), (chunk ++ w).
    split.
    { rewrite flat_map_app, render_raw, <- H1, <- Hsplit. lnm. reflexivity. }
    split; [rewrite str_ok_app, H2, (str_ok_raw chunk HFc Hall); reflexivity|].
    split; [rewrite str_decode_raw_app, H3; reflexivity|].
    right. exists chunk, (92 :: tl). split; [symmetry; exact Hsplit|]. split; [discriminate|].
    replace ((92 :: tl) ++ te ++ [34]) with ((92 :: tl ++ te) ++ [34]) by (lnm; reflexivity).
    rewrite H1. apply ascii_all_app; [apply render_nonraw_ascii; assumption|reflexivity].
  - (* the escape is complete; the loop goes on *)
    apply bind_err in H as [H|([[out cp] s3] & _ & H)]; [|discriminate H].
    apply parse_escape_sound in Hesc.
    destruct Hesc as (eps & Hrender & Heps & Hdec & _ & _ & _ & _).
    assert (Hd0 : str_decode eps = Some w).
    { specialize (Hdec []). rewrite app_nil_r in Hdec. cbn [str_decode option_map] in Hdec.
      rewrite app_nil_r in Hdec. exact Hdec. }
    assert (HF2 : Forall P256 (rest s2)).
    { rewrite Hrender in HFs. apply Forall_app in HFs. apply HFs. }
    assert (Hl2 : lex_ok (lex LStr (rest s2)) = true).
    { rewrite <- lex_str_bs, Hrender in Hl.
      rewrite (lex_str_pieces (length eps) eps (Nat.le_refl _) Heps) in Hl by (rewrite Hd0; discriminate).
      exact Hl. }
    destruct (IH s2 c i H Hc HF2 Hl2) as (t & ps' & w' & H1 & H2 & H3 & H4).
    exists t, (map PRaw chunk ++ eps ++ ps'), (chunk ++ w ++ w').
    assert (Hl_eq : l = chunk ++ render eps ++ rest s2).
    { rewrite <- Hrender. symmetry. exact Hsplit. }
    split.
    { rewrite !flat_map_app, render_raw, Hl_eq, <- !app_assoc. do 2 f_equal. rewrite <- H1. reflexivity. }
    split; [rewrite !str_ok_app, Heps, H2, (str_ok_raw chunk HFc Hall); reflexivity|].
    split; [rewrite str_decode_raw_app, Hdec, H3; reflexivity|].
    destruct H4 as [H4|(x & y & Hxy & Hy & Ha)]; [left; exact H4|right].
    exists (chunk ++ render eps ++ x), y. split; [|split; assumption].
    rewrite Hl_eq, Hxy, <- !app_assoc. reflexivity.
Qed.

(* ---- Read::parse_str -------------------------------------------------------------------------- *)
Lemma ascii_valid a : ascii_all a = true -> utf8_valid a = true.
Proof. intros H. rewrite <- (app_nil_r a), (utf8_valid_ascii_app a [] H). reflexivity. Qed.

Theorem parse_str_eof_viable cf cmp : conts cmp -> forall s c i,
  parse_str (SE cf) s = Err c i -> category c = CatEof -> Forall P256 (rest s) ->
  utf8_valid (rest s ++ cmp) = true -> lex_ok (lex LStr (rest s)) = true ->
  exists t ps, rest s ++ t = render ps ++ [34] /\ str_ok ps = true /\ str_text ps <> None.
Proof.
  intros Hcmp s c i H Hc HF Hu Hl. rewrite parse_str_slice in H.
  apply bind_err in H as [H|([[out cp] s1] & _ & H)].
  2:{ exfalso. destruct (utf8_valid out); [discriminate H|]. unfold error in H. not_eof H Hc. }
  destruct (loop_eof_viable cf cmp Hcmp _ s c i H Hc HF Hl) as (t & ps & w & H1 & H2 & H3 & H4).
  exists t, ps. split; [exact H1|]. split; [exact H2|].
  assert (Hv : utf8_valid (rest s ++ t) = true).
  { destruct H4 as [->|(x & y & Hxy & Hy & Ha)].
    - rewrite app_assoc. apply utf8_valid_app; [exact Hu|reflexivity].
    - rewrite Hxy, <- app_assoc in Hu |- *. destruct y as [|a y']; [congruence|].
      assert (Ha0 : a < 128).
      { unfold ascii_all in Ha. cbn [app forallb] in Ha. apply andb_prop in Ha as [Ha _]. lia. }
      cbn [app] in Hu. apply utf8_valid_cut in Hu; [|exact Ha0]. destruct Hu as [Hx _].
      apply utf8_valid_app; [exact Hx|apply ascii_valid, Ha]. }
  rewrite H1 in Hv.
  destruct (decode_valid (length ps) ps (Nat.le_refl _) [] w [] H2 H3 Hv) as [Hw _]. cbn [app] in Hw.
  unfold str_text. rewrite H3, Hw. discriminate.
Qed.

