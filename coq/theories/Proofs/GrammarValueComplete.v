(* Proofs/GrammarValueComplete.v — completeness of the Value parser w.r.t. the RFC 8259 printer:
   on the rendering of a well-formed syntax tree whose denotation is defined (followed by something that
   cannot continue the last token), with enough fuel and recursion budget, parse_value / parse_seq /
   parse_map succeed, return the denotation and stop exactly behind the rendering.
   Mutual induction on the syntax tree.  The string and number layers enter as Section hypotheses. *)
From SJ Require Import Base.Bytes Base.Utf8 Base.FloatB Gen.Tables Model.Read Model.Str Model.Num Model.Value Model.De
  Spec.Syntax Spec.Denote Proofs.GrammarValueBase.
Require Import Lia ZifyBool ZifyNat ZifyN.
Open Scope N_scope.

Section Complete.
  Variable cf : cfg.
  Local Notation E := (mkEnv RSlice TEof cf).

  Hypothesis Hstr_complete : forall s b rst off pk d, str_ok s = true -> str_text s = Some b ->
    exists bw, parse_str E (mkSt (flat_map render_piece s ++ 34 :: rst) off pk d)
             = Ok (b, bw, mkSt rst (off + length (flat_map render_piece s) + 1) false d).
  Hypothesis Hnum_local : forall positive n rst off pk d, num_ok n = true -> nfollow rst ->
    forall p s', parse_any_number E positive (init_st (render_abs n)) = Ok (p, s') ->
    parse_any_number E positive (mkSt (render_abs n ++ rst) off pk d) = Ok (p, nst_end (render_abs n) rst off d).

  (* ---- statements ---- *)
  Definition complete_value (c : cst) : Prop := forall fuel s w rst v,
    (vfuel c <= fuel)%nat -> wfb c = true -> denote cf c = Some v -> ws_ok w = true -> follow_ok rst ->
    dbudget cf (cdepth c) (depth s) -> rest s = w ++ render c ++ rst ->
    exists s', parse_value fuel E s = Ok (v, s') /\ rest s' = rst /\ depth s' = depth s.

  Definition complete_seq (es : elems) : Prop := forall fuel first s wp rst vs,
    (sfuel es <= fuel)%nat -> wfb_elems es = true -> denote_elems cf es = Some vs -> ws_ok wp = true ->
    dbudget cf (cdepth_elems es) (depth s) -> rest s = seq_text first wp es ++ 93 :: rst ->
    exists s' wl, parse_seq fuel E first s = Ok (vs, s') /\ ws_ok wl = true /\ rest s' = wl ++ 93 :: rst
                  /\ depth s' = depth s.

  Definition complete_map (ms : members) : Prop := forall fuel first s wp rst vs,
    (mfuel ms <= fuel)%nat -> wfb_members ms = true -> denote_members cf ms = Some vs -> ws_ok wp = true ->
    dbudget cf (cdepth_members ms) (depth s) -> rest s = map_text first wp ms ++ 125 :: rst ->
    exists s' wl, parse_map fuel E first s = Ok (vs, s') /\ ws_ok wl = true /\ rest s' = wl ++ 125 :: rst
                  /\ depth s' = depth s.

  (* ---- literals ---- *)
  Lemma complete_lit (c : cst) (b : N) (lit : list N) (v : value) :
    render c = b :: lit -> ws_byte b = false ->
    (forall f s1, value_branch cf f b s1 = let* s2 := parse_ident E lit (discard s1) in Ok (v, s2)) ->
    denote cf c = Some v -> vfuel c = 1%nat -> complete_value c.
  Proof.
    intros Hren Hb Hbr Hden Hfu fuel s w rst v0 Hf _ Hd Hw _ _ Hr.
    rewrite Hden in Hd. injection Hd as <-. rewrite Hfu in Hf.
    destruct fuel as [|f]; [lia|]. rewrite Hren in Hr. cbn [app] in Hr.
    destruct (pv_head cf f s w b (lit ++ rst) Hw Hb Hr) as (s1 & Hs1 & Hd1 & Heq).
    rewrite Heq, Hbr.
    destruct (parse_ident_fwd cf lit (discard s1) rst) as (s2 & Hid & Hr2 & Hd2).
    { rewrite discard_rest, Hs1. reflexivity. }
    rewrite Hid. cbn [bind]. exists s2. split; [reflexivity|]. split; [exact Hr2|].
    rewrite Hd2, discard_depth. exact Hd1.
  Qed.

  Lemma complete_null : complete_value CNull.
  Proof. apply (complete_lit CNull 110 lit_ull VNull); reflexivity. Qed.
  Lemma complete_true : complete_value CTrue.
  Proof. apply (complete_lit CTrue 116 lit_rue (VBool true)); reflexivity. Qed.
  Lemma complete_false : complete_value CFalse.
  Proof. apply (complete_lit CFalse 102 lit_alse (VBool false)); reflexivity. Qed.

  (* ---- numbers ---- *)
  Lemma complete_num n : complete_value (CNum n).
  Proof.
    intros fuel s w rst v Hf Hwf Hden Hw Hfol _ Hr.
    cbn [vfuel] in Hf. destruct fuel as [|f]; [lia|]. cbn [wfb] in Hwf. cbn [denote] in Hden.
    unfold num_den in Hden. change (env0 cf) with E in Hden.
    destruct (parse_any_number E (negb (nneg n)) (init_st (render_abs n))) as [[p s'']| | |] eqn:Hiso;
      try discriminate.
    injection Hden as <-. apply follow_nfollow in Hfol.
    cbn [render] in Hr. rewrite render_num_abs in Hr.
    destruct (render_abs_head n Hwf) as (d & r & Habs & Hdig).
    destruct (nneg n) eqn:Hneg; cbn [negb] in Hiso; cbn [app] in Hr.
    - destruct (pv_head cf f s w 45 (render_abs n ++ rst) Hw eq_refl Hr) as (s1 & Hs1 & Hd1 & Heq).
      rewrite Heq, branch_minus. unfold discard. rewrite Hs1. cbn [tl].
      rewrite (Hnum_local false n rst _ _ _ Hwf Hfol p s'' Hiso). cbn [bind].
      eexists. split; [reflexivity|]. split; [reflexivity|]. exact Hd1.
    - rewrite Habs in Hr. cbn [app] in Hr.
      destruct (pv_head cf f s w d (r ++ rst) Hw (digit_not_ws d Hdig) Hr) as (s1 & Hs1 & Hd1 & Heq).
      rewrite Heq, digit_branch by exact Hdig.
      destruct s1 as [r1 o1 p1 d1]. cbn [rest depth] in Hs1, Hd1. subst r1.
      change (d :: r ++ rst) with ((d :: r) ++ rst). rewrite <- Habs.
      rewrite (Hnum_local true n rst _ _ _ Hwf Hfol p s'' Hiso). cbn [bind].
      eexists. split; [reflexivity|]. split; [reflexivity|]. exact Hd1.
  Qed.

  (* ---- strings ---- *)
  Lemma complete_str ps : complete_value (CStr ps).
  Proof.
    intros fuel s w rst v Hf Hwf Hden Hw _ _ Hr.
    cbn [vfuel] in Hf. destruct fuel as [|f]; [lia|]. cbn [wfb] in Hwf. cbn [denote] in Hden.
    destruct (str_text ps) as [b|] eqn:Htext; [|discriminate]. injection Hden as <-.
    cbn [render] in Hr. unfold render_str in Hr. revert Hr. lnorm. intros Hr.
    destruct (pv_head cf f s w 34 _ Hw eq_refl Hr) as (s1 & Hs1 & Hd1 & Heq).
    rewrite Heq, branch_quote. unfold discard. rewrite Hs1. cbn [tl].
    destruct (Hstr_complete ps b rst (S (off s1)) false (depth s1) Hwf Htext) as (bw & Hp).
    rewrite Hp. cbn [bind]. eexists. split; [reflexivity|]. split; [reflexivity|]. exact Hd1.
  Qed.

  (* ---- arrays ---- *)
  Lemma complete_arr w0 es : complete_seq es -> complete_value (CArr w0 es).
  Proof.
    intros IH fuel s w rst v Hf Hwf Hden Hw _ Hdb Hr.
    cbn [vfuel] in Hf. destruct fuel as [|f]; [lia|]. cbn [wfb] in Hwf. apply andb_prop in Hwf as [Hw0 Hwf].
    cbn [denote] in Hden. destruct (denote_elems cf es) as [vs|] eqn:Hdes; [|discriminate]. injection Hden as <-.
    rewrite render_arr in Hr. revert Hr. lnorm. intros Hr. cbn [cdepth] in Hdb.
    destruct (pv_head cf f s w 91 _ Hw eq_refl Hr) as (s1 & Hs1 & Hd1 & Heq).
    rewrite Heq, branch_lbrack.
    destruct (enter_fwd cf s1) as (s2 & Hen & Hr2 & Hd2).
    { intros Hl. specialize (Hdb Hl). lia. }
    rewrite Hen. cbn [bind].
    destruct (IH f true (discard s2) w0 rst vs) as (s3 & wl & Hsq & Hwl & Hr3 & Hd3); try assumption.
    { lia. }
    { rewrite discard_depth, Hd2. unfold dbudget in *. intros Hl. specialize (Hdb Hl). rewrite Hl. lia. }
    { rewrite discard_rest, Hr2, Hs1. reflexivity. }
    rewrite Hsq. cbn [bind]. rewrite discard_depth in Hd3.
    destruct (leave_fwd cf s3) as (s4 & Hlv & Hr4 & Hd4).
    { intros Hl. specialize (Hdb Hl). rewrite Hd3, Hd2, Hl. lia. }
    rewrite Hlv. cbn [bind].
    destruct (end_seq_fwd cf s4 rst) as (s5 & Hes & Hr5 & Hd5).
    { rewrite Hr4, Hr3. now apply skipws_to. }
    rewrite Hes. cbn [bind]. exists s5. split; [reflexivity|]. split; [exact Hr5|].
    rewrite Hd5, Hd4, Hd3, Hd2, Hd1. unfold dbudget in Hdb. destruct (limit_disabled cf); [reflexivity|].
    specialize (Hdb eq_refl). lia.
  Qed.

  (* ---- objects ---- *)
  Lemma complete_obj w0 ms : complete_map ms -> complete_value (CObj w0 ms).
  Proof.
    intros IH fuel s w rst v Hf Hwf Hden Hw _ Hdb Hr.
    cbn [vfuel] in Hf. destruct fuel as [|f]; [lia|]. cbn [wfb] in Hwf. apply andb_prop in Hwf as [Hw0 Hwf].
    cbn [denote] in Hden. destruct (denote_members cf ms) as [vs|] eqn:Hdes; [|discriminate]. injection Hden as <-.
    rewrite render_obj in Hr. revert Hr. lnorm. intros Hr. cbn [cdepth] in Hdb.
    destruct (pv_head cf f s w 123 _ Hw eq_refl Hr) as (s1 & Hs1 & Hd1 & Heq).
    rewrite Heq, branch_lbrace.
    destruct (enter_fwd cf s1) as (s2 & Hen & Hr2 & Hd2).
    { intros Hl. specialize (Hdb Hl). lia. }
    rewrite Hen. cbn [bind].
    destruct (IH f true (discard s2) w0 rst vs) as (s3 & wl & Hsq & Hwl & Hr3 & Hd3); try assumption.
    { lia. }
    { rewrite discard_depth, Hd2. unfold dbudget in *. intros Hl. specialize (Hdb Hl). rewrite Hl. lia. }
    { rewrite discard_rest, Hr2, Hs1. reflexivity. }
    rewrite Hsq. cbn [bind]. rewrite discard_depth in Hd3.
    destruct (leave_fwd cf s3) as (s4 & Hlv & Hr4 & Hd4).
    { intros Hl. specialize (Hdb Hl). rewrite Hd3, Hd2, Hl. lia. }
    rewrite Hlv. cbn [bind].
    destruct (end_map_fwd cf s4 rst) as (s5 & Hes & Hr5 & Hd5).
    { rewrite Hr4, Hr3. now apply skipws_to. }
    rewrite Hes. cbn [bind]. exists s5. split; [reflexivity|]. split; [exact Hr5|].
    rewrite Hd5, Hd4, Hd3, Hd2, Hd1. unfold dbudget in Hdb. destruct (limit_disabled cf); [reflexivity|].
    specialize (Hdb eq_refl). lia.
  Qed.

  (* ---- element lists ---- *)
  Lemma complete_enil : complete_seq ENil.
  Proof.
    intros fuel first s wp rst vs Hf _ Hden Hwp _ Hr.
    cbn [sfuel] in Hf. destruct fuel as [|f]; [lia|]. cbn [denote_elems] in Hden. injection Hden as <-.
    cbn [seq_text] in Hr. rewrite parse_seq_S.
    rewrite (hne_fwd_none cf first s rst). 2:{ rewrite Hr. now apply skipws_to. }
    cbn [bind]. exists s, wp. auto.
  Qed.

  Lemma follow_tail_elems es rst : follow_ok (tail_elems es ++ 93 :: rst).
  Proof. destruct es; cbn [tail_elems app follow_ok]; auto. Qed.
  Lemma follow_tail_members ms rst : follow_ok (tail_members ms ++ 125 :: rst).
  Proof. destruct ms; cbn [tail_members app follow_ok]; auto. Qed.

  Lemma complete_econs w1 c w2 rest0 : complete_value c -> complete_seq rest0 -> complete_seq (ECons w1 c w2 rest0).
  Proof.
    intros IHc IHr fuel first s wp rst vs Hf Hwf Hden Hwp Hdb Hr.
    cbn [sfuel] in Hf. destruct fuel as [|f]; [lia|].
    cbn [wfb_elems] in Hwf. apply andb_prop in Hwf as [Hwf Hwfr]. apply andb_prop in Hwf as [Hwf Hw2].
    apply andb_prop in Hwf as [Hw1 Hwfc].
    cbn [denote_elems] in Hden. destruct (denote cf c) as [v|] eqn:Hdc; [|discriminate].
    destruct (denote_elems cf rest0) as [vs0|] eqn:Hdr; [|discriminate]. injection Hden as <-.
    cbn [cdepth_elems] in Hdb.
    rewrite seq_text_cons in Hr. destruct (render_head c Hwfc) as (b & r & Hrc & Hbws & Hb93 & _).
    set (rst1 := w2 ++ tail_elems rest0 ++ 93 :: rst).
    assert (Hhne : exists s1, has_next_element E first s = Ok (Some s1) /\ rest s1 = render c ++ rst1
                              /\ depth s1 = depth s).
    { rewrite Hrc. cbn [app]. destruct first.
      - apply hne_fwd_first; [|exact Hb93]. rewrite Hr, Hrc. cbn [app]. lnorm.
        now apply skipws_to.
      - apply (hne_fwd_more cf s (w1 ++ b :: r ++ rst1)); [| |exact Hb93].
        + rewrite Hr, Hrc. lnorm. now apply skipws_to.
        + now apply skipws_to. }
    destruct Hhne as (s1 & Hh & Hs1 & Hd1).
    rewrite parse_seq_S, Hh. cbn [bind].
    destruct (IHc f s1 [] rst1 v) as (s2 & Hv & Hr2 & Hd2); try assumption; try reflexivity.
    { clear - Hf. lia. }
    { unfold rst1. apply follow_ws; [exact Hw2|apply follow_tail_elems]. }
    { rewrite Hd1. eapply dbudget_le; [apply Nat.le_max_l|exact Hdb]. }
    rewrite Hv. cbn [bind].
    destruct (IHr f false s2 w2 rst vs0) as (s3 & wl & Hsq & Hwl & Hr3 & Hd3); try assumption.
    { clear - Hf. lia. }
    { rewrite Hd2, Hd1. eapply dbudget_le; [apply Nat.le_max_r|exact Hdb]. }
    { rewrite Hr2, seq_text_false. unfold rst1. lnorm. reflexivity. }
    rewrite Hsq. cbn [bind]. exists s3, wl. split; [reflexivity|]. split; [exact Hwl|]. split; [exact Hr3|].
    congruence.
  Qed.

  (* ---- member lists ---- *)
  Lemma complete_mnil : complete_map MNil.
  Proof.
    intros fuel first s wp rst vs Hf _ Hden Hwp _ Hr.
    cbn [mfuel] in Hf. destruct fuel as [|f]; [lia|]. cbn [denote_members] in Hden. injection Hden as <-.
    cbn [map_text] in Hr. rewrite parse_map_S.
    rewrite (hnk_fwd_none cf first s rst). 2:{ rewrite Hr. now apply skipws_to. }
    cbn [bind]. exists s, wp. auto.
  Qed.

  Lemma complete_mcons w1 k w2 w3 c w4 rest0 :
    complete_value c -> complete_map rest0 -> complete_map (MCons w1 k w2 w3 c w4 rest0).
  Proof.
    intros IHc IHr fuel first s wp rst vs Hf Hwf Hden Hwp Hdb Hr.
    cbn [mfuel] in Hf. destruct fuel as [|f]; [lia|].
    cbn [wfb_members] in Hwf. apply andb_prop in Hwf as [Hwf Hwfr]. apply andb_prop in Hwf as [Hwf Hw4].
    apply andb_prop in Hwf as [Hwf Hwfc]. apply andb_prop in Hwf as [Hwf Hw3]. apply andb_prop in Hwf as [Hwf Hw2].
    apply andb_prop in Hwf as [Hw1 Hkok].
    cbn [denote_members] in Hden. destruct (str_text k) as [kb|] eqn:Hkt; [|discriminate].
    destruct (denote cf c) as [v|] eqn:Hdc; [|discriminate].
    destruct (denote_members cf rest0) as [vs0|] eqn:Hdr; [|discriminate]. injection Hden as <-.
    cbn [cdepth_members] in Hdb.
    rewrite map_text_cons in Hr. unfold render_str in Hr.
    set (rst1 := w4 ++ tail_members rest0 ++ 125 :: rst).
    set (rstk := w2 ++ 58 :: w3 ++ render c ++ rst1).
    assert (Hhnk : exists s1, has_next_key E first s = Ok (Some s1)
                              /\ rest s1 = 34 :: flat_map render_piece k ++ 34 :: rstk /\ depth s1 = depth s).
    { destruct first.
      - apply hnk_fwd_first. rewrite Hr. lnorm. now apply skipws_to.
      - apply (hnk_fwd_more cf s (w1 ++ 34 :: flat_map render_piece k ++ 34 :: rstk)).
        + rewrite Hr. lnorm. now apply skipws_to.
        + now apply skipws_to. }
    destruct Hhnk as (s1 & Hh & Hs1 & Hd1).
    rewrite parse_map_S, Hh. cbn [bind]. unfold discard at 1. rewrite Hs1. cbn [tl].
    destruct (Hstr_complete k kb rstk (S (off s1)) false (depth s1) Hkok Hkt) as (bw & Hp).
    rewrite Hp. cbn [bind].
    match goal with |- context [parse_object_colon E ?s0] => set (s2 := s0) end.
    destruct (colon_fwd cf s2 (w3 ++ render c ++ rst1)) as (s3 & Hcol & Hr3 & Hd3).
    { unfold s2, rstk. cbn [rest]. now apply skipws_to. }
    rewrite Hcol. cbn [bind].
    destruct (IHc f s3 w3 rst1 v) as (s4 & Hv & Hr4 & Hd4); try assumption.
    { clear - Hf. lia. }
    { unfold rst1. apply follow_ws; [exact Hw4|apply follow_tail_members]. }
    { rewrite Hd3. unfold s2. cbn [depth]. rewrite Hd1. eapply dbudget_le; [apply Nat.le_max_l|exact Hdb]. }
    rewrite Hv. cbn [bind].
    destruct (IHr f false s4 w4 rst vs0) as (s5 & wl & Hmp & Hwl & Hr5 & Hd5); try assumption.
    { clear - Hf. lia. }
    { rewrite Hd4, Hd3. unfold s2. cbn [depth]. rewrite Hd1. eapply dbudget_le; [apply Nat.le_max_r|exact Hdb]. }
    { rewrite Hr4, map_text_false. unfold rst1. lnorm. reflexivity. }
    rewrite Hmp. cbn [bind]. exists s5, wl. split; [reflexivity|]. split; [exact Hwl|]. split; [exact Hr5|].
    rewrite Hd5, Hd4, Hd3. unfold s2. cbn [depth]. exact Hd1.
  Qed.

  Lemma complete_all :
    (forall c, complete_value c) /\ (forall es, complete_seq es) /\ (forall ms, complete_map ms).
  Proof.
    apply cst_elems_members_ind.
    - exact complete_null.
    - exact complete_true.
    - exact complete_false.
    - exact complete_num.
    - exact complete_str.
    - intros w es IH. now apply complete_arr.
    - intros w ms IH. now apply complete_obj.
    - exact complete_enil.
    - intros w1 c IHc w2 rest0 IHr. now apply complete_econs.
    - exact complete_mnil.
    - intros w1 k w2 w3 c IHc w4 rest0 IHr. now apply complete_mcons.
  Qed.

  (* ---- top level ---- *)
  Theorem value_complete_main : forall bs v, Denotes cf bs v -> from_input E bs = Ok v.
  Proof.
    intros bs v (w1 & c & w2 & Hbs & Hw1 & Hw2 & Hwf & Hden & Hdep).
    destruct complete_all as (Cv & _ & _).
    destruct (Cv c (value_fuel bs) (init_st bs) w1 w2 v) as (s1 & Hv & Hr1 & Hd1); try assumption.
    - pose proof (vfuel_bound c) as Hb. unfold value_fuel. rewrite Hbs, !app_length. lia.
    - rewrite <- (app_nil_r w2). apply follow_ws; [exact Hw2|exact I].
    - cbn [init_st depth]. rewrite DEPTH0_eq. intros Hl. specialize (Hdep Hl). lia.
    - unfold from_input. rewrite Hv. cbn [bind].
      assert (Hend : exists s2, de_end E s1 = Ok s2). { apply (de_end_ok cf). rewrite Hr1. exact Hw2. }
      destruct Hend as (s2 & Hend). rewrite Hend. reflexivity.
  Qed.

End Complete.
