(* Proofs/PointerSrc.v — the parameters of Model/Pointer.v's pointer / pointer_mut (separator, pieces skipped, the ORDER of the two replace passes) are
   those of src/value/mod.rs as translated on this run (Gen/PtrTables.v; the translator also checks that pointer and pointer_mut use the same ones). *)
From SJ Require Import Base.Bytes Model.Value Model.Pointer Gen.PtrTables.
Open Scope N_scope.

Definition apply_replaces (rs : list (bytes * bytes)) (x : bytes) : bytes :=
  fold_left (fun acc r => replace (fst r) (snd r) acc) rs x.

Theorem pointer_tokens_are_source : forall p,
  ptr_tokens p = map (apply_replaces PTR_REPLACES) (skipn PTR_SKIP (split PTR_SEP p)).
Proof. intros p. reflexivity. Qed.

Theorem unescape_is_source : forall x, unescape_token x = apply_replaces PTR_REPLACES x.
Proof. intros x. reflexivity. Qed.

(* the order matters and is the RFC's: "~1" first, then "~0" (the other order would turn "~01" into "/") *)
Theorem replace_order_is_rfc : map fst PTR_REPLACES = [pat_t1; pat_t0].
Proof. reflexivity. Qed.
Print Assumptions pointer_tokens_are_source.
