(* Proofs/LexAlgSrc3.v — part 3 of Proofs/LexAlgSrc.v: the hand model Model/Lex.v is the translated source (Gen/LexAlgTables.v) for

       rounding.rs   round_to_float  avoid_overflow  round_to_native            (generic in `F: Float` and in the `Algorithm`)
       float.rs      ExtendedFloat::{round_to_native, into_float, into_downward_float}  into_float

   See the header of Proofs/LexAlgSrc.v for the shape of the statements. *)
From Coq Require Import String ZArith NArith List Bool Lia ZifyBool ZifyNat ZifyN.
From SJ Require Import Base.Bytes Base.FloatB Gen.LexTables Model.Num Model.Lex Model.LexAlgAst Gen.LexAlgTables Model.LexAlgEnv.
From SJ Require Import Proofs.LexAlgSrc Proofs.LexAlgSrc2.
Import ListNotations.
Local Open Scope string_scope.
Local Open Scope list_scope.
Local Open Scope Z_scope.

#[local] Arguments ef_normalize : simpl never.
#[local] Arguments round_to_float : simpl never.
#[local] Arguments avoid_overflow : simpl never.
#[local] Arguments round_to_native : simpl never.
#[local] Arguments into_float_bits : simpl never.
#[local] Arguments round_nearest_tie_even : simpl never.
#[local] Arguments round_downward : simpl never.
#[local] Arguments shr : simpl never.
#[local] Arguments shl : simpl never.

(* ================================================================================================ *)
(** * rounding.rs: round_to_float, avoid_overflow, round_to_native (generic in F and in the Algorithm) *)
(* what the generic code needs of its `algorithm: FnOnce(&mut ExtendedFloat, i32)`: the translated function [name] behaves as [algo] *)
Definition alg_spec (G : genv) (name : string) (algo : efloat -> Z -> efloat) (n : nat) : Prop :=
  forall fp shift f, ef_ok fp -> 1 <= shift <= 64 -> i32_ok (exp fp + shift) -> (n <= f)%nat ->
  call f G name [ef_val fp; VInt I32 shift] = Ok (VUnit, [ef_val (algo fp shift)]).
Definition algo_ok (algo : efloat -> Z -> efloat) : Prop :=
  forall fp shift, ef_ok fp -> 1 <= shift <= 64 -> exp (algo fp shift) = exp fp + shift /\ (mant (algo fp shift) < two64N)%N.

Lemma alg_rnte G : alg_spec G "round_nearest_tie_even" round_nearest_tie_even 9.
Proof. intros fp shift f H1 H2 H3 H4. apply round_nearest_tie_even_src; assumption. Qed.
Lemma alg_down G : alg_spec G "round_downward" round_downward 7.
Proof. intros fp shift f H1 H2 H3 H4. apply round_downward_src; (assumption || lia). Qed.
Lemma algo_rnte : algo_ok round_nearest_tie_even.
Proof.
  intros [m e] s [Hm He] Hs. unfold round_nearest_tie_even, round_nearest, tie_even, overflowing_shr. cbn [mant exp] in *.
  pose proof (shiftr_half m s Hm). unfold two64N.
  destruct (_ || _); cbn [mant exp]; (split; [reflexivity|]); destruct (s =? 64); lia.
Qed.
Lemma algo_down : algo_ok round_downward.
Proof.
  intros [m e] s [Hm He] Hs. unfold round_downward, overflowing_shr. cbn [mant exp] in *. split; [reflexivity|].
  destruct (s =? 64); [reflexivity|]. eapply N.le_lt_trans; [apply shiftr_le|exact Hm].
Qed.

Lemma eqb_Npos a p : (Z.of_N a =? Z.pos p) = (a =? N.pos p)%N.
Proof. apply (eqb_N a (N.pos p)). Qed.
Ltac to_N_lit := repeat match goal with |- context [Z.to_N (Zpos ?p)] => change (Z.to_N (Zpos p)) with (Npos p) end.

Ltac consts := unfold DEFAULT_SHIFT, DENORMAL_EXPONENT, MAX_EXPONENT, MANTISSA_SIZE, EXPONENT_BIAS, CARRY_MASK, EXPONENT_MASK,
  HIDDEN_BIT_MASK, MANTISSA_MASK, INFINITY_BITS, EXP_LIMIT_MIN, EXP_LIMIT_MAX, MANTISSA_LIMIT,
  F64_DEFAULT_SHIFT, F64_DENORMAL_EXPONENT, F64_MAX_EXPONENT, F64_MANTISSA_SIZE, F64_EXPONENT_BIAS, F64_CARRY_MASK, F64_EXPONENT_MASK,
  F64_HIDDEN_BIT_MASK, F64_MANTISSA_MASK, F64_INFINITY_BITS, F64_EXP_LIMIT_MIN, F64_EXP_LIMIT_MAX, F64_MANTISSA_LIMIT,
  F32_DEFAULT_SHIFT, F32_DENORMAL_EXPONENT, F32_MAX_EXPONENT, F32_MANTISSA_SIZE, F32_EXPONENT_BIAS, F32_CARRY_MASK, F32_EXPONENT_MASK,
  F32_HIDDEN_BIT_MASK, F32_MANTISSA_MASK, F32_INFINITY_BITS, F32_EXP_LIMIT_MIN, F32_EXP_LIMIT_MAX, F32_MANTISSA_LIMIT in *.

Lemma lor_lt a b n : (a < 2 ^ n)%N -> (b < 2 ^ n)%N -> (N.lor a b < 2 ^ n)%N.
Proof.
  intros Ha Hb. destruct (N.eq_dec a 0) as [->|Ha0]; [rewrite N.lor_0_l; exact Hb|].
  destruct (N.eq_dec b 0) as [->|Hb0]; [rewrite N.lor_0_r; exact Ha|].
  assert (H0 : (0 < N.lor a b)%N).
  { apply N.neq_0_lt_0. intros Hz. apply N.lor_eq_0_iff in Hz. destruct Hz; contradiction. }
  apply N.log2_lt_pow2; [exact H0|]. rewrite N.log2_lor.
  apply N.max_lub_lt; apply N.log2_lt_pow2; (assumption || lia).
Qed.

Section RoundToFloat.
Variable k : fkind.
Notation G := (lex_genv k).

(* `if fp.mant & F::CARRY_MASK == F::CARRY_MASK { shr(fp, 1); }` *)
Lemma carry_tail : forall fp1 v0 alg f, ef_ok fp1 -> i32_ok (exp fp1 + 1) ->
  exec_block (exec (S (S (S (S f)))) G P) (skipn 2 (fbody LA_round_to_float)) [[("final_exp", v0)]; [("fp", ef_val fp1); ("algorithm", alg)]] =
  Ok (OFall [[("final_exp", v0)];
             [("fp", ef_val (if N.eqb (N.land (mant fp1) (CARRY_MASK k)) (CARRY_MASK k) then shr fp1 1 else fp1)); ("algorithm", alg)]]).
Proof.
  intros fp1 v0 alg f Hok Hx. cbn [skipn fbody LA_round_to_float].
  destruct k; consts; step; unfold nbits; rewrite !N2Z.id; to_N_lit; rewrite eqb_Npos.
  all: destruct (N.land _ _ =? _)%N; unfold exec_scope.
  all: try (step; rewrite shr_src by (assumption || lia); cbn; step; step; reflexivity).
  all: step; step; reflexivity.
Qed.

Lemma algo_ef_ok algo fp s : algo_ok algo -> ef_ok fp -> 1 <= s <= 64 -> i32_ok (exp fp + s + 1) ->
  ef_ok (algo fp s) /\ i32_ok (exp (algo fp s) + 1).
Proof.
  intros Hao Hok Hs Hx. destruct (Hao fp s Hok Hs) as [He Hm]. destruct Hok as [_ He0]. unfold ef_ok, i32_ok in *. rewrite He. lia.
Qed.

Theorem round_to_float_src : forall name algo n fp f, alg_spec G name algo n -> algo_ok algo -> ef_ok fp ->
  exp fp + DEFAULT_SHIFT k + 1 <= 2147483647 -> (n + 4 <= f)%nat ->
  call f G "round_to_float" [ef_val fp; VFn name] = Ok (VUnit, [ef_val (round_to_float k algo fp)]).
Proof.
  intros name algo n [m e] f Halg Hao Hok Hx Hf. pose proof Hok as [Hm He]. cbn [mant exp] in *.
  do 4 fuel1. enter LA_round_to_float. unfold round_to_float.
  pose proof carry_tail as CT. cbn [skipn fbody LA_round_to_float] in CT.
  assert (Hz : ef_ok (mkEF 0 0)) by (split; [reflexivity | unfold i32_ok; cbn [exp]; lia]).
  destruct k; consts; cbn [mant exp].
  - step; consts. rewrite checked_ok by inr. cbn. rewrite blk_cons, ex_if. cbn; consts.
    destruct (e + 11 <? -1074) eqn:E1; cbn.
    + unfold exec_scope. step; consts. rewrite checked_ok by inr. cbn. step.
      destruct (-1074 - e <=? 64) eqn:E2; cbn.
      * destruct (algo_ef_ok algo (mkEF m e) (-1074 - e) Hao Hok) as [Ha1 Ha2]; [lia | unfold i32_ok; cbn [exp]; lia|].
        step. rewrite Halg by (assumption || (unfold i32_ok; cbn [exp]; lia) || lia). cbn. step. step.
        rewrite CT by assumption. cbn. reflexivity.
      * step. step. step. step. fold_ef. change (VEF 0 0) with (ef_val (mkEF 0 0)).
        rewrite CT by (assumption || (unfold i32_ok; cbn [exp]; lia)). cbn. reflexivity.
    + destruct (algo_ef_ok algo (mkEF m e) 11 Hao Hok) as [Ha1 Ha2]; [lia | unfold i32_ok; cbn [exp]; lia|].
      unfold exec_scope. step; consts. rewrite Halg by (assumption || (unfold i32_ok; cbn [exp]; lia) || lia). cbn. step.
      rewrite CT by assumption. cbn. reflexivity.
  - step; consts. rewrite checked_ok by inr. cbn. rewrite blk_cons, ex_if. cbn; consts.
    destruct (e + 40 <? -149) eqn:E1; cbn.
    + unfold exec_scope. step; consts. rewrite checked_ok by inr. cbn. step.
      destruct (-149 - e <=? 64) eqn:E2; cbn.
      * destruct (algo_ef_ok algo (mkEF m e) (-149 - e) Hao Hok) as [Ha1 Ha2]; [lia | unfold i32_ok; cbn [exp]; lia|].
        step. rewrite Halg by (assumption || (unfold i32_ok; cbn [exp]; lia) || lia). cbn. step. step.
        rewrite CT by assumption. cbn. reflexivity.
      * step. step. step. step. fold_ef. change (VEF 0 0) with (ef_val (mkEF 0 0)).
        rewrite CT by (assumption || (unfold i32_ok; cbn [exp]; lia)). cbn. reflexivity.
    + destruct (algo_ef_ok algo (mkEF m e) 40 Hao Hok) as [Ha1 Ha2]; [lia | unfold i32_ok; cbn [exp]; lia|].
      unfold exec_scope. step; consts. rewrite Halg by (assumption || (unfold i32_ok; cbn [exp]; lia) || lia). cbn. step.
      rewrite CT by assumption. cbn. reflexivity.
Qed.

Lemma round_to_float_ok algo fp : algo_ok algo -> ef_ok fp -> exp fp + DEFAULT_SHIFT k + 1 <= 2147483647 ->
  (mant (round_to_float k algo fp) < two64N)%N /\ -1200 <= exp (round_to_float k algo fp) <= Z.max (exp fp + DEFAULT_SHIFT k + 1) 1.
Proof.
  intros Hao Hok Hx. pose proof Hok as [Hm He]. unfold round_to_float, i32_ok in *.
  assert (Hshr : forall x : efloat, (mant x < two64N)%N -> (mant (shr x 1) < two64N)%N /\ exp (shr x 1) = exp x + 1).
  { intros x Hx1. unfold shr. cbn [mant exp]. split; [|reflexivity]. eapply N.le_lt_trans; [apply shiftr_le|exact Hx1]. }
  destruct k; consts.
  - destruct (exp fp + 11 <? -1074) eqn:E1; [destruct (-1074 - exp fp <=? 64) eqn:E2|].
    + destruct (Hao fp (-1074 - exp fp) Hok) as [Ha1 Ha2]; [lia|].
      destruct (N.eqb _ _); [destruct (Hshr _ Ha2) as [H1 H2]; rewrite H2|]; rewrite ?Ha1; split; (assumption || lia).
    + cbn [mant exp]. destruct (N.eqb _ _); unfold shr; cbn [mant exp]; split; (reflexivity || lia).
    + destruct (Hao fp 11 Hok) as [Ha1 Ha2]; [lia|].
      destruct (N.eqb _ _); [destruct (Hshr _ Ha2) as [H1 H2]; rewrite H2|]; rewrite ?Ha1; split; (assumption || lia).
  - destruct (exp fp + 40 <? -149) eqn:E1; [destruct (-149 - exp fp <=? 64) eqn:E2|].
    + destruct (Hao fp (-149 - exp fp) Hok) as [Ha1 Ha2]; [lia|].
      destruct (N.eqb _ _); [destruct (Hshr _ Ha2) as [H1 H2]; rewrite H2|]; rewrite ?Ha1; split; (assumption || lia).
    + cbn [mant exp]. destruct (N.eqb _ _); unfold shr; cbn [mant exp]; split; (reflexivity || lia).
    + destruct (Hao fp 40 Hok) as [Ha1 Ha2]; [lia|].
      destruct (N.eqb _ _); [destruct (Hshr _ Ha2) as [H1 H2]; rewrite H2|]; rewrite ?Ha1; split; (assumption || lia).
Qed.

Theorem avoid_overflow_src : forall fp f, ef_ok fp -> (10 <= f)%nat ->
  call f G "avoid_overflow" [ef_val fp] = Ok (VUnit, [ef_val (avoid_overflow k fp)]).
Proof.
  intros [m e] f Hok Hf. pose proof Hok as [Hm He]. cbn [mant exp] in *. do 5 fuel1. enter LA_avoid_overflow. unfold avoid_overflow.
  destruct k; consts; cbn [mant exp].
  - step; consts. destruct (972 <=? e) eqn:E1; cbn; [|step; step; reflexivity].
    unfold exec_scope. step; consts. rewrite checked_ok by inr. cbn. step; consts.
    destruct (e - 972 <=? 52) eqn:E2; cbn; [|step; step; step; reflexivity].
    step; consts. rewrite (wrap_id U64 53) by reflexivity. cbn.
    step. rewrite checked_ok by inr. cbn. rewrite wrap_id by inr.
    step. pcall LA_internal_n_mask. rewrite internal_n_mask_src by lia. cbn.
    step. unfold nbits. rewrite !N2Z.id. change 0 with (Z.of_N 0). rewrite eqb_N.
    replace (e - 972 + 1) with (e - 972 + 1) by reflexivity.
    destruct (N.land m (internal_n_mask 53 (e - 972 + 1)) =? 0)%N eqn:E3; cbn; [|step; step; step; step; reflexivity].
    step. rewrite checked_ok by inr. cbn. step. fold_ef.
    rewrite shl_src by (assumption || (unfold i32_ok in *; cbn [exp]; lia) || lia). cbn.
    step. step. step. step. reflexivity.
  - step; consts. destruct (105 <=? e) eqn:E1; cbn; [|step; step; reflexivity].
    unfold exec_scope. step; consts. rewrite checked_ok by inr. cbn. step; consts.
    destruct (e - 105 <=? 23) eqn:E2; cbn; [|step; step; step; reflexivity].
    step; consts. rewrite (wrap_id U64 24) by reflexivity. cbn.
    step. rewrite checked_ok by inr. cbn. rewrite wrap_id by inr.
    step. pcall LA_internal_n_mask. rewrite internal_n_mask_src by lia. cbn.
    step. unfold nbits. rewrite !N2Z.id. change 0 with (Z.of_N 0). rewrite eqb_N.
    destruct (N.land m (internal_n_mask 24 (e - 105 + 1)) =? 0)%N eqn:E3; cbn; [|step; step; step; step; reflexivity].
    step. rewrite checked_ok by inr. cbn. step. fold_ef.
    rewrite shl_src by (assumption || (unfold i32_ok in *; cbn [exp]; lia) || lia). cbn.
    step. step. step. step. reflexivity.
Qed.

Lemma normalize_ok fp : ef_ok fp -> -2147483648 + 63 <= exp fp ->
  ef_ok (fst (ef_normalize fp)) /\ exp fp - 63 <= exp (fst (ef_normalize fp)) <= exp fp.
Proof.
  intros [Hm He] Hx. unfold ef_normalize, shl, ef_ok, i32_ok in *. cbn [fst mant exp].
  assert (Hs : 0 <= (if (mant fp =? 0)%N then 0 else Lex.clz64 (mant fp)) <= 63).
  { destruct (mant fp =? 0)%N eqn:E; [lia|]. apply clz_range; [lia|exact Hm]. }
  split; [split|]; try lia; try (apply N.mod_lt; discriminate).
Qed.

Lemma avoid_overflow_ok fp : ef_ok fp -> ef_ok (avoid_overflow k fp).
Proof.
  intros [Hm He]. unfold avoid_overflow. destruct (MAX_EXPONENT k <=? exp fp) eqn:E1; [|split; assumption].
  destruct (_ <=? MANTISSA_SIZE k) eqn:E2; [|split; assumption].
  destruct (N.eqb _ _); [|split; assumption].
  unfold shl, ef_ok, i32_ok in *. cbn [mant exp]. split; [apply N.mod_lt; discriminate|].
  destruct k; consts; lia.
Qed.

Theorem round_to_native_src : forall name algo n fp f, alg_spec G name algo n -> algo_ok algo -> ef_ok fp ->
  -2147483648 + 63 <= exp fp -> exp fp + DEFAULT_SHIFT k + 1 <= 2147483647 -> (n + 11 <= f)%nat ->
  call f G "round_to_native" [ef_val fp; VFn name] = Ok (VUnit, [ef_val (round_to_native k algo fp)]).
Proof.
  intros name algo n fp f Halg Hao Hok Hlo Hhi Hf. do 1 fuel1. enter LA_round_to_native. unfold round_to_native.
  destruct (normalize_ok fp Hok Hlo) as [Hn1 Hn2].
  step. rewrite normalize_src by (assumption || lia). cbn.
  step. rewrite (round_to_float_src name algo n) by (assumption || lia). cbn.
  destruct (round_to_float_ok algo (fst (ef_normalize fp)) Hao Hn1) as [Hr1 Hr2]; [lia|].
  step. rewrite avoid_overflow_src; [cbn; step; reflexivity| | lia].
  split; [exact Hr1|]. unfold i32_ok. destruct k; consts; lia.
Qed.

Theorem method_round_to_native_src : forall name algo n fp f, alg_spec G name algo n -> algo_ok algo -> ef_ok fp ->
  -2147483648 + 63 <= exp fp -> exp fp + DEFAULT_SHIFT k + 1 <= 2147483647 -> (n + 12 <= f)%nat ->
  call f G "ExtendedFloat::round_to_native" [ef_val fp; VFn name] = Ok (VUnit, [ef_val (round_to_native k algo fp)]).
Proof.
  intros name algo n fp f Halg Hao Hok Hlo Hhi Hf. do 1 fuel1. enter LA_ExtendedFloat_round_to_native.
  step. rewrite (round_to_native_src name algo n) by (assumption || lia). cbn. step. reflexivity.
Qed.

Lemma round_to_native_ok algo fp : algo_ok algo -> ef_ok fp -> -2147483648 + 63 <= exp fp -> exp fp + DEFAULT_SHIFT k + 1 <= 2147483647 ->
  ef_ok (round_to_native k algo fp).
Proof.
  intros Hao Hok Hlo Hhi. unfold round_to_native. destruct (normalize_ok fp Hok Hlo) as [Hn1 Hn2].
  destruct (round_to_float_ok algo (fst (ef_normalize fp)) Hao Hn1) as [Hr1 Hr2]; [lia|].
  apply avoid_overflow_ok. split; [exact Hr1|]. unfold i32_ok. destruct k; consts; lia.
Qed.

Theorem into_float_src : forall fp f, ef_ok fp -> (4 <= f)%nat ->
  call f G "into_float" [ef_val fp] = Ok (VF (FBits (Z.of_N (into_float_bits k fp))), []).
Proof.
  intros [m e] f Hok Hf. pose proof Hok as [Hm He]. cbn [mant exp] in *. do 4 fuel1. enter LA_into_float. unfold into_float_bits.
  destruct k; consts; cbn [mant exp].
  - step; consts. change 0 with (Z.of_N 0) at 1. rewrite eqb_N.
    destruct (m =? 0)%N eqn:E0; cbn; [unfold exec_scope; repeat step; reflexivity|].
    destruct (e <? -1074) eqn:E1; cbn; [unfold exec_scope; repeat step; reflexivity|].
    unfold exec_scope. step; consts.
    destruct (972 <=? e) eqn:E2; cbn; [repeat step; reflexivity|].
    step; consts. step; consts.
    assert (Hx : (Z.to_N (e + 1075) < 2047)%N) by lia.
    assert (Hsh : forall x, (x < 2047)%N -> (N.shiftl x (Z.to_N 52) mod two64N = N.shiftl x 52)%N).
    { intros x Hxx. change (Z.to_N 52) with 52%N. rewrite N.shiftl_mul_pow2. apply N.mod_small. unfold two64N.
      change (2 ^ 52)%N with 4503599627370496%N. lia. }
    assert (Hfit : forall x, (x < 2047)%N -> (N.lor (N.land m 4503599627370495) (N.shiftl x 52) < 18446744073709551616)%N).
    { intros x Hxx. apply (lor_lt _ _ 64).
      - eapply N.le_lt_trans; [apply land_le_r|]. reflexivity.
      - rewrite N.shiftl_mul_pow2. change (2 ^ 52)%N with 4503599627370496%N. change (2 ^ 64)%N with 18446744073709551616%N. lia. }
    destruct (e =? -1074) eqn:E3; cbn.
    + rewrite (wrap_id U64 4503599627370496) by reflexivity. cbn. unfold nbits. rewrite N2Z.id. to_N_lit.
      change 0 with (Z.of_N 0) at 1. rewrite eqb_N.
      destruct (N.land m 4503599627370496 =? 0)%N eqn:E4; cbn.
      * step; consts. step; consts. step; consts. change (int_shift OShl U64 0 52) with (Ok (VInt U64 (Z.of_N (N.shiftl 0 52)))). cbn.
        step; consts. rewrite (wrap_id U64 4503599627370495) by reflexivity. cbn. unfold nbits. rewrite !N2Z.id. to_N_lit.
        step; consts. unfold nbits. rewrite !N2Z.id. rewrite wrap_id by (apply in_range_u64; pose proof (Hfit 0%N); lia). cbn.
        repeat (step; consts). reflexivity.
      * step; consts. rewrite checked_ok by inr. cbn. rewrite wrap_id by inr.
        step; consts. step; consts. replace (e + 1075) with (Z.of_N (Z.to_N (e + 1075))) by lia. rewrite int_shl_ok by lia. rewrite Hsh by exact Hx. cbn.
        step; consts. rewrite (wrap_id U64 4503599627370495) by reflexivity. cbn. unfold nbits. rewrite !N2Z.id. to_N_lit.
        step; consts. unfold nbits. rewrite !N2Z.id. rewrite wrap_id by (apply in_range_u64; pose proof (Hfit _ Hx); lia). cbn.
        repeat (step; consts). reflexivity.
    + step; consts. rewrite checked_ok by inr. cbn. rewrite wrap_id by inr.
      step; consts. step; consts. replace (e + 1075) with (Z.of_N (Z.to_N (e + 1075))) by lia. rewrite int_shl_ok by lia. rewrite Hsh by exact Hx. cbn.
      step; consts. rewrite (wrap_id U64 4503599627370495) by reflexivity. cbn. unfold nbits. rewrite !N2Z.id. to_N_lit.
      step; consts. unfold nbits. rewrite !N2Z.id. rewrite wrap_id by (apply in_range_u64; pose proof (Hfit _ Hx); lia). cbn.
      repeat (step; consts). reflexivity.
  - step; consts. change 0 with (Z.of_N 0) at 1. rewrite eqb_N.
    destruct (m =? 0)%N eqn:E0; cbn; [unfold exec_scope; repeat step; reflexivity|].
    destruct (e <? -149) eqn:E1; cbn; [unfold exec_scope; repeat step; reflexivity|].
    unfold exec_scope. step; consts.
    destruct (105 <=? e) eqn:E2; cbn; [repeat step; reflexivity|].
    step; consts. step; consts.
    assert (Hx : (Z.to_N (e + 150) < 255)%N) by lia.
    assert (Hsh : forall x, (x < 255)%N -> (N.shiftl x (Z.to_N 23) mod two64N = N.shiftl x 23)%N).
    { intros x Hxx. change (Z.to_N 23) with 23%N. rewrite N.shiftl_mul_pow2. apply N.mod_small. unfold two64N.
      change (2 ^ 23)%N with 8388608%N. lia. }
    assert (Hfit : forall x, (x < 255)%N -> (N.lor (N.land m 8388607) (N.shiftl x 23) < 4294967296)%N).
    { intros x Hxx. apply (lor_lt _ _ 32).
      - eapply N.le_lt_trans; [apply land_le_r|]. reflexivity.
      - rewrite N.shiftl_mul_pow2. change (2 ^ 23)%N with 8388608%N. change (2 ^ 32)%N with 4294967296%N. lia. }
    destruct (e =? -149) eqn:E3; cbn.
    + rewrite (wrap_id U64 8388608) by reflexivity. cbn. unfold nbits. rewrite N2Z.id. to_N_lit.
      change 0 with (Z.of_N 0) at 1. rewrite eqb_N.
      destruct (N.land m 8388608 =? 0)%N eqn:E4; cbn.
      * step; consts. step; consts. step; consts. change (int_shift OShl U64 0 23) with (Ok (VInt U64 (Z.of_N (N.shiftl 0 23)))). cbn.
        step; consts. rewrite (wrap_id U64 8388607) by reflexivity. cbn. unfold nbits. rewrite !N2Z.id. to_N_lit.
        step; consts. unfold nbits. rewrite !N2Z.id. rewrite wrap_id by (apply in_range_u32; pose proof (Hfit 0%N); lia). cbn.
        repeat (step; consts). reflexivity.
      * step; consts. rewrite checked_ok by inr. cbn. rewrite wrap_id by inr.
        step; consts. step; consts. replace (e + 150) with (Z.of_N (Z.to_N (e + 150))) by lia. rewrite int_shl_ok by lia. rewrite Hsh by exact Hx. cbn.
        step; consts. rewrite (wrap_id U64 8388607) by reflexivity. cbn. unfold nbits. rewrite !N2Z.id. to_N_lit.
        step; consts. unfold nbits. rewrite !N2Z.id. rewrite wrap_id by (apply in_range_u32; pose proof (Hfit _ Hx); lia). cbn.
        repeat (step; consts). reflexivity.
    + step; consts. rewrite checked_ok by inr. cbn. rewrite wrap_id by inr.
      step; consts. step; consts. replace (e + 150) with (Z.of_N (Z.to_N (e + 150))) by lia. rewrite int_shl_ok by lia. rewrite Hsh by exact Hx. cbn.
      step; consts. rewrite (wrap_id U64 8388607) by reflexivity. cbn. unfold nbits. rewrite !N2Z.id. to_N_lit.
      step; consts. unfold nbits. rewrite !N2Z.id. rewrite wrap_id by (apply in_range_u32; pose proof (Hfit _ Hx); lia). cbn.
      repeat (step; consts). reflexivity.
Qed.

Theorem ef_into_float_src : forall fp f, ef_ok fp ->
  -2147483648 + 63 <= exp fp -> exp fp + DEFAULT_SHIFT k + 1 <= 2147483647 -> (22 <= f)%nat ->
  call f G "ExtendedFloat::into_float" [ef_val fp] = Ok (VF (FBits (Z.of_N (ef_into_float k fp))), []).
Proof.
  intros fp f Hok Hlo Hhi Hf. do 1 fuel1. enter LA_ExtendedFloat_into_float. unfold ef_into_float.
  step. rewrite (method_round_to_native_src _ round_nearest_tie_even 9) by (first [apply alg_rnte | apply algo_rnte | assumption | lia]).
  cbn. step. pcall LA_into_float.
  rewrite into_float_src by (first [apply round_to_native_ok; first [apply algo_rnte | assumption] | lia]).
  reflexivity.
Qed.

Theorem ef_into_downward_float_src : forall fp f, ef_ok fp ->
  -2147483648 + 63 <= exp fp -> exp fp + DEFAULT_SHIFT k + 1 <= 2147483647 -> (20 <= f)%nat ->
  call f G "ExtendedFloat::into_downward_float" [ef_val fp] = Ok (VF (FBits (Z.of_N (ef_into_downward_float k fp))), []).
Proof.
  intros fp f Hok Hlo Hhi Hf. do 1 fuel1. enter LA_ExtendedFloat_into_downward_float. unfold ef_into_downward_float.
  step. rewrite (method_round_to_native_src _ round_downward 7) by (first [apply alg_down | apply algo_down | assumption | lia]).
  cbn. step. pcall LA_into_float.
  rewrite into_float_src by (first [apply round_to_native_ok; first [apply algo_down | assumption] | lia]).
  reflexivity.
Qed.

(* without room below the exponent, normalize's `fp.exp -= shift` leaves i32: the source panics, the model (Z) goes on *)
Example into_float_needs_exp_room : run 40 G P "ExtendedFloat::into_float" [VEF 1 (-2147483648)] = Panic.
Proof. destruct k; reflexivity. Qed.
End RoundToFloat.

Print Assumptions round_to_float_src.
Print Assumptions avoid_overflow_src.
Print Assumptions round_to_native_src.
Print Assumptions method_round_to_native_src.
Print Assumptions into_float_src.
Print Assumptions ef_into_float_src.
Print Assumptions ef_into_downward_float_src.
