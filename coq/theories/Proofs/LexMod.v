(* Proofs/LexMod.v — Stage 2: the moderate path of lexical (algorithm.rs moderate_path / multiply_exponent_extended with
   errors.rs error_is_accurate and float.rs into_float / into_downward_float) is sound, both float kinds.

   For  x = (w + theta) * 10^exponent = D * 10^ed  (w the u64 mantissa, theta in [0,1) what was truncated from it):

     moderate_path k w exponent truncated = (fp, true)   ->  ef_into_float k fp = the correctly rounded bits of x
     moderate_path k w exponent truncated = (fp, false)  ->  b := ef_into_downward_float k fp  is either the infinity pattern,
                                                              and then x rounds to infinity, or a finite float with
                                                              value(b) <= x < value(next b)   (the precondition of Stage 1)

   relative to an oracle characterised by brackets (Section Gen; instantiated for binary64 in LexFull.v).
   The error analysis is LexErr.mee_bound; this file does the rounding argument. *)
From Coq Require Import ZArith NArith Reals Lia Lra List Bool Psatz.
From Flocq Require Import Core BinarySingleNaN.
From SJ Require Import Base.Bytes Base.FloatB Gen.LexTables Model.Read Model.Num Model.Lex.
From SJ Require Import Proofs.FloatDefault Proofs.FloatOracle Proofs.LexExt Proofs.LexTables Proofs.LexRnd Proofs.LexBits Proofs.LexAtof
                       Proofs.LexRtn Proofs.LexErr.
Import ListNotations.
Open Scope Z_scope.

(* no division reasoning is needed here; LexExt/LexAtof switch the euclidean-division hook of zify on, which makes lia slow *)
Ltac Zify.zify_post_hook ::= idtac.

(* ------------------------------------------------------------------ *)
(** * encodings *)
Ltac k2 :=
  kconst; change (2 ^ 52) with 4503599627370496 in *; change (2 ^ (52 + 1)) with 9007199254740992 in *;
  change (2 ^ 23) with 8388608 in *; change (2 ^ (23 + 1)) with 16777216 in *.

Lemma encZ_inj (k : fkind) (M E M' E' : Z) :
  0 <= M < 2 ^ prec k -> DENORMAL_EXPONENT k <= E -> (E = DENORMAL_EXPONENT k \/ 2 ^ MANTISSA_SIZE k <= M) ->
  0 <= M' < 2 ^ prec k -> DENORMAL_EXPONENT k <= E' -> (E' = DENORMAL_EXPONENT k \/ 2 ^ MANTISSA_SIZE k <= M') ->
  encZ k M E = encZ k M' E' -> M = M' /\ E = E'.
Proof.
  intros HM HE Hc HM' HE' Hc' Heq. unfold encZ in Heq.
  destruct k; k2.
  - destruct (Z.ltb_spec M 4503599627370496); destruct (Z.ltb_spec M' 4503599627370496); lia.
  - destruct (Z.ltb_spec M 8388608); destruct (Z.ltb_spec M' 8388608); lia.
Qed.

Lemma INF_shape (k : fkind) : Z.of_N (INFINITY_BITS k) = (MAX_EXPONENT k + EXPONENT_BIAS k) * 2 ^ MANTISSA_SIZE k.
Proof. destruct k; reflexivity. Qed.

Lemma encZ_lt_INF (k : fkind) (M E : Z) :
  0 <= M < 2 ^ prec k -> (E = DENORMAL_EXPONENT k \/ 2 ^ MANTISSA_SIZE k <= M) ->
  (encZ k M E < Z.of_N (INFINITY_BITS k) <-> E < MAX_EXPONENT k) /\ 0 <= encZ k M E \/ E < DENORMAL_EXPONENT k.
Proof.
  intros HM Hc. destruct (Z.le_gt_cases (DENORMAL_EXPONENT k) E) as [HE|HE]; [left|right; exact HE].
  rewrite INF_shape. unfold encZ. destruct k; k2.
  - destruct (Z.ltb_spec M 4503599627370496); lia.
  - destruct (Z.ltb_spec M 8388608); lia.
Qed.

(* the significand/exponent of the encoding of a canonical pair *)
Lemma decode_enc (k : fkind) (M E : Z) :
  0 <= M < 2 ^ prec k -> DENORMAL_EXPONENT k <= E < MAX_EXPONENT k -> (E = DENORMAL_EXPONENT k \/ 2 ^ MANTISSA_SIZE k <= M) ->
  let b := Z.to_N (encZ k M E) in
  (b < INFINITY_BITS k)%N /\ Z.of_N (f_mantissa k b) = M /\ f_exponent k b = E /\ f_is_special k b = false.
Proof.
  intros HM HE Hc b.
  destruct (encZ_lt_INF k M E HM Hc) as [(Hlt & H0)|Hbad]; [|lia].
  assert (Hb : (b < INFINITY_BITS k)%N) by (unfold b; destruct Hlt as (_ & Hl2); specialize (Hl2 ltac:(lia)); lia).
  destruct (fbits_decode k b Hb) as (HM' & HE' & Hc' & Henc & Hsp).
  assert (Heq : encZ k (Z.of_N (f_mantissa k b)) (f_exponent k b) = encZ k M E) by (rewrite Henc; unfold b; lia).
  destruct (encZ_inj k _ _ _ _ HM' (proj1 HE') Hc' HM (proj1 HE) Hc Heq) as (H1 & H2).
  repeat split; assumption.
Qed.

(* consecutive bit patterns *)
Lemma succ_cases (k : fkind) (b : N) : (b + 1 < INFINITY_BITS k)%N ->
  let M := Z.of_N (f_mantissa k b) in let E := f_exponent k b in
  let M' := Z.of_N (f_mantissa k (b + 1)) in let E' := f_exponent k (b + 1) in
  (M' = M + 1 /\ E' = E) \/ (M + 1 = 2 ^ prec k /\ M' = 2 ^ MANTISSA_SIZE k /\ E' = E + 1).
Proof.
  intros Hb M E M' E'.
  destruct (fbits_decode k b ltac:(lia)) as (HM & HE & Hcan & Henc & _).
  destruct (fbits_decode k (b + 1) Hb) as (HM' & HE' & Hcan' & Henc' & _).
  fold M E in HM, HE, Hcan, Henc. fold M' E' in HM', HE', Hcan', Henc'.
  unfold encZ in Henc, Henc'. clearbody M E M' E'.
  destruct k; k2.
  - destruct (Z.ltb_spec M 4503599627370496); destruct (Z.ltb_spec M' 4503599627370496); lia.
  - destruct (Z.ltb_spec M 8388608); destruct (Z.ltb_spec M' 8388608); lia.
Qed.

Lemma last_finite (k : fkind) (b : N) : (b + 1)%N = INFINITY_BITS k ->
  Z.of_N (f_mantissa k b) + 1 = 2 ^ prec k /\ f_exponent k b = MAX_EXPONENT k - 1.
Proof.
  intros Hb.
  destruct (fbits_decode k b ltac:(lia)) as (HM & HE & Hcan & Henc & _).
  set (M := Z.of_N (f_mantissa k b)) in *. set (E := f_exponent k b) in *.
  assert (Hi : encZ k M E + 1 = Z.of_N (INFINITY_BITS k)) by lia. rewrite INF_shape in Hi.
  unfold encZ in Hi. clearbody M E. destruct k; k2.
  - destruct (Z.ltb_spec M 4503599627370496); lia.
  - destruct (Z.ltb_spec M 8388608); lia.
Qed.

(* ------------------------------------------------------------------ *)
(** * real helpers *)
Lemma Rle_powerRZ' (a b : Z) : a <= b -> (powerRZ 10 a <= powerRZ 10 b)%R.
Proof.
  intros H. replace b with (a + (b - a)) by lia. rewrite powerRZ_add by lra. rewrite (powerRZ_10_nonneg (b - a)) by lia.
  assert (0 < powerRZ 10 a)%R by (apply powerRZ_lt; lra).
  assert (1 <= IZR (10 ^ (b - a)))%R by (apply IZR_le; assert (0 < 10 ^ (b - a)) by (apply pow10_pos; lia); lia).
  nra.
Qed.

Lemma coef_le (a b : Z) (t : R) : (0 < t)%R -> a <= b -> (IZR a * t <= IZR b * t)%R.
Proof. intros Ht H. apply Rmult_le_compat_r; [lra|apply IZR_le; exact H]. Qed.
Lemma coef_lt (a b : Z) (t : R) : (0 < t)%R -> a < b -> (IZR a * t < IZR b * t)%R.
Proof. intros Ht H. apply Rmult_lt_compat_r; [lra|apply IZR_lt; exact H]. Qed.

Lemma bpow_up (e s : Z) (c : Z) : 0 <= s -> (IZR c * bpow radix2 (e + s) = IZR (c * 2 ^ s) * bpow radix2 e)%R.
Proof. intros Hs. rewrite bpow_plus_IZR by exact Hs. rewrite mult_IZR. ring. Qed.

(* ------------------------------------------------------------------ *)
Section Gen.
Variable k : fkind.
Variable orc : Z -> Z -> N.
Hypothesis orc_bracket : forall D e M E : Z, 0 < D -> 0 <= M < 2 ^ prec k -> DENORMAL_EXPONENT k <= E ->
  (E = DENORMAL_EXPONENT k \/ 2 ^ MANTISSA_SIZE k <= M) -> in_ulp (IZR D * powerRZ 10 e) M E ->
  orc D e = rne_bits k (IZR D * powerRZ 10 e) M E.
Hypothesis orc_overflow : forall D e : Z, 0 < D ->
  (bpow radix2 (MAX_EXPONENT k + MANTISSA_SIZE k) <= IZR D * powerRZ 10 e)%R -> orc D e = INFINITY_BITS k.

Variables D ed : Z.
Hypothesis HD : 0 < D.
Notation x := (IZR D * powerRZ 10 ed)%R.

Lemma x_pos : (0 < x)%R.
Proof. apply dval_pos. exact HD. Qed.

(* x at most a quarter ulp above the next float, and above the halfway point: rounds up *)
Lemma L_up (b : N) : (b < INFINITY_BITS k)%N ->
  let M := Z.of_N (f_mantissa k b) in let E := f_exponent k b in
  (IZR (2 * M + 1) * bpow radix2 (E - 1) < x)%R ->
  ((b + 1)%N = INFINITY_BITS k \/ (x <= IZR (M + 1) * bpow radix2 E + bpow radix2 (E - 2))%R) ->
  orc D ed = (b + 1)%N.
Proof.
  intros Hb M E Hmid Hup.
  destruct (fbits_decode k b Hb) as (HM & HE & Hcan & Henc & _). fold M E in HM, HE, Hcan, Henc.
  pose proof (bpow_gt_0 radix2 (E - 2)) as Hu. set (u := bpow radix2 (E - 2)) in *.
  assert (HbE : bpow radix2 E = (4 * u)%R) by (unfold u; replace E with (2 + (E - 2)) at 1 by lia; rewrite bpow_plus; reflexivity).
  assert (HbE1 : bpow radix2 (E - 1) = (2 * u)%R) by (unfold u; replace (E - 1) with (1 + (E - 2)) by lia; rewrite bpow_plus; reflexivity).
  rewrite HbE1 in Hmid. rewrite HbE in Hup.
  assert (HM0 : (0 <= IZR M)%R) by (apply IZR_le; lia).
  destruct (Rlt_le_dec x (IZR (M + 1) * bpow radix2 E)) as [Hin|Hout].
  - (* still in the bracket of b *)
    rewrite (orc_bracket D ed M E HD HM ltac:(lia) Hcan).
    + unfold rne_bits. rewrite HbE1. rewrite Rcompare_Gt by exact Hmid. unfold dec_of. rewrite Henc. lia.
    + split; [|exact Hin]. rewrite HbE. rewrite plus_IZR, mult_IZR in Hmid. simpl (IZR 2) in Hmid. simpl (IZR 1) in Hmid. nra.
  - rewrite HbE in Hout.
    destruct (N.eq_dec (b + 1) (INFINITY_BITS k)) as [Hinf|Hfin].
    + (* the next pattern is infinity *)
      destruct (last_finite k b Hinf) as (HMl & HEl). fold M E in HMl, HEl.
      rewrite Hinf. apply orc_overflow; [exact HD|].
      apply Rle_trans with (2 := Hout). rewrite HMl, <- HbE, HEl.
      replace (MAX_EXPONENT k + MANTISSA_SIZE k) with (prec k + (MAX_EXPONENT k - 1)) by (unfold prec; lia).
      rewrite bpow_plus. rewrite <- bpow_IZR by (unfold prec; destruct k; kconst; lia). apply Rle_refl.
    + destruct Hup as [Hbad|Hup]; [contradiction|].
      assert (Hb1 : (b + 1 < INFINITY_BITS k)%N) by lia.
      destruct (fbits_decode k (b + 1) Hb1) as (HM' & HE' & Hcan' & Henc' & _).
      pose proof (succ_cases k b Hb1) as Hsc. cbv zeta in Hsc. fold M E in Hsc.
      set (M' := Z.of_N (f_mantissa k (b + 1))) in *. set (E' := f_exponent k (b + 1)) in *.
      rewrite (orc_bracket D ed M' E' HD HM' ltac:(lia) Hcan').
      * unfold rne_bits.
        assert (Hlt : (x < IZR (2 * M' + 1) * bpow radix2 (E' - 1))%R).
        { destruct Hsc as [(-> & ->)|(H1 & -> & ->)].
          - rewrite HbE1. rewrite !plus_IZR, mult_IZR, plus_IZR. rewrite plus_IZR in Hup. simpl (IZR 2). simpl (IZR 1) in *. nra.
          - replace (E + 1 - 1) with E by lia. rewrite HbE.
            assert (HMe : IZR (2 ^ MANTISSA_SIZE k) = ((IZR M + 1) / 2)%R).
            { assert (H2 : 2 * 2 ^ MANTISSA_SIZE k = M + 1) by (rewrite H1; unfold prec; rewrite Z.pow_add_r by (destruct k; kconst; lia); lia).
              apply (f_equal IZR) in H2. rewrite mult_IZR, plus_IZR in H2. simpl (IZR 2) in H2. simpl (IZR 1) in H2. lra. }
            rewrite plus_IZR, mult_IZR, HMe. rewrite plus_IZR in Hup. simpl (IZR 2). simpl (IZR 1) in *. nra. }
        rewrite Rcompare_Lt by exact Hlt. unfold dec_of. rewrite Henc'. lia.
      * split.
        -- destruct Hsc as [(-> & ->)|(H1 & -> & ->)].
           ++ rewrite HbE. exact Hout.
           ++ replace (E + 1) with (1 + E) by lia. rewrite bpow_plus, HbE. change (bpow radix2 1) with 2%R.
              assert (H2 : 2 * 2 ^ MANTISSA_SIZE k = M + 1) by (rewrite H1; unfold prec; rewrite Z.pow_add_r by (destruct k; kconst; lia); lia).
              apply (f_equal IZR) in H2. rewrite mult_IZR in H2. simpl (IZR 2) in H2. nra.
        -- destruct Hsc as [(-> & ->)|(H1 & -> & ->)].
           ++ rewrite HbE. rewrite !plus_IZR. rewrite plus_IZR in Hup. simpl (IZR 1) in *. nra.
           ++ replace (E + 1) with (1 + E) by lia. rewrite bpow_plus, HbE. change (bpow radix2 1) with 2%R.
              assert (H2 : 2 * 2 ^ MANTISSA_SIZE k = M + 1) by (rewrite H1; unfold prec; rewrite Z.pow_add_r by (destruct k; kconst; lia); lia).
              apply (f_equal IZR) in H2. rewrite mult_IZR, plus_IZR in H2. simpl (IZR 2) in H2. simpl (IZR 1) in H2.
              rewrite plus_IZR. rewrite plus_IZR in Hup. simpl (IZR 1) in *. nra.
Qed.

(* x at most a quarter ulp below b, and below the halfway point: rounds down to b *)
Lemma L_down (b : N) : (b < INFINITY_BITS k)%N ->
  let M := Z.of_N (f_mantissa k b) in let E := f_exponent k b in
  (x < IZR (2 * M + 1) * bpow radix2 (E - 1))%R ->
  (IZR M * bpow radix2 E - bpow radix2 (E - 2) < x)%R ->
  orc D ed = b.
Proof.
  intros Hb M E Hmid Hlo.
  destruct (fbits_decode k b Hb) as (HM & HE & Hcan & Henc & _). fold M E in HM, HE, Hcan, Henc.
  pose proof (bpow_gt_0 radix2 (E - 2)) as Hu. set (u := bpow radix2 (E - 2)) in *.
  assert (HbE : bpow radix2 E = (4 * u)%R) by (unfold u; replace E with (2 + (E - 2)) at 1 by lia; rewrite bpow_plus; reflexivity).
  assert (HbE1 : bpow radix2 (E - 1) = (2 * u)%R) by (unfold u; replace (E - 1) with (1 + (E - 2)) by lia; rewrite bpow_plus; reflexivity).
  rewrite HbE1 in Hmid. rewrite HbE in Hlo.
  pose proof x_pos as Hxp.
  destruct (Rle_lt_dec (IZR M * bpow radix2 E) x) as [Hin|Hout].
  - rewrite (orc_bracket D ed M E HD HM ltac:(lia) Hcan).
    + unfold rne_bits. rewrite HbE1. rewrite Rcompare_Lt by exact Hmid. unfold dec_of. rewrite Henc. lia.
    + split; [exact Hin|]. rewrite HbE. rewrite plus_IZR, mult_IZR in Hmid. rewrite plus_IZR. simpl (IZR 2) in Hmid. simpl (IZR 1) in *. nra.
  - rewrite HbE in Hout.
    assert (Hbpos : (0 < b)%N).
    { destruct (N.eq_dec b 0) as [H0|H0]; [exfalso|lia].
      assert (M = 0).
      { unfold encZ in Henc. rewrite H0 in Henc. clearbody M E. destruct k; k2.
        - destruct (Z.ltb_spec M 4503599627370496); lia.
        - destruct (Z.ltb_spec M 8388608); lia. }
      rewrite H in Hout. simpl in Hout. lra. }
    set (b' := (b - 1)%N). assert (Hb' : (b' + 1)%N = b) by (unfold b'; lia).
    assert (Hb'lt : (b' < INFINITY_BITS k)%N) by lia.
    destruct (fbits_decode k b' Hb'lt) as (HM' & HE' & Hcan' & Henc' & _).
    pose proof (succ_cases k b' ltac:(rewrite Hb'; exact Hb)) as Hsc. cbv zeta in Hsc. rewrite Hb' in Hsc. fold M E in Hsc.
    set (M' := Z.of_N (f_mantissa k b')) in *. set (E' := f_exponent k b') in *.
    rewrite (orc_bracket D ed M' E' HD HM' ltac:(lia) Hcan').
    + unfold rne_bits.
      assert (Hgt : (IZR (2 * M' + 1) * bpow radix2 (E' - 1) < x)%R).
      { destruct Hsc as [(HMs & HEs)|(H1 & HMs & HEs)].
        - rewrite <- HEs, HbE1. rewrite HMs in Hlo, Hout. rewrite plus_IZR in Hlo, Hout. rewrite plus_IZR, mult_IZR.
          simpl (IZR 2). simpl (IZR 1) in *. nra.
        - replace (E' - 1) with (E - 2) by lia. fold u.
          assert (H2 : 2 * M = M' + 1) by (rewrite H1, HMs; unfold prec; rewrite Z.pow_add_r by (destruct k; kconst; lia); lia).
          apply (f_equal IZR) in H2. rewrite mult_IZR, plus_IZR in H2. simpl (IZR 2) in H2. simpl (IZR 1) in H2.
          rewrite plus_IZR, mult_IZR. simpl (IZR 2). simpl (IZR 1). nra. }
      rewrite Rcompare_Gt by exact Hgt. unfold dec_of. rewrite Henc'. unfold b'. rewrite Z.min_l by lia. lia.
    + destruct Hsc as [(HMs & HEs)|(H1 & HMs & HEs)].
      * split.
        -- rewrite <- HEs, HbE. rewrite HMs in Hlo. rewrite plus_IZR in Hlo. simpl (IZR 1) in Hlo. nra.
        -- rewrite <- HEs, HbE. rewrite <- HMs. exact Hout.
      * assert (HbE' : bpow radix2 E' = (2 * u)%R) by (unfold u; replace E' with (1 + (E - 2)) by lia; rewrite bpow_plus; reflexivity).
        assert (H2 : 2 * M = M' + 1) by (rewrite H1, HMs; unfold prec; rewrite Z.pow_add_r by (destruct k; kconst; lia); lia).
        apply (f_equal IZR) in H2. rewrite mult_IZR, plus_IZR in H2. simpl (IZR 2) in H2. simpl (IZR 1) in H2.
        split; rewrite HbE'; [|rewrite plus_IZR; simpl (IZR 1)]; nra.
Qed.

(* tiny values round to zero *)
Lemma orc_tiny : (x < bpow radix2 (DENORMAL_EXPONENT k - 1))%R -> orc D ed = 0%N.
Proof.
  intros Hx. pose proof x_pos as Hxp.
  rewrite (orc_bracket D ed 0 (DENORMAL_EXPONENT k) HD).
  - unfold rne_bits. change (2 * 0 + 1) with 1. rewrite Rmult_1_l. rewrite Rcompare_Lt by exact Hx.
    unfold dec_of, encZ. destruct k; reflexivity.
  - split; [lia|apply pow2_pos; unfold prec; destruct k; kconst; lia].
  - lia.
  - left. reflexivity.
  - split; [simpl; lra|]. simpl (0 + 1). rewrite Rmult_1_l.
    apply Rlt_trans with (1 := Hx). apply bpow_lt. lia.
Qed.

(* ------------------------------------------------------------------ *)
(** * a normalised approximation within `err` units *)
Lemma approx_sound (m3 : N) (e3 : Z) (err : N) :
  (9223372036854775808 <= m3 < two64N)%N -> 1 <= Z.of_N err <= 292 ->
  (Rabs (x - IZR (Z.of_N m3) * bpow radix2 e3) < IZR (Z.of_N err) * bpow radix2 e3)%R ->
  let fp := mkEF m3 e3 in
  (error_is_accurate k err fp = true -> ef_into_float k fp = orc D ed) /\
  (error_is_accurate k err fp = false ->
   let b := ef_into_downward_float k fp in
   if f_is_special k b then b = orc D ed
   else (b < INFINITY_BITS k)%N /\ in_ulp x (Z.of_N (f_mantissa k b)) (f_exponent k b)).
Proof.
  intros Hm Herr Habs fp. unfold fp.
  pose proof (bpow_gt_0 radix2 e3) as Ht. set (t := bpow radix2 e3) in *.
  set (m := Z.of_N m3) in *. set (er := Z.of_N err) in *.
  assert (Hm' : 2 ^ 63 <= m < 2 ^ 64) by (unfold m, two64N in *; change (2 ^ 63) with 9223372036854775808; change (2 ^ 64) with 18446744073709551616; lia).
  apply Rabs_def2 in Habs. destruct Habs as (Hhi0 & Hlo0).
  assert (Hlo : (IZR (m - er) * t < x)%R) by (rewrite minus_IZR; lra).
  assert (Hhi : (x < IZR (m + er) * t)%R) by (rewrite plus_IZR; lra).
  clear Hhi0 Hlo0.
  rewrite (error_is_accurate_norm k err m3 e3 ltac:(lia) ltac:(fold er; lia)). cbv zeta. fold m er.
  destruct (rshift_range k e3) as (Hs1 & Hs2 & Hs3 & Hds).
  set (s := rshift k e3) in *.
  pose proof x_pos as Hxp.
  destruct (Z.ltb_spec 65 s) as [H65|H65].
  { (* far below the least denormal *)
    destruct (proj2 (into_float_norm k m3 e3 Hm) ltac:(fold s; lia)) as (Hf & _). split; [|intros Hc; discriminate Hc].
    intros _. rewrite Hf. symmetry. apply orc_tiny.
    apply Rlt_le_trans with (1 := Hhi).
    assert (He3 : e3 + 66 <= DENORMAL_EXPONENT k) by (destruct Hs3 as [H|H]; lia).
    apply Rle_trans with (IZR (2 ^ 65) * t)%R; [apply coef_le; [exact Ht|change (2 ^ 65) with (2 * 2 ^ 64); lia]|].
    unfold t. rewrite <- (bpow_IZR 65) by lia. rewrite <- bpow_plus. apply bpow_le. lia. }
  destruct (Z.eqb_spec s 65) as [He65|Hne65].
  { destruct (proj2 (into_float_norm k m3 e3 Hm) ltac:(fold s; lia)) as (Hf & Hdn).
    assert (He3 : e3 + 65 = DENORMAL_EXPONENT k) by (destruct Hs3 as [H|H]; lia).
    split.
    - intros Hacc. apply Z.ltb_lt in Hacc. rewrite Hf. symmetry. apply orc_tiny.
      apply Rlt_le_trans with (1 := Hhi).
      apply Rle_trans with (IZR (2 ^ 64) * t)%R; [apply coef_le; [exact Ht|lia]|].
      unfold t. rewrite <- (bpow_IZR 64) by lia. rewrite <- bpow_plus. apply bpow_le. lia.
    - intros Hacc. apply Z.ltb_ge in Hacc. cbv zeta. rewrite Hdn.
      replace (f_is_special k 0) with false by (destruct k; reflexivity).
      split; [destruct k; reflexivity|].
      replace (Z.of_N (f_mantissa k 0)) with 0 by (destruct k; reflexivity).
      replace (f_exponent k 0) with (DENORMAL_EXPONENT k) by (destruct k; reflexivity).
      split; [simpl; lra|]. simpl (0 + 1). rewrite Rmult_1_l.
      apply Rlt_le_trans with (1 := Hhi).
      apply Rle_trans with (IZR (2 ^ 65) * t)%R; [apply coef_le; [exact Ht|change (2 ^ 65) with (2 * 2 ^ 64); lia]|].
      unfold t. rewrite <- (bpow_IZR 65) by lia. rewrite <- bpow_plus. apply bpow_le. lia. }
  (* 11 <= s <= 64 *)
  assert (Hs64 : s <= 64) by lia.
  destruct (proj1 (into_float_norm k m3 e3 Hm) ltac:(fold s; lia)) as (Hfl & Hdn & Hq & Hcan). fold s m in Hfl, Hdn, Hq, Hcan.
  set (q := m / 2 ^ s) in *. set (r := m mod 2 ^ s) in *. set (E := e3 + s) in *.
  assert (Hps : 0 < 2 ^ s) by (apply pow2_pos; lia).
  assert (Hmqr : m = q * 2 ^ s + r) by (unfold q, r; rewrite Z.mul_comm; apply Z.div_mod; lia).
  assert (Hr : 0 <= r < 2 ^ s) by (unfold r; apply Z.mod_pos_bound; exact Hps).
  clearbody q r.
  assert (H2s : 2 ^ s = 2 * 2 ^ (s - 1)) by (rewrite <- Z.pow_succ_r by lia; f_equal; lia).
  assert (H2s' : 2 ^ s = 4 * 2 ^ (s - 2)) by (change 4 with (2 ^ 2); rewrite <- Z.pow_add_r by lia; f_equal; lia).
  assert (Hh : 1024 <= 2 ^ (s - 1)) by (change 1024 with (2 ^ 10); apply Z.pow_le_mono_r; lia).
  assert (Hh4 : 512 <= 2 ^ (s - 2)) by (change 512 with (2 ^ 9); apply Z.pow_le_mono_r; lia).
  set (h := 2 ^ (s - 1)) in *. set (h4 := 2 ^ (s - 2)) in *.
  (* the reals in units of t *)
  assert (RE : forall c : Z, (IZR c * bpow radix2 E = IZR (c * 2 ^ s) * t)%R) by (intros c; apply bpow_up; lia).
  assert (RE1 : forall c : Z, (IZR c * bpow radix2 (E - 1) = IZR (c * h) * t)%R)
    by (intros c; unfold E; replace (e3 + s - 1) with (e3 + (s - 1)) by lia; apply bpow_up; lia).
  assert (RE2 : (bpow radix2 (E - 2) = IZR h4 * t)%R).
  { unfold E. replace (e3 + s - 2) with (e3 + (s - 2)) by lia. rewrite <- (Rmult_1_l (bpow radix2 (e3 + (s - 2)))).
    rewrite (bpow_up e3 (s - 2) 1) by lia. rewrite Z.mul_1_l. reflexivity. }
  destruct (Z.le_gt_cases (MAX_EXPONENT k) E) as [Hovf|Hfin].
  { (* the approximation is at or beyond 2^emax: everything is infinity *)
    assert (Hsds : s = DEFAULT_SHIFT k) by (destruct Hs3 as [H|H]; [fold E in H; destruct k; kconst; lia|exact H]).
    assert (Hqn : 2 ^ MANTISSA_SIZE k <= q) by (destruct Hcan as [H|H]; [destruct k; kconst; lia|exact H]).
    assert (Henc : Z.of_N (INFINITY_BITS k) <= encZ k q E).
    { rewrite INF_shape. unfold encZ. destruct (Z.ltb_spec q (2 ^ MANTISSA_SIZE k)); [lia|].
      assert (Hpp : 0 < 2 ^ MANTISSA_SIZE k) by (apply pow2_pos; destruct k; kconst; lia).
      assert ((MAX_EXPONENT k + EXPONENT_BIAS k) * 2 ^ MANTISSA_SIZE k <= (E + EXPONENT_BIAS k) * 2 ^ MANTISSA_SIZE k)
        by (apply Z.mul_le_mono_nonneg_r; lia).
      lia. }
    assert (Horc : orc D ed = INFINITY_BITS k).
    { (* x > (2^63 - 292) * 2^e3 >= the halfway point above the largest finite float *)
      set (bm := (INFINITY_BITS k - 1)%N).
      assert (Hbm : (bm + 1)%N = INFINITY_BITS k) by (unfold bm; destruct k; reflexivity).
      rewrite <- Hbm. apply L_up; [unfold bm; destruct k; reflexivity| |left; exact Hbm].
      destruct (last_finite k bm Hbm) as (HMl & HEl).
      replace (2 * Z.of_N (f_mantissa k bm) + 1) with (2 * 2 ^ prec k - 1) by lia. rewrite HEl.
      apply Rle_lt_trans with (2 := Hlo).
      (* (2^(p+1) - 1) * 2^(MAX-2) <= (m - er) * 2^(MAX-DS) <= (m - er) * 2^e3 *)
      apply Rle_trans with (IZR (m - er) * bpow radix2 (MAX_EXPONENT k - DEFAULT_SHIFT k))%R.
      - replace (MAX_EXPONENT k - 1 - 1) with ((MAX_EXPONENT k - DEFAULT_SHIFT k) + (DEFAULT_SHIFT k - 2)) by lia.
        rewrite bpow_up by (destruct k; kconst; lia). apply coef_le; [apply bpow_gt_0|].
        change (2 ^ 63) with 9223372036854775808 in Hm'. clear -Hm' Herr. fold er in Herr.
        destruct k; kconst; change (2 ^ (11 - 2)) with 512; change (2 ^ (40 - 2)) with 274877906944;
          change (2 ^ (52 + 1)) with 9007199254740992; change (2 ^ (23 + 1)) with 16777216; lia.
      - apply Rmult_le_compat_l; [apply IZR_le; change (2 ^ 63) with 9223372036854775808 in Hm'; lia|].
        unfold t. apply bpow_le. lia. }
    split.
    - intros _. rewrite Hfl, Horc.
      assert (0 <= dec_of (r ?= h) q <= 1) by apply dec_of_range. rewrite Z.min_r by lia. apply N2Z.id.
    - intros _. cbv zeta. rewrite Hdn. rewrite Z.min_r by lia. rewrite N2Z.id.
      replace (f_is_special k (INFINITY_BITS k)) with true by (destruct k; reflexivity). symmetry. exact Horc. }
  (* the finite case: b = enc q E *)
  destruct (decode_enc k q E Hq ltac:(unfold E; lia) Hcan) as (Hb & HbM & HbE & Hbsp). cbv zeta in *.
  set (b := Z.to_N (encZ k q E)) in *.
  assert (Hbz : Z.of_N b = encZ k q E).
  { unfold b. destruct (encZ_lt_INF k q E Hq Hcan) as [(_ & H0)|Hbad]; [lia|unfold E in Hbad; lia]. }
  clearbody b. rewrite <- Hbz in Hfl, Hdn. rewrite Z.min_l, N2Z.id in Hdn by lia.
  split.
  - (* accurate: outside the window around the halfway point *)
    intros Hacc. apply negb_true_iff in Hacc. apply andb_false_iff in Hacc. rewrite Hfl. clear Hfl Hdn.
    destruct (Z.le_gt_cases (h + er) r) as [Hup|Hnup].
    + (* rounds up *)
      replace (r ?= h) with Gt by (symmetry; apply Z.compare_gt_iff; lia). unfold dec_of.
      rewrite (L_up b Hb).
      * rewrite Z.min_l by lia. lia.
      * rewrite HbM, HbE. rewrite RE1. apply Rle_lt_trans with (2 := Hlo). apply coef_le; [exact Ht|]. rewrite Hmqr, H2s. lia.
      * right. rewrite HbM, HbE. rewrite RE, RE2. apply Rlt_le in Hhi. apply Rle_trans with (1 := Hhi).
        rewrite <- Rmult_plus_distr_r, <- plus_IZR. apply coef_le; [exact Ht|]. rewrite Hmqr. lia.
    + (* rounds down *)
      assert (Hdn' : r <= h - er).
      { destruct Hacc as [Hc|Hc]; [apply Z.ltb_ge in Hc; lia|apply Z.ltb_ge in Hc; lia]. }
      replace (r ?= h) with Lt by (symmetry; apply Z.compare_lt_iff; lia). unfold dec_of.
      rewrite (L_down b Hb).
      * rewrite Z.add_0_r. rewrite Z.min_l by lia. apply N2Z.id.
      * rewrite HbM, HbE. rewrite RE1. apply Rlt_le_trans with (1 := Hhi). apply coef_le; [exact Ht|]. rewrite Hmqr, H2s. lia.
      * rewrite HbM, HbE. rewrite RE, RE2. apply Rle_lt_trans with (2 := Hlo).
        rewrite <- Rmult_minus_distr_r, <- minus_IZR. apply coef_le; [exact Ht|]. rewrite Hmqr. lia.
  - (* not accurate: x is strictly inside the bracket of the downward float *)
    intros Hacc. apply negb_false_iff in Hacc. apply andb_prop in Hacc. destruct Hacc as (Hc1 & Hc2).
    apply Z.ltb_lt in Hc1, Hc2. cbv zeta. rewrite Hdn, Hbsp. clear Hfl Hdn.
    split; [exact Hb|]. rewrite HbM, HbE. unfold in_ulp. rewrite !RE. split.
    + apply Rlt_le. apply Rle_lt_trans with (2 := Hlo). apply coef_le; [exact Ht|]. rewrite Hmqr. lia.
    + apply Rlt_le_trans with (1 := Hhi). apply coef_le; [exact Ht|]. rewrite Hmqr, H2s. lia.
Qed.

(* ------------------------------------------------------------------ *)
(** * the moderate path *)
Hypothesis tiny_ok : 2 ^ 64 * 2 ^ (1 - DENORMAL_EXPONENT k) <= 10 ^ 351.
Hypothesis huge_ok : 2 ^ (MAX_EXPONENT k + MANTISSA_SIZE k) <= 10 ^ 310.

Theorem moderate_sound_gen : forall (w : N) (exponent : Z) (truncated : bool) (theta : R) (fp : efloat) (valid : bool),
  (0 < w)%N -> (w < two64N)%N -> (0 <= theta < 1)%R -> (theta = 0%R \/ (truncated = true /\ 2 ^ 60 <= Z.of_N w)) ->
  x = ((IZR (Z.of_N w) + theta) * powerRZ 10 exponent)%R ->
  moderate_path k w exponent truncated = (fp, valid) ->
  (valid = true -> ef_into_float k fp = orc D ed) /\
  (valid = false ->
   -350 <= exponent < 310 /\
   let b := ef_into_downward_float k fp in
   if f_is_special k b then b = orc D ed
   else (b < INFINITY_BITS k)%N /\ in_ulp x (Z.of_N (f_mantissa k b)) (f_exponent k b)).
Proof.
  intros w exponent truncated theta fp valid Hw0 Hw64 Hth Htr Hx Hmp.
  unfold moderate_path in Hmp.
  assert (Hwr : (1 <= IZR (Z.of_N w) + theta < R64)%R).
  { assert (1 <= IZR (Z.of_N w) <= R64 - 1)%R.
    { split; [apply IZR_le; lia|]. replace (R64 - 1)%R with (IZR (2 ^ 64 - 1)) by (rewrite minus_IZR; reflexivity).
      apply IZR_le. unfold two64N in Hw64. change (2 ^ 64) with 18446744073709551616. lia. }
    lra. }
  destruct (Z.lt_ge_cases (exponent + 350) 0) as [Hneg|Hnn].
  - (* underflow *)
    unfold multiply_exponent_extended in Hmp. change BASE10_BIAS with 350 in Hmp.
    replace (i32_sat (exponent + 350) <? 0) with true in Hmp by (symmetry; apply Z.ltb_lt; unfold i32_sat; lia).
    cbn [exp] in Hmp. injection Hmp as <- <-.
    split; [|intros Hc; discriminate Hc]. intros _.
    replace (ef_into_float k (mkEF 0%N 0)) with 0%N by (destruct k; vm_compute; reflexivity).
    symmetry. apply orc_tiny. rewrite Hx.
    assert (Hp : (0 < powerRZ 10 exponent <= powerRZ 10 (-351))%R).
    { split; [apply powerRZ_lt; lra|apply Rle_powerRZ'; lia]. }
    change (-351) with (- (351)) in Hp. rewrite powerRZ_10_neg in Hp by lia.
    assert (H351 : (0 < IZR (10 ^ 351))%R) by (apply IZR_lt; reflexivity).
    replace (DENORMAL_EXPONENT k - 1) with (- (1 - DENORMAL_EXPONENT k)) by lia. rewrite bpow_opp.
    rewrite bpow_IZR by (destruct k; kconst; lia).
    assert (H2 : (0 < IZR (2 ^ (1 - DENORMAL_EXPONENT k)))%R) by (apply IZR_lt, pow2_pos; destruct k; kconst; lia).
    apply IZR_le in tiny_ok. rewrite mult_IZR in tiny_ok. change (IZR (2 ^ 64)) with R64 in tiny_ok.
    set (pe := powerRZ 10 exponent) in *. set (B := IZR (2 ^ (1 - DENORMAL_EXPONENT k))) in *. set (T := IZR (10 ^ 351)) in *.
    apply Rlt_le_trans with (R64 * / T)%R.
    + apply Rlt_le_trans with (R64 * pe)%R; [apply Rmult_lt_compat_r; lra|apply Rmult_le_compat_l; lra].
    + apply Rmult_le_reg_r with T; [exact H351|]. rewrite Rmult_assoc, Rinv_l, Rmult_1_r by lra.
      apply Rmult_le_reg_r with B; [exact H2|].
      replace (/ B * T * B)%R with (T * (B * / B))%R by ring. rewrite Rinv_r by lra. lra.
  - destruct (Z.lt_ge_cases (exponent + 350) 660) as [Hin|Hbig].
    + (* the table range *)
      destruct (mee_bound k w exponent truncated theta Hw0 Hw64 ltac:(lia) Hth Htr) as (m3 & e3 & err & Hmee & Hm3 & Herr & Habs).
      cbv zeta in Habs. rewrite <- Hx in Habs.
      rewrite Hmee in Hmp. injection Hmp as <- <-.
      destruct (approx_sound m3 e3 err Hm3 Herr Habs) as (A1 & A2).
      split; [exact A1|]. intros Hv. split; [lia|exact (A2 Hv)].
    + (* overflow *)
      unfold multiply_exponent_extended in Hmp. change BASE10_BIAS with 350 in Hmp. change BASE10_STEP with 10 in Hmp.
      assert (Hsat : 660 <= i32_sat (exponent + 350)) by (unfold i32_sat; lia).
      replace (i32_sat (exponent + 350) <? 0) with false in Hmp by (symmetry; apply Z.ltb_ge; lia).
      replace (Z.of_nat (length BASE10_LARGE_MANTISSA) <=? Z.quot (i32_sat (exponent + 350)) 10) with true in Hmp.
      2:{ symmetry. apply Z.leb_le. destruct large_powers_one_ulp as (_ & -> & _).
          rewrite Z.quot_div_nonneg by lia. apply Z.div_le_lower_bound; lia. }
      injection Hmp as <- <-.
      split; [|intros Hc; discriminate Hc]. intros _.
      replace (ef_into_float k (mkEF 9223372036854775808%N 2047)) with (INFINITY_BITS k) by (destruct k; vm_compute; reflexivity).
      symmetry. apply orc_overflow; [exact HD|]. rewrite Hx.
      assert (Hp : (powerRZ 10 310 <= powerRZ 10 exponent)%R) by (apply Rle_powerRZ'; lia).
      rewrite powerRZ_10_nonneg in Hp by lia.
      rewrite bpow_IZR by (destruct k; kconst; lia). apply IZR_le in huge_ok.
      assert (0 < IZR (10 ^ 310))%R by (apply IZR_lt; reflexivity).
      apply Rle_trans with (1 := huge_ok). apply Rle_trans with (1 := Hp).
      rewrite <- (Rmult_1_l (powerRZ 10 exponent)) at 1. apply Rmult_le_compat_r; [lra|lra].
Qed.

End Gen.

Print Assumptions moderate_sound_gen.
