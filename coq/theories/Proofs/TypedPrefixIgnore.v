(* Proofs/TypedPrefixIgnore.v — prefix dichotomy for the typed deserializer, part 5: deserialize_raw_value.

   RawValue captures the span skipped by ignore_value and (SliceRead / IoRead) checks that it is UTF-8.
   Proofs/PrefixIgnore.v proves the dichotomy of ignore_value with the loose shape [ShS] (a successful prefix run
   that ends at the boundary need not be reproduced).  For the raw span more is needed:
     * a skipped CONTAINER, literal or string is strict — the prefix run's success is reproduced ([IIn] / [IOn]);
     * the only loose case is a top-level NUMBER, and the bytes of a number are ASCII ([asteps]),
   so the UTF-8 check of the prefix run cannot fail at the boundary. *)
From SJ Require Import Base.Bytes Base.Utf8 Base.FloatB Gen.Tables
  Model.Read Model.Str Model.Num Model.Value Model.De Model.Ignore Model.Ty Model.DeTyped.
From SJ Require Import Proofs.PrefixBase Proofs.PrefixStr Proofs.PrefixNum Proofs.PrefixDe Proofs.PrefixIgnore.
From SJ Require Import Proofs.NumInt Proofs.Utf8Lemmas Proofs.TypedPrefixBase.
Require Import Lia ZifyBool ZifyNat ZifyN.
Open Scope N_scope.
#[local] Arguments iv {X}.
#[local] Arguments ex {X}.
#[local] Arguments tch {X}.
#[local] Arguments mkShape {X}.

(* ---------- the bytes of a skipped number are ASCII ---------- *)
Definition is_ascii (b : N) : bool := b <? 128.

Lemma utf8_valid_ascii l : forallb is_ascii l = true -> utf8_valid l = true.
Proof.
  induction l as [|b l IH]; [reflexivity|]. cbn [forallb]. intros H. apply andb_prop in H. destruct H as [Hb Hl].
  rewrite utf8_valid_cons_ascii by (unfold is_ascii in Hb; lia). now apply IH.
Qed.

(* [s'] is [s] after consuming ASCII bytes only *)
Definition asteps (s s' : st) : Prop :=
  exists bs, rest s = bs ++ rest s' /\ off s' = (off s + length bs)%nat /\ forallb is_ascii bs = true.

Lemma asteps_same s s' : rest s' = rest s -> off s' = off s -> asteps s s'.
Proof. intros Hr Ho. exists []. cbn [app length forallb]. rewrite Hr, Ho. repeat split; lia. Qed.

Lemma asteps_trans s1 s2 s3 : asteps s1 s2 -> asteps s2 s3 -> asteps s1 s3.
Proof.
  intros (a & Ha & Hoa & Haa) (b & Hb & Hob & Hbb). exists (a ++ b).
  rewrite <- app_assoc, <- Hb, app_length, forallb_app, Haa, Hbb. repeat split; auto; lia.
Qed.

Lemma asteps_one s c r : rest s = c :: r -> c < 128 -> asteps s (mkSt r (S (off s)) false (depth s)).
Proof.
  intros Hr Hc. exists [c]. cbn [rest off app length forallb]. unfold is_ascii. repeat split; auto; lia.
Qed.

Lemma asteps_discard s c r : rest s = c :: r -> c < 128 -> asteps s (discard s).
Proof. intros Hr Hc. unfold discard. rewrite Hr. cbn [tl]. exact (asteps_one s c r Hr Hc). Qed.

Lemma forallb_firstn_span (p q : N -> bool) l : (forall b, p b = true -> q b = true) ->
  forallb q (firstn (span_len p l) l) = true.
Proof.
  intros H. induction l as [|b l IH]; cbn [span_len firstn forallb]; [reflexivity|].
  destruct (p b) eqn:Hb; cbn [firstn forallb]; [|reflexivity]. now rewrite (H b Hb), IH.
Qed.

Lemma asteps_span (p : N -> bool) s : (forall b, p b = true -> is_ascii b = true) ->
  asteps s (advance (span_len p (rest s)) s).
Proof.
  intros H. exists (firstn (span_len p (rest s)) (rest s)). unfold advance. cbn [rest off].
  rewrite firstn_skipn, firstn_length. pose proof (span_len_le p (rest s)).
  split; [reflexivity|]. split; [lia|]. now apply forallb_firstn_span.
Qed.

Lemma digit_ascii b : is_digit b = true -> is_ascii b = true.
Proof. unfold is_digit, is_ascii. lia. Qed.

Lemma ws_ascii b : is_ws b = true -> is_ascii b = true.
Proof.
  unfold is_ws, is_ascii. intros H. apply existsb_exists in H. destruct H as (x & Hin & Hx).
  apply N.eqb_eq in Hx. subst x.
  assert (Hall : forallb (fun w => w <? 128) WS_SET = true) by (vm_compute; reflexivity).
  rewrite forallb_forall in Hall. now apply Hall.
Qed.

Lemma peek_same E s o s' : peek E s = Ok (o, s') -> rest s' = rest s /\ off s' = off s.
Proof.
  unfold peek, at_end. destruct (rest s) eqn:Hr.
  - destruct (tm E); [|discriminate]. intros [= <- <-]. auto.
  - intros [= <- <-]. auto.
Qed.

Lemma pon_same E s c s' : peek_or_null E s = Ok (c, s') ->
  rest s' = rest s /\ off s' = off s /\ (c <> 0 -> exists r, rest s' = c :: r).
Proof.
  intros H. pose proof (peek_or_null_spec _ _ _ _ H) as Hs.
  unfold peek_or_null in H. destruct (peek E s) as [[o s1]| | |] eqn:Hp; cbn [bind] in H; try discriminate.
  injection H as _ <-. apply peek_same in Hp. destruct Hp as [Hr Ho]. repeat split; auto.
  intros Hc. destruct Hs as [(_ & Hz & _) | (r & Hr' & _)]; [contradiction|eauto].
Qed.

Lemma pw_asteps E s o s' : parse_whitespace E s = Ok (o, s') -> asteps s s'.
Proof.
  unfold parse_whitespace. intros H. apply peek_same in H. destruct H as [Hr Ho].
  eapply asteps_trans; [apply (asteps_span is_ws), ws_ascii|]. now apply asteps_same.
Qed.

Lemma skip_digits_asteps E s c s' : skip_digits E s = Ok (c, s') ->
  asteps s s' /\ (c <> 0 -> exists r, rest s' = c :: r).
Proof.
  unfold skip_digits. intros H. apply pon_same in H. destruct H as (Hr & Ho & Hc). split; [|exact Hc].
  eapply asteps_trans; [apply (asteps_span is_digit), digit_ascii|]. now apply asteps_same.
Qed.

Lemma next_some E s c s' : next E s = Ok (Some c, s') ->
  exists r, rest s = c :: r /\ s' = mkSt r (S (off s)) false (depth s).
Proof.
  unfold next. destruct (rest s) as [|b r].
  - unfold at_end. destruct (tm E); discriminate.
  - intros [= <- <-]. eauto.
Qed.

Lemma ignore_exponent_asteps E s c0 r0 s' : rest s = c0 :: r0 -> c0 < 128 ->
  ignore_exponent E s = Ok s' -> asteps s s'.
Proof.
  intros Hr Hc0 H. unfold ignore_exponent in H. cbv zeta in H.
  apply bind_ok in H. destruct H as ([c s1] & Hp & H). apply pon_same in Hp. destruct Hp as (Hr1 & Ho1 & Hc1).
  assert (A01 : asteps s s1).
  { eapply asteps_trans; [eapply asteps_discard; eassumption|]. now apply asteps_same. }
  set (s2 := if (c =? 43) || (c =? 45) then discard s1 else s1) in *.
  assert (A12 : asteps s1 s2).
  { unfold s2. destruct ((c =? 43) || (c =? 45)) eqn:Es; [|now apply asteps_same].
    destruct (Hc1 ltac:(lia)) as (r & Hr'). eapply asteps_discard; [exact Hr'|lia]. }
  clearbody s2.
  apply bind_ok in H. destruct H as ([o s3] & Hn & H). destruct o as [d|]; [|discriminate].
  destruct (is_digit d) eqn:Hd; [|discriminate].
  apply next_some in Hn. destruct Hn as (r & Hr2 & ->).
  apply bind_ok in H. destruct H as ([c4 s4] & Hs & H). injection H as <-.
  apply skip_digits_asteps in Hs. destruct Hs as [A34 _].
  eapply asteps_trans; [exact A01|]. eapply asteps_trans; [exact A12|].
  eapply asteps_trans; [eapply asteps_one; [exact Hr2|]|exact A34].
  apply digit_ascii in Hd. unfold is_ascii in Hd. lia.
Qed.

Lemma ignore_decimal_asteps E s c0 r0 s' : rest s = c0 :: r0 -> c0 < 128 ->
  ignore_decimal E s = Ok s' -> asteps s s'.
Proof.
  intros Hr Hc0 H. unfold ignore_decimal in H. cbv zeta in H.
  apply bind_ok in H. destruct H as ([c s1] & Hp & H). apply pon_same in Hp. destruct Hp as (Hr1 & Ho1 & Hc1).
  assert (A01 : asteps s s1).
  { eapply asteps_trans; [eapply asteps_discard; eassumption|].
    eapply asteps_trans; [apply (asteps_span is_digit), digit_ascii|]. now apply asteps_same. }
  destruct (Nat.eqb _ 0).
  { apply bind_ok in H. destruct H as ([o s2] & _ & H). destruct o; discriminate. }
  destruct ((c =? 101) || (c =? 69)) eqn:Ee.
  - destruct (Hc1 ltac:(lia)) as (r & Hr'). eapply asteps_trans; [exact A01|].
    eapply ignore_exponent_asteps; [exact Hr'|lia|exact H].
  - now injection H as <-.
Qed.

Lemma ignore_integer_asteps E s s' : ignore_integer E s = Ok s' -> asteps s s'.
Proof.
  intros H. unfold ignore_integer in H.
  apply bind_ok in H. destruct H as ([o s1] & Hn & H). destruct o as [c|]; [|discriminate].
  apply next_some in Hn. destruct Hn as (r & Hr & ->).
  apply bind_ok in H. destruct H as ([c2 s2] & Hh & H).
  assert (Hc : c < 128 /\ asteps (mkSt r (S (off s)) false (depth s)) s2 /\ (c2 <> 0 -> exists r2, rest s2 = c2 :: r2)).
  { destruct (c =? 48) eqn:E48.
    - apply bind_ok in Hh. destruct Hh as ([c3 s3] & Hp & Hh). destruct (is_digit c3); [discriminate|].
      injection Hh as <- <-. apply pon_same in Hp. destruct Hp as (Hr3 & Ho3 & Hc3).
      split; [lia|]. split; [now apply asteps_same|exact Hc3].
    - destruct (is_digit19 c) eqn:H19; [|discriminate]. apply skip_digits_asteps in Hh. destruct Hh as [Ha Hc2].
      split; [unfold is_digit19 in H19; lia|]. split; assumption. }
  destruct Hc as (Hc & A12 & Hc2).
  assert (A02 : asteps s s2) by (eapply asteps_trans; [eapply asteps_one; eassumption|exact A12]).
  destruct (c2 =? 46) eqn:E46.
  { destruct (Hc2 ltac:(lia)) as (r2 & Hr2). eapply asteps_trans; [exact A02|].
    eapply ignore_decimal_asteps; [exact Hr2|lia|exact H]. }
  destruct ((c2 =? 101) || (c2 =? 69)) eqn:Ee.
  { destruct (Hc2 ltac:(lia)) as (r2 & Hr2). eapply asteps_trans; [exact A02|].
    eapply ignore_exponent_asteps; [exact Hr2|lia|exact H]. }
  now injection H as <-.
Qed.

(* ---------- strictness of the skip scanner below the top level ---------- *)
Section DichIgN.
Variable C : ctx.
Notation rk0 := (c_rk C).
Notation cf0 := (c_cf C).
Notation tm1 := (c_tm1 C).
Notation tm2 := (c_tm2 C).
Notation t := (c_t C).
Notation L := (c_L C).
Notation E1 := (mkEnv (c_rk C) (c_tm1 C) (c_cf C)).
Notation E2 := (mkEnv (c_rk C) (c_tm2 C) (c_cf C)).

Definition IOn f := forall f' stk s, (f <= f')%nat -> inv C s -> stk <> [] ->
  dich C (ShSn C) (ig_outer f E1 stk s) (ig_outer f' E2 stk (ext C s)).
Definition IIn f := forall f' ac frame stk s, (f <= f')%nat -> inv C s ->
  dich C (ShSn C) (ig_inner f E1 ac frame stk s) (ig_inner f' E2 ac frame stk (ext C s)).

Lemma ig_inner_eofc_n f ac frame stk s : inv C s -> touched s -> eofc C (ShSn C) (ig_inner f E1 ac frame stk s).
Proof.
  intros Hi Ht. destruct f; [exact I|]. rewrite ig_inner_unfold.
  apply (bind_eofcP C (isNone C)); [now apply parse_whitespace_eofc|].
  intros o s1 _ Hi1 Ht1 [-> Htm]. cbv beta iota. apply peek_error_eofc; auto using eofish_frame.
Qed.

Lemma ig_scalar_dich_n f f' stk rp rpt : IIn f -> (f <= f')%nat -> stk <> [] ->
  dich C (ShS C) rp rpt -> dich C (ShSn C) (ig_scalar f E1 stk rp) (ig_scalar f' E2 stk rpt).
Proof.
  intros IHi Hf Hstk Hd. unfold ig_scalar.
  apply (bind_dichS C); [assumption| |].
  - intros s2 _ Hi2. destruct stk; [now destruct Hstk|now apply IHi].
  - intros s2 _ Hi2 Ht2. destruct stk; [now destruct Hstk|now apply ig_inner_eofc_n].
Qed.

Lemma ig_continue_dich_n f f' frame stk s : IOn f -> (f <= f')%nat -> inv C s ->
  dich C (ShSn C) (ig_continue f E1 frame stk s) (ig_continue f' E2 frame stk (ext C s)).
Proof.
  intros IHo Hf Hi. unfold ig_continue. destruct (frame =? 123); [|apply IHo; [assumption..|discriminate]].
  apply (bind_dichP C (isNone C)); [now apply parse_whitespace_dich| |].
  2:{ intros o s3 _ Hi3 Ht3 [-> Htm]. cbv beta iota. apply peek_error_eofc; auto using eofish_obj. }
  intros o s3 Hp Hi3. cbv beta iota. apply (pw_facts C) in Hp. destruct o as [q|].
  2:{ apply peek_error_dich; [assumption|]. right. split; [assumption|apply eofish_obj]. }
  destruct (q =? 34); [|apply peek_error_dich; auto].
  rewrite discard_ext by assumption.
  apply (bind_dichSn C); [apply ignore_str_dich; now apply inv_discard|]. intros s4 _ Hi4.
  apply (bind_dichP C (isNone C)); [now apply parse_whitespace_dich| |].
  2:{ intros o2 s5 _ Hi5 Ht5 [-> Htm]. cbv beta iota. apply peek_error_eofc; auto using eofish_obj. }
  intros o2 s5 Hp5 Hi5. cbv beta iota. apply (pw_facts C) in Hp5. destruct o2 as [c|].
  2:{ apply peek_error_dich; [assumption|]. right. split; [assumption|apply eofish_obj]. }
  destruct (c =? 58); [|apply peek_error_dich; auto].
  rewrite discard_ext by assumption. apply IHo; [assumption|now apply inv_discard|discriminate].
Qed.

Lemma ig_outer_step_n f : IIn f -> IOn (S f).
Proof.
  intros IHi f' stk s Hf Hi Hstk. destruct f' as [|f']; [lia|]. assert (Hf' : (f <= f')%nat) by lia.
  rewrite !ig_outer_unfold.
  apply (bind_dichP C (isNone C)); [now apply parse_whitespace_dich| |].
  2:{ intros o s1 _ Hi1 Ht1 [-> Htm]. cbv beta iota. apply peek_error_eofc; auto using eofish_val. }
  intros o s1 Hp Hi1. cbv beta iota. apply (pw_facts C) in Hp. destruct o as [b|].
  2:{ apply peek_error_dich; [assumption|]. right. split; [assumption|apply eofish_val]. }
  assert (Hid : inv C (discard s1)) by now apply inv_discard.
  destruct (b =? 110).
  { rewrite discard_ext by assumption. apply ig_scalar_dich_n; auto. apply dich_Sn_S. now apply parse_ident_dich. }
  destruct (b =? 116).
  { rewrite discard_ext by assumption. apply ig_scalar_dich_n; auto. apply dich_Sn_S. now apply parse_ident_dich. }
  destruct (b =? 102).
  { rewrite discard_ext by assumption. apply ig_scalar_dich_n; auto. apply dich_Sn_S. now apply parse_ident_dich. }
  destruct (b =? 45).
  { rewrite discard_ext by assumption. apply ig_scalar_dich_n; auto. now apply ignore_integer_dich. }
  destruct (is_digit b).
  { apply ig_scalar_dich_n; auto. now apply ignore_integer_dich. }
  destruct (b =? 34).
  { rewrite discard_ext by assumption. apply ig_scalar_dich_n; auto. apply dich_Sn_S. now apply ignore_str_dich. }
  destruct ((b =? 91) || (b =? 123)); [|apply peek_error_dich; auto].
  rewrite discard_ext by assumption. now apply IHi.
Qed.

Lemma ig_inner_step_n f : IOn f -> IIn f -> IIn (S f).
Proof.
  intros IHo IHi f' ac frame stk s Hf Hi. destruct f' as [|f']; [lia|]. assert (Hf' : (f <= f')%nat) by lia.
  rewrite !ig_inner_unfold.
  apply (bind_dichP C (isNone C)); [now apply parse_whitespace_dich| |].
  2:{ intros o s1 _ Hi1 Ht1 [-> Htm]. cbv beta iota. apply peek_error_eofc; auto using eofish_frame. }
  intros o s1 Hp Hi1. cbv beta iota. apply (pw_facts C) in Hp. destruct o as [b|].
  2:{ apply peek_error_dich; [assumption|]. right. split; [assumption|apply eofish_frame]. }
  assert (Hid : inv C (discard s1)) by now apply inv_discard.
  destruct ((b =? 44) && ac).
  { rewrite discard_ext by assumption. now apply ig_continue_dich_n. }
  destruct (((b =? 93) && (frame =? 91)) || ((b =? 125) && (frame =? 123))).
  { rewrite discard_ext by assumption. destruct stk; [now apply retSn_dich|now apply IHi]. }
  destruct ac; [apply peek_error_dich; auto|].
  now apply ig_continue_dich_n.
Qed.

Lemma ig_all_dich_n : forall f, IOn f /\ IIn f.
Proof.
  induction f as [|f (IHo & IHi)].
  - split; intros ? **; exact I.
  - split; [now apply ig_outer_step_n|now apply ig_inner_step_n].
Qed.

(* ---------- ignore_value at the top level: loose only for a number, whose bytes are ASCII ---------- *)
Definition ShSa (s : st) : shape st := mkShape (ext C) (fun s' => touched s' /\ asteps s s') (inv C).

Lemma dich_Sn_Sa s0 rp rpt : dich C (ShSn C) rp rpt -> dich C (ShSa s0) rp rpt.
Proof. destruct rp; cbn [dich ShSa ShSn iv tch ex]; auto. intros [Hi [Hd | []]]; auto. Qed.

Lemma dich_S_Sa s0 rp rpt : dich C (ShS C) rp rpt -> (forall s', rp = Ok s' -> asteps s0 s') -> dich C (ShSa s0) rp rpt.
Proof.
  destruct rp as [s'|c i| |]; cbn [dich ShSa ShS iv tch ex]; auto.
  intros [Hi [Hd | Ht]] Ha; auto.
Qed.

Lemma bind_ret_dich_Sa s0 rp rpt : dich C (ShSa s0) rp rpt ->
  dich C (ShSa s0) (ig_scalar 0 E1 [] rp) (ig_scalar 0 E2 [] rpt).
Proof.
  intros H. unfold ig_scalar. destruct rp as [s'|c i| |]; cbn [dich bind ShSa iv tch ex] in *; auto.
  - destruct H as [Hi [-> | Ht]]; cbn [bind]; auto.
  - destruct H as [Hi [-> | Hb]]; cbn [bind]; auto.
  - subst rpt. reflexivity.
Qed.

Lemma ig_scalar_nil f E r : ig_scalar f E [] r = ig_scalar 0 E [] r.
Proof. reflexivity. Qed.

Lemma ignore_value_dich_a s : inv C s ->
  dich C (ShSa s) (ignore_value E1 s) (ignore_value E2 (ext C s)).
Proof.
  intros Hi. unfold ignore_value, ignore_fuel. rewrite !ig_outer_unfold.
  set (f := S (S (2 * length (rest s)))). set (f' := S (S (2 * length (rest (ext C s))))).
  assert (Hf : (f <= f')%nat).
  { unfold f, f', ext. cbn [rest]. rewrite app_length. lia. }
  clearbody f f'.
  apply (bind_dichP C (isNone C)); [now apply parse_whitespace_dich| |].
  2:{ intros o s1 _ Hi1 Ht1 [-> Htm]. cbv beta iota. apply peek_error_eofc; auto using eofish_val. }
  intros o s1 Hp Hi1. cbv beta iota. pose proof (pw_asteps _ _ _ _ Hp) as A01.
  pose proof (parse_whitespace_spec _ _ _ _ Hp) as Hsp.
  apply (pw_facts C) in Hp. destruct o as [b|].
  2:{ apply peek_error_dich; [assumption|]. right. split; [assumption|apply eofish_val]. }
  destruct Hsp as (r1 & Hr1 & _).
  assert (Hid : inv C (discard s1)) by now apply inv_discard.
  rewrite !(ig_scalar_nil f), !(ig_scalar_nil f').
  destruct (b =? 110).
  { rewrite discard_ext by assumption. apply bind_ret_dich_Sa, dich_Sn_Sa. now apply parse_ident_dich. }
  destruct (b =? 116).
  { rewrite discard_ext by assumption. apply bind_ret_dich_Sa, dich_Sn_Sa. now apply parse_ident_dich. }
  destruct (b =? 102).
  { rewrite discard_ext by assumption. apply bind_ret_dich_Sa, dich_Sn_Sa. now apply parse_ident_dich. }
  destruct (b =? 45) eqn:E45.
  { rewrite discard_ext by assumption. apply bind_ret_dich_Sa, dich_S_Sa; [now apply ignore_integer_dich|].
    intros s' Hs'. apply ignore_integer_asteps in Hs'.
    eapply asteps_trans; [exact A01|]. eapply asteps_trans; [|exact Hs'].
    eapply asteps_discard; [exact Hr1|lia]. }
  destruct (is_digit b).
  { apply bind_ret_dich_Sa, dich_S_Sa; [now apply ignore_integer_dich|].
    intros s' Hs'. apply ignore_integer_asteps in Hs'. eapply asteps_trans; [exact A01|exact Hs']. }
  destruct (b =? 34).
  { rewrite discard_ext by assumption. apply bind_ret_dich_Sa, dich_Sn_Sa. now apply ignore_str_dich. }
  destruct ((b =? 91) || (b =? 123)); [|apply peek_error_dich; auto].
  rewrite discard_ext by assumption. apply dich_Sn_Sa. now apply (proj2 (ig_all_dich_n f)).
Qed.

Lemma ignore_value_eofc_n s : inv C s -> touched s -> eofc C (ShSn C) (ignore_value E1 s).
Proof.
  intros Hi Ht. unfold ignore_value, ignore_fuel. rewrite ig_outer_unfold.
  apply (bind_eofcP C (isNone C)); [now apply parse_whitespace_eofc|].
  intros o s1 _ Hi1 Ht1 [-> Htm]. cbv beta iota. apply peek_error_eofc; auto using eofish_val.
Qed.

(* ---------- deserialize_raw_value ---------- *)
Lemma raw_span_ext s0 s1 : inv C s0 -> inv C s1 ->
  firstn (off (ext C s1) - off (ext C s0)) (rest (ext C s0)) = firstn (off s1 - off s0) (rest s0).
Proof.
  intros [H0 _] [H1 _]. unfold ext. cbn [rest off]. apply firstn_app_le. lia.
Qed.

Lemma raw_span_ascii s0 s1 : touched s1 -> asteps s0 s1 -> utf8_valid (firstn (off s1 - off s0) (rest s0)) = true.
Proof.
  intros [Hr _] (bs & Hb & Ho & Ha). rewrite Hr, app_nil_r in Hb. rewrite Hb, Ho.
  replace (off s0 + length bs - off s0)%nat with (length bs) by lia. rewrite firstn_all.
  now apply utf8_valid_ascii.
Qed.

Lemma deserialize_raw_dich s : inv C s ->
  tdich C (ShP C anyv) (deserialize_raw E1 s) (deserialize_raw E2 (ext C s)).
Proof.
  intros Hi. unfold deserialize_raw.
  apply (tbindP C (isNone C)); [apply lift_dich; now apply parse_whitespace_dich| |].
  - intros o s0 _ Hi0. cbv beta iota.
    apply (tbind_dich C (ShSa s0)); [apply lift_dich; now apply ignore_value_dich_a| |].
    + intros s1 _ Hi1. cbn [ShSa ex iv] in *. cbv zeta. rewrite raw_span_ext by assumption. cbn [rk].
      set (span := firstn (off s1 - off s0) (rest s0)).
      assert (H1 : tdich C (ShP C anyv) (TOk (DRaw span, s1)) (TOk (DRaw span, ext C s1))) by now apply tret_dich.
      assert (H2 : tdich C (ShP C anyv)
                (if utf8_valid span then TOk (DRaw span, s1) else lift (error E1 s1 InvalidUnicodeCodePoint))
                (if utf8_valid span then TOk (DRaw span, ext C s1) else lift (error E2 (ext C s1) InvalidUnicodeCodePoint))).
      { destruct (utf8_valid span); [exact H1|apply lift_dich; now apply error_dich]. }
      revert H1 H2. destruct rk0; intros H1 H2; assumption.
    + intros s1 _ Hi1 [Ht1 Ha1]. cbn [ShSa iv] in Hi1. cbv zeta. cbn [rk].
      rewrite (raw_span_ascii s0 s1 Ht1 Ha1).
      destruct rk0; apply tret_eofc; auto; exact I.
  - intros o s0 _ Hi0 Ht0 _. cbv beta iota.
    apply (tbind_eofc_none C (ShSn C)); [apply lift_eofc; now apply ignore_value_eofc_n|]. intros x [].
Qed.

Lemma deserialize_raw_eofc s : inv C s -> touched s -> teofc C (ShP C nov) (deserialize_raw E1 s).
Proof.
  intros Hi Ht. unfold deserialize_raw.
  apply (tbind_eofcP C (isNone C)); [apply lift_eofc; now apply parse_whitespace_eofc|].
  intros o s0 _ Hi0 Ht0 _. cbv beta iota.
  apply (tbind_eofc_none C (ShSn C)); [apply lift_eofc; now apply ignore_value_eofc_n|]. intros x [].
Qed.

End DichIgN.
