(* Proofs/TypedRoundtripFloat.v — C04 (typed half), part 4: the float leaves and the pinned statements.

   [C04_typed_no_float]   types without f32 / f64: no hypothesis about floats at all
   [reads_f64_of_text]    the per-leaf hypothesis [reads_f64] of TypedRoundtripMain.v (a statement about the float text in
                          every compact context) follows from a statement about the text ALONE: it is a JSON number
                          (ryu_json) that the number parser, run on it in isolation, turns into this float (the typed
                          analogue of SerMain.ryu_reads_back) — by locality of the number parser (GrammarNum.number_local)
                          and because typed float targets never look at arbitrary_precision (ApNumber.parse_integer_feature_indep)
   [reads_f32_of_text]    the same for f32 targets in builds WITHOUT float_roundtrip (f64 parse, then `as f32`)
   [C04_typed_floats]     the round trip with those text-alone hypotheses; for f32 targets under float_roundtrip
                          (Model/NumF32.v, single_precision parsing) the hypothesis stays in its in-context form [reads_f32]:
                          no locality theorem for parse_integer_s is available. *)
From SJ Require Import Base.Bytes Base.Utf8 Base.FloatB Gen.Tables Model.Read Model.Str Model.Num Model.NumF32 Model.Value Model.De
  Model.Ignore Model.Sval Model.Ser Model.ValueSer Model.Ty Model.SerTyped Spec.Syntax Spec.Denote Spec.Layout
  Proofs.NumInt Proofs.GrammarNum Proofs.GrammarValueBase Proofs.ApNumber Proofs.SerBase Proofs.TypedInt Proofs.TypedRk
  Proofs.TypedRoundtripTxt Proofs.TypedRoundtripBase Proofs.TypedRoundtripMain.
From SJ Require Import Model.DeTyped.
From Coq Require Import Lia ZifyBool ZifyNat ZifyN.
Open Scope N_scope.

(* ------------------------------------------------------------------------------------------ *)
(** * Types without floats *)
Lemma concat_nil {A} (l : list (list A)) : Forall (fun x => x = []) l -> concat l = [].
Proof. induction 1 as [|x l Hx _ IH]; [reflexivity|]. cbn [concat]. rewrite Hx, IH. reflexivity. Qed.

Definition NoLeaves (d : dval) : Prop := forall t, no_float t = true -> float_leaves t d = [].

Lemma no_leaves_map t l : Forall NoLeaves l -> no_float t = true -> concat (map (fun x => float_leaves t x) l) = [].
Proof.
  intros H Ht. apply concat_nil. induction H as [|x l Hx _ IH]; cbn [map]; constructor; [exact (Hx t Ht)|exact IH].
Qed.

Lemma no_leaves_zip l : Forall NoLeaves l -> forall ts, forallb no_float ts = true ->
  concat (zipw (fun t0 x => float_leaves t0 x) ts l) = [].
Proof.
  intros H ts Hts. apply concat_nil. revert ts Hts. induction H as [|x l Hx _ IH]; intros ts Hts; destruct ts as [|t ts];
    try solve [rewrite ?zipw_nil_l, ?zipw_nil_r; constructor].
  rewrite zipw_cons. cbn [forallb] in Hts. apply andb_prop in Hts as [H1 H2]. constructor; [exact (Hx t H1)|exact (IH ts H2)].
Qed.

Lemma no_leaves_fields l : Forall NoLeaves l -> forall fs : list (bytes * ty), forallb (fun f => no_float (snd f)) fs = true ->
  concat (zipw (fun f x => float_leaves (snd f) x) fs l) = [].
Proof.
  intros H fs Hfs. apply concat_nil. revert fs Hfs. induction H as [|x l Hx _ IH]; intros fs Hfs; destruct fs as [|[n t] fs];
    try solve [rewrite ?zipw_nil_l, ?zipw_nil_r; constructor].
  rewrite zipw_cons. cbn [forallb snd] in Hfs. apply andb_prop in Hfs as [H1 H2]. constructor; [exact (Hx t H1)|exact (IH fs H2)].
Qed.

Lemma float_leaves_none : forall d, NoLeaves d.
Proof.
  induction d as [d Hl|d IH|d IH|l IH|l IH|l IH|n p IHp IHl] using dval_ind'; intros t Ht.
  - destruct d; try contradiction Hl; destruct t; try discriminate Ht; reflexivity.
  - destruct t; try reflexivity. cbn [float_leaves]. apply IH. exact Ht.
  - destruct t; try reflexivity. cbn [float_leaves]. apply IH. exact Ht.
  - destruct t; try reflexivity; cbn [float_leaves no_float] in *.
    + apply no_leaves_map; assumption.
    + apply no_leaves_zip; assumption.
    + apply no_leaves_zip; assumption.
  - destruct t; try reflexivity; cbn [float_leaves no_float] in *. apply concat_nil.
    induction IH as [|[kd vd] l [_ Hx] _ IHl]; cbn [map]; constructor; [exact (Hx t Ht)|exact IHl].
  - destruct t; try reflexivity; cbn [float_leaves no_float] in *. apply no_leaves_fields; assumption.
  - destruct t; try reflexivity; cbn [float_leaves no_float] in *.
    destruct (index_of n variants) as [[i v]|] eqn:Hi; [|reflexivity].
    pose proof (index_of_forallb _ variants n i v Ht Hi) as HQ. cbn [snd] in HQ.
    destruct v as [|t1|ts|fs]; [reflexivity|exact (IHp t1 HQ)| |].
    + destruct p; try reflexivity. apply no_leaves_zip; assumption.
    + destruct p; try reflexivity. apply no_leaves_fields; assumption.
Qed.

(* ======================================================== C04, typed half, no floats ======================================================== *)
(* bool, integers up to 128 bits, char, strings, options, units, newtypes, sequences, tuples, maps with string / integer / bool /
   char keys, structs and all four enum variant kinds; every configuration; no hypothesis beyond typing, the [Some(null)]
   exclusion and the recursion budget *)
Theorem C04_typed_no_float : forall cf fmt32 fmt64 t d sv bufs,
  in_universe t = true -> no_float t = true -> has_type t d = true -> roundtrip_safe t d = true ->
  sval_of_dval t d = Some sv -> serialize cf fmt32 fmt64 Compact sv = Ok bufs ->
  (limit_disabled cf = false -> (nest t d <= 127)%nat) ->
  exists d', from_input_typed (mkEnv RSlice TEof cf) t (concat bufs) = TOk d' /\ unb d' = unb d.
Proof.
  intros cf fmt32 fmt64 t d sv bufs HU HN HT HS Hsv Hser HD.
  apply (C04_typed cf fmt32 fmt64 t d sv bufs HU HT HS); try assumption.
  unfold floats_ok. rewrite (float_leaves_none d t HN). constructor.
Qed.

(* ------------------------------------------------------------------------------------------ *)
(** * Float texts: from "alone" to "in every context" *)
Lemma tfollow_num_follow tl : tfollow tl -> num_follow tl.
Proof. destruct tl as [|c r]; cbn [tfollow num_follow]; [trivial|]. unfold is_digit. lia. Qed.

Section FloatText.
  Variable cf : cfg.
  Notation E := (mkEnv RSlice TEof cf).

  (* the text is a JSON number (ryu_json) which [parse_integer], run on it in isolation, turns into a parser number that the
     visitor accepts as the float with bit pattern [b] *)
  Definition text_visits (visit : pnum -> st -> tres (dval * st)) (t : bytes) (b : N) : Prop :=
    exists n p s', numlit_of_text t = Some n /\ num_ok n = true /\
      parse_integer E (negb (nneg n)) (init_st (render_abs n)) = Ok (p, s') /\ forall s, visit p s = TOk (DFloat b, s).

  Definition cf_noap : cfg := mkCfg (preserve_order cf) (float_roundtrip cf) false (limit_disabled cf).

  Lemma pan_eq positive x : parse_any_number (mkEnv RSlice TEof cf_noap) positive x = parse_integer E positive x.
  Proof.
    unfold parse_any_number. cbn [Read.cf arbitrary_precision cf_noap].
    apply (parse_integer_feature_indep RSlice TEof cf_noap cf). reflexivity.
  Qed.

  Lemma number_in_context visit t b s tl : text_visits visit t b -> rest s = t ++ tl -> tfollow tl ->
    reads (deserialize_number E visit s) (DFloat b) s tl.
  Proof.
    intros (n & p & s' & Hn & Hok & Hiso & Hv) Hr Hfol.
    assert (HL : forall positive o pk d, positive = negb (nneg n) ->
              parse_integer E positive (mkSt (render_abs n ++ tl) o pk d) = Ok (p, st_end (render_abs n) tl o d)).
    { intros positive o pk d ->.
      pose proof (number_local (mkEnv RSlice TEof cf_noap) (negb (nneg n)) n tl o pk d eq_refl Hok (tfollow_num_follow tl Hfol)) as H.
      rewrite !pan_eq, Hiso in H. exact H. }
    rewrite <- (numlit_of_text_render t n Hn), render_num_abs in Hr. unfold deserialize_number.
    destruct (nneg n) eqn:Hneg; cbn [app] in Hr.
    - destruct (pw_head cf s _ _ Hr eq_refl) as (s1 & Hpw & Hr1 & Hd1). rewrite Hpw. cbn [lift tbind].
      change (45 =? 45) with true. cbv iota. unfold discard. rewrite Hr1. cbn [List.tl].
      rewrite (HL false _ _ _ eq_refl). cbn [lift tbind]. rewrite Hv. cbn [fix_position].
      eexists _, _. split; [reflexivity|]. cbn [rest depth st_end]. auto.
    - destruct (render_abs_head n Hok) as (c & r & Habs & Hc). rewrite Habs in Hr. cbn [app] in Hr.
      destruct (pw_head cf s _ _ Hr (digit_not_ws c Hc)) as (s1 & Hpw & Hr1 & Hd1). rewrite Hpw. cbn [lift tbind].
      rewrite (is_digit_ne45 c Hc), Hc. destruct s1 as [r1 o1 p1 d1]. cbn [rest depth] in Hr1, Hd1. subst r1.
      change (c :: r ++ tl) with ((c :: r) ++ tl). rewrite <- Habs.
      rewrite (HL true _ _ _ eq_refl). cbn [lift tbind]. rewrite Hv. cbn [fix_position].
      eexists _, _. split; [reflexivity|]. cbn [rest depth st_end]. auto.
  Qed.

  Lemma text_visits_head visit t b : text_visits visit t b -> num_head t.
  Proof.
    intros (n & p & s' & Hn & Hok & _). rewrite <- (numlit_of_text_render t n Hn), render_num_abs. unfold num_head.
    destruct (nneg n); cbn [app].
    - do 2 eexists. split; [reflexivity|]. right. reflexivity.
    - destruct (render_abs_head n Hok) as (c & r & -> & Hc). exists c, r. split; [reflexivity|]. left. exact Hc.
  Qed.

  (* the same from the vocabulary of Properties/C03.v / C04.v (Spec/Layout.v [number_text_ok], [num_image]; SerMain.ryu_reads_back):
     the text is a JSON number whose denotation as a Value, in the build without arbitrary_precision, is the float with these bits *)
  Lemma text_visits_of_num_image t b f : number_text_ok t = true ->
    num_image cf_noap t = Some (VNum (NFloat f)) -> bits_of_b64 f = b -> text_visits visit_f64 t b.
  Proof.
    unfold number_text_ok, num_image, text_visits. destruct (numlit_of_text t) as [n|]; [|discriminate].
    intros Hok Hden Hbits. unfold num_den in Hden. change (env0 cf_noap) with (mkEnv RSlice TEof cf_noap) in Hden.
    rewrite pan_eq in Hden. destruct (parse_integer E (negb (nneg n)) (init_st (render_abs n))) as [[p s']| | |] eqn:Hp; try discriminate Hden.
    exists n, p, s'. split; [reflexivity|]. split; [exact Hok|]. split; [exact Hp|].
    unfold visit_number_cfg in Hden. cbn [Read.cf arbitrary_precision cf_noap] in Hden.
    destruct p as [x|x|x|x]; cbn [visit_number] in Hden; try discriminate Hden.
    destruct (b64_is_finite x); [|discriminate Hden]. injection Hden as ->.
    intros s. cbn [visit_f64]. unfold dfloat. rewrite Hbits. reflexivity.
  Qed.
End FloatText.

Section Float.
  Variable cf : cfg.
  Variable fmt32 fmt64 : N -> bytes.
  Notation E := (mkEnv RSlice TEof cf).
  Notation text_visits := (text_visits cf).

  Theorem reads_f64_of_text b : f64_finite_bits b = true -> text_visits visit_f64 (fmt64 b) b -> reads_f64 cf fmt64 b.
  Proof.
    intros Hfin Htv. split; [exact Hfin|]. split; [exact (text_visits_head cf _ _ _ Htv)|].
    intros s tl Hr Hfol. exact (number_in_context cf visit_f64 (fmt64 b) b s tl Htv Hr Hfol).
  Qed.

  (* f32 targets without float_roundtrip: deserialize_number with the f32 visitor (f64 parse, then `as f32`) *)
  Theorem reads_f32_of_text b : float_roundtrip cf = false -> f32_finite_bits (f32_bits_of_f64_bits b) = true ->
    text_visits visit_f32 (fmt32 (f32_bits_of_f64_bits b)) b -> reads_f32 cf fmt32 b.
  Proof.
    intros Hfr Hfin Htv. split; [exact Hfin|]. split; [exact (text_visits_head cf _ _ _ Htv)|].
    intros s tl Hr Hfol. unfold deserialize_f32. cbn [Read.cf]. rewrite Hfr.
    exact (number_in_context cf visit_f32 _ b s tl Htv Hr Hfol).
  Qed.

  (* the hypothesis on one float leaf, by width and configuration *)
  Definition float_text_ok (p : bool * N) : Prop :=
    let b := snd p in
    if fst p then
      if float_roundtrip cf then reads_f32 cf fmt32 b
      else f32_finite_bits (f32_bits_of_f64_bits b) = true /\ text_visits visit_f32 (fmt32 (f32_bits_of_f64_bits b)) b
    else f64_finite_bits b = true /\ text_visits visit_f64 (fmt64 b) b.

  Lemma float_text_ok_ok p : float_text_ok p -> float_ok cf fmt32 fmt64 p.
  Proof.
    destruct p as [[|] b]; unfold float_text_ok, float_ok; cbn [fst snd].
    - destruct (float_roundtrip cf) eqn:Hfr; [auto|]. intros [H1 H2]. apply reads_f32_of_text; assumption.
    - intros [H1 H2]. apply reads_f64_of_text; assumption.
  Qed.

  (* ======================================================== C04, typed half, with floats ======================================================== *)
  Theorem C04_typed_floats : forall t d sv bufs,
    in_universe t = true -> has_type t d = true -> roundtrip_safe t d = true ->
    Forall float_text_ok (float_leaves t d) ->
    sval_of_dval t d = Some sv -> serialize cf fmt32 fmt64 Compact sv = Ok bufs ->
    (limit_disabled cf = false -> (nest t d <= 127)%nat) ->
    exists d', from_input_typed E t (concat bufs) = TOk d' /\ unb d' = unb d.
  Proof.
    intros t d sv bufs HU HT HS HF Hsv Hser HD. apply (C04_typed cf fmt32 fmt64 t d sv bufs HU HT HS); try assumption.
    unfold floats_ok. eapply Forall_impl; [|exact HF]. intros p. apply float_text_ok_ok.
  Qed.

  (* the float hypotheses as properties of ryu and the number parser alone (no reference to the data):
     every finite float's text reads back; an f32 datum is the widening of an f32 *)
  Definition f32_exact (b : N) : Prop := bits_of_b64 (b64_of_b32 (b32_of_b64 (f64_of_bits b))) = b.
  Definition leaf_finite (p : bool * N) : Prop :=
    if fst p then f32_finite_bits (f32_bits_of_f64_bits (snd p)) = true /\ f32_exact (snd p) else f64_finite_bits (snd p) = true.
  Definition ryu_texts_read_back : Prop := forall p, leaf_finite p -> float_text_ok p.

  Theorem C04_typed_ryu : forall t d sv bufs,
    ryu_texts_read_back ->
    in_universe t = true -> has_type t d = true -> roundtrip_safe t d = true ->
    Forall leaf_finite (float_leaves t d) ->
    sval_of_dval t d = Some sv -> serialize cf fmt32 fmt64 Compact sv = Ok bufs ->
    (limit_disabled cf = false -> (nest t d <= 127)%nat) ->
    exists d', from_input_typed E t (concat bufs) = TOk d' /\ unb d' = unb d.
  Proof.
    intros t d sv bufs HR HU HT HS HF. apply C04_typed_floats; try assumption. eapply Forall_impl; [|exact HF]. exact HR.
  Qed.
End Float.

(* ------------------------------------------------------------------------------------------ *)
(** * The hypotheses are satisfiable, the statement says what it should: instances by evaluation *)
Definition cf_def : cfg := mkCfg false false false false.
Definition cf_rt : cfg := mkCfg false true false false.

(* a computable sufficient condition for [text_visits visit_f64] *)
Definition f64_bits_of_pnum (p : pnum) : option N :=
  match p with
  | PF64 f => Some (bits_of_b64 f)
  | PU64 n => Some (bits_of_b64 (b64_of_Z (Z.of_N n)))
  | PI64 z => Some (bits_of_b64 (b64_of_Z z))
  | PString _ => None
  end.

Definition text_visits_f64b (cf : cfg) (t : bytes) (b : N) : bool :=
  match numlit_of_text t with
  | Some n =>
    num_ok n &&
    match parse_integer (mkEnv RSlice TEof cf) (negb (nneg n)) (init_st (render_abs n)) with
    | Ok (p, _) => match f64_bits_of_pnum p with Some b' => b' =? b | None => false end
    | _ => false
    end
  | None => false
  end.

Lemma text_visits_f64b_ok cf t b : text_visits_f64b cf t b = true -> text_visits cf visit_f64 t b.
Proof.
  unfold text_visits_f64b, text_visits. destruct (numlit_of_text t) as [n|]; [|discriminate].
  intros H. apply andb_prop in H as [Hok H].
  destruct (parse_integer _ _ _) as [[p s']| | |] eqn:Hp; try discriminate H.
  destruct (f64_bits_of_pnum p) as [b'|] eqn:Hb; [|discriminate H]. apply N.eqb_eq in H. subst b'.
  exists n, p, s'. split; [reflexivity|]. split; [exact Hok|]. split; [exact Hp|].
  intros s. destruct p; cbn [f64_bits_of_pnum] in Hb; try discriminate Hb; injection Hb as <-; reflexivity.
Qed.

(* "1.5" is 0x3FF8000000000000 in both float configurations; "1e16" likewise reads back *)
Example text_visits_1_5 : text_visits cf_def visit_f64 [49; 46; 53] 4609434218613702656 /\ text_visits cf_rt visit_f64 [49; 46; 53] 4609434218613702656.
Proof. split; apply text_visits_f64b_ok; vm_compute; reflexivity. Qed.
Example text_visits_1e16 : text_visits cf_def visit_f64 [49; 101; 49; 54] 4846369599423283200.
Proof. apply text_visits_f64b_ok; vm_compute; reflexivity. Qed.

(* a struct { a: Option<u8>, b: Vec<String>, c: E } with enum E { A, B(Option<bool>), C(i128, char), D { x: (), m: Map<i64,bool> } } *)
Definition ex_enum : ty :=
  TEnum [([65], VUnit); ([66], VNewtype (TOption TBool)); ([67], VTuple [TInt I128; TChar]);
         ([68], VStruct [([120], TUnit); ([109], TMap (KInt I64) TBool)])].
Definition ex_ty : ty := TStruct [([97], TOption (TInt U8)); ([98], TSeq TStr); ([99], ex_enum)].
Definition ex_d : dval :=
  DStruct [DSome (DInt 255); DSeq [DStr [104; 10; 105] false; DStr [] false];
           DVariant [68] (DStruct [DUnit; DMap [(DInt (-5), DBool true); (DInt 0, DBool false)]])].

Example ex_roundtrip : exists sv bufs d',
  sval_of_dval ex_ty ex_d = Some sv /\ serialize cf_def (fun _ => []) (fun _ => []) Compact sv = Ok bufs /\
  from_input_typed (mkEnv RSlice TEof cf_def) ex_ty (concat bufs) = TOk d' /\ unb d' = unb ex_d.
Proof.
  apply C04_typed_total; try reflexivity.
  - unfold floats_ok. rewrite (float_leaves_none ex_d ex_ty eq_refl). constructor.
  - intros _. vm_compute. lia.
Qed.

(* the exclusion is needed and [norm] says what happens instead: Vec<Option<()>> [Some(()), None] prints as [null,null] and
   reads back as [None, None] *)
Example ex_some_null :
  let t := TSeq (TOption TUnit) in
  let d := DSeq [DSome DUnit; DNone] in
  roundtrip_safe t d = false /\ norm t d = DSeq [DNone; DNone] /\
  match sval_of_dval t d with
  | Some sv => match serialize cf_def (fun _ => []) (fun _ => []) Compact sv with
               | Ok bufs => concat bufs = [91; 110; 117; 108; 108; 44; 110; 117; 108; 108; 93] /\
                            from_input_typed (mkEnv RSlice TEof cf_def) t (concat bufs) = TOk (norm t d)
               | _ => False
               end
  | None => False
  end.
Proof. vm_compute. repeat split. Qed.

Print Assumptions C04_typed_no_float.
Print Assumptions C04_typed_floats.
Print Assumptions C04_typed_ryu.
Print Assumptions reads_f64_of_text.
