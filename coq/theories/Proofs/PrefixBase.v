(* Proofs/PrefixBase.v — the prefix dichotomy (C10 / C11 / C13), part 1: framework and Model/Read.v.

   Two runs of the same model function are compared:
     the PREFIX run     in environment  E1 = (rk0, tm1, cf0)  on a state  s          (input: a prefix p)
     the EXTENDED run   in environment  E2 = (rk0, tm2, cf0)  on the state [ext s]   (input: p ++ t)
   [L] is the absolute byte index of the end of the prefix.  Invariant of prefix states: [inv s].

   [dich S rp rpt]: either both runs did the same ("agree"), or the prefix run ended at the boundary:
   with an Ok state that is [touched] (nothing left, peek slot empty), or with the boundary outcome [bnd]
   (Eof-category code or NumberOutOfRange positioned at L for tm1 = TEof; the injected Io error for TFail).
   [eofc S rp]: the outcome of a run that is already in "boundary mode". *)
From SJ Require Import Base.Bytes Base.FloatB Gen.Tables Model.Read.
Require Import Lia ZifyBool ZifyNat ZifyN.
Open Scope N_scope.

Definition eofish (c : ecode) : Prop := category c = CatEof \/ c = NumberOutOfRange.

(* ---------- generic facts about [bind] and lists ---------- *)
Lemma bind_assoc {A B C} (r : res A) (f : A -> res B) (g : B -> res C) :
  bind (bind r f) g = bind r (fun a => bind (f a) g).
Proof. destruct r; reflexivity. Qed.

Lemma span_len_le p (l : bytes) : (span_len p l <= length l)%nat.
Proof. induction l as [|b l IH]; cbn [span_len length]; [lia|]. destruct (p b); lia. Qed.

Lemma skipn_app_le {A} n (l t : list A) : (n <= length l)%nat -> skipn n (l ++ t) = skipn n l ++ t.
Proof. intros H. rewrite skipn_app. replace (n - length l)%nat with 0%nat by lia. reflexivity. Qed.

Lemma firstn_app_le {A} n (l t : list A) : (n <= length l)%nat -> firstn n (l ++ t) = firstn n l.
Proof. intros H. rewrite firstn_app. replace (n - length l)%nat with 0%nat by lia. cbn [firstn]. apply app_nil_r. Qed.

(* where a span stops: at the end of the list, or at a byte inside it (then appending changes nothing) *)
Lemma span_cases p (l : bytes) :
  skipn (span_len p l) l = [] \/
  exists b r, skipn (span_len p l) l = b :: r /\ p b = false /\
              forall t, span_len p (l ++ t) = span_len p l.
Proof.
  induction l as [|b l IH]; cbn [span_len skipn]; [now left|].
  destruct (p b) eqn:Hb; cbn [skipn].
  - destruct IH as [IH | (b' & r & H1 & H2 & H3)]; [now left|]. right. exists b', r. repeat split; auto.
    intros t. cbn [app span_len]. rewrite Hb, H3. reflexivity.
  - right. exists b, l. repeat split; auto. intros t. cbn [app span_len]. now rewrite Hb.
Qed.

(* the parameters of a comparison: reader kind, configuration, the two terminators, the appended bytes,
   and the absolute index of the end of the prefix *)
Record ctx := mkCtx { c_rk : rkind; c_cf : cfg; c_tm1 : term; c_tm2 : term; c_t : bytes; c_L : nat }.

Section Dich.
Variable C : ctx.
Notation rk0 := (c_rk C).
Notation cf0 := (c_cf C).
Notation tm1 := (c_tm1 C).
Notation tm2 := (c_tm2 C).
Notation t := (c_t C).
Notation L := (c_L C).
Notation E1 := (mkEnv (c_rk C) (c_tm1 C) (c_cf C)).
Notation E2 := (mkEnv (c_rk C) (c_tm2 C) (c_cf C)).

Definition ext (s : st) : st := mkSt (rest s ++ t) (off s) (pk s) (depth s).
Definition inv (s : st) : Prop := (off s + length (rest s) = L)%nat /\ (pk s = true -> rest s <> []).
Definition touched (s : st) : Prop := rest s = [] /\ pk s = false.
Definition live (s : st) : Prop := rest s <> [].

Definition bnd (c : ecode) (i : nat) : Prop :=
  match tm1 with
  | TEof => eofish c /\ i = L
  | TFail k => match rk0 with RIo => c = Io k /\ i = 0%nat | _ => True end
  end.

(* the "shape" of a result type: how the cursor inside it is extended, when it counts as
   stopped-at-the-boundary, and its invariant *)
Record shape (X : Type) := mkShape { ex : X -> X; tch : X -> Prop; iv : X -> Prop }.
Arguments ex {X}. Arguments tch {X}. Arguments iv {X}. Arguments mkShape {X}.

Definition dich {X} (S : shape X) (rp rpt : res X) : Prop :=
  match rp with
  | Ok x => iv S x /\ (rpt = Ok (ex S x) \/ tch S x)
  | Err c i => (i <= L)%nat /\ (rpt = Err c i \/ bnd c i)
  | OutOfFuel => True
  | Panic => rpt = Panic
  end.

Definition eofc {X} (S : shape X) (rp : res X) : Prop :=
  match rp with
  | Ok x => iv S x /\ tch S x
  | Err c i => (i <= L)%nat /\ bnd c i
  | OutOfFuel => True
  | Panic => False
  end.

(* value + cursor; [bm] restricts the values that can come out of a boundary-mode run *)
Definition ShP {A} (bm : A -> Prop) : shape (A * st) :=
  mkShape (fun x => (fst x, ext (snd x))) (fun x => touched (snd x) /\ bm (fst x)) (fun x => inv (snd x)).
Definition ShS : shape st := mkShape ext touched inv.
Definition ShSn : shape st := mkShape ext (fun _ => False) inv.   (* strict *)
Definition ShO : shape (option st) :=
  mkShape (option_map ext) (fun _ => False) (fun o => match o with Some s => inv s /\ live s | None => True end).
(* pure values: must agree *)
Definition ShV {A} : shape A := mkShape (fun x => x) (fun _ => False) (fun _ => True).
(* final results: nothing is claimed when the prefix run succeeds *)
Definition ShT {A} : shape A := mkShape (fun x => x) (fun _ => True) (fun _ => True).

Definition anyv {A} : A -> Prop := fun _ => True.
Definition nov {A} : A -> Prop := fun _ => False.

Lemma dich_of_eofc {X} (S : shape X) rp rpt : eofc S rp -> dich S rp rpt.
Proof. destruct rp; cbn [eofc dich]; intros H; intuition. Qed.

Lemma bind_dich {X Y} (S : shape X) (S' : shape Y) (rp rpt : res X) (g1 g2 : X -> res Y) :
  dich S rp rpt ->
  (forall x, rp = Ok x -> iv S x -> dich S' (g1 x) (g2 (ex S x))) ->
  (forall x, rp = Ok x -> iv S x -> tch S x -> eofc S' (g1 x)) ->
  dich S' (bind rp g1) (bind rpt g2).
Proof.
  intros Hd Hg He. destruct rp as [x|c i| |]; cbn [dich bind] in *.
  - destruct Hd as [Hi [-> | Ht]].
    + cbn [bind]. now apply Hg.
    + apply dich_of_eofc. now apply He.
  - destruct Hd as [Hi [-> | Hb]]; cbn [bind dich]; auto.
  - exact I.
  - subst rpt. reflexivity.
Qed.

Lemma bind_eofc {X Y} (S : shape X) (S' : shape Y) (rp : res X) (g1 : X -> res Y) :
  eofc S rp ->
  (forall x, rp = Ok x -> iv S x -> tch S x -> eofc S' (g1 x)) ->
  eofc S' (bind rp g1).
Proof.
  intros Hd He. destruct rp as [x|c i| |]; cbn [eofc bind] in *; auto.
  destruct Hd. now apply He.
Qed.

(* a strict bind: first component's Ok outcomes always agree *)
Lemma dich_weaken {A} (bm bm' : A -> Prop) rp rpt :
  (forall a, bm a -> bm' a) -> dich (ShP bm) rp rpt -> dich (ShP bm') rp rpt.
Proof.
  intros H. destruct rp as [[a s]|c i| |]; cbn [dich ShP iv tch ex fst snd]; auto.
  intros [Hi [Hd | [Ht Hb]]]; auto.
Qed.

Lemma eofc_weaken {A} (bm bm' : A -> Prop) rp :
  (forall a, bm a -> bm' a) -> eofc (ShP bm) rp -> eofc (ShP bm') rp.
Proof.
  intros H. destruct rp as [[a s]|c i| |]; cbn [eofc ShP iv tch ex fst snd]; auto.
  intros [Hi [Ht Hb]]; auto.
Qed.

(* a pure computation that is the same in both runs and never yields Err *)
Lemma dich_pure {A} (r : res A) : (forall c i, r <> Err c i) -> dich ShV r r.
Proof. destruct r; cbn [dich ShV iv tch ex]; auto. intros H. now destruct (H c idx). Qed.

(* ---------- states ---------- *)
Lemma inv_mk r o p d : (o + length r = L)%nat -> (p = true -> r <> []) -> inv (mkSt r o p d).
Proof. intros H1 H2. split; cbn [rest off pk]; assumption. Qed.

Lemma touched_off s : touched s -> inv s -> off s = L /\ rest s = [] /\ pk s = false.
Proof. intros [Hr Hp] [Ho _]. rewrite Hr in Ho. cbn [length] in Ho. repeat split; auto; lia. Qed.

Lemma inv_off_le s : inv s -> (off s <= L)%nat.
Proof. intros [H _]. lia. Qed.

Lemma inv_pk_le s : inv s -> (off s + (if pk s then 1 else 0) <= L)%nat.
Proof.
  intros [H Hp]. destruct (pk s); [|lia]. specialize (Hp eq_refl).
  destruct (rest s); [congruence|]. cbn [length] in H. lia.
Qed.

Lemma advance_ext n s : (n <= length (rest s))%nat -> advance n (ext s) = ext (advance n s).
Proof. intros H. unfold advance, ext. cbn [rest off pk depth]. now rewrite skipn_app_le. Qed.

Lemma inv_advance n s : inv s -> (n <= length (rest s))%nat -> inv (advance n s).
Proof.
  intros [H _] Hn. unfold advance. apply inv_mk; [|discriminate].
  rewrite skipn_length. lia.
Qed.

Lemma discard_ext s : live s -> discard (ext s) = ext (discard s).
Proof. unfold live, discard, ext. cbn [rest off pk depth]. destruct (rest s); [congruence|]. reflexivity. Qed.

Lemma inv_discard s : inv s -> live s -> inv (discard s).
Proof.
  intros [H _] Hl. unfold live, discard in *. apply inv_mk; [|discriminate].
  destruct (rest s); [congruence|]. cbn [tl length] in *. lia.
Qed.

(* ---------- error constructors ---------- *)
Lemma err_idx_ext E s : err_idx E (ext s) = err_idx E s.
Proof. reflexivity. Qed.

Lemma err_idx_le s : inv s -> (err_idx E1 s <= L)%nat.
Proof. intros H. unfold err_idx, is_io. cbn [rk]. pose proof (inv_pk_le s H). pose proof (inv_off_le s H). destruct rk0; lia. Qed.

Lemma peek_err_idx_le s : inv s -> (peek_err_idx E1 s <= L)%nat.
Proof.
  intros H. unfold peek_err_idx, is_io. cbn [rk]. pose proof (inv_pk_le s H). destruct H as [H _].
  destruct rk0; try lia; destruct (rest s); cbn [length] in H; lia.
Qed.

Lemma peek_err_idx_ext s : live s -> peek_err_idx E2 (ext s) = peek_err_idx E1 s.
Proof.
  unfold live, peek_err_idx, is_io, ext. cbn [rk rest off pk]. intros H.
  destruct (rest s); [congruence|]. reflexivity.
Qed.

Lemma peek_err_idx_touched s : inv s -> rest s = [] -> peek_err_idx E1 s = L.
Proof.
  intros [H Hp] Hr. unfold peek_err_idx, is_io. cbn [rk]. rewrite Hr in *. cbn [length] in H.
  destruct (pk s); [now destruct (Hp eq_refl)|]. destruct rk0; lia.
Qed.

(* [error]: the position does not depend on what follows, so the two runs always agree *)
Lemma error_dich {X} (S : shape X) s c : inv s -> dich S (error E1 s c) (error E2 (ext s) c).
Proof. intros H. unfold error. cbn [dich]. split; [now apply err_idx_le|left; reflexivity]. Qed.

(* [peek_error]: agrees when something follows; at the boundary the code must be eofish *)
Lemma peek_error_dich {X} (S : shape X) s c : inv s -> live s \/ (tm1 = TEof /\ eofish c) ->
  dich S (peek_error E1 s c) (peek_error E2 (ext s) c).
Proof.
  intros H Hc. unfold peek_error. cbn [dich]. split; [now apply peek_err_idx_le|].
  destruct (rest s) eqn:Hr.
  - right. destruct Hc as [Hc | [Htm Hc]]; [unfold live in Hc; congruence|].
    unfold bnd. rewrite Htm. split; [assumption|now apply peek_err_idx_touched].
  - left. rewrite peek_err_idx_ext; [reflexivity|unfold live; congruence].
Qed.

Lemma peek_error_eofc {X} (S : shape X) s c : inv s -> touched s -> tm1 = TEof -> eofish c ->
  eofc S (peek_error E1 s c).
Proof.
  intros H [Hr _] Htm Hc. unfold peek_error. cbn [eofc]. split; [now apply peek_err_idx_le|].
  unfold bnd. rewrite Htm. split; [assumption|now apply peek_err_idx_touched].
Qed.

Lemma error_eofc {X} (S : shape X) s c : inv s -> touched s -> tm1 = TEof -> eofish c ->
  eofc S (error E1 s c).
Proof.
  intros H Ht Htm Hc. unfold error. cbn [eofc]. split; [now apply err_idx_le|].
  unfold bnd. rewrite Htm. split; [assumption|].
  destruct (touched_off s Ht H) as (Ho & _ & Hp). unfold err_idx, is_io. cbn [rk]. rewrite Hp. destruct rk0; lia.
Qed.

Lemma ret_dich {A} (bm : A -> Prop) (a : A) s : inv s -> dich (ShP bm) (Ok (a, s)) (Ok (a, ext s)).
Proof. intros H. cbn [dich ShP iv ex tch fst snd]. auto. Qed.
Lemma ret_eofc {A} (bm : A -> Prop) (a : A) s : inv s -> touched s -> bm a -> eofc (ShP bm) (Ok (a, s)).
Proof. intros H Ht Hb. cbn [eofc ShP iv ex tch fst snd]. auto. Qed.
Lemma retS_dich s : inv s -> dich ShS (Ok s) (Ok (ext s)).
Proof. intros H. cbn [dich ShS iv ex tch]. auto. Qed.
Lemma retSn_dich s : inv s -> dich ShSn (Ok s) (Ok (ext s)).
Proof. intros H. cbn [dich ShSn iv ex tch]. auto. Qed.
Lemma retS_eofc s : inv s -> touched s -> eofc ShS (Ok s).
Proof. intros H Ht. cbn [eofc ShS iv ex tch]. auto. Qed.

(* ---------- the reads ---------- *)
Definition isNone {A} (o : option A) : Prop := o = None /\ tm1 = TEof.

(* a read at the boundary *)
Lemma at_end_eofc s : touched s -> inv s ->
  eofc (ShP isNone) (at_end E1 (Ok (@None N, mkSt [] (off s) false (depth s)))).
Proof.
  intros Ht Hi. destruct (touched_off s Ht Hi) as (Ho & Hr & Hp).
  unfold at_end. cbn [tm]. destruct tm1 eqn:Htm; cbn [eofc ShP iv tch fst snd].
  - split; [apply inv_mk; cbn [length]; [lia|discriminate]|]. split; [split; reflexivity|split; [reflexivity|assumption]].
  - split; [lia|]. unfold bnd. rewrite Htm. destruct rk0; auto.
Qed.

Lemma peek_eofc s : touched s -> inv s -> eofc (ShP isNone) (peek E1 s).
Proof. intros Ht Hi. unfold peek. rewrite (proj1 Ht). now apply at_end_eofc. Qed.
Lemma next_eofc s : touched s -> inv s -> eofc (ShP isNone) (next E1 s).
Proof. intros Ht Hi. unfold next. rewrite (proj1 Ht). now apply at_end_eofc. Qed.

Lemma peek_dich s : inv s -> dich (ShP isNone) (peek E1 s) (peek E2 (ext s)).
Proof.
  intros Hi. destruct (rest s) as [|b r] eqn:Hr.
  - apply dich_of_eofc. apply peek_eofc; [|assumption]. split; [assumption|].
    destruct (pk s) eqn:Hp; [|reflexivity]. now destruct (proj2 Hi Hp).
  - unfold peek, ext. cbn [rest off pk depth]. rewrite Hr. cbn [app dich ShP iv tch ex fst snd rest off pk depth].
    split; [|left; reflexivity]. destruct Hi as [Hi _]. rewrite Hr in *. apply inv_mk; [assumption|discriminate].
Qed.

Lemma next_dich s : inv s -> dich (ShP isNone) (next E1 s) (next E2 (ext s)).
Proof.
  intros Hi. destruct (rest s) as [|b r] eqn:Hr.
  - destruct (pk s) eqn:Hp; [now destruct (proj2 Hi Hp)|].
    apply dich_of_eofc. apply next_eofc; [split|]; assumption.
  - unfold next, ext. cbn [rest off pk depth]. rewrite Hr. cbn [app dich ShP iv tch ex fst snd rest off pk depth].
    split; [|left; reflexivity]. destruct Hi as [Hi _]. rewrite Hr in *. cbn [length] in Hi. apply inv_mk; [lia|discriminate].
Qed.

(* what a successful read tells about the new state *)
Lemma peek_spec E s o s' : peek E s = Ok (o, s') ->
  match o with Some b => exists r, rest s' = b :: r /\ pk s' = true | None => touched s' /\ tm E = TEof end.
Proof.
  unfold peek, at_end. destruct (rest s) as [|b r] eqn:Hr.
  - destruct (tm E); [|discriminate]. intros [= <- <-]. repeat split; reflexivity.
  - intros [= <- <-]. cbn [rest pk]. eauto.
Qed.

Lemma next_spec E s o s' : next E s = Ok (o, s') -> pk s' = false /\ (o = None -> touched s' /\ tm E = TEof).
Proof.
  unfold next, at_end. destruct (rest s) as [|b r] eqn:Hr.
  - destruct (tm E); [|discriminate]. intros [= <- <-]. repeat split; reflexivity.
  - intros [= <- <-]. cbn [rest pk]. split; [reflexivity|discriminate].
Qed.

Definition isZero (c : N) : Prop := c = 0 /\ tm1 = TEof.

Lemma peek_or_null_dich s : inv s -> dich (ShP isZero) (peek_or_null E1 s) (peek_or_null E2 (ext s)).
Proof.
  intros Hi. unfold peek_or_null.
  apply (bind_dich (ShP isNone) (ShP isZero)); [now apply peek_dich| |].
  - intros [o s1] _ Hi1. cbn [ShP ex fst snd]. now apply ret_dich.
  - intros [o s1] _ Hi1 [Ht Ho]. cbn [fst snd] in *. destruct Ho as [-> Htm]. apply ret_eofc; [assumption..|split; [reflexivity|assumption]].
Qed.

Lemma peek_or_null_eofc s : touched s -> inv s -> eofc (ShP isZero) (peek_or_null E1 s).
Proof.
  intros Ht Hi. unfold peek_or_null.
  apply (bind_eofc (ShP isNone) (ShP isZero)); [now apply peek_eofc|].
  intros [o s1] _ Hi1 [Ht1 Ho]. cbn [fst snd] in *. destruct Ho as [-> Htm]. apply ret_eofc; [assumption..|split; [reflexivity|assumption]].
Qed.

Lemma peek_or_null_spec E s c s' : peek_or_null E s = Ok (c, s') ->
  (touched s' /\ c = 0 /\ tm E = TEof) \/ (exists r, rest s' = c :: r /\ pk s' = true).
Proof.
  unfold peek_or_null. destruct (peek E s) as [[o s1]| | |] eqn:Hp; cbn [bind]; try discriminate.
  intros [= <- <-]. apply peek_spec in Hp. destruct o; [right|left]; intuition.
Qed.

(* [peek]-like function composed with a span: parse_whitespace, skip_digits and the digit runs of Num.v *)
Lemma touched_advance_all n s : skipn n (rest s) = [] -> touched (advance n s).
Proof. intros H. unfold touched, advance. cbn [rest pk]. auto. Qed.

Lemma span_peek_dich p s : inv s ->
  dich (ShP isNone) (peek E1 (advance (span_len p (rest s)) s)) (peek E2 (advance (span_len p (rest (ext s))) (ext s))).
Proof.
  intros Hi. pose proof (span_len_le p (rest s)) as Hle.
  destruct (span_cases p (rest s)) as [Hb | (b & r & Hs & Hpb & Hn)].
  - apply dich_of_eofc. apply peek_eofc; [now apply touched_advance_all|now apply inv_advance].
  - unfold ext at 1. cbn [rest]. rewrite Hn, advance_ext by assumption. apply peek_dich. now apply inv_advance.
Qed.

Lemma span_peek_eofc p s : touched s -> inv s -> eofc (ShP isNone) (peek E1 (advance (span_len p (rest s)) s)).
Proof.
  intros Ht Hi. apply peek_eofc.
  - apply touched_advance_all. rewrite (proj1 Ht). now destruct (span_len p []).
  - apply inv_advance; [assumption|apply span_len_le].
Qed.

Lemma parse_whitespace_dich s : inv s -> dich (ShP isNone) (parse_whitespace E1 s) (parse_whitespace E2 (ext s)).
Proof. intros Hi. unfold parse_whitespace. now apply span_peek_dich. Qed.
Lemma parse_whitespace_eofc s : touched s -> inv s -> eofc (ShP isNone) (parse_whitespace E1 s).
Proof. intros Ht Hi. unfold parse_whitespace. now apply span_peek_eofc. Qed.
Lemma parse_whitespace_spec E s o s' : parse_whitespace E s = Ok (o, s') ->
  match o with Some b => exists r, rest s' = b :: r /\ pk s' = true | None => touched s' /\ tm E = TEof end.
Proof. unfold parse_whitespace. apply peek_spec. Qed.

Lemma skip_digits_dich s : inv s -> dich (ShP isZero) (skip_digits E1 s) (skip_digits E2 (ext s)).
Proof.
  intros Hi. unfold skip_digits, peek_or_null.
  apply (bind_dich (ShP isNone) (ShP isZero)); [now apply span_peek_dich| |].
  - intros [o s1] _ Hi1. cbn [ShP ex fst snd]. now apply ret_dich.
  - intros [o s1] _ Hi1 [Ht Ho]. cbn [fst snd] in *. destruct Ho as [-> Htm]. apply ret_eofc; [assumption..|split; [reflexivity|assumption]].
Qed.
Lemma skip_digits_eofc s : touched s -> inv s -> eofc (ShP isZero) (skip_digits E1 s).
Proof.
  intros Ht Hi. unfold skip_digits, peek_or_null.
  apply (bind_eofc (ShP isNone) (ShP isZero)); [now apply span_peek_eofc|].
  intros [o s1] _ Hi1 [Ht1 Ho]. cbn [fst snd] in *. destruct Ho as [-> Htm]. apply ret_eofc; [assumption..|split; [reflexivity|assumption]].
Qed.
Lemma skip_digits_spec E s c s' : skip_digits E s = Ok (c, s') ->
  (touched s' /\ c = 0 /\ tm E = TEof) \/ (exists r, rest s' = c :: r /\ pk s' = true).
Proof. unfold skip_digits. apply peek_or_null_spec. Qed.

(* parse_ident: strict — success never depends on what follows *)
Lemma parse_ident_dich ident : forall s, inv s ->
  dich ShSn (parse_ident E1 ident s) (parse_ident E2 ident (ext s)).
Proof.
  induction ident as [|e ident IH]; intros s Hi; cbn [parse_ident].
  - now apply retSn_dich.
  - apply (bind_dich (ShP isNone) ShSn); [now apply next_dich| |].
    + intros [o s1] _ Hi1. cbn [ShP ex fst snd iv] in *. destruct o as [b|]; [|now apply error_dich].
      destruct (b =? e); [now apply IH|now apply error_dich].
    + intros [o s1] Hn Hi1 [Ht Ho]. cbn [fst snd iv ShP] in *. destruct Ho as [-> Htm].
      apply error_eofc; auto. left; reflexivity.
Qed.

(* ---------- binds specialised to the common shapes ---------- *)
Lemma bind_dichP {A Y} (bm : A -> Prop) (S' : shape Y) rp rpt (g1 g2 : A * st -> res Y) :
  dich (ShP bm) rp rpt ->
  (forall a s', rp = Ok (a, s') -> inv s' -> dich S' (g1 (a, s')) (g2 (a, ext s'))) ->
  (forall a s', rp = Ok (a, s') -> inv s' -> touched s' -> bm a -> eofc S' (g1 (a, s'))) ->
  dich S' (bind rp g1) (bind rpt g2).
Proof.
  intros Hd Hg He. apply (bind_dich (ShP bm) S'); [assumption| |].
  - intros [a s'] Hr Hi. now apply Hg.
  - intros [a s'] Hr Hi [Ht Hb]. now apply He.
Qed.

Lemma bind_dich_strict {A Y} (S' : shape Y) rp rpt (g1 g2 : A * st -> res Y) :
  dich (ShP nov) rp rpt ->
  (forall a s', rp = Ok (a, s') -> inv s' -> dich S' (g1 (a, s')) (g2 (a, ext s'))) ->
  dich S' (bind rp g1) (bind rpt g2).
Proof. intros Hd Hg. apply (bind_dichP nov S'); [assumption..|]. intros a s' _ _ _ []. Qed.

Lemma bind_dichS {Y} (S' : shape Y) rp rpt (g1 g2 : st -> res Y) :
  dich ShS rp rpt ->
  (forall s', rp = Ok s' -> inv s' -> dich S' (g1 s') (g2 (ext s'))) ->
  (forall s', rp = Ok s' -> inv s' -> touched s' -> eofc S' (g1 s')) ->
  dich S' (bind rp g1) (bind rpt g2).
Proof. intros Hd Hg He. now apply (bind_dich ShS S'). Qed.

Lemma bind_dichSn {Y} (S' : shape Y) rp rpt (g1 g2 : st -> res Y) :
  dich ShSn rp rpt ->
  (forall s', rp = Ok s' -> inv s' -> dich S' (g1 s') (g2 (ext s'))) ->
  dich S' (bind rp g1) (bind rpt g2).
Proof. intros Hd Hg. apply (bind_dich ShSn S'); [assumption..|]. intros s' _ _ []. Qed.

Lemma dich_Sn_S rp rpt : dich ShSn rp rpt -> dich ShS rp rpt.
Proof. destruct rp; cbn [dich ShS ShSn iv tch ex]; auto. intros [Hi [Hd | []]]; auto. Qed.

Lemma bind_eofcS {Y} (S' : shape Y) rp (g1 : st -> res Y) :
  eofc ShS rp ->
  (forall s', rp = Ok s' -> inv s' -> touched s' -> eofc S' (g1 s')) ->
  eofc S' (bind rp g1).
Proof. intros Hd He. now apply (bind_eofc ShS S'). Qed.

Lemma bind_dich_pure {A Y} (S' : shape Y) (r : res A) (g1 g2 : A -> res Y) :
  (forall c i, r <> Err c i) ->
  (forall a, r = Ok a -> dich S' (g1 a) (g2 a)) ->
  dich S' (bind r g1) (bind r g2).
Proof.
  intros Hn Hg. apply (bind_dich ShV S'); [now apply dich_pure| |].
  - intros a Ha _. now apply Hg.
  - intros a _ _ [].
Qed.

Lemma bind_eofcP {A Y} (bm : A -> Prop) (S' : shape Y) rp (g1 : A * st -> res Y) :
  eofc (ShP bm) rp ->
  (forall a s', rp = Ok (a, s') -> inv s' -> touched s' -> bm a -> eofc S' (g1 (a, s'))) ->
  eofc S' (bind rp g1).
Proof.
  intros Hd He. apply (bind_eofc (ShP bm) S'); [assumption|].
  intros [a s'] Hr Hi [Ht Hb]. now apply He.
Qed.

Lemma bind_eofc_pure {A Y} (S' : shape Y) (r : res A) (g1 : A -> res Y) :
  (forall c i, r <> Err c i) -> r <> Panic ->
  (forall a, r = Ok a -> eofc S' (g1 a)) ->
  eofc S' (bind r g1).
Proof. intros Hn Hp Hg. destruct r; cbn [bind eofc]; auto. now destruct (Hn c idx). Qed.

(* strict results may be used where loose ones are expected *)
Lemma dich_strict_any {A} (bm : A -> Prop) rp rpt : dich (ShP nov) rp rpt -> dich (ShP bm) rp rpt.
Proof. apply dich_weaken. intros a []. Qed.

(* ---------- recursion budget ---------- *)
Lemma enter_dich s : inv s -> live s -> dich ShSn (enter E1 s) (enter E2 (ext s)).
Proof.
  intros Hi Hl. unfold enter. cbn [cf depth ext rest off pk]. destruct (limit_disabled cf0); [now apply retSn_dich|].
  destruct (depth s =? 0); [reflexivity|].
  destruct (depth s - 1 =? 0).
  - apply (peek_error_dich ShSn (mkSt (rest s) (off s) (pk s) (depth s - 1))); [exact Hi|left; exact Hl].
  - apply (retSn_dich (mkSt (rest s) (off s) (pk s) (depth s - 1))). exact Hi.
Qed.

Lemma enter_spec E s s' : enter E s = Ok s' -> rest s' = rest s /\ pk s' = pk s.
Proof.
  unfold enter. destruct (limit_disabled (cf E)); [intros [= <-]; auto|].
  destruct (depth s =? 0); [discriminate|]. cbn [depth]. destruct (depth s - 1 =? 0); [discriminate|].
  intros [= <-]. auto.
Qed.

Lemma leave_dich s : inv s -> dich ShSn (leave E1 s) (leave E2 (ext s)).
Proof.
  intros Hi. unfold leave. cbn [cf depth ext rest off pk]. destruct (limit_disabled cf0); [now apply retSn_dich|].
  destruct (255 <=? depth s); [reflexivity|].
  apply (retSn_dich (mkSt (rest s) (off s) (pk s) (depth s + 1))). exact Hi.
Qed.

End Dich.
