(* Proofs/LexRnd.v — from a "bracket" to the bits of the oracle.

   A positive real x is bracketed by the adjacent binary64 values  M * 2^E  and  (M+1) * 2^E  (with (M, E) the canonical
   significand/exponent of a positive finite float or of zero:  M < 2^53, E >= -1074, and M >= 2^52 unless E = -1074).
   Then round-to-nearest-even of x is (M + dec) * 2^E, where dec is decided by comparing x with the halfway point
   (2M+1) * 2^(E-1)  (ties: M even -> 0), and the IEEE bit pattern of the oracle `rne_decimal` is  enc64 M E + dec
   (the successor in bit-pattern order, which also covers the carry into the next binade and the overflow to infinity).

     round_NE_bracket     generic (prec, emin): the value of round-to-nearest-even from a bracket
     bits_of_b64_canon    the bit pattern of a finite non-negative binary64 with canonical (M, E)
     oracle64_bracket     bits_of_b64 (rne_decimal D e) = enc64 M E + dec        (D * 10^e bracketed by (M, E))
     oracle64_overflow    2^1024 <= D * 10^e  ->  rne_decimal D e = +infinity
     dcmp_spec            comparison of D * 10^e with M * 2^E over the reals = a comparison of integers

   Uses FloatOracle.rne_decimal_correct / LexOracle.rne_decimal_cases (the oracle IS round-to-nearest-even). *)
From Coq Require Import ZArith NArith Reals Lia Lra List Bool Psatz.
From Flocq Require Import Core BinarySingleNaN.
From SJ Require Import Base.Bytes Base.FloatB Gen.Tables Model.Read Model.Num.
From SJ Require Import Proofs.FloatDefault Proofs.FloatOracle Proofs.LexOracle.
Open Scope Z_scope.

(* ------------------------------------------------------------------ *)
(** * the rounding decision *)
Definition dec_of (c : comparison) (M : Z) : Z :=
  match c with Lt => 0 | Eq => if Z.even M then 0 else 1 | Gt => 1 end.

Lemma dec_of_range (c : comparison) (M : Z) : 0 <= dec_of c M <= 1.
Proof. unfold dec_of. destruct c; [destruct (Z.even M)| |]; lia. Qed.

(* ------------------------------------------------------------------ *)
(** * generic: round to nearest even from a bracket *)
Section Bracket.
Variables (prec emin : Z).
Hypothesis Hprec : 0 < prec.
Notation fexp := (FLT_exp emin prec).

Lemma bracket_cexp (x : R) (M E : Z) :
  (0 < x)%R -> 0 <= M -> M < 2 ^ prec -> emin <= E -> (E = emin \/ 2 ^ (prec - 1) <= M) ->
  (IZR M * bpow radix2 E <= x < IZR (M + 1) * bpow radix2 E)%R ->
  cexp radix2 fexp x = E.
Proof.
  intros Hx HM0 HM HE Hcan (Hlo & Hhi).
  unfold cexp, FLT_exp.
  assert (Hup : (x < bpow radix2 (E + prec))%R).
  { apply Rlt_le_trans with (1 := Hhi). rewrite bpow_plus, Rmult_comm.
    apply Rmult_le_compat_l; [apply bpow_ge_0|].
    rewrite <- IZR_Zpower by lia. apply IZR_le. change (radix2 ^ prec) with (2 ^ prec). lia. }
  assert (Hmag : (mag radix2 x <= E + prec)%Z).
  { apply mag_le_bpow; [lra|]. rewrite Rabs_pos_eq by lra. exact Hup. }
  destruct Hcan as [->|Hn]; [lia|].
  assert (Hlow : (bpow radix2 (E + prec - 1) <= x)%R).
  { apply Rle_trans with (2 := Hlo). replace (E + prec - 1) with ((prec - 1) + E) by lia.
    rewrite bpow_plus. apply Rmult_le_compat_r; [apply bpow_ge_0|].
    rewrite <- IZR_Zpower by lia. apply IZR_le. exact Hn. }
  rewrite (mag_unique_pos radix2 x (E + prec)) by (split; assumption). lia.
Qed.

Lemma scaled_floor (x : R) (M E : Z) :
  (IZR M * bpow radix2 E <= x < IZR (M + 1) * bpow radix2 E)%R ->
  (IZR M <= x * bpow radix2 (- E) < IZR M + 1)%R.
Proof.
  intros (Hlo & Hhi). pose proof (bpow_gt_0 radix2 (- E)) as Hp.
  assert (Hone : (bpow radix2 E * bpow radix2 (- E) = 1)%R).
  { rewrite <- bpow_plus. replace (E + - E) with 0 by lia. reflexivity. }
  split.
  - replace (IZR M) with (IZR M * bpow radix2 E * bpow radix2 (- E))%R by (rewrite Rmult_assoc, Hone; ring).
    apply Rmult_le_compat_r; [lra|exact Hlo].
  - replace (IZR M + 1)%R with (IZR (M + 1) * bpow radix2 E * bpow radix2 (- E))%R
      by (rewrite Rmult_assoc, Hone, plus_IZR; ring).
    apply Rmult_lt_compat_r; [lra|exact Hhi].
Qed.

Lemma mid_scaled (x : R) (M E : Z) :
  Rcompare x (IZR (2 * M + 1) * bpow radix2 (E - 1)) = Rcompare (x * bpow radix2 (- E) - IZR M) (/ 2).
Proof.
  pose proof (bpow_gt_0 radix2 (- E)) as Hp.
  rewrite <- (Rcompare_mult_r (bpow radix2 (- E)) x) by exact Hp.
  replace (IZR (2 * M + 1) * bpow radix2 (E - 1) * bpow radix2 (- E))%R with (IZR M + / 2)%R.
  - set (y := (x * bpow radix2 (- E))%R).
    destruct (Rcompare_spec y (IZR M + / 2)) as [H|H|H]; symmetry;
      [apply Rcompare_Lt|apply Rcompare_Eq|apply Rcompare_Gt]; lra.
  - rewrite Rmult_assoc, <- bpow_plus. replace (E - 1 + - E) with (- (1)) by lia.
    rewrite plus_IZR, mult_IZR. change (bpow radix2 (- (1))) with (/ 2)%R. simpl (IZR 2). simpl (IZR 1). field.
Qed.

Theorem round_NE_bracket (x : R) (M E : Z) :
  (0 < x)%R -> 0 <= M -> M < 2 ^ prec -> emin <= E -> (E = emin \/ 2 ^ (prec - 1) <= M) ->
  (IZR M * bpow radix2 E <= x < IZR (M + 1) * bpow radix2 E)%R ->
  round radix2 fexp ZnearestE x =
  (IZR (M + dec_of (Rcompare x (IZR (2 * M + 1) * bpow radix2 (E - 1))) M) * bpow radix2 E)%R.
Proof.
  intros Hx HM0 HM HE Hcan Hbr.
  unfold round, scaled_mantissa. rewrite (bracket_cexp x M E) by assumption.
  unfold F2R. cbn [Fnum Fexp]. f_equal. f_equal.
  destruct (scaled_floor x M E Hbr) as (Hlo & Hhi).
  set (y := (x * bpow radix2 (- E))%R) in *.
  assert (Hfl : Zfloor y = M) by (apply Zfloor_imp; rewrite plus_IZR; split; assumption).
  rewrite mid_scaled. fold y.
  unfold Znearest. rewrite Hfl.
  destruct (Rcompare_spec (y - IZR M) (/ 2)) as [Hc|Hc|Hc]; unfold dec_of.
  - lia.
  - assert (Hce : Zceil y = M + 1).
    { apply Zceil_imp. replace (M + 1 - 1) with M by lia. rewrite plus_IZR. split; lra. }
    rewrite Hce. destruct (Z.even M); cbn [negb]; lia.
  - assert (Hce : Zceil y = M + 1).
    { apply Zceil_imp. replace (M + 1 - 1) with M by lia. rewrite plus_IZR. split; lra. }
    rewrite Hce. lia.
Qed.

(* the pair (M, E) is canonical *)
Lemma canonical_ME (M E : Z) :
  0 < M -> M < 2 ^ prec -> emin <= E -> (E = emin \/ 2 ^ (prec - 1) <= M) ->
  canonical radix2 fexp (Float radix2 M E).
Proof.
  intros HM0 HM HE Hcan. unfold canonical. cbn [Fexp]. symmetry.
  apply bracket_cexp with (M := M); try assumption; try lia.
  - apply F2R_gt_0. exact HM0.
  - unfold F2R. cbn [Fnum Fexp]. split; [apply Rle_refl|].
    apply Rmult_lt_compat_r; [apply bpow_gt_0|apply IZR_lt; lia].
Qed.

End Bracket.

(* ------------------------------------------------------------------ *)
(** * binary64: bits of a canonical pair *)
Definition enc64Z (M E : Z) : Z := if M <? 2 ^ 52 then M else (E + 1075) * 2 ^ 52 + (M - 2 ^ 52).

Lemma fexp_b64 : SpecFloat.fexp 53 1024 = FLT_exp (-1074) 53.
Proof. exact fexp64_conv. Qed.

Theorem bits_of_b64_canon : forall (f : b64) (M E : Z),
  is_finite f = true -> Bsign f = false -> B2R f = (IZR M * bpow radix2 E)%R ->
  0 <= M -> M < 2 ^ 53 -> -1074 <= E -> (E = -1074 \/ 2 ^ 52 <= M) ->
  bits_of_b64 f = Z.to_N (enc64Z M E).
Proof.
  intros f M E Hfin Hs HR HM0 HM HE Hcan.
  destruct f as [s|s| |s m e Hb]; try discriminate Hfin.
  - (* zero *)
    cbn [Bsign] in Hs. subst s. cbn [B2R] in HR.
    assert (M = 0).
    { destruct (Z.eq_dec M 0) as [H0|H0]; [exact H0|exfalso].
      assert (0 < IZR M)%R by (apply IZR_lt; lia). pose proof (bpow_gt_0 radix2 E). nra. }
    subst M. reflexivity.
  - cbn [Bsign] in Hs. subst s.
    assert (Hpos : 0 < M).
    { destruct (Z.eq_dec M 0) as [H0|H0]; [exfalso|lia]. subst M.
      cbn [B2R] in HR. rewrite Rmult_0_l in HR.
      pose proof (F2R_gt_0 radix2 (Float radix2 (Zpos m) e) ltac:(reflexivity)) as Hgt.
      cbn [cond_Zopp] in HR. lra. }
    assert (C1 : canonical radix2 (FLT_exp (-1074) 53) (Float radix2 (Zpos m) e)).
    { rewrite <- fexp_b64. apply (canonical_bounded 53 1024 false m e Hb). }
    assert (C2 : canonical radix2 (FLT_exp (-1074) 53) (Float radix2 M E)).
    { apply canonical_ME; try assumption; try lia. }
    assert (Heq : Float radix2 (Zpos m) e = Float radix2 M E).
    { apply (canonical_unique radix2 (FLT_exp (-1074) 53)); [exact C1|exact C2|].
      cbn [B2R cond_Zopp] in HR. rewrite HR. reflexivity. }
    injection Heq as HmM HeE. subst M E.
    unfold bits_of_b64, enc64Z. change (2 ^ 52) with 4503599627370496.
    destruct (Z.ltb_spec (Zpos m) 4503599627370496) as [Hlt|Hge].
    + reflexivity.
    + change (0 + Z.to_N (e + 1075) * 4503599627370496 + (N.pos m - 4503599627370496))%N
        with (Z.to_N (e + 1075) * 4503599627370496 + (N.pos m - 4503599627370496))%N.
      lia.
Qed.

(* ------------------------------------------------------------------ *)
(** * the oracle from a bracket *)
Lemma dval_pos (D e : Z) : 0 < D -> (0 < IZR D * powerRZ 10 e)%R.
Proof. intros HD. apply Rmult_lt_0_compat; [apply IZR_lt; exact HD|apply powerRZ_lt; lra]. Qed.

Theorem oracle64_bracket : forall (D e M E : Z),
  0 < D -> 0 <= M -> M < 2 ^ 53 -> -1074 <= E <= 971 -> (E = -1074 \/ 2 ^ 52 <= M) ->
  let x := (IZR D * powerRZ 10 e)%R in
  (IZR M * bpow radix2 E <= x < IZR (M + 1) * bpow radix2 E)%R ->
  bits_of_b64 (rne_decimal D e) =
  Z.to_N (enc64Z M E + dec_of (Rcompare x (IZR (2 * M + 1) * bpow radix2 (E - 1))) M).
Proof.
  intros D e M E HD HM0 HM HE Hcan x Hbr.
  assert (Hx : (0 < x)%R) by (apply dval_pos; exact HD).
  pose proof (round_NE_bracket 53 (-1074) ltac:(lia) x M E Hx HM0 HM ltac:(lia) Hcan Hbr) as HR.
  fold (RNE64 x) in HR.
  set (d := dec_of (Rcompare x (IZR (2 * M + 1) * bpow radix2 (E - 1))) M) in *.
  assert (Hd : 0 <= d <= 1) by apply dec_of_range.
  assert (P52 : 2 ^ 52 = 4503599627370496) by reflexivity.
  assert (P53 : 2 ^ 53 = 9007199254740992) by reflexivity.
  destruct (rne_decimal_cases D e ltac:(lia)) as [(Hfin & Hsg & HB & Hlt)|(Hinf & Hge)]; fold x in HB, Hlt || fold x in Hge.
  - (* finite *)
    rewrite HR in HB.
    destruct (Z.eq_dec (M + d) (2 ^ 53)) as [Hc|Hc].
    + (* carry into the next binade *)
      assert (HE' : E < 971).
      { destruct (Z.eq_dec E 971) as [->|Hne]; [exfalso|lia].
        rewrite HR, Hc in Hlt. rewrite Rabs_pos_eq in Hlt.
        - rewrite <- bpow_IZR in Hlt by lia. rewrite <- bpow_plus in Hlt. simpl (53 + 971) in Hlt. lra.
        - apply Rmult_le_pos; [apply IZR_le; lia|apply bpow_ge_0]. }
      rewrite (bits_of_b64_canon (rne_decimal D e) (2 ^ 52) (E + 1) Hfin Hsg); try lia.
      * f_equal. unfold enc64Z. rewrite P52 in *. rewrite P53 in *.
        replace (4503599627370496 <? 4503599627370496) with false by reflexivity.
        destruct (Z.ltb_spec M 4503599627370496) as [H1|H1]; lia.
      * rewrite HB, Hc. replace (2 ^ 53) with (2 ^ 52 * 2) by reflexivity.
        rewrite mult_IZR, bpow_plus. change (bpow radix2 1) with 2%R. ring.
    + rewrite (bits_of_b64_canon (rne_decimal D e) (M + d) E Hfin Hsg HB); try lia.
      f_equal. unfold enc64Z. rewrite P52 in *.
        destruct (Z.ltb_spec M 4503599627370496) as [H1|H1];
          destruct (Z.ltb_spec (M + d) 4503599627370496) as [H2|H2]; lia.
  - (* overflow *)
    rewrite Hinf. rewrite HR in Hge.
    assert (Hc : M + d = 2 ^ 53 /\ E = 971).
    { rewrite Rabs_pos_eq in Hge by (apply Rmult_le_pos; [apply IZR_le; lia|apply bpow_ge_0]).
      assert (Hle : (IZR (M + d) * bpow radix2 E <= IZR (2 ^ 53) * bpow radix2 971)%R).
      { apply Rmult_le_compat; [apply IZR_le; lia|apply bpow_ge_0|apply IZR_le; lia|apply bpow_le; lia]. }
      assert (Htop : (IZR (2 ^ 53) * bpow radix2 971 = bpow radix2 1024)%R).
      { rewrite <- bpow_IZR by lia. rewrite <- bpow_plus. reflexivity. }
      destruct (Z.eq_dec (M + d) (2 ^ 53)) as [H1|H1]; destruct (Z.eq_dec E 971) as [H2|H2]; try (split; assumption); exfalso.
      - assert (bpow radix2 E <= bpow radix2 970)%R by (apply bpow_le; lia).
        assert (bpow radix2 971 = 2 * bpow radix2 970)%R by (change 971 with (1 + 970); rewrite bpow_plus; reflexivity).
        pose proof (bpow_gt_0 radix2 970). assert (0 < IZR (2 ^ 53))%R by (apply IZR_lt; reflexivity).
        rewrite H1 in Hge. nra.
      - subst E. assert (IZR (M + d) <= IZR (2 ^ 53 - 1))%R by (apply IZR_le; lia).
        rewrite minus_IZR in H. pose proof (bpow_gt_0 radix2 971). nra.
      - assert (bpow radix2 E <= bpow radix2 970)%R by (apply bpow_le; lia).
        assert (bpow radix2 971 = 2 * bpow radix2 970)%R by (change 971 with (1 + 970); rewrite bpow_plus; reflexivity).
        pose proof (bpow_gt_0 radix2 970). assert (0 < IZR (2 ^ 53))%R by (apply IZR_lt; reflexivity).
        assert (0 <= IZR (M + d) <= IZR (2 ^ 53))%R by (split; apply IZR_le; lia). nra. }
    destruct Hc as (Hc & ->). unfold enc64Z. rewrite P52, P53 in *.
    destruct (Z.ltb_spec M 4503599627370496) as [H1|H1]; [lia|].
    cbn [bits_of_b64]. lia.
Qed.

Theorem oracle64_overflow : forall (D e : Z), 0 < D ->
  (bpow radix2 1024 <= IZR D * powerRZ 10 e)%R ->
  rne_decimal D e = B754_infinity false.
Proof.
  intros D e HD Hge. apply rne_decimal_overflow; [exact HD|].
  assert (H : (bpow radix2 1024 <= RNE64 (IZR D * powerRZ 10 e))%R).
  { apply RNE64_ge_generic; [apply format_bpow64; lia|exact Hge]. }
  rewrite Rabs_pos_eq; [exact H|]. pose proof (bpow_gt_0 radix2 1024). lra.
Qed.

(* ------------------------------------------------------------------ *)
(** * comparing D * 10^e with M * 2^E by integers *)
Definition dcmp (D e M E : Z) : comparison :=
  Z.compare (D * 10 ^ (Z.max e 0) * 2 ^ (Z.max (- E) 0)) (M * 2 ^ (Z.max E 0) * 10 ^ (Z.max (- e) 0)).

Lemma powerRZ_10_scale (e : Z) : (powerRZ 10 e * IZR (10 ^ Z.max (- e) 0) = IZR (10 ^ Z.max e 0))%R.
Proof.
  destruct (Z.le_ge_cases 0 e) as [H|H].
  - rewrite Z.max_r by lia. rewrite Z.max_l by lia. change (10 ^ 0) with 1. rewrite Rmult_1_r.
    apply powerRZ_10_nonneg. exact H.
  - rewrite Z.max_l by lia. rewrite Z.max_r by lia. change (10 ^ 0) with 1.
    replace e with (- (- e)) at 1 by lia. rewrite powerRZ_10_neg by lia.
    assert (0 < IZR (10 ^ (- e)))%R by (apply IZR_lt, pow10_pos; lia). field. lra.
Qed.

Lemma bpow_2_scale (E : Z) : (bpow radix2 E * IZR (2 ^ Z.max (- E) 0) = IZR (2 ^ Z.max E 0))%R.
Proof.
  destruct (Z.le_ge_cases 0 E) as [H|H].
  - rewrite Z.max_r by lia. rewrite Z.max_l by lia. change (2 ^ 0) with 1. rewrite Rmult_1_r.
    apply bpow_IZR. exact H.
  - rewrite Z.max_l by lia. rewrite Z.max_r by lia. change (2 ^ 0) with 1.
    rewrite <- bpow_IZR by lia. rewrite <- bpow_plus. replace (E + - E) with 0 by lia. reflexivity.
Qed.

Theorem dcmp_spec : forall D e M E : Z,
  Rcompare (IZR D * powerRZ 10 e) (IZR M * bpow radix2 E) = dcmp D e M E.
Proof.
  intros D e M E. unfold dcmp.
  set (s10 := 10 ^ Z.max (- e) 0). set (s2 := 2 ^ Z.max (- E) 0).
  assert (H10 : (0 < IZR s10)%R) by (apply IZR_lt, pow10_pos; lia).
  assert (H2 : (0 < IZR s2)%R) by (apply IZR_lt, pow2_pos; lia).
  rewrite <- (Rcompare_mult_r (IZR s10 * IZR s2)) by (apply Rmult_lt_0_compat; assumption).
  replace (IZR D * powerRZ 10 e * (IZR s10 * IZR s2))%R
    with (IZR D * (powerRZ 10 e * IZR s10) * IZR s2)%R by ring.
  replace (IZR M * bpow radix2 E * (IZR s10 * IZR s2))%R
    with (IZR M * (bpow radix2 E * IZR s2) * IZR s10)%R by ring.
  unfold s10, s2. rewrite powerRZ_10_scale, bpow_2_scale.
  rewrite <- !mult_IZR. apply Rcompare_IZR.
Qed.

Corollary dcmp_le (D e M E : Z) : dcmp D e M E <> Lt -> (IZR M * bpow radix2 E <= IZR D * powerRZ 10 e)%R.
Proof.
  intros H. rewrite <- dcmp_spec in H.
  destruct (Rcompare_spec (IZR D * powerRZ 10 e) (IZR M * bpow radix2 E)) as [Hc|Hc|Hc]; [congruence|lra|lra].
Qed.

Corollary dcmp_lt (D e M E : Z) : dcmp D e M E = Lt -> (IZR D * powerRZ 10 e < IZR M * bpow radix2 E)%R.
Proof.
  intros H. rewrite <- dcmp_spec in H.
  destruct (Rcompare_spec (IZR D * powerRZ 10 e) (IZR M * bpow radix2 E)) as [Hc|Hc|Hc]; [lra|discriminate|discriminate].
Qed.

Print Assumptions oracle64_bracket.
Print Assumptions dcmp_spec.
