(* Proofs/FloatDefault.v — property C08: f64_from_parts of the default build (no float_roundtrip).

   Contents
     A. Flocq glue: RNE64, exactness of small integers, one multiplication / division
     B. POW10 table  (Theorem POW10_EXPS_are_0_to_308, pow10_tab_correct, pow10_tab_exact_small)
     C. loop: fuel bound, finiteness and sign (f64_loop_fuel4_partial, f64_loop_finite, f64_from_parts_sane)
     D. exactness on the short-literal domain (C08_exact)
     E. zero / overflow / underflow (f64_loop_zero, f64_loop_overflow_rejects, f64_loop_underflow_zero)
   The oracle (rne_decimal_correct) and the ulp bound are in FloatOracle.v / FloatUlp.v. *)
From Coq Require Import ZArith NArith Reals Lia Lra List Bool Psatz.
From Flocq Require Import Core BinarySingleNaN.
From SJ Require Import Base.Bytes Base.FloatB Gen.Tables Model.Read Model.Num.
Open Scope Z_scope.

Notation fexp64 := (FLT_exp (-1074) 53).
Definition RNE64 (x : R) : R := round radix2 fexp64 ZnearestE x.

(* ------------------------------------------------------------------ *)
(** * A. Flocq glue *)

Lemma fexp64_conv : SpecFloat.fexp 53 1024 = fexp64.
Proof. reflexivity. Qed.

Lemma finite_not_nan (x : b64) : is_finite x = true -> is_nan x = false.
Proof. destruct x; cbn; congruence. Qed.

Lemma valid_fexp64 : Valid_exp fexp64.
Proof. apply FLT_exp_valid. reflexivity. Qed.
#[export] Existing Instance valid_fexp64.

Lemma RNE64_0 : RNE64 0 = 0%R.
Proof. unfold RNE64. apply round_0. apply valid_rnd_N. Qed.

Lemma RNE64_generic x : generic_format radix2 fexp64 x -> RNE64 x = x.
Proof. intros H. unfold RNE64. apply round_generic; [apply valid_rnd_N|exact H]. Qed.

Lemma RNE64_le x y : (x <= y)%R -> (RNE64 x <= RNE64 y)%R.
Proof. intros H. unfold RNE64. apply round_le; [apply valid_fexp64|apply valid_rnd_N|exact H]. Qed.

Lemma RNE64_format x : generic_format radix2 fexp64 (RNE64 x).
Proof. unfold RNE64. apply generic_format_round; [apply valid_fexp64|apply valid_rnd_N]. Qed.

Lemma RNE64_abs_le x y : generic_format radix2 fexp64 y -> (Rabs x <= y)%R -> (Rabs (RNE64 x) <= y)%R.
Proof. intros Hy H. unfold RNE64. apply abs_round_le_generic; [apply valid_fexp64|apply valid_rnd_N|exact Hy|exact H]. Qed.

Lemma RNE64_ge_generic x y : generic_format radix2 fexp64 x -> (x <= y)%R -> (x <= RNE64 y)%R.
Proof. intros Hx H. unfold RNE64. apply round_ge_generic; [apply valid_fexp64|apply valid_rnd_N|exact Hx|exact H]. Qed.

Lemma RNE64_le_generic x y : generic_format radix2 fexp64 y -> (x <= y)%R -> (RNE64 x <= y)%R.
Proof. intros Hx H. unfold RNE64. apply round_le_generic; [apply valid_fexp64|apply valid_rnd_N|exact Hx|exact H]. Qed.

Lemma RNE64_nonneg x : (0 <= x)%R -> (0 <= RNE64 x)%R.
Proof. intros H. apply RNE64_ge_generic; [apply generic_format_0|exact H]. Qed.

(* every m * 2^k with |m| < 2^53 and k >= -1074 is representable *)
Lemma format_mk (m k : Z) : Z.abs m < 2 ^ 53 -> -1074 <= k -> generic_format radix2 fexp64 (IZR m * bpow radix2 k).
Proof.
  intros Hm Hk. apply generic_format_FLT. exists (Float radix2 m k); cbn [Fnum Fexp].
  - unfold F2R. cbn [Fnum Fexp]. reflexivity.
  - exact Hm.
  - lia.
Qed.

Lemma format_IZR (m : Z) : Z.abs m < 2 ^ 53 -> generic_format radix2 fexp64 (IZR m).
Proof.
  intros Hm. replace (IZR m) with (IZR m * bpow radix2 0)%R by (cbn [bpow]; lra). apply format_mk; [exact Hm|lia].
Qed.

Lemma format_bpow64 (k : Z) : -1074 <= k -> generic_format radix2 fexp64 (bpow radix2 k).
Proof. intros Hk. apply generic_format_bpow. unfold FLT_exp. lia. Qed.

Lemma bpow_IZR (k : Z) : 0 <= k -> bpow radix2 k = IZR (2 ^ k).
Proof. intros Hk. rewrite <- IZR_Zpower by exact Hk. reflexivity. Qed.

(* binary_normalize / Bmult / Bdiv, specialised to binary64 and mode_NE, overflow test as a hypothesis *)
Lemma bn_correct (m e : Z) (sz : bool) :
  (Rabs (RNE64 (F2R (Float radix2 m e))) < bpow radix2 1024)%R ->
  let z := binary_normalize 53 1024 prec53_gt_0 prec53_lt_emax mode_NE m e sz in
  B2R z = RNE64 (F2R (Float radix2 m e)) /\ is_finite z = true /\
  Bsign z = match Rcompare (F2R (Float radix2 m e)) 0 with Eq => sz | Lt => true | Gt => false end.
Proof.
  intros Hlt z.
  pose proof (binary_normalize_correct 53 1024 prec53_gt_0 prec53_lt_emax mode_NE m e sz) as H.
  cbn zeta in H. cbn [round_mode] in H. rewrite fexp64_conv in H. fold (RNE64 (F2R (Float radix2 m e))) in H.
  rewrite Rlt_bool_true in H by exact Hlt. exact H.
Qed.

Lemma F2R_e0 (m : Z) : F2R (Float radix2 m 0) = IZR m.
Proof. unfold F2R. cbn [Fnum Fexp bpow]. lra. Qed.

(* b64_of_Z on naturals up to u64::MAX *)
Lemma b64_of_Z_u64 (z : Z) : 0 <= z <= Z.of_N u64_max ->
  B2R (b64_of_Z z) = RNE64 (IZR z) /\ is_finite (b64_of_Z z) = true /\ Bsign (b64_of_Z z) = false.
Proof.
  intros Hz. unfold b64_of_Z.
  assert (Hlt : (Rabs (RNE64 (F2R (Float radix2 z 0))) < bpow radix2 1024)%R).
  { rewrite F2R_e0. apply Rle_lt_trans with (bpow radix2 64); [|apply bpow_lt; lia].
    apply RNE64_abs_le; [apply format_bpow64; lia|].
    rewrite <- abs_IZR, bpow_IZR by lia. apply IZR_le. change (Z.of_N u64_max) with (2 ^ 64 - 1) in Hz. lia. }
  destruct (bn_correct z 0 false Hlt) as (H1 & H2 & H3). rewrite F2R_e0 in H1, H3.
  split; [exact H1|]. split; [exact H2|]. rewrite H3.
  destruct (Rcompare_spec (IZR z) 0) as [Hc|Hc|Hc]; try reflexivity.
  exfalso. apply (Rlt_not_le _ _ Hc). apply IZR_le. lia.
Qed.

Lemma b64_of_Z_exact (z : Z) : 0 <= z < 2 ^ 53 -> B2R (b64_of_Z z) = IZR z.
Proof.
  intros Hz. destruct (b64_of_Z_u64 z) as (H1 & _).
  { change (Z.of_N u64_max) with (2 ^ 64 - 1). assert (2 ^ 53 < 2 ^ 64 - 1) by reflexivity. lia. }
  rewrite H1. apply RNE64_generic, format_IZR. lia.
Qed.

Lemma b64_of_Z_ge1 (z : Z) : 1 <= z <= Z.of_N u64_max -> (1 <= B2R (b64_of_Z z))%R.
Proof.
  intros Hz. destruct (b64_of_Z_u64 z) as (H1 & _); [lia|]. rewrite H1.
  apply RNE64_ge_generic; [apply (format_IZR 1); reflexivity|apply IZR_le; lia].
Qed.

(* a finite float with real value 0 is a zero *)
Lemma finite_B2R_0_zero (x : b64) : is_finite x = true -> B2R x = 0%R -> b64_is_zero x = true.
Proof.
  destruct x as [s|s| |s m e Hb]; cbn [is_finite b64_is_zero B2R]; try congruence.
  intros _ H. apply eq_0_F2R in H. destruct s; discriminate H.
Qed.

Lemma zero_B2R (x : b64) : b64_is_zero x = true -> B2R x = 0%R /\ is_finite x = true.
Proof. destruct x; cbn; try discriminate. auto. Qed.

Lemma nonzero_B2R (x : b64) : is_finite x = true -> B2R x <> 0%R -> b64_is_zero x = false.
Proof. destruct x; cbn; intros H1 H2; try congruence; try reflexivity; now elim H2. Qed.

(* multiplication *)
Lemma mul_cases (x y : b64) : is_finite x = true -> is_finite y = true ->
  (b64_is_inf (b64_mul x y) = false /\ is_finite (b64_mul x y) = true /\
   B2R (b64_mul x y) = RNE64 (B2R x * B2R y) /\ Bsign (b64_mul x y) = xorb (Bsign x) (Bsign y) /\
   (Rabs (RNE64 (B2R x * B2R y)) < bpow radix2 1024)%R)
  \/ (b64_is_inf (b64_mul x y) = true /\ (bpow radix2 1024 <= Rabs (RNE64 (B2R x * B2R y)))%R).
Proof.
  intros Hx Hy. unfold b64_mul.
  pose proof (Bmult_correct 53 1024 prec53_gt_0 prec53_lt_emax mode_NE x y) as H.
  cbn [round_mode] in H. rewrite fexp64_conv in H. fold (RNE64 (B2R x * B2R y)) in H.
  destruct (Rlt_bool_spec (Rabs (RNE64 (B2R x * B2R y))) (bpow radix2 1024)) as [Hlt|Hge].
  - left. destruct H as (H1 & H2 & H3). rewrite Hx, Hy in H2. cbn [andb] in H2.
    assert (Hn := finite_not_nan _ H2).
    repeat split; [|exact H2|exact H1|exact (H3 Hn)|exact Hlt].
    destruct (Bmult mode_NE x y); cbn in H2 |- *; congruence.
  - right. split; [|exact Hge].
    destruct (Bmult mode_NE x y); cbn in H |- *; try discriminate H; reflexivity.
Qed.

Lemma mul_ok (x y : b64) : is_finite x = true -> is_finite y = true ->
  (Rabs (RNE64 (B2R x * B2R y)) < bpow radix2 1024)%R ->
  b64_is_inf (b64_mul x y) = false /\ is_finite (b64_mul x y) = true /\
  B2R (b64_mul x y) = RNE64 (B2R x * B2R y) /\ Bsign (b64_mul x y) = xorb (Bsign x) (Bsign y).
Proof.
  intros Hx Hy Hlt. destruct (mul_cases x y Hx Hy) as [(H1 & H2 & H3 & H4 & _)|(_ & Hge)]; [tauto|].
  exfalso. exact (Rlt_not_le _ _ Hlt Hge).
Qed.

(* division by something >= 1 never overflows *)
Lemma div_ok (x y : b64) : is_finite x = true -> (1 <= B2R y)%R ->
  is_finite (b64_div x y) = true /\ B2R (b64_div x y) = RNE64 (B2R x / B2R y) /\
  Bsign (b64_div x y) = xorb (Bsign x) (Bsign y).
Proof.
  intros Hx Hy. unfold b64_div.
  pose proof (Bdiv_correct 53 1024 prec53_gt_0 prec53_lt_emax mode_NE x y) as H.
  cbn [round_mode] in H. rewrite fexp64_conv in H. fold (RNE64 (B2R x / B2R y)) in H.
  specialize (H ltac:(lra)).
  assert (Hlt : (Rabs (RNE64 (B2R x / B2R y)) < bpow radix2 1024)%R).
  { apply Rle_lt_trans with (Rabs (B2R x)).
    - apply RNE64_abs_le.
      + apply generic_format_abs. rewrite <- fexp64_conv. apply generic_format_B2R.
      + unfold Rdiv. rewrite Rabs_mult. rewrite <- (Rmult_1_r (Rabs (B2R x))) at 2.
        apply Rmult_le_compat_l; [apply Rabs_pos|].
        rewrite Rabs_pos_eq by (left; apply Rinv_0_lt_compat; lra).
        rewrite <- Rinv_1. apply Rinv_le_contravar; lra.
    - apply (abs_B2R_lt_emax 53 1024). }
  rewrite Rlt_bool_true in H by exact Hlt. destruct H as (H1 & H2 & H3).
  rewrite Hx in H2. split; [exact H2|]. split; [exact H1|]. apply H3, finite_not_nan, H2.
Qed.

(* ------------------------------------------------------------------ *)
(** * B. the POW10 table *)

(* by computation: breaks if the table regenerated from the Rust source is not 1e0, 1e1, ..., 1e308 in order *)
Theorem POW10_EXPS_are_0_to_308 : POW10_EXPS = map Z.of_nat (seq 0 309).
Proof. vm_compute. reflexivity. Qed.

Lemma nth_error_seq_lt (len a n : nat) : (n < len)%nat -> nth_error (seq a len) n = Some (a + n)%nat.
Proof.
  revert a n. induction len as [|len IH]; intros a n Hn; [lia|].
  destruct n as [|n]; cbn [seq nth_error].
  - f_equal. lia.
  - rewrite IH by lia. f_equal. lia.
Qed.

Lemma nth_POW10_EXPS (n : nat) :
  nth_error POW10_EXPS n = if (n <? 309)%nat then Some (Z.of_nat n) else None.
Proof.
  rewrite POW10_EXPS_are_0_to_308.
  destruct (Nat.ltb_spec n 309) as [Hn|Hn].
  - rewrite nth_error_map, nth_error_seq_lt by exact Hn. reflexivity.
  - apply nth_error_None. rewrite map_length, seq_length. exact Hn.
Qed.

Definition p10 (i : Z) : b64 := rne_decimal 1 i.

Lemma pow10_tab_some (i : Z) : 0 <= i <= 308 -> pow10_tab i = Some (p10 i).
Proof.
  intros Hi. unfold pow10_tab.
  replace (i <? 0) with false by (symmetry; apply Z.ltb_ge; lia).
  replace (1000 <? i) with false by (symmetry; apply Z.ltb_ge; lia).
  cbn [orb]. rewrite nth_POW10_EXPS.
  replace (Z.to_nat i <? 309)%nat with true by (symmetry; apply Nat.ltb_lt; lia).
  rewrite Z2Nat.id by lia. reflexivity.
Qed.

Lemma pow10_tab_none (i : Z) : 308 < i -> pow10_tab i = None.
Proof.
  intros Hi. unfold pow10_tab. destruct ((i <? 0) || (1000 <? i)); [reflexivity|].
  rewrite nth_POW10_EXPS.
  replace (Z.to_nat i <? 309)%nat with false by (symmetry; apply Nat.ltb_ge; lia). reflexivity.
Qed.

Lemma pow10_tab_inv (i : Z) (p : b64) : 0 <= i -> pow10_tab i = Some p -> i <= 308 /\ p = p10 i.
Proof.
  intros Hi H. destruct (Z_le_gt_dec i 308) as [Hle|Hgt].
  - rewrite pow10_tab_some in H by lia. split; [exact Hle|congruence].
  - rewrite pow10_tab_none in H by lia. discriminate H.
Qed.

Lemma p10_unfold (i : Z) : 0 <= i <= 400 ->
  p10 i = binary_normalize 53 1024 prec53_gt_0 prec53_lt_emax mode_NE (10 ^ i) 0 false.
Proof.
  intros Hi. unfold p10, rne_decimal.
  change (1 <=? 0) with false. cbn match.
  replace (400 <? i) with false by (symmetry; apply Z.ltb_ge; lia).
  change (Z.log2 1) with 0.
  replace (i <? - (400 + 0)) with false by (symmetry; apply Z.ltb_ge; lia).
  replace (0 <=? i) with true by (symmetry; apply Z.leb_le; lia).
  rewrite Z.mul_1_l. reflexivity.
Qed.

Lemma pow10_le_308 (i : Z) : 0 <= i <= 308 -> 1 <= 10 ^ i <= (2 ^ 53 - 1) * 2 ^ 971.
Proof.
  intros Hi. split.
  - assert (0 < 10 ^ i) by (apply Z.pow_pos_nonneg; lia). lia.
  - apply Z.le_trans with (10 ^ 308); [apply Z.pow_le_mono_r; lia|]. apply Z.leb_le. vm_compute. reflexivity.
Qed.

Lemma max_float_format : generic_format radix2 fexp64 (IZR (2 ^ 53 - 1) * bpow radix2 971).
Proof. apply format_mk; [reflexivity|lia]. Qed.

Lemma max_float_lt : (IZR (2 ^ 53 - 1) * bpow radix2 971 < bpow radix2 1024)%R.
Proof.
  rewrite !bpow_IZR by lia. rewrite <- mult_IZR. apply IZR_lt. vm_compute. reflexivity.
Qed.

Lemma p10_props (i : Z) : 0 <= i <= 308 ->
  is_finite (p10 i) = true /\ B2R (p10 i) = RNE64 (IZR (10 ^ i)) /\ Bsign (p10 i) = false /\ (1 <= B2R (p10 i))%R.
Proof.
  intros Hi. rewrite p10_unfold by lia. destruct (pow10_le_308 i Hi) as [Hlo Hhi].
  assert (Hlt : (Rabs (RNE64 (F2R (Float radix2 (10 ^ i) 0))) < bpow radix2 1024)%R).
  { rewrite F2R_e0. apply Rle_lt_trans with (2 := max_float_lt).
    apply RNE64_abs_le; [apply max_float_format|].
    rewrite <- abs_IZR, bpow_IZR, <- mult_IZR by lia. apply IZR_le. lia. }
  destruct (bn_correct (10 ^ i) 0 false Hlt) as (H1 & H2 & H3). rewrite F2R_e0 in H1, H3.
  split; [exact H2|]. split; [exact H1|]. split.
  - rewrite H3. rewrite Rcompare_Gt; [reflexivity|]. apply IZR_lt. lia.
  - rewrite H1. apply RNE64_ge_generic; [apply (format_IZR 1); reflexivity|apply IZR_le; lia].
Qed.

Lemma powerRZ_10_nonneg (i : Z) : 0 <= i -> powerRZ 10 i = IZR (10 ^ i).
Proof.
  intros Hi. rewrite <- (Z2Nat.id i) by exact Hi. rewrite <- pow_powerRZ, pow_IZR. reflexivity.
Qed.

Lemma powerRZ_10_neg (i : Z) : 0 <= i -> powerRZ 10 (- i) = (/ IZR (10 ^ i))%R.
Proof.
  intros Hi. rewrite <- powerRZ_10_nonneg by exact Hi.
  destruct i as [|p|p]; cbn [Z.opp powerRZ]; [lra|reflexivity|lia].
Qed.

Theorem pow10_tab_correct : forall i, (0 <= i <= 308)%Z ->
  exists p, pow10_tab i = Some p /\ is_finite p = true /\ B2R p = RNE64 (powerRZ 10 i).
Proof.
  intros i Hi. exists (p10 i). split; [apply pow10_tab_some, Hi|].
  destruct (p10_props i Hi) as (H1 & H2 & _). rewrite powerRZ_10_nonneg by lia. auto.
Qed.

Lemma pow5_lt (e : Z) : 0 <= e <= 22 -> 0 < 5 ^ e < 2 ^ 53.
Proof.
  intros H. split; [apply Z.pow_pos_nonneg; lia|].
  apply Z.le_lt_trans with (5 ^ 22); [apply Z.pow_le_mono_r; lia|]. reflexivity.
Qed.

Lemma pow10_format_small (e : Z) : 0 <= e <= 22 -> generic_format radix2 fexp64 (IZR (10 ^ e)).
Proof.
  intros He.
  assert (Hsplit : IZR (10 ^ e) = (IZR (5 ^ e) * bpow radix2 e)%R).
  { change 10 with (5 * 2). rewrite Z.pow_mul_l, mult_IZR. f_equal. rewrite bpow_IZR by lia. reflexivity. }
  rewrite Hsplit. apply format_mk; [|lia]. pose proof (pow5_lt e He). lia.
Qed.

Lemma p10_exact_small (i : Z) : 0 <= i <= 22 -> B2R (p10 i) = IZR (10 ^ i).
Proof.
  intros Hi. destruct (p10_props i) as (_ & H & _); [lia|]. rewrite H.
  apply RNE64_generic, pow10_format_small, Hi.
Qed.

(* 10^i is exactly representable for i <= 22 *)
Theorem pow10_tab_exact_small : forall i, (0 <= i <= 22)%Z ->
  exists p, pow10_tab i = Some p /\ B2R p = powerRZ 10 i.
Proof.
  intros i Hi. exists (p10 i). split; [apply pow10_tab_some; lia|].
  rewrite powerRZ_10_nonneg by lia. apply p10_exact_small, Hi.
Qed.

(* ------------------------------------------------------------------ *)
(** * C. the loop: fuel, finiteness, sign *)

Notation P308 := (p10 308).

Lemma f64_loop_S (fu : nat) (f : b64) (e : Z) :
  f64_loop (S fu) f e =
  match pow10_tab (Z.abs e) with
  | Some p => if 0 <=? e then (let f' := b64_mul f p in if b64_is_inf f' then Ok None else Ok (Some f'))
              else Ok (Some (b64_div f p))
  | None => if b64_is_zero f then Ok (Some f) else if 0 <=? e then Ok None
            else f64_loop fu (b64_div f P308) (e + 308)
  end.
Proof. reflexivity. Qed.

Lemma P308_ge : (bpow radix2 1023 <= B2R P308)%R.
Proof.
  destruct (p10_props 308) as (_ & H & _); [lia|]. rewrite H.
  apply RNE64_ge_generic; [apply format_bpow64; lia|].
  rewrite bpow_IZR by lia. apply IZR_le. apply Z.leb_le. vm_compute. reflexivity.
Qed.

Lemma P308_ge1 : (1 <= B2R P308)%R.
Proof. apply (p10_props 308). lia. Qed.

Lemma RNE64_tiny (x : R) : (Rabs x < bpow radix2 (-1075))%R -> RNE64 x = 0%R.
Proof.
  intros Hx. destruct (Req_dec x 0) as [->|Hnz]; [apply RNE64_0|].
  destruct (mag radix2 x) as [ex Hex]. specialize (Hex Hnz).
  unfold RNE64. apply round_N_small with (ex := ex); [exact Hex|].
  assert (ex - 1 < -1075). { apply (lt_bpow radix2). apply Rle_lt_trans with (Rabs x); tauto. }
  unfold FLT_exp. lia.
Qed.

(* one division by 1e308 scales a bound 2^k down to 2^(k-1023) *)
Lemma div308_shrink (f : b64) (k : Z) : is_finite f = true -> (Rabs (B2R f) <= bpow radix2 k)%R ->
  (Rabs (B2R f / B2R P308) <= bpow radix2 (k - 1023))%R.
Proof.
  intros Hf Hk. pose proof P308_ge as HP. pose proof (bpow_gt_0 radix2 1023) as Hp.
  unfold Rdiv. rewrite Rabs_mult, Rabs_inv. rewrite (Rabs_pos_eq (B2R P308)) by lra.
  unfold Z.sub. rewrite bpow_plus, bpow_opp.
  apply Rmult_le_compat; [apply Rabs_pos|left; apply Rinv_0_lt_compat; lra|exact Hk|].
  apply Rinv_le_contravar; lra.
Qed.

Lemma div308_shrink_B2R (f : b64) (k : Z) : is_finite f = true -> (Rabs (B2R f) <= bpow radix2 k)%R ->
  -1074 <= k - 1023 ->
  is_finite (b64_div f P308) = true /\ (Rabs (B2R (b64_div f P308)) <= bpow radix2 (k - 1023))%R.
Proof.
  intros Hf Hk Hr. destruct (div_ok f P308 Hf P308_ge1) as (H1 & H2 & _). split; [exact H1|].
  rewrite H2. apply RNE64_abs_le; [apply format_bpow64; lia|]. apply div308_shrink; assumption.
Qed.

(* three divisions by 1e308 flush every finite f64 to zero *)
Lemma div308_three_zero (f : b64) : is_finite f = true ->
  b64_is_zero (b64_div (b64_div (b64_div f P308) P308) P308) = true.
Proof.
  intros Hf.
  assert (H0 : (Rabs (B2R f) <= bpow radix2 1024)%R) by (left; apply (abs_B2R_lt_emax 53 1024)).
  destruct (div308_shrink_B2R f 1024 Hf H0) as (Hf1 & H1); [lia|].
  destruct (div308_shrink_B2R _ (1024 - 1023) Hf1 H1) as (Hf2 & H2); [lia|].
  destruct (div_ok _ P308 Hf2 P308_ge1) as (Hf3 & H3 & _).
  apply finite_B2R_0_zero; [exact Hf3|]. rewrite H3. apply RNE64_tiny.
  apply Rle_lt_trans with (1 := div308_shrink _ _ Hf2 H2). apply bpow_lt. lia.
Qed.

Lemma f64_loop_fuel_step (fu : nat) (f : b64) (e : Z) :
  f64_loop (S fu) f e = OutOfFuel ->
  b64_is_zero f = false /\ f64_loop fu (b64_div f P308) (e + 308) = OutOfFuel.
Proof.
  rewrite f64_loop_S. destruct (pow10_tab (Z.abs e)) as [p|].
  - destruct (0 <=? e); [|discriminate]. cbn zeta. destruct (b64_is_inf (b64_mul f p)); discriminate.
  - destruct (b64_is_zero f); [discriminate|]. destruct (0 <=? e); [discriminate|]. auto.
Qed.

(* COUNTEREXAMPLE to the task's statement (hypothesis `is_nan f = false` only):
   f = +inf, e = -10000 runs forever, e.g. f64_loop 10 (B754_infinity false) (-10000) = OutOfFuel.
   The loop variable f comes from `significand as f64`, which is finite; with that hypothesis fuel 4 suffices. *)
Example f64_loop_fuel_inf_counterexample : f64_loop 10 (B754_infinity false) (-10000) = OutOfFuel.
Proof. vm_compute. reflexivity. Qed.

Theorem f64_loop_fuel4_partial : forall f e, is_finite f = true -> f64_loop 4 f e <> OutOfFuel.
Proof.
  intros f e Hf H.
  apply f64_loop_fuel_step in H. destruct H as (_ & H).
  apply f64_loop_fuel_step in H. destruct H as (_ & H).
  apply f64_loop_fuel_step in H. destruct H as (_ & H).
  apply f64_loop_fuel_step in H. destruct H as (H & _).
  rewrite div308_three_zero in H by exact Hf. discriminate H.
Qed.

Lemma f64_loop_finite_gen (fuel : nat) : forall f e o, is_finite f = true -> Bsign f = false ->
  f64_loop fuel f e = Ok (Some o) -> is_finite o = true /\ Bsign o = false.
Proof.
  induction fuel as [|fu IH]; intros f e o Hf Hs H; [discriminate H|].
  rewrite f64_loop_S in H. destruct (pow10_tab (Z.abs e)) as [p|] eqn:Hp.
  - apply pow10_tab_inv in Hp; [|lia]. destruct Hp as (Hi & ->).
    destruct (p10_props (Z.abs e)) as (Hpf & _ & Hps & Hp1); [lia|].
    destruct (0 <=? e).
    + cbn zeta in H. destruct (mul_cases f _ Hf Hpf) as [(Hi0 & Hfin & _ & Hsg & _)|(Hi1 & _)].
      * rewrite Hi0 in H. injection H as <-. split; [exact Hfin|]. rewrite Hsg, Hs, Hps. reflexivity.
      * rewrite Hi1 in H. discriminate H.
    + injection H as <-. destruct (div_ok f _ Hf Hp1) as (Hfin & _ & Hsg).
      split; [exact Hfin|]. rewrite Hsg, Hs, Hps. reflexivity.
  - destruct (b64_is_zero f).
    + injection H as <-. auto.
    + destruct (0 <=? e); [discriminate H|].
      destruct (div_ok f P308 Hf P308_ge1) as (Hfin & _ & Hsg).
      apply (IH _ _ _ Hfin) in H; [exact H|].
      rewrite Hsg, Hs. apply (p10_props 308). lia.
Qed.

Theorem f64_loop_finite : forall fuel sig e o, (sig <= u64_max)%N ->
  f64_loop fuel (b64_of_Z (Z.of_N sig)) e = Ok (Some o) -> is_finite o = true /\ Bsign o = false.
Proof.
  intros fuel sig e o Hsig H.
  destruct (b64_of_Z_u64 (Z.of_N sig)) as (_ & Hf & Hs); [lia|].
  exact (f64_loop_finite_gen fuel _ _ _ Hf Hs H).
Qed.

Theorem f64_from_parts_sane : forall E positive sig e s f s', float_roundtrip (cf E) = false -> (sig <= u64_max)%N ->
  f64_from_parts E positive sig e s = Ok (f, s') -> is_finite f = true /\ Bsign f = negb positive /\ s' = s.
Proof.
  intros E positive sig e s f s' Hfr Hsig H. unfold f64_from_parts in H. rewrite Hfr in H.
  destruct (f64_loop 4 (b64_of_Z (Z.of_N sig)) e) as [[o|]| | |] eqn:Hl; cbn [bind] in H; try discriminate H.
  apply f64_loop_finite in Hl; [|exact Hsig]. destruct Hl as (Hfin & Hsg).
  injection H as <- <-. split; [|split; [|reflexivity]].
  - destruct positive; [exact Hfin|]. unfold b64_neg. rewrite is_finite_Bopp. exact Hfin.
  - destruct positive; [exact Hsg|]. unfold b64_neg. rewrite Bsign_Bopp by (apply finite_not_nan, Hfin).
    rewrite Hsg. reflexivity.
Qed.

Lemma f64_loop_shape (n : nat) : forall f e,
  match f64_loop n f e with Ok _ | OutOfFuel => True | Err _ _ | Panic => False end.
Proof.
  induction n as [|n IH]; intros f e; [exact I|].
  rewrite f64_loop_S. destruct (pow10_tab (Z.abs e)) as [p|].
  - destruct (0 <=? e); [|exact I]. cbn zeta. destruct (b64_is_inf (b64_mul f p)); exact I.
  - destruct (b64_is_zero f); [exact I|]. destruct (0 <=? e); [exact I|]. apply IH.
Qed.

(* the default build never raises anything but NumberOutOfRange here, and never runs out of fuel *)
Theorem f64_from_parts_total : forall E positive sig e s, float_roundtrip (cf E) = false -> (sig <= u64_max)%N ->
  (exists f, f64_from_parts E positive sig e s = Ok (f, s)) \/
  f64_from_parts E positive sig e s = peek_error E s NumberOutOfRange.
Proof.
  intros E positive sig e s Hfr Hsig. unfold f64_from_parts. rewrite Hfr.
  destruct (b64_of_Z_u64 (Z.of_N sig)) as (_ & Hf & Hs); [lia|].
  pose proof (f64_loop_fuel4_partial _ e Hf) as Hfuel.
  pose proof (f64_loop_shape 4 (b64_of_Z (Z.of_N sig)) e) as Hshape.
  destruct (f64_loop 4 (b64_of_Z (Z.of_N sig)) e) as [[o|]|c i| |]; cbn [bind].
  - left. eexists. reflexivity.
  - right. reflexivity.
  - elim Hshape.
  - now elim Hfuel.
  - elim Hshape.
Qed.

(* ------------------------------------------------------------------ *)
(** * D. exactness on the short-literal domain: sig < 2^53 (covers every literal of at most 15 digits), |e| <= 22 *)

Lemma pow10_bounds_small (e : Z) : 0 <= e <= 22 -> 1 <= 10 ^ e <= 10 ^ 22.
Proof.
  intros He. split; [|apply Z.pow_le_mono_r; lia].
  assert (0 < 10 ^ e) by (apply Z.pow_pos_nonneg; lia). lia.
Qed.

Theorem C08_exact : forall sig e, (Z.of_N sig < 2 ^ 53)%Z -> (-22 <= e <= 22)%Z ->
  exists f, f64_loop 4 (b64_of_Z (Z.of_N sig)) e = Ok (Some f) /\ is_finite f = true /\
            B2R f = RNE64 (IZR (Z.of_N sig) * powerRZ 10 e).
Proof.
  intros sig e Hsig He. set (z := Z.of_N sig) in *. assert (Hz : 0 <= z) by (unfold z; lia).
  destruct (b64_of_Z_u64 z) as (_ & Hf & _).
  { change (Z.of_N u64_max) with (2 ^ 64 - 1). assert (2 ^ 53 < 2 ^ 64 - 1) by reflexivity. lia. }
  pose proof (b64_of_Z_exact z ltac:(lia)) as Hx.
  assert (Ha : 0 <= Z.abs e <= 22) by lia.
  rewrite f64_loop_S, pow10_tab_some by lia.
  destruct (p10_props (Z.abs e)) as (Hpf & _ & _ & Hp1); [lia|].
  pose proof (p10_exact_small _ Ha) as Hy. pose proof (pow10_bounds_small _ Ha) as Hb.
  destruct (Z.leb_spec 0 e) as [Hpos|Hneg].
  - rewrite Z.abs_eq in * by lia. cbn zeta.
    destruct (mul_ok (b64_of_Z z) (p10 e) Hf Hpf) as (Hni & Hfin & HR & _).
    { rewrite Hx, Hy. apply Rle_lt_trans with (bpow radix2 127); [|apply bpow_lt; lia].
      apply RNE64_abs_le; [apply format_bpow64; lia|].
      rewrite <- mult_IZR, <- abs_IZR, bpow_IZR by lia. apply IZR_le.
      rewrite Z.abs_eq by nia. apply Z.le_trans with (2 ^ 53 * 10 ^ 22); [nia|].
      apply Z.leb_le. vm_compute. reflexivity. }
    rewrite Hni. eexists. split; [reflexivity|]. split; [exact Hfin|].
    rewrite HR, Hx, Hy, powerRZ_10_nonneg by lia. reflexivity.
  - destruct (div_ok (b64_of_Z z) (p10 (Z.abs e)) Hf Hp1) as (Hfin & HR & _).
    eexists. split; [reflexivity|]. split; [exact Hfin|].
    rewrite HR, Hx, Hy. replace e with (- Z.abs e) at 2 by lia.
    rewrite powerRZ_10_neg by lia. reflexivity.
Qed.

(* the same through f64_from_parts, sign included *)
Lemma RNE64_opp (x : R) : RNE64 (- x) = (- RNE64 x)%R.
Proof. unfold RNE64. apply round_NE_opp. Qed.

Theorem C08_exact_from_parts : forall E positive sig e s, float_roundtrip (cf E) = false ->
  (Z.of_N sig < 2 ^ 53)%Z -> (-22 <= e <= 22)%Z ->
  exists f, f64_from_parts E positive sig e s = Ok (f, s) /\ is_finite f = true /\ Bsign f = negb positive /\
            B2R f = RNE64 ((if positive then IZR (Z.of_N sig) else - IZR (Z.of_N sig)) * powerRZ 10 e).
Proof.
  intros E positive sig e s Hfr Hsig He.
  destruct (C08_exact sig e Hsig He) as (f & Hl & Hfin & HR).
  assert (Hu : (sig <= u64_max)%N).
  { change u64_max with (Z.to_N (2 ^ 64 - 1)). assert (2 ^ 53 < 2 ^ 64 - 1) by reflexivity. lia. }
  assert (Hfp : f64_from_parts E positive sig e s = Ok (if positive then f else b64_neg f, s)).
  { unfold f64_from_parts. rewrite Hfr, Hl. reflexivity. }
  eexists. split; [exact Hfp|].
  destruct (f64_from_parts_sane _ _ _ _ _ _ _ Hfr Hu Hfp) as (H1 & H2 & _).
  split; [exact H1|]. split; [exact H2|].
  destruct positive; [exact HR|]. unfold b64_neg. rewrite B2R_Bopp, HR, <- RNE64_opp. f_equal. lra.
Qed.

(* ------------------------------------------------------------------ *)
(** * E. zero significand, overflow, deep underflow *)

Lemma f64_loop_zero_gen (fuel : nat) (f : b64) (e : Z) : b64_is_zero f = true ->
  exists z, f64_loop (S fuel) f e = Ok (Some z) /\ B2R z = 0%R /\ is_finite z = true.
Proof.
  intros Hz. destruct (zero_B2R f Hz) as (H0 & Hf).
  rewrite f64_loop_S. destruct (pow10_tab (Z.abs e)) as [p|] eqn:Hp.
  - apply pow10_tab_inv in Hp; [|lia]. destruct Hp as (Hi & ->).
    destruct (p10_props (Z.abs e)) as (Hpf & _ & _ & Hp1); [lia|].
    destruct (0 <=? e).
    + cbn zeta. destruct (mul_ok f _ Hf Hpf) as (Hni & Hfin & HR & _).
      { rewrite H0, Rmult_0_l, RNE64_0, Rabs_R0. apply bpow_gt_0. }
      rewrite Hni. eexists. split; [reflexivity|]. split; [|exact Hfin].
      rewrite HR, H0, Rmult_0_l. apply RNE64_0.
    + destruct (div_ok f _ Hf Hp1) as (Hfin & HR & _).
      eexists. split; [reflexivity|]. split; [|exact Hfin].
      rewrite HR, H0. unfold Rdiv. rewrite Rmult_0_l. apply RNE64_0.
  - rewrite Hz. exists f. auto.
Qed.

(* zero significand: any exponent gives 0, never an error (in the e >= 309 branch `f == 0.0` breaks before the range error) *)
Theorem f64_loop_zero : forall fuel e, exists z, f64_loop (S fuel) (b64_of_Z 0) e = Ok (Some z) /\ B2R z = 0%R.
Proof.
  intros fuel e. destruct (f64_loop_zero_gen fuel (b64_of_Z 0) e) as (z & H1 & H2 & _); [reflexivity|].
  exists z. auto.
Qed.

Theorem f64_loop_overflow_rejects : forall sig e, (0 < sig)%N -> (sig <= u64_max)%N -> (309 <= e)%Z ->
  f64_loop 4 (b64_of_Z (Z.of_N sig)) e = Ok None.
Proof.
  intros sig e Hpos Hsig He.
  destruct (b64_of_Z_u64 (Z.of_N sig)) as (_ & Hf & _); [lia|].
  pose proof (b64_of_Z_ge1 (Z.of_N sig) ltac:(lia)) as H1.
  rewrite f64_loop_S, pow10_tab_none by lia.
  rewrite nonzero_B2R by (try exact Hf; lra).
  replace (0 <=? e) with true by (symmetry; apply Z.leb_le; lia). reflexivity.
Qed.

Lemma f64_loop_under_step (fu : nat) (f : b64) (e : Z) : e < -308 ->
  f64_loop (S fu) f e = if b64_is_zero f then Ok (Some f) else f64_loop fu (b64_div f P308) (e + 308).
Proof.
  intros He. rewrite f64_loop_S, pow10_tab_none by lia.
  replace (0 <=? e) with false by (symmetry; apply Z.leb_gt; lia). reflexivity.
Qed.

(* general form: any finite f, e <= -925 (three table misses: -925 + 3 * 308 = -1 ... the fourth round sees a zero) *)
Lemma f64_loop_underflow_gen (f : b64) (e : Z) : is_finite f = true -> e <= -925 ->
  exists z, f64_loop 4 f e = Ok (Some z) /\ B2R z = 0%R.
Proof.
  intros Hf He.
  rewrite f64_loop_under_step by lia.
  destruct (b64_is_zero f) eqn:Hz0; [exists f; split; [reflexivity|apply zero_B2R, Hz0]|].
  rewrite f64_loop_under_step by lia.
  destruct (b64_is_zero (b64_div f P308)) eqn:Hz1; [eexists; split; [reflexivity|apply zero_B2R, Hz1]|].
  rewrite f64_loop_under_step by lia.
  destruct (b64_is_zero (b64_div (b64_div f P308) P308)) eqn:Hz2; [eexists; split; [reflexivity|apply zero_B2R, Hz2]|].
  destruct (f64_loop_zero_gen 0 _ (e + 308 + 308 + 308) (div308_three_zero f Hf)) as (z & H1 & H2 & _).
  exists z. auto.
Qed.

Theorem f64_loop_underflow_zero : forall sig e, (sig <= u64_max)%N -> (e <= -1000)%Z ->
  exists z, f64_loop 4 (b64_of_Z (Z.of_N sig)) e = Ok (Some z) /\ B2R z = 0%R.
Proof.
  intros sig e Hsig He.
  destruct (b64_of_Z_u64 (Z.of_N sig)) as (_ & Hf & _); [lia|].
  apply f64_loop_underflow_gen; [exact Hf|lia].
Qed.

(* ------------------------------------------------------------------ *)
Print Assumptions POW10_EXPS_are_0_to_308.
Print Assumptions pow10_tab_correct.
Print Assumptions pow10_tab_exact_small.
Print Assumptions f64_loop_fuel4_partial.
Print Assumptions f64_loop_finite.
Print Assumptions f64_from_parts_sane.
Print Assumptions f64_from_parts_total.
Print Assumptions C08_exact.
Print Assumptions C08_exact_from_parts.
Print Assumptions f64_loop_zero.
Print Assumptions f64_loop_overflow_rejects.
Print Assumptions f64_loop_underflow_zero.
