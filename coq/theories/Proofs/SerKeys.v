(* Proofs/SerKeys.v — the two map-key serializers as TRANSLATED ON THIS RUN (Gen/KeyTables.v, tools/translate_keys.py):
   (i)  both classify each of the 31 Serializer methods identically — the theorem form of finding F5 (to_value rejected Some(key) where to_string
        forwarded it): "both reject the same non-string map keys" holds method by method;
   (ii) the models Ser.key_ser and ValueSer.key_string do, on every node of the call tree, what the tables say. *)
From SJ Require Import Base.Bytes Base.Utf8 Model.Read Model.Num Model.Sval Model.Ser Model.ValueSer Model.KeyAst Gen.KeyTables.
Open Scope N_scope.

Definition all_methods : list kmethod :=
  [m_str; m_unit_variant; m_newtype_struct; m_bool; m_i8; m_i16; m_i32; m_i64; m_i128; m_u8; m_u16; m_u32; m_u64; m_u128; m_f32; m_f64; m_char;
   m_bytes; m_unit; m_unit_struct; m_newtype_variant; m_none; m_some; m_seq; m_tuple; m_tuple_struct; m_tuple_variant; m_map; m_struct;
   m_struct_variant; m_collect_str].

Lemma all_methods_complete : forall m, In m all_methods.
Proof. intros m; destruct m; cbn; tauto. Qed.

Definition kclass_eqb (a b : option kclass) : bool :=
  match a, b with
  | Some KAsStr, Some KAsStr | Some KDelegate, Some KDelegate | Some KQuotedBool, Some KQuotedBool | Some KQuotedInt, Some KQuotedInt
  | Some KQuotedFloat, Some KQuotedFloat | Some KReject, Some KReject | Some KCollect, Some KCollect => true
  | _, _ => false
  end.
Lemma kclass_eqb_eq a b : kclass_eqb a b = true -> a = b /\ a <> None.
Proof. destruct a as [[]|], b as [[]|]; cbn; intros H; try discriminate; split; try reflexivity; discriminate. Qed.

(* (i) the two serializers treat every method alike, and every method has an entry *)
Theorem key_tables_agree : forall m, klookup KEY_TEXT m = klookup KEY_VALUE m /\ klookup KEY_TEXT m <> None.
Proof.
  assert (H : forallb (fun m => kclass_eqb (klookup KEY_TEXT m) (klookup KEY_VALUE m)) all_methods = true) by (vm_compute; reflexivity).
  intros m. rewrite forallb_forall in H. exact (kclass_eqb_eq _ _ (H m (all_methods_complete m))).
Qed.

(* (ii) the models are the tables' meaning *)
Theorem key_ser_is_table : forall fmt32 fmt64 k,
  key_ser fmt32 fmt64 k = text_meaning fmt32 fmt64 (key_ser fmt32 fmt64) (klookup KEY_TEXT (method_of k)) k.
Proof. intros fmt32 fmt64 k. destruct k as [b|ty z|bits|bits|c|s|s| |v| | |n|v|n v|h es|es|es|n es|h kvs|fs|n fs|ch|l]; try destruct ty; reflexivity. Qed.

Theorem key_string_is_table : forall fmt32 fmt64 k,
  key_string fmt32 fmt64 k = value_meaning fmt32 fmt64 (key_string fmt32 fmt64) (klookup KEY_VALUE (method_of k)) k.
Proof. intros fmt32 fmt64 k. destruct k as [b|ty z|bits|bits|c|s|s| |v| | |n|v|n v|h es|es|es|n es|h kvs|fs|n fs|ch|l]; try destruct ty; reflexivity. Qed.

(* consequence, straight from the translated sources: the two serializers reject exactly the same keys at the top node *)
Corollary key_rejection_same_methods : forall m,
  klookup KEY_TEXT m = Some KReject <-> klookup KEY_VALUE m = Some KReject.
Proof. intros m. destruct (key_tables_agree m) as [H _]. rewrite H. tauto. Qed.

Print Assumptions key_tables_agree.
Print Assumptions key_ser_is_table.
Print Assumptions key_string_is_table.
