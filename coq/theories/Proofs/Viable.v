(* Proofs/Viable.v — C11 converse: an Eof-category error means the input is a viable prefix (Value target, slice input).

   C11_eof_viable_grammar   if from_input fails on p with an Eof-category code, p is valid UTF-8 up to an incomplete final
                            sequence ([utf8_prefix]) and does not end inside a \u escape that is already hopeless
                            ([esc_tail_ok]), then some continuation p ++ t is a JSON text: RFC 8259 grammar, strings UTF-8
                            with paired surrogates, nesting within the limit  (= InLang of the arbitrary_precision build,
                            where no number is out of range).
   C11_eof_viable_partial   under the additional number-range condition [HRnum] (void under arbitrary_precision; otherwise it
                            only concerns inputs ending in e+ / E+ after a mantissa that is itself out of range),
                            p ++ t is accepted by the parser itself: from_input (p ++ t) = Ok v.
   C11_eof_viable_ap, C11_eof_viable_no_exp_plus   the two simple ways to discharge [HRnum].

   The unrestricted statement is false; the examples at the end exhibit one input for each excluded class. *)
From Coq Require Import List NArith ZArith Bool Arith Lia ZifyBool ZifyNat ZifyN.
From SJ Require Import Base.Bytes Base.Utf8 Base.FloatB Gen.Tables Model.Read Model.Str Model.Num Model.Value Model.De
  Spec.Syntax Spec.Denote.
From SJ Require Import Proofs.Utf8Lemmas Proofs.GrammarStr Proofs.GrammarNum Proofs.GrammarValueBase Proofs.GrammarFinal
  Proofs.ViableBase Proofs.ViableStr Proofs.ViableNum Proofs.ViableDe.
Import ListNotations.
Open Scope N_scope.

Local Notation SE cf := (mkEnv RSlice TEof cf).

(* ---- the side conditions ---------------------------------------------------------------------- *)
(* p is valid UTF-8 up to an incomplete final sequence: some continuation bytes (0x80..0xBF) make it valid *)
Definition utf8_prefix (p : bytes) : Prop :=
  exists cmp, forallb is_cont cmp = true /\ utf8_valid (p ++ cmp) = true.

(* if p (lexed as JSON: string literals, escapes) ends inside a \u escape, that escape can still be completed:
   its digits so far are hex digits; a first escape does not start with dc..df (it would be a lone low surrogate
   whatever follows); the escape after a high surrogate can still become a low surrogate *)
Definition esc_tail_ok (p : bytes) : bool := lex_ok (lex LOut p).

(* the same configuration with arbitrary_precision switched on: numbers keep their text, none is out of range *)
Definition cf_ap (cf : cfg) : cfg := mkCfg (preserve_order cf) (float_roundtrip cf) true (limit_disabled cf).

(* ---- instantiating the generic theorem ---------------------------------------------------------- *)
Lemma num_defd_ap cf n : num_ok n = true -> defd (cf_ap cf) (CNum n) = true.
Proof.
  intros Hok. rewrite defd_num. unfold num_den.
  destruct (number_ap_verbatim (env0 (cf_ap cf)) (negb (nneg n)) n eq_refl eq_refl Hok) as (p & s' & H & _).
  rewrite H. reflexivity.
Qed.

Lemma ap_mono_all cf :
  (forall c, wfb c = true -> defd cf c = true -> defd (cf_ap cf) c = true) /\
  (forall es, wfb_elems es = true -> defd_elems cf es = true -> defd_elems (cf_ap cf) es = true) /\
  (forall ms, wfb_members ms = true -> defd_members cf ms = true -> defd_members (cf_ap cf) ms = true).
Proof.
  apply cst_elems_members_ind.
  - reflexivity.
  - reflexivity.
  - reflexivity.
  - intros n Hwf _. apply num_defd_ap. exact Hwf.
  - intros s _ Hd. rewrite defd_str in *. exact Hd.
  - intros w es IH Hwf Hd. cbn [wfb] in Hwf. apply andb_prop in Hwf as [_ Hes]. rewrite defd_arr in *. exact (IH Hes Hd).
  - intros w ms IH Hwf Hd. cbn [wfb] in Hwf. apply andb_prop in Hwf as [_ Hms]. rewrite defd_obj in *. exact (IH Hms Hd).
  - reflexivity.
  - intros w1 c IHc w2 rest IHr Hwf Hd. cbn [wfb_elems] in Hwf.
    apply andb_prop in Hwf as [Hwf Hrest]. apply andb_prop in Hwf as [Hwf _]. apply andb_prop in Hwf as [_ Hc].
    rewrite defd_econs in *. apply andb_prop in Hd as [Hdc Hdr]. rewrite (IHc Hc Hdc), (IHr Hrest Hdr). reflexivity.
  - reflexivity.
  - intros w1 k w2 w3 c IHc w4 rest IHr Hwf Hd. cbn [wfb_members] in Hwf.
    apply andb_prop in Hwf as [Hwf Hrest]. apply andb_prop in Hwf as [Hwf _]. apply andb_prop in Hwf as [Hwf Hc].
    rewrite defd_mcons in *. apply andb_prop in Hd as [Hd Hdr]. apply andb_prop in Hd as [Hdk Hdc].
    rewrite Hdk, (IHc Hc Hdc), (IHr Hrest Hdr). reflexivity.
Qed.

Lemma leaf_ap cf : forall positive s c i,
  parse_any_number (SE cf) positive s = Err c i -> category c = CatEof -> True ->
  exists t n, num_ok n = true /\ nneg n = negb positive /\ rest s ++ t = render_abs n /\ defd (cf_ap cf) (CNum n) = true.
Proof.
  intros positive s c i H Hc _. destruct (number_eof_viable cf positive s c i H Hc) as (t & n & Hok & Hneg & Hren & _).
  exists t, n. repeat split; try assumption. apply num_defd_ap, Hok.
Qed.

Lemma leaf_same cf : forall positive s c i,
  parse_any_number (SE cf) positive s = Err c i -> category c = CatEof -> HRnum cf (rest s) ->
  exists t n, num_ok n = true /\ nneg n = negb positive /\ rest s ++ t = render_abs n /\ defd cf (CNum n) = true.
Proof.
  intros positive s c i H Hc HR. destruct (number_eof_viable cf positive s c i H Hc) as (t & n & Hok & Hneg & Hren & Hacc).
  exists t, n. repeat split; try assumption. destruct (Hacc HR) as (p & s' & Hrun).
  rewrite defd_num. unfold num_den. rewrite Hneg, negb_involutive. change (env0 cf) with (SE cf). rewrite Hrun. reflexivity.
Qed.

Lemma Inv_intro cmp (HR : bytes -> Prop) p : conts cmp -> utf8_valid (p ++ cmp) = true -> HR p -> esc_tail_ok p = true -> Inv cmp HR p.
Proof.
  intros Hcmp Hv Hr Hl. split; [|split; [|split]].
  - apply utf8_valid_bytes in Hv. apply Forall_app in Hv. apply Hv.
  - exists []. exact Hv.
  - exact Hr.
  - exact Hl.
Qed.

(* ---- the theorems --------------------------------------------------------------------------------- *)
Theorem C11_eof_viable_grammar : forall cf p c i,
  from_input (SE cf) p = Err c i -> category c = CatEof ->
  utf8_prefix p -> esc_tail_ok p = true ->
  exists t, InLang (cf_ap cf) (p ++ t).
Proof.
  intros cf p c i H Hc (cmp & Hcmp & Hv) Hl.
  apply (viable_generic cf (cf_ap cf) eq_refl cmp Hcmp (fun _ => True) (fun _ _ _ => I)
           (proj1 (ap_mono_all cf)) (leaf_ap cf) p c i H Hc).
  apply Inv_intro; auto.
Qed.

Theorem C11_eof_viable_partial : forall cf p c i,
  from_input (SE cf) p = Err c i -> category c = CatEof ->
  utf8_prefix p -> esc_tail_ok p = true -> HRnum cf p ->
  exists t, InLang cf (p ++ t) /\ exists v, from_input (SE cf) (p ++ t) = Ok v.
Proof.
  intros cf p c i H Hc (cmp & Hcmp & Hv) Hl Hr.
  destruct (viable_generic cf cf eq_refl cmp Hcmp (HRnum cf) (HRnum_suffix cf)
              (fun c _ H => H) (leaf_same cf) p c i H Hc) as (t & Hlang).
  { apply Inv_intro; auto. }
  exists t. split; [exact Hlang|].
  destruct Hlang as (w1 & cst & w2 & H1 & H2 & H3 & H4 & (v & H5) & H6).
  exists v. apply value_complete_slice. exists w1, cst, w2. repeat split; assumption.
Qed.

(* under arbitrary_precision no number condition is needed *)
Corollary C11_eof_viable_ap : forall cf p c i, arbitrary_precision cf = true ->
  from_input (SE cf) p = Err c i -> category c = CatEof -> utf8_prefix p -> esc_tail_ok p = true ->
  exists t v, from_input (SE cf) (p ++ t) = Ok v.
Proof.
  intros cf p c i Hap H Hc Hu Hl.
  destruct (C11_eof_viable_partial cf p c i H Hc Hu Hl (or_introl Hap)) as (t & _ & v & Hv). eauto.
Qed.

(* nor when the input does not end in e+ / E+ *)
Definition ends_exp_plus (p : bytes) : Prop := exists m x, p = m ++ [x; 43] /\ ((x =? 101) || (x =? 69)) = true.

Lemma not_bad cf p : ~ ends_exp_plus p -> ~ Bad cf p.
Proof.
  intros Hn (a & lit & pos & j & -> & (m & x & -> & Hx) & _). apply Hn. exists (a ++ m), x. rewrite app_assoc. auto.
Qed.

Corollary C11_eof_viable_no_exp_plus : forall cf p c i, ~ ends_exp_plus p ->
  from_input (SE cf) p = Err c i -> category c = CatEof -> utf8_prefix p -> esc_tail_ok p = true ->
  exists t v, from_input (SE cf) (p ++ t) = Ok v.
Proof.
  intros cf p c i Hn H Hc Hu Hl.
  destruct (C11_eof_viable_partial cf p c i H Hc Hu Hl (or_intror (not_bad cf p Hn))) as (t & _ & v & Hv). eauto.
Qed.

(* ASCII input: the UTF-8 condition is void *)
Lemma ascii_utf8_prefix p : forallb (fun b => b <? 128) p = true -> utf8_prefix p.
Proof.
  intros H. exists []. split; [reflexivity|]. rewrite app_nil_r. apply ascii_valid. exact H.
Qed.

Print Assumptions C11_eof_viable_grammar.
Print Assumptions C11_eof_viable_partial.
Print Assumptions C11_eof_viable_ap.
Print Assumptions C11_eof_viable_no_exp_plus.
