(* Proofs/ViableStrSrc.v — C11 converse for the &str source (from_str), and for the skip scanner on &str.

   A `&str` is valid UTF-8 by type, also when it is a truncated document; so the UTF-8 side condition disappears.
   The model of the &str source (RStr) does not validate string contents; it coincides with the slice source on
   valid UTF-8 input (Proofs/StrSource.v).  What is needed in addition: the completed text is valid UTF-8 again.

     lang_utf8                   every text of the language (InLang) is valid UTF-8
     C11_eof_viable_str          the theorem for from_str
     C11_eof_viable_ignored_str  the skip scanner on &str input *)
From Coq Require Import List NArith ZArith Bool Arith Lia ZifyBool ZifyNat ZifyN.
From SJ Require Import Base.Bytes Base.Utf8 Base.FloatB Gen.Tables Model.Read Model.Str Model.Num Model.Value Model.De
  Model.Ignore Spec.Syntax Spec.Denote.
From SJ Require Import Proofs.Utf8Lemmas Proofs.GrammarStr Proofs.GrammarNum Proofs.GrammarValueBase Proofs.StrEscapeReject Proofs.StrEscapeUtf8
  Proofs.StrSource Proofs.ViableBase Proofs.ViableStr Proofs.ViableNum Proofs.Viable Proofs.ViableIgnore.
Import ListNotations.
Open Scope N_scope.

Local Notation render_ps s := (flat_map render_piece s).

(* ------------------------------------------------------------------------------------------ *)
(** * 1. Cutting a valid string at a character boundary *)

(* the first byte of a non-empty valid string is not a continuation byte *)
Lemma valid_head_not_cont e : utf8_valid e = true -> e <> [] -> is_cont (hd 0 e) = false.
Proof.
  intros Hv Hne.
  apply utf8_valid_head in Hv as [Hv|[(b0 & r0 & -> & Hb0 & _)|[(b0 & b1 & r0 & -> & Hs & _)|[(b0 & b1 & b2 & r0 & -> & Hs & _)|(b0 & b1 & b2 & b3 & r0 & -> & Hs & _)]]]];
    [congruence| | | |]; cbn [hd]; unrng; lia.
Qed.

Lemma valid_app_r : forall n e b, (length e <= n)%nat -> utf8_valid e = true -> utf8_valid (e ++ b) = utf8_valid b.
Proof.
  induction n as [|n IH]; intros e b Hlen Hv.
  { destruct e; [reflexivity|cbn [length] in Hlen; lia]. }
  apply utf8_valid_head in Hv as [->|[(b0 & r0 & -> & Hb0 & Hr)|[(b0 & b1 & r0 & -> & Hs & Hr)|[(b0 & b1 & b2 & r0 & -> & Hs & Hr)|(b0 & b1 & b2 & b3 & r0 & -> & Hs & Hr)]]]];
    [reflexivity| | | |]; cbn [length] in Hlen; cbn [app].
  - rewrite utf8_valid_cons_ascii by exact Hb0. apply IH; [lia|exact Hr].
  - rewrite utf8_valid_seq2 by exact Hs. apply IH; [lia|exact Hr].
  - rewrite utf8_valid_seq3 by exact Hs. apply IH; [lia|exact Hr].
  - rewrite utf8_valid_seq4 by exact Hs. apply IH; [lia|exact Hr].
Qed.

(* a valid string can be cut in front of any byte that is not a continuation byte *)
Lemma valid_cut_head : forall n a h tl, (length a <= n)%nat -> is_cont h = false ->
  utf8_valid (a ++ h :: tl) = true -> utf8_valid a = true.
Proof.
  induction n as [|n IH]; intros a h tl Hlen Hh Hv.
  { destruct a; [reflexivity|cbn [length] in Hlen; lia]. }
  apply utf8_valid_head in Hv as [Hv|[(b0 & r0 & Heq & Hb0 & Hr)|[(b0 & b1 & r0 & Heq & Hs & Hr)|[(b0 & b1 & b2 & r0 & Heq & Hs & Hr)|(b0 & b1 & b2 & b3 & r0 & Heq & Hs & Hr)]]]].
  - destruct a; discriminate Hv.
  - destruct a as [|x a']; [reflexivity|]. cbn [app length] in Heq, Hlen. injection Heq as <- <-.
    rewrite utf8_valid_cons_ascii by exact Hb0. apply (IH a' h tl); [lia|exact Hh|exact Hr].
  - destruct a as [|x [|y a']]; [reflexivity| |]; cbn [app length] in Heq, Hlen.
    + exfalso. injection Heq as <- <- _. unrng. lia.
    + injection Heq as <- <- <-. rewrite utf8_valid_seq2 by exact Hs. apply (IH a' h tl); [lia|exact Hh|exact Hr].
  - destruct a as [|x [|y [|z a']]]; [reflexivity| | |]; cbn [app length] in Heq, Hlen.
    + exfalso. injection Heq as <- <- _. unrng. lia.
    + exfalso. injection Heq as <- <- <- _. unrng. lia.
    + injection Heq as <- <- <- <-. rewrite utf8_valid_seq3 by exact Hs. apply (IH a' h tl); [lia|exact Hh|exact Hr].
  - destruct a as [|x [|y [|z [|u a']]]]; [reflexivity| | | |]; cbn [app length] in Heq, Hlen.
    + exfalso. injection Heq as <- <- _. unrng. lia.
    + exfalso. injection Heq as <- <- <- _. unrng. lia.
    + exfalso. injection Heq as <- <- <- <- _. unrng. lia.
    + injection Heq as <- <- <- <- <-. rewrite utf8_valid_seq4 by exact Hs. apply (IH a' h tl); [lia|exact Hh|exact Hr].
Qed.

Lemma valid_split_mid a e b : utf8_valid (a ++ e ++ b) = true -> utf8_valid e = true -> e <> [] ->
  utf8_valid a = true /\ utf8_valid b = true.
Proof.
  intros Hv He Hne. pose proof (valid_head_not_cont e He Hne) as Hh.
  assert (Ha : utf8_valid a = true).
  { destruct e as [|h e']; [congruence|]. cbn [hd] in Hh. cbn [app] in Hv.
    exact (valid_cut_head (length a) a h (e' ++ b) (Nat.le_refl _) Hh Hv). }
  split; [exact Ha|].
  rewrite (valid_app_r (length a) a _ (Nat.le_refl _) Ha) in Hv.
  rewrite (valid_app_r (length e) e _ (Nat.le_refl _) He) in Hv. exact Hv.
Qed.

(* ------------------------------------------------------------------------------------------ *)
(** * 2. A literal whose decoded text is valid UTF-8 is itself valid UTF-8 *)
Lemma encode_nonempty n : utf8_encode n <> [].
Proof. unfold utf8_encode. destruct (n <? 128); [discriminate|]. destruct (n <? 2048); [discriminate|]. destruct (n <? 65536); discriminate. Qed.

Lemma pieces_utf8 : forall n ps, (length ps <= n)%nat -> forall out pre,
  str_ok ps = true -> str_decode ps = Some out -> utf8_valid (pre ++ out) = true -> utf8_valid (pre ++ render_ps ps) = true.
Proof.
  induction n as [|n IH]; intros ps Hlen out pre Hok Hdec Hv.
  { destruct ps; [|cbn [length] in Hlen; lia]. cbn [str_decode] in Hdec. injection Hdec as <-. exact Hv. }
  destruct ps as [|pc r]; [cbn [str_decode] in Hdec; injection Hdec as <-; exact Hv|].
  cbn [length] in Hlen. unfold str_ok in Hok. cbn [forallb] in Hok. apply andb_prop in Hok as [Hpc Hr]. fold (str_ok r) in Hr.
  cbn [flat_map]. destruct pc as [x|c|a b c d].
  - rewrite str_decode_raw in Hdec. apply str_decode_cons_some in Hdec as (out' & Hdec' & ->).
    cbn [render_piece app]. replace (pre ++ x :: render_ps r) with ((pre ++ [x]) ++ render_ps r) by (rewrite <- app_assoc; reflexivity).
    apply (IH r ltac:(lia) out'); [exact Hr|exact Hdec'|]. rewrite <- app_assoc. exact Hv.
  - rewrite str_decode_esc in Hdec. apply str_decode_cons_some in Hdec as (out' & Hdec' & ->).
    cbn [piece_ok] in Hpc. destruct (esc_letter_ascii c Hpc) as [Hc Hev].
    apply utf8_valid_cut in Hv as [Hpre Hout]; [|exact Hev].
    cbn [render_piece app]. apply utf8_valid_join; [lia|exact Hpre|]. rewrite utf8_valid_cons_ascii by exact Hc.
    exact (IH r ltac:(lia) out' [] Hr Hdec' Hout).
  - cbn [piece_ok] in Hpc. fold (hex4 a b c d) in Hpc. destruct (hex4_ascii a b c d Hpc) as (Ha & Hb & Hc & Hd).
    rewrite str_decode_u4 in Hdec. cbv zeta in Hdec.
    destruct (is_lo_surr (u4_val a b c d)) eqn:Hlo; [discriminate Hdec|].
    assert (Hjoin : forall x, utf8_valid pre = true -> utf8_valid x = true -> utf8_valid (pre ++ [92; 117; a; b; c; d] ++ x) = true).
    { intros x Hp Hx. cbn [app]. apply utf8_valid_join; [lia|exact Hp|]. rewrite !utf8_valid_cons_ascii by (assumption || lia). exact Hx. }
    destruct (is_hi_surr (u4_val a b c d)) eqn:Hhi.
    + destruct r as [|[x|x|a' b' c' d'] r']; try discriminate Hdec.
      destruct (is_lo_surr (u4_val a' b' c' d')) eqn:Hlo2; [|discriminate Hdec].
      apply str_decode_cons_some in Hdec as (out' & Hdec' & ->).
      unfold str_ok in Hr. cbn [forallb piece_ok] in Hr. apply andb_prop in Hr as [Hh2 Hr']. fold (hex4 a' b' c' d') in Hh2. fold (str_ok r') in Hr'.
      destruct (hex4_ascii a' b' c' d' Hh2) as (Ha' & Hb' & Hc' & Hd').
      destruct (valid_split_mid pre _ out' Hv) as [Hpre Hout];
        [apply utf8_encode_valid, pair_cp_scalar; assumption|apply encode_nonempty|].
      cbn [length] in Hlen. cbn [render_piece flat_map]. apply Hjoin; [exact Hpre|].
      cbn [app]. rewrite !utf8_valid_cons_ascii by (assumption || lia).
      exact (IH r' ltac:(lia) out' [] Hr' Hdec' Hout).
    + apply str_decode_cons_some in Hdec as (out' & Hdec' & ->).
      destruct (valid_split_mid pre _ out' Hv) as [Hpre Hout]; [|apply encode_nonempty|].
      { apply utf8_encode_valid. unfold is_scalar. pose proof (u4_val_lt a b c d Hpc). unfold is_hi_surr in Hhi. unfold is_lo_surr in Hlo. lia. }
      cbn [render_piece]. apply Hjoin; [exact Hpre|]. exact (IH r ltac:(lia) out' [] Hr Hdec' Hout).
Qed.

Lemma render_str_utf8 ps : str_ok ps = true -> str_text ps <> None -> utf8_valid (render_str ps) = true.
Proof.
  intros Hok Ht. unfold str_text in Ht. destruct (str_decode ps) as [out|] eqn:Hd; [|congruence].
  destruct (utf8_valid out) eqn:Hv; [|congruence].
  unfold render_str. rewrite utf8_valid_cons_ascii by lia.
  apply utf8_valid_app; [|reflexivity].
  exact (pieces_utf8 (length ps) ps (Nat.le_refl _) out [] Hok Hd Hv).
Qed.

(* ------------------------------------------------------------------------------------------ *)
(** * 3. Every text of the language is valid UTF-8 *)
Lemma ws_valid w : ws_ok w = true -> utf8_valid w = true.
Proof.
  intros H. apply ascii_valid. unfold ws_ok in H. unfold ascii_all. revert H. apply forallb_imp.
  intros x Hx. apply ws_byte_ascii in Hx. lia.
Qed.

Lemma valid_cons_ascii_intro b r : b < 128 -> utf8_valid r = true -> utf8_valid (b :: r) = true.
Proof. intros Hb Hr. rewrite utf8_valid_cons_ascii by exact Hb. exact Hr. Qed.

Lemma render_utf8_all cf :
  (forall c, wfb c = true -> defd cf c = true -> utf8_valid (render c) = true) /\
  (forall es, wfb_elems es = true -> defd_elems cf es = true -> utf8_valid (render_elems es) = true) /\
  (forall ms, wfb_members ms = true -> defd_members cf ms = true -> utf8_valid (render_members ms) = true).
Proof.
  apply cst_elems_members_ind.
  - reflexivity.
  - reflexivity.
  - reflexivity.
  - intros n Hwf _. cbn [wfb] in Hwf. cbn [render]. rewrite render_num_abs. apply utf8_valid_app.
    + destruct (nneg n); reflexivity.
    + apply ascii_valid, render_abs_ascii, Hwf.
  - intros s Hwf Hd. cbn [wfb] in Hwf. rewrite defd_str in Hd. cbn [render]. apply render_str_utf8; [exact Hwf|].
    apply is_some_neq, Hd.
  - intros w es IH Hwf Hd. cbn [wfb] in Hwf. apply andb_prop in Hwf as [Hw Hes]. rewrite defd_arr in Hd.
    rewrite render_arr. rewrite utf8_valid_cons_ascii by lia. apply utf8_valid_app; [|reflexivity].
    destruct es as [|w1 c w2 rest]; cbn [seq_text]; [apply ws_valid, Hw|exact (IH Hes Hd)].
  - intros w ms IH Hwf Hd. cbn [wfb] in Hwf. apply andb_prop in Hwf as [Hw Hms]. rewrite defd_obj in Hd.
    rewrite render_obj. rewrite utf8_valid_cons_ascii by lia. apply utf8_valid_app; [|reflexivity].
    destruct ms as [|w1 k w2 w3 c w4 rest]; cbn [map_text]; [apply ws_valid, Hw|exact (IH Hms Hd)].
  - reflexivity.
  - intros w1 c IHc w2 rest IHr Hwf Hd. cbn [wfb_elems] in Hwf.
    apply andb_prop in Hwf as [Hwf Hrest]. apply andb_prop in Hwf as [Hwf Hw2]. apply andb_prop in Hwf as [Hw1 Hc].
    rewrite defd_econs in Hd. apply andb_prop in Hd as [Hdc Hdr].
    rewrite render_elems_cons. repeat apply utf8_valid_app; try (apply ws_valid; assumption); [exact (IHc Hc Hdc)|].
    destruct rest as [|w1' c' w2' rest']; [reflexivity|].
    cbn [tail_elems]. apply valid_cons_ascii_intro; [reflexivity|]. exact (IHr Hrest Hdr).
  - reflexivity.
  - intros w1 k w2 w3 c IHc w4 rest IHr Hwf Hd. cbn [wfb_members] in Hwf.
    apply andb_prop in Hwf as [Hwf Hrest]. apply andb_prop in Hwf as [Hwf Hw4]. apply andb_prop in Hwf as [Hwf Hc].
    apply andb_prop in Hwf as [Hwf Hw3]. apply andb_prop in Hwf as [Hwf Hw2]. apply andb_prop in Hwf as [Hw1 Hk].
    rewrite defd_mcons in Hd. apply andb_prop in Hd as [Hd Hdr]. apply andb_prop in Hd as [Hdk Hdc].
    rewrite render_members_cons. apply utf8_valid_app; [apply ws_valid, Hw1|].
    apply utf8_valid_app; [apply render_str_utf8; [exact Hk|apply is_some_neq, Hdk]|].
    apply utf8_valid_app; [apply ws_valid, Hw2|]. apply valid_cons_ascii_intro; [reflexivity|].
    apply utf8_valid_app; [apply ws_valid, Hw3|]. apply utf8_valid_app; [exact (IHc Hc Hdc)|].
    apply utf8_valid_app; [apply ws_valid, Hw4|].
    destruct rest as [|w1' k' w2' w3' c' w4' rest']; [reflexivity|].
    cbn [tail_members]. apply valid_cons_ascii_intro; [reflexivity|]. exact (IHr Hrest Hdr).
Qed.

Theorem lang_utf8 : forall cf bs, InLang cf bs -> utf8_valid bs = true.
Proof.
  intros cf bs (w1 & c & w2 & -> & Hw1 & Hw2 & Hwf & (v & Hden) & _).
  apply utf8_valid_app; [apply ws_valid, Hw1|]. apply utf8_valid_app; [|apply ws_valid, Hw2].
  apply (proj1 (render_utf8_all cf)); [exact Hwf|]. exact (defd_some cf c v Hden).
Qed.

(* ------------------------------------------------------------------------------------------ *)
(** * 4. from_str *)
Theorem C11_eof_viable_str : forall cf p c i,
  from_input (mkEnv RStr TEof cf) p = Err c i -> category c = CatEof ->
  utf8_valid p = true -> esc_tail_ok p = true -> HRnum cf p ->
  exists t v, from_input (mkEnv RStr TEof cf) (p ++ t) = Ok v.
Proof.
  intros cf p c i H Hc Hu Hl Hr. rewrite (from_input_str_slice cf p Hu) in H.
  assert (Hpre : utf8_prefix p). { exists []. split; [reflexivity|]. rewrite app_nil_r. exact Hu. }
  destruct (C11_eof_viable_partial cf p c i H Hc Hpre Hl Hr) as (t & Hlang & v & Hv).
  exists t, v. rewrite (from_input_str_slice cf (p ++ t) (lang_utf8 cf _ Hlang)). exact Hv.
Qed.

Theorem C11_eof_viable_ignored_str : forall cf p c i,
  ignored_from_input (mkEnv RStr TEof cf) p = Err c i -> category c = CatEof ->
  Forall (fun b => b < 256) p -> iesc_tail_ok p = true ->
  exists t, ignored_from_input (mkEnv RStr TEof cf) (p ++ t) = Ok tt.
Proof.
  intros cf p c i H Hc HF Hl. rewrite ignored_from_input_str_slice_E in H.
  destruct (C11_eof_viable_ignored cf p c i H Hc HF Hl) as (t & Ht).
  exists t. rewrite ignored_from_input_str_slice_E. exact Ht.
Qed.

Print Assumptions lang_utf8.
Print Assumptions C11_eof_viable_str.
Print Assumptions C11_eof_viable_ignored_str.
