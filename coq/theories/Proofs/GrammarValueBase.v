(* Proofs/GrammarValueBase.v — helper layer for the grammar theorem of the Value parser (slice reader,
   end-of-input terminated source):

     1. generic helpers ([bind] inversion, list normalisation)
     2. whitespace: the generated table is the RFC set; [skipws]; [parse_whitespace] characterised
     3. cursor helpers: [parse_ident], [enter]/[leave], [end_seq], [end_map], [parse_object_colon],
        [has_next_element], [has_next_key] — each with a forward ("_fwd") and an inversion ("_inv") lemma,
        stated on [rest]/[depth] of the cursor only ([off] and [pk] never influence a slice-reader run)
     4. one-step unfoldings / first-byte dispatch of [parse_value], [parse_seq], [parse_map]
     5. text of element / member lists ([seq_text], [map_text]); heads of rendered values
     6. fuel measure of a syntax tree and its bound by the text length
     7. depth-budget predicates *)
From SJ Require Import Base.Bytes Base.Utf8 Base.FloatB Gen.Tables Model.Read Model.Str Model.Num Model.Value Model.De
  Spec.Syntax Spec.Denote.
Require Import Lia ZifyBool ZifyNat ZifyN.
Open Scope N_scope.

(* ------------------------------------------------------------------------------------------ *)
(** * 1. Generic helpers *)

Lemma bind_ok {A B} (r : res A) (f : A -> res B) (b : B) :
  bind r f = Ok b -> exists a, r = Ok a /\ f a = Ok b.
Proof. destruct r as [a| | |]; cbn [bind]; intros H; try discriminate. exists a. split; [reflexivity|exact H]. Qed.

Ltac lnorm := repeat (rewrite <- ?app_assoc; cbn [app]).

Lemma Forall_app_r {A} (P : A -> Prop) (a b : list A) : Forall P (a ++ b) -> Forall P b.
Proof. intros H. apply Forall_app in H. tauto. Qed.
Lemma Forall_cons_r {A} (P : A -> Prop) (x : A) (b : list A) : Forall P (x :: b) -> Forall P b.
Proof. intros H. inversion H; assumption. Qed.

(* what the number layer needs to know about the byte after a number literal *)
Definition nfollow (rst : list N) : Prop :=
  match rst with
  | [] => True
  | c :: _ => is_digit c = false /\ c <> 46%N /\ c <> 101%N /\ c <> 69%N /\ c <> 43%N /\ c <> 45%N
  end.

(* what follows a value inside a JSON text: whitespace, a comma, a closing bracket/brace, or the end *)
Definition follow_ok (rst : list N) : Prop :=
  match rst with
  | [] => True
  | x :: _ => ws_byte x = true \/ x = 44 \/ x = 93 \/ x = 125
  end.

Lemma ws_byte_cases x : ws_byte x = true -> x = 32 \/ x = 9 \/ x = 10 \/ x = 13.
Proof. unfold ws_byte. lia. Qed.

Lemma follow_nfollow rst : follow_ok rst -> nfollow rst.
Proof.
  destruct rst as [|x r]; cbn [follow_ok nfollow]; [trivial|]. intros H.
  assert (Hx : x = 32 \/ x = 9 \/ x = 10 \/ x = 13 \/ x = 44 \/ x = 93 \/ x = 125).
  { destruct H as [H|H]; [apply ws_byte_cases in H|]; lia. }
  unfold is_digit. lia.
Qed.

Lemma follow_ws w l : ws_ok w = true -> follow_ok l -> follow_ok (w ++ l).
Proof.
  destruct w as [|x w]; cbn [app]; [trivial|]. unfold ws_ok. cbn [forallb follow_ok]. intros H _.
  apply andb_prop in H as [H _]. left; exact H.
Qed.

(* ------------------------------------------------------------------------------------------ *)
(** * 2. Whitespace *)

Lemma is_ws_eq b : is_ws b = ws_byte b.
Proof.
  unfold is_ws, ws_byte. change WS_SET with [9; 10; 13; 32]. cbn [existsb].
  destruct (b =? 9), (b =? 10), (b =? 13), (b =? 32); reflexivity.
Qed.

Fixpoint skipws (l : list N) : list N :=
  match l with
  | b :: r => if ws_byte b then skipws r else l
  | [] => []
  end.

Lemma skipn_span l : skipn (span_len is_ws l) l = skipws l.
Proof.
  induction l as [|a l IH]; cbn [span_len skipws]; [reflexivity|]. rewrite is_ws_eq.
  destruct (ws_byte a); cbn [skipn]; [exact IH|reflexivity].
Qed.

Lemma skipws_app w l : ws_ok w = true -> skipws (w ++ l) = skipws l.
Proof.
  unfold ws_ok. induction w as [|b w IH]; cbn [app skipws forallb]; intros H; [reflexivity|].
  apply andb_prop in H as [Hb Hw]. rewrite Hb. auto.
Qed.

Lemma skipws_head b r : ws_byte b = false -> skipws (b :: r) = b :: r.
Proof. intros H. cbn [skipws]. now rewrite H. Qed.

Lemma skipws_split l : exists w, ws_ok w = true /\ l = w ++ skipws l.
Proof.
  induction l as [|b r (w & Hw & He)]; [exists []; split; reflexivity|]. cbn [skipws].
  destruct (ws_byte b) eqn:Hb.
  - exists (b :: w). unfold ws_ok in *. cbn [forallb app]. rewrite Hb, Hw. split; [reflexivity|]. now f_equal.
  - exists []. split; reflexivity.
Qed.

Lemma skipws_hd l b r : skipws l = b :: r -> ws_byte b = false.
Proof.
  induction l as [|a l IH]; cbn [skipws]; [discriminate|]. destruct (ws_byte a) eqn:Ha; [exact IH|].
  intros [= <- <-]. exact Ha.
Qed.

Lemma skipws_idem l : skipws (skipws l) = skipws l.
Proof.
  destruct (skipws l) as [|b r] eqn:H; [reflexivity|]. apply skipws_head. eapply skipws_hd; eassumption.
Qed.

Lemma skipws_nil l : skipws l = [] <-> ws_ok l = true.
Proof.
  unfold ws_ok. induction l as [|a l IH]; cbn [skipws forallb]; [tauto|].
  destruct (ws_byte a); cbn [andb]; [exact IH|]. split; discriminate.
Qed.

Lemma ws_ok_app a b : ws_ok a = true -> ws_ok b = true -> ws_ok (a ++ b) = true.
Proof. unfold ws_ok. rewrite forallb_app. intros -> ->. reflexivity. Qed.

(* skipws of [w ++ b :: r] with w whitespace and b not *)
Lemma skipws_to w b r : ws_ok w = true -> ws_byte b = false -> skipws (w ++ b :: r) = b :: r.
Proof. intros Hw Hb. rewrite skipws_app by exact Hw. now apply skipws_head. Qed.

(* ------------------------------------------------------------------------------------------ *)
(** * 3. Cursor helpers *)

Section Helpers.
  Variable cf : cfg.
  Let E := mkEnv RSlice TEof cf.

  Lemma pw_spec s : exists s1,
    parse_whitespace E s = Ok (hd_error (rest s1), s1) /\ rest s1 = skipws (rest s) /\ depth s1 = depth s.
  Proof.
    unfold parse_whitespace, peek, advance. cbn [rest off depth]. rewrite skipn_span.
    unfold at_end. change (tm E) with TEof. cbv iota.
    destruct (skipws (rest s)) as [|b r] eqn:Hs.
    - exists (mkSt [] (off s + span_len is_ws (rest s)) false (depth s)). repeat split.
    - exists (mkSt (b :: r) (off s + span_len is_ws (rest s)) true (depth s)). repeat split.
  Qed.

  Lemma discard_rest s : rest (discard s) = tl (rest s). Proof. reflexivity. Qed.
  Lemma discard_depth s : depth (discard s) = depth s. Proof. reflexivity. Qed.

  (* ---- parse_ident ---- *)
  Lemma parse_ident_inv ident : forall s s', parse_ident E ident s = Ok s' ->
    rest s = ident ++ rest s' /\ depth s' = depth s.
  Proof.
    induction ident as [|e ident IH]; intros s s'; cbn [parse_ident].
    - intros [= <-]. split; reflexivity.
    - unfold next. destruct (rest s) as [|b r] eqn:Hr.
      + cbn. discriminate.
      + cbn [bind]. destruct (b =? e) eqn:Hbe; [|unfold error; discriminate].
        intros H. apply IH in H as [H1 H2]. cbn [rest depth] in H1, H2. apply N.eqb_eq in Hbe. subst b.
        split; [cbn [app]; now f_equal|exact H2].
  Qed.

  Lemma parse_ident_fwd ident : forall s rst, rest s = ident ++ rst ->
    exists s', parse_ident E ident s = Ok s' /\ rest s' = rst /\ depth s' = depth s.
  Proof.
    induction ident as [|e ident IH]; intros s rst Hr; cbn [parse_ident].
    - exists s. cbn [app] in Hr. auto.
    - unfold next. rewrite Hr. cbn [app bind]. rewrite N.eqb_refl.
      destruct (IH (mkSt (ident ++ rst) (S (off s)) false (depth s)) rst eq_refl) as (s' & H1 & H2 & H3).
      exists s'. auto.
  Qed.

  (* ---- enter / leave ---- *)
  Lemma enter_inv s s2 : enter E s = Ok s2 ->
    rest s2 = rest s /\
    (if limit_disabled cf then depth s2 = depth s else depth s2 = depth s - 1 /\ 2 <= depth s).
  Proof.
    unfold enter. change (limit_disabled (Read.cf E)) with (limit_disabled cf).
    destruct (limit_disabled cf).
    - intros [= <-]. auto.
    - destruct (depth s =? 0) eqn:H0; [discriminate|]. cbn [depth].
      destruct (depth s - 1 =? 0) eqn:H1; [unfold peek_error; discriminate|].
      intros [= <-]. cbn [rest depth]. split; [reflexivity|]. lia.
  Qed.

  Lemma enter_fwd s : (limit_disabled cf = false -> 2 <= depth s) ->
    exists s2, enter E s = Ok s2 /\ rest s2 = rest s /\
               depth s2 = (if limit_disabled cf then depth s else depth s - 1).
  Proof.
    intros H. unfold enter. change (limit_disabled (Read.cf E)) with (limit_disabled cf).
    destruct (limit_disabled cf).
    - exists s. auto.
    - specialize (H eq_refl). destruct (depth s =? 0) eqn:H0; [lia|]. cbn [depth].
      destruct (depth s - 1 =? 0) eqn:H1; [lia|]. eexists. split; [reflexivity|]. split; reflexivity.
  Qed.

  Lemma leave_inv s s' : leave E s = Ok s' ->
    rest s' = rest s /\ depth s' = (if limit_disabled cf then depth s else depth s + 1).
  Proof.
    unfold leave. change (limit_disabled (Read.cf E)) with (limit_disabled cf).
    destruct (limit_disabled cf).
    - intros [= <-]. auto.
    - destruct (255 <=? depth s); [discriminate|]. intros [= <-]. split; reflexivity.
  Qed.

  Lemma leave_fwd s : (limit_disabled cf = false -> depth s < 255) ->
    exists s', leave E s = Ok s' /\ rest s' = rest s /\
               depth s' = (if limit_disabled cf then depth s else depth s + 1).
  Proof.
    intros H. unfold leave. change (limit_disabled (Read.cf E)) with (limit_disabled cf).
    destruct (limit_disabled cf).
    - exists s. auto.
    - specialize (H eq_refl). destruct (255 <=? depth s) eqn:H0; [lia|]. eexists. split; [reflexivity|]. split; reflexivity.
  Qed.

  (* ---- "skip whitespace, then expect one given byte and consume it" ---- *)
  Lemma end_seq_inv s s' : end_seq E s = Ok s' -> skipws (rest s) = 93 :: rest s' /\ depth s' = depth s.
  Proof.
    unfold end_seq. destruct (pw_spec s) as (s1 & Hpw & Hr & Hd). rewrite Hpw. cbn [bind].
    rewrite <- Hr. destruct (rest s1) as [|b r] eqn:Hs1; cbn [hd_error]; [unfold peek_error; discriminate|].
    destruct (b =? 93) eqn:Hb.
    - intros [= <-]. apply N.eqb_eq in Hb. subst b. rewrite discard_rest, Hs1. cbn [tl]. auto.
    - destruct (b =? 44); [|unfold peek_error; discriminate].
      destruct (pw_spec (discard s1)) as (s2 & Hpw2 & _). rewrite Hpw2. cbn [bind].
      destruct (hd_error (rest s2)) as [b2|]; [destruct (b2 =? 93)|]; unfold peek_error; discriminate.
  Qed.

  Lemma end_seq_fwd s rst : skipws (rest s) = 93 :: rst ->
    exists s', end_seq E s = Ok s' /\ rest s' = rst /\ depth s' = depth s.
  Proof.
    intros H. unfold end_seq. destruct (pw_spec s) as (s1 & Hpw & Hr & Hd). rewrite Hpw. cbn [bind].
    rewrite H in Hr. rewrite Hr. cbn [hd_error]. rewrite N.eqb_refl. eexists. split; [reflexivity|].
    rewrite discard_rest, Hr. cbn [tl]. auto.
  Qed.

  Lemma end_map_inv s s' : end_map E s = Ok s' -> skipws (rest s) = 125 :: rest s' /\ depth s' = depth s.
  Proof.
    unfold end_map. destruct (pw_spec s) as (s1 & Hpw & Hr & Hd). rewrite Hpw. cbn [bind].
    rewrite <- Hr. destruct (rest s1) as [|b r] eqn:Hs1; cbn [hd_error]; [unfold peek_error; discriminate|].
    destruct (b =? 125) eqn:Hb.
    - intros [= <-]. apply N.eqb_eq in Hb. subst b. rewrite discard_rest, Hs1. cbn [tl]. auto.
    - destruct (b =? 44); unfold peek_error; discriminate.
  Qed.

  Lemma end_map_fwd s rst : skipws (rest s) = 125 :: rst ->
    exists s', end_map E s = Ok s' /\ rest s' = rst /\ depth s' = depth s.
  Proof.
    intros H. unfold end_map. destruct (pw_spec s) as (s1 & Hpw & Hr & Hd). rewrite Hpw. cbn [bind].
    rewrite H in Hr. rewrite Hr. cbn [hd_error]. rewrite N.eqb_refl. eexists. split; [reflexivity|].
    rewrite discard_rest, Hr. cbn [tl]. auto.
  Qed.

  Lemma colon_inv s s' : parse_object_colon E s = Ok s' -> skipws (rest s) = 58 :: rest s' /\ depth s' = depth s.
  Proof.
    unfold parse_object_colon. destruct (pw_spec s) as (s1 & Hpw & Hr & Hd). rewrite Hpw. cbn [bind].
    rewrite <- Hr. destruct (rest s1) as [|b r] eqn:Hs1; cbn [hd_error]; [unfold peek_error; discriminate|].
    destruct (b =? 58) eqn:Hb; [|unfold peek_error; discriminate].
    intros [= <-]. apply N.eqb_eq in Hb. subst b. rewrite discard_rest, Hs1. cbn [tl]. auto.
  Qed.

  Lemma colon_fwd s rst : skipws (rest s) = 58 :: rst ->
    exists s', parse_object_colon E s = Ok s' /\ rest s' = rst /\ depth s' = depth s.
  Proof.
    intros H. unfold parse_object_colon. destruct (pw_spec s) as (s1 & Hpw & Hr & Hd). rewrite Hpw. cbn [bind].
    rewrite H in Hr. rewrite Hr. cbn [hd_error]. rewrite N.eqb_refl. eexists. split; [reflexivity|].
    rewrite discard_rest, Hr. cbn [tl]. auto.
  Qed.

  (* ---- has_next_element ---- *)
  Lemma hne_inv first s o : has_next_element E first s = Ok o ->
    match o with
    | None => exists r, skipws (rest s) = 93 :: r
    | Some s1 =>
      depth s1 = depth s /\ skipws (rest s1) = rest s1 /\
      (if first then rest s1 = skipws (rest s)
       else exists r, skipws (rest s) = 44 :: r /\ rest s1 = skipws r)
    end.
  Proof.
    unfold has_next_element. destruct (pw_spec s) as (s1 & Hpw & Hr & Hd). rewrite Hpw. cbn [bind].
    rewrite <- Hr. destruct (rest s1) as [|b r] eqn:Hs1; cbn [hd_error]; [unfold peek_error; discriminate|].
    destruct (b =? 93) eqn:Hb.
    { intros [= <-]. apply N.eqb_eq in Hb. subst b. eauto. }
    destruct first.
    { intros [= <-]. split; [exact Hd|]. split; [|exact Hs1]. rewrite Hs1, Hr. apply skipws_idem. }
    destruct (b =? 44) eqn:Hc; [|unfold peek_error; discriminate]. apply N.eqb_eq in Hc. subst b.
    destruct (pw_spec (discard s1)) as (s2 & Hpw2 & Hr2 & Hd2). rewrite Hpw2. cbn [bind].
    rewrite discard_rest, Hs1 in Hr2. cbn [tl] in Hr2. rewrite discard_depth in Hd2.
    destruct (hd_error (rest s2)) as [b2|]; [|unfold peek_error; discriminate].
    destruct (b2 =? 93); [unfold peek_error; discriminate|]. intros [= <-].
    split; [congruence|]. split; [rewrite Hr2; apply skipws_idem|]. exists r. auto.
  Qed.

  Lemma hne_fwd_none first s r : skipws (rest s) = 93 :: r -> has_next_element E first s = Ok None.
  Proof.
    intros H. unfold has_next_element. destruct (pw_spec s) as (s1 & Hpw & Hr & Hd). rewrite Hpw. cbn [bind].
    rewrite H in Hr. rewrite Hr. reflexivity.
  Qed.

  Lemma hne_fwd_first s b r : skipws (rest s) = b :: r -> b <> 93 ->
    exists s1, has_next_element E true s = Ok (Some s1) /\ rest s1 = b :: r /\ depth s1 = depth s.
  Proof.
    intros H Hb. unfold has_next_element. destruct (pw_spec s) as (s1 & Hpw & Hr & Hd). rewrite Hpw. cbn [bind].
    rewrite H in Hr. rewrite Hr. cbn [hd_error]. apply N.eqb_neq in Hb. rewrite Hb. exists s1. auto.
  Qed.

  Lemma hne_fwd_more s r0 b r : skipws (rest s) = 44 :: r0 -> skipws r0 = b :: r -> b <> 93 ->
    exists s1, has_next_element E false s = Ok (Some s1) /\ rest s1 = b :: r /\ depth s1 = depth s.
  Proof.
    intros H H0 Hb. unfold has_next_element. destruct (pw_spec s) as (s1 & Hpw & Hr & Hd). rewrite Hpw. cbn [bind].
    rewrite H in Hr. rewrite Hr. cbn [hd_error]. change (44 =? 93) with false. change (44 =? 44) with true. cbv iota.
    destruct (pw_spec (discard s1)) as (s2 & Hpw2 & Hr2 & Hd2). rewrite Hpw2. cbn [bind].
    rewrite discard_rest, Hr in Hr2. cbn [tl] in Hr2. rewrite H0 in Hr2. rewrite Hr2. cbn [hd_error].
    apply N.eqb_neq in Hb. rewrite Hb. exists s2. rewrite discard_depth in Hd2. split; [reflexivity|]. split; congruence.
  Qed.

  (* ---- has_next_key ---- *)
  Lemma hnk_inv first s o : has_next_key E first s = Ok o ->
    match o with
    | None => exists r, skipws (rest s) = 125 :: r
    | Some s1 =>
      depth s1 = depth s /\ exists r1, rest s1 = 34 :: r1 /\
      (if first then skipws (rest s) = 34 :: r1
       else exists r, skipws (rest s) = 44 :: r /\ skipws r = 34 :: r1)
    end.
  Proof.
    unfold has_next_key. destruct (pw_spec s) as (s1 & Hpw & Hr & Hd). rewrite Hpw. cbn [bind].
    rewrite <- Hr. destruct (rest s1) as [|b r] eqn:Hs1; cbn [hd_error]; [unfold peek_error; discriminate|].
    destruct (b =? 125) eqn:Hb.
    { intros [= <-]. apply N.eqb_eq in Hb. subst b. eauto. }
    destruct first.
    { destruct (b =? 34) eqn:Hq; [|unfold peek_error; discriminate]. apply N.eqb_eq in Hq. subst b.
      intros [= <-]. split; [exact Hd|]. exists r. auto. }
    destruct (b =? 44) eqn:Hc; [|unfold peek_error; discriminate]. apply N.eqb_eq in Hc. subst b.
    destruct (pw_spec (discard s1)) as (s2 & Hpw2 & Hr2 & Hd2). rewrite Hpw2. cbn [bind].
    rewrite discard_rest, Hs1 in Hr2. cbn [tl] in Hr2. rewrite discard_depth in Hd2.
    destruct (rest s2) as [|b2 r2] eqn:Hs2; cbn [hd_error]; [unfold peek_error; discriminate|].
    destruct (b2 =? 34) eqn:Hq.
    - apply N.eqb_eq in Hq. subst b2. intros [= <-]. split; [congruence|]. exists r2. split; [exact Hs2|].
      exists r. auto.
    - destruct (b2 =? 125); unfold peek_error; discriminate.
  Qed.

  Lemma hnk_fwd_none first s r : skipws (rest s) = 125 :: r -> has_next_key E first s = Ok None.
  Proof.
    intros H. unfold has_next_key. destruct (pw_spec s) as (s1 & Hpw & Hr & Hd). rewrite Hpw. cbn [bind].
    rewrite H in Hr. rewrite Hr. reflexivity.
  Qed.

  Lemma hnk_fwd_first s r : skipws (rest s) = 34 :: r ->
    exists s1, has_next_key E true s = Ok (Some s1) /\ rest s1 = 34 :: r /\ depth s1 = depth s.
  Proof.
    intros H. unfold has_next_key. destruct (pw_spec s) as (s1 & Hpw & Hr & Hd). rewrite Hpw. cbn [bind].
    rewrite H in Hr. rewrite Hr. cbn [hd_error]. change (34 =? 125) with false. change (34 =? 34) with true. cbv iota.
    exists s1. auto.
  Qed.

  Lemma hnk_fwd_more s r0 r : skipws (rest s) = 44 :: r0 -> skipws r0 = 34 :: r ->
    exists s1, has_next_key E false s = Ok (Some s1) /\ rest s1 = 34 :: r /\ depth s1 = depth s.
  Proof.
    intros H H0. unfold has_next_key. destruct (pw_spec s) as (s1 & Hpw & Hr & Hd). rewrite Hpw. cbn [bind].
    rewrite H in Hr. rewrite Hr. cbn [hd_error]. change (44 =? 125) with false. change (44 =? 44) with true. cbv iota.
    destruct (pw_spec (discard s1)) as (s2 & Hpw2 & Hr2 & Hd2). rewrite Hpw2. cbn [bind].
    rewrite discard_rest, Hr in Hr2. cbn [tl] in Hr2. rewrite H0 in Hr2. rewrite Hr2. cbn [hd_error].
    change (34 =? 34) with true. cbv iota. exists s2. rewrite discard_depth in Hd2. split; [reflexivity|]. split; congruence.
  Qed.

  (* ---- de_end ---- *)
  Lemma de_end_ok s : (exists s', de_end E s = Ok s') <-> ws_ok (rest s) = true.
  Proof.
    unfold de_end. destruct (pw_spec s) as (s1 & Hpw & Hr & Hd). rewrite Hpw. cbn [bind].
    rewrite <- skipws_nil, <- Hr. destruct (rest s1) as [|b r]; cbn [hd_error].
    - split; eauto.
    - unfold peek_error. split; [intros (s' & H); discriminate|discriminate].
  Qed.

  (* ---------------------------------------------------------------------------------------- *)
  (** * 4. One-step unfoldings *)

  Lemma parse_value_S f s : parse_value (S f) E s =
    let* (o, s1) := parse_whitespace E s in
    match o with
    | None => peek_error E s1 EofWhileParsingValue
    | Some b =>
      if b =? 110 then let* s2 := parse_ident E lit_ull (discard s1) in Ok (VNull, s2)
      else if b =? 116 then let* s2 := parse_ident E lit_rue (discard s1) in Ok (VBool true, s2)
      else if b =? 102 then let* s2 := parse_ident E lit_alse (discard s1) in Ok (VBool false, s2)
      else if b =? 45 then
        let* (p, s2) := parse_any_number E false (discard s1) in Ok (visit_number_cfg E p, s2)
      else if is_digit b then
        let* (p, s2) := parse_any_number E true s1 in Ok (visit_number_cfg E p, s2)
      else if b =? 34 then
        let* (str, _, s2) := parse_str E (discard s1) in Ok (VStr str, s2)
      else if b =? 91 then
        let* s2 := enter E s1 in
        let* (vs, s3) := parse_seq f E true (discard s2) in
        let* s4 := leave E s3 in
        let* s5 := end_seq E s4 in
        Ok (VArr vs, s5)
      else if b =? 123 then
        let* s2 := enter E s1 in
        let* (es, s3) := parse_map f E true (discard s2) in
        let* s4 := leave E s3 in
        let* s5 := end_map E s4 in
        Ok (VObj (map_of_entries (preserve_order cf) es), s5)
      else peek_error E s1 ExpectedSomeValue
    end.
  Proof. reflexivity. Qed.

  Lemma parse_seq_S f first s : parse_seq (S f) E first s =
    let* o := has_next_element E first s in
    match o with
    | None => Ok ([], s)
    | Some s1 =>
      let* (v, s2) := parse_value f E s1 in
      let* (vs, s3) := parse_seq f E false s2 in
      Ok (v :: vs, s3)
    end.
  Proof. reflexivity. Qed.

  Lemma parse_map_S f first s : parse_map (S f) E first s =
    let* o := has_next_key E first s in
    match o with
    | None => Ok ([], s)
    | Some s1 =>
      let* (k, _, s2) := parse_str E (discard s1) in
      let* s3 := parse_object_colon E s2 in
      let* (v, s4) := parse_value f E s3 in
      let* (es, s5) := parse_map f E false s4 in
      Ok ((k, v) :: es, s5)
    end.
  Proof. reflexivity. Qed.

  (* the branch of parse_value taken on a given first non-whitespace byte *)
  Definition value_branch (f : nat) (b : N) (s1 : st) : res (value * st) :=
    if b =? 110 then let* s2 := parse_ident E lit_ull (discard s1) in Ok (VNull, s2)
    else if b =? 116 then let* s2 := parse_ident E lit_rue (discard s1) in Ok (VBool true, s2)
    else if b =? 102 then let* s2 := parse_ident E lit_alse (discard s1) in Ok (VBool false, s2)
    else if b =? 45 then
      let* (p, s2) := parse_any_number E false (discard s1) in Ok (visit_number_cfg E p, s2)
    else if is_digit b then
      let* (p, s2) := parse_any_number E true s1 in Ok (visit_number_cfg E p, s2)
    else if b =? 34 then
      let* (str, _, s2) := parse_str E (discard s1) in Ok (VStr str, s2)
    else if b =? 91 then
      let* s2 := enter E s1 in
      let* (vs, s3) := parse_seq f E true (discard s2) in
      let* s4 := leave E s3 in
      let* s5 := end_seq E s4 in
      Ok (VArr vs, s5)
    else if b =? 123 then
      let* s2 := enter E s1 in
      let* (es, s3) := parse_map f E true (discard s2) in
      let* s4 := leave E s3 in
      let* s5 := end_map E s4 in
      Ok (VObj (map_of_entries (preserve_order cf) es), s5)
    else peek_error E s1 ExpectedSomeValue.

  (* parse_value = skip whitespace, then dispatch on the first byte *)
  Lemma parse_value_step f s : exists s1,
    rest s1 = skipws (rest s) /\ depth s1 = depth s /\
    parse_value (S f) E s =
      match rest s1 with
      | [] => peek_error E s1 EofWhileParsingValue
      | b :: _ => value_branch f b s1
      end.
  Proof.
    destruct (pw_spec s) as (s1 & Hpw & Hr & Hd). exists s1. split; [exact Hr|]. split; [exact Hd|].
    rewrite parse_value_S, Hpw. cbn [bind]. destruct (rest s1); reflexivity.
  Qed.

  Lemma branch_null f s1 : value_branch f 110 s1 = let* s2 := parse_ident E lit_ull (discard s1) in Ok (VNull, s2).
  Proof. reflexivity. Qed.
  Lemma branch_true f s1 : value_branch f 116 s1 = let* s2 := parse_ident E lit_rue (discard s1) in Ok (VBool true, s2).
  Proof. reflexivity. Qed.
  Lemma branch_false f s1 : value_branch f 102 s1 = let* s2 := parse_ident E lit_alse (discard s1) in Ok (VBool false, s2).
  Proof. reflexivity. Qed.
  Lemma branch_minus f s1 : value_branch f 45 s1 =
    let* (p, s2) := parse_any_number E false (discard s1) in Ok (visit_number_cfg E p, s2).
  Proof. reflexivity. Qed.
  Lemma branch_quote f s1 : value_branch f 34 s1 =
    let* (str, _, s2) := parse_str E (discard s1) in Ok (VStr str, s2).
  Proof. reflexivity. Qed.
  Lemma branch_lbrack f s1 : value_branch f 91 s1 =
    let* s2 := enter E s1 in
    let* (vs, s3) := parse_seq f E true (discard s2) in
    let* s4 := leave E s3 in
    let* s5 := end_seq E s4 in
    Ok (VArr vs, s5).
  Proof. reflexivity. Qed.
  Lemma branch_lbrace f s1 : value_branch f 123 s1 =
    let* s2 := enter E s1 in
    let* (es, s3) := parse_map f E true (discard s2) in
    let* s4 := leave E s3 in
    let* s5 := end_map E s4 in
    Ok (VObj (map_of_entries (preserve_order cf) es), s5).
  Proof. reflexivity. Qed.

  (* parse_value on [w ++ b :: r]: whitespace skipped, dispatch on b *)
  Lemma pv_head f s w b r : ws_ok w = true -> ws_byte b = false -> rest s = w ++ b :: r ->
    exists s1, rest s1 = b :: r /\ depth s1 = depth s /\ parse_value (S f) E s = value_branch f b s1.
  Proof.
    intros Hw Hb Hr. destruct (parse_value_step f s) as (s1 & Hr1 & Hd1 & Heq).
    rewrite Hr, skipws_to in Hr1 by assumption. exists s1. split; [exact Hr1|]. split; [exact Hd1|].
    rewrite Heq, Hr1. reflexivity.
  Qed.

  Lemma digit_branch f b s1 : is_digit b = true ->
    value_branch f b s1 = let* (p, s2) := parse_any_number E true s1 in Ok (visit_number_cfg E p, s2).
  Proof.
    intros H. unfold value_branch. rewrite H.
    assert (H1 : (b =? 110) = false) by (unfold is_digit in H; lia).
    assert (H2 : (b =? 116) = false) by (unfold is_digit in H; lia).
    assert (H3 : (b =? 102) = false) by (unfold is_digit in H; lia).
    assert (H4 : (b =? 45) = false) by (unfold is_digit in H; lia).
    rewrite H1, H2, H3, H4. reflexivity.
  Qed.

End Helpers.

(* ------------------------------------------------------------------------------------------ *)
(** * 5. Text of element and member lists *)

Definition tail_elems (es : elems) : list N :=
  match es with ENil => [] | ECons _ _ _ _ => 44 :: render_elems es end.
Definition seq_text (first : bool) (wp : list N) (es : elems) : list N :=
  match es with
  | ENil => wp
  | ECons _ _ _ _ => if first then render_elems es else wp ++ 44 :: render_elems es
  end.
Definition tail_members (ms : members) : list N :=
  match ms with MNil => [] | MCons _ _ _ _ _ _ _ => 44 :: render_members ms end.
Definition map_text (first : bool) (wp : list N) (ms : members) : list N :=
  match ms with
  | MNil => wp
  | MCons _ _ _ _ _ _ _ => if first then render_members ms else wp ++ 44 :: render_members ms
  end.

Lemma render_elems_cons w1 c w2 rest :
  render_elems (ECons w1 c w2 rest) = w1 ++ render c ++ w2 ++ tail_elems rest.
Proof. destruct rest; cbn [render_elems tail_elems]; [now rewrite app_nil_r|reflexivity]. Qed.

Lemma render_members_cons w1 k w2 w3 c w4 rest :
  render_members (MCons w1 k w2 w3 c w4 rest)
  = w1 ++ render_str k ++ w2 ++ 58 :: w3 ++ render c ++ w4 ++ tail_members rest.
Proof. destruct rest; cbn [render_members tail_members]; [now rewrite app_nil_r|reflexivity]. Qed.

Lemma seq_text_false wp es : seq_text false wp es = wp ++ tail_elems es.
Proof. destruct es; cbn [seq_text tail_elems]; [now rewrite app_nil_r|reflexivity]. Qed.
Lemma map_text_false wp ms : map_text false wp ms = wp ++ tail_members ms.
Proof. destruct ms; cbn [map_text tail_members]; [now rewrite app_nil_r|reflexivity]. Qed.

Lemma seq_text_cons first wp w1 c w2 rest :
  seq_text first wp (ECons w1 c w2 rest)
  = (if first then [] else wp ++ [44]) ++ w1 ++ render c ++ w2 ++ tail_elems rest.
Proof. cbn [seq_text]. rewrite render_elems_cons. destruct first; lnorm; reflexivity. Qed.

Lemma map_text_cons first wp w1 k w2 w3 c w4 rest :
  map_text first wp (MCons w1 k w2 w3 c w4 rest)
  = (if first then [] else wp ++ [44]) ++ w1 ++ render_str k ++ w2 ++ 58 :: w3 ++ render c ++ w4 ++ tail_members rest.
Proof. cbn [map_text]. rewrite render_members_cons. destruct first; lnorm; reflexivity. Qed.

Lemma render_arr w es : render (CArr w es) = 91 :: seq_text true w es ++ [93].
Proof. destruct es; reflexivity. Qed.
Lemma render_obj w ms : render (CObj w ms) = 123 :: map_text true w ms ++ [125].
Proof. destruct ms; reflexivity. Qed.

Lemma render_num_abs n : render_num n = (if nneg n then [45] else []) ++ render_abs n.
Proof. reflexivity. Qed.

(* a well-formed number literal (without sign) starts with a digit *)
Lemma render_abs_head n : num_ok n = true -> exists d r, render_abs n = d :: r /\ is_digit d = true.
Proof.
  unfold num_ok, render_abs, render_num. cbn [nneg nint nfrac nexp app]. intros H.
  apply andb_prop in H as [H _]. apply andb_prop in H as [H _].
  destruct (nint n) as [|d r]; [discriminate|]. cbn [app]. exists d. eexists. split; [reflexivity|].
  unfold int_ok in H. unfold is_digit. unfold is_digit19 in H.
  destruct (d =? 48) eqn:Hd; [lia|].
  destruct d as [|p]; [discriminate|].
  assert (Hx : (49 <=? N.pos p) && (N.pos p <=? 57) && forallb is_digit r = true).
  { destruct p as [p|p|]; try exact H; destruct p as [p|p|]; try exact H; destruct p as [p|p|]; try exact H;
    destruct p as [p|p|]; try exact H; destruct p as [p|p|]; try exact H; destruct p as [p|p|]; try exact H;
    try discriminate. }
  lia.
Qed.

Lemma digit_not_ws d : is_digit d = true -> ws_byte d = false.
Proof. unfold is_digit, ws_byte. lia. Qed.

(* head of a rendered well-formed value: not whitespace, not a closing bracket *)
Lemma render_head c : wfb c = true ->
  exists b r, render c = b :: r /\ ws_byte b = false /\ b <> 93 /\ b <> 125.
Proof.
  destruct c as [| | |n|s|w es|w ms]; intros H.
  - do 2 eexists. split; [reflexivity|]. split; [reflexivity|]. split; discriminate.
  - do 2 eexists. split; [reflexivity|]. split; [reflexivity|]. split; discriminate.
  - do 2 eexists. split; [reflexivity|]. split; [reflexivity|]. split; discriminate.
  - cbn [wfb] in H. cbn [render]. rewrite render_num_abs. destruct (nneg n).
    + do 2 eexists. split; [reflexivity|]. split; [reflexivity|]. split; discriminate.
    + destruct (render_abs_head n H) as (d & r & Hr & Hd). rewrite Hr. exists d, r. split; [reflexivity|].
      split; [now apply digit_not_ws|]. unfold is_digit in Hd. lia.
  - do 2 eexists. split; [reflexivity|]. split; [reflexivity|]. split; discriminate.
  - rewrite render_arr. do 2 eexists. split; [reflexivity|]. split; [reflexivity|]. split; discriminate.
  - rewrite render_obj. do 2 eexists. split; [reflexivity|]. split; [reflexivity|]. split; discriminate.
Qed.

(* ------------------------------------------------------------------------------------------ *)
(** * 6. Fuel *)

Fixpoint vfuel (c : cst) : nat :=
  match c with
  | CArr _ es => S (sfuel es)
  | CObj _ ms => S (mfuel ms)
  | _ => 1%nat
  end
with sfuel (es : elems) : nat :=
  match es with ENil => 1%nat | ECons _ c _ rest => S (Nat.max (vfuel c) (sfuel rest)) end
with mfuel (ms : members) : nat :=
  match ms with MNil => 1%nat | MCons _ _ _ _ c _ rest => S (Nat.max (vfuel c) (mfuel rest)) end.

Lemma fuel_bound_all :
  (forall c, (vfuel c <= 2 * length (render c) + 1)%nat) /\
  (forall es, (sfuel es <= 2 * length (tail_elems es) + 1)%nat) /\
  (forall ms, (mfuel ms <= 2 * length (tail_members ms) + 1)%nat).
Proof.
  apply cst_elems_members_ind.
  - cbn. lia.
  - cbn. lia.
  - cbn. lia.
  - intros n. cbn [vfuel]. lia.
  - intros s. cbn [vfuel]. lia.
  - intros w es IH. rewrite render_arr. cbn [vfuel length]. rewrite app_length. cbn [length].
    destruct es as [|w1 c w2 rest]; [cbn [sfuel]; lia|].
    cbn [seq_text]. cbn [tail_elems length] in IH. lia.
  - intros w ms IH. rewrite render_obj. cbn [vfuel length]. rewrite app_length. cbn [length].
    destruct ms as [|w1 k w2 w3 c w4 rest]; [cbn [mfuel]; lia|].
    cbn [map_text]. cbn [tail_members length] in IH. lia.
  - cbn. lia.
  - intros w1 c IHc w2 rest IHr. cbn [tail_elems length sfuel]. rewrite render_elems_cons.
    rewrite !app_length. lia.
  - cbn. lia.
  - intros w1 k w2 w3 c IHc w4 rest IHr. cbn [tail_members length mfuel]. rewrite render_members_cons.
    rewrite !app_length. cbn [length]. rewrite !app_length. lia.
Qed.

Lemma vfuel_bound c : (vfuel c <= 2 * length (render c) + 1)%nat.
Proof. apply fuel_bound_all. Qed.

(* ------------------------------------------------------------------------------------------ *)
(** * 7. Depth budget *)

(* completeness side: enough budget for a tree of nesting depth n at cursor depth d *)
Definition dbudget (cf : cfg) (n : nat) (d : N) : Prop :=
  limit_disabled cf = false -> N.of_nat n < d /\ d <= 255.

(* soundness side: what a successful run tells about the nesting depth *)
Definition sdepth (cf : cfg) (n : nat) (d : N) : Prop :=
  limit_disabled cf = false -> n = 0%nat \/ N.of_nat n < d.

Lemma dbudget_le cf n m d : (m <= n)%nat -> dbudget cf n d -> dbudget cf m d.
Proof. unfold dbudget. intros Hle H Hl. specialize (H Hl). lia. Qed.

Definition nst_end (lit rst : list N) (off : nat) (d : N) : st :=
  mkSt rst (off + length lit) (match rst with [] => false | _ :: _ => true end) d.

Lemma DEPTH0_eq : DEPTH0 = 128.
Proof. reflexivity. Qed.
