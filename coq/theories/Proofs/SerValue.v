(* Proofs/SerValue.v — `impl Serialize for Value`: a well-formed Value is serialised to a text that denotes it
   (C03_value_render), and parses back to it (citing the parser's completeness theorem as a hypothesis). *)
From SJ Require Import Base.Bytes Base.Utf8 Base.FloatB Gen.Tables Model.Read Model.Num Model.Value Model.De Model.Sval Model.Ser Model.ValueSer
  Spec.Syntax Spec.Denote Spec.Layout Proofs.SerUtf8 Proofs.SerBase Proofs.SerRender Proofs.SerWf Proofs.SerDenote.
From Flocq Require Import Core BinarySingleNaN.
From Coq Require Import Lia ZifyBool ZifyN ZifyNat.
Open Scope N_scope.

(* ---- induction over Values ------------------------------------------------------------------------------------ *)
Section ValueInd.
  Variable P : value -> Prop.
  Hypothesis HNull : P VNull.
  Hypothesis HBool : forall b, P (VBool b).
  Hypothesis HNum : forall n, P (VNum n).
  Hypothesis HStr : forall s, P (VStr s).
  Hypothesis HArr : forall l, Forall P l -> P (VArr l).
  Hypothesis HObj : forall l, Forall (fun kv => P (snd kv)) l -> P (VObj l).
  Fixpoint value_ind' (v : value) : P v :=
    match v with
    | VNull => HNull
    | VBool b => HBool b
    | VNum n => HNum n
    | VStr s => HStr s
    | VArr l => HArr l ((fix go (l : list value) : Forall P l :=
                          match l with [] => Forall_nil _ | x :: r => Forall_cons _ (value_ind' x) (go r) end) l)
    | VObj l => HObj l ((fix go (l : list (bytes * value)) : Forall (fun kv => P (snd kv)) l :=
                          match l with [] => Forall_nil _ | (k, x) :: r => Forall_cons (k, x) (value_ind' x) (go r) end) l)
    end.
End ValueInd.

(* ---- keys of a Map: BTreeMap keeps them strictly ascending, IndexMap distinct ------------------------------------ *)
Fixpoint keys_sorted (ks : list bytes) : bool :=
  match ks with [] => true | k :: r => forallb (bytes_ltb k) r && keys_sorted r end.
Fixpoint keys_distinct (ks : list bytes) : bool :=
  match ks with [] => true | k :: r => forallb (fun k' => negb (beq_bytes k' k)) r && keys_distinct r end.
Definition keys_ok (po : bool) (ks : list bytes) : bool := if po then keys_distinct ks else keys_sorted ks.

Lemma beq_bytes_refl a : beq_bytes a a = true.
Proof. induction a as [|x a IH]; [reflexivity|]. cbn [beq_bytes]. rewrite N.eqb_refl, IH. reflexivity. Qed.

Lemma bytes_ltb_asym : forall a b, bytes_ltb a b = true -> bytes_ltb b a = false /\ beq_bytes b a = false.
Proof.
  induction a as [|x a IH]; intros [|y b] H; cbn [bytes_ltb beq_bytes] in *; try discriminate; auto.
  destruct (x <? y) eqn:E1.
  - assert (E2 : (y <? x) = false) by lia. rewrite E2. assert (E3 : (y =? x) = false) by lia. rewrite E3. auto.
  - destruct (y <? x) eqn:E2; [discriminate|]. destruct (IH b H) as [H1 H2]. rewrite H1, H2. rewrite andb_false_r. auto.
Qed.

(* inserting a key greater than all present keys into a BTreeMap appends it; a fresh key into an IndexMap too *)
Lemma bt_insert_append {A} (k : bytes) (v : A) (m : list (bytes * A)) :
  forallb (fun kv => bytes_ltb (fst kv) k) m = true -> bt_insert k v m = m ++ [(k, v)].
Proof.
  induction m as [|[k' v'] m IH]; [reflexivity|]. cbn [forallb fst bt_insert]. intros H. apply andb_true_iff in H as [H1 H2].
  destruct (bytes_ltb_asym k' k H1) as [E1 E2]. rewrite E2, E1, (IH H2). reflexivity.
Qed.
Lemma ix_insert_append {A} (k : bytes) (v : A) (m : list (bytes * A)) :
  forallb (fun kv => negb (beq_bytes k (fst kv))) m = true -> ix_insert k v m = m ++ [(k, v)].
Proof.
  induction m as [|[k' v'] m IH]; [reflexivity|]. cbn [forallb fst ix_insert]. intros H. apply andb_true_iff in H as [H1 H2].
  apply negb_true_iff in H1. rewrite H1, (IH H2). reflexivity.
Qed.

Lemma map_of_entries_sorted_gen {A} (l : list (bytes * A)) : forall acc,
  keys_sorted (map fst (acc ++ l)) = true -> fold_left (fun m kv => bt_insert (fst kv) (snd kv) m) l acc = acc ++ l.
Proof.
  induction l as [|[k v] l IH]; intros acc H; cbn [fold_left]; [rewrite app_nil_r; reflexivity|]. cbn [fst snd].
  rewrite bt_insert_append.
  - rewrite (IH (acc ++ [(k, v)])); rewrite <- app_assoc; [reflexivity | exact H].
  - clear IH. induction acc as [|[k' v'] acc IHa]; [reflexivity|]. cbn [app map fst keys_sorted] in H.
    apply andb_true_iff in H as [H1 H2]. cbn [forallb fst]. rewrite (IHa H2), andb_true_r.
    rewrite map_app in H1. rewrite forallb_app in H1. apply andb_true_iff in H1 as [_ H1]. cbn [map forallb fst] in H1.
    apply andb_true_iff in H1 as [H1 _]. exact H1.
Qed.

Lemma map_of_entries_distinct_gen {A} (l : list (bytes * A)) : forall acc,
  keys_distinct (map fst (acc ++ l)) = true -> fold_left (fun m kv => ix_insert (fst kv) (snd kv) m) l acc = acc ++ l.
Proof.
  induction l as [|[k v] l IH]; intros acc H; cbn [fold_left]; [rewrite app_nil_r; reflexivity|]. cbn [fst snd].
  rewrite ix_insert_append.
  - rewrite (IH (acc ++ [(k, v)])); rewrite <- app_assoc; [reflexivity | exact H].
  - clear IH. induction acc as [|[k' v'] acc IHa]; [reflexivity|]. cbn [app map fst keys_distinct] in H.
    apply andb_true_iff in H as [H1 H2]. cbn [forallb fst]. rewrite (IHa H2), andb_true_r.
    rewrite map_app in H1. rewrite forallb_app in H1. apply andb_true_iff in H1 as [_ H1]. cbn [map forallb fst] in H1.
    apply andb_true_iff in H1 as [H1 _]. exact H1.
Qed.

Theorem map_of_entries_id {A} (po : bool) (l : list (bytes * A)) : keys_ok po (map fst l) = true -> map_of_entries po l = l.
Proof.
  unfold keys_ok, map_of_entries, map_insert. destruct po; intros H.
  - exact (map_of_entries_distinct_gen l [] H).
  - exact (map_of_entries_sorted_gen l [] H).
Qed.

(* ---- well-formed Values ------------------------------------------------------------------------------------------ *)
Definition wf_num (cf : cfg) (n : num) : bool :=
  match n with
  | NPos u => negb (arbitrary_precision cf) && (u <=? u64_max)
  | NNeg i => negb (arbitrary_precision cf) && (- Z.of_N i64_min_abs <=? i)%Z && (i <? 0)%Z
  | NFloat f => negb (arbitrary_precision cf) && is_finite f
  | NLit s => arbitrary_precision cf && number_text_ok s
  end.

Fixpoint wf_value (cf : cfg) (v : value) : bool :=
  match v with
  | VNull | VBool _ => true
  | VNum n => wf_num cf n
  | VStr s => utf8_valid s
  | VArr l => forallb (wf_value cf) l
  | VObj l => forallb (fun kv => utf8_valid (fst kv) && wf_value cf (snd kv)) l && keys_ok (preserve_order cf) (map fst l)
  end.

(* ---- bit patterns of finite floats ---------------------------------------------------------------------------------- *)
Lemma finite_bits_shape (f : b64) : is_finite f = true ->
  bits_of_b64 f < 18446744073709551616 /\ f64_finite_bits (bits_of_b64 f) = true.
Proof.
  destruct f as [s|s| |s m e Hb]; cbn [is_finite]; try discriminate; intros _.
  - destruct s; split; reflexivity.
  - unfold bits_of_b64.
    unfold SpecFloat.bounded, SpecFloat.canonical_mantissa in Hb.
    apply andb_true_iff in Hb as [Hc He]. apply Zle_bool_imp_le in He. apply Zeq_bool_eq in Hc.
    unfold SpecFloat.fexp, SpecFloat.emin in Hc. rewrite Zpos_digits2_pos in Hc.
    pose proof (Zdigits_correct radix2 (Zpos m)) as [_ Hd]. rewrite Z.abs_eq in Hd by lia.
    assert (Hdig : (Zdigits radix2 (Zpos m) <= 53)%Z) by lia.
    assert (Hm : (Zpos m < 2 ^ 53)%Z).
    { eapply Z.lt_le_trans; [exact Hd|]. change (radix2 ^ Zdigits radix2 (Z.pos m))%Z with (2 ^ Zdigits radix2 (Z.pos m))%Z.
      apply Z.pow_le_mono_r; lia. }
    assert (Hemin : (-1074 <= e)%Z) by lia.
    assert (Hemax : (e <= 971)%Z) by lia.
    change (2 ^ 53)%Z with 9007199254740992%Z in Hm.
    unfold f64_finite_bits.
    destruct (Zpos m <? 4503599627370496)%Z eqn:Esub.
    + assert (Hm2 : N.pos m < 4503599627370496) by lia.
      destruct s.
      * split; [lia|]. replace ((9223372036854775808 + N.pos m) / 4503599627370496) with 2048; [reflexivity|].
        apply (N.div_unique _ _ _ (N.pos m)); lia.
      * split; [lia|]. cbn [N.add]. rewrite N.div_small by lia. reflexivity.
    + assert (Hm2 : 4503599627370496 <= N.pos m < 9007199254740992) by lia.
      set (E := Z.to_N (e + 1075)). assert (HE : 1 <= E <= 2046) by (unfold E; lia).
      set (r := N.pos m - 4503599627370496). assert (Hr : r < 4503599627370496) by (unfold r; lia).
      destruct s.
      * split; [lia|].
        replace ((9223372036854775808 + E * 4503599627370496 + r) / 4503599627370496) with (2048 + E);
          [| apply (N.div_unique _ _ _ r); lia].
        replace ((2048 + E) mod 2048) with E; [lia|]. apply (N.mod_unique _ _ 1); lia.
      * split; [lia|].
        replace ((0 + E * 4503599627370496 + r) / 4503599627370496) with E;
          [| apply (N.div_unique _ _ _ r); lia].
        rewrite N.mod_small by lia. lia.
Qed.

(* ---- a Value is serialised to a text that denotes it ------------------------------------------------------------------ *)
Lemma sequence_all_some {A B} (f : A -> option B) (g : A -> B) (l : list A) :
  Forall (fun a => f a = Some (g a)) l -> sequence (map f l) = Some (map g l).
Proof. induction 1 as [|a l Ha _ IH]; [reflexivity|]. cbn [map sequence]. rewrite Ha, IH. reflexivity. Qed.

Lemma sequence_ex {A B} (f : A -> option B) (l : list A) :
  Forall (fun a => exists b, f a = Some b) l -> exists r, sequence (map f l) = Some r.
Proof.
  induction 1 as [|a l [b Hb] _ [r IH]]; [exists []; reflexivity|]. exists (b :: r). cbn [map sequence]. rewrite Hb, IH. reflexivity.
Qed.

Section ValueRender.
  Variable cf : cfg.
  Variable fmt32 fmt64 : N -> bytes.
  Notation cst_of := (cst_of cf fmt32 fmt64).
  Notation image := (image cf fmt32 fmt64).

  Lemma value_cst : forall v, exists c, cst_of (sval_of_value v) = Some c.
  Proof.
    induction v using value_ind'; cbn [sval_of_value cst_of]; eauto.
    - destruct n; cbn [sval_of_num cst_of]; eauto. destruct (arbitrary_precision cf); eauto.
    - destruct (sequence_ex cst_of (map sval_of_value l)) as [r Hr]; [apply Forall_map; exact H|]. rewrite Hr. cbn. eauto.
    - set (g := fun kv : bytes * value => (SStr (fst kv), sval_of_value (snd kv))).
      destruct (sequence_ex (fun kv => pair_opt (key_pieces fmt32 fmt64 (fst kv)) (cst_of (snd kv))) (map g l)) as [r Hr].
      + apply Forall_map. eapply Forall_impl; [|exact H]. intros [k x] [c Hc]. cbn [g fst snd key_pieces] in *. rewrite Hc. cbn. eauto.
      + rewrite Hr. cbn. eauto.
  Qed.

  (* H4 (Values): ryu's text of a finite f64 reads back as that float; and, under arbitrary_precision, a number literal
     denotes itself (the parser keeps the literal: property C20) *)
  Hypothesis H4v : arbitrary_precision cf = false -> forall f, is_finite f = true ->
    num_image cf (fmt64 (bits_of_b64 f)) = Some (VNum (NFloat f)).
  Hypothesis Hlit : arbitrary_precision cf = true -> forall s, number_text_ok s = true ->
    num_image cf s = Some (VNum (NLit s)).

  Lemma value_image : forall v, wf_value cf v = true ->
    wfs (sval_of_value v) = true /\ image (sval_of_value v) = Some v.
  Proof.
    induction v using value_ind'; intros W; cbn [wf_value] in W; cbn [sval_of_value]; try (split; reflexivity).
    - destruct n as [u|i|f|s]; cbn [wf_num] in W; cbn [sval_of_num wfs image].
      + apply andb_true_iff in W as [Wa Wu]. apply negb_true_iff in Wa. split.
        * unfold int_in_range. cbn [int_lo int_hi]. unfold u64_max in Wu. lia.
        * rewrite (num_image_int cf Wa); [|unfold u64_max, i64_min_abs in *; lia].
          assert (E : (Z.of_N u <? 0)%Z = false) by lia. rewrite E, N2Z.id. reflexivity.
      + apply andb_true_iff in W as [W Wn]. apply andb_true_iff in W as [Wa Wl]. apply negb_true_iff in Wa. split.
        * unfold int_in_range. cbn [int_lo int_hi]. unfold i64_min_abs in Wl. lia.
        * rewrite (num_image_int cf Wa); [|unfold u64_max, i64_min_abs in *; lia]. rewrite Wn. reflexivity.
      + apply andb_true_iff in W as [Wa Wf]. apply negb_true_iff in Wa.
        destruct (finite_bits_shape f Wf) as [B1 B2]. split; [lia|].
        change (finite64 (bits_of_b64 f)) with (f64_finite_bits (bits_of_b64 f)). rewrite B2. apply (H4v Wa f Wf).
      + apply andb_true_iff in W as [Wa Ws]. split; [exact Ws|]. rewrite Wa. apply (Hlit Wa s Ws).
    - split; [exact W | reflexivity].
    - assert (HF : Forall (fun x => wfs (sval_of_value x) = true /\ image (sval_of_value x) = Some x) l).
      { rewrite Forall_forall in *. rewrite forallb_forall in W. intros x Hx. apply (H x Hx), (W x Hx). }
      cbn [wfs image]. split.
      + cbn [hint_ok]. rewrite map_length, Nat.eqb_refl. cbn [andb]. rewrite forallb_forall. intros sv Hsv.
        apply in_map_iff in Hsv as [x [<- Hx]]. rewrite Forall_forall in HF. apply (HF x Hx).
      + rewrite map_map. rewrite (sequence_all_some _ (fun x => x) l); [rewrite map_id; reflexivity|].
        eapply Forall_impl; [|exact HF]. intros x [_ Hx]. exact Hx.
    - apply andb_true_iff in W as [W Wk].
      assert (HF : Forall (fun kv : bytes * value => utf8_valid (fst kv) = true /\ wfs (sval_of_value (snd kv)) = true
                                                    /\ image (sval_of_value (snd kv)) = Some (snd kv)) l).
      { rewrite Forall_forall in *. rewrite forallb_forall in W. intros kv Hkv. specialize (W kv Hkv).
        apply andb_true_iff in W as [W1 W2]. split; [exact W1 | apply (H kv Hkv), W2]. }
      cbn [wfs image]. split.
      + cbn [hint_ok]. rewrite map_length, Nat.eqb_refl. cbn [andb]. rewrite forallb_forall. intros sv Hsv.
        apply in_map_iff in Hsv as [kv [<- Hkv]]. rewrite Forall_forall in HF. destruct (HF kv Hkv) as [A1 [A2 _]].
        cbn [fst snd wfs]. rewrite A1, A2. reflexivity.
      + rewrite map_map. cbn [fst snd key_text].
        rewrite (sequence_all_some _ (fun kv => kv) l).
        * rewrite map_id. cbn [option_map]. unfold obj_of. rewrite (map_of_entries_id _ l Wk). reflexivity.
        * eapply Forall_impl; [|exact HF]. intros [k x] [_ [_ Hx]]. cbn [fst snd] in *. rewrite Hx. reflexivity.
  Qed.

  (* H1: ryu prints JSON numbers *)
  Hypothesis H32 : forall b, f32_finite_bits b = true -> number_text_ok (fmt32 b) = true.
  Hypothesis H64 : forall b, f64_finite_bits b = true -> number_text_ok (fmt64 b) = true.

  Theorem C03_value_render_main : forall v, wf_value cf v = true ->
    exists bufs c,
      serialize cf fmt32 fmt64 Compact (sval_of_value v) = Ok bufs
      /\ concat bufs = render c /\ wfb c = true /\ nows c = true /\ denote cf c = Some v
      /\ (forall ind, exists bufsp, serialize cf fmt32 fmt64 (Pretty ind) (sval_of_value v) = Ok bufsp
                                    /\ concat bufsp = layout ind 0 c).
  Proof.
    intros v W. destruct (value_image v W) as [Ws Hi]. destruct (value_cst v) as [c Hc].
    destruct (serialize_ok cf fmt32 fmt64 Compact _ c Ws Hc) as [bufs [E C]].
    destruct (C03_wf_nows cf fmt32 fmt64 H32 H64 _ c Ws Hc) as [G1 G2].
    exists bufs, c. split; [exact E|]. split; [exact C|]. split; [exact G1|]. split; [exact G2|].
    split; [rewrite (C03_denotes_image cf fmt32 fmt64 H32 H64 _ c Ws Hc); exact Hi|].
    intros ind. destruct (serialize_ok cf fmt32 fmt64 (Pretty ind) _ c Ws Hc) as [bp [Ep Cp]]. exists bp. auto.
  Qed.

  (* ... and the parser reads it back, by the completeness theorem of the Value parser (Proofs/GrammarValue.v: value_complete),
     cited here as a hypothesis to keep this file independent of the parser proofs *)
  Hypothesis Hcomplete : forall bs v, Denotes cf bs v -> from_input (mkEnv RSlice TEof cf) bs = Ok v.

  Theorem C03_value_roundtrip_main : forall v, wf_value cf v = true ->
    exists bufs c, serialize cf fmt32 fmt64 Compact (sval_of_value v) = Ok bufs /\ concat bufs = render c /\
      ((limit_disabled cf = false -> (cdepth c <= 127)%nat) -> from_input (mkEnv RSlice TEof cf) (concat bufs) = Ok v).
  Proof.
    intros v W. destruct (C03_value_render_main v W) as [bufs [c [E [C [G1 [G2 [Dn _]]]]]]].
    exists bufs, c. split; [exact E|]. split; [exact C|]. intros Hd. apply Hcomplete.
    exists [], c, []. rewrite app_nil_r. cbn [app]. repeat split; auto.
  Qed.
End ValueRender.

Print Assumptions C03_value_render_main.
