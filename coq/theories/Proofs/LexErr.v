(* Proofs/LexErr.v — the error analysis of algorithm.rs multiply_exponent_extended (Model/Lex.v), independent of the float kind.

   The decimal value  x = (w + theta) * 10^exponent  (w the u64 mantissa, 0 <= theta < 1 the part of the digit string that
   did not fit, theta = 0 unless the mantissa was truncated, in which case w >= 2^60) is approximated by the normalised
   extended float (m3, e3) the function returns, and

        | x - m3 * 2^e3 |  <  errors * 2^e3          (STRICT; errors = the count handed to error_is_accurate, <= 292)

   i.e. the count, which the source calls "eighths of an ulp", bounds the error when read in WHOLE units of the 64-bit
   mantissa — which is how error_is_accurate compares it with the low mantissa bits.

     large_entry, small_entry     per-index reading of the cached powers (from LexTables' computed checks)
     core_bound                   one extended multiplication by a cached power with a one-ulp error
     mee_bound                    the theorem above *)
From Coq Require Import ZArith NArith Reals Lia Lra List Bool Psatz.
From Flocq Require Import Core BinarySingleNaN.
From SJ Require Import Base.Bytes Base.FloatB Gen.LexTables Model.Read Model.Num Model.Lex.
From SJ Require Import Proofs.FloatDefault Proofs.FloatOracle Proofs.LexExt Proofs.LexTables Proofs.LexRnd Proofs.LexBits Proofs.LexAtof.
Import ListNotations.
Open Scope Z_scope.

(* ------------------------------------------------------------------ *)
(** * the cached powers, entry by entry *)
Lemma check_entries_nth (f : N -> Z -> Z -> bool) : forall (ms : list N) (es : list Z) (k step : Z),
  check_entries f ms es k step = true ->
  forall i, (i < length ms)%nat -> f (nth i ms 0%N) (nth i es 0) (k + Z.of_nat i * step) = true.
Proof.
  induction ms as [|m ms IH]; intros es k step H i Hi; [cbn [length] in Hi; lia|].
  destruct es as [|e es]; [discriminate H|]. cbn [check_entries] in H. apply andb_prop in H. destruct H as (H0 & Hr).
  destruct i as [|i]; cbn [nth].
  - replace (k + Z.of_nat 0 * step) with k by lia. exact H0.
  - cbn [length] in Hi. replace (k + Z.of_nat (S i) * step) with ((k + step) + Z.of_nat i * step) by lia.
    apply IH; [exact Hr|lia].
Qed.

Lemma cmp_pow10_real (m e k : Z) : cmp_pow10 m e k = Rcompare (IZR m * bpow radix2 e) (powerRZ 10 k).
Proof.
  rewrite Rcompare_sym. replace (powerRZ 10 k) with (IZR 1 * powerRZ 10 k)%R by (simpl; ring).
  rewrite dcmp_spec. unfold dcmp, cmp_pow10, scale2, scale10. rewrite <- Z.compare_antisym.
  destruct (Z.leb_spec 0 e) as [He|He]; destruct (Z.leb_spec 0 k) as [Hk|Hk];
    rewrite ?(Z.max_l e 0), ?(Z.max_r e 0), ?(Z.max_l (- e) 0), ?(Z.max_r (- e) 0),
            ?(Z.max_l k 0), ?(Z.max_r k 0), ?(Z.max_l (- k) 0), ?(Z.max_r (- k) 0) by lia;
    change (2 ^ 0) with 1; change (10 ^ 0) with 1; f_equal; ring.
Qed.

Definition TenK (li : Z) : R := powerRZ 10 (10 * li - 350).

Lemma large_entry : forall li : Z, 0 <= li < 66 ->
  let fp := get_large (Z.to_nat li) in
  2 ^ 63 <= Z.of_N (mant fp) < 2 ^ 64 /\
  (IZR (Z.of_N (mant fp) - 1) * bpow radix2 (exp fp) < TenK li < IZR (Z.of_N (mant fp) + 1) * bpow radix2 (exp fp))%R.
Proof.
  intros li Hli fp. destruct large_powers_one_ulp as (Hchk & Hlen & Hbias).
  pose proof (check_entries_nth one_ulp_entry _ _ _ _ Hchk (Z.to_nat li) ltac:(rewrite Hlen; lia)) as H.
  unfold fp, get_large. cbn [mant exp].
  set (m := nth (Z.to_nat li) BASE10_LARGE_MANTISSA 0%N) in *. set (e := nth (Z.to_nat li) BASE10_LARGE_EXPONENT 0) in *.
  unfold one_ulp_entry in H. apply andb_prop in H. destruct H as (H & H3). apply andb_prop in H. destruct H as (H1 & H2).
  unfold normalised in H1. apply andb_prop in H1. destruct H1 as (Hn1 & Hn2). apply N.leb_le in Hn1. apply N.ltb_lt in Hn2.
  split; [change (2 ^ 63) with 9223372036854775808; change (2 ^ 64) with 18446744073709551616; lia|].
  rewrite Z2Nat.id in H2, H3 by lia.
  assert (HK : - BASE10_BIAS + li * BASE10_STEP = 10 * li - 350) by (rewrite Hbias; unfold BASE10_STEP; lia).
  rewrite HK in H2, H3. rewrite cmp_pow10_real in H2, H3. unfold TenK.
  split.
  - destruct (Rcompare_spec (IZR (Z.of_N m - 1) * bpow radix2 e) (powerRZ 10 (10 * li - 350))); [assumption|discriminate|discriminate].
  - destruct (Rcompare_spec (IZR (Z.of_N m + 1) * bpow radix2 e) (powerRZ 10 (10 * li - 350))); [discriminate|discriminate|assumption].
Qed.

Lemma small_entry : forall si : Z, 0 <= si < 10 ->
  let fp := get_small (Z.to_nat si) in
  get_small_int (Z.to_nat si) = Z.to_N (10 ^ si) /\
  2 ^ 63 <= Z.of_N (mant fp) < 2 ^ 64 /\
  (IZR (Z.of_N (mant fp)) * bpow radix2 (exp fp) = IZR (10 ^ si))%R.
Proof.
  intros si Hsi fp. destruct small_powers_exact as (Hchk & Hint & Hlen & _).
  pose proof (check_entries_nth exact_entry _ _ _ _ Hchk (Z.to_nat si) ltac:(rewrite Hlen; lia)) as H.
  split.
  - unfold get_small_int. rewrite Hint.
    rewrite (nth_indep _ 0%N (Z.to_N (10 ^ Z.of_nat 0))) by (rewrite map_length, seq_length; lia).
    rewrite (map_nth (fun i => Z.to_N (10 ^ Z.of_nat i))). rewrite seq_nth by lia. rewrite Nat.add_0_l, Z2Nat.id by lia. reflexivity.
  - unfold fp, get_small. cbn [mant exp].
    set (m := nth (Z.to_nat si) BASE10_SMALL_MANTISSA 0%N) in *. set (e := nth (Z.to_nat si) BASE10_SMALL_EXPONENT 0) in *.
    unfold exact_entry in H. apply andb_prop in H. destruct H as (H1 & H2).
    unfold normalised in H1. apply andb_prop in H1. destruct H1 as (Hn1 & Hn2). apply N.leb_le in Hn1. apply N.ltb_lt in Hn2.
    split; [change (2 ^ 63) with 9223372036854775808; change (2 ^ 64) with 18446744073709551616; lia|].
    rewrite Z2Nat.id in H2 by lia. replace (0 + si * 1) with si in H2 by lia. rewrite cmp_pow10_real in H2.
    rewrite powerRZ_10_nonneg in H2 by lia.
    destruct (Rcompare_spec (IZR (Z.of_N m) * bpow radix2 e) (IZR (10 ^ si))); [discriminate|assumption|discriminate].
Qed.

(* ------------------------------------------------------------------ *)
(** * one multiplication by a cached power *)
Notation R64 := 18446744073709551616%R.
Notation R63 := 9223372036854775808%R.

Lemma core_bound (a b delta rho eps B U : R) :
  (0 <= a <= R64 - 1)%R -> (0 < b + delta <= R64)%R -> (Rabs delta < 1)%R -> (Rabs rho <= R63)%R -> (Rabs eps <= B)%R -> (0 < U)%R ->
  (Rabs ((a + eps) * (b + delta) * U - (a * b + rho) * U) < (3 / 2 + B) * R64 * U)%R.
Proof.
  intros Ha Hb Hd Hr He HU.
  replace ((a + eps) * (b + delta) * U - (a * b + rho) * U)%R with ((a * delta + eps * (b + delta) - rho) * U)%R by ring.
  rewrite Rabs_mult, (Rabs_pos_eq U) by lra. apply Rmult_lt_compat_r; [exact HU|].
  apply Rabs_def2 in Hd. apply Rabs_le_inv in Hr. apply Rabs_le_inv in He.
  assert (H1 : (- (R64 - 1) <= a * delta <= R64 - 1)%R) by (split; nra).
  assert (H2 : (- (B * R64) <= eps * (b + delta) <= B * R64)%R) by (split; nra).
  apply Rabs_def1; lra.
Qed.

(* ------------------------------------------------------------------ *)
(** * multiply_exponent_extended *)
Lemma clz64_small (w : N) : (0 < w)%N -> 2 ^ 60 <= Z.of_N w < 2 ^ 64 -> 0 <= clz64 w <= 3.
Proof.
  intros Hpos Hw. destruct (clz64_spec w Hpos ltac:(unfold two64N; change (2 ^ 64) with 18446744073709551616 in Hw; lia)) as (Hc & Hv).
  split; [lia|]. destruct (Z.le_gt_cases (clz64 w) 3) as [H|H]; [exact H|exfalso].
  assert (2 ^ 4 <= 2 ^ clz64 w) by (apply Z.pow_le_mono_r; lia). change (2 ^ 4) with 16 in *.
  change (2 ^ 60) with 1152921504606846976 in *. change (2 ^ 64) with 18446744073709551616 in *. nia.
Qed.

Lemma sat_id (z : Z) : -2147483648 <= z <= 2147483647 -> i32_sat z = z.
Proof. unfold i32_sat. lia. Qed.

Lemma scale_shift (A : R) (a sh : Z) : 0 <= sh ->
  (A * IZR (2 ^ sh) * bpow radix2 (a + 64 - sh) = A * 18446744073709551616 * bpow radix2 a)%R.
Proof.
  intros Hsh. replace (a + 64 - sh) with (a + (64 + - sh)) by lia. rewrite bpow_plus, (bpow_plus radix2 64).
  change (bpow radix2 64) with 18446744073709551616%R.
  assert (Hone : (IZR (2 ^ sh) * bpow radix2 (- sh) = 1)%R).
  { rewrite <- (bpow_IZR sh) by lia. rewrite <- bpow_plus. replace (sh + - sh) with 0 by lia. reflexivity. }
  replace (A * IZR (2 ^ sh) * (bpow radix2 a * (18446744073709551616 * bpow radix2 (- sh))))%R
    with (A * 18446744073709551616 * bpow radix2 a * (IZR (2 ^ sh) * bpow radix2 (- sh)))%R by ring.
  rewrite Hone. ring.
Qed.

Lemma bpow_split (a b : Z) : bpow radix2 (a + b) = (bpow radix2 a * bpow radix2 b)%R.
Proof. apply bpow_plus. Qed.

Theorem mee_bound : forall (k : fkind) (w : N) (exponent : Z) (truncated : bool) (theta : R),
  (0 < w)%N -> (w < two64N)%N -> 0 <= exponent + 350 < 660 ->
  (0 <= theta < 1)%R -> (theta = 0%R \/ (truncated = true /\ 2 ^ 60 <= Z.of_N w)) ->
  let x := ((IZR (Z.of_N w) + theta) * powerRZ 10 exponent)%R in
  exists (m3 : N) (e3 : Z) (err : N),
    multiply_exponent_extended k (mkEF w 0) exponent truncated = (mkEF m3 e3, error_is_accurate k err (mkEF m3 e3)) /\
    (9223372036854775808 <= m3 < two64N)%N /\ 1 <= Z.of_N err <= 292 /\
    (Rabs (x - IZR (Z.of_N m3) * bpow radix2 e3) < IZR (Z.of_N err) * bpow radix2 e3)%R.
Proof.
  intros k w exponent truncated theta Hw0 Hw64 Hex Hth Htr x.
  unfold multiply_exponent_extended. cbn [mant exp].
  rewrite (sat_id (exponent + BASE10_BIAS)) by (unfold BASE10_BIAS; lia).
  change BASE10_BIAS with 350. change BASE10_STEP with 10.
  set (ex := exponent + 350) in *.
  rewrite Z.rem_mod_nonneg, Z.quot_div_nonneg by lia.
  set (si := ex mod 10). set (li := ex / 10).
  assert (Hsi : 0 <= si < 10) by (unfold si; apply Z.mod_pos_bound; lia).
  assert (Hli : 0 <= li < 66) by (unfold li; split; [apply Z.div_pos; lia|apply Z.div_lt_upper_bound; lia]).
  assert (Hexp : exponent = si + (10 * li - 350)) by (unfold si, li, ex; pose proof (Z.div_mod (exponent + 350) 10 ltac:(lia)); lia).
  replace (ex <? 0) with false by (symmetry; apply Z.ltb_ge; lia).
  replace (Z.of_nat (length BASE10_LARGE_MANTISSA) <=? li) with false
    by (symmetry; apply Z.leb_gt; destruct large_powers_one_ulp as (_ & -> & _); lia).
  destruct (small_entry si Hsi) as (Hsint & Hsn & Hsv). cbv zeta in Hsn, Hsv.
  destruct (large_entry li Hli) as (Hln & Hlv). cbv zeta in Hln, Hlv.
  rewrite Hsint.
  set (SM := get_small (Z.to_nat si)) in *. set (LG := get_large (Z.to_nat li)) in *.
  set (ml := Z.of_N (mant LG)) in *. set (el := exp LG) in *.
  (* the large power as (ml + delta) * 2^el *)
  pose proof (bpow_gt_0 radix2 el) as Hbel.
  set (delta := (TenK li / bpow radix2 el - IZR ml)%R).
  assert (HTen : (TenK li = (IZR ml + delta) * bpow radix2 el)%R) by (unfold delta; field; lra).
  assert (Hdelta : (Rabs delta < 1)%R).
  { rewrite minus_IZR in Hlv. rewrite plus_IZR in Hlv. rewrite HTen in Hlv. apply Rabs_def1; nra. }
  assert (HTpos : (0 < TenK li)%R) by (unfold TenK; apply powerRZ_lt; lra).
  assert (Hbd : (0 < IZR ml + delta <= R64)%R).
  { split; [rewrite HTen in HTpos; nra|]. apply Rabs_def2 in Hdelta.
    assert (IZR ml <= IZR (2 ^ 64 - 1))%R by (apply IZR_le; lia). rewrite minus_IZR in H.
    change (IZR (2 ^ 64)) with R64 in H. lra. }
  assert (Hx : x = ((IZR (Z.of_N w) + theta) * IZR (10 ^ si) * TenK li)%R).
  { unfold x, TenK. rewrite Hexp at 1. rewrite powerRZ_add by lra. rewrite powerRZ_10_nonneg by lia. ring. }
  assert (P10 : 0 < 10 ^ si) by (apply pow10_pos; lia).
  (* the error count before the final shift *)
  set (errors0 := if truncated then N.shiftl ERROR_SCALE (Z.to_N (Z.min (clz64 w) 3)) else 0%N).
  assert (He0 : 0 <= Z.of_N errors0 <= 64 /\
                (truncated = true /\ 2 ^ 60 <= Z.of_N w -> Z.of_N errors0 = 8 * 2 ^ clz64 w /\ 0 <= clz64 w <= 3)).
  { unfold errors0. destruct truncated.
    - rewrite N.shiftl_mul_pow2. change ERROR_SCALE with 8%N.
      destruct (clz64_spec w Hw0 Hw64) as (Hc & _).
      rewrite N2Z.inj_mul, N2Z.inj_pow, Z2N.id by lia. change (Z.of_N 8) with 8. change (Z.of_N 2) with 2.
      split.
      + assert (1 <= 2 ^ Z.min (clz64 w) 3 <= 2 ^ 3) by (split; [apply (Z.pow_le_mono_r 2 0); lia|apply Z.pow_le_mono_r; lia]).
        change (2 ^ 3) with 8 in *. lia.
      + intros (_ & Hbig). pose proof (clz64_small w Hw0 ltac:(unfold two64N in Hw64; change (2 ^ 64) with 18446744073709551616; lia)) as Hc3.
        rewrite Z.min_l by lia. split; [reflexivity|exact Hc3].
    - split; [cbn; lia|]. intros (Hf & _). discriminate Hf. }
  destruct He0 as (He0 & He0t).
  set (prod := (w * Z.to_N (10 ^ si))%N).
  assert (Hprod : Z.of_N prod = Z.of_N w * 10 ^ si) by (unfold prod; rewrite N2Z.inj_mul, Z2N.id by lia; reflexivity).
  (* the two ways of multiplying by the small power: a normalised (m1, e1) with
       (w + theta) * 10^si = (m1 + eps) * 2^e1,  |eps| <= B1,  and the error count errors1 *)
  assert (Hstep1 : exists (fp1 : efloat) (errors1 : N) (eps B1 : R),
            (if (two64N <=? prod)%N then (ef_mul (fst (ef_normalize (mkEF w 0))) SM, (errors0 + ERROR_HALFSCALE)%N)
             else (fst (ef_normalize (mkEF prod 0)), errors0)) = (fp1, errors1) /\
            2 ^ 62 <= Z.of_N (mant fp1) < 2 ^ 64 /\
            ((IZR (Z.of_N w) + theta) * IZR (10 ^ si) = (IZR (Z.of_N (mant fp1)) + eps) * bpow radix2 (exp fp1))%R /\
            (Rabs eps <= B1)%R /\ Z.of_N errors0 <= Z.of_N errors1 <= Z.of_N errors0 + 4 /\
            (3 / 2 + B1 < IZR (Z.of_N (if (0 <? errors1)%N then errors1 + 1 else errors1)%N + 4))%R).
  { destruct (N.leb_spec two64N prod) as [Hov|Hfit].
    - (* extended multiplication by the small power *)
      pose proof (ef_normalize_spec (mkEF w 0) Hw0 Hw64) as Hn. destruct (ef_normalize (mkEF w 0)) as (r0, sh0) eqn:Hn0.
      cbn [mant exp fst] in *. destruct Hn as (Hsh0 & He0' & Hm0 & Hm0n).
      pose proof (ef_mul_round r0 SM ltac:(unfold two64N; change (2 ^ 64) with 18446744073709551616 in Hm0n; lia)
                    ltac:(unfold two64N; change (2 ^ 64) with 18446744073709551616 in Hsn; lia)) as Hmul.
      cbv zeta in Hmul. destruct Hmul as (Hme & Hmr).
      set (fp1 := ef_mul r0 SM) in *. set (m1 := Z.of_N (mant fp1)) in *. set (m0 := Z.of_N (mant r0)) in *.
      set (ms := Z.of_N (mant SM)) in *.
      assert (Hclz : sh0 = clz64 w).
      { unfold ef_normalize in Hn0. cbn [mant] in Hn0. replace (N.eqb w 0) with false in Hn0 by (symmetry; apply N.eqb_neq; lia).
        injection Hn0 as _ Hs. symmetry. exact Hs. }
      exists fp1, (errors0 + ERROR_HALFSCALE)%N,
             ((IZR (2 ^ 64 * m1 - m0 * ms) * -1 + theta * IZR (2 ^ sh0) * IZR ms) / R64)%R,
             (1 / 2 + theta * IZR (2 ^ sh0))%R.
      assert (Hp0 : 0 < 2 ^ sh0) by (apply pow2_pos; lia).
      split; [reflexivity|]. split.
      { fold m1. change (2 ^ 62) with 4611686018427387904. change (2 ^ 63) with 9223372036854775808 in *.
        change (2 ^ 64) with 18446744073709551616 in *. nia. }
      split.
      { (* value *)
        rewrite Hme, He0'. fold m1.
        replace (0 - sh0 + exp SM + 64) with (64 + (exp SM + (- sh0))) by lia.
        rewrite !bpow_split. rewrite <- Hsv. fold ms.
        assert (Hw' : IZR (Z.of_N w) = (IZR m0 * bpow radix2 (- sh0))%R).
        { rewrite Hm0, mult_IZR, <- (bpow_IZR sh0) by lia. rewrite Rmult_assoc, <- bpow_plus.
          replace (sh0 + - sh0) with 0 by lia. simpl. ring. }
        assert (Hone : (IZR (2 ^ sh0) * bpow radix2 (- sh0) = 1)%R).
        { rewrite <- (bpow_IZR sh0) by lia. rewrite <- bpow_plus. replace (sh0 + - sh0) with 0 by lia. reflexivity. }
        rewrite Hw'. rewrite minus_IZR, !mult_IZR. change (bpow radix2 64) with R64. change (IZR (2 ^ 64)) with R64.
        pose proof (bpow_gt_0 radix2 (- sh0)) as Hb0. pose proof (bpow_gt_0 radix2 (exp SM)) as HbS.
        set (bs := bpow radix2 (- sh0)) in *. set (bS := bpow radix2 (exp SM)) in *. set (p := IZR (2 ^ sh0)) in *.
        replace theta with (theta * (p * bs))%R at 1 by (rewrite Hone; ring). field. }
      split.
      { (* |eps| *)
        unfold Rdiv. rewrite Rabs_mult, (Rabs_pos_eq (/ R64)) by (apply Rlt_le, Rinv_0_lt_compat; lra).
        apply Rmult_le_reg_r with R64; [lra|]. rewrite Rmult_assoc, Rinv_l, Rmult_1_r by lra.
        assert (Hr1 : (- R63 <= IZR (2 ^ 64 * m1 - m0 * ms) <= R63)%R).
        { split; [change (- R63)%R with (IZR (- 2 ^ 63))|change R63 with (IZR (2 ^ 63))]; apply IZR_le; lia. }
        assert (Hms : (0 <= IZR ms <= R64)%R) by (split; [apply IZR_le; lia|change R64 with (IZR (2 ^ 64)); apply IZR_le; lia]).
        assert (Hp : (0 < IZR (2 ^ sh0))%R) by (apply IZR_lt; exact Hp0).
        set (t := (theta * IZR (2 ^ sh0))%R).
        assert (Ht : (0 <= t)%R) by (unfold t; nra).
        assert (Htm : (0 <= t * IZR ms <= t * R64)%R) by (split; nra).
        apply Rabs_le. split; lra. }
      split.
      { change ERROR_HALFSCALE with 4%N. lia. }
      { change ERROR_HALFSCALE with 4%N.
        replace (0 <? errors0 + 4)%N with true by (symmetry; apply N.ltb_lt; lia).
        replace (Z.of_N (errors0 + 4 + 1) + 4) with (Z.of_N errors0 + 9) by lia. rewrite plus_IZR.
        destruct Htr as [Ht0|Htt].
        - rewrite Ht0. assert (0 <= IZR (Z.of_N errors0))%R by (apply IZR_le; lia). simpl (IZR 9). lra.
        - destruct (He0t Htt) as (Hev & Hc3). rewrite Hev, Hclz.
          assert (Hpc : 0 < 2 ^ clz64 w) by (apply pow2_pos; lia).
          rewrite mult_IZR. assert (0 < IZR (2 ^ clz64 w))%R by (apply IZR_lt; exact Hpc). simpl (IZR 8). simpl (IZR 9). nra. }
    - (* exact integer multiplication *)
      assert (Hp0 : (0 < prod)%N) by lia.
      pose proof (ef_normalize_spec (mkEF prod 0) Hp0 Hfit) as Hn. destruct (ef_normalize (mkEF prod 0)) as (r1, sh1) eqn:Hn1.
      cbn [mant exp fst] in *. destruct Hn as (Hsh1 & He1 & Hm1 & Hm1n).
      set (g := 10 ^ si * 2 ^ sh1).
      assert (Hp1 : 0 < 2 ^ sh1) by (apply pow2_pos; lia).
      exists r1, errors0, (theta * IZR g)%R, (theta * IZR g)%R.
      split; [reflexivity|]. split; [change (2 ^ 62) with 4611686018427387904; change (2 ^ 63) with 9223372036854775808 in *; lia|].
      assert (Hg0 : (0 < IZR g)%R) by (apply IZR_lt; unfold g; nia).
      split.
      { rewrite He1, Hm1, Hprod. unfold g. rewrite !mult_IZR.
        assert (Hone : (IZR (2 ^ sh1) * bpow radix2 (0 - sh1) = 1)%R).
        { rewrite <- (bpow_IZR sh1) by lia. rewrite <- bpow_plus. replace (sh1 + (0 - sh1)) with 0 by lia. reflexivity. }
        set (p := IZR (2 ^ sh1)) in *. set (bs := bpow radix2 (0 - sh1)) in *.
        replace ((IZR (Z.of_N w) * IZR (10 ^ si) * p + theta * (IZR (10 ^ si) * p)) * bs)%R
          with ((IZR (Z.of_N w) + theta) * IZR (10 ^ si) * (p * bs))%R by ring.
        rewrite Hone. ring. }
      split; [rewrite Rabs_pos_eq by nra; lra|].
      split; [lia|].
      destruct Htr as [Ht0|Htt].
      + rewrite Ht0, Rmult_0_l.
        assert (0 <= IZR (Z.of_N (if (0 <? errors0)%N then (errors0 + 1)%N else errors0)))%R by (apply IZR_le; lia).
        rewrite plus_IZR. simpl (IZR 4). lra.
      + destruct (He0t Htt) as (Hev & Hc3).
        replace (0 <? errors0)%N with true by (symmetry; apply N.ltb_lt; assert (0 < 2 ^ clz64 w) by (apply pow2_pos; lia); lia).
        replace (Z.of_N (errors0 + 1) + 4) with (Z.of_N errors0 + 5) by lia. rewrite plus_IZR, Hev.
        (* g * w = m1 < 2^64 <= 2 * 2^clz * w *)
        destruct (clz64_spec w Hw0 Hw64) as (_ & Hcv).
        assert (Hgw : g * Z.of_N w < 2 ^ 64) by (unfold g; rewrite Hm1, Hprod in Hm1n; nia).
        assert (Hg : g < 2 * 2 ^ clz64 w).
        { assert (Hpc : 0 < 2 ^ clz64 w) by (apply pow2_pos; lia).
          change (2 ^ 64) with (2 * 2 ^ 63) in Hgw. nia. }
        assert (IZR g <= IZR (2 * 2 ^ clz64 w - 1))%R by (apply IZR_le; lia).
        rewrite minus_IZR, mult_IZR in H. rewrite mult_IZR. simpl (IZR 8). simpl (IZR 5). simpl (IZR 2) in H. simpl (IZR 1) in H.
        assert (0 < IZR (2 ^ clz64 w))%R by (apply IZR_lt, pow2_pos; lia). nra. }
  destruct Hstep1 as (fp1 & errors1 & eps & B1 & Hstep & Hm1 & Hv1 & Heps & Herr1 & Hbook).
  fold errors0 prod. rewrite Hstep. clear Hstep.
  (* multiplication by the large power *)
  pose proof (ef_mul_round fp1 LG ltac:(unfold two64N; change (2 ^ 64) with 18446744073709551616 in Hm1; lia)
                ltac:(unfold two64N; fold ml; change (2 ^ 64) with 18446744073709551616 in Hln; lia)) as Hmul.
  cbv zeta in Hmul. destruct Hmul as (Hme2 & Hmr2). fold ml el in Hme2, Hmr2.
  set (fp2 := ef_mul fp1 LG) in *. set (m1 := Z.of_N (mant fp1)) in *. set (m2 := Z.of_N (mant fp2)) in *.
  assert (Hm2 : 2 ^ 61 <= m2 < 2 ^ 64).
  { change (2 ^ 61) with 2305843009213693952. change (2 ^ 62) with 4611686018427387904 in *.
    change (2 ^ 63) with 9223372036854775808 in *. change (2 ^ 64) with 18446744073709551616 in *. nia. }
  set (errors3 := ((if (0 <? errors1)%N then errors1 + 1 else errors1) + ERROR_HALFSCALE)%N).
  assert (He3 : Z.of_N errors3 = Z.of_N (if (0 <? errors1)%N then (errors1 + 1)%N else errors1) + 4)
    by (unfold errors3; change ERROR_HALFSCALE with 4%N; lia).
  assert (He3r : 1 <= Z.of_N errors3 <= 73) by (rewrite He3; destruct (0 <? errors1)%N; lia).
  pose proof (ef_normalize_spec fp2 ltac:(unfold m2 in Hm2; change (2 ^ 61) with 2305843009213693952 in Hm2; lia)
                ltac:(unfold two64N; unfold m2 in Hm2; change (2 ^ 64) with 18446744073709551616 in Hm2; lia)) as Hn3.
  destruct (ef_normalize fp2) as (fp3, sh) eqn:Hn3e. destruct Hn3 as (Hsh & He3' & Hm3 & Hm3n).
  exists (mant fp3), (exp fp3), (N.shiftl errors3 (Z.to_N sh)).
  assert (Hp : 0 < 2 ^ sh) by (apply pow2_pos; lia).
  assert (Hsh2 : 2 ^ sh <= 4).
  { destruct (Z.le_gt_cases sh 2) as [Hle|Hgt]; [change 4 with (2 ^ 2); apply Z.pow_le_mono_r; lia|exfalso].
    assert (H8 : 2 ^ 3 <= 2 ^ sh) by (apply Z.pow_le_mono_r; lia). change (2 ^ 3) with 8 in H8.
    fold m2 in Hm3. rewrite Hm3 in Hm3n.
    assert (Hc : 2 ^ 61 * 8 <= m2 * 2 ^ sh) by (apply Z.mul_le_mono_nonneg; lia).
    change (2 ^ 61 * 8) with (2 ^ 64) in Hc. lia. }
  assert (Herr4 : Z.of_N (N.shiftl errors3 (Z.to_N sh)) = Z.of_N errors3 * 2 ^ sh).
  { rewrite N.shiftl_mul_pow2, N2Z.inj_mul, N2Z.inj_pow, Z2N.id by lia. reflexivity. }
  split; [destruct fp3; reflexivity|].
  split; [unfold two64N; change (2 ^ 63) with 9223372036854775808 in Hm3n; change (2 ^ 64) with 18446744073709551616 in Hm3n; lia|].
  split; [rewrite Herr4; split; [nia|apply Z.le_trans with (73 * 4); [apply Z.mul_le_mono_nonneg; lia|lia]]|].
  (* the value *)
  rewrite Herr4, Hm3, He3', Hme2. fold m2.
  set (U := bpow radix2 (exp fp1 + el)).
  assert (HU : (0 < U)%R) by apply bpow_gt_0.
  assert (HF : (IZR (m2 * 2 ^ sh) * bpow radix2 (exp fp1 + el + 64 - sh) = (IZR m1 * IZR ml + IZR (2 ^ 64 * m2 - m1 * ml)) * U)%R).
  { rewrite mult_IZR. unfold U. rewrite scale_shift by lia.
    rewrite minus_IZR, !mult_IZR. change (IZR (2 ^ 64)) with R64. ring. }
  assert (HE : (IZR (Z.of_N errors3 * 2 ^ sh) * bpow radix2 (exp fp1 + el + 64 - sh) = IZR (Z.of_N errors3) * R64 * U)%R).
  { rewrite mult_IZR. unfold U. rewrite scale_shift by lia. reflexivity. }
  rewrite HF, HE.
  assert (Hxx : x = ((IZR m1 + eps) * (IZR ml + delta) * U)%R).
  { rewrite Hx, Hv1, HTen. unfold U. rewrite bpow_split. fold m1. ring. }
  rewrite Hxx.
  apply Rlt_le_trans with ((3 / 2 + B1) * R64 * U)%R.
  - apply core_bound; try assumption.
    + split; [apply IZR_le; lia|]. replace (R64 - 1)%R with (IZR (2 ^ 64 - 1)) by (rewrite minus_IZR; reflexivity).
      apply IZR_le. lia.
    + apply Rabs_le. split; [change (- R63)%R with (IZR (- 2 ^ 63))|change R63 with (IZR (2 ^ 63))]; apply IZR_le; lia.
  - apply Rmult_le_compat_r; [lra|]. apply Rmult_le_compat_r; [lra|]. rewrite He3. lra.
Qed.

Print Assumptions mee_bound.
